/-
  Penman.Proofs.TransformDecodeAttr — `reify_attributes` preserves the invariant `DecOK`.
-/
import Penman.Proofs.TransformDecodeReify
namespace Penman.C12dec
open Penman Penman.Spec Penman.C03Text

theorem isGenName_attrVar (vars : List Str) (i : Nat) : isGenName (attrVar vars i).1 = true := by
  unfold attrVar
  split
  · obtain ⟨j, _, _, h3, _, _⟩ := attrVarLoop_spec vars (vars.length + 1) i
    rw [h3]; exact natToStr_digits j
  · rfl

theorem arun_genName {g : Graph} {rev : List AEv} {acc : AttrAcc} (h : ARun g rev acc) :
    ∀ v ∈ rev.flatMap AEv.newVar, isGenName v = true := by
  induction h with
  | nil => simp
  | keep t _ _ _ ih => simpa [AEv.newVar] using ih
  | attr t _ _ _ _ ih =>
    intro v hv
    simp only [List.flatMap_cons, AEv.newVar, List.singleton_append, List.mem_cons] at hv
    rcases hv with rfl | hv
    · exact isGenName_attrVar _ _
    · exact ih v hv

theorem mem_attrMarkers_fst {old : List Epi} {e : Epi} (h : e ∈ (attrMarkers old).1) : e ∈ old := by
  simp only [attrMarkers, reifiedMarkers, List.mem_filter] at h
  exact h.1

theorem mem_attrMarkers_snd {old : List Epi} {e : Epi} (h : e ∈ (attrMarkers old).2) :
    e ∈ old ∧ e.isPush = false := by
  simp only [attrMarkers, reifiedMarkers, List.mem_append, List.mem_filter] at h
  rcases h with h | h
  · refine ⟨h.1, ?_⟩
    cases e <;> simp [Epi.isPush] at h ⊢
  · refine ⟨h.1, ?_⟩
    cases e <;> simp [Epi.isPop, Epi.isPush] at h ⊢

section
variable {cfg : LexCfg} {isSpace : Char → Bool} {m : Model} {g : Graph}

theorem tripleOK_aev_out (htab : TableOK cfg m) (hd : DecOK cfg isSpace m g) {vars : List Str} {e : AEv}
    (he : AEvOk g vars e) (hv : ∀ v ∈ e.newVar, isGenName v = true) :
    ∀ t1 ∈ e.out, TripleOK cfg m t1 := by
  cases e with
  | keep t =>
    intro t1 h1
    simp only [AEv.out, List.mem_singleton] at h1
    subst h1; exact hd.triples _ he.1
  | attr t v =>
    have hT := hd.triples t he.1
    have hvv : SrcOK cfg v := srcOK_genName htab.2.2 (hv v (by simp [AEv.newVar]))
    intro t1 h1
    simp only [AEv.out, List.mem_cons, List.not_mem_nil, or_false] at h1
    rcases h1 with rfl | rfl
    · exact ⟨hT.1, hT.2.1, atomOK_var hvv, fun h => absurd h he.2.1⟩
    · exact ⟨hd.conceptOK, hvv, hT.2.2.1, fun _ => atomOK_ne_empty hT.2.2.1⟩

theorem instSrcs_attr {vars : List Str} : ∀ {l : List AEv}, (∀ e ∈ l, AEvOk g vars e) →
    (instSrcs (l.flatMap AEv.out)).Perm (instSrcs (l.map AEv.orig) ++ l.flatMap AEv.newVar)
  | [], _ => by simp [instSrcs]
  | e :: r, hok => by
    have ih := instSrcs_attr (l := r) (fun e he => hok e (by simp [he]))
    rw [List.flatMap_cons, instSrcs_append, List.map_cons, instSrcs_cons, List.flatMap_cons]
    cases e with
    | keep t =>
      simp only [AEv.out, AEv.orig, AEv.newVar, List.nil_append, List.append_assoc]
      exact ih.append_left _
    | attr t v =>
      have hc : t.role ≠ CONCEPT_ROLE := (hok (.attr t v) (by simp)).2.1
      have hout : instSrcs (AEv.attr t v).out = [v] := by
        simp [instSrcs, AEv.out, attrRoleT, attrNodeT, hc]
      rw [hout]
      simp only [AEv.orig, AEv.newVar, instSrcs_single_not hc, List.nil_append, List.singleton_append]
      exact (ih.cons v).trans List.perm_middle.symm

theorem arun_markOK (he : EpiAll g) {rev : List AEv} {acc : AttrAcc} (hrun : ARun g rev acc) :
    ∀ p ∈ acc.2.2.1, MarkOK acc.1 p.1 p.2 := by
  induction hrun with
  | nil => exact he
  | keep t _ _ _ ih => exact ih
  | @attr rev0 acc0 t hrun' ht hr hv ih =>
    have hsub : ∀ x ∈ acc0.1, x ∈ (attrVar acc0.1 acc0.2.1).1 :: acc0.1 := fun x hx => by simp [hx]
    have hold := markOK_get ih t
    intro p hp
    simp only [attrSt] at hp ⊢
    rcases mem_set_imp hp with hp | rfl
    · rcases mem_set_imp hp with hp | rfl
      · exact (ih p (mem_erase_imp hp)).mono hsub
      · -- the relation to the new node, carrying `Push v`
        refine ⟨?_, ?_, Or.inl rfl⟩
        · intro e he'
          rcases List.mem_append.mp he' with h | h
          · exact hold.1 e (mem_attrMarkers_fst h)
          · simp only [List.mem_singleton] at h; subst h; rfl
        · intro e he'
          rcases List.mem_append.mp he' with h | h
          · exact pushIn_mono hsub (hold.2.1 e (mem_attrMarkers_fst h))
          · simp only [List.mem_singleton] at h; subst h; simp [Cfg.pushIn]
    · -- the new node label, carrying `POP`
      refine ⟨?_, ?_, Or.inr (Or.inl rfl)⟩
      · intro e he'
        rcases List.mem_append.mp he' with h | h
        · exact hold.1 e (mem_attrMarkers_snd h).1
        · simp only [List.mem_singleton] at h; subst h; rfl
      · intro e he'
        rcases List.mem_append.mp he' with h | h
        · exact pushIn_mono hsub (hold.2.1 e (mem_attrMarkers_snd h).1)
        · simp only [List.mem_singleton] at h; subst h; simp [Cfg.pushIn]

/-- **`reify_attributes` preserves the invariant** -/
theorem reifyAttributes_decOK (htab : TableOK cfg m) (hd : DecOK cfg isSpace m g) :
    DecOK cfg isSpace m (reifyAttributes g) ∧ (reifyAttributes g).getTop = g.getTop := by
  obtain ⟨rev, acc, hrun, ho, he⟩ := reifyAttributes_run g
  have hg := hd.rolesColon
  have hok : ∀ e ∈ rev.reverse, AEvOk g acc.1 e := fun e h' => arun_evOk hrun e (by simpa using h')
  have hgen := arun_genName hrun
  have hall : ∀ t1 ∈ rev.reverse.flatMap AEv.out, TripleOK cfg m t1 := by
    intro t1 h1
    rw [List.mem_flatMap] at h1
    obtain ⟨e, he', h1⟩ := h1
    refine tripleOK_aev_out htab hd (hok e he') (fun v hv => ?_) t1 h1
    exact hgen v (List.mem_flatMap.mpr ⟨e, by simpa using he', hv⟩)
  have htr : (reifyAttributes g).triples = rev.reverse.flatMap AEv.out := by
    rw [he, mk'_triples_of_colon, arun_triples hrun]
    intro t1 h1
    rw [arun_triples hrun] at h1
    exact startsWith_of_head (hall t1 h1).1.1
  have hep : (reifyAttributes g).epidata = AList.ofList acc.2.2.1 := by rw [he]; rfl
  have hmd : (reifyAttributes g).metadata = AList.ofList g.metadata := by rw [he]; rfl
  have hvars : ∀ x ∈ acc.1, x ∈ (reifyAttributes g).variables := by
    intro x hx
    rw [arun_vars hrun, List.mem_append] at hx
    rcases hx with hx | hx
    · rw [List.mem_flatMap] at hx
      obtain ⟨e, he', hx⟩ := hx
      cases e with
      | keep t => simp [AEv.newVar] at hx
      | attr t v =>
        simp only [AEv.newVar, List.mem_singleton] at hx
        subst hx
        have : attrNodeT t x ∈ (reifyAttributes g).triples := by
          rw [htr]
          exact List.mem_flatMap.mpr ⟨_, by simpa using he', by simp [AEv.out]⟩
        exact src_mem_variables this
    · exact reifyAttributes_vars_mono g hx
  have hnodup := arun_vars_nodup hrun
  rw [arun_vars hrun, List.nodup_append] at hnodup
  refine ⟨⟨?_, ?_, ?_, ?_, reifyAttributes_hasInst g hd.hasInst,
    reifyAttributes_connected g hg hd.conn⟩, reifyAttributes_getTop g⟩
  · rw [htr]; exact hall
  · show (instSrcs (reifyAttributes g).triples).Nodup
    rw [htr]
    refine (instSrcs_attr hok).nodup_iff.mpr ?_
    rw [ho, List.nodup_append]
    refine ⟨hd.oneLabel, (flatMap_reverse_perm rev AEv.newVar).nodup_iff.mpr hnodup.1, ?_⟩
    intro a ha b hb hab
    subst hab
    have hb' := (flatMap_reverse_perm rev AEv.newVar).mem_iff.mp hb
    exact hnodup.2.2 a hb' a (instSrcs_subset a ha) rfl
  · rw [hmd, wfMeta_ofList hd.metaOK]; exact hd.metaOK
  · intro p hp
    rw [hep] at hp
    exact (arun_markOK hd.epi hrun p (mem_ofList_imp hp)).mono hvars

end
end Penman.C12dec

/-
  Penman.Proofs.Reconfigure — `reconfigure` as a corollary of the `configure`
  development (C03): the graph `reconfigure` hands to `configure` is a
  *re-layout* of the original (`Relayout`: triples permuted, layout markers
  stripped, everything else untouched), and every hypothesis/conclusion of
  `C03`/`C03_tree` is invariant under re-layout. Also: `Cfg.Reach` is an
  equivalence relation (symmetric, transitive), so connectivity from one
  variable is connectivity from every variable (new top).
-/
import Penman.Props.C03
import Penman.Props.C06
import Penman.Spec.Reconfigure
import Penman.Proofs.RearrangeOrder
namespace Penman
namespace Recfg
open Cfg

/-! ### the graph handed to `configure` -/

/-- `reconfigure` (after fix F21) resolves the top on the ORIGINAL graph, then configures the
    sorted, marker-free graph from that top -/
theorem reconfigure_eq (m : Model) (g : Graph) (top : Option Str) (key : Option (List KeyFn)) :
    reconfigure m g top key = configure m (prep m g key) (Cfg.topOf g top) := by
  cases key <;> cases top <;> rfl

theorem sortTriples_perm (m : Model) (ts : List Triple) (key : Option (List KeyFn)) :
    (sortTriples m ts key).Perm ts := by
  cases key with
  | none => exact List.Perm.refl _
  | some ks => exact List.mergeSort_perm _ _

theorem prep_relayout (m : Model) (g : Graph) (key : Option (List KeyFn)) : Relayout g (prep m g key) :=
  ⟨sortTriples_perm m g.triples key, rfl, rfl, rfl⟩

/-! ### variables -/

theorem mem_dedup' {l : List Str} {x : Str} : x ∈ dedup l ↔ x ∈ l := by
  induction l with
  | nil => simp [dedup]
  | cons a r ih =>
    simp only [dedup, List.mem_cons, List.mem_filter, ih]
    by_cases e : x = a <;> simp [e]

theorem mem_variables_iff (g : Graph) (v : Str) :
    v ∈ g.variables ↔ (∃ t ∈ g.triples, t.src = v) ∨ g.top = some v := by
  unfold Graph.variables
  cases htop : g.top with
  | none => simp [mem_dedup']
  | some t =>
    by_cases h : t ∈ dedup (g.triples.map (·.src))
    · simp only [h, if_true, mem_dedup', List.mem_map, Option.some.injEq]
      constructor
      · exact Or.inl
      · rintro (h' | rfl)
        · exact h'
        · simpa [mem_dedup'] using h
    · simp only [h, if_false, List.mem_append, mem_dedup', List.mem_map, List.mem_singleton,
        Option.some.injEq]
      constructor
      · rintro (h' | rfl)
        · exact Or.inl h'
        · exact Or.inr rfl
      · rintro (h' | rfl)
        · exact Or.inl h'
        · exact Or.inr rfl

namespace Relayout
variable {g g' : Graph}

theorem mem (h : Relayout g g') (t : Triple) : t ∈ g'.triples ↔ t ∈ g.triples := h.perm.mem_iff

/-- same variables, as a set -/
theorem variables (h : Relayout g g') (x : Str) : x ∈ g'.variables ↔ x ∈ g.variables := by
  rw [mem_variables_iff, mem_variables_iff, h.top]
  constructor
  · rintro (⟨t, ht, e⟩ | e)
    · exact Or.inl ⟨t, (h.mem t).1 ht, e⟩
    · exact Or.inr e
  · rintro (⟨t, ht, e⟩ | e)
    · exact Or.inl ⟨t, (h.mem t).2 ht, e⟩
    · exact Or.inr e

theorem isVar (h : Relayout g g') (a : Atom) : g'.isVar a = g.isVar a :=
  C03_edge_status h.variables a

/-- `deinvert1` depends on the graph only through variable membership -/
theorem deinvert1_eq (h : Relayout g g') (m : Model) : deinvert1 m g' = deinvert1 m g := by
  funext t
  simp only [deinvert1, h.isVar]

/-! ### markers -/

theorem get?_stripEpi (e : Epidata) (t : Triple) :
    (AList.get? (stripEpi e) t).getD [] = ((AList.get? e t).getD []).filter (!·.isLayout) := by
  induction e with
  | nil => rfl
  | cons p r ih =>
    obtain ⟨t0, es⟩ := p
    by_cases ht : t0 = t
    · simp [stripEpi, AList.get?, ht]
    · simp only [stripEpi, AList.get?, List.map_cons, List.find?_cons, ht, decide_false] at ih ⊢
      exact ih

theorem epis (h : Relayout g g') (t : Triple) :
    (AList.get? g'.epidata t).getD [] = ((AList.get? g.epidata t).getD []).filter (!·.isLayout) := by
  rw [h.epidata, get?_stripEpi]

/-- no `Push`/`POP` is left -/
theorem no_layout (h : Relayout g g') (t : Triple) :
    ∀ e ∈ (AList.get? g'.epidata t).getD [], e.isLayout = false := by
  intro e he
  rw [h.epis] at he
  simpa using (List.mem_filter.1 he).2

theorem pushVars (h : Relayout g g') : PushVars g' := by
  intro t _ e he
  have := h.no_layout t e he
  cases e <;> simp_all [pushIn, Epi.isLayout]

theorem pushSrcOK (h : Relayout g g') : PushSrcOK g' := by
  intro t _
  right; right
  intro hm
  have := h.no_layout t _ hm
  simp [Epi.isLayout] at this

theorem noAlign (h : Relayout g g') : NoAlign g' ↔ NoAlign g := by
  constructor
  · intro hn t ht e he
    by_cases hl : e.isLayout = true
    · cases e <;> simp_all [Epi.isLayout, Epi.mode]
    · have hm : e ∈ (AList.get? g'.epidata t).getD [] := by
        rw [h.epis]; exact List.mem_filter.2 ⟨he, by simpa using hl⟩
      exact hn t ((h.mem t).2 ht) e hm
  · intro hn t ht e he
    rw [h.epis] at he
    exact hn t ((h.mem t).1 ht) e (List.mem_filter.1 he).1

/-! ### well-formedness -/

theorem wfGraph (h : Relayout g g') (m : Model) : WfGraph m g' ↔ WfGraph m g := by
  have hm := h.mem
  have hv := h.variables
  have hnull : (g'.triples.filter nullB).Perm (g.triples.filter nullB) := h.perm.filter _
  constructor
  · intro w
    refine ⟨?_, ?_, ?_, ?_, ?_, ?_, ?_, ?_, ?_, ?_⟩
    · have := w.nonempty
      have hl := h.perm.length_eq
      cases h1 : g.triples with
      | nil => rw [h1] at hl; simp [List.length_eq_zero_iff.1 hl] at this
      | cons a r => rfl
    · intro v hvv
      obtain ⟨t, ht, e⟩ := w.labelled v ((hv v).2 hvv)
      exact ⟨t, (hm t).1 ht, e⟩
    · exact hnull.nodup_iff.1 w.nullNodup
    · intro t ht hn t' ht' hr hs
      exact w.nullAlone t ((hm t).2 ht) hn t' ((hm t').2 ht') hr hs
    · intro t ht; exact w.instNotEmpty t ((hm t).2 ht)
    · intro t ht; exact w.roles t ((hm t).2 ht)
    · intro t ht; exact w.srcs t ((hm t).2 ht)
    · intro t ht; exact w.tgts t ((hm t).2 ht)
    · intro t ht; exact w.noInstOf t ((hm t).2 ht)
    · exact h.noAlign.1 w.noAlign
  · intro w
    refine ⟨?_, ?_, ?_, ?_, ?_, ?_, ?_, ?_, ?_, ?_⟩
    · have := w.nonempty
      have hl := h.perm.length_eq
      cases h1 : g'.triples with
      | nil => rw [h1] at hl; simp [List.length_eq_zero_iff.1 hl.symm] at this
      | cons a r => rfl
    · intro v hvv
      obtain ⟨t, ht, e⟩ := w.labelled v ((hv v).1 hvv)
      exact ⟨t, (hm t).2 ht, e⟩
    · exact hnull.nodup_iff.2 w.nullNodup
    · intro t ht hn t' ht' hr hs
      exact w.nullAlone t ((hm t).1 ht) hn t' ((hm t').1 ht') hr hs
    · intro t ht; exact w.instNotEmpty t ((hm t).1 ht)
    · intro t ht; exact w.roles t ((hm t).1 ht)
    · intro t ht; exact w.srcs t ((hm t).1 ht)
    · intro t ht; exact w.tgts t ((hm t).1 ht)
    · intro t ht; exact w.noInstOf t ((hm t).1 ht)
    · exact h.noAlign.2 w.noAlign

theorem noNum (h : Relayout g g') : NoNum g' ↔ NoNum g :=
  ⟨fun w t ht => w t ((h.mem t).2 ht), fun w t ht => w t ((h.mem t).1 ht)⟩

/-! ### connectivity -/

theorem adj (h : Relayout g g') (b c : Str) : Adj g' b c ↔ Adj g b c := by
  constructor
  · rintro ⟨t, ht, hr, hb, hc, e⟩
    exact ⟨t, (h.mem t).1 ht, hr, (h.variables b).1 hb, (h.variables c).1 hc, e⟩
  · rintro ⟨t, ht, hr, hb, hc, e⟩
    exact ⟨t, (h.mem t).2 ht, hr, (h.variables b).2 hb, (h.variables c).2 hc, e⟩

theorem reach (h : Relayout g g') (t v : Str) : Reach g' t v ↔ Reach g t v := by
  constructor
  · intro hr
    induction hr with
    | refl => exact Reach.refl
    | step _ ha ih => exact Reach.step ih ((h.adj _ _).1 ha)
  · intro hr
    induction hr with
    | refl => exact Reach.refl
    | step _ ha ih => exact Reach.step ih ((h.adj _ _).2 ha)

/-! ### the top -/

/-- the implicit top is the source of the FIRST triple: it survives a re-layout only if the
    first triple keeps its source -/
theorem getTop (h : Relayout g g')
    (hx : g.top.isSome = true ∨ g'.triples.head?.map (·.src) = g.triples.head?.map (·.src)) :
    g'.getTop = g.getTop := by
  unfold Graph.getTop
  rw [h.top]
  cases ht : g.top with
  | some t => rfl
  | none =>
    rcases hx with hx | hx
    · simp [ht] at hx
    · cases h1 : g'.triples <;> cases h2 : g.triples <;> simp_all

theorem topOf (h : Relayout g g') (top : Option Str)
    (hx : top.isSome = true ∨ g.top.isSome = true ∨
      g'.triples.head?.map (·.src) = g.triples.head?.map (·.src)) :
    topOf g' top = topOf g top := by
  cases top with
  | some t => rfl
  | none =>
    simp only [Cfg.topOf]
    apply h.getTop
    simpa using hx

end Relayout

/-! ### `Reach` is an equivalence relation -/

theorem Adj.symm {g : Graph} {b c : Str} (h : Adj g b c) : Adj g c b := by
  obtain ⟨t, ht, hr, hb, hc, e⟩ := h
  exact ⟨t, ht, hr, hc, hb, e.symm⟩

theorem Reach.trans' {g : Graph} {a b c : Str} (h1 : Reach g a b) (h2 : Reach g b c) : Reach g a c := by
  induction h2 with
  | refl => exact h1
  | step _ ha ih => exact Reach.step ih ha

theorem Reach.symm' {g : Graph} {a b : Str} (h : Reach g a b) : Reach g b a := by
  induction h with
  | refl => exact Reach.refl
  | step _ ha ih => exact Reach.trans' (Reach.step Reach.refl (Adj.symm ha)) ih

/-- reachability of everything from ONE variable is connectivity -/
theorem connected_of_reach {g : Graph} {t : Str} (h : ∀ v ∈ g.variables, Reach g t v) : Connected g :=
  fun u hu v hv => Reach.trans' (Reach.symm' (h u hu)) (h v hv)

theorem connected_iff {g : Graph} {t : Str} (ht : t ∈ g.variables) :
    Connected g ↔ ∀ v ∈ g.variables, Reach g t v :=
  ⟨fun h => h t ht, connected_of_reach⟩

theorem Relayout.connected {g g' : Graph} (h : Relayout g g') : Connected g' ↔ Connected g :=
  ⟨fun c u hu v hv => (h.reach u v).1 (c u ((h.variables u).2 hu) v ((h.variables v).2 hv)),
   fun c u hu v hv => (h.reach u v).2 (c u ((h.variables u).1 hu) v ((h.variables v).1 hv))⟩

/-! ### the round trip, for any re-layout -/

theorem relayout_tree {m : Model} {g g' : Graph} {top : Option Str} {t : Str} (h : Relayout g g')
    (hw : ModelWf m) (hg : WfGraph m g) (ht : Cfg.topOf g' top = some t) (htv : t ∈ g.variables)
    (hc : Connected g) :
    ∃ T, configure m g' top = .ok T ∧ T.metadata = g.metadata ∧ T.node.var = some t ∧
      (∀ x, x ∈ T.node.vars ↔ x ∈ g.variables) ∧ T.node.vars.Nodup ∧
      (T.node.edgeTriples.map (deinvert1 m g)).Perm
        ((g.triples.filter (fun x => !nullB x)).map (deinvert1 m g)) ∧
      ∀ x ∈ T.node.edgeTriples, ∃ t0 ∈ g.triples,
        x = t0 ∨ (x = m.invert t0 ∧ (∃ b, t0.tgt = .str b) ∧ t0.role ≠ CONCEPT_ROLE) := by
  have htv' := (h.variables t).2 htv
  obtain ⟨T, h1, h2, h3, h4, h5, h6, h7⟩ :=
    C03_tree (top := top) hw ((h.wfGraph m).2 hg) h.pushVars h.pushSrcOK ht htv'
      (((h.connected).2 hc) t htv')
  refine ⟨T, h1, h2.trans h.metadata, h3, fun x => (h4 x).trans (h.variables x), h5, ?_, ?_⟩
  · rw [h.deinvert1_eq] at h6
    exact h6.trans ((h.perm.filter _).map _)
  · intro x hx
    obtain ⟨t0, ht0, e⟩ := h7 x hx
    exact ⟨t0, (h.mem t0).1 ht0, e⟩

theorem relayout_graph (isAlpha : Char → Bool) {m : Model} {g g' : Graph} {top : Option Str} {t : Str}
    (h : Relayout g g') (hw : ModelWf m) (hnoop : m.noop = false) (hg : WfGraph m g) (hnum : NoNum g)
    (ht : Cfg.topOf g' top = some t) (htv : t ∈ g.variables) (hc : Connected g) :
    ∃ T g'', configure m g' top = .ok T ∧ interpret isAlpha m T = .ok g'' ∧
      g''.getTop = some t ∧ (∀ x, x ∈ g''.variables ↔ x ∈ g.variables) ∧
      (g''.triples.map (deinvert1 m g)).Perm (g.triples.map (deinvert1 m g)) ∧
      (∀ x ∈ g''.triples, ∃ t0 ∈ g.triples, x = t0 ∨ x = m.invert t0) := by
  have htv' := (h.variables t).2 htv
  obtain ⟨T, g'', h1, h2, h3, h4, h5, h6⟩ :=
    C03 isAlpha (top := top) hw hnoop ((h.wfGraph m).2 hg) (h.noNum.2 hnum) h.pushVars h.pushSrcOK ht htv'
      (((h.connected).2 hc) t htv')
  refine ⟨T, g'', h1, h2, h3, fun x => (h4 x).trans (h.variables x), ?_, ?_⟩
  · rw [h.deinvert1_eq] at h5
    exact h5.trans (h.perm.map _)
  · intro x hx
    obtain ⟨t0, ht0, e⟩ := h6 x hx
    exact ⟨t0, (h.mem t0).1 ht0, e⟩

/-! ### the order handed to `configure` -/

theorem sortTriples_some (m : Model) (ts : List Triple) (ks : List KeyFn) :
    sortTriples m ts (some ks) = ts.mergeSort (tripleLe m ks) := rfl

theorem tripleLe_total (m : Model) (ks : List KeyFn) (a b : Triple) :
    (tripleLe m ks a b || tripleLe m ks b a) = true :=
  RA.kvLe_total ((RA.evalKeys_shape m ks a.role).trans (RA.evalKeys_shape m ks b.role).symm)

theorem tripleLe_trans (m : Model) (ks : List KeyFn) (a b c : Triple) :
    tripleLe m ks a b = true → tripleLe m ks b c = true → tripleLe m ks a c = true :=
  RA.kvLe_trans ((RA.evalKeys_shape m ks a.role).trans (RA.evalKeys_shape m ks b.role).symm)
    ((RA.evalKeys_shape m ks b.role).trans (RA.evalKeys_shape m ks c.role).symm)

theorem sortTriples_pairwise (m : Model) (ts : List Triple) (ks : List KeyFn) :
    (sortTriples m ts (some ks)).Pairwise (fun a b => tripleLe m ks a b = true) :=
  List.pairwise_mergeSort (tripleLe_trans m ks) (tripleLe_total m ks) ts

theorem sortTriples_sublist (m : Model) (ks : List KeyFn) {ys ts : List Triple}
    (hp : ys.Pairwise (fun a b => tripleLe m ks a b = true)) (hs : ys.Sublist ts) :
    ys.Sublist (sortTriples m ts (some ks)) :=
  List.sublist_mergeSort (tripleLe_trans m ks) (tripleLe_total m ks) hp hs

/-- a strictly minimal triple comes first (used to compute the implicit top of a sorted graph
    without evaluating `mergeSort`) -/
theorem sortTriples_head_of_min (m : Model) (ks : List KeyFn) {ts : List Triple} {x : Triple} (hx : x ∈ ts)
    (hmin : ∀ y ∈ ts, y ≠ x → tripleLe m ks y x = false) :
    (sortTriples m ts (some ks)).head? = some x := by
  have hp := sortTriples_perm m ts (some ks)
  have hs := sortTriples_pairwise m ts ks
  cases hL : sortTriples m ts (some ks) with
  | nil =>
    rw [hL] at hp
    have := hp.mem_iff.2 hx
    simp at this
  | cons h r =>
    rw [hL] at hp hs
    have hxm : x ∈ h :: r := hp.mem_iff.2 hx
    by_cases e : h = x
    · simp [e]
    · have hr : x ∈ r := by
        rcases List.mem_cons.1 hxm with h' | h'
        · exact absurd h'.symm e
        · exact h'
      have hle := (List.pairwise_cons.1 hs).1 x hr
      have := hmin h (hp.mem_iff.1 List.mem_cons_self) e
      rw [this] at hle
      cases hle

/-- the implicit top of the graph handed to `configure`: the source of the first sorted triple -/
theorem prep_getTop_implicit (m : Model) {g : Graph} (key : Option (List KeyFn)) (h : g.top = none) :
    (prep m g key).getTop = (sortTriples m g.triples key).head?.map (·.src) := by
  have e1 : (prep m g key).top = none := h
  have e2 : (prep m g key).triples = sortTriples m g.triples key := rfl
  unfold Graph.getTop
  rw [e1, e2]
  cases sortTriples m g.triples key <;> rfl

/-- what `interpret` returns always carries an explicit top -/
theorem interpret_top_explicit {isAlpha : Char → Bool} {m : Model} {T : Tree} {g : Graph}
    (h : interpret isAlpha m T = .ok g) : g.top.isSome = true := by
  obtain ⟨ts, es, hn, rfl⟩ := Interp.interpret_ok h
  cases hT : T.node with
  | mk v bs =>
    rw [hT] at hn
    cases v with
    | none => simp [interpretNode] at hn
    | some var => simp [Graph.mk', Node.var]

end Recfg
end Penman

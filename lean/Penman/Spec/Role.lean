/-
  Penman.Spec.Role — specification vocabulary for property C13: the decidable
  well-formedness predicate `ModelWf` on role tables, the trailing-`-of`
  decomposition `ofCount`/`base`/`ofPow`, the colon step `addColon`, and the
  "same shape, roles rewritten" relation on trees.
-/
import Penman.Model
import Penman.Transform
namespace Penman

/-! ### well-formed role tables -/

/-- (i) No role `r` such that both `r` and `r ++ "-of"` are defined
    (`hasRole1`). A defined role ending in `-of` ends in `f`, so it can only
    be matched by a *literal* alternative (`digit`/`digits` alternatives end in
    a digit; `topRole`/`conceptRole` are literals in `Model.pats`); hence it
    is enough to look at the finitely many literals `s` ending in `-of` and
    test whether `s` minus `-of` is defined. (`hasRole1` includes Python's
    `$`-before-trailing-newline quirk, so `r` itself may end in a line feed.) -/
def Model.noDefinedPair (m : Model) : Bool :=
  m.pats.all fun p => match p with
    | .lit s => !(endsWith ofStr s && m.hasRole1 (dropEnd 3 s))
    | _ => true

/-- (iii) slash followed by `-of` is not a defined role. Forced by the proofs: `canonRole`
    leaves `"/"` without a colon, and if it were defined the loop would
    turn `"/"` into slash + `-of-of`, which has no colon and is not a fixed point. -/
def Model.slashOk (m : Model) : Bool := !m.hasRole1 ('/' :: ofStr)

/-- (ii) every normalisation value is `"/"` or starts with `':'`, contains no
    `'~'`, and is a fixed point of `canonRole` -/
def Model.normOk (m : Model) : Bool :=
  m.norm.all fun kv =>
    (kv.2 == ['/'] || startsWith [':'] kv.2) && !kv.2.contains '~' && (m.canonRole kv.2 == some kv.2)

def ModelWf (m : Model) : Prop :=
  m.noDefinedPair = true ∧ m.slashOk = true ∧ m.normOk = true

instance (m : Model) : Decidable (ModelWf m) := by unfold ModelWf; infer_instance

/-! ### the colon step and the `-of` decomposition -/

/-- first step of `canonicalize_role` -/
def addColon (r : Str) : Str := if r ≠ ['/'] && !startsWith [':'] r then ':' :: r else r

/-- `"-of"` repeated `n` times -/
def ofPow : Nat → Str
  | 0 => []
  | n+1 => ofPow n ++ ofStr

/-- on the reversed string: strip leading `fo-` blocks, counting them -/
def stripOfRev : List Char → Nat × List Char
  | c1 :: c2 :: c3 :: rest =>
    if c1 = 'f' ∧ c2 = 'o' ∧ c3 = '-' then ((stripOfRev rest).1 + 1, (stripOfRev rest).2)
    else (0, c1 :: c2 :: c3 :: rest)
  | l => (0, l)

/-- number of trailing `-of` repetitions of a role -/
def ofCount (r : Str) : Nat := (stripOfRev r.reverse).1
/-- the role with all trailing `-of` removed -/
def base (r : Str) : Str := (stripOfRev r.reverse).2.reverse

/-! ### trees: same shape, roles related by `R` -/

mutual
def Node.sameShape (R : Str → Str → Prop) : Node → Node → Prop
  | .mk v bs, .mk v' bs' => v = v' ∧ Branches.sameShape R bs bs'
def Branches.sameShape (R : Str → Str → Prop) : Branches → Branches → Prop
  | .nil, .nil => True
  | .atom r a rest, .atom r' a' rest' => R r r' ∧ a = a' ∧ Branches.sameShape R rest rest'
  | .sub r n rest, .sub r' n' rest' => R r r' ∧ Node.sameShape R n n' ∧ Branches.sameShape R rest rest'
  | _, _ => False
end

/-- the part of a role token before the first `'~'` -/
def rolePart (role : Str) : Str := (partitionStr ['~'] role).1
/-- the alignment suffix of a role token (`""` or `"~…"`), kept verbatim -/
def alnPart (role : Str) : Str := role.drop (rolePart role).length

/-- what `canonicalize_roles` does to one role token: canonicalise the part
    before the first `'~'`, keep the rest -/
def RoleRewritten (m : Model) (role role' : Str) : Prop :=
  ∃ c, m.canonRole (rolePart role) = some c ∧ role' = c ++ alnPart role

end Penman

/-
  Penman.Proofs.Rearrange — structural facts about `rearrangeNode` /
  `rearrangeKids` / `rearrange`: the branch multiset is preserved (`NodePerm`),
  the result is sorted at every node (`NodeSorted`), sorted trees are exactly
  the fixed points, hence idempotence.
-/
import Penman.Proofs.RearrangeOrder
namespace Penman.RA

/-! ### `Branches` ↔ `List Branch` -/

theorem Branches.toList_ofList : ∀ l : List Branch, (Branches.ofList l).toList = l
  | [] => rfl
  | (r, .atom a) :: rest => by simp [Branches.ofList, Branches.toList, Branches.toList_ofList rest]
  | (r, .node n) :: rest => by simp [Branches.ofList, Branches.toList, Branches.toList_ofList rest]

theorem Branches.ofList_toList : ∀ bs : Branches, Branches.ofList bs.toList = bs
  | .nil => rfl
  | .atom r a rest => by simp [Branches.ofList, Branches.toList, Branches.ofList_toList rest]
  | .sub r n rest => by simp [Branches.ofList, Branches.toList, Branches.ofList_toList rest]

theorem Branches.toList_append : ∀ a b : Branches, (a.append b).toList = a.toList ++ b.toList
  | .nil, _ => rfl
  | .atom r x rest, b => by simp [Branches.append, Branches.toList, Branches.toList_append rest b]
  | .sub r n rest, b => by simp [Branches.append, Branches.toList, Branches.toList_append rest b]

theorem Branches.leading_append_sortedPart (bs : Branches) : bs.leading.append bs.sortedPart = bs := by
  cases bs with
  | nil => rfl
  | atom r a rest => by_cases h : r = ['/'] <;> simp [Branches.leading, Branches.sortedPart, h, Branches.append]
  | sub r n rest => by_cases h : r = ['/'] <;> simp [Branches.leading, Branches.sortedPart, h, Branches.append]

theorem Branches.sortedPart_sublist (bs : Branches) : bs.sortedPart.toList.Sublist bs.toList := by
  cases bs with
  | nil => exact List.Sublist.refl _
  | atom r a rest =>
    by_cases h : r = ['/'] <;> simp [Branches.sortedPart, h, Branches.toList]
  | sub r n rest =>
    by_cases h : r = ['/'] <;> simp [Branches.sortedPart, h, Branches.toList]

theorem Branches.leading_append_sortedPart_sublist (bs x : Branches) :
    (bs.leading.append x).sortedPart.toList.Sublist x.toList := by
  cases bs with
  | nil => exact Branches.sortedPart_sublist x
  | atom r a rest =>
    by_cases h : r = ['/']
    · simp [Branches.leading, h, Branches.append, Branches.sortedPart]
    · simpa [Branches.leading, h, Branches.append] using Branches.sortedPart_sublist x
  | sub r n rest =>
    by_cases h : r = ['/']
    · simp [Branches.leading, h, Branches.append, Branches.sortedPart]
    · simpa [Branches.leading, h, Branches.append] using Branches.sortedPart_sublist x

/-! ### one-level description of `rearrangeNode` -/

theorem rearrangeKids_eq_map (m : Model) (vars : List Str) (key : Option (List KeyFn)) :
    ∀ bs : Branches, rearrangeKids m vars key bs = bs.toList.map (rearrangeBranch m vars key)
  | .nil => by simp [rearrangeKids, Branches.toList]
  | .atom r a rest => by
    simp [rearrangeKids, Branches.toList, rearrangeBranch, rearrangeKids_eq_map m vars key rest]
  | .sub r n rest => by
    simp [rearrangeKids, Branches.toList, rearrangeBranch, rearrangeKids_eq_map m vars key rest]

/-- `_rearrange` in one equation: the leading `/` branch is kept as it is
    (its target is not touched even if it is a node), the other branches are
    rearranged recursively and then sorted. -/
theorem rearrangeNode_eq (m : Model) (vars : List Str) (key : Option (List KeyFn)) (v : Option Str) (bs : Branches) :
    rearrangeNode m vars key (.mk v bs) =
      .mk v (bs.leading.append
        (Branches.ofList (sortBranches m vars key (rearrangeKids m vars key bs.sortedPart)))) := by
  cases bs with
  | nil => simp [rearrangeNode, Branches.leading, Branches.sortedPart, rearrangeKids, sortBranches,
      Branches.ofList, Branches.append]
  | atom r a rest =>
    by_cases h : r = ['/'] <;>
      simp [rearrangeNode, Branches.leading, Branches.sortedPart, h, Branches.append, rearrangeKids]
  | sub r n rest =>
    by_cases h : r = ['/'] <;>
      simp [rearrangeNode, Branches.leading, Branches.sortedPart, h, Branches.append, rearrangeKids]

theorem rearrangeNode_var (m : Model) (vars : List Str) (key : Option (List KeyFn)) (n : Node) :
    (rearrangeNode m vars key n).var = n.var := by
  cases n with
  | mk v bs => rw [rearrangeNode_eq]; rfl

/-! ### the branch multiset is preserved -/

mutual
theorem _root_.Penman.NodePerm.refl : ∀ n : Node, NodePerm n n
  | .mk _ bs => .mk (BranchesRel.refl bs) (List.Perm.refl _)
theorem _root_.Penman.BranchesRel.refl : ∀ bs : Branches, BranchesRel bs bs
  | .nil => .nil
  | .atom _ _ rest => .atom (BranchesRel.refl rest)
  | .sub _ n rest => .sub (NodePerm.refl n) (BranchesRel.refl rest)
end

theorem _root_.Penman.NodePerm.var_eq {n n' : Node} (h : NodePerm n n') : n'.var = n.var := by
  cases h; rfl

theorem _root_.Penman.BranchesRel.append : ∀ {a a' b b' : Branches}, BranchesRel a a' → BranchesRel b b' →
    BranchesRel (a.append b) (a'.append b')
  | .nil, _, _, _, h1, h2 => by cases h1; exact h2
  | .atom r x rest, _, _, _, h1, h2 => by
    cases h1 with | atom h => exact .atom (BranchesRel.append h h2)
  | .sub r n rest, _, _, _, h1, h2 => by
    cases h1 with | sub hn h => exact .sub hn (BranchesRel.append h h2)

theorem rearrangeKids_rel_sortedPart {m : Model} {vars : List Str} {key : Option (List KeyFn)} {bs : Branches}
    (h : BranchesRel bs (Branches.ofList (rearrangeKids m vars key bs))) :
    BranchesRel bs.sortedPart (Branches.ofList (rearrangeKids m vars key bs.sortedPart)) := by
  cases bs with
  | nil => exact h
  | atom r a rest =>
    by_cases hr : r = ['/']
    · simp only [Branches.sortedPart, hr, if_true]
      simp only [rearrangeKids, Branches.ofList] at h
      cases h with | atom h => exact h
    · simpa only [Branches.sortedPart, hr, if_false] using h
  | sub r n rest =>
    by_cases hr : r = ['/']
    · simp only [Branches.sortedPart, hr, if_true]
      simp only [rearrangeKids, Branches.ofList] at h
      cases h with | sub _ h => exact h
    · simpa only [Branches.sortedPart, hr, if_false] using h

mutual
theorem rearrangeNode_perm (m : Model) (vars : List Str) (key : Option (List KeyFn)) :
    ∀ n : Node, NodePerm n (rearrangeNode m vars key n)
  | .mk v bs => by
    rw [rearrangeNode_eq]
    have hk := rearrangeKids_rel_sortedPart (rearrangeKids_rel m vars key bs)
    have h1 : BranchesRel bs (bs.leading.append (Branches.ofList (rearrangeKids m vars key bs.sortedPart))) := by
      have := BranchesRel.append (BranchesRel.refl bs.leading) hk
      rwa [Branches.leading_append_sortedPart] at this
    refine .mk h1 ?_
    simp only [Branches.toList_append, Branches.toList_ofList]
    exact ((sortBranches_perm m vars key _).symm).append_left _
theorem rearrangeKids_rel (m : Model) (vars : List Str) (key : Option (List KeyFn)) :
    ∀ bs : Branches, BranchesRel bs (Branches.ofList (rearrangeKids m vars key bs))
  | .nil => .nil
  | .atom r a rest => by
    simp only [rearrangeKids, Branches.ofList]
    exact .atom (rearrangeKids_rel m vars key rest)
  | .sub r n rest => by
    simp only [rearrangeKids, Branches.ofList]
    exact .sub (rearrangeNode_perm m vars key n) (rearrangeKids_rel m vars key rest)
end

/-! ### the variables of the tree are permuted -/

def tgtVars : Tgt → List Str
  | .atom _ => []
  | .node n => n.vars

theorem Branches.nodes_map_fst : ∀ bs : Branches,
    bs.nodes.map (·.1) = bs.toList.flatMap (fun b => tgtVars b.2)
  | .nil => rfl
  | .atom r a rest => by
    simp [Branches.nodes, Branches.toList, tgtVars, Branches.nodes_map_fst rest]
  | .sub r n rest => by
    simp [Branches.nodes, Branches.toList, tgtVars, Node.vars, Branches.nodes_map_fst rest]

theorem Node.vars_mk (v : Option Str) (bs : Branches) :
    (Node.mk v bs).vars = v.toList ++ bs.nodes.map (·.1) := by
  cases v <;> simp [Node.vars, Node.nodes]

mutual
theorem _root_.Penman.NodePerm.vars_perm : ∀ (n : Node) {n' : Node}, NodePerm n n' → n'.vars.Perm n.vars
  | .mk v bs, _, h => by
    cases h with
    | @mk _ _ mid bs' hrel hperm =>
      rw [Node.vars_mk, Node.vars_mk]
      refine List.Perm.append_left _ ?_
      refine List.Perm.trans ?_ (BranchesRel.vars_perm bs hrel)
      rw [Branches.nodes_map_fst, Branches.nodes_map_fst]
      exact hperm.symm.flatMap_right _
theorem _root_.Penman.BranchesRel.vars_perm : ∀ (bs : Branches) {mid : Branches}, BranchesRel bs mid →
    (mid.nodes.map (·.1)).Perm (bs.nodes.map (·.1))
  | .nil, _, h => by cases h; exact List.Perm.refl _
  | .atom r a rest, _, h => by
    cases h with
    | atom h => simpa [Branches.nodes] using BranchesRel.vars_perm rest h
  | .sub r n rest, _, h => by
    cases h with
    | sub hn h =>
      simp only [Branches.nodes, List.map_append]
      exact (NodePerm.vars_perm n hn).append (BranchesRel.vars_perm rest h)
end

theorem rearrangeNode_vars_perm (m : Model) (vars : List Str) (key : Option (List KeyFn)) (n : Node) :
    (rearrangeNode m vars key n).vars.Perm n.vars :=
  NodePerm.vars_perm n (rearrangeNode_perm m vars key n)

/-! ### sortedness at every node -/

theorem kidsSorted_iff (le : Branch → Branch → Bool) : ∀ bs : Branches,
    KidsSorted le bs ↔ ∀ r n, (r, Tgt.node n) ∈ bs.toList → NodeSorted le n
  | .nil => by simp [Branches.toList, KidsSorted.nil]
  | .atom r a rest => by
    constructor
    · intro h; cases h with
      | atom h => simpa [Branches.toList] using (kidsSorted_iff le rest).mp h
    · intro h
      exact .atom ((kidsSorted_iff le rest).mpr (by simpa [Branches.toList] using h))
  | .sub r n rest => by
    constructor
    · intro h; cases h with
      | sub hn h =>
        intro r' n' hm
        simp only [Branches.toList, List.mem_cons, Prod.mk.injEq, Tgt.node.injEq] at hm
        rcases hm with ⟨_, rfl⟩ | hm
        · exact hn
        · exact (kidsSorted_iff le rest).mp h r' n' hm
    · intro h
      refine .sub (h r n (by simp [Branches.toList])) ((kidsSorted_iff le rest).mpr ?_)
      intro r' n' hm
      exact h r' n' (by simp [Branches.toList, hm])

theorem kidsSorted_of_subset {le : Branch → Branch → Bool} {bs bs' : Branches}
    (hs : ∀ b, b ∈ bs'.toList → b ∈ bs.toList) (h : KidsSorted le bs) : KidsSorted le bs' :=
  (kidsSorted_iff le bs').mpr fun r n hm => (kidsSorted_iff le bs).mp h r n (hs _ hm)

mutual
theorem rearrangeNode_sorted (m : Model) (vars : List Str) (key : Option (List KeyFn)) :
    ∀ n : Node, NodeSorted (branchLe m vars key) (rearrangeNode m vars key n)
  | .mk v bs => by
    rw [rearrangeNode_eq]
    have hk := rearrangeKids_sorted m vars key bs
    have hsub := Branches.leading_append_sortedPart_sublist bs
      (Branches.ofList (sortBranches m vars key (rearrangeKids m vars key bs.sortedPart)))
    rw [Branches.toList_ofList] at hsub
    refine .mk ?_ ?_
    · exact List.Pairwise.sublist hsub (sortBranches_pairwise m vars key _)
    · rw [kidsSorted_iff]
      intro r n hm
      have h1 := (sortBranches_perm m vars key _).subset (hsub.subset hm)
      rw [rearrangeKids_eq_map] at h1 hk
      exact hk r n (List.map_subset _ (Branches.sortedPart_sublist bs).subset h1)
theorem rearrangeKids_sorted (m : Model) (vars : List Str) (key : Option (List KeyFn)) :
    ∀ bs : Branches, ∀ r n, (r, Tgt.node n) ∈ rearrangeKids m vars key bs → NodeSorted (branchLe m vars key) n
  | .nil => by simp [rearrangeKids]
  | .atom r a rest => by
    simpa [rearrangeKids] using rearrangeKids_sorted m vars key rest
  | .sub r n rest => by
    intro r' n' hm
    simp only [rearrangeKids, List.mem_cons, Prod.mk.injEq, Tgt.node.injEq] at hm
    rcases hm with ⟨_, rfl⟩ | hm
    · exact rearrangeNode_sorted m vars key n
    · exact rearrangeKids_sorted m vars key rest r' n' hm
end

/-! ### sorted trees are fixed points; idempotence -/

mutual
theorem rearrangeNode_of_sorted (m : Model) (vars : List Str) (key : Option (List KeyFn)) :
    ∀ n : Node, NodeSorted (branchLe m vars key) n → rearrangeNode m vars key n = n
  | .mk v bs, h => by
    cases h with
    | mk hp hk =>
      rw [rearrangeNode_eq]
      have h1 := rearrangeKids_of_sorted_part m vars key bs hk
      rw [h1, sortBranches_of_pairwise m vars key hp, Branches.ofList_toList,
        Branches.leading_append_sortedPart]
theorem rearrangeKids_of_sorted (m : Model) (vars : List Str) (key : Option (List KeyFn)) :
    ∀ bs : Branches, KidsSorted (branchLe m vars key) bs → rearrangeKids m vars key bs = bs.toList
  | .nil, _ => rfl
  | .atom r a rest, h => by
    cases h with
    | atom h => simp [rearrangeKids, Branches.toList, rearrangeKids_of_sorted m vars key rest h]
  | .sub r n rest, h => by
    cases h with
    | sub hn h =>
      simp [rearrangeKids, Branches.toList, rearrangeKids_of_sorted m vars key rest h,
        rearrangeNode_of_sorted m vars key n hn]
/-- same for the sorted part (a structural sub-branch-list) -/
theorem rearrangeKids_of_sorted_part (m : Model) (vars : List Str) (key : Option (List KeyFn)) :
    ∀ bs : Branches, KidsSorted (branchLe m vars key) bs.sortedPart →
      rearrangeKids m vars key bs.sortedPart = bs.sortedPart.toList
  | .nil, _ => rfl
  | .atom r a rest, h => by
    by_cases hr : r = ['/']
    · simp only [Branches.sortedPart, hr, if_true] at h ⊢
      exact rearrangeKids_of_sorted m vars key rest h
    · simp only [Branches.sortedPart, hr, if_false] at h ⊢
      cases h with
      | atom h => simp [rearrangeKids, Branches.toList, rearrangeKids_of_sorted m vars key rest h]
  | .sub r n rest, h => by
    by_cases hr : r = ['/']
    · simp only [Branches.sortedPart, hr, if_true] at h ⊢
      exact rearrangeKids_of_sorted m vars key rest h
    · simp only [Branches.sortedPart, hr, if_false] at h ⊢
      cases h with
      | sub hn h =>
        simp [rearrangeKids, Branches.toList, rearrangeKids_of_sorted m vars key rest h,
          rearrangeNode_of_sorted m vars key n hn]
end

/-- the fixed points of `rearrangeNode` are exactly the sorted trees -/
theorem rearrangeNode_eq_self_iff (m : Model) (vars : List Str) (key : Option (List KeyFn)) (n : Node) :
    rearrangeNode m vars key n = n ↔ NodeSorted (branchLe m vars key) n :=
  ⟨fun h => h ▸ rearrangeNode_sorted m vars key n, rearrangeNode_of_sorted m vars key n⟩

theorem rearrangeNode_idem (m : Model) (vars : List Str) (key : Option (List KeyFn)) (n : Node) :
    rearrangeNode m vars key (rearrangeNode m vars key n) = rearrangeNode m vars key n :=
  rearrangeNode_of_sorted m vars key _ (rearrangeNode_sorted m vars key n)

/-! ### only membership in `vars` matters -/

theorem branchTargetInVars_congr {vs vs' : List Str} (h : ∀ x, x ∈ vs ↔ x ∈ vs') (t : Tgt) :
    branchTargetInVars vs t = branchTargetInVars vs' t := by
  cases t with
  | atom a => cases a <;> simp [branchTargetInVars, h]
  | node n => simp only [branchTargetInVars]; split <;> simp [h]

theorem sortBranches_congr (m : Model) {vs vs' : List Str} (h : ∀ x, x ∈ vs ↔ x ∈ vs')
    (key : Option (List KeyFn)) : sortBranches m vs key = sortBranches m vs' key := by
  funext bs
  simp only [sortBranches, branchKey, branchTargetInVars_congr h]

mutual
theorem rearrangeNode_congr (m : Model) {vs vs' : List Str} (h : ∀ x, x ∈ vs ↔ x ∈ vs')
    (key : Option (List KeyFn)) : ∀ n : Node, rearrangeNode m vs key n = rearrangeNode m vs' key n
  | .mk v bs => by
    have hk := rearrangeKids_congr m h key bs
    cases bs with
    | nil => simp [rearrangeNode]
    | atom r a rest =>
      simp only [rearrangeKids, List.cons.injEq, true_and] at hk
      simp only [rearrangeNode, sortBranches_congr m h key, hk]
    | sub r n rest =>
      simp only [rearrangeKids, List.cons.injEq, Prod.mk.injEq, true_and, Tgt.node.injEq] at hk
      simp only [rearrangeNode, sortBranches_congr m h key, hk.1, hk.2]
theorem rearrangeKids_congr (m : Model) {vs vs' : List Str} (h : ∀ x, x ∈ vs ↔ x ∈ vs')
    (key : Option (List KeyFn)) : ∀ bs : Branches, rearrangeKids m vs key bs = rearrangeKids m vs' key bs
  | .nil => rfl
  | .atom r a rest => by simp only [rearrangeKids, rearrangeKids_congr m h key rest]
  | .sub r n rest => by
    simp only [rearrangeKids, rearrangeKids_congr m h key rest, rearrangeNode_congr m h key n]
end

theorem rearrange_idem_lemma (m : Model) (key : Option (List KeyFn)) (af : Bool) (t : Tree) :
    rearrange m key af (rearrange m key af t) = rearrange m key af t := by
  cases af with
  | false => simp only [rearrange, Bool.false_eq_true, if_false, rearrangeNode_idem]
  | true =>
    simp only [rearrange, if_true]
    rw [rearrangeNode_congr m (vs := (rearrangeNode m t.node.vars key t.node).vars) (vs' := t.node.vars)
      (fun x => (rearrangeNode_vars_perm m t.node.vars key t.node).mem_iff) key, rearrangeNode_idem]

end Penman.RA

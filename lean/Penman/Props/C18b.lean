/-
# C18b — completeness of `evaluate` on numbers (the converse of `C18.eval_number`)

Property text (C18): "evaluate returns int/float only for JSON number syntax".  C18 proved the
"only" direction (`eval_number`, `eval_number_noWs`); left stated was the converse.  Here:

* "EVERY whitespace-padded JSON number text evaluates to an int/float carrying exactly that text"
  → `eval_number_complete` : `IsJsonNumber t isFloat → WsPadded s t →
     evaluate (some s) = .ok (if isFloat then .float t else .int t)`.
  NO side condition of the form `s ≠ …` is needed: the guards of `evaluate` cannot fire on such an
  `s` — it is non-empty, contains no `"` (quote-balance test), and is none of `true`/`false`/`null`
  (every character is a number character or JSON whitespace); `jsonLoads` consumes the whole string
  because `scanJsonNumber` is greedy and stops exactly at the whitespace / the end
  (`scanJsonNumber_complete`, for every continuation that does not start with a digit, `.`, `e`, `E`).
* both directions together → `eval_number_iff` (padded), `eval_int_float_iff` (whitespace-free
  `s`, i.e. every lexer token: `evaluate (some s)` is an `.int` / a `.float` IFF `s` is a JSON number
  text without / with fraction-or-exponent; the value then carries `s` itself:
  `eval_int_iff`, `eval_float_iff`).
* consequence for the grammar: the kind of a number text is unique → `jsonNumber_kind_unique`.

Nothing is left unproved.
-/
import Penman.Props.C18
import Penman.Proofs.ConstantNumComplete

namespace Penman
namespace C18b
open Penman.C18

/-! ## concrete values for the non-vacuity examples -/

/-- `-1.50e+3` is a JSON number with fraction and exponent -/
theorem exFloat : IsJsonNumber "-1.50e+3".toList true :=
  ⟨['-'], ['1'], ".50".toList, "e+3".toList, rfl,
    ⟨Or.inr rfl, Or.inr ⟨'1', [], rfl, by decide, by decide, by simp⟩,
     Or.inr ⟨"50".toList, rfl, by decide, by decide⟩,
     Or.inr ⟨'e', ['+'], ['3'], rfl, Or.inl rfl, Or.inr (Or.inr rfl), by decide, by decide⟩⟩,
    by decide⟩

/-- `120` is a JSON number without fraction or exponent -/
theorem exInt : IsJsonNumber "120".toList false :=
  ⟨[], "120".toList, [], [], rfl,
    ⟨Or.inl rfl, Or.inr ⟨'1', "20".toList, rfl, by decide, by decide, by decide⟩, Or.inl rfl, Or.inl rfl⟩,
    by decide⟩

theorem exPadded : WsPadded " \t120\n".toList "120".toList :=
  ⟨" \t".toList, "\n".toList, rfl, by decide, by decide⟩

/-! ## completeness -/

/-- **eval_number_complete.**  Every JSON number text `t`, surrounded by any amount of JSON
    whitespace, evaluates to an int (no fraction, no exponent) or a float (otherwise) carrying
    exactly the text `t`. -/
theorem eval_number_complete {s t : Str} {isFloat : Bool} (hn : IsJsonNumber t isFloat) (hp : WsPadded s t) :
    evaluate (some s) = .ok (if isFloat then .float t else .int t) :=
  evaluate_number_complete hn hp

example : evaluate (some " \t120\n".toList) = .ok (.int "120".toList) := eval_number_complete exInt exPadded
example : evaluate (some " \t120\n".toList) = .ok (.int "120".toList) := by decide
example : evaluate (some "-1.50e+3".toList) = .ok (.float "-1.50e+3".toList) :=
  eval_number_complete exFloat ⟨[], [], rfl, by decide, by decide⟩
example : evaluate (some "-1.50e+3".toList) = .ok (.float "-1.50e+3".toList) := by decide
example : evaluate (some "0".toList) = .ok (.int "0".toList) ∧ evaluate (some "-0".toList) = .ok (.int "-0".toList) ∧
    evaluate (some "1E5".toList) = .ok (.float "1E5".toList) ∧ evaluate (some "0.0".toList) = .ok (.float "0.0".toList) := by
  decide

/-- the scanner level: on a number text followed by anything that does not start with a digit,
    `.`, `e` or `E`, `scanJsonNumber` returns exactly that text, its kind, and the rest -/
theorem scanJsonNumber_complete {sign int frac exp post : Str} (h : JsonNumberParts sign int frac exp)
    (hpost : headNot numCont post = true) :
    scanJsonNumber (sign ++ int ++ frac ++ exp ++ post) =
      some (sign ++ int ++ frac ++ exp, !(frac.isEmpty && exp.isEmpty), post) :=
  C18.scanJsonNumber_complete h hpost

example : headNot numCont ", 2]".toList = true ∧ headNot numCont [] = true ∧ headNot numCont "e".toList = false := by
  decide
example : scanJsonNumber "-1.50e+3, 2]".toList = some ("-1.50e+3".toList, true, ", 2]".toList) := by decide

/-- **both directions** (with `C18.eval_number`) : `evaluate` returns the int / float with text
    `t` exactly for the whitespace-padded JSON number text `t` of that kind -/
theorem eval_number_iff {s t : Str} {isFloat : Bool} :
    evaluate (some s) = .ok (if isFloat then .float t else .int t) ↔ WsPadded s t ∧ IsJsonNumber t isFloat :=
  ⟨fun h => evaluate_number h, fun h => eval_number_complete h.2 h.1⟩

theorem wsPadded_self (s : Str) : WsPadded s s := ⟨[], [], by simp, by simp [AllWs], by simp [AllWs]⟩

/-- the kind (int / float) of a JSON number text is unique -/
theorem jsonNumber_kind_unique {t : Str} {b b' : Bool} (h : IsJsonNumber t b) (h' : IsJsonNumber t b') : b = b' := by
  have e := eval_number_complete h (wsPadded_self t)
  rw [eval_number_complete h' (wsPadded_self t)] at e
  cases b <;> cases b' <;> simp at e ⊢

/-! ## whitespace-free atoms (every lexer token) -/

/-- `evaluate` returns the int carrying `s` iff `s` is a JSON number text without fraction and exponent -/
theorem eval_int_iff {s : Str} : evaluate (some s) = .ok (.int s) ↔ IsJsonNumber s false :=
  ⟨fun h => (eval_number.1 h).2, fun h => eval_number_complete (isFloat := false) h (wsPadded_self s)⟩

/-- `evaluate` returns the float carrying `s` iff `s` is a JSON number text with a fraction or an exponent -/
theorem eval_float_iff {s : Str} : evaluate (some s) = .ok (.float s) ↔ IsJsonNumber s true :=
  ⟨fun h => (eval_number.2 h).2, fun h => eval_number_complete (isFloat := true) h (wsPadded_self s)⟩

/-- **eval_int_float_iff.**  For a whitespace-free atom text `s`: `evaluate (some s)` is an `.int`
    iff `s` is a JSON integer text, a `.float` iff `s` is a JSON number text with fraction or
    exponent; and in both cases the value carries `s` itself. -/
theorem eval_int_float_iff {s : Str} (hn : NoWs s) :
    ((∃ t, evaluate (some s) = .ok (.int t)) ↔ IsJsonNumber s false) ∧
    ((∃ t, evaluate (some s) = .ok (.float t)) ↔ IsJsonNumber s true) ∧
    (∀ t, evaluate (some s) = .ok (.int t) ∨ evaluate (some s) = .ok (.float t) → t = s) := by
  refine ⟨⟨?_, fun h => ⟨s, eval_int_iff.2 h⟩⟩, ⟨?_, fun h => ⟨s, eval_float_iff.2 h⟩⟩, ?_⟩
  · rintro ⟨t, h⟩
    obtain ⟨e, hnum⟩ := (eval_number_noWs hn).1 h
    rw [e]; exact hnum
  · rintro ⟨t, h⟩
    obtain ⟨e, hnum⟩ := (eval_number_noWs hn).2 h
    rw [e]; exact hnum
  · rintro t (h | h)
    · exact ((eval_number_noWs hn).1 h).1.symm
    · exact ((eval_number_noWs hn).2 h).1.symm

example : NoWs "-1.50e+3".toList ∧ NoWs "120".toList := by decide
/-- not numbers: leading zero, bare fraction point, leading `+`, hex — they stay symbols -/
example : evaluate (some "01".toList) = .ok (.str "01".toList) ∧ evaluate (some "1.".toList) = .ok (.str "1.".toList) ∧
    evaluate (some "+1".toList) = .ok (.str "+1".toList) ∧ evaluate (some "0x10".toList) = .ok (.str "0x10".toList) := by
  decide
/-- hence (by `eval_int_iff` / `eval_float_iff`) `01` is not a JSON number text -/
example : ¬ IsJsonNumber "01".toList false ∧ ¬ IsJsonNumber "01".toList true :=
  ⟨fun h => by have := eval_int_iff.2 h; revert this; decide,
   fun h => by have := eval_float_iff.2 h; revert this; decide⟩

end C18b
end Penman



/-
  Penman.Proofs.TransformDecodeDerefIn — a decidable condition on the INPUT of `dereify_edges` that
  implies its side condition `DerefSide` (which speaks of the result):

  * a `Push(v)` on an entry that survives (its key is not a triple of a collapsed node) does not name a
    collapsed node;
  * the markers moved onto a dereified triple `(s :role c)` (those of the collapsed node's second
    relation) do not name a collapsed node either, and contain `Push(s)` only if `c` is a string.
-/
import Penman.Proofs.TransformDecodeDereify
namespace Penman.C12dec
open Penman Penman.Spec Penman.C03Text

/-- the marker is not a `Push` of a node that `dereify_edges` collapses -/
def pushKept (m : Model) (g : Graph) : Epi → Prop
  | .push v => collapseOf m g v = none
  | _ => True

instance (m : Model) (g : Graph) (e : Epi) : Decidable (pushKept m g e) := by
  cases e <;> unfold pushKept <;> infer_instance

/-- what the agenda entry of a collapsed node must satisfy -/
def agendaPushOK (m : Model) (g : Graph) : Option Agenda → Prop
  | some ag => (∀ e ∈ ag.epidata, pushKept m g e) ∧
      ((tgtStr? ag.dereified.tgt).isSome = true ∨ Epi.push ag.dereified.src ∉ ag.epidata)
  | none => True

instance (m : Model) (g : Graph) (o : Option Agenda) : Decidable (agendaPushOK m g o) := by
  cases o <;> unfold agendaPushOK <;> infer_instance

/-- **input-side condition for `dereify_edges`** -/
def DerefPushIn (m : Model) (g : Graph) : Prop :=
  (∀ p ∈ g.epidata, (p.1 ∈ g.triples ∧ (collapseOf m g p.1.src).isSome = true) ∨
      ∀ e ∈ p.2, pushKept m g e) ∧
  (∀ x ∈ g.variables, agendaPushOK m g (collapseOf m g x))

instance (m : Model) (g : Graph) : Decidable (DerefPushIn m g) := by unfold DerefPushIn; infer_instance

/-- which entries survive the marker loop of `dereify_edges` -/
theorem derFold_mem (look : Str → Option Agenda) : ∀ (l : List Triple) (ep : Epidata) (p : Triple × List Epi),
    p ∈ l.foldl (fun ep t => derEp look t ep) ep →
    (p ∈ ep ∧ (p.1 ∉ l ∨ look p.1.src = none)) ∨
    (∃ x ag, look x = some ag ∧ p = (ag.dereified, ag.epidata))
  | [], ep, p, hp => Or.inl ⟨hp, Or.inl (by simp)⟩
  | t :: r, ep, p, hp => by
    rw [List.foldl_cons] at hp
    rcases derFold_mem look r _ p hp with ⟨hp', hr⟩ | h
    · unfold derEp at hp'
      cases hl : look t.src with
      | none =>
        rw [hl] at hp'
        refine Or.inl ⟨hp', ?_⟩
        rcases hr with hr | hr
        · by_cases hpt : p.1 = t
          · right; rw [hpt]; exact hl
          · left; simp [hpt, hr]
        · right; exact hr
      | some ag =>
        rw [hl] at hp'
        have hne : p.1 ≠ t := by
          have := (List.mem_filter.mp hp').2
          simpa using this
        have hp'' := mem_erase_imp hp'
        have hfin : p.1 ∉ t :: r ∨ look p.1.src = none := by
          rcases hr with hr | hr
          · left; simp [hne, hr]
          · right; exact hr
        split at hp''
        · rcases mem_set_imp hp'' with h1 | h1
          · exact Or.inl ⟨h1, hfin⟩
          · exact Or.inr ⟨_, ag, hl, h1⟩
        · exact Or.inl ⟨hp'', hfin⟩
    · exact Or.inr h

section
variable {m : Model} {g : Graph}

theorem collapseOf_var {x : Str} {ag : Agenda} (h : collapseOf m g x = some ag) : x ∈ g.variables := by
  obtain ⟨_, hf, _⟩ := collapseOf_some h
  obtain ⟨hmem, _, hsrc⟩ := mem_otherOf hf
  exact hsrc ▸ src_mem_variables hmem

/-- a variable that is not collapsed is still a variable of the result -/
theorem dereify_var_kept {g' : Graph} (h : dereifyEdges m g = .ok g') {v : Str} (hv : v ∈ g.variables)
    (hc : collapseOf m g v = none) : v ∈ g'.variables := by
  obtain ⟨ht, htop, _, _⟩ := dereifyEdges_ok h
  rw [mem_variables] at hv ⊢
  rcases hv with ⟨t, htg, rfl⟩ | htp
  · left
    refine ⟨{ t with role := ensureColon t.role }, ?_, rfl⟩
    rw [ht, List.mem_map]
    refine ⟨t, List.mem_flatMap.mpr ⟨t, htg, ?_⟩, rfl⟩
    unfold derOut; rw [hc]; simp
  · right; rw [htop]; simp [Graph.getTop, htp]

/-- **the input-side condition implies the side condition** (for a graph whose markers satisfy
    `EpiAll`) -/
theorem derefSide_of_pushIn (he : EpiAll g) (h : DerefPushIn m g) : DerefSide m g := by
  unfold DerefSide
  cases hr : dereifyEdges m g with
  | error e => trivial
  | ok g' =>
    intro p hp
    rw [(dereifyEdges_ok hr).2.2.2] at hp
    have hkept : ∀ es : List Epi, (∀ e ∈ es, Cfg.pushIn g.variables e) → (∀ e ∈ es, pushKept m g e) →
        ∀ e ∈ es, Cfg.pushIn g'.variables e := by
      intro es h1 h2 e hmem
      have a := h1 e hmem
      have b := h2 e hmem
      cases e with
      | push v => exact dereify_var_kept hr a b
      | pop => trivial
      | aln _ _ => trivial
      | roleAln _ _ => trivial
    rcases derFold_mem (collapseOf m g) g.triples g.epidata p (mem_ofList_imp hp) with ⟨hp0, hsurv⟩ | ⟨x, ag, hx, rfl⟩
    · have hM := he p hp0
      refine ⟨hkept p.2 hM.2.1 ?_, hM.2.2⟩
      rcases h.1 p hp0 with ⟨h1, h2⟩ | h2
      · exfalso
        rcases hsurv with h3 | h3
        · exact h3 h1
        · rw [h3] at h2; simp at h2
      · exact h2
    · have hag := h.2 x (collapseOf_var hx)
      rw [hx] at hag
      obtain ⟨i0, sec, hep⟩ := collapseOf_epidata hx
      have hin : ∀ e ∈ ag.epidata, Cfg.pushIn g.variables e := by
        intro e hmem
        rw [hep] at hmem
        rcases mem_agendaEpis hmem with ⟨q, j, rfl, _⟩ | hmem
        · trivial
        · exact (epiAll_get he sec).2.1 e hmem
      exact ⟨hkept ag.epidata hin hag.1, Or.imp_right Or.inr hag.2⟩

end
end Penman.C12dec

/-
  Penman.Proofs.TransformDecodeBase — vocabulary and generic lemmas for
  "the result of every transformation decodes to itself" (C12, last clause).

  * `TripleOK`  : everything `WfGraph` / `GraphTextOK` ask of ONE triple (role, source, target texts);
  * `MarkOK`, `EpiAll` : the marker conditions `NoAlign`, `PushVars`, `PushSrcOK` of C03 / C06,
    asked of EVERY entry of the marker table (also of entries whose key is not (yet) a triple:
    a transformation may create the triple such an entry belongs to);
  * `DecOK`     : the invariant — it implies all hypotheses of `C03Text.C03_text`
    (`decOK_wfGraph`, `decOK_textOK`, `decOK_pushVars`, `decOK_pushSrcOK`, `decOK_decodes`);
  * `TableOK`   : the decidable conditions on the lexer / model tables (texts of the reification
    roles and concepts, of the top role, of the generated variable names `_`, `_2`, …).
-/
import Penman.Proofs.Transform.Encode
import Penman.Props.C03Text
namespace Penman.C12dec
open Penman Penman.Spec Penman.C03Text

/-! ## per-triple conditions -/

/-- what `WfGraph.roles`, `WfGraph.noInstOf` and `GraphTextOK.roles` ask of a role -/
def RoleOK (cfg : LexCfg) (m : Model) (r : Str) : Prop :=
  r.head? = some ':' ∧ '~' ∉ r ∧ m.canonInversion r = some r ∧
  (r ≠ CONCEPT_ROLE → (roleB cfg r = true ∧ roleB cfg (m.invertRole r) = true) ∧ RoleInvOK m r)

instance (cfg : LexCfg) (m : Model) (r : Str) : Decidable (RoleOK cfg m r) := by
  unfold RoleOK; infer_instance

/-- a source / variable: no `~`, a SYMBOL text -/
def SrcOK (cfg : LexCfg) (s : Str) : Prop := '~' ∉ s ∧ symbolB cfg s = true

instance (cfg : LexCfg) (s : Str) : Decidable (SrcOK cfg s) := by unfold SrcOK; infer_instance

/-- a target: reads back as itself and is grammar-valid text -/
def AtomOK (cfg : LexCfg) (a : Atom) : Prop := Cfg.TgtOK a ∧ TgtTextOK cfg a

instance (cfg : LexCfg) (a : Atom) : Decidable (AtomOK cfg a) := by unfold AtomOK; infer_instance

def TripleOK (cfg : LexCfg) (m : Model) (t : Triple) : Prop :=
  RoleOK cfg m t.role ∧ SrcOK cfg t.src ∧ AtomOK cfg t.tgt ∧ (t.role = CONCEPT_ROLE → t.tgt ≠ .str [])

instance (cfg : LexCfg) (m : Model) (t : Triple) : Decidable (TripleOK cfg m t) := by
  unfold TripleOK; infer_instance

/-! ## marker conditions on every entry of the marker table -/

/-- the `Push` part: every `Push` names a variable; `Push(source)` only towards a string -/
def PushOK (V : List Str) (k : Triple) (es : List Epi) : Prop :=
  (∀ e ∈ es, Cfg.pushIn V e) ∧
  ((tgtStr? k.tgt).isSome = true ∨ k.role = CONCEPT_ROLE ∨ Epi.push k.src ∉ es)

instance (V : List Str) (k : Triple) (es : List Epi) : Decidable (PushOK V k es) := by
  unfold PushOK; infer_instance

/-- layout markers only (no alignments), and `PushOK` -/
def MarkOK (V : List Str) (k : Triple) (es : List Epi) : Prop :=
  (∀ e ∈ es, e.mode = 0) ∧ PushOK V k es

instance (V : List Str) (k : Triple) (es : List Epi) : Decidable (MarkOK V k es) := by
  unfold MarkOK; infer_instance

/-- every entry of the marker table satisfies `NoAlign`, `PushVars`, `PushSrcOK` -/
def EpiAll (g : Graph) : Prop := ∀ p ∈ g.epidata, MarkOK g.variables p.1 p.2

instance (g : Graph) : Decidable (EpiAll g) := by unfold EpiAll; infer_instance

/-- only the `Push` part (the side condition of `dereify_edges` is stated with it) -/
def PushAll (g : Graph) : Prop := ∀ p ∈ g.epidata, PushOK g.variables p.1 p.2

instance (g : Graph) : Decidable (PushAll g) := by unfold PushAll; infer_instance

theorem pushIn_mono {V W : List Str} (h : ∀ x ∈ V, x ∈ W) {e : Epi} (he : Cfg.pushIn V e) :
    Cfg.pushIn W e := by
  cases e <;> simp only [Cfg.pushIn] at he ⊢
  exact h _ he

theorem PushOK.mono {V W : List Str} (h : ∀ x ∈ V, x ∈ W) {k : Triple} {es : List Epi}
    (hm : PushOK V k es) : PushOK W k es :=
  ⟨fun e he => pushIn_mono h (hm.1 e he), hm.2⟩

theorem MarkOK.mono {V W : List Str} (h : ∀ x ∈ V, x ∈ W) {k : Triple} {es : List Epi}
    (hm : MarkOK V k es) : MarkOK W k es := ⟨hm.1, hm.2.mono h⟩

theorem markOK_nil (V : List Str) (k : Triple) : MarkOK V k [] :=
  ⟨by simp, by simp, Or.inr (Or.inr (by simp))⟩

/-! ## the invariant -/

/-- **the invariant of C12's last clause**: per-triple texts, one node label per variable,
    metadata, markers, every source has a node, connected from the top -/
structure DecOK (cfg : LexCfg) (isSpace : Char → Bool) (m : Model) (g : Graph) : Prop where
  triples : ∀ t ∈ g.triples, TripleOK cfg m t
  oneLabel : ((g.triples.filter (fun t => t.role = CONCEPT_ROLE)).map (·.src)).Nodup
  metaOK : WfMeta isSpace g.metadata
  epi : EpiAll g
  hasInst : HasInst g
  conn : Connected g

/-- the decidable part of `DecOK` (everything but connectivity) -/
def DecOKd (cfg : LexCfg) (isSpace : Char → Bool) (m : Model) (g : Graph) : Prop :=
  (∀ t ∈ g.triples, TripleOK cfg m t) ∧
  ((g.triples.filter (fun t => t.role = CONCEPT_ROLE)).map (·.src)).Nodup ∧
  WfMeta isSpace g.metadata ∧ EpiAll g ∧ HasInst g

instance (cfg : LexCfg) (isSpace : Char → Bool) (m : Model) (g : Graph) :
    Decidable (DecOKd cfg isSpace m g) := by unfold DecOKd; infer_instance

theorem DecOK.of_d {cfg : LexCfg} {isSpace : Char → Bool} {m : Model} {g : Graph}
    (h : DecOKd cfg isSpace m g) (hc : Connected g) : DecOK cfg isSpace m g :=
  ⟨h.1, h.2.1, h.2.2.1, h.2.2.2.1, h.2.2.2.2, hc⟩

theorem startsWith_of_head {r : Str} (h : r.head? = some ':') : startsWith [':'] r = true := by
  cases r with
  | nil => simp at h
  | cons c cs =>
    simp only [List.head?_cons, Option.some.injEq] at h
    subst h
    simp [startsWith, List.isPrefixOf]

theorem head_of_startsWith {r : Str} (h : startsWith [':'] r = true) : r.head? = some ':' := by
  cases r with
  | nil => simp [startsWith, List.isPrefixOf] at h
  | cons c cs =>
    simp only [startsWith, List.isPrefixOf, Bool.and_true, beq_iff_eq] at h
    simp only [List.head?_cons, Option.some.injEq]; exact h.symm

section Derive
variable {cfg : LexCfg} {isSpace : Char → Bool} {m : Model} {g : Graph}

theorem DecOK.rolesColon (h : DecOK cfg isSpace m g) : RolesColon g :=
  fun t ht => startsWith_of_head (h.triples t ht).1.1

theorem DecOK.wfc (h : DecOK cfg isSpace m g) : WfC g := ⟨h.rolesColon, h.hasInst, h.conn⟩

theorem DecOK.topSrc (h : DecOK cfg isSpace m g) : ∀ x, g.getTop = some x → IsSrc g x := by
  obtain ⟨top, hgt, htsrc, _⟩ := h.conn
  intro x hx; rw [hgt] at hx; simp only [Option.some.injEq] at hx; exact hx ▸ htsrc

/-- every variable is a source, hence its text is fine -/
theorem DecOK.varOK (h : DecOK cfg isSpace m g) {x : Str} (hx : x ∈ g.variables) : SrcOK cfg x := by
  obtain ⟨t, ht, rfl⟩ := isSrc_of_mem_variables h.topSrc hx
  exact (h.triples t ht).2.1

/-- some node label exists, so `:instance` itself is a fine role -/
theorem DecOK.conceptOK (h : DecOK cfg isSpace m g) : RoleOK cfg m CONCEPT_ROLE := by
  obtain ⟨top, _, ⟨t, ht, _⟩, _⟩ := h.conn
  obtain ⟨t', ht', _, hc⟩ := h.hasInst t ht
  have := (h.triples t' ht').1
  rwa [hc] at this

theorem nodup_of_nodup_map {α β : Type} (f : α → β) {l : List α} (h : (l.map f).Nodup) : l.Nodup := by
  induction l with
  | nil => simp
  | cons a r ih =>
    simp only [List.map_cons, List.nodup_cons, List.mem_map, not_exists, not_and] at h ⊢
    exact ⟨fun ha => h.1 a ha rfl, ih h.2⟩

theorem inj_of_nodup_map {α β : Type} (f : α → β) {l : List α} (h : (l.map f).Nodup) {x y : α}
    (hx : x ∈ l) (hy : y ∈ l) (hxy : f x = f y) : x = y := by
  induction l with
  | nil => simp at hx
  | cons a r ih =>
    simp only [List.map_cons, List.nodup_cons, List.mem_map, not_exists, not_and] at h
    rcases List.mem_cons.mp hx with rfl | hx' <;> rcases List.mem_cons.mp hy with rfl | hy'
    · rfl
    · exact absurd hxy.symm (h.1 y hy')
    · exact absurd hxy (h.1 x hx')
    · exact ih h.2 hx' hy'

theorem epiAll_get (h : EpiAll g) (k : Triple) :
    MarkOK g.variables k ((AList.get? g.epidata k).getD []) := by
  cases hk : AList.get? g.epidata k with
  | none => exact markOK_nil _ _
  | some es => exact h (k, es) (AList.mem_of_get? hk)

theorem DecOK.noAlign (h : DecOK cfg isSpace m g) : Cfg.NoAlign g :=
  fun t _ e he => (epiAll_get h.epi t).1 e he

theorem DecOK.pushVars (h : DecOK cfg isSpace m g) : Cfg.PushVars g :=
  fun t _ e he => (epiAll_get h.epi t).2.1 e he

theorem DecOK.pushSrcOK (h : DecOK cfg isSpace m g) : Cfg.PushSrcOK g :=
  fun t _ => (epiAll_get h.epi t).2.2

theorem DecOK.wfGraph (h : DecOK cfg isSpace m g) : Cfg.WfGraph m g := by
  have hinst : (g.triples.filter (fun t => t.role = CONCEPT_ROLE)).Nodup :=
    nodup_of_nodup_map _ h.oneLabel
  refine ⟨?_, ?_, ?_, ?_, ?_, ?_, ?_, ?_, ?_, h.noAlign⟩
  · obtain ⟨top, _, ⟨t, ht, _⟩, _⟩ := h.conn
    cases hl : g.triples with
    | nil => rw [hl] at ht; simp at ht
    | cons a r => rfl
  · intro v hv
    obtain ⟨t, ht, hs⟩ := isSrc_of_mem_variables h.topSrc hv
    obtain ⟨t', ht', hs', hc⟩ := h.hasInst t ht
    exact ⟨t', ht', hs'.trans hs, hc⟩
  · have : g.triples.filter Cfg.nullB =
        (g.triples.filter (fun t => t.role = CONCEPT_ROLE)).filter Cfg.nullB := by
      rw [List.filter_filter]
      apply List.filter_congr
      intro t _
      simp only [Cfg.nullB]
      by_cases hc : t.role = CONCEPT_ROLE <;> simp [hc]
    rw [this]
    exact hinst.filter _
  · intro t ht hn t' ht' hc' hs
    have hc : t.role = CONCEPT_ROLE := by
      simp only [Cfg.nullB, Bool.and_eq_true, decide_eq_true_eq] at hn; exact hn.1
    exact inj_of_nodup_map _ h.oneLabel
      (List.mem_filter.mpr ⟨ht', by simpa using hc'⟩) (List.mem_filter.mpr ⟨ht, by simpa using hc⟩) hs
  · intro t ht hc; exact (h.triples t ht).2.2.2 hc
  · intro t ht; exact ⟨(h.triples t ht).1.1, (h.triples t ht).1.2.1, (h.triples t ht).1.2.2.1⟩
  · intro t ht; exact (h.triples t ht).2.1.1
  · intro t ht; exact (h.triples t ht).2.2.1.1
  · intro t ht hc; exact ((h.triples t ht).1.2.2.2 hc).2

theorem DecOK.textOK (h : DecOK cfg isSpace m g) : GraphTextOK cfg isSpace m g :=
  ⟨fun t ht => (h.triples t ht).2.1.2, fun t ht hc => ((h.triples t ht).1.2.2.2 hc).1,
   fun t ht => (h.triples t ht).2.2.1.2, h.oneLabel, h.metaOK⟩

end Derive

/-- **a graph satisfying the invariant decodes to itself** (C03 at the level of text) -/
theorem decOK_decodes {cfg : LexCfg} (hcfg : FmtCfgWf cfg = true) (isSpace isAlpha : Char → Bool)
    {m : Model} {g : Graph} (hw : ModelWf m) (hnoop : m.noop = false) (h : DecOK cfg isSpace m g)
    (i : Indent) (c : Bool) :
    ∃ s g'', encode m g none i c = .ok s ∧ decode cfg isSpace isAlpha m s = .ok g'' ∧
      g''.getTop = g.getTop ∧ (∀ x, x ∈ g''.variables ↔ x ∈ g.variables) ∧
      (g''.triples.map (Cfg.deinvert1 m g)).Perm ((g.triples.map writtenTriple).map (Cfg.deinvert1 m g)) ∧
      (∀ x ∈ g''.triples, ∃ t0 ∈ g.triples, x = writtenTriple t0 ∨ x = m.invert (writtenTriple t0)) ∧
      g''.metadata = g.metadata := by
  obtain ⟨t, hgt, htv, hr⟩ := connected_cfgReach h.conn
  obtain ⟨s, g'', h1, h2, h3, h4, h5, h6, h7⟩ := C03_text hcfg isSpace isAlpha (top := none) (t := t)
    hw hnoop h.wfGraph h.textOK h.pushVars h.pushSrcOK (by simpa [Cfg.topOf] using hgt) htv hr i c
  exact ⟨s, g'', h1, h2, h3.trans hgt.symm, h4, h5, h6, h7⟩

/-! ## table conditions -/

/-- a reification concept: a non-empty target text -/
def ConceptOK (cfg : LexCfg) (c : Atom) : Prop := AtomOK cfg c ∧ c ≠ .str []

instance (cfg : LexCfg) (c : Atom) : Decidable (ConceptOK cfg c) := by unfold ConceptOK; infer_instance

/-- the lexer lets `_` and the ASCII digits be name characters (then the generated variable names
    `_`, `_2`, … are SYMBOL texts without `~`) -/
def GenOK (cfg : LexCfg) : Prop := ∀ c ∈ cfg.symExcl, c ≠ '_' ∧ isAsciiDigit c = false

instance (cfg : LexCfg) : Decidable (GenOK cfg) := by unfold GenOK; infer_instance

/-- **the texts the transformations introduce are grammar-valid**: role, source role, target role
    and concept of every reification; the top role; the generated variable names -/
def TableOK (cfg : LexCfg) (m : Model) : Prop :=
  (∀ rf ∈ m.reifs, RoleOK cfg m rf.role ∧ RoleOK cfg m rf.source ∧ RoleOK cfg m rf.target ∧
    ConceptOK cfg rf.concept) ∧
  RoleOK cfg m m.topRole ∧ GenOK cfg

instance (cfg : LexCfg) (m : Model) : Decidable (TableOK cfg m) := by unfold TableOK; infer_instance

/-- a generated name is a fine variable -/
theorem srcOK_genName {cfg : LexCfg} (hg : GenOK cfg) {v : Str} (hv : isGenName v = true) :
    SrcOK cfg v := by
  cases v with
  | nil => simp [isGenName] at hv
  | cons c rest =>
    have hc : c = '_' := by
      by_cases h : c = '_'
      · exact h
      · unfold isGenName at hv; split at hv
        · rename_i heq; simp only [List.cons.injEq] at heq; exact absurd heq.1 h
        · simp at hv
    subst hc
    have hrest : rest.all isAsciiDigit = true := by simpa [isGenName] using hv
    rw [List.all_eq_true] at hrest
    have hch : ∀ x ∈ ('_' :: rest), x = '_' ∨ isAsciiDigit x = true := by
      intro x hx
      rcases List.mem_cons.mp hx with rfl | hx
      · left; rfl
      · right; exact hrest x hx
    have hnot : ∀ x : Char, (x = '_' ∨ isAsciiDigit x = true) → x ∉ cfg.symExcl := by
      intro x hx hmem
      have := hg x hmem
      rcases hx with rfl | hx
      · exact this.1 rfl
      · rw [this.2] at hx; simp at hx
    have hne : ∀ y : Char, (y = '_' ∨ isAsciiDigit y = true) → y ≠ '~' ∧ y ≠ '\n' ∧ y ≠ '\r' := by
      intro y hy
      rcases hy with rfl | hy
      · decide
      · refine ⟨?_, ?_, ?_⟩ <;> rintro rfl <;> simp [isAsciiDigit] at hy
    refine ⟨fun hm => (hne _ (hch _ hm)).1 rfl, ?_⟩
    simp only [symbolB, noBreakB, Bool.and_eq_true, Bool.not_eq_true', List.isEmpty_cons,
      List.all_eq_true, List.head?_cons, bne_iff_ne, ne_eq, Option.some.injEq,
      List.contains_eq_mem, decide_eq_false_iff_not]
    refine ⟨⟨⟨trivial, fun x hx => ?_⟩, by decide⟩, fun hm => (hne _ (hch _ hm)).2.1 rfl,
      fun hm => (hne _ (hch _ hm)).2.2 rfl⟩
    exact hnot x (hch x hx)

/-- a variable as a target -/
theorem atomOK_var {cfg : LexCfg} {s : Str} (h : SrcOK cfg s) : AtomOK cfg (.str s) :=
  ⟨Or.inl h.1, by simp [TgtTextOK, h.2]⟩

/-- a grammar-valid string target is not empty -/
theorem atomOK_ne_empty {cfg : LexCfg} {a : Atom} (h : AtomOK cfg a) : a ≠ .str [] := by
  rintro rfl
  have := h.2
  simp [TgtTextOK, symbolB, stringB, scanString] at this

/-! ## association lists: where entries come from -/

theorem mem_set_imp {α β : Type} [DecidableEq α] {d : AList α β} {k : α} {v : β} {p : α × β}
    (h : p ∈ AList.set d k v) : p ∈ d ∨ p = (k, v) := by
  induction d with
  | nil => right; simpa [AList.set] using h
  | cons q r ih =>
    obtain ⟨k', v'⟩ := q
    simp only [AList.set] at h
    split at h
    · rename_i hk
      rcases List.mem_cons.mp h with rfl | h'
      · right; rw [hk]
      · left; exact List.mem_cons_of_mem _ h'
    · rcases List.mem_cons.mp h with rfl | h'
      · left; simp
      · rcases ih h' with h'' | h''
        · left; exact List.mem_cons_of_mem _ h''
        · right; exact h''

theorem mem_erase_imp {α β : Type} [DecidableEq α] {d : AList α β} {k : α} {p : α × β}
    (h : p ∈ AList.erase d k) : p ∈ d := (List.mem_filter.mp h).1

theorem mem_ofList_imp {α β : Type} [DecidableEq α] {l : List (α × β)} {p : α × β}
    (h : p ∈ AList.ofList l) : p ∈ l := by
  have : ∀ (l : List (α × β)) (acc : AList α β), p ∈ l.foldl (fun d q => d.set q.1 q.2) acc →
      p ∈ acc ∨ p ∈ l := by
    intro l
    induction l with
    | nil => intro acc h; left; exact h
    | cons q r ih =>
      intro acc h
      rcases ih _ h with h' | h'
      · rcases mem_set_imp h' with h'' | h''
        · left; exact h''
        · right; rw [h'']; simp
      · right; exact List.mem_cons_of_mem _ h'
  rcases this l [] h with h' | h'
  · simp at h'
  · exact h'

theorem wfMeta_ofList {isSpace : Char → Bool} {md : AList Str Str} (h : WfMeta isSpace md) :
    AList.ofList md = md := by
  apply AList.ofList_of_nodup
  exact h.1

/-- the colon normalisation of `Graph.__init__` does nothing to colon-prefixed roles -/
theorem map_ensureColon_id {l : List Triple} (h : ∀ t ∈ l, startsWith [':'] t.role = true) :
    l.map (fun t => { t with role := ensureColon t.role }) = l := by
  conv => rhs; rw [← List.map_id l]
  apply List.map_congr_left
  intro t ht
  rw [ensureColon_of_colon (h t ht)]; rfl


/-! ## the invariant in terms of the hypotheses of `C03_text` -/

/-- `DecOK` is exactly: `WfGraph`, `GraphTextOK`, the marker conditions on every entry, connectivity -/
theorem DecOK.of_hyps {cfg : LexCfg} {isSpace : Char → Bool} {m : Model} {g : Graph}
    (hw : Cfg.WfGraph m g) (ht : GraphTextOK cfg isSpace m g) (he : EpiAll g) (hc : Connected g) :
    DecOK cfg isSpace m g := by
  refine ⟨fun t htg => ⟨⟨(hw.roles t htg).1, (hw.roles t htg).2.1, (hw.roles t htg).2.2, fun hr =>
      ⟨ht.roles t htg hr, hw.noInstOf t htg hr⟩⟩, ⟨hw.srcs t htg, ht.srcs t htg⟩,
      ⟨hw.tgts t htg, ht.tgts t htg⟩, hw.instNotEmpty t htg⟩, ht.oneLabel, ht.metaOK, he, ?_, hc⟩
  intro t htg
  obtain ⟨t', ht', hs, hr⟩ := hw.labelled t.src (src_mem_variables htg)
  exact ⟨t', ht', hs, hr⟩

theorem decOK_iff {cfg : LexCfg} {isSpace : Char → Bool} {m : Model} {g : Graph} :
    DecOK cfg isSpace m g ↔
      Cfg.WfGraph m g ∧ GraphTextOK cfg isSpace m g ∧ EpiAll g ∧ Connected g :=
  ⟨fun h => ⟨h.wfGraph, h.textOK, h.epi, h.conn⟩, fun h => DecOK.of_hyps h.1 h.2.1 h.2.2.1 h.2.2.2⟩

/-- when the marker table is a dictionary whose keys are triples of the graph (true of every decoded
    graph), `EpiAll` IS `NoAlign ∧ PushVars ∧ PushSrcOK` -/
theorem epiAll_of_keys {g : Graph} (hk : EpiKeysNodup g) (hin : ∀ k ∈ AList.keys g.epidata, k ∈ g.triples)
    (h1 : Cfg.NoAlign g) (h2 : Cfg.PushVars g) (h3 : Cfg.PushSrcOK g) : EpiAll g := by
  intro p hp
  have hkey : p.1 ∈ g.triples := hin p.1 (List.mem_map.mpr ⟨p, hp, rfl⟩)
  have hget : AList.get? g.epidata p.1 = some p.2 := AList.get?_of_mem hk hp
  have e : (AList.get? g.epidata p.1).getD [] = p.2 := by rw [hget]; rfl
  refine ⟨fun x hx => h1 p.1 hkey x (e ▸ hx), fun x hx => h2 p.1 hkey x (e ▸ hx), ?_⟩
  have := h3 p.1 hkey
  rwa [e] at this

end Penman.C12dec

/-
  Penman.Proofs.Configure14 — edges of the store are plain (no `:instance` role,
  no alignment markers) when the graph carries no alignments; the triples written
  in the configured tree are exactly the triples placed in the store.
-/
import Penman.Proofs.Configure13
namespace Penman
namespace Cfg
open Penman.Spec.Reading

/-! ### plain edges -/

def PlainE (e : Edge) : Prop := e.role ≠ CONCEPT_ROLE ∧ e.epis = []
def Plain (c : Cells) : Prop := ∀ p ∈ c, ∀ e ∈ p.2, PlainE e
def PlainData (l : List Datum) : Prop := ∀ tr p es, Datum.t tr p es ∈ l → es = []

theorem plain_set {c : Cells} {k : Str} {es : List Edge} (h : Plain c) (hes : ∀ e ∈ es, PlainE e) :
    Plain (AList.set c k es) := by
  intro p hp e he
  rcases mem_set hp with h1 | h1
  · exact h p h1 e he
  · subst h1; exact hes e he

theorem plain_cell {st : St} (h : Plain st.cells) {v : Str} {e : Edge} (he : e ∈ st.cell v) : PlainE e := by
  obtain ⟨es, h1, h2⟩ := cell_mem he
  exact h _ h1 e h2

theorem plain_addBack {st : St} {var : Str} {e : Edge} (h : Plain st.cells) (he : PlainE e) :
    Plain (st.addBack var e).cells := by
  apply plain_set h
  intro x hx
  simp only [List.mem_append, List.mem_singleton] at hx
  rcases hx with hx | rfl
  · exact plain_cell h hx
  · exact he

theorem plain_addFront {st : St} {var : Str} {e : Edge} (h : Plain st.cells) (he : PlainE e) :
    Plain (st.addFront var e).cells := by
  apply plain_set h
  intro x hx
  simp only [List.mem_cons] at hx
  rcases hx with rfl | hx
  · exact he
  · exact plain_cell h hx

theorem establishIn_plain {v : Str} : ∀ {es : List Edge}, (∀ e ∈ es, PlainE e) → ∀ e ∈ establishIn v es, PlainE e := by
  intro es
  induction es with
  | nil => intro _ e he; simp [establishIn] at he
  | cons a r ih =>
    intro h e he
    simp only [establishIn] at he
    split at he
    · simp only [List.mem_cons] at he
      rcases he with rfl | he
      · exact h a List.mem_cons_self
      · exact h e (List.mem_cons_of_mem _ he)
    · simp only [List.mem_cons] at he
      rcases he with rfl | he
      · exact h _ List.mem_cons_self
      · exact ih (fun x hx => h x (List.mem_cons_of_mem _ hx)) e he

theorem plain_getOrEstablish {st : St} {v : Str} (h : Plain st.cells) : Plain (getOrEstablish st v).2.cells := by
  unfold getOrEstablish
  split
  · exact h
  · simp only []
    apply plain_set
    · apply plain_set h
      exact establishIn_plain (fun e he => plain_cell h he)
    · intro e he; simp at he
  · exact h

theorem plain_findNext : ∀ data rev st, Plain st.cells → Plain (findNext data rev st).2.2.2.cells := by
  intro data rev st
  fun_induction findNext data rev st <;> intro h
  · exact h
  · exact h
  · rename_i ih; exact ih h
  · rename_i tr push epis rest rev st d trySrc h1
    simp only [trySrc]; split
    · exact plain_getOrEstablish h
    · exact h
  · rename_i tr push epis rest rev st d trySrc h1 tv htv tryTgt h2
    have hT : Plain trySrc.2.cells := by
      simp only [trySrc]; split
      · exact plain_getOrEstablish h
      · exact h
    simp only [tryTgt]; split
    · exact plain_getOrEstablish hT
    · exact hT
  · rename_i tr push epis rest rev st d trySrc h1 tv htv tryTgt h2 ih
    have hT : Plain trySrc.2.cells := by
      simp only [trySrc]; split
      · exact plain_getOrEstablish h
      · exact h
    have hU : Plain tryTgt.2.cells := by
      simp only [tryTgt]; split
      · exact plain_getOrEstablish hT
      · exact hT
    exact ih hU
  · rename_i tr push epis rest rev st d trySrc h1 hnt ih
    have hT : Plain trySrc.2.cells := by
      simp only [trySrc]; split
      · exact plain_getOrEstablish h
      · exact h
    exact ih hT

theorem plain_cn (m : Model) : ∀ f var data st s, Plain st.cells → PlainData data →
    Plain (configureNode m f var data st s).2.1.cells := by
  intro f
  induction f with
  | zero => intro var data st s h _; exact h
  | succ f ih =>
    intro var data st s h hd
    cases data with
    | nil => exact h
    | cons d data =>
      cases d with
      | pop => exact h
      | t tr push epis =>
        have hd' : PlainData data := fun tr p es hm => hd tr p es (List.mem_cons_of_mem _ hm)
        have hep : epis = [] := hd tr push epis List.mem_cons_self
        simp only [configureNode]
        split
        · exact h
        · rename_i role target push' s' hor
          split
          · split
            · exact ih _ _ _ _ h hd'
            · exact ih _ _ _ _ (plain_addFront h ⟨by show ['/'] ≠ CONCEPT_ROLE; decide, hep⟩) hd'
          · rename_i hncr
            split
            · rename_i v hp
              have h1 : Plain (st.newCell v).cells := plain_set h (fun e he => by simp at he)
              have h2 := ih v data (st.newCell v) false h1 hd'
              have hd2 : PlainData (configureNode m f v data (st.newCell v) false).1 :=
                fun tr p es hm => hd' tr p es ((cn_suffix m f v data (st.newCell v) false).subset hm)
              exact ih _ _ _ _ (plain_addBack h2 ⟨hncr, hep⟩) hd2
            · have h1 : Plain (st.noteSite var target).cells := by rw [cells_noteSite]; exact h
              exact ih _ _ _ _ (plain_addBack h1 ⟨hncr, hep⟩) hd'

theorem plain_round {m : Model} {a b} (h : Round m a b) (hp : Plain a.2.2.cells)
    (hd : PlainData a.1) (hs : PlainData a.2.1) : Plain b.2.2.cells ∧ PlainData b.1 ∧ PlainData b.2.1 := by
  cases h with
  | @skip data skipped st sk v st1 tr push epis rest hfn ho =>
    obtain ⟨hcat, _⟩ := findNext_some _ _ _ hfn
    simp only [List.reverse_nil, List.nil_append] at hcat
    have := plain_findNext data [] st hp
    rw [hfn] at this
    refine ⟨this, ?_, ?_⟩
    · intro tr' p es hm
      apply hd tr' p es; rw [← hcat]
      exact List.mem_append_right _ (List.mem_cons_of_mem _ ((stripPops_suffix rest).subset hm))
    · intro tr' p es hm
      simp only [List.mem_append, List.mem_singleton] at hm
      rcases hm with (hm | hm) | hm
      · apply hd tr' p es; rw [← hcat]; exact List.mem_append_left _ hm
      · exact hs tr' p es hm
      · apply hd tr' p es; rw [← hcat, hm]; simp
  | @prog data skipped st sk v st1 tr push epis rest hfn ho =>
    obtain ⟨hcat, _⟩ := findNext_some _ _ _ hfn
    simp only [List.reverse_nil, List.nil_append] at hcat
    have h1 := plain_findNext data [] st hp
    rw [hfn] at h1
    have hd1 : PlainData (.t tr push epis :: rest) := by
      intro tr' p es hm; apply hd tr' p es; rw [← hcat]; exact List.mem_append_right _ hm
    refine ⟨plain_cn m _ v _ st1 false h1 hd1, ?_, fun _ _ _ hm => by simp at hm⟩
    intro tr' p es hm
    have := (stripPops_suffix _).subset hm
    simp only [List.mem_append] at this
    rcases this with h | h | h
    · exact hd1 tr' p es ((cn_suffix _ _ _ _ _ _).subset h)
    · apply hd tr' p es; rw [← hcat]; exact List.mem_append_left _ h
    · exact hs tr' p es h

theorem plain_loop (m : Model) : ∀ fuel data skipped st st', Plain st.cells → PlainData data → PlainData skipped →
    configureLoop m fuel data skipped st = .ok st' → Plain st'.cells := by
  intro fuel
  induction fuel with
  | zero => intro data skipped st st' _ _ _ h; simp [configureLoop] at h
  | succ fuel ih =>
    intro data skipped st st' hp hd hs h
    cases data with
    | nil =>
      simp only [configureLoop] at h
      split at h
      · simp only [Except.ok.injEq] at h; subst h; exact hp
      · simp at h
    | cons d data =>
      rcases loop_cases m d data skipped st with ⟨_, e⟩ | ⟨nx, hround, e⟩
      · rw [e] at h; simp at h
      · rw [e] at h
        obtain ⟨p1, d1, s1⟩ := plain_round hround hp hd hs
        exact ih _ _ _ _ p1 d1 s1 h

theorem preconfEpis_plain (m : Model) (orig : Triple) : ∀ es tr push epis pops pushed r,
    (∀ e ∈ es, e.mode = 0) → epis = [] →
    preconfEpis m orig es tr push epis pops pushed = .ok r → r.2.2.1 = [] := by
  intro es tr push epis pops pushed
  fun_induction preconfEpis m orig es tr push epis pops pushed <;> intro r hes hep h
  · simp only [Except.ok.injEq] at h; subst h; simp [hep]
  · rename_i ih; exact ih r (fun e he => hes e (List.mem_cons_of_mem _ he)) hep h
  · rename_i ih; exact ih r (fun e he => hes e (List.mem_cons_of_mem _ he)) hep h
  · rename_i ih; exact ih r (fun e he => hes e (List.mem_cons_of_mem _ he)) hep h
  · simp at h
  · rename_i ih; exact ih r (fun e he => hes e (List.mem_cons_of_mem _ he)) hep h
  · rename_i ih; exact ih r (fun e he => hes e (List.mem_cons_of_mem _ he)) hep h
  · rename_i e rest tr push epis pops pushed hnpush hnpop ih
    exfalso
    have := hes e List.mem_cons_self
    cases e with
    | push v => exact hnpush v rfl
    | pop => exact hnpop rfl
    | roleAln _ _ => simp [Epi.mode] at this
    | aln _ _ => simp [Epi.mode] at this


theorem preconfigure_plain (m : Model) (ep : Epidata) : ∀ ts pushed data,
    (∀ t ∈ ts, ∀ e ∈ (AList.get? ep t).getD [], e.mode = 0) →
    preconfigure m ep ts pushed = .ok data → PlainData data := by
  intro ts
  induction ts with
  | nil => intro pushed data _ h; simp [preconfigure] at h; subst h; intro _ _ _ hm; simp at hm
  | cons t ts ih =>
    intro pushed data hts h
    simp only [preconfigure] at h
    cases h1 : preconfEpis m t ((AList.get? ep t).getD []) t false [] 0 pushed with
    | error e1 => rw [h1] at h; simp [bind, Except.bind] at h
    | ok r =>
      obtain ⟨tr', push, epis, pops, pushed'⟩ := r
      rw [h1] at h
      simp only [bind, Except.bind] at h
      cases h2 : preconfigure m ep ts pushed' with
      | error e2 => rw [h2] at h; simp at h
      | ok more =>
        rw [h2] at h
        simp only [pure, Except.pure, Except.ok.injEq] at h
        subst h
        have hp := preconfEpis_plain m t _ _ _ _ _ _ _ (hts t List.mem_cons_self) rfl h1
        intro tr p es hm
        simp only [List.mem_cons, List.mem_append, List.mem_replicate, Datum.t.injEq] at hm
        rcases hm with (⟨_, _, rfl⟩ | ⟨_, hm⟩) | hm
        · exact hp
        · exact absurd hm (by simp)
        · exact ih _ _ (fun t ht => hts t (List.mem_cons_of_mem _ ht)) h2 tr p es hm

/-- without alignment markers in the graph, every edge of the final store is plain -/
theorem storeOf_plain {m : Model} {g : Graph} {top : Str} {st : St} (hna : NoAlign g)
    (h : storeOf m g top = .ok st) : Plain st.cells := by
  unfold storeOf at h
  cases hp : preconfigure m g.epidata g.triples [] with
  | error e1 => rw [hp] at h; simp [Except.bind] at h
  | ok data =>
    rw [hp] at h
    simp only [Except.bind] at h
    have hd := preconfigure_plain m _ _ _ _ hna hp
    have h0 : Plain (st0 g top).cells := by
      intro p hp e he; simp [st0] at hp; subst hp; simp at he
    have h1 := plain_cn m (data.length + 1) top data (st0 g top) false h0 hd
    have hd1 : PlainData (stripPops (configureNode m (data.length + 1) top data (st0 g top) false).1) :=
      fun tr p es hm => hd tr p es ((cn_suffix _ _ _ _ _ _).subset ((stripPops_suffix _).subset hm))
    exact plain_loop m _ _ _ _ _ h1 hd1 (fun _ _ _ hm => by simp at hm) h

/-! ### the triples written in the tree -/

/-- the triple an edge is written as (alignment text included) -/
def rawTriple (v : Str) (e : Edge) : Triple :=
  ⟨v, slashRole (outRole e), match e.tgt with | .atom a => outAtom e a | .node w => .str w⟩

theorem rawTriple_plain {v : Str} {e : Edge} (h : PlainE e) : rawTriple v e = denote v e := by
  obtain ⟨_, he⟩ := h
  cases e with
  | mk role tgt epis =>
    simp only [] at he; subst he
    cases tgt <;> simp [rawTriple, denote, outRole, outAtom, applyEpis, slashRole] <;> (split <;> simp_all)

def builtT (c : Cells) (v : Str) : List Triple :=
  match buildNode c (2 * c.length + 2) v with | .ok n => n.edgeTriples | .error _ => []

theorem branches_triples (c : Cells) (hF : Forest c) (v : Str) : ∀ (es : List Edge) (f : Nat) (bs : Branches),
    (∀ e ∈ es, ∀ w, e.tgt = .node w → bound c w + 1 ≤ f) → buildBranches c f es = .ok bs →
    (Branches.edgeTriples v bs).Perm (es.map (rawTriple v) ++ (nodeTgts es).flatMap (builtT c)) := by
  intro es
  induction es with
  | nil =>
    intro f bs _ h
    simp only [buildBranches, Except.ok.injEq] at h; subst h
    simp [Branches.edgeTriples, nodeTgts]
  | cons e es ih =>
    intro f bs hb h
    simp only [buildBranches] at h
    cases hrest : buildBranches c f es with
    | error x => rw [hrest] at h; simp [bind, Except.bind] at h
    | ok rest =>
      rw [hrest] at h
      simp only [bind, Except.bind] at h
      have i1 := ih f rest (fun e' he' => hb e' (List.mem_cons_of_mem _ he')) hrest
      cases htg : e.tgt with
      | atom a =>
        rw [htg] at h
        simp only [pure, Except.pure, Except.ok.injEq] at h
        subst h
        have hn : nodeTgts (e :: es) = nodeTgts es := by simp [nodeTgts, htg]
        rw [hn]
        simp only [Branches.edgeTriples, List.map_cons, List.cons_append]
        have : (⟨v, slashRole (applyEpis e.role (some (atomStr a)) e.epis).1,
            (if e.epis.any (·.mode = 2) then .str ((applyEpis e.role (some (atomStr a)) e.epis).2.getD []) else a)⟩ : Triple)
            = rawTriple v e := by
          simp [rawTriple, htg, outRole, outAtom, applyEpis_fst e.role (some (atomStr a))]
        rw [this]
        exact (List.perm_cons _).2 i1
      | node w =>
        rw [htg] at h
        have hw := hb e List.mem_cons_self w htg
        cases f with
        | zero => simp [bound] at hw
        | succ f1 =>
          simp only [] at h
          cases hnode : buildNode c f1 w with
          | error x => rw [hnode] at h; simp at h
          | ok n =>
            rw [hnode] at h
            simp only [pure, Except.pure, Except.ok.injEq] at h
            subst h
            have hfi : buildNode c f1 w = buildNode c (2 * c.length + 2) w :=
              (build_fuel c hF f1).1 w _ (by omega) (bound_le c w)
            have hbt : builtT c w = n.edgeTriples := by simp [builtT, ← hfi, hnode]
            obtain ⟨nbs, hn, _⟩ := buildNode_var hnode
            have hvar : n.var = some w := by rw [hn]; rfl
            have hnt : nodeTgts (e :: es) = w :: nodeTgts es := by simp [nodeTgts, htg]
            rw [hnt]
            simp only [Branches.edgeTriples, List.map_cons, List.cons_append, List.flatMap_cons, hvar, hbt,
              Option.getD_some]
            have : (⟨v, slashRole (applyEpis e.role none e.epis).1, .str w⟩ : Triple) = rawTriple v e := by
              simp [rawTriple, htg, outRole]
            rw [this]
            refine (List.perm_cons _).2 ?_
            refine (List.Perm.append_left _ i1).trans ?_
            rw [← List.append_assoc, ← List.append_assoc]
            exact List.Perm.append_right _ List.perm_append_comm

theorem builtT_step (c : Cells) (hF : Forest c) (v : Str) :
    (builtT c v).Perm ((cellOf c v).map (rawTriple v) ++ (children c v).flatMap (builtT c)) := by
  obtain ⟨n, hn⟩ := buildNode_ok hF v
  obtain ⟨bs, rfl, f1, hf, hb⟩ := buildNode_var hn
  have hf1 : f1 = 2 * c.length + 1 := by omega
  subst hf1
  have hbnd : ∀ e ∈ cellOf c v, ∀ w, e.tgt = .node w → bound c w + 1 ≤ 2 * c.length + 1 := by
    intro e he w hw
    unfold cellOf at he
    cases hg : AList.get? c v with
    | none => simp [hg] at he
    | some es =>
      simp [hg] at he
      obtain ⟨h3, h4⟩ := hF _ (mem_of_get? hg) e he w hw
      have := List.idxOf_lt_length_of_mem h4
      simp only [bound]
      rw [keys_length] at this ⊢
      omega
  have := branches_triples c hF v (cellOf c v) _ bs hbnd hb
  simpa [builtT, hn, Node.edgeTriples, children] using this

/-- the store and the tree `configure` returns, with everything known about their link -/
theorem storeOf_tree {m : Model} {g : Graph} {top : Str} {st : St} {node : Node}
    (hr : ∀ t ∈ g.triples, RoleOK2 m t) (hs : storeOf m g top = .ok st)
    (hb : buildNode st.cells (2 * st.cells.length + 2) top = .ok node) :
    (Node.written node).Perm (flat ownW st.cells) ∧ node.vars.Perm (ckeys st.cells) ∧
    node.edgeTriples.Perm (flat (fun v es => es.map (rawTriple v)) st.cells) ∧
    (ckeys st.cells).Nodup ∧ node.var = some top := by
  obtain ⟨hd, _, hhead⟩ := storeOf_shape hs hr
  have hg := storeOf_good hs
  obtain ⟨rest, hkeys⟩ : ∃ rest, ckeys st.cells = top :: rest := by
    cases hk : ckeys st.cells with
    | nil => rw [hk] at hhead; simp at hhead
    | cons a r => rw [hk] at hhead; simp at hhead; exact ⟨r, by rw [hhead]⟩
  obtain ⟨h1, h2⟩ := built_all hkeys hd.nodup hg.forest hd.deg
  have h3 := traverse st.cells (fun v => (cellOf st.cells v).map (rawTriple v)) (builtT st.cells) top rest hkeys
    hd.nodup hg.forest hd.deg (fun v _ => builtT_step st.cells hg.forest v)
  obtain ⟨bs, hn, _⟩ := buildNode_var hb
  refine ⟨by simpa [builtW, hb] using h1, by simpa [builtV, hb] using h2, ?_, hd.nodup, by rw [hn]; rfl⟩
  rw [flat_eq_keys _ hd.nodup]
  simpa [builtT, hb] using h3

/-- **`configure_tree_triples`.** Without alignment markers, the triples written in the tree are a
    permutation of the triples placed in the store: every cell is reached from the top and traversed
    exactly once. -/
theorem storeOf_tree_triples {m : Model} {g : Graph} {top : Str} {st : St} {node : Node}
    (hr : ∀ t ∈ g.triples, RoleOK2 m t) (hna : NoAlign g) (hs : storeOf m g top = .ok st)
    (hb : buildNode st.cells (2 * st.cells.length + 2) top = .ok node) :
    node.edgeTriples.Perm (placed st.cells) := by
  obtain ⟨_, _, h3, _, _⟩ := storeOf_tree hr hs hb
  have hp := storeOf_plain hna hs
  have : flat (fun v es => es.map (rawTriple v)) st.cells = placed st.cells := by
    unfold flat placed
    apply flatMap_congr'
    intro p hpm
    apply List.map_congr_left
    intro e he
    exact rawTriple_plain (hp p hpm e he)
  rw [← this]; exact h3

end Cfg

/-
  Penman.Proofs.Configure12 — traversing a forest-shaped store from the top visits
  every cell exactly once (generic in what is collected at each cell).
-/
import Penman.Proofs.Configure11
namespace Penman
namespace Cfg

def cellOf (c : Cells) (v : Str) : List Edge := (AList.get? c v).getD []

/-- the nodes hanging directly below `v` -/
def children (c : Cells) (v : Str) : List Str := nodeTgts (cellOf c v)

theorem get?_of_mem_nodup {c : Cells} (hn : (ckeys c).Nodup) {k : Str} {es : List Edge} (h : (k, es) ∈ c) :
    AList.get? c k = some es := by
  induction c with
  | nil => simp at h
  | cons p r ih =>
    obtain ⟨k', x⟩ := p
    simp only [ckeys, AList.keys, List.map_cons, List.nodup_cons] at hn
    simp only [List.mem_cons, Prod.mk.injEq] at h
    rcases h with ⟨rfl, rfl⟩ | h
    · simp [AList.get?]
    · have hne : k' ≠ k := by
        rintro rfl; exact hn.1 (List.mem_map.2 ⟨(k', es), h, rfl⟩)
      have := ih hn.2 h
      simp only [AList.get?, List.find?, hne, decide_false] at this ⊢
      exact this

theorem flatMap_congr' {α β : Type} {f g : α → List β} : ∀ {l : List α}, (∀ x ∈ l, f x = g x) →
    l.flatMap f = l.flatMap g := by
  intro l
  induction l with
  | nil => intro _; rfl
  | cons a r ih =>
    intro h
    simp only [List.flatMap_cons]
    rw [h a List.mem_cons_self, ih (fun x hx => h x (List.mem_cons_of_mem _ hx))]

theorem flat_eq_keys {β : Type} (F : Str → List Edge → List β) {c : Cells} (hn : (ckeys c).Nodup) :
    flat F c = (ckeys c).flatMap fun k => F k (cellOf c k) := by
  have : ∀ p ∈ c, F p.1 p.2 = F p.1 (cellOf c p.1) := by
    intro p hp
    rw [cellOf, get?_of_mem_nodup hn (k := p.1) (es := p.2) hp]; rfl
  simp only [flat, ckeys, AList.keys, List.flatMap_map]
  exact flatMap_congr' this

section Traverse
variable {α : Type} (c : Cells) (own tout : Str → List α)

theorem count_flatMap_zero {l : List Str} {f : Str → List Str} {k : Str}
    (h : ∀ j ∈ l, k ∉ f j) : List.count k (l.flatMap f) = 0 := by
  apply List.count_eq_zero_of_not_mem
  intro hk
  obtain ⟨j, hj, hkj⟩ := List.mem_flatMap.1 hk
  exact h j hj hkj

theorem traverse_aux (top : Str) (rest : List Str) (hkeys : ckeys c = top :: rest) (hn : (ckeys c).Nodup)
    (hF : Forest c) (hdeg : ([top] ++ allNodeTgts c).Perm (ckeys c))
    (hstep : ∀ v ∈ ckeys c, (tout v).Perm (own v ++ (children c v).flatMap tout)) :
    ∀ todo done F, ckeys c = done ++ todo → done.head? = some top →
      (tout top).Perm (done.flatMap own ++ F.flatMap tout) →
      (done.flatMap (children c)).Perm (done.tail ++ F) →
      (tout top).Perm ((ckeys c).flatMap own) := by
  have hN : ((ckeys c).flatMap (children c)).Perm rest := by
    have h1 : allNodeTgts c = (ckeys c).flatMap (children c) := by
      unfold allNodeTgts; rw [flat_eq_keys _ hn]; rfl
    rw [h1, hkeys] at hdeg
    rw [hkeys]
    exact (List.perm_cons top).1 (by simpa using hdeg)
  have hfwd : ∀ j ∈ ckeys c, ∀ w ∈ children c j, (ckeys c).idxOf j < (ckeys c).idxOf w := by
    intro j hj w hw
    unfold children cellOf at hw
    cases hg : AList.get? c j with
    | none => simp [hg, nodeTgts] at hw
    | some es =>
      simp only [hg, Option.getD_some, nodeTgts, List.mem_filterMap] at hw
      obtain ⟨e, he, hew⟩ := hw
      cases ht : e.tgt with
      | atom a => simp [ht] at hew
      | node w' =>
        simp only [ht, Option.some.injEq] at hew; subst hew
        exact (hF _ (mem_of_get? hg) e he w' ht).1
  intro todo
  induction todo with
  | nil =>
    intro done F hd _ h1 h2
    simp only [List.append_nil] at hd
    subst hd
    have : (rest ++ F).Perm (rest ++ []) := by
      have e : (ckeys c).tail = rest := by rw [hkeys]; rfl
      rw [e] at h2
      simpa using h2.symm.trans hN
    have hF0 : F = [] := by
      have := (List.perm_append_left_iff rest).1 this
      exact List.Perm.eq_nil this
    subst hF0
    simpa using h1
  | cons k todo ih =>
    intro done F hd hhead h1 h2
    -- `k` is waiting in the frontier exactly once
    have hnd : (done ++ k :: todo).Nodup := hd ▸ hn
    have hkd : k ∉ done := by
      intro hk
      have := (List.nodup_append.1 hnd).2.2 k hk k List.mem_cons_self
      exact this rfl
    obtain ⟨dtail, hdone⟩ : ∃ dt, done = top :: dt := by
      cases done with
      | nil => simp at hhead
      | cons a dt => simp at hhead; exact ⟨dt, by rw [hhead]⟩
    have hkk : k ∈ ckeys c := by rw [hd]; simp
    have hrest : rest = dtail ++ k :: todo := by
      have := hd; rw [hkeys, hdone] at this; simpa using this
    have hidxk : (ckeys c).idxOf k = done.length := by
      rw [hd]; simp [List.idxOf_append, hkd]
    have hge : ∀ j ∈ k :: todo, done.length ≤ (ckeys c).idxOf j := by
      intro j hj
      have hjd : j ∉ done := fun h => (List.nodup_append.1 hnd).2.2 j h j hj rfl
      rw [hd]; simp [List.idxOf_append, hjd]
    have hcnt : List.count k (done.flatMap (children c)) = 1 := by
      have e1 : List.count k ((ckeys c).flatMap (children c)) = List.count k rest := hN.count_eq k
      have e2 : List.count k rest = 1 := by
        have hnr : rest.Nodup := by rw [hkeys] at hn; exact (List.nodup_cons.1 hn).2
        rw [hnr.count]; simp [hrest]
      rw [hd, List.flatMap_append, List.flatMap_cons, List.count_append, List.count_append] at e1
      have z1 : List.count k (children c k) = 0 := by
        apply List.count_eq_zero_of_not_mem
        intro h
        have := hfwd k hkk k h
        omega
      have z2 : List.count k (todo.flatMap (children c)) = 0 := by
        apply count_flatMap_zero
        intro j hj h
        have hjk : j ∈ ckeys c := by rw [hd]; simp [hj]
        have h1 := hfwd j hjk k h
        have h2 := hge j (List.mem_cons_of_mem _ hj)
        omega
      omega
    have hkF : k ∈ F := by
      have := h2.count_eq k
      rw [hcnt, List.count_append] at this
      have z : List.count k done.tail = 0 :=
        List.count_eq_zero_of_not_mem (fun h => hkd (List.mem_of_mem_tail h))
      apply List.count_pos_iff.1; omega
    have hFp : F.Perm (k :: F.erase k) := List.perm_cons_erase hkF
    apply ih (done ++ [k]) (children c k ++ F.erase k)
    · rw [hd]; simp
    · rw [hdone]; simp
    · refine h1.trans ?_
      have e1 : (F.flatMap tout).Perm (tout k ++ (F.erase k).flatMap tout) := by
        simpa using hFp.flatMap_right tout
      have e2 := hstep k hkk
      simp only [List.flatMap_append, List.flatMap_cons, List.flatMap_nil, List.append_nil, List.append_assoc]
      refine List.Perm.append_left _ (e1.trans ?_)
      rw [← List.append_assoc]
      exact List.Perm.append_right _ e2
    · have etail : (done ++ [k]).tail = done.tail ++ [k] := by rw [hdone]; simp
      rw [etail, List.flatMap_append]
      simp only [List.flatMap_cons, List.flatMap_nil, List.append_nil]
      refine (List.Perm.append_right _ h2).trans ?_
      refine (List.Perm.append_right _ (List.Perm.append_left _ hFp)).trans ?_
      simp only [List.append_assoc, List.cons_append, List.nil_append]
      refine List.Perm.append_left _ ?_
      refine (List.perm_cons k).2 ?_
      exact List.perm_append_comm

/-- **exactly-once traversal**: if `tout v` collects `own v` and then `tout` of each child, then
    `tout top` collects `own` of every cell exactly once -/
theorem traverse (top : Str) (rest : List Str) (hkeys : ckeys c = top :: rest) (hn : (ckeys c).Nodup)
    (hF : Forest c) (hdeg : ([top] ++ allNodeTgts c).Perm (ckeys c))
    (hstep : ∀ v ∈ ckeys c, (tout v).Perm (own v ++ (children c v).flatMap tout)) :
    (tout top).Perm ((ckeys c).flatMap own) := by
  apply traverse_aux c own tout top rest hkeys hn hF hdeg hstep rest [top] (children c top) hkeys rfl
  · have := hstep top (by rw [hkeys]; simp)
    simpa using this
  · simp

end Traverse

end Cfg
end Penman

/-
  Penman.Proofs.NormalFormCli — the command loop (`processLoop`, `processInput`, `mainRun`) on
  streams of graphs that each parse completely; the text the command prints (`streamOut`);
  the formatted text of a grammar-valid tree parses completely back to the tree.
-/
import Penman.Props.C01
import Penman.Proofs.Framing
import Penman.Main
import Penman.Spec.NormalForm
namespace Penman.NF
open Penman Penman.Framing

/-! ### what `process` prints -/

theorem streamOut_join : ∀ (ss : List Str), ss ≠ [] →
    streamOut true ss = joinStr ('\n' :: List.replicate 1 '\n') ss ++ ['\n']
  | [], h => absurd rfl h
  | [s], _ => by simp [streamOut, joinStr]
  | s :: t :: r, _ => by
    have ih := streamOut_join (t :: r) (by simp)
    have e : streamOut false (t :: r) = '\n' :: streamOut true (t :: r) := by simp [streamOut]
    rw [streamOut, e, ih]
    simp [joinStr]

/-! ### similar token streams split like their originals -/

theorem LSim.split {isSpace : Char → Bool} : ∀ {a b ts' : List Tok}, LSim isSpace [] (a ++ b) ts' →
    ∃ b', LSim isSpace b' a ts' ∧ LSim isSpace [] b b'
  | [], b, ts', h => ⟨ts', .nil, h⟩
  | t :: a, b, ts', h => by
    obtain ⟨t', ts'', rfl, ht, hs⟩ := LSim.cons_inv h
    obtain ⟨b', h1, h2⟩ := LSim.split hs
    exact ⟨b', .cons ht h1, h2⟩

/-! ### the loop over one input -/

theorem processLoop_stream (u : UTables) (m : Model) (o : Opts) (c : PCtx) :
    ∀ (gs : List (List Tok × Tree × Str × Nat)),
    (∀ p ∈ gs, ∃ c0, parseTree c0 u.isSpace p.1 = .ok (p.2.1, [])) →
    (∀ p ∈ gs, processTree u m o p.2.1 = .ok (p.2.2.1, p.2.2.2)) →
    ∀ (toks' : List Tok), LSim u.isSpace [] (gs.map (·.1)).flatten toks' →
    ∀ (f : Nat) (first : Bool) (out : Str) (code : Nat), toks'.length < f →
    processLoop u m o c f toks' first out code =
      (out ++ streamOut first (gs.map (·.2.2.1)), .ok (gs.foldl (fun a p => a ||| p.2.2.2) code)) := by
  intro gs
  induction gs with
  | nil =>
    intro _ _ toks' hs f first out code hf
    obtain ⟨g, rfl⟩ : ∃ g, f = g + 1 := ⟨f - 1, by omega⟩
    simp only [List.map_nil, List.flatten_nil] at hs
    rw [hs.nil_inv]
    simp [processLoop, streamOut]
  | cons p gs ih =>
    intro hp hr toks' hs f first out code hf
    obtain ⟨g, rfl⟩ : ∃ g, f = g + 1 := ⟨f - 1, by omega⟩
    obtain ⟨c0, hp0⟩ := hp p (by simp)
    simp only [List.map_cons, List.flatten_cons] at hs
    obtain ⟨b', h1, h2⟩ := LSim.split hs
    obtain ⟨r', hpt, hr', _⟩ := parseTree_sim (c' := c) hp0 h1
    rw [hr'.nil_inv] at hpt
    obtain ⟨t, ts0, hts, hty⟩ := parseTree_ok_head hpt
    obtain ⟨t1, ts1, hts1, _⟩ := parseTree_ok_head hp0
    have hlen : b'.length < g := by
      have := h1.length
      rw [hts1] at this
      simp only [List.length_cons] at this
      omega
    subst hts
    have hpr := hr p (by simp)
    simp only [processLoop, hty, ↓reduceIte, hpt, hpr]
    rw [ih (fun q hq => hp q (by simp [hq])) (fun q hq => hr q (by simp [hq])) b' h2 g false _ _ hlen]
    cases first <;> simp [streamOut]

theorem processInput_stream (cfg : LexCfg) (hc : SepChar cfg '\n') (u : UTables) (m : Model) (o : Opts)
    (input : Str) (gs : List (List Tok × Tree × Str × Nat))
    (hp : ∀ p ∈ gs, ∃ c0, parseTree c0 u.isSpace p.1 = .ok (p.2.1, []))
    (hr : ∀ p ∈ gs, processTree u m o p.2.1 = .ok (p.2.2.1, p.2.2.2))
    (hs : LSim u.isSpace [] (gs.map (·.1)).flatten (lexStr cfg cfg.penmanOrder input)) :
    processInput cfg u m o input =
      (streamOut true (gs.map (·.2.2.1)), .ok (gs.foldl (fun a p => a ||| p.2.2.2) 0)) := by
  unfold processInput
  rw [lexLines_fileLines cfg _ hc]
  simp only
  rw [processLoop_stream u m o _ gs hp hr _ hs _ true [] 0 (by omega)]
  simp

/-- one graph in, one graph out -/
theorem processInput_single (cfg : LexCfg) (hc : SepChar cfg '\n') (u : UTables) (m : Model) (o : Opts)
    (input : Str) (T : Tree) (s : Str) (code : Nat)
    (hp : parseTree ⟨eofPos (lexStr cfg cfg.penmanOrder input)⟩ u.isSpace
      (lexStr cfg cfg.penmanOrder input) = .ok (T, []))
    (hr : processTree u m o T = .ok (s, code)) :
    processInput cfg u m o input = (s ++ ['\n'], .ok code) := by
  have := processInput_stream cfg hc u m o input [(lexStr cfg cfg.penmanOrder input, T, s, code)]
    (by intro p hp'; simp only [List.mem_singleton] at hp'; subst hp'; exact ⟨_, hp⟩)
    (by intro p hp'; simp only [List.mem_singleton] at hp'; subst hp'; exact hr)
    (by simpa using LSim.refl_nil u.isSpace _)
  simpa [streamOut] using this

/-! ### several inputs -/

theorem mainRun_inputs (cfg : LexCfg) (u : UTables) (m : Model) (o : Opts) :
    ∀ (ins : List (Str × Str × Nat)), (∀ p ∈ ins, processInput cfg u m o p.1 = (p.2.1, .ok p.2.2)) →
    ∀ (out : Str) (code : Nat),
    mainRun cfg u m o (ins.map (·.1)) out code =
      (out ++ (ins.map (·.2.1)).flatten, .ok (ins.foldl (fun a p => a ||| p.2.2) code))
  | [], _, out, code => by simp [mainRun]
  | p :: ins, h, out, code => by
    have hp := h p (by simp)
    simp only [List.map_cons, mainRun, hp]
    rw [mainRun_inputs cfg u m o ins (fun q hq => h q (by simp [hq]))]
    simp

/-! ### a formatted tree ends in `)` and is parsed back completely -/

theorem formatNode_getLast (indent : Indent) (vars : List Str) (n : Node) (col : Int) :
    (formatNode indent vars n col).getLast? = some ')' := by
  cases n with
  | mk var bs =>
    cases var with
    | none => rw [FL.formatNode_none]; rfl
    | some v =>
      by_cases hv : v = []
      · subst hv; simp [formatNode]
      · by_cases hbs : bs = .nil
        · subst hbs
          rw [FL.formatNode_nil indent vars v col hv, List.getLast?_concat]
        · obtain ⟨c', j, _, e⟩ := FL.formatNode_some indent vars v bs col hv hbs
          rw [e]
          have : '(' :: v ++ ' ' :: (j ++ [')']) = ('(' :: v ++ ' ' :: j) ++ [')'] := by simp
          rw [this, List.getLast?_concat]

theorem joinStr_getLast (sep x : Str) (hx : x ≠ []) : ∀ l : List Str,
    (joinStr sep (l ++ [x])).getLast? = x.getLast?
  | [] => by simp [joinStr]
  | y :: l => by
    have ih := joinStr_getLast sep x hx l
    have hne : joinStr sep (l ++ [x]) ≠ [] := by
      intro h
      rw [h] at ih
      cases x with
      | nil => exact hx rfl
      | cons a b =>
        simp only [List.getLast?_nil] at ih
        exact absurd (List.getLast?_eq_none_iff.1 ih.symm) (by simp)
    rw [List.cons_append, FL.joinStr_cons_ne sep y (by simp), List.getLast?_append, ih]
    cases hx' : x.getLast? with
    | none => cases x with
      | nil => exact absurd rfl hx
      | cons a b => simp at hx'
    | some z => rfl

theorem format_getLast (T : Tree) (i : Indent) (c : Bool) : (format T i c).getLast? = some ')' := by
  unfold format
  have h := formatNode_getLast i (if c then T.node.vars else []) T.node 0
  rw [joinStr_getLast _ _ (by intro e; rw [e] at h; simp at h), h]

theorem format_noCR (T : Tree) (i : Indent) (c : Bool) : (format T i c).getLast? ≠ some '\r' := by
  rw [format_getLast]; decide

/-- a final line feed adds no token -/
theorem lexStr_append_lf (cfg : LexCfg) (order : List TokTy) (s : Str) (h : s.getLast? ≠ some '\r') :
    lexStr cfg order (s ++ ['\n']) = lexStr cfg order s := by
  unfold lexStr lexLines
  rw [splitLines_append_lf_nil s h, lexLinesFrom_append, lexLinesFrom_nil_line, List.append_nil]

/-- the tokens of the formatted text of a grammar-valid tree parse completely, back to the tree
    (any error context) -/
theorem parseTree_format {cfg : LexCfg} (hw : Spec.FmtCfgWf cfg = true) (isSpace : Char → Bool)
    (t : Node) (md : AList Str Str) (ht : Spec.WfTreeText cfg t) (hmd : Spec.WfMeta isSpace md)
    (i : Indent) (c : Bool) (ctx : PCtx) :
    parseTree ctx isSpace (lexStr cfg cfg.penmanOrder (format ⟨t, md⟩ i c)) = .ok (⟨t, md⟩, []) := by
  obtain ⟨cs, ts, e, h1, h2, h3⟩ := C01.format_lex hw t md ht (C01.wfMeta_noBreak hmd) i c
  obtain ⟨k, hk, rfl, rfl⟩ := h3
  obtain ⟨m0, ms, e0, hm⟩ := k.head [] hk
  have hm' : m0.ty ≠ .COMMENT := by simp [hm]
  rw [List.append_nil] at e0
  rw [e, e0]
  simp only [parseTree, parseComments_eq]
  rw [(leadingComments_append cs m0 ms h1 hm').2, metaOf_append isSpace cs m0 ms h1 hm']
  simp only [reduceCtorEq, if_false, bind, Except.bind]
  have hn := parseNode_cst_top ctx k [] hk
  rw [List.append_nil, e0] at hn
  rw [hn]
  have hmd' := (C01.wfMeta_iff isSpace md).1 hmd
  rw [C07.metadata_fmtLines isSpace md cs h2 hmd'.1 (fun kv hkv => by
    obtain ⟨a, b, c', d, e', -, -⟩ := hmd'.2 kv hkv
    rw [FL.hasColons_eq] at c' d
    exact ⟨(FL.entry_ok_iff kv.1 kv.2).2 ⟨a, b, c', d⟩, e'⟩)]
  rfl

end Penman.NF

"""Property oracles: each property statement executed directly on the real
code. Used for the failing-input search (never as the verdict of a proof):
when a proof obligation or the correspondence breaks, and routinely as a
cheap safety net on the theorem's own domain.

Every oracle is a pair gen(rng) -> case, check(case) -> None | str (what fails).
A case is a JSON-able dict so that it can be written to a replay file.
"""
import copy
import io
import json
import os
import random
import re
import subprocess
import sys
import tempfile

import gen
import ops
from common import (penman, layout, surface, transform, constant, Graph, Model, Tree, REPO,
                    j_graph, j_tree, j_node, j_triple, j_atom, py_graph, py_tree, py_node, py_triple, py_model,
                    py_atom, Unrepresentable)
from penman import _lexer, _parse

maybe = gen.maybe

# ---------------------------------------------------------------- helpers

BLANK = ' \t\r\n\x0b\x0c'
NAME_EXCL = set(BLANK + '"()/:~')


def is_symbol(s):
    return isinstance(s, str) and len(s) > 0 and not (set(s) & NAME_EXCL) and not s.startswith('#')


def is_string(s):
    if not (isinstance(s, str) and len(s) >= 2 and s[0] == '"' and s[-1] == '"'):
        return False
    body = s[1:-1]
    i = 0
    while i < len(body):
        c = body[i]
        if c == '"':
            return False
        if c == '\\':
            if i + 1 >= len(body) or body[i + 1] in '\n':
                return False
            i += 2
            continue
        i += 1
    return '\n' not in s and '\r' not in s


def split_aln(s):
    """(core, alignment) for an atom/role text written with an optional alignment"""
    if s.startswith('"'):
        k = s.rfind('"')
        return s[:k + 1], s[k + 1:]
    core, t, a = s.partition('~')
    return core, t + a


ALN_RE = re.compile(r'~(?:[a-zA-Z]\.?)?[0-9]+(?:,[0-9]+)*\Z')


def valid_aln(a, canonical=False):
    if a == '':
        return True
    if not ALN_RE.match(a):
        return False
    if canonical:
        body = a.lstrip('~')
        body = re.sub(r'^[a-zA-Z]\.?', '', body)
        return all(str(int(x)) == x for x in body.split(','))
    return True


def valid_atom(a, canonical=False):
    if a is None:
        return True
    if not isinstance(a, str):
        return False
    core, al = split_aln(a)
    return (is_symbol(core) or is_string(core)) and valid_aln(al, canonical)


def valid_role(r, canonical=False):
    core, al = split_aln(r)
    return core.startswith(':') and not (set(core[1:]) & NAME_EXCL) and valid_aln(al, canonical)


def valid_tree(node, canonical=False, top=True):
    """grammar-valid tree in the sense of C01 (what `parse` can produce)"""
    var, bs = node
    if var is None:
        return bs == []
    if not is_symbol(var) or '~' in var:
        return False
    for i, (r, t) in enumerate(bs):
        if r == '/':
            if i != 0 or isinstance(t, tuple) or not valid_atom(t, canonical) or t == '':
                return False
        else:
            if not valid_role(r, canonical):
                return False
            if isinstance(t, tuple):
                if not valid_tree(t, canonical, False):
                    return False
            elif not valid_atom(t, canonical) or t == '':
                return False
    return True


def valid_meta(md):
    for k, v in md.items():
        if k == '' or (set(k) & set(BLANK)) or '::' in k or '\n' in k or '\r' in k or '#' in k:
            return False
        if v != v.rstrip() or '::' in v or '\n' in v or '\r' in v:
            return False
        if k.endswith(':') or v.startswith(':') and False:
            return False
    return True


def all_nodes(node):
    var, bs = node
    out = [node]
    for _, t in bs:
        if isinstance(t, tuple):
            out += all_nodes(t)
    return out


def graph_content(g, model):
    """(top, variables, multiset of triples after one deinversion, constants by written form)"""
    ts = []
    for s, r, t in g.triples:
        tr = (s, r, t)
        if isinstance(t, str) and t in g.variables() and r != ':instance':
            tr = model.deinvert(tr)
        s2, r2, t2 = tr
        ts.append((s2, r2, t2 if (t2 is None or isinstance(t2, str)) else str(t2)))
    return (g.top, frozenset(g.variables()), tuple(sorted(ts, key=repr)))


def wf_graph(g, model, connected=True):
    """well-formed in the sense of C03: each variable exactly one instance triple, triples
    distinct, every source a variable with a node; roles inversion-canonical; weakly connected"""
    vs = g.variables()
    if not g.triples or g.top is None:
        return False
    for es in g.epidata.values():
        # at most one role alignment and one alignment per triple (C03's AlignOK: several are
        # written back to back, `:ARG0~e.1~e.2`, and do not re-read; boundary O22)
        if sum(1 for e in es if type(e) is surface.RoleAlignment) > 1 or sum(1 for e in es if type(e) is surface.Alignment) > 1:
            return False
    inst = [t for t in g.triples if t[1] == ':instance']
    if sorted(t[0] for t in inst) != sorted(vs):
        return False
    if len(set((s, r, repr(t)) for s, r, t in g.triples)) != len(g.triples):
        return False
    for s, r, t in g.triples:
        if not is_symbol(s) or '~' in s or ',' in s:
            return False
        if r == ':instance':
            if isinstance(t, str) and not (is_symbol(t) or is_string(t)):
                return False
            continue
        if r.startswith(':instance'):
            return False
        if not r.startswith(':') or (set(r[1:]) & NAME_EXCL):
            return False
        if model.invert_role(model.invert_role(r)) != r:       # RolesCanon
            return False
        if isinstance(t, str):
            if t == '' or not (is_symbol(t) or is_string(t)):
                return False
        elif isinstance(t, bool):
            return False
    if connected:
        adj = {v: set() for v in vs}
        for s, r, t in g.triples:
            if r != ':instance' and isinstance(t, str) and t in vs:
                adj[s].add(t)
                adj[t].add(s)
        seen, todo = set(), [g.top]
        while todo:
            v = todo.pop()
            if v in seen:
                continue
            seen.add(v)
            todo += list(adj[v] - seen)
        if seen != set(vs):
            return False
    return True


def tree_from_text(s):
    return _parse._parse(_lexer.lex(s, pattern=_lexer.PENMAN_RE))


# ======================================================================= C01

def c01_gen(rng):
    t = gen.gen_tree(rng, wf=maybe(rng, 0.8))
    md = gen.gen_metadata(rng) if maybe(rng, 0.5) else {}
    return {'tree': j_node(t), 'metadata': [[k, v] for k, v in md.items()],
            'indent': rng.choice([None, -1, 0, 1, 2, 3, 5, 8]), 'compact': maybe(rng, 0.5)}


def strip_blank(s):
    return ''.join(c for c in s if c not in BLANK)


def c01_check(case):
    node = py_node(case['tree'])
    md = dict((k, v) for k, v in case['metadata'])
    if not valid_tree(node) or not valid_meta(md):
        return None
    t = Tree(node, metadata=md)
    s = penman.format(t, indent=case['indent'], compact=case['compact'])
    try:
        t2 = penman.parse(s)
    except Exception as e:  # noqa: BLE001
        return f'parse(format(t)) raised {type(e).__name__}: {e} for text {s!r}'
    if t2.node != node:
        return f'parse(format(t)) != t : {t2.node!r} for text {s!r}'
    if dict(t2.metadata) != md or list(t2.metadata) != list(md):
        return f'metadata changed: {t2.metadata!r} vs {md!r}'
    # differ only in whitespace between tokens
    s0 = penman.format(t, indent=None, compact=False)
    toks = [(x.type, x.text) for x in _lexer.lex(s)]
    toks0 = [(x.type, x.text) for x in _lexer.lex(s0)]
    if toks != toks0:
        return f'token sequences differ between options: {s!r} vs {s0!r}'
    # fixed point
    s2 = penman.format(t2, indent=case['indent'], compact=case['compact'])
    if s2 != s:
        return f'format(parse(format(t))) != format(t): {s2!r} vs {s!r}'
    return None


def c01_text_gen(rng):
    s = gen.gen_penman_string(rng, wf=maybe(rng, 0.8))
    if maybe(rng, 0.2):
        s = gen.perturb(rng, s)
    return {'text': s, 'indent': rng.choice([None, -1, 0, 2, 4]), 'compact': maybe(rng, 0.5)}


def c01_text_check(case):
    """fixed-point clause over accepted input strings"""
    try:
        t = penman.parse(case['text'])
    except Exception:  # noqa: BLE001
        return None
    s1 = penman.format(t, indent=case['indent'], compact=case['compact'])
    try:
        t1 = penman.parse(s1)
    except Exception as e:  # noqa: BLE001
        return f'format(parse(s)) does not parse: {type(e).__name__}: {e} on {s1!r}'
    if t1.node != t.node or dict(t1.metadata) != dict(t.metadata) or list(t1.metadata) != list(t.metadata):
        return f'parse(format(parse(s))) != parse(s): {t1.node!r} {dict(t1.metadata)!r} vs {t.node!r} {dict(t.metadata)!r}'
    s2 = penman.format(t1, indent=case['indent'], compact=case['compact'])
    if s2 != s1:
        return f'formatted text is not a fixed point: {s2!r} vs {s1!r}'
    return None


# ======================================================================= C02

def c02_wf_layout(node, model):
    nodes = all_nodes(node)
    vars_ = [n[0] for n in nodes]
    if None in vars_ or len(set(vars_)) != len(vars_):
        return False
    if not valid_tree(node, canonical=True):
        return False
    try:
        g = layout.interpret(Tree(node), model)
    except Exception:  # noqa: BLE001
        return False
    if len(set(g.triples)) != len(g.triples):
        return False
    for n in nodes:
        for r, t in n[1]:
            if r == '/':
                continue
            core, _ = split_aln(r)
            if model.invert_role(model.invert_role(core)) != core:
                return False
            tv = t[0] if isinstance(t, tuple) else (split_aln(t)[0] if isinstance(t, str) else t)
            if model.is_role_inverted(core) and tv == n[0]:
                return False      # inverted self-loop
            if core.startswith(':instance'):
                return False
    return True


def drop_null_concept(node):
    var, bs = node
    out = []
    for r, t in bs:
        if r == '/' and t is None:
            continue
        out.append((r, drop_null_concept(t) if isinstance(t, tuple) else t))
    return (var, out)


def c02_gen(rng):
    t = gen.gen_tree(rng, wf=True, max_nodes=10, strict=maybe(rng, 0.8))
    return {'tree': j_node(t), 'model': gen.gen_model(rng), 'metadata': [[k, v] for k, v in gen.gen_metadata(rng).items()]}


def c02_check(case):
    node = py_node(case['tree'])
    m = py_model(case['model'])
    if not c02_wf_layout(node, m):
        return None
    md = dict((k, v) for k, v in case.get('metadata', []))
    g = layout.interpret(Tree(node, metadata=md), m)
    try:
        t2 = layout.configure(g, model=m)
    except Exception as e:  # noqa: BLE001
        return f'configure(interpret(t)) raised {type(e).__name__}: {e}'
    want = drop_null_concept(node)
    if t2.node != want:
        return f'configure(interpret(t)) = {t2.node!r}, expected {want!r}'
    if dict(t2.metadata) != md:
        return 'metadata lost'
    return None


# ======================================================================= C03 / C06

def c03_gen(rng):
    m = gen.gen_model(rng, custom=maybe(rng, 0.3))
    mode = rng.choice(['decoded', 'hand', 'hand', 'shuffled'])
    g = gen.gen_graph(rng, m, mode='decoded' if mode != 'hand' else 'hand')
    if mode == 'shuffled':
        rng.shuffle(g.triples)
        if maybe(rng, 0.5):
            g.epidata = {}
    return {'graph': j_graph(g), 'model': m, 'top': rng.choice(sorted(g.variables())) if g.triples and maybe(rng, 0.7) else None,
            'indent': rng.choice([None, -1, 2]), 'compact': maybe(rng, 0.3)}


def c06_gen(rng):
    m = gen.gen_model(rng, custom=maybe(rng, 0.3))
    g = gen.gen_graph(rng, m, mode=rng.choice(['decoded', 'hand']))
    for _ in range(rng.choice([1, 1, 2])):
        g = gen.corrupt_markers(rng, g)
    return {'graph': j_graph(g), 'model': m, 'top': rng.choice(sorted(g.variables())) if g.triples and maybe(rng, 0.5) else None,
            'indent': -1, 'compact': False}


def push_vars_ok(g):
    """the marker histories C06 quantifies over: Push names a variable; surface alignment
    markers sit where a decoder could have put them (a role alignment not on an instance
    triple, a target alignment not on a missing target)"""
    vs = g.variables()
    for t, es in g.epidata.items():
        for e in es:
            if isinstance(e, layout.Push) and e.variable not in vs:
                return False
            if isinstance(e, surface.RoleAlignment) and t[1] == ':instance':
                return False
            if isinstance(e, surface.Alignment) and (t[2] is None or t[2] == ''):
                return False
    return True


def is_noop(spec):
    return spec == 'noop' or (isinstance(spec, dict) and bool(spec.get('noop')))


def c03_check(case, markers_any=False):
    g = py_graph(case['graph'])
    m = py_model(case['model'])
    top = case.get('top')
    if is_noop(case['model']):
        return None     # the property speaks of deinverting models
    if not wf_graph(g, m) or not push_vars_ok(g):
        return None
    if top is not None and top not in g.variables():
        return None
    try:
        s = penman.encode(g, top=top, model=m, indent=case.get('indent', -1), compact=case.get('compact', False))
    except Exception as e:  # noqa: BLE001
        return f'encode raised {type(e).__name__}: {e}'
    try:
        g2 = decode_pub(s, m)
    except Exception as e:  # noqa: BLE001
        return f'decode(encode(g)) raised {type(e).__name__}: {e} on {s!r}'
    want = graph_content(g, m)
    got = graph_content(g2, m)
    want = (top if top is not None else g.top,) + want[1:]
    if got != want:
        return f'decode(encode(g)) differs: text {s!r}: got {got!r} want {want!r}'
    return None


def c06_total_gen(rng):
    """arbitrary (also ill-formed, disconnected) triple lists"""
    g = gen.gen_graph(rng, 'default', mode=rng.choice(['hand-disc', 'illformed', 'corrupt', 'hand']))
    if maybe(rng, 0.3):
        g = gen.corrupt_markers(rng, g)
    return {'graph': j_graph(g), 'model': gen.gen_model(rng), 'top': gen.pick_top(rng, g)}


def weakly_connected_to(g, top):
    vs = g.variables()
    adj = {v: set() for v in vs}
    for s, r, t in g.triples:
        if r != ':instance' and isinstance(t, str) and t in vs:
            adj[s].add(t)
            adj[t].add(s)
    seen, todo = set(), [top]
    while todo:
        v = todo.pop()
        if v in seen:
            continue
        seen.add(v)
        todo += list(adj[v] - seen)
    return seen == set(vs)


def c06_total_check(case):
    g = py_graph(case['graph'])
    m = py_model(case['model'])
    top = case.get('top')
    try:
        layout.configure(g, top=top, model=m)
        ok = True
    except penman.exceptions.LayoutError:
        ok = False
    except Exception as e:  # noqa: BLE001
        return f'configure raised {type(e).__name__}: {e}'
    # the public entry point succeeds and fails with configure (same graph, top and model)
    try:
        penman.encode(g, top=top, model=m)
        ok_pub = True
    except penman.exceptions.LayoutError:
        ok_pub = False
    except Exception:  # noqa: BLE001
        ok_pub = ok         # formatting problems of odd atoms are not this clause's business
    if ok_pub != ok:
        return f'encode {"succeeded" if ok_pub else "raised LayoutError"} where configure {"succeeded" if ok else "raised LayoutError"}'
    if not g.triples or not push_vars_ok(g):
        return None
    t = top if top is not None else g.top
    # error precision on well-formed-instance graphs
    vs = g.variables()
    if any(not isinstance(s, str) for s in vs):
        return None
    inst = [x[0] for x in g.triples if x[1] == ':instance']
    if sorted(inst) != sorted(vs):
        return None
    if any(r != ':instance' and (r.startswith(':instance') or m.invert_role(r) == ':instance') for _, r, _ in g.triples):
        return None     # boundary O15: a role whose inversion is the concept role
    should = t in vs and weakly_connected_to(g, t)
    if ok != should:
        return f'configure {"succeeded" if ok else "failed"} but top-in-vars/connected = {should}'
    return None


# ======================================================================= C04 reference reading

def ref_split_role(role):
    if role == '/':
        return ':instance', None
    core, t, a = role.partition('~')
    return core, (a if t else None)


def ref_split_atom(a):
    if not isinstance(a, str) or '~' not in a:
        return a, None
    if a.startswith('"'):
        k = a.rfind('"') + 1
        return (a[:k], a[k:].lstrip('~')) if k < len(a) else (a, None)
    core, _, al = a.partition('~')
    return core, al


def indep_inverted(model, r):
    """documented rule, written independently of penman.model: a role is inverted iff it ends in
    -of and the role table does not define it as it stands"""
    return r.endswith('-of') and not defined_by_spec(model, r)


def indep_invert_role(model, r):
    return r[:-3] if indep_inverted(model, r) else r + '-of'


def ref_read(node, model, noop):
    """documented reading: (top, triples, {triple: (role_aln, target_aln)})"""
    nodevars = {n[0] for n in all_nodes(node) if n[0] is not None}
    triples, alns = [], []

    def visit(n):
        var, bs = n
        own = []
        has_concept = False
        for role, tgt in bs:
            r, ra = ref_split_role(role)
            if r == ':instance':
                has_concept = True
            if isinstance(tgt, tuple):
                tv, ta = tgt[0], None
                is_ref = True
            else:
                tv, ta = ref_split_atom(tgt)
                is_ref = isinstance(tv, str) and tv in nodevars
            tr = (var, r, tv)
            if is_ref and not noop and indep_inverted(model, r):
                tr = (tv, indep_invert_role(model, r), var)
            own.append((tr, ra, ta, tgt if isinstance(tgt, tuple) else None))
        if not has_concept:
            triples.append((var, ':instance', None))
            alns.append(((var, ':instance', None), None, None))
        for tr, ra, ta, sub in own:
            triples.append(tr)
            alns.append((tr, ra, ta))
            if sub is not None:
                visit(sub)
    # the null instance goes before the node's own triples but a node's triples interleave with its children:
    # emulate by a second pass that respects depth-first order

    def visit2(n):
        var, bs = n
        out_t, out_a = [], []
        has_concept = False
        for role, tgt in bs:
            r, ra = ref_split_role(role)
            if r == ':instance':
                has_concept = True
            if isinstance(tgt, tuple):
                tv, ta, is_ref = tgt[0], None, True
            else:
                tv, ta = ref_split_atom(tgt)
                is_ref = isinstance(tv, str) and tv in nodevars
            tr = (var, r, tv)
            if is_ref and not noop and indep_inverted(model, r):
                tr = (tv, indep_invert_role(model, r), var)
            out_t.append(tr)
            out_a.append((tr, ra, ta))
            if isinstance(tgt, tuple):
                ct, ca = visit2(tgt)
                out_t += ct
                out_a += ca
        if not has_concept:
            out_t.insert(0, (var, ':instance', None))
            out_a.insert(0, ((var, ':instance', None), None, None))
        return out_t, out_a
    ts, al = visit2(node)
    return node[0], ts, al


def c04_gen(rng):
    t = gen.gen_tree(rng, wf=maybe(rng, 0.5), weird=0.2)
    if maybe(rng, 0.12):
        # nested empty nodes "()" (a node without variable) and relations without target, together
        var, bs = t
        bs = list(bs)
        for _ in range(rng.randint(1, 2)):
            bs.insert(rng.randrange(len(bs) + 1) if not bs or bs[0][0] != '/' else rng.randrange(1, len(bs) + 1),
                      (gen.role(rng), rng.choice([(None, []), (None, []), None])))
        t = (var, bs)
    if maybe(rng, 0.15):
        # a relation without target as the LAST branch of some nested node (directly before its ")")
        def walk(n):
            for _, tgt in n[1]:
                if isinstance(tgt, tuple) and tgt[0] is not None:
                    yield tgt
                    yield from walk(tgt)
        nested = list(walk(t))
        if nested:
            rng.choice(nested)[1].append((gen.role(rng), None))
    return {'tree': j_node(t), 'model': gen.gen_model(rng)}


def c04_check(case):
    node = py_node(case['tree'])
    if node[0] is None:
        return None         # the empty graph "()" has no top to read
    if not valid_tree(node):
        return None
    spec = case['model']
    m = py_model(spec)
    noop = spec == 'noop' or (isinstance(spec, dict) and spec.get('noop', False))
    try:
        g = layout.interpret(Tree(node), m)
    except Exception as e:  # noqa: BLE001
        return f'interpret raised {type(e).__name__}: {e}'
    top, ts, al = ref_read(node, m, noop)
    # the same reading through the public decoding entry points (text level), with the caller's model
    try:
        text = penman.format(Tree(node), indent=None)
        back = penman.parse(text).node
    except Exception as e:  # noqa: BLE001
        return f'the text of a valid tree does not parse: {type(e).__name__}: {e}'
    if back != node:
        return f'the text {text!r} of the tree is parsed as another tree: {back!r}'
    if True:
        try:
            gp = decode_pub(text, m)
        except Exception as e:  # noqa: BLE001
            return f'public decode raised {type(e).__name__}: {e} on {text!r}'
        if (gp.top, gp.triples, {k: [repr(e) for e in v] for k, v in gp.epidata.items()}) != \
                (g.top, g.triples, {k: [repr(e) for e in v] for k, v in g.epidata.items()}):
            return f'a public decode entry point reads {text!r} differently from interpret(parse(text), model)'
    if g.top != top:
        return f'top {g.top!r} != {top!r}'
    if g.triples != ts:
        return f'triples {g.triples!r} != reference {ts!r}'
    for s, r, t in g.triples:
        if '~' in r or (isinstance(t, str) and '~' in t and not t.startswith('"')):
            return f'alignment left in triple {(s, r, t)!r}'
    # alignments: first written occurrence of each triple
    want_r, want_t = {}, {}
    seen = set()
    for tr, ra, ta in al:
        if tr in seen:
            continue
        seen.add(tr)
        if ra is not None:
            want_r[tr] = '~' + ra.lstrip('~')
        if ta is not None:
            want_t[tr] = '~' + ta.lstrip('~')

    def norm(a):
        mk = surface.AlignmentMarker.from_string(a)
        return str(mk)
    got_r = {k: str(v) for k, v in surface.role_alignments(g).items()}
    got_t = {k: str(v) for k, v in surface.alignments(g).items()}
    if got_r != {k: norm(v) for k, v in want_r.items()}:
        return f'role alignments {got_r!r} != {want_r!r}'
    if got_t != {k: norm(v) for k, v in want_t.items()}:
        return f'alignments {got_t!r} != {want_t!r}'
    return None


# ======================================================================= C05

def decode_pub(s, m):
    """decode ONE graph through one of the public entry points (chosen by the text, so a case
    replays): they must all interpret with the caller's model"""
    import io
    import zlib
    k = zlib.crc32(s.encode('utf-8', 'replace')) % 5
    if k == 0:
        return penman.decode(s, model=m)
    if k == 1:
        return penman.PENMANCodec(model=m).decode(s)
    if k == 2:
        gs = penman.loads(s, model=m)
    elif k == 3:
        gs = list(penman.iterdecode(s, model=m))
    else:
        gs = penman.load(io.StringIO(s), model=m)
    if len(gs) != 1:
        raise AssertionError(f'{len(gs)} graphs decoded from a single-graph text')
    return gs[0]


def c05_gen(rng):
    m = gen.gen_model(rng, custom=False)
    t = gen.gen_tree(rng, wf=True, max_nodes=10, strict=maybe(rng, 0.8))
    if maybe(rng, 0.1):
        # role suffixes in digits of other scripts (oracle only, see gen.ROLES_UNICODE_DIGITS)
        var, bs = t
        t = (var, list(bs) + [(r, 'k%d' % i) for i, r in enumerate(rng.sample(gen.ROLES_UNICODE_DIGITS, 3))])
    return {'tree': j_node(t), 'model': m, 'key': rng.choice(gen.KEYS), 'af': maybe(rng, 0.5),
            'seed': rng.randint(0, 10**6), 'random': maybe(rng, 0.15)}


def indep_key(m, names):
    """the documented ordering keys written independently of penman.model (inverted = ends in -of
    and is not itself a role of the table; alphanumeric = (name, trailing number))"""
    def inverted(r):
        return r.endswith('-of') and not defined_by_spec(m, r)

    def alnum(r):
        i = len(r)
        while i > 0 and r[i - 1].isdecimal():     # decimal digits of any script (what \d and int() accept)
            i -= 1
        if i == len(r) or i == 0:
            return (r, 0)
        return (r[:i], int(r[i:]))
    one = {'original': lambda r: True, 'alphanumeric': alnum, 'invertedLast': inverted,
           'canonical': lambda r: (inverted(r), alnum(r))}
    return lambda r: [one[n](r) for n in names]


def c05_check(case):
    node = py_node(case['tree'])
    m = py_model(case['model'])
    if not c02_wf_layout(node, m):
        return None
    t = Tree(copy.deepcopy(node))
    g0 = layout.interpret(Tree(node), m)
    if case.get('random'):
        random.seed(case['seed'])
        key = m.random_order
    else:
        key = ops.key_fn(m, case['key'])
    layout.rearrange(t, key=key, attributes_first=case['af'])
    # per node: same multiset of branches (modulo recursive rearrangement), concept first
    def cmp(a, b):
        if a[0] != b[0] or len(a[1]) != len(b[1]):
            return 'node changed'
        if a[1] and a[1][0][0] == '/' and b[1][0] != a[1][0]:
            return 'concept moved'
        ka = sorted((r, t[0] if isinstance(t, tuple) else repr(t)) for r, t in a[1])
        kb = sorted((r, t[0] if isinstance(t, tuple) else repr(t)) for r, t in b[1])
        if ka != kb:
            return 'branch set changed'
        subs_b = {t[0]: t for _, t in b[1] if isinstance(t, tuple)}
        for _, t in a[1]:
            if isinstance(t, tuple):
                x = cmp(t, subs_b[t[0]])
                if x:
                    return x
        return None
    x = cmp(node, t.node)
    if x:
        return f'rearrange: {x}: {t.node!r}'
    g1 = layout.interpret(t, m)
    if graph_content(g0, m) != graph_content(g1, m):
        return 'rearrange changed the graph content'
    if not case.get('random') and case['key'] is not None:
        # sorted by key and stable
        kf = indep_key(m, case['key']) if model_wf(m) else ops.key_fn(m, case['key'])
        vars_ = {n[0] for n in all_nodes(node)} if case['af'] else set()
        for n_old, n_new in zip(all_nodes(node), sorted(all_nodes(t.node), key=lambda n: [x[0] for x in all_nodes(node)].index(n[0]))):
            rest_new = n_new[1][1:] if n_new[1] and n_new[1][0][0] == '/' else n_new[1]
            rest_old = n_old[1][1:] if n_old[1] and n_old[1][0][0] == '/' else n_old[1]

            def k(b):
                tv = b[1][0] if isinstance(b[1], tuple) else b[1]
                return ((tv in vars_) if isinstance(tv, str) else False, kf(b[0]))
            ks = [k(b) for b in rest_new]
            if ks != sorted(ks):
                return f'rest not sorted at node {n_new[0]}'
            want = sorted(rest_old, key=k)
            if [(r, t[0] if isinstance(t, tuple) else t) for r, t in want] != \
                    [(r, t[0] if isinstance(t, tuple) else t) for r, t in rest_new]:
                return f'not the stable sort at node {n_new[0]}'
    # reconfigure only returns a tree: its graph argument is left as it was
    before_g = snap(g0)
    try:
        layout.reconfigure(g0, model=m, key=m.canonical_order)
        layout.reconfigure(g0, model=m, key=m.alphanumeric_order)
    except Exception:  # noqa: BLE001
        pass
    if snap(g0) != before_g:
        return 'reconfigure changed its graph argument'
    # reconfigure / new top
    for key in ([case['key']] if not case.get('random') else [None]):
        try:
            t2 = layout.reconfigure(g0, model=m, key=ops.key_fn(m, key))
        except Exception as e:  # noqa: BLE001
            return f'reconfigure raised {type(e).__name__}: {e}'
        g2 = layout.interpret(t2, m)
        if graph_content(g0, m) != graph_content(g2, m):
            return f'reconfigure changed the graph: {t2.node!r}'
    # reconfigure of the same content given WITHOUT an explicit top and without markers keeps the (implicit) top
    if not is_noop(case['model']) and wf_graph(g0, m) and not case.get('random'):
        gh = Graph(list(g0.triples))
        try:
            t4 = layout.reconfigure(gh, model=m, key=ops.key_fn(m, case['key']))
        except Exception as e:  # noqa: BLE001
            return f'reconfigure of a hand-built graph raised {type(e).__name__}: {e}'
        if t4.node[0] != gh.top:
            return f'reconfigure changed the top {gh.top!r} -> {t4.node[0]!r}'
    # every variable as new top (on the decoded graph, which carries markers)
    if not is_noop(case['model']) and wf_graph(g0, m):
        for v in sorted(g0.variables()):
            try:
                t3 = layout.configure(g0, top=v, model=m)
            except Exception as e:  # noqa: BLE001
                return f'configure(top={v!r}) raised {type(e).__name__}: {e}'
            g3 = layout.interpret(t3, m)
            want = graph_content(g0, m)
            if graph_content(g3, m) != (v,) + want[1:]:
                return f'new top {v!r} changed the graph: {t3.node!r}'
    return None


# ======================================================================= C07 independent recogniser

def spec_parse(toks):
    """iterative automaton for the documented grammar + robustness extensions
    toks: list of (type, text, lineno, offset). Returns ('ok', tree, rest_index) or ('err', lineno, offset)"""
    n = len(toks)

    def eof():
        if n == 0:
            return ('err', 0, 0)
        t = toks[-1]
        return ('err', t[2], t[3] + len(t[1]))

    def err(i):
        return ('err', toks[i][2], toks[i][3])
    i = 0
    stack = []     # frames: [var, branches, pending_role]
    state = 'node'
    result = None
    while True:
        if state == 'done':
            return ('ok', result, i)
        if i >= n:
            return eof()
        ty, tx = toks[i][0], toks[i][1]
        if state == 'node':
            if ty != 'LPAREN':
                return err(i)
            stack.append([None, [], None])
            i += 1
            state = 'var'
        elif state == 'var':
            if ty == 'RPAREN':
                state = 'close'
            elif ty == 'SYMBOL':
                stack[-1][0] = tx
                i += 1
                state = 'aftervar'
            else:
                return err(i)
        elif state == 'aftervar':
            if ty == 'SLASH':
                i += 1
                state = 'afterslash'
            else:
                state = 'edges'
        elif state == 'afterslash':
            if ty in ('SYMBOL', 'STRING'):
                stack[-1][1].append(['/', tx])
                i += 1
                state = 'aln_target'
            else:
                stack[-1][1].append(['/', None])
                state = 'edges'
        elif state == 'aln_target':
            if ty == 'ALIGNMENT':
                stack[-1][1][-1][1] += tx
                i += 1
            state = 'edges'
        elif state == 'edges':
            if ty == 'RPAREN':
                state = 'close'
            elif ty == 'ROLE':
                stack[-1][1].append([tx, None])
                i += 1
                state = 'aln_role'
            else:
                return err(i)
        elif state == 'aln_role':
            if ty == 'ALIGNMENT':
                stack[-1][1][-1][0] += tx
                i += 1
            state = 'target'
        elif state == 'target':
            if ty in ('SYMBOL', 'STRING'):
                stack[-1][1][-1][1] = tx
                i += 1
                state = 'aln_target'
            elif ty == 'LPAREN':
                state = 'node'
            elif ty in ('ROLE', 'RPAREN'):
                state = 'edges'
            else:
                return err(i)
        elif state == 'close':
            # ty == RPAREN
            i += 1
            var, bs, _ = stack.pop()
            node = (var, [(r, t) for r, t in bs])
            if stack:
                stack[-1][1][-1][1] = node
                state = 'edges'
            else:
                result = node
                state = 'done'


def spec_parse_triples(toks):
    """recogniser for the triple conjunction  Role '(' Source ',' Target? ')' ('^' ...)*  with the
    documented spacing variants; toks as in spec_parse (lexed with the triple pattern)"""
    n = len(toks)

    def eof():
        if n == 0:
            return ('err', 0, 0)
        t = toks[-1]
        return ('err', t[2], t[3] + len(t[1]))

    def err(i):
        return ('err', toks[i][2], toks[i][3])

    def need(i, ty):
        if i >= n:
            return eof()
        if toks[i][0] != ty:
            return err(i)
        return None
    i, out, strip = 0, [], False
    while True:
        e = need(i, 'SYMBOL')
        if e:
            return e
        role = toks[i][1]
        if strip and role.startswith('^'):
            role = role[1:]
        if not role.startswith(':'):
            role = ':' + role
        i += 1
        e = need(i, 'LPAREN')
        if e:
            return e
        i += 1
        e = need(i, 'SYMBOL')
        if e:
            return e
        src, comma, rest = toks[i][1].partition(',')
        i += 1
        target = None
        if rest:
            target = rest
        elif comma:
            if i < n and toks[i][0] in ('SYMBOL', 'STRING'):
                target = toks[i][1]
                i += 1
        elif i < n and toks[i][0] == 'SYMBOL':
            tx = toks[i][1]
            if tx == ',':
                i += 1
                if i < n and toks[i][0] in ('SYMBOL', 'STRING'):
                    target = toks[i][1]
                    i += 1
            elif tx.startswith(','):
                target = tx[1:]
                i += 1
            else:
                return err(i)
        e = need(i, 'RPAREN')
        if e:
            return e
        i += 1
        out.append((src, role, target))
        if i >= n:
            return ('ok', out)
        if toks[i][0] != 'SYMBOL' or not toks[i][1].startswith('^'):
            return ('ok', out)
        if toks[i][1] == '^':
            i += 1
            strip = False
        else:
            strip = True


def c07_triples_gen(rng):
    import corr
    k = rng.random()
    if k < 0.6:
        s = corr.triples_string(rng)
        if maybe(rng, 0.5):
            s = gen.perturb(rng, s)
    else:
        s = ' '.join(rng.choice(corr.TRIPLE_TOKENS) for _ in range(rng.randint(0, 9)))
    return {'s': s}


def c07_triples_check(case):
    s = case['s']
    toks = [(t.type, t.text, t.lineno, t.offset) for t in _lexer.lex(s, pattern=_lexer.TRIPLE_RE)]
    want = spec_parse_triples(toks)
    try:
        got = ('ok', penman.parse_triples(s))
    except penman.DecodeError as e:
        got = ('err', e.lineno, e.offset)
    except Exception as e:  # noqa: BLE001
        return f'parse_triples raised {type(e).__name__}: {e}'
    if got != want:
        return f'parse_triples {got!r} != recogniser {want!r} on {s!r}'
    return None


def c07_gen(rng):
    k = rng.random()
    if k < 0.5:
        s = gen.gen_penman_string(rng, wf=maybe(rng, 0.5))
        if maybe(rng, 0.7):
            s = gen.perturb(rng, s)
    elif k < 0.9:
        s = gen.gen_token_soup(rng)
    else:
        d = rng.randint(50, 200)
        s = ''.join(f'(a{i} / A :ARG0 ' for i in range(d)) + '(z / Z)' + ')' * rng.choice([d, d, d - 1, d + 1])
    return {'s': s}


def c07_check(case):
    s = case['s']
    toks = [(t.type, t.text, t.lineno, t.offset) for t in _lexer.lex(s)]
    # parse(): comments first
    i = 0
    while i < len(toks) and toks[i][0] == 'COMMENT':
        i += 1
    if i >= len(toks):
        want = ('err',) + ((toks[-1][2], toks[-1][3] + len(toks[-1][1])) if toks else (0, 0))
    else:
        r = spec_parse(toks[i:])
        want = ('ok', r[1]) if r[0] == 'ok' else r
    try:
        t = penman.parse(s)
        got = ('ok', t.node)
    except penman.DecodeError as e:
        got = ('err', e.lineno, e.offset)
    except RecursionError:
        return None
    except Exception as e:  # noqa: BLE001
        return f'parse raised {type(e).__name__}: {e}'
    if got != want:
        return f'parse {got!r} != recogniser {want!r}'
    # iterparse: the same recogniser applied repeatedly, as long as the next token is a comment or "(";
    # the trees before an error are still yielded, the error is raised where parse() would raise it
    trees_want, err_want, i, n = [], None, 0, len(toks)
    while i < n and toks[i][0] in ('COMMENT', 'LPAREN'):
        j = i
        while j < n and toks[j][0] == 'COMMENT':
            j += 1
        if j >= n:
            err_want = ('err', toks[-1][2], toks[-1][3] + len(toks[-1][1]))
            break
        r = spec_parse(toks[j:])
        if r[0] != 'ok':
            err_want = r
            break
        trees_want.append(r[1])
        i = j + r[2]
    trees_got, err_got = [], None
    try:
        for t in penman.iterparse(s):
            trees_got.append(t.node)
    except penman.DecodeError as e:
        err_got = ('err', e.lineno, e.offset)
    except RecursionError:
        return None
    except Exception as e:  # noqa: BLE001
        return f'iterparse raised {type(e).__name__}: {e}'
    if (trees_got, err_got) != (trees_want, err_want):
        return f'iterparse {(trees_got, err_got)!r} != recogniser {(trees_want, err_want)!r}'
    # parse_triples: only totality here (its recogniser is a clause of its own)
    for f in (lambda: penman.parse_triples(s),):
        try:
            f()
        except penman.DecodeError:
            pass
        except RecursionError:
            pass
        except Exception as e:  # noqa: BLE001
            return f'raised {type(e).__name__}: {e}'
    return None


# ======================================================================= C08

def c08_gen(rng):
    n = rng.randint(0, 14)
    alpha = gen.ALPHABET_FULL + ['~e.1', '~1,2', '"a\\"b"', ':r', '# x', '"', '"', '\\', '\\"', '\\\\', '"x\\']
    case = {'line': ''.join(rng.choice(alpha) for _ in range(n)), 'mode': rng.choice(['penman', 'triples'])}
    if rng.random() < 0.15:
        # another lexer, on another text, is alive and advanced while this line is lexed
        case['beside'] = ''.join(rng.choice(['(', 'a', '/', 'b', ':r', ')', '"s"', '~1']) + rng.choice([' ', ' ', '\n'])
                                 for _ in range(rng.randint(2, 8)))
    return case


def doc_class(line, i, mode):
    """class and match length at offset i by the documented lexical grammar"""
    order = (['COMMENT', 'STRING', 'LPAREN', 'RPAREN', 'SLASH', 'ROLE', 'SYMBOL', 'ALIGNMENT', 'UNEXPECTED']
             if mode == 'penman' else ['COMMENT', 'STRING', 'LPAREN', 'RPAREN', 'SYMBOL', 'UNEXPECTED'])
    c = line[i]

    def name_run(j):
        k = j
        while k < len(line) and line[k] not in NAME_EXCL:
            k += 1
        return k
    for cls in order:
        if cls == 'COMMENT' and c == '#':
            j = line.find('\n', i)
            if j == -1:
                return cls, len(line) - i
            if j == len(line) - 1:
                return cls, j - i
        elif cls == 'STRING' and c == '"':
            j = i + 1
            while j < len(line):
                if line[j] == '"':
                    return cls, j + 1 - i
                if line[j] == '\\':
                    if j + 1 >= len(line) or line[j + 1] == '\n':
                        break
                    j += 2
                else:
                    j += 1
        elif cls == 'LPAREN' and c == '(':
            return cls, 1
        elif cls == 'RPAREN' and c == ')':
            return cls, 1
        elif cls == 'SLASH' and c == '/':
            return cls, 1
        elif cls == 'ROLE' and c == ':':
            return cls, name_run(i + 1) - i
        elif cls == 'SYMBOL' and c not in NAME_EXCL:
            return cls, name_run(i) - i
        elif cls == 'ALIGNMENT' and c == '~':
            m = re.compile(r'~(?:[a-zA-Z]\.?)?[0-9]+(?:,[0-9]+)*').match(line, i)
            if m:
                return cls, m.end() - i
        elif cls == 'UNEXPECTED' and c not in BLANK:
            return cls, 1
    return None, 0


def c08_check(case):
    line, mode = case['line'], case['mode']
    pat = _lexer.TRIPLE_RE if mode == 'triples' else _lexer.PENMAN_RE
    # a str is lexed line by line; only LF, CRLF and CR end a line
    pieces = re.split(r'\r\n|\r|\n', line)
    want = []
    for k, piece in enumerate(pieces, 1):
        want += [(t.type, t.text, k, t.offset) for t in _lexer.lex([piece], pattern=pat)]
    got = [(t.type, t.text, t.lineno, t.offset) for t in _lexer.lex(line, pattern=pat)]
    if got != want:
        return f'lexing the str differs from lexing its lines (split at LF/CRLF/CR only): {got!r} vs {want!r}'
    if len(pieces) > 1:
        return None
    if case.get('beside') is not None:
        other = iter(_lexer.lex(case['beside'], pattern=pat))
        next(other, None)
        toks = []
        for t in _lexer.lex([line], pattern=pat):
            toks.append(t)
            next(other, None)
    else:
        toks = list(_lexer.lex([line], pattern=pat))
    pos = 0
    for t in toks:
        if t.lineno != 1:
            return f'lineno {t.lineno}'
        if t.offset < pos:
            return f'overlap at {t.offset}'
        gap = line[pos:t.offset]
        if any(ch not in BLANK for ch in gap):
            return f'non-blank skipped: {gap!r}'
        if line[t.offset:t.offset + len(t.text)] != t.text or not t.text:
            return f'text mismatch at {t.offset}'
        cls, ln = doc_class(line, t.offset, mode)
        if cls != t.type or ln != len(t.text):
            return f'class {t.type}/{t.text!r} but grammar says {cls}/{ln} at {t.offset}'
        pos = t.offset + len(t.text)
    if any(ch not in BLANK for ch in line[pos:]):
        return f'non-blank skipped at end: {line[pos:]!r}'
    return None


# ======================================================================= C09

def c09_gen(rng):
    gs = []
    for _ in range(rng.choice([0, 1, 2, 3])):
        g = gen.decode_graph(rng, 'default')
        if g is not None:
            g.metadata = gen.gen_metadata(rng)
            gs.append(j_graph(g))
    case = {'graphs': gs, 'indent': rng.choice([None, -1, 2]), 'sep': rng.choice(['\n\n', '\n', ' ']),
            'nl': rng.choice(['\n', '\r\n', '\r'])}
    if maybe(rng, 0.004):
        # a long stream whose token count reaches 2**k exactly at a graph boundary (8 tokens per graph)
        case['blocks'] = rng.choice([10, 12, 13, 16, 16])
    return case


def graph_obs(g):
    return (g.top, g.triples, {k: [repr(e) for e in v] for k, v in g.epidata.items()}, dict(g.metadata))


def c09_blocks(k):
    n = 2 ** k // 8 + 5
    g = penman.decode('(a / alpha :ARG0 b)')
    gs = []
    for i in range(n):
        h = copy.deepcopy(g)
        h.metadata = {'id': str(i)}
        gs.append(h)
    text = penman.dumps(gs)
    if sum(1 for _ in _lexer.lex(text)) != 8 * n:
        return None
    for name, f in (('loads', lambda: penman.loads(text)), ('iterdecode', lambda: list(penman.iterdecode(text))),
                    ('iterparse', lambda: list(penman.iterparse(text))), ('load', lambda: penman.load(io.StringIO(text)))):
        try:
            back = f()
        except Exception as e:  # noqa: BLE001
            return f'{name} of a dumped stream of {n} graphs raised {type(e).__name__}: {e}'
        if len(back) != n:
            return f'{name} returns {len(back)} of the {n} graphs dumps wrote ({8 * n} tokens)'
        if name == 'loads' and any(graph_obs(b) != graph_obs(h) for b, h in zip(back, gs)):
            return f'loads(dumps(gs)) differs from gs on a stream of {n} graphs'
    return None


def c09_check(case):
    if case.get('blocks'):
        v = c09_blocks(case['blocks'])
        if v:
            return v
    gs = [py_graph(j) for j in case['graphs']]
    m = Model()
    gs = [g for g in gs if wf_graph(g, m) and valid_meta(g.metadata)
          and all(valid_atom(t if not isinstance(t, str) else t, True) for _, _, t in g.triples if isinstance(t, str) or t is None)]
    try:
        texts = [penman.encode(g, indent=case['indent']) for g in gs]
    except Exception as e:  # noqa: BLE001
        return f'encode raised {type(e).__name__}: {e}'
    s = case['sep'].join(texts)
    s = s.replace('\n', case['nl'])
    try:
        base = [graph_obs(g) for g in penman.loads(s)]
    except Exception as e:  # noqa: BLE001
        return f'loads raised {type(e).__name__}: {e} on {s!r}'
    pieces = re.split(r'\r\n|\r|\n', s)
    variants = {
        'lines': lambda: list(penman.iterdecode(pieces)),
        'lines+nl': lambda: list(penman.iterdecode([p + '\n' for p in pieces])),
        'stringio': lambda: penman.load(io.StringIO(s, newline=None)),
    }

    def from_file():
        fd, path = tempfile.mkstemp(prefix='penman_c09_')
        try:
            with os.fdopen(fd, 'w', encoding='utf-8', newline='') as f:
                f.write(s)
            return penman.load(path, encoding='utf-8')
        finally:
            os.remove(path)
    variants['file'] = from_file
    for name, f in variants.items():
        try:
            got = [graph_obs(g) for g in f()]
        except Exception as e:  # noqa: BLE001
            return f'{name}: raised {type(e).__name__}: {e} on {s!r}'
        if got != base:
            return f'{name}: differs from str input on {s!r}'
    # dumps/loads
    if len(base) != len(gs):
        return f'{len(base)} graphs loaded, {len(gs)} written: {s!r}'
    for g, b in zip(gs, base):
        g2 = Graph(b[1], top=b[0])
        if graph_content(g, m) != graph_content(g2, m) or dict(g.metadata) != b[3]:
            return f'graph or metadata changed through dumps/loads: {s!r}'
    if case['sep'] == '\n\n' and case['nl'] == '\n' and case['indent'] == -1:
        if penman.dumps(gs) != s:
            return 'dumps differs from joined encodes'
    return None


# ======================================================================= C10

def c10_gen(rng):
    t = gen.gen_tree(rng, wf=True, strict=maybe(rng, 0.7))
    fmt = rng.choice(gen.FMTS[:7])
    if maybe(rng, 0.12) and any(p in ('i', 'j') for p in fmt):
        # variables that are already the generated names, on other nodes (a permutation of them)
        try:
            t0 = Tree(copy.deepcopy(t))
            t0.reset_variables(ops.fmt_string(fmt))
            t = gen.permute_vars(rng, t0.node)
        except Exception:  # noqa: BLE001
            pass
    return {'tree': j_node(t), 'fmt': fmt, 'model': gen.gen_model(rng, custom=False)}


def c10_check(case):
    node = py_node(case['tree'])
    m = py_model(case['model'])
    if not c02_wf_layout(node, m):
        return None
    fmt = ops.fmt_string(case['fmt'])
    t = Tree(copy.deepcopy(node))
    t.reset_variables(fmt)
    old = all_nodes(node)
    new = all_nodes(t.node)
    if len(old) != len(new):
        return 'shape changed'
    sigma = {}
    for a, b in zip(old, new):
        if a[0] in sigma and sigma[a[0]] != b[0]:
            return 'inconsistent renaming'
        sigma[a[0]] = b[0]
    if len(set(sigma.values())) != len(sigma):
        return f'renaming not injective: {sigma!r}'
    # the bijection is the one chosen from the node concepts in depth-first order
    want, used = {}, set()
    for var, bs in old:         # all_nodes is depth-first pre-order
        if var in want:
            continue
        concept = next((t_ for r_, t_ in bs if r_ == '/'), None)
        pre = '_'
        if isinstance(concept, str):
            for ch in concept:
                if ch.isalpha():
                    pre = ch.lower()
                    break
        i = 0
        while True:
            nv = fmt.format(prefix=pre, i=i, j='' if i == 0 else i + 1)
            i += 1
            if nv not in used:
                break
        used.add(nv)
        want[var] = nv
    if sigma != want:
        return f'names not chosen from the concepts in depth-first order: {sigma!r}, expected {want!r}'
    # the result depends on the tree's content only, not on what was done to the Tree object before:
    # a tree that was inspected, re-arranged in place and then relabelled = relabelling a fresh copy
    # of the re-arranged tree
    t1 = Tree(copy.deepcopy(node))
    t1.nodes()
    penman.format(t1, compact=True)
    key = m.canonical_order if len(repr(node)) % 2 else m.alphanumeric_order
    layout.rearrange(t1, key=key, attributes_first=bool(len(old) % 2))
    t2 = Tree(copy.deepcopy(t1.node))
    t1.reset_variables(fmt)
    t2.reset_variables(fmt)
    if t1.node != t2.node:
        return f'reset_variables after an in-place rearrange differs from reset_variables on an equal fresh tree: {t1.node!r} vs {t2.node!r}'
    for a, b in zip(old, new):
        if len(a[1]) != len(b[1]):
            return 'shape changed'
        for (r1, t1), (r2, t2) in zip(a[1], b[1]):
            if r1 != r2:
                return 'role changed'
            if isinstance(t1, tuple) != isinstance(t2, tuple):
                return 'shape changed'
            if isinstance(t1, tuple):
                continue
            if r1 == '/':
                if t1 != t2:
                    return f'concept changed {t1!r} -> {t2!r}'
                continue
            core, al = split_aln(t1) if isinstance(t1, str) else (t1, '')
            if isinstance(core, str) and core in sigma:
                if t2 != sigma[core] + al:
                    return f'reference {t1!r} became {t2!r}, expected {sigma[core] + al!r}'
            elif t1 != t2:
                return f'constant changed {t1!r} -> {t2!r}'
    # isomorphism, provided no constant is spelled like a new name
    consts = set()
    for n in old:
        for r, x in n[1]:
            if not isinstance(x, tuple) and isinstance(x, str):
                c = split_aln(x)[0]
                if c not in sigma:
                    consts.add(c)
    if consts & set(sigma.values()):
        return None
    g0 = layout.interpret(Tree(node), m)
    g1 = layout.interpret(t, m)
    vs0 = g0.variables()

    def ren(x):
        return sigma.get(x, x) if isinstance(x, str) and x in vs0 else x
    want = [(sigma[s], r, ren(tg) if r != ':instance' else tg) for s, r, tg in g0.triples]
    if g1.triples != want or g1.top != sigma[g0.top]:
        return f'interpretation of the relabelled tree is not the renamed interpretation: {g1.triples!r} vs {want!r}'
    return None


# ======================================================================= C11 / C12

def reif_graph_gen(rng, spec):
    m = py_model(spec)
    if spec == 'amr' and maybe(rng, 0.35):
        try:
            return layout.interpret(Tree(gen.reified_tree(rng)), m)
        except Exception:  # noqa: BLE001
            pass
    g = gen.gen_graph(rng, spec, mode=rng.choice(['decoded', 'decoded', 'hand']))
    return g


def underscore_const(g):
    vs = g.variables()
    return any(isinstance(t, str) and t not in vs and re.fullmatch(r'_[0-9]*', t) for _, _, t in g.triples)


def markers_sane(g):
    """markers as a decoder leaves them on each triple, whatever the triple order: Push(v) only on
    a non-instance triple with v its source or target and v a variable (cf. `_preconfigure`)"""
    vs = g.variables()
    pushed = set()
    top = g.top
    for t, es in g.epidata.items():
        if sum(isinstance(e, layout.Push) for e in es) > 1:
            return False                # a decoder leaves at most one Push on a triple ...
        for e in es:
            if isinstance(e, layout.Push):
                if e.variable == top:
                    return False        # ... and never opens the top's node a second time
                if t[1] == ':instance' or e.variable not in (t[0], t[2]) or e.variable not in vs or t[2] not in vs:
                    return False
                if e.variable in pushed:
                    return False        # a decoder opens each variable's node once
                pushed.add(e.variable)
    return push_vars_ok(g)


def unambiguous(m, role):
    if role not in m.reifications:
        return True
    concept, s, t = m.reifications[role][0]
    for r2, s2, t2 in m.dereifications[concept]:
        if s2 == s and t2 == t:
            return r2 == role
        if t2 == s and s2 == t:
            return False
    return False


def c11_gen(rng):
    spec = rng.choice(['amr', 'amr', 'amr', gen.CUSTOM_MODELS[1], 'default'])
    return {'graph': j_graph(reif_graph_gen(rng, spec)), 'model': spec}


def c11_check(case):
    g = py_graph(case['graph'])
    m = py_model(case['model'])
    if not wf_graph(g, m):
        return None
    if any(not unambiguous(m, r) for _, r, _ in g.triples):
        return None
    if underscore_const(g) or not markers_sane(g):
        return None     # boundary O16: a constant spelled like a generated variable (_ , _2, ...)
    try:
        if transform._dereify_agenda(g, m):
            return None      # contains a collapsible node to begin with
    except Exception:  # noqa: BLE001
        return None
    vs0 = g.variables()
    try:
        g1 = transform.reify_edges(g, m)
    except Exception as e:  # noqa: BLE001
        return f'reify_edges raised {type(e).__name__}: {e}'
    if any(m.is_role_reifiable(r) for _, r, _ in g1.triples):
        return 'a reifiable role is left after reify_edges'
    newv = g1.variables() - vs0
    if g1.top != g.top:
        return f'top changed {g.top} -> {g1.top}'
    kept = [t for t in g1.triples if t[0] not in newv]
    if kept != [t for t in g.triples if not m.is_role_reifiable(t[1])]:
        return 'other triples not kept in order'
    try:
        g2 = transform.dereify_edges(g1, m)
    except Exception as e:  # noqa: BLE001
        return f'dereify_edges raised {type(e).__name__}: {e}'
    if g2.triples != g.triples or g2.top != g.top:
        return f'dereify(reify(g)) triples differ: {g2.triples!r} vs {g.triples!r}'
    try:
        if penman.encode(g2, model=m) != penman.encode(g, model=m):
            return f'encoded text differs: {penman.encode(g2, model=m)!r} vs {penman.encode(g, model=m)!r}'
    except Exception as e:  # noqa: BLE001
        return f'encode raised {type(e).__name__}: {e}'
    return None


TRANSFORMS = ['reify_edges', 'dereify_edges', 'reify_attributes', 'indicate_branches']


def apply_transform(name, g, m):
    if name == 'reify_attributes':
        return transform.reify_attributes(g)
    return getattr(transform, name)(g, m)


def c12_gen(rng):
    spec = rng.choice(['amr', 'amr', gen.CUSTOM_MODELS[1], 'default'])
    g = reif_graph_gen(rng, spec) if maybe(rng, 0.5) else gen.gen_graph(rng, spec, mode=rng.choice(['decoded', 'hand']))
    if maybe(rng, 0.25) and g.triples:
        g._top = rng.choice(sorted(g.variables()))
    k = rng.randint(1, 4)
    prog = []
    for _ in range(k):
        t = rng.choice(TRANSFORMS)
        if t == 'indicate_branches' and t in prog:
            continue
        prog.append(t)
    if maybe(rng, 0.5):
        prog = [t for t in TRANSFORMS if t in prog]      # CLI order
    return {'graph': j_graph(g), 'model': spec, 'program': prog}


def c12_check(case):
    g = py_graph(case['graph'])
    m = py_model(case['model'])
    # for EVERY marker assignment (also several node contexts for one variable, as a union of
    # decoded graphs has): indicate_branches keeps every triple, in order, and adds one top-role
    # triple in front of each triple whose (first) Push names one of its ends
    if not any(r == m.top_role for _, r, _ in g.triples):
        firsts = [next((e for e in g.epidata.get(t, []) if isinstance(e, layout.Push)), None) for t in g.triples]
        if all(p_ is None or p_.variable != t[0] or p_.variable == t[2] or isinstance(t[2], str)
               for t, p_ in zip(g.triples, firsts)):
            try:
                ib = transform.indicate_branches(g, m)
            except Exception as e:  # noqa: BLE001
                return f'indicate_branches raised {type(e).__name__}: {e}'
            if [t for t in ib.triples if t[1] != m.top_role] != g.triples:
                return 'indicate_branches: removing the top-role triples does not give back the original triples'
            want_n = sum(1 for t, p_ in zip(g.triples, firsts) if p_ is not None and p_.variable in (t[0], t[2]))
            if len(ib.triples) - len(g.triples) != want_n:
                return f'indicate_branches added {len(ib.triples) - len(g.triples)} top-role triples for {want_n} pushing triples'
    if not wf_graph(g, m):
        return None
    if any(not unambiguous(m, r) for _, r, _ in g.triples):
        return None
    if underscore_const(g) or not markers_sane(g):
        return None
    if any(r == m.top_role for _, r, _ in g.triples):
        return None     # indicate_branches presupposes an input without top-role triples
    cur = g
    for name in case['program']:
        before = cur
        try:
            cur = apply_transform(name, cur, m)
        except Exception as e:  # noqa: BLE001
            return f'{name} raised {type(e).__name__}: {e}'
        if cur.top != before.top:
            return f'{name} changed the top {before.top!r} -> {cur.top!r}'
        vs = cur.variables()
        inst = sorted(t[0] for t in cur.triples if t[1] == ':instance')
        if inst != sorted(vs):
            return f'{name}: not every variable has exactly one instance triple'
        if name == 'reify_attributes':
            if cur.attributes():
                return 'attributes left after reify_attributes'
            newv = vs - before.variables()
            concept = {t[0]: t[2] for t in cur.triples if t[1] == ':instance' and t[0] in newv}
            back = [(s, r, concept[t]) if (t in newv and r != ':instance') else (s, r, t)
                    for s, r, t in cur.triples if s not in newv]
            if back != before.triples:
                return 'contracting the new nodes does not give back the original triples'
        if name == 'indicate_branches':
            if not any(t[1] == m.top_role for t in before.triples):
                if [t for t in cur.triples if t[1] != m.top_role] != before.triples:
                    return 'removing the top-role triples does not give back the original'
                npush = sum(1 for t in before.triples for e in before.epidata.get(t, [])[:99]
                            if isinstance(e, layout.Push)) if False else None
        try:
            s = penman.encode(cur, model=m)
        except Exception as e:  # noqa: BLE001
            return f'after {name}: encode raised {type(e).__name__}: {e}'
        try:
            back = decode_pub(s, m)
        except Exception as e:  # noqa: BLE001
            return f'after {name}: decode raised {type(e).__name__}: {e}'
        if cur.triples and not weakly_connected_to(cur, cur.top):
            return f'{name}: result is not connected'
        if graph_content(back, m) != graph_content(cur, m):
            return f'after {name}: decode(encode(g)) differs from g: {s!r}'
    return None


# ======================================================================= C13

RAW_ROLE_MODELS = [
    {'roles_raw': [':prep-(?:against|in|out-of|on-behalf-of)', ':ARG[0-9]', ':mod', ':op[0-9]+']},
    {'roles_raw': [':(?:part|consist)-of', ':ARG[0-9]', ':x-[a-z]+']},
]


def c13_gen(rng):
    spec = gen.gen_model(rng)
    if maybe(rng, 0.1):
        # role tables with patterns outside the model's literal/digit shapes (oracle only)
        spec = rng.choice(RAW_ROLE_MODELS)
        r = rng.choice([':prep-out-of', ':prep-in', ':prep-out-of-of', ':part-of', ':consist-of-of', ':x-ab', ':x-of', ':ARG1-of'])
        return {'model': spec, 'role': r, 'tree': j_node(gen.gen_tree(rng, wf=True))}
    return {'model': spec, 'role': gen.gen_role_probe(rng, spec), 'tree': j_node(gen.gen_tree(rng, wf=maybe(rng, 0.7)))}


def model_wf(m):
    """ModelWf: no r with r and r-of both defined; normalisation values start with ':',
    are fixed points of canonicalisation, contain no '~'"""
    cands = set()
    for p in list(m.roles) + [m.top_role, m.concept_role]:
        cands.add(p)
    for p in cands:
        if set(p) & set('[]+*'):
            continue
        if p.endswith('-of') and m._has_role(p[:-3]):
            return False
        if m._has_role(p + '-of'):
            return False
    for k, v in m.normalizations.items():
        if not v.startswith(':') or '~' in v or m.canonicalize_role(v) != v:
            return False
    return True


def defined_by_spec(m, r):
    """does the role table define r? (independent of Model._has_role)"""
    return any(re.fullmatch(p, r) for p in list(m.roles) + [re.escape(m.top_role), re.escape(m.concept_role)])


def c13_check(case):
    m = py_model(case['model'])
    if not model_wf(m):
        return None
    r = case['role']
    if '\n' in r:
        return None
    d = defined_by_spec(m, r)
    if d and m.is_role_inverted(r):
        return f'role {r!r} is defined by the model but considered inverted'
    if m.has_role(r) != (d or (r.endswith('-of') and defined_by_spec(m, r[:-3]))):
        return f'has_role({r!r}) = {m.has_role(r)} but the table says otherwise'
    if not d and r.endswith('-of') and not m.is_role_inverted(r):
        return f'undefined role {r!r} ending in -of is not considered inverted'
    c = m.canonicalize_role(r)
    if m.canonicalize_role(c) != c:
        return f'canonicalize_role not idempotent on {r!r}: {c!r} -> {m.canonicalize_role(c)!r}'
    if c != '/' and not c.startswith(':'):
        return f'no leading colon: {c!r}'
    if m._has_role(r) and m.is_role_inverted(r):
        return f'defined role {r!r} considered inverted'
    ci = m._canonicalize_inversion(r if r.startswith(':') or r == '/' else ':' + r)
    # on inversion-canonical roles: involution + flip
    if m.invert_role(m.invert_role(ci)) != ci:
        return f'invert_role not an involution on canonical {ci!r}'
    if m.is_role_inverted(m.invert_role(ci)) == m.is_role_inverted(ci):
        return f'inverting {ci!r} does not flip inverted-ness'
    noop = case['model'] == 'noop' or (isinstance(case['model'], dict) and case['model'].get('noop'))
    # for every kind of target a triple can hold (variables, constants, numbers incl. 0, the empty
    # string, a missing target)
    for tgt in ('b', 'x y', '', None, 0, 0.0, 7, -1.5):
        tr = ('a', ci, tgt)
        inv = m.invert(tr)
        if (inv[0], inv[2]) != (tgt, 'a') or type(inv[0]) is not type(tgt):
            return f'invert does not swap source and target of {tr!r}: {inv!r}'
        d = m.deinvert(tr)
        if noop:
            if d != tr:
                return 'noop deinvert is not the identity'
        elif m.is_role_inverted(ci):
            if d != inv or type(d[0]) is not type(tgt):
                return f'deinvert of the inverted triple {tr!r} is {d!r}, not its inversion {inv!r}'
        elif d != tr:
            return 'deinvert changed a non-inverted triple'
    # tree clause
    node = py_node(case['tree'])
    t1 = transform.canonicalize_roles(Tree(node), m)
    t2 = transform.canonicalize_roles(t1, m)
    if t1.node != t2.node:
        return 'canonicalize_roles not idempotent'
    for a, b in zip(all_nodes(node), all_nodes(t1.node)):
        if a[0] != b[0] or len(a[1]) != len(b[1]):
            return 'canonicalize_roles changed the shape'
        for (r1, x1), (r2, x2) in zip(a[1], b[1]):
            if (x1 if not isinstance(x1, tuple) else x1[0]) != (x2 if not isinstance(x2, tuple) else x2[0]):
                return 'canonicalize_roles changed a target'
            if r1.partition('~')[1:] != r2.partition('~')[1:]:
                return 'canonicalize_roles changed an alignment'
    return None


# ======================================================================= C14

def writer(node, model, noop):
    nodevars = {n[0] for n in all_nodes(node)}
    out = []

    def visit(n):
        var, bs = n
        own = []
        has_concept = False
        for role, tgt in bs:
            r, _ = ref_split_role(role)
            if r == ':instance':
                has_concept = True
            if isinstance(tgt, tuple):
                tv, is_ref = tgt[0], True
            else:
                tv, _ = ref_split_atom(tgt)
                is_ref = isinstance(tv, str) and tv in nodevars
            tr = (var, r, tv)
            inv = False
            if is_ref and not noop and indep_inverted(model, r):
                tr = (tv, indep_invert_role(model, r), var)
                inv = True
            own.append((tr, var, tgt[0] if isinstance(tgt, tuple) else None, inv, tgt))
        res = []
        if not has_concept:
            res.append(((var, ':instance', None), var, None, False))
        for tr, ctx, pushed, inv, tgt in own:
            res.append((tr, ctx, pushed, inv))
            if isinstance(tgt, tuple):
                res += visit(tgt)
        return res
    return visit(node)


def c14_gen(rng):
    if maybe(rng, 0.004):
        # nesting deeper than the interpreter's default recursion limit (a caller who decodes such a
        # graph has raised the limit): the diagnostics still follow the text at every depth
        return {'deep': rng.choice([1005, 1100]), 'model': rng.choice(['default', 'amr'])}
    return {'tree': j_node(gen.gen_tree(rng, wf=True, max_nodes=10, strict=maybe(rng, 0.8))), 'model': rng.choice(['default', 'amr'])}


def deep_chain(d):
    node = ('v%d' % d, [('/', 'c'), (':ARG1-of', 'v0'), (':mod', 'v%d' % (d // 2))])
    for i in range(d - 1, -1, -1):
        node = ('v%d' % i, [('/', 'c'), (':ARG0', node), (':polarity', '-')])
    return node


def c14_check_deep(case):
    old = sys.getrecursionlimit()
    sys.setrecursionlimit(max(old, 40 * case['deep'] + 5000))
    try:
        return c14_check({'tree_node': deep_chain(case['deep']), 'model': case['model']})
    except RecursionError:
        return None
    finally:
        sys.setrecursionlimit(old)


def pickle_copy(g):
    import pickle
    return pickle.loads(pickle.dumps(copy.deepcopy(g)))


def c14_check(case):
    if case.get('deep'):
        return c14_check_deep(case)
    node = case['tree_node'] if 'tree_node' in case else py_node(case['tree'])
    m = py_model(case['model'])
    if not c02_wf_layout(node, m):
        return None
    g = layout.interpret(Tree(node), m)
    w = writer(node, m, False)
    try:
        ctx = layout.node_contexts(g)
    except Exception as e:  # noqa: BLE001
        return f'node_contexts raised {type(e).__name__}: {e}'
    if ctx != [x[1] for x in w]:
        return f'node_contexts {ctx!r} != writer {[x[1] for x in w]!r}'[:3000]
    if 'tree_node' in case:
        # a deep chain: the per-triple diagnostics (each linear in the graph) on a sample of the triples
        for (tr, c, pushed, inv) in w[:4] + w[len(w) // 2: len(w) // 2 + 4] + w[-8:]:
            try:
                if layout.get_pushed_variable(g, tr) != pushed:
                    return f'get_pushed_variable{tr!r} = {layout.get_pushed_variable(g, tr)!r}, writer says {pushed!r}'
                if tr[0] != tr[2] and layout.appears_inverted(g, tr) != inv:
                    return f'appears_inverted{tr!r} = {layout.appears_inverted(g, tr)!r}, writer says {inv!r}'
            except Exception as e:  # noqa: BLE001
                return f'diagnostic raised {type(e).__name__}: {e}'
        return None
    for (tr, c, pushed, inv) in w:
        try:
            if layout.get_pushed_variable(g, tr) != pushed:
                return f'get_pushed_variable{tr!r} = {layout.get_pushed_variable(g, tr)!r}, writer says {pushed!r}'
            if tr[0] != tr[2] and layout.appears_inverted(g, tr) != inv:
                return f'appears_inverted{tr!r} = {layout.appears_inverted(g, tr)!r}, writer says {inv!r}'
        except Exception as e:  # noqa: BLE001
            return f'diagnostic raised {type(e).__name__}: {e}'
    # marker-less
    g0 = Graph(g.triples, top=g.top)
    try:
        layout.node_contexts(g0)
        for tr in g0.triples:
            if layout.get_pushed_variable(g0, tr) is not None:
                return 'pushed variable without markers'
            layout.appears_inverted(g0, tr)
    except Exception as e:  # noqa: BLE001
        return f'diagnostic on a marker-less graph raised {type(e).__name__}: {e}'
    # a copy of the graph (deepcopy / pickle, as a worker process receives it) gives the same answers
    g_c = pickle_copy(g)
    try:
        if layout.node_contexts(g_c) != ctx:
            return 'node_contexts differs on a deep-copied / pickled graph'
        for (tr, c, pushed, inv) in w:
            if tr[0] != tr[2] and layout.appears_inverted(g_c, tr) != inv:
                return f'appears_inverted{tr!r} differs on a deep-copied / pickled graph'
    except Exception as e:  # noqa: BLE001
        return f'diagnostic on a copied graph raised {type(e).__name__}: {e}'
    # the diagnostics describe the decoded graph: calls that only RETURN something (a tree, a text,
    # a new graph, a report) in between must not change what they say
    for name, call in (('reconfigure', lambda: layout.reconfigure(g, model=m, key=m.canonical_order)),
                       ('configure', lambda: layout.configure(g, model=m)),
                       ('encode', lambda: penman.encode(g, model=m, indent=None)),
                       ('reify_attributes', lambda: transform.reify_attributes(g)),
                       ('errors', lambda: m.errors(g))):
        try:
            call()
            call()
        except Exception:  # noqa: BLE001
            pass
        try:
            again = layout.node_contexts(g)
            diag = [(layout.get_pushed_variable(g, tr), layout.appears_inverted(g, tr) if tr[0] != tr[2] else None)
                    for (tr, c, pushed, inv) in w]
        except Exception as e:  # noqa: BLE001
            return f'diagnostic after {name}(g) raised {type(e).__name__}: {e}'
        if again != ctx or diag != [(pushed, inv if tr[0] != tr[2] else None) for (tr, c, pushed, inv) in w]:
            return f'the diagnostics of g changed after calling {name}(g)'
    return None


# ======================================================================= C15

def c15_gen(rng):
    g = gen.gen_graph(rng, mode=rng.choice(['hand', 'hand-disc', 'illformed', 'decoded']))
    h = gen.gen_graph(rng, mode='hand')
    if maybe(rng, 0.6) and g.triples:
        sub = rng.sample(g.triples, rng.randint(0, len(g.triples)))
        h = Graph(sub + (h.triples[:2] if maybe(rng, 0.5) else []),
                  epidata={t: [layout.POP] for t in sub if maybe(rng, 0.5)})
    return {'g': j_graph(g), 'h': j_graph(h), 'newtop': rng.choice([None, 'a', 'zz', 'b'])}


def c15_check(case):
    g, h = py_graph(case['g']), py_graph(case['h'])
    vs = g.variables()
    inst, edges, attrs = g.instances(), g.edges(), g.attributes()
    want_i = [t for t in g.triples if t[1] == ':instance']
    want_e = [t for t in g.triples if t[1] != ':instance' and t[2] in vs]
    want_a = [t for t in g.triples if t[1] != ':instance' and t[2] not in vs]
    if list(map(tuple, inst)) != want_i or list(map(tuple, edges)) != want_e or list(map(tuple, attrs)) != want_a:
        return 'instances/edges/attributes are not the order-preserving partition'
    if g.triples and g._top is None and g.top != g.triples[0][0]:
        return 'implicit top is not the first source'
    nt = case['newtop']
    g_c = copy.deepcopy(g)
    try:
        g_c.top = nt
        accepted = True
    except penman.exceptions.GraphError:
        accepted = False
    if accepted != (nt is None or nt in vs):
        return f'top setter accepted={accepted} for {nt!r}'
    re_ = g.reentrancies()
    indeg = {}
    for t in want_e:
        indeg[t[2]] = indeg.get(t[2], 0) + 1
    if g.top is not None:
        indeg[g.top] = indeg.get(g.top, 0) + 1
    if re_ != {v: c - 1 for v, c in indeg.items() if c >= 2}:
        return f'reentrancies {re_!r}'
    snap_g, snap_h = json.dumps(j_graph(g)), json.dumps(j_graph(h))
    u = g | h
    d = g - h
    if json.dumps(j_graph(g)) != snap_g or json.dumps(j_graph(h)) != snap_h:
        return 'operands changed by | or -'
    if u.triples != g.triples + [t for t in h.triples if t not in set(g.triples)]:
        return 'union is not order-preserving'
    for t in h.triples:
        if t not in g.triples and t in h.epidata and [repr(e) for e in u.epidata.get(t, [])] != [repr(e) for e in h.epidata[t]]:
            return 'markers of an added triple not carried along'
    if d.triples != [t for t in g.triples if t not in set(h.triples)]:
        return 'difference is not order-preserving'
    if g._top is not None:
        occurs = any(g._top in (t[0], t[2]) for t in d.triples)
        if (d._top is None) == occurs:
            return 'explicit top handling in difference'
    # the non-in-place operators are the in-place ones on a copy (metadata aside)
    g1 = copy.deepcopy(g)
    g1 -= h
    g2 = copy.deepcopy(g)
    g2 |= h
    for name_, a, b in (('-', d, g1), ('|', u, g2)):
        if (a._top, a.top, a.triples, sorted(a.variables(), key=repr)) != (b._top, b.top, b.triples, sorted(b.variables(), key=repr)) \
                or [(k, [repr(e) for e in v]) for k, v in a.epidata.items()] != [(k, [repr(e) for e in v]) for k, v in b.epidata.items()]:
            return f'g {name_} h differs from the in-place form on a copy: top {a._top!r}/{a.top!r} vs {b._top!r}/{b.top!r}'
    if set((u - h).triples) - set(g.triples):
        return '(g|h)-h not a subset of g'
    if set((g | g).triples) != set(g.triples):
        return 'union not idempotent'
    return None


# ======================================================================= C16

def c16_gen(rng):
    spec = gen.gen_model(rng)
    g = gen.gen_graph(rng, spec, mode=rng.choice(['hand', 'hand-disc', 'decoded', 'illformed', 'corrupt']))
    if maybe(rng, 0.15) and g.triples:
        vs = sorted(g.variables())
        g.triples.append((rng.choice(vs), ':instance', rng.choice(vs)))
    return {'graph': j_graph(g), 'model': spec}


def c16_check(case):
    g = py_graph(case['graph'])
    m = py_model(case['model'])
    err = m.errors(g)
    if not g.triples:
        return None if err == {None: ['graph is empty']} else 'empty graph message'
    srcs = {t[0] for t in g.triples}
    want = {}
    for t in g.triples:
        r = t[1]
        ok = m._has_role(r) or (r.endswith('-of') and m._has_role(r[:-3]))
        if not ok:
            want.setdefault(t, []).append('invalid role')
    if not g.top:
        want.setdefault(None, []).append('top is not set')
    elif g.top not in srcs:
        want.setdefault(None, []).append('top is not a variable in the graph')
    else:
        adj = {v: set() for v in srcs}
        for s, r, t in g.triples:
            if r != ':instance' and isinstance(t, str) and t in srcs:
                adj[s].add(t)
                adj[t].add(s)
        seen, todo = set(), [g.top]
        while todo:
            v = todo.pop()
            if v not in seen:
                seen.add(v)
                todo += list(adj[v] - seen)
        for t in g.triples:
            if t[0] not in seen:
                want.setdefault(t, []).append('unreachable')
    got = {k: sorted(set(v)) for k, v in err.items()}
    want = {k: sorted(set(v)) for k, v in want.items()}
    if got != want:
        return f'errors {got!r} != expected {want!r}'
    return None


def c16_cli_gen(rng):
    files = []
    for _ in range(rng.randint(1, 3)):
        parts = []
        for _ in range(rng.randint(0, 3)):
            if maybe(rng, 0.5):
                parts.append(rng.choice(['(a / alpha :ARG0 (b / beta))', '(x / x :mod 5)', '(a / alpha :op1 "s")']))
            else:
                parts.append(rng.choice(['(a / alpha :foo (b / beta))', '(a / alpha :ARG0 b :bar 1)', '(c / c :ARG9x d)',
                                         '()', '()']))      # the empty graph has only a graph-level error (top is not set)
        files.append('\n\n'.join(parts) + '\n')
    return {'files': files, 'model': 'amr'}


def c16_cli_check(case):
    m = py_model(case['model'])
    want = 0
    for f in case['files']:
        for g in penman.iterdecode(f, model=m):
            if m.errors(g):
                want = 1
    r = ops.run_main(case['model'], {'check': True}, case['files'])
    if r['exit'] != {'ok': want}:
        return f'--check exit {r["exit"]!r}, expected {want}'
    # every offending triple is recorded in its graph's metadata
    gin = [g for f in case['files'] for g in penman.iterdecode(f, model=m)]
    gout = list(penman.iterdecode(r['out'], model=m))
    if len(gin) != len(gout):
        return f'{len(gin)} graphs in, {len(gout)} out'
    for a, b in zip(gin, gout):
        errs = m.errors(a)
        recorded = ' | '.join(v for k, v in b.metadata.items() if k.startswith('error-'))
        for triple, msgs in errs.items():
            ctx = '({}) '.format(' '.join(map(str, triple))) if triple else ''
            if not any((ctx + msg) in recorded for msg in msgs[-1:]):
                return f'offending triple {triple!r} not recorded in metadata {dict(b.metadata)!r}'
        if not errs and recorded:
            return 'error metadata on a compliant graph'
    return None


# ======================================================================= C18

def c18_gen(rng):
    nums = [rng.choice([0, 1, -1, 2, 10, 1.0, 0.0, -0.0, 2.5, 10.0, -1.0, 1e3, 100, 7, 7.0]) for _ in range(rng.randint(0, 4))]
    return {'s': gen.gen_constant_string(rng), 'atom': gen.gen_atom_text(rng).replace(' ', ''),
            'nums': [j_atom(n) for n in nums]}


def c18_check(case):
    s = case['s']
    q = constant.quote(s)
    toks = list(_lexer.lex(q))
    if len(toks) != 1 or toks[0].type != 'STRING' or toks[0].text != q:
        return f'quote({s!r}) = {q!r} is not one STRING token: {[(t.type, t.text) for t in toks]!r}'
    if constant.evaluate(q) != s:
        return f'evaluate(quote({s!r})) = {constant.evaluate(q)!r}'
    if constant.type(q) != constant.STRING:
        return f'type(quote({s!r})) = {constant.type(q)!r}'
    for jn_ in case.get('nums', []):
        n = py_atom(jn_)
        if constant.quote(n) != constant.quote(str(n)):
            return f'quote({n!r}) = {constant.quote(n)!r} is not the quoting of its string form {constant.quote(str(n))!r}'
    if constant.quote(None) != '""':
        return 'quote(None)'
    a = case['atom']
    if any(c in a for c in ' \t\n\r'):
        return None
    try:
        v = constant.evaluate(a)
    except penman.exceptions.ConstantError:
        v = 'ERR'
    except RecursionError:
        return None
    except Exception as e:  # noqa: BLE001
        return f'evaluate({a!r}) raised {type(e).__name__}: {e}'
    if v != 'ERR':
        if isinstance(v, bool) or isinstance(v, (list, dict)) or (isinstance(v, float) and v != v):
            return f'evaluate({a!r}) = {v!r}'
        if isinstance(v, (int, float)) and not re.fullmatch(r'-?(0|[1-9][0-9]*)(\.[0-9]+)?([eE][-+]?[0-9]+)?', a):
            return f'evaluate({a!r}) = {v!r} for non-JSON-number syntax'
        if v is None and a != '':
            return f'evaluate({a!r}) is None'
        ty = constant.type(a)
        want = {str: constant.SYMBOL, int: constant.INTEGER, float: constant.FLOAT, type(None): constant.NULL}[type(v)]
        if want == constant.SYMBOL and a.startswith('"') and a.endswith('"'):
            want = constant.STRING
        if ty != want:
            return f'type({a!r}) = {ty!r} but value is {v!r}'
    return None


# ======================================================================= C19

def c19_gen(rng):
    n = rng.randint(1, 5)
    ts = []
    for _ in range(n):
        s = rng.choice(gen.VARS)
        r = rng.choice(gen.ROLES_PLAIN[:-3] + ['instance', 'ARG0', ':r-of', ':^up', '^down', ':a^b'])
        t = rng.choice(gen.VARS + ['7', '-1.5', 'imperative', '"a b"', '"x, y"', '"p(q)"', '"c ^ d"', '"\\"q\\""', '-',
                                   '"C:\\\\"', '"C:\\\\"', '"e\\\\\\"f"', '"\\\\"', '"a #b"', '"# c"', '"see #5, ^ x"'])
        ts.append([s, r, t])
    case = {'triples': ts, 'indent': maybe(rng, 0.5), 'comma': rng.choice([', ', ',', ' , ', ' ,']),
            'caret': rng.choice([' ^', '^', ' ^ '])}
    if maybe(rng, 0.5):
        # a different spelling at every conjunction sign (glued "^role" and free-standing "^ role" mixed)
        case['carets'] = [rng.choice([' ^', '^', ' ^ ', '^ ', ' ^\n']) for _ in range(n - 1)]
    if maybe(rng, 0.08):
        # the command's --triples output is such a conjunction too: of the graph's own triples, in order
        # (also when a variable is given a node twice, or a triple is written twice)
        case['cli'] = rng.choice([
            '(a / alpha :ARG0 (b / beta :ARG0 (a / gamma)))', '(p / person) (p / person)',
            '(a / alpha :ARG0 b :ARG1 (c / x) :ARG0 b)', '(a / alpha :ARG0 (b / beta) :ARG1 (b / beta :mod 7))',
            gen.gen_penman_string(rng, wf=maybe(rng, 0.5)), gen.gen_penman_string(rng, wf=True)])
    return case


def c19_cli(case):
    try:
        gs = list(penman.iterdecode(case['cli']))
    except Exception:  # noqa: BLE001
        return None
    want = []
    for g in gs:
        for s, r, t in g.triples:
            if not (isinstance(s, str) and is_symbol(s) and ',' not in s and not s.startswith('^')):
                return None
            body = r.lstrip(':')
            if body == '' or not is_symbol(body) or ',' in body or '(' in body or body.startswith('^'):
                return None
            if not (isinstance(t, str) and (is_string(t) or (is_symbol(t) and ',' not in t))):
                return None
            want.append((s, ':' + body, t))
    if not want:
        return None
    r = ops.run_main('default', {'triples': True, 'indent': -1 if case['indent'] else None}, [case['cli']])
    if r.get('exit') != {'ok': 0}:
        return f"penman --triples exited with {r.get('exit')!r}"
    got = []
    for block in r['out'].split('\n\n'):
        if block.strip():
            try:
                got += penman.parse_triples(block)
            except Exception as e:  # noqa: BLE001
                return f'parse_triples raised {type(e).__name__}: {e} on the --triples output {block!r}'
    if got != want:
        return f'penman --triples printed {r["out"]!r}: parsed {got!r}, the triples are {want!r}'
    return None


def c19_check(case):
    if case.get('cli') is not None:
        v = c19_cli(case)
        if v is not None:
            return v
    ts = [tuple(t) for t in case['triples']]
    for s, r, t in ts:
        if not is_symbol(s) or ',' in s or s.startswith('^'):
            return None
        body = r.lstrip(':')
        if body == '' or not is_symbol(body) or ',' in body or '(' in body:
            return None
        if not (is_string(t) or (is_symbol(t) and ',' not in t)):
            return None
    text = penman.format_triples(ts, indent=case['indent'])
    want = [(s, r if r.startswith(':') else ':' + r, t) for s, r, t in ts]
    want = [(s, ':' + r.lstrip(':'), t) for s, r, t in ts]
    try:
        got = penman.parse_triples(text)
    except Exception as e:  # noqa: BLE001
        return f'parse_triples raised {type(e).__name__}: {e} on {text!r}'
    if got != want:
        return f'parse_triples(format_triples(ts)) = {got!r} != {want!r}'
    # spacing variants around the comma and the conjunction sign (symbol and string targets)
    if True:
        sep = {' ^': ' ^', '^': '^', ' ^ ': ' ^ '}[case['caret']]
        parts = [f"{r.lstrip(':')}({s_}{case['comma']}{t})" for s_, r, t in ts]
        seps = case.get('carets') or [sep] * (len(parts) - 1)
        v = parts[0] + ''.join(sp + p_ for sp, p_ in zip(seps, parts[1:]))
        try:
            got = penman.parse_triples(v)
        except Exception as e:  # noqa: BLE001
            return f'parse_triples raised {type(e).__name__}: {e} on variant {v!r}'
        if got != want:
            return f'spacing variant {v!r} parsed to {got!r}'
    return None


# ======================================================================= C20

NORM = ['canonicalizeRoles', 'reifyEdges', 'dereifyEdges', 'reifyAttributes']


def c20_gen(rng):
    import corr
    opts = {}
    for k in NORM:
        if maybe(rng, 0.3):
            opts[k] = True
    if maybe(rng, 0.3):
        opts['rearrange'] = {'keys': rng.choice([['canonical'], ['alphanumeric'], ['invertedLast'], ['invertedLast', 'alphanumeric'],
                                                 ['alphanumeric', 'invertedLast']]),
                             'attributesFirst': maybe(rng, 0.3)}
    if maybe(rng, 0.25):
        opts['makeVariables'] = rng.choice(gen.FMTS[:5])
        if maybe(rng, 0.2):
            # raw format strings with a format spec or conversion on the index (library = command)
            opts['makeVariables'] = rng.choice(['{prefix}{i:02d}', 'v{i!s}', '{prefix}_{i:x}', '{prefix}{j!s}', 'n{i:03}'])
    opts['indent'] = rng.choice([-1, None, 2])
    opts['compact'] = maybe(rng, 0.3)
    if maybe(rng, 0.12):
        opts['triples'] = True
    model = rng.choice(['default', 'amr', 'amr', 'noop'])
    text = corr.gen_stream_text(rng, wf=maybe(rng, 0.85))
    if model == 'amr' and maybe(rng, 0.2):
        text = penman.format(Tree(gen.reified_tree(rng)), indent=None) + '\n'
    case = {'opts': opts, 'model': model, 'input': text}
    if maybe(rng, 0.03):
        # a constant spelled like the name --make-variables will choose (known finding F23)
        c = rng.choice(['foo', 'bar', 'go-01'])
        case['input'] = '(x / %s %s %s)' % (c, rng.choice([':ARG0-of', ':ARG1', ':mod']), c[0])
        opts['makeVariables'] = ['pre', 'j']
    if maybe(rng, 0.15):
        case['more_files'] = [corr.gen_stream_text(rng, ngraphs=rng.choice([1, 1, 2]), wf=True) for _ in range(rng.choice([1, 2]))]
    return case


def inv_reifiable_attr(text, m):
    try:
        for g in penman.iterdecode(text, model=m):
            vs = g.variables()
            for s, r, t in g.triples:
                if r.endswith('-of') and t not in vs and m.is_role_reifiable(r[:-3]):
                    return True
                # after canonicalisation
                c = m.canonicalize_role(r)
                if c.endswith('-of') and t not in vs and m.is_role_reifiable(c[:-3]):
                    return True
    except Exception:  # noqa: BLE001
        return True
    return False


def c20_domain(text, m, opts):
    """trees of a well-formed input text, or None if the text is outside C20's domain"""
    try:
        trees = list(penman.iterparse(text))
    except Exception:  # noqa: BLE001
        return None
    for t in trees:
        tt = t
        if opts.get('canonicalizeRoles'):
            # the stage collapses over-inverted roles, so the conditions apply to its result
            try:
                tt = transform.canonicalize_roles(Tree(copy.deepcopy(t.node), dict(t.metadata)), m)
            except Exception:  # noqa: BLE001
                return None
        if not c02_wf_layout(tt.node, m) or not valid_meta(t.metadata):
            return None
        g = layout.interpret(tt, m)
        if any(not unambiguous(m, r) for _, r, _ in g.triples):
            return None
    return trees


def c20_noncanonical_output(out1, m):
    """known finding F24: --canonicalize-roles rewrites the roles of the INPUT tree; the layout chosen
    afterwards may write an edge inverted, and the inverted role may itself be a normalisation key
    (:mod-of, :domain-of under AMR): the first output then contains a role that the second pass rewrites"""
    try:
        for t in penman.iterparse(out1):
            for _, (role, _tgt) in t.walk():
                r = role.partition('~')[0]
                if (r != '/' and m.canonicalize_role(r) != r and r.endswith('-of')
                        and m.canonicalize_role(r[:-3]) == r[:-3]):
                    return True
    except Exception:  # noqa: BLE001
        return False
    return False


def c20_duplicate_output(out1, m):
    """known finding F25: a graph stage produced a triple the graph already had (dereify_edges collapsing
    a reified relation onto an identical attribute): the first output holds the same triple twice, and
    markers and alignments are kept per distinct triple"""
    try:
        for g in penman.iterdecode(out1, model=m):
            if len(set(g.triples)) != len(g.triples):
                return True
    except Exception:  # noqa: BLE001
        return False
    return False


def c20_captures(trees, m, opts):
    """known finding F23: --make-variables gives some node a name that a constant of the same graph
    already has (reset_variables does not avoid the constants), so the constant is read as a
    re-entrancy on the second pass"""
    o = dict(opts)
    fmt = ops.fmt_string(o.pop('makeVariables'))
    for t in trees:
        try:
            before = penman.parse(c20_pipeline([t], m, dict(o, triples=False))[0])
        except Exception:  # noqa: BLE001
            continue
        old = {v for v, _ in before.nodes()}
        consts = set()
        for _, (role, tgt) in before.walk():
            if role != '/' and isinstance(tgt, str) and tgt.partition('~')[0] not in old:
                consts.add(tgt.partition('~')[0])
        before.reset_variables(fmt)
        if consts & {v for v, _ in before.nodes()}:
            return True
    return False


def c20_pipeline(trees, m, opts):
    """the documented library pipeline, per tree -> list of output texts"""
    parts = []
    for t in trees:
        if opts.get('canonicalizeRoles'):
            t = transform.canonicalize_roles(t, m)
        g = layout.interpret(t, m)
        if opts.get('reifyEdges'):
            g = transform.reify_edges(g, m)
        if opts.get('dereifyEdges'):
            g = transform.dereify_edges(g, m)
        if opts.get('reifyAttributes'):
            g = transform.reify_attributes(g)
        if opts.get('triples'):
            parts.append(penman.format_triples(g.triples, indent=bool(opts.get('indent', -1))))
            continue
        t2 = layout.configure(g, model=m)
        if opts.get('rearrange'):
            layout.rearrange(t2, key=ops.key_fn(m, opts['rearrange']['keys']),
                             attributes_first=opts['rearrange'].get('attributesFirst', False))
        if opts.get('makeVariables'):
            t2.reset_variables(ops.fmt_string(opts['makeVariables']))
        parts.append(penman.format(t2, indent=opts.get('indent', -1), compact=opts.get('compact', False)))
    return parts


def c20_check(case, known=None):
    m = py_model(case['model'])
    opts = case['opts']
    text = case['input']
    # clause 1 (every parseable input, every option set): tool output = library pipeline
    try:
        all_trees = list(penman.iterparse(text))
        want_parts = c20_pipeline(all_trees, m, opts)
    except Exception:  # noqa: BLE001
        all_trees = None
    if all_trees is not None:
        r0 = ops.run_main(case['model'], opts, [text])
        want0 = '\n'.join(p + '\n' for p in want_parts) if want_parts else ''
        if 'err' in r0['exit'] or r0['out'] != want0:
            return f'tool output differs from the library pipeline: {r0["out"]!r} ({r0["exit"]!r}) vs {want0!r}'
    if opts.get('triples'):
        return None     # the feed-back clauses do not apply to --triples output
    trees = c20_domain(text, m, opts)
    if trees is None:
        return None
    r1 = ops.run_main(case['model'], opts, [text])
    if 'err' in r1['exit']:
        return f'tool raised {r1["exit"]!r}'
    out1 = r1['out']
    n_out = len(list(penman.iterparse(out1)))
    if n_out != len(trees):
        return f'{len(trees)} graphs in, {n_out} graphs out'
    # library pipeline
    codec = penman.PENMANCodec(model=m)
    parts = []
    for t in trees:
        if opts.get('canonicalizeRoles'):
            t = transform.canonicalize_roles(t, m)
        g = layout.interpret(t, m)
        if opts.get('reifyEdges'):
            g = transform.reify_edges(g, m)
        if opts.get('dereifyEdges'):
            g = transform.dereify_edges(g, m)
        if opts.get('reifyAttributes'):
            g = transform.reify_attributes(g)
        t2 = layout.configure(g, model=m)
        if opts.get('rearrange'):
            layout.rearrange(t2, key=ops.key_fn(m, opts['rearrange']['keys']),
                             attributes_first=opts['rearrange'].get('attributesFirst', False))
        if opts.get('makeVariables'):
            t2.reset_variables(ops.fmt_string(opts['makeVariables']))
        parts.append(penman.format(t2, indent=opts.get('indent', -1), compact=opts.get('compact', False)))
    want = ''.join(p + '\n' for p in parts)
    want = '\n'.join(p + '\n' for p in parts) if parts else ''
    if out1 != want:
        return f'tool output differs from the library pipeline: {out1!r} vs {want!r}'
    # formatting options never change content
    o2 = dict(opts, indent=None, compact=False)
    r_f = ops.run_main(case['model'], o2, [text])
    a = [(t.node, dict(t.metadata)) for t in penman.iterparse(out1)]
    b = [(t.node, dict(t.metadata)) for t in penman.iterparse(r_f['out'])]
    if a != b:
        return 'formatting options changed the content'
    # normal form
    r2 = ops.run_main(case['model'], opts, [out1])
    if r2['out'] != out1:
        if opts.get('reifyEdges') and opts.get('reifyAttributes') and inv_reifiable_attr(text, m):
            return 'KNOWN:F18'
        if opts.get('makeVariables') and c20_captures(trees, m, opts):
            return 'KNOWN:F23'
        if opts.get('canonicalizeRoles') and c20_noncanonical_output(out1, m):
            return 'KNOWN:F24'
        if (opts.get('reifyEdges') or opts.get('dereifyEdges')) and c20_duplicate_output(out1, m):
            return 'KNOWN:F25'
        return f'not a fixed point: second pass gives {r2["out"]!r} from {out1!r}'
    # several FILE inputs: the run equals the runs of the single files, in order; fed back as ONE
    # stream the output is reproduced except for known finding F22 (no blank line at file boundaries)
    if case.get('more_files') and all(c20_domain(f, m, opts) is not None for f in case['more_files']):
        files = [text] + case['more_files']
        singles = [ops.run_main(case['model'], opts, [f]) for f in files]
        if all('ok' in r_['exit'] for r_ in singles):
            multi = ops.run_main(case['model'], opts, files)
            if multi['out'] != ''.join(r_['out'] for r_ in singles):
                return f'output for several files is not the concatenation of the per-file outputs: {multi["out"]!r}'
            back = ops.run_main(case['model'], opts, [multi['out']])
            if back['out'] != multi['out']:
                want_f22 = '\n'.join(r_['out'] for r_ in singles if r_['out'])
                if back['out'] == want_f22 and sum(1 for r_ in singles if r_['out']) > 1:
                    return 'KNOWN:F22'
                if not (opts.get('reifyEdges') and opts.get('reifyAttributes')):
                    return f'several files: not a fixed point beyond F22: {back["out"]!r} from {multi["out"]!r}'
    # identity without normalisation options
    if not any(opts.get(k) for k in NORM) and not opts.get('rearrange') and not opts.get('makeVariables'):
        g_in = [graph_content(g, m) for g in penman.iterdecode(text, model=m)]
        g_out = [graph_content(g, m) for g in penman.iterdecode(out1, model=m)]
        if g_in != g_out:
            return 'output decodes to different graphs than the input'
    return None


# ======================================================================= C17

def c17_gen(rng):
    spec = rng.choice(['default', 'amr'])
    g = gen.gen_graph(rng, spec, mode=rng.choice(['decoded', 'hand', 'corrupt', 'hand-disc']))
    if maybe(rng, 0.15):
        # several disconnected nodes whose names tie under the alphanumeric key (b, b0; c1, c01)
        g = Graph(list(g.triples) + [(v, ':instance', 'x') for v in rng.sample(['b0', 'b00', 'c1', 'c01', 'c001', 'zz', 'zz0'], 4)],
                  top=g._top, epidata=dict(g.epidata))
    h = gen.gen_graph(rng, spec, mode='decoded')
    return {'g': j_graph(g), 'h': j_graph(h), 'model': spec, 'text': gen.gen_penman_string(rng)}


def snap(x):
    if isinstance(x, Graph):
        return json.dumps(j_graph(x), sort_keys=False)
    if isinstance(x, Tree):
        return json.dumps(j_tree(x))
    return repr(x)


def c17_calls(g, h, m, text):
    """list of (name, args, thunk)"""
    # the tree argument is built from a COPY: nothing may touch g before its first snapshot
    gc = copy.deepcopy(g)
    t = layout.configure(gc, model=m) if _safe(lambda: layout.configure(copy.deepcopy(gc), model=m)) else Tree(('a', []))
    calls = [
        ('decode', [], lambda: snap(penman.decode(text, model=m))),
        ('encode', [g], lambda: penman.encode(g, model=m)),
        ('configure', [g], lambda: snap(layout.configure(g, model=m))),
        ('reconfigure', [g], lambda: snap(layout.reconfigure(g, model=m, key=m.canonical_order))),
        ('interpret', [t], lambda: snap(layout.interpret(t, m))),
        ('format', [t], lambda: penman.format(t)),
        ('reify_edges', [g], lambda: snap(transform.reify_edges(g, m))),
        ('dereify_edges', [g], lambda: snap(transform.dereify_edges(g, m))),
        ('reify_attributes', [g], lambda: snap(transform.reify_attributes(g))),
        ('indicate_branches', [g], lambda: snap(transform.indicate_branches(g, m))),
        ('canonicalize_roles', [t], lambda: snap(transform.canonicalize_roles(t, m))),
        # the canonicalised tree is a new tree: re-arranging IT in place leaves the argument alone
        ('canonicalize_then_rearrange', [t], lambda: snap(_rearranged(transform.canonicalize_roles(t, m), m))),
        ('or', [g, h], lambda: snap(g | h)),
        ('sub', [g, h], lambda: snap(g - h)),
        ('queries', [g], lambda: repr((g.instances(), g.edges(), g.attributes(), sorted(g.variables(), key=repr), g.reentrancies()))),
        ('errors', [g], lambda: repr(m.errors(g))),
        ('node_contexts', [g], lambda: repr(layout.node_contexts(g))),
        ('alignments', [g], lambda: repr((surface.alignments(g), surface.role_alignments(g)))),
        # a model built from a dictionary (as from a JSON model file) chooses among alternative
        # reifications / dereifications in the listed order, whatever the hash seed
        ('from_dict', [], lambda: repr(_amr_from_dict_choices())),
        # the command with several ordering keys applies them in the order given
        ('cli', [], lambda: repr([ops.run_main('amr', o, [text])
                                  for o in ({'rearrange': {'keys': ['invertedLast', 'alphanumeric'], 'attributesFirst': False}},
                                            {'rearrange': {'keys': ['alphanumeric', 'invertedLast'], 'attributesFirst': True}},
                                            {'reconfigure': ['canonical'], 'reifyEdges': True})])),
    ]
    return calls


def _rearranged(t2, m):
    layout.rearrange(t2, key=m.canonical_order, attributes_first=True)
    return t2


def _amr_from_dict_choices():
    from penman.models import amr as amr_mod
    d = {'roles': dict(amr_mod.roles), 'normalizations': dict(amr_mod.normalizations),
         'reifications': [list(r) for r in amr_mod.reifications]}
    m = Model.from_dict(d)
    out = []
    for role in (':poss', ':beneficiary', ':subset', ':superset', ':employed-by', ':role'):
        try:
            out.append(m.reify(('a', role, 'b'), set()))
        except Exception as e:  # noqa: BLE001
            out.append(type(e).__name__)
    for concept, r1, r2 in (('include-91', ':ARG1', ':ARG2'), ('include-91', ':ARG2', ':ARG1'), ('have-org-role-91', ':ARG0', ':ARG1')):
        try:
            out.append(m.dereify(('_', ':instance', concept), ('_', r1, 'a'), ('_', r2, 'b')))
        except Exception as e:  # noqa: BLE001
            out.append(type(e).__name__)
    return out


def _safe(f):
    try:
        f()
        return True
    except Exception:  # noqa: BLE001
        return False


def c17_check(case):
    m = py_model(case['model'])
    g, h = py_graph(case['g']), py_graph(case['h'])
    text = case['text']
    calls = c17_calls(g, h, m, text)
    # the same calls on deep-copied / pickled arguments (what a worker process receives)
    import pickle

    def singletons(x):
        y = copy.deepcopy(x)
        y.epidata = {k: [layout.POP if isinstance(e, layout.Pop) else e for e in v] for k, v in y.epidata.items()}
        return y
    # g, h carry fresh Pop objects (py_graph); the copies carry the POP singleton as an in-process decode does
    g2, h2 = singletons(g), pickle.loads(pickle.dumps(singletons(h)))
    copies = {name: thunk for name, _, thunk in c17_calls(g2, h2, m, text)}
    results = {}
    for name, args, thunk in calls:
        before = [snap(a) for a in args]
        try:
            r1 = thunk()
        except Exception as e:  # noqa: BLE001
            r1 = 'EXC:' + type(e).__name__
        after = [snap(a) for a in args]
        if before != after:
            return f'{name} changed its argument'
        try:
            r2 = thunk()
        except Exception as e:  # noqa: BLE001
            r2 = 'EXC:' + type(e).__name__
        if r1 != r2:
            return f'{name} is not repeatable'
        try:
            r3 = copies[name]()
        except Exception as e:  # noqa: BLE001
            r3 = 'EXC:' + type(e).__name__
        if r3 != r1:
            return f'{name} gives a different result on a deep-copied/pickled argument'
        results[name] = r1
    return c17_tree_history(g, m) or c17_interleaved(text, m)


def c17_interleaved(text, m):
    """a lazily consumed iterdecode/iterparse gives the same graphs whether or not other decoding calls
    run between two of its steps"""
    stream = text + '\n\n' + text + '\n\n(zz / other :ARG0 (yy / thing))\n'

    def run(between):
        out = []
        try:
            for g in penman.iterdecode(stream, model=m):
                out.append(snap(g))
                between()
        except Exception as e:  # noqa: BLE001
            out.append('EXC:' + type(e).__name__)
        try:
            for t in penman.iterparse(stream):
                out.append(repr(t.node))
                between()
        except Exception as e:  # noqa: BLE001
            out.append('EXC:' + type(e).__name__)
        return out

    def other():
        for f in (lambda: penman.decode('(q / quux :mod (r / rr))', model=m), lambda: penman.parse_triples('instance(a, b) ^ ARG0(a, c)'),
                  lambda: next(iter(penman.iterparse('(p / pp) (p2 / pp)')))):
            try:
                f()
            except Exception:  # noqa: BLE001
                pass
    a, b = run(lambda: None), run(other)
    if a != b:
        return f'iterdecode/iterparse of {stream!r} gives other results when other decoding calls run between its steps'
    return None


def c17_tree_history(g, m):
    """read-only calls on a tree (nodes(), interpret, compact format) before an in-place rearrangement
    must not change what the tree says afterwards: compared with a tree that was never inspected"""
    try:
        text = penman.format(layout.configure(copy.deepcopy(g), model=m))
        a, b = penman.parse(text), penman.parse(text)
    except Exception:  # noqa: BLE001
        return None
    if a.node != b.node:
        return None

    def step(f):
        try:
            return f()
        except Exception as e:  # noqa: BLE001
            return 'EXC:' + type(e).__name__

    def later(t):
        step(lambda: layout.rearrange(t, key=m.canonical_order))
        seen = step(lambda: [n[0] for n in t.nodes()])
        g2 = step(lambda: snap(layout.interpret(t, m)))
        txt = step(lambda: penman.format(t, compact=True))
        step(lambda: t.reset_variables('{prefix}{j}'))
        return repr((seen, g2, txt, t.node))
    step(lambda: a.nodes())
    step(lambda: layout.interpret(a, m))
    step(lambda: penman.format(a, compact=True))
    ra, rb = later(a), later(b)
    if ra != rb:
        return f'inspecting a tree before rearranging it in place changes later results: {ra} vs {rb}'
    return None


HASHSEED_SCRIPT = r'''
import sys, json
sys.path.insert(0, %(harness)r)
import oracles
from common import py_graph, py_model
cases = json.load(open(sys.argv[1]))
out = []
for case in cases:
    m = py_model(case['model'])
    g, h = py_graph(case['g']), py_graph(case['h'])
    res = {}
    for name, args, thunk in oracles.c17_calls(g, h, m, case['text']):
        try:
            res[name] = thunk()
        except Exception as e:
            res[name] = 'EXC:' + type(e).__name__
    out.append(res)
print(json.dumps(out))
'''


def c17_hashseed(cases, seeds=(0, 1, 2, 3)):
    """run the same calls in fresh processes under several PYTHONHASHSEED values"""
    harness = os.path.dirname(os.path.abspath(__file__))
    fd, path = tempfile.mkstemp(prefix='penman_c17_', suffix='.json')
    os.close(fd)
    try:
        json.dump(cases, open(path, 'w'))
        outs = []
        for s in seeds:
            env = dict(os.environ, PYTHONHASHSEED=str(s), PENMAN_REPO=REPO)
            p = subprocess.run([sys.executable, '-c', HASHSEED_SCRIPT % {'harness': harness}, path],
                               stdout=subprocess.PIPE, stderr=subprocess.PIPE, env=env, timeout=600)
            if p.returncode != 0:
                return None, f'worker failed: {p.stderr[-500:]!r}'
            outs.append(json.loads(p.stdout.decode().strip().splitlines()[-1]))
        for i, case in enumerate(cases):
            for name in outs[0][i]:
                vals = {json.dumps(o[i][name]) for o in outs}
                if len(vals) > 1:
                    return case, f'{name} differs across PYTHONHASHSEED values'
        return None, None
    finally:
        os.remove(path)


ORACLES = {
    'C01': [(c01_gen, c01_check), (c01_text_gen, c01_text_check)],
    'C02': [(c02_gen, c02_check)],
    'C03': [(c03_gen, c03_check)],
    'C04': [(c04_gen, c04_check)],
    'C05': [(c05_gen, c05_check)],
    'C06': [(c06_gen, c03_check), (c06_total_gen, c06_total_check)],
    'C07': [(c07_gen, c07_check), (c07_triples_gen, c07_triples_check)],
    'C08': [(c08_gen, c08_check)],
    'C09': [(c09_gen, c09_check)],
    'C10': [(c10_gen, c10_check)],
    'C11': [(c11_gen, c11_check)],
    'C12': [(c12_gen, c12_check)],
    'C13': [(c13_gen, c13_check)],
    'C14': [(c14_gen, c14_check)],
    'C15': [(c15_gen, c15_check)],
    'C16': [(c16_gen, c16_check), (c16_cli_gen, c16_cli_check)],
    'C17': [(c17_gen, c17_check)],
    'C18': [(c18_gen, c18_check)],
    'C19': [(c19_gen, c19_check)],
    'C20': [(c20_gen, c20_check)],
}


def run_oracle(pid, n, seed, budget_s=None):
    """-> (cases_run, in_domain, first failure (case, msg) or None, known findings seen)"""
    import time
    t0 = time.time()
    ran = dom = 0
    known = {}
    for k, (g, c) in enumerate(ORACLES[pid]):
        rng = random.Random(f'{seed}:{pid}:oracle{k}')
        for _ in range(n):
            if budget_s is not None and time.time() - t0 > budget_s:
                break
            try:
                case = g(rng)
            except Unrepresentable:
                continue
            ran += 1
            try:
                import corr
                r = corr.with_alarm(lambda: c(case), 20)
                if isinstance(r, dict) and r.get('err') == ['Hang']:
                    r = 'the real code did not return within 20 s (hang)'
            except Unrepresentable:
                continue
            except RecursionError:
                continue
            except Exception as e:  # noqa: BLE001
                r = f'the real code raised {type(e).__name__}: {e} inside the property oracle'
            if r is None:
                continue
            if isinstance(r, str) and r.startswith('KNOWN:'):
                known.setdefault(r[6:], case)
                continue
            return ran, dom, (case, r), known
    return ran, dom, None, known


if __name__ == '__main__':
    import time
    pids = sys.argv[1].split(',') if len(sys.argv) > 1 else sorted(ORACLES)
    n = int(sys.argv[2]) if len(sys.argv) > 2 else 500
    seed = int(sys.argv[3]) if len(sys.argv) > 3 else 0
    for pid in pids:
        t0 = time.time()
        ran, dom, fail, known = run_oracle(pid, n, seed)
        print(f'{pid}: {ran} cases, {time.time()-t0:.1f}s, known={list(known)}, fail={None if not fail else fail[1][:600]}')
        if fail:
            print('   case:', json.dumps(fail[0], ensure_ascii=False)[:1200])


# ======================================================================= directed search

def _graph_from_op(op):
    if 'graph' in op:
        return op['graph']
    return None


def _trees_from_text(s):
    out = []
    try:
        for t in penman.iterparse(s):
            out.append(t)
    except Exception:  # noqa: BLE001
        pass
    return out


def derive_cases(pid, op):
    """property-oracle cases derived from an operation on which model and code disagree
    (or from any operation): list of (check, case)"""
    name = op['op']
    cases = []
    models = [op.get('model')] if op.get('model') is not None else ['default', 'amr']
    trees = []
    texts = []
    if 'tree' in op:
        trees.append((py_node(op['tree']['node']), dict((k, v) for k, v in op['tree'].get('metadata', []))))
    if 's' in op and isinstance(op['s'], str):
        texts.append(op['s'])
    if op.get('lines') is not None:
        texts.append('\n'.join(l.rstrip('\n') for l in op['lines']))
    if name == 'main':
        texts += list(op['inputs'])
    for s in texts:
        for t in _trees_from_text(s):
            trees.append((t.node, dict(t.metadata)))
    graphs = []
    if 'graph' in op:
        graphs.append(op['graph'])
    if name == 'graph_ops':
        graphs += op['graphs']
    for node, md in trees:
        for m in models:
            try:
                g = layout.interpret(Tree(node, metadata=md), py_model(m))
                graphs.append(j_graph(g))
            except Exception:  # noqa: BLE001
                pass
    jn = [(j_node(n), [[k, v] for k, v in md.items()]) for n, md in trees]
    if pid == 'C01':
        for s_ in texts:
            for ind in (-1, None, 2):
                cases.append((c01_text_check, {'text': s_, 'indent': ind, 'compact': False}))
        for n, md in jn:
            for ind in (op.get('indent', -1), None, -1, 0, 3):
                for c in (op.get('compact', False), True):
                    cases.append((c01_check, {'tree': n, 'metadata': md, 'indent': ind, 'compact': c}))
    elif pid == 'C02':
        for n, md in jn:
            for m in models:
                cases.append((c02_check, {'tree': n, 'model': m, 'metadata': md}))
    elif pid in ('C03', 'C06', 'C09'):
        for g in graphs:
            gg = py_graph(g)
            tops = [op.get('top'), None] + sorted(v for v in gg.variables() if isinstance(v, str))[:4]
            for m in models:
                for top in tops:
                    cases.append((c03_check, {'graph': g, 'model': m, 'top': top, 'indent': op.get('indent', -1), 'compact': op.get('compact', False)}))
                    if pid == 'C06':
                        cases.append((c06_total_check, {'graph': g, 'model': m, 'top': top}))
        if pid == 'C09':
            for g in graphs:
                for sep in ('\n\n', '\n'):
                    for nl in ('\n', '\r\n', '\r'):
                        cases.append((c09_check, {'graphs': [g, g], 'indent': -1, 'sep': sep, 'nl': nl}))
    elif pid == 'C04':
        for n, md in jn:
            for m in models + ['noop']:
                cases.append((c04_check, {'tree': n, 'model': m}))
    elif pid == 'C05':
        for n, md in jn:
            for m in models:
                for key in gen.KEYS:
                    for af in (False, True):
                        cases.append((c05_check, {'tree': n, 'model': m, 'key': key, 'af': af, 'seed': 0, 'random': False}))
    elif pid == 'C07':
        for s in texts:
            cases.append((c07_check, {'s': s}))
            cases.append((c07_triples_check, {'s': s}))
    elif pid == 'C08':
        for s in texts:
            for line in re.split(r'\r\n|\r|\n', s):
                for mode in ('penman', 'triples'):
                    cases.append((c08_check, {'line': line, 'mode': mode}))
    elif pid == 'C10':
        for n, md in jn:
            for fmt in ([op['fmt']] if 'fmt' in op else []) + gen.FMTS[:7]:
                for m in models:
                    cases.append((c10_check, {'tree': n, 'fmt': fmt, 'model': m}))
    elif pid in ('C11', 'C12'):
        for g in graphs:
            for m in models:
                cases.append((c11_check, {'graph': g, 'model': m}))
                for prog in (['reify_edges'], ['dereify_edges'], ['reify_attributes'], ['indicate_branches'],
                             ['reify_edges', 'dereify_edges'], ['reify_edges', 'reify_attributes', 'indicate_branches']):
                    cases.append((c12_check, {'graph': g, 'model': m, 'program': prog}))
    elif pid == 'C13':
        roles = [op['role']] if 'role' in op else []
        if 'triple' in op:
            roles.append(op['triple'][1])
        for n, md in jn:
            for node in all_nodes(py_node(n)):
                roles += [r for r, _ in node[1]]
        for m in models:
            for r in roles or [':ARG0']:
                cases.append((c13_check, {'model': m, 'role': r.partition('~')[0], 'tree': jn[0][0] if jn else ['a', []]}))
    elif pid == 'C14':
        for n, md in jn:
            for m in ('default', 'amr'):
                cases.append((c14_check, {'tree': n, 'model': m}))
    elif pid == 'C15':
        for g in graphs:
            for h in graphs:
                cases.append((c15_check, {'g': g, 'h': h, 'newtop': 'a'}))
    elif pid == 'C16':
        for g in graphs:
            for m in models:
                cases.append((c16_check, {'graph': g, 'model': m}))
        if name == 'main':
            cases.append((c16_cli_check, {'files': op['inputs'], 'model': op.get('model', 'amr')}))
    elif pid == 'C17':
        for g in graphs:
            cases.append((c17_check, {'g': g, 'h': graphs[0], 'model': models[0] if models[0] in ('default', 'amr') else 'default',
                                      'text': texts[0] if texts else '(a / b)'}))
    elif pid == 'C18':
        if name == 'quote':
            v = py_atom(op['value'])
            cases.append((c18_check, {'s': v if isinstance(v, str) else str(v), 'atom': ''}))
        if name == 'evaluate' and isinstance(op.get('s'), str):
            cases.append((c18_check, {'s': '', 'atom': op['s']}))
        for s in texts:
            cases.append((c18_check, {'s': s, 'atom': s}))
    elif pid == 'C19':
        lists = []
        if 'triples' in op:
            lists.append(op['triples'])
        for s in texts:
            try:
                lists.append([list(t) for t in penman.parse_triples(s)])
            except Exception:  # noqa: BLE001
                pass
        for g in graphs:
            lists.append(g['triples'])
        for ts in lists:
            if all(isinstance(t[2], str) for t in ts):
                for ind in (True, False):
                    cases.append((c19_check, {'triples': ts, 'indent': ind, 'comma': ', ', 'caret': ' ^'}))
    elif pid == 'C20':
        if name == 'main':
            for inp in op['inputs']:
                cases.append((c20_check, {'opts': op.get('opts', {}), 'model': op.get('model', 'default'), 'input': inp}))
        for s in texts:
            for m in ('default', 'amr'):
                cases.append((c20_check, {'opts': {}, 'model': m, 'input': s}))
    return cases

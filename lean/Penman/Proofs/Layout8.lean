/-
  Penman.Proofs.Layout8 — an evaluable twin of `configure`.
  `buildNode`/`buildBranches` recurse mutually on different types (fuel / edge
  list), so Lean compiles them by well-founded recursion and `decide` cannot
  evaluate them. `buildN'` (structural on the fuel, with the branch walk
  `buildB'` parametrised by the recursive call) is proved equal, so concrete
  (counter)examples about `configure` can be checked by `decide`.
-/
import Penman.Layout
namespace Penman
namespace C02

def buildB' (bn : Str → Except PyErr Node) : List Edge → Except PyErr Branches
  | [] => .ok .nil
  | e :: es => do
    let rest ← buildB' bn es
    match e.tgt with
    | .atom a =>
      let hasTgtEpi := e.epis.any (·.mode = 2)
      let (r, t) := applyEpis e.role (some (atomStr a)) e.epis
      pure (.atom r (if hasTgtEpi then .str (t.getD []) else a) rest)
    | .node w => do
      let n ← bn w
      let (r, _) := applyEpis e.role none e.epis
      pure (.sub r n rest)

def buildN' (cells : AList Str (List Edge)) : Nat → Str → Except PyErr Node
  | 0, _ => .error (.other "configure: cyclic store")
  | f+1, v => do
    let bs ← buildB'
      (fun w => match f with
        | 0 => .error (.other "configure: cyclic store")
        | f'+1 => buildN' cells f' w) ((AList.get? cells v).getD [])
    pure (.mk (some v) bs)

/-- the node call available to `buildBranches` at fuel `f` -/
def nodeCall (cells : AList Str (List Edge)) (f : Nat) (w : Str) : Except PyErr Node :=
  match f with
  | 0 => .error (.other "configure: cyclic store")
  | f'+1 => buildN' cells f' w

theorem buildN'_succ (cells : AList Str (List Edge)) (f : Nat) (v : Str) :
    buildN' cells (f+1) v = (do
      let bs ← buildB' (nodeCall cells f) ((AList.get? cells v).getD [])
      pure (.mk (some v) bs)) := by
  rw [buildN']; rfl

theorem buildBranches_zero (cells : AList Str (List Edge)) (es : List Edge) :
    buildBranches cells 0 es = buildB' (nodeCall cells 0) es := by
  induction es with
  | nil => simp [buildBranches, buildB']
  | cons e es ih =>
    rw [buildBranches, buildB', ih]
    cases e.tgt with
    | atom a => rfl
    | node w =>
      simp only [nodeCall, bind, Except.bind, throw, throwThe, MonadExceptOf.throw]

theorem buildBranches_succ (cells : AList Str (List Edge)) (f : Nat)
    (hP : ∀ v, buildNode cells f v = buildN' cells f v) (es : List Edge) :
    buildBranches cells (f+1) es = buildB' (nodeCall cells (f+1)) es := by
  induction es with
  | nil => simp [buildBranches, buildB']
  | cons e es ih =>
    rw [buildBranches, buildB', ih]
    cases e.tgt with
    | atom a => rfl
    | node w => simp only [nodeCall, hP]

theorem build_eq (cells : AList Str (List Edge)) : ∀ f,
    (∀ v, buildNode cells f v = buildN' cells f v) ∧
    (∀ es, buildBranches cells f es = buildB' (nodeCall cells f) es) := by
  intro f
  induction f with
  | zero =>
    exact ⟨fun v => by rw [buildNode, buildN'], buildBranches_zero cells⟩
  | succ f ih =>
    refine ⟨fun v => ?_, buildBranches_succ cells f ih.1⟩
    rw [buildNode, buildN'_succ, ih.2]

/-- `configure` with the evaluable tree builder -/
def configure' (m : Model) (g : Graph) (top : Option Str) : Except PyErr Tree :=
  if g.triples.isEmpty then .ok { node := .mk g.getTop .nil, metadata := g.metadata }
  else
    let vars := g.variables
    let top := match top with | some t => some t | none => g.getTop
    match top with
    | none => .error (.layout 0)
    | some top =>
      if top ∉ vars then .error (.layout 0)
      else do
        let st0 : St := { cells := [(top, [])], nm := AList.set (vars.map (·, NM.unset)) top NM.own }
        let data ← preconfigure m g.epidata g.triples []
        let (data1, st1, _) := configureNode m (data.length + 1) top data st0 false
        let st2 ← configureLoop m ((data.length + 1) * (data.length + 1) + 1) (stripPops data1) [] st1
        let node ← buildN' st2.cells (2 * st2.cells.length + 2) top
        pure { node := node, metadata := g.metadata }

theorem configure_eq (m : Model) (g : Graph) (top : Option Str) : configure m g top = configure' m g top := by
  unfold configure configure'
  simp only [(build_eq _ _).1]
  rfl

end C02
end Penman

/-
  Penman.Proofs.Configure18 — the source of every instance triple owns a cell in
  the final store (also when the triple itself is a dropped null label).
-/
import Penman.Proofs.Configure15
namespace Penman
namespace Cfg

theorem cn_ownInst (m : Model) : ∀ f var data st s, Own st var →
    ∃ c, data = c ++ (configureNode m f var data st s).1 ∧
      ∀ tr ∈ pending c, tr.role = CONCEPT_ROLE → Own (configureNode m f var data st s).2.1 tr.src := by
  intro f
  induction f with
  | zero => intro var data st s _; exact ⟨[], rfl, fun tr h => by simp [pending] at h⟩
  | succ f ih =>
    intro var data st s hv
    cases data with
    | nil => exact ⟨[], rfl, fun tr h => by simp [pending] at h⟩
    | cons d data =>
      cases d with
      | pop => exact ⟨[.pop], rfl, fun tr h => by simp [pending] at h⟩
      | t tr push epis =>
        have hmono := cn_mono m (f+1) var (.t tr push epis :: data) st s
        simp only [configureNode] at hmono ⊢
        split
        · exact ⟨[], rfl, fun tr h => by simp [pending] at h⟩
        · rename_i role target push' s' hor
          have ho := orient_cases hor
          have hhead : tr.role = CONCEPT_ROLE → tr.src = var := by
            intro hr
            rcases ho with ⟨h1, _, _⟩ | ⟨_, h2, _, _⟩
            · exact h1
            · exact absurd hr h2
          simp only [hor] at hmono
          split
          · rename_i hcr
            split
            · rename_i hmiss
              simp only [hcr, hmiss, if_true] at hmono
              obtain ⟨c, hc, hX⟩ := ih var data st s' hv
              refine ⟨.t tr push epis :: c, by rw [List.cons_append, ← hc], ?_⟩
              intro x hx hxr
              simp only [pending, List.mem_cons] at hx
              rcases hx with rfl | hx
              · rw [hhead hxr]; exact hmono.2.2 _ hv
              · exact hX x hx hxr
            · rename_i hmiss
              simp only [hcr, hmiss, if_true] at hmono
              obtain ⟨c, hc, hX⟩ := ih var data (st.addFront var ⟨['/'], .atom target, epis⟩) s'
                ((mono_addFront st var _).2.2 _ hv)
              refine ⟨.t tr push epis :: c, by rw [List.cons_append, ← hc], ?_⟩
              intro x hx hxr
              simp only [pending, List.mem_cons] at hx
              rcases hx with rfl | hx
              · rw [hhead hxr]; exact hmono.2.2 _ hv
              · exact hX x hx hxr
          · rename_i hncr
            have hnotc : tr.role ≠ CONCEPT_ROLE := by
              intro hr
              rcases ho with ⟨_, h2, _⟩ | ⟨_, h2, _, _⟩
              · exact hncr (h2 ▸ hr)
              · exact h2 hr
            simp only [hncr, if_false] at hmono
            split
            · rename_i v hp
              simp only [hp] at hmono
              obtain ⟨c1, hc1, hX1⟩ := ih v data (st.newCell v) false (by simp [Own, St.newCell, get?_set_same])
              have m0 := (mono_newCell st v).1
              have m1 := cn_mono m f v data (st.newCell v) false
              have m2 := mono_addBack (configureNode m f v data (st.newCell v) false).2.1 var ⟨role, .node v, epis⟩
              obtain ⟨c2, hc2, hX2⟩ := ih var _ _ (s' && (configureNode m f v data (st.newCell v) false).2.2)
                (((m0.trans m1).trans m2).2.2 _ hv)
              have m3 := cn_mono m f var (configureNode m f v data (st.newCell v) false).1
                ((configureNode m f v data (st.newCell v) false).2.1.addBack var ⟨role, .node v, epis⟩)
                (s' && (configureNode m f v data (st.newCell v) false).2.2)
              refine ⟨.t tr push epis :: (c1 ++ c2), ?_, ?_⟩
              · rw [List.cons_append, List.append_assoc, ← hc2, ← hc1]
              · intro x hx hxr
                simp only [pending, pending_append, List.mem_cons, List.mem_append] at hx
                rcases hx with rfl | hx | hx
                · exact absurd hxr hnotc
                · exact (m2.trans m3).2.2 _ (hX1 x hx hxr)
                · exact hX2 x hx hxr
            · obtain ⟨c, hc, hX⟩ := ih var data ((st.noteSite var target).addBack var ⟨role, .atom target, epis⟩) s'
                (((mono_noteSite st var target).trans (mono_addBack _ var _)).2.2 _ hv)
              refine ⟨.t tr push epis :: c, by rw [List.cons_append, ← hc], ?_⟩
              intro x hx hxr
              simp only [pending, List.mem_cons] at hx
              rcases hx with rfl | hx
              · exact absurd hxr hnotc
              · exact hX x hx hxr

/-- instance triples: their source owns a cell, or they are still waiting -/
def IInv (g : Graph) (data skipped : List Datum) (st : St) : Prop :=
  ∀ t ∈ g.triples, t.role = CONCEPT_ROLE → Own st t.src ∨ t ∈ pending data ++ pending skipped

theorem iinv_round {m : Model} {g : Graph} {a b} (h : Round m a b) (hg : Good a.2.2)
    (hi : IInv g a.1 a.2.1 a.2.2) : IInv g b.1 b.2.1 b.2.2 := by
  cases h with
  | @skip data skipped st sk v st1 tr push epis rest hfn ho =>
    obtain ⟨hcat, _⟩ := findNext_some _ _ _ hfn
    simp only [List.reverse_nil, List.nil_append] at hcat
    have hgf := good_findNext data [] st hg
    rw [hfn] at hgf
    intro t ht hr
    rcases hi t ht hr with h | h
    · exact Or.inl (own_mono hg hgf.1 hgf.2.1 h)
    · right
      simp only [← hcat, pending_append, pending, pending_stripPops, List.mem_append, List.mem_cons,
        List.mem_nil_iff, or_false] at h ⊢
      grind
  | @prog data skipped st sk v st1 tr push epis rest hfn ho =>
    obtain ⟨hcat, _⟩ := findNext_some _ _ _ hfn
    simp only [List.reverse_nil, List.nil_append] at hcat
    have hgf := good_findNext data [] st hg
    rw [hfn] at hgf
    obtain ⟨g1, e1, o1⟩ := hgf
    obtain ⟨c, hc, hX⟩ := cn_ownInst m (rest.length + 2) v (.t tr push epis :: rest) st1 false (o1 v rfl)
    have hmono := cn_mono m (rest.length + 2) v (.t tr push epis :: rest) st1 false
    have hdata : pending data = pending sk ++ (pending c ++
        pending (configureNode m (rest.length + 2) v (.t tr push epis :: rest) st1 false).1) := by
      rw [← hcat, pending_append, ← pending_append c, ← hc]
    intro t ht hr
    rcases hi t ht hr with h | h
    · exact Or.inl (hmono.2.2 _ (own_mono hg g1 e1 h))
    · simp only [hdata, List.mem_append] at h
      rcases h with (h | h | h) | h
      · exact Or.inr (by simp [pending_append, pending_stripPops, h])
      · exact Or.inl (hX t h hr)
      · exact Or.inr (by simp [pending_append, pending_stripPops, h])
      · exact Or.inr (by simp [pending_append, pending_stripPops, h])

theorem loop_ownInst (m : Model) (g : Graph) : ∀ fuel data skipped st st', Good st → IInv g data skipped st →
    configureLoop m fuel data skipped st = .ok st' → ∀ t ∈ g.triples, t.role = CONCEPT_ROLE → Own st' t.src := by
  intro fuel
  induction fuel with
  | zero => intro data skipped st st' _ _ h; simp [configureLoop] at h
  | succ fuel ih =>
    intro data skipped st st' hg hi h
    cases data with
    | nil =>
      simp only [configureLoop] at h
      split at h
      · rename_i he
        simp only [Except.ok.injEq] at h; subst h
        have : skipped = [] := by simpa using he
        subst this
        intro t ht hr
        rcases hi t ht hr with h | h
        · exact h
        · simp [pending] at h
      · simp at h
    | cons d data =>
      rcases loop_cases m d data skipped st with ⟨_, e⟩ | ⟨nx, hround, e⟩
      · rw [e] at h; simp at h
      · rw [e] at h
        exact ih _ _ _ _ (good_round hround hg).1 (iinv_round hround hg hi) h

/-- every variable with a node label (even a null one) owns a cell in the final store -/
theorem storeOf_ownInst {m : Model} {g : Graph} {top : Str} {st : St} (h : storeOf m g top = .ok st) :
    ∀ t ∈ g.triples, t.role = CONCEPT_ROLE → t.src ∈ ckeys st.cells := by
  have hgood := storeOf_good h
  unfold storeOf at h
  cases hp : preconfigure m g.epidata g.triples [] with
  | error e1 => rw [hp] at h; simp [Except.bind] at h
  | ok data =>
    rw [hp] at h
    simp only [Except.bind] at h
    have hpre := preconfigure_spec m _ _ _ _ hp
    obtain ⟨g0, o0⟩ := good_st0 g top
    obtain ⟨g1, _⟩ := good_cn m (data.length + 1) top data (st0 g top) false g0 o0
    obtain ⟨c, hc, hX⟩ := cn_ownInst m (data.length + 1) top data (st0 g top) false o0
    have hi : IInv g (stripPops (configureNode m (data.length + 1) top data (st0 g top) false).1) []
        (configureNode m (data.length + 1) top data (st0 g top) false).2.1 := by
      intro t ht hr
      obtain ⟨x, hx, hs⟩ := hpre.forward t ht
      have hxt : x = t := by
        cases hs with
        | same => rfl
        | inv _ _ hr' => exact absurd hr hr'
      subst hxt
      rw [hc, pending_append, List.mem_append] at hx
      rcases hx with hx | hx
      · exact Or.inl (hX x hx hr)
      · exact Or.inr (by simp [pending, pending_stripPops, hx])
    intro t ht hr
    exact (hgood.own _).2 (loop_ownInst m g _ _ _ _ _ g1 hi h t ht hr)

end Cfg
end Penman

/-
  Penman.Proofs.ConstantCases — what `evaluate` returns, by result (C18).
-/
import Penman.Proofs.ConstantFuel

namespace Penman
namespace C18

/-! ## 10. errors of `evaluate` -/

theorem scanJson_unmodelled {f : Nat} {s : Str} (h : scanJson (f+1) s = .unmodelled) :
    (∃ q, s = '"' :: q ∧ HasLoneSurrogateEscape q) ∨ (∃ q, s = '[' :: q ∨ s = '{' :: q) := by
  unfold scanJson at h
  split at h
  · split at h
    · simp at h
    · simp at h
    · rename_i hs; exact Or.inl ⟨_, rfl, scanJsonString_surrogate _ _ _ hs⟩
  · exact Or.inr ⟨_, Or.inr rfl⟩
  · exact Or.inr ⟨_, Or.inl rfl⟩
  · repeat' (split at h)
    all_goals simp at h

/-- the literal strings that `evaluate` returns unchanged -/
def isLit (s : Str) : Prop := s = "true".toList ∨ s = "false".toList ∨ s = "null".toList

/-- `evaluate`'s view of a JSON value -/
def cvalOf : JVal → CVal
  | .str v => .str v
  | .int t => .int t
  | .float t => .float t
  | .const n => .str n
  | .bool => .bool
  | .null => .none
  | .container => .none

theorem evaluate_error {s : Str} {e : PyErr} (h : evaluate (some s) = .error e) :
    e = .constant ∨
    (e = .unmodelled "json: lone surrogate or nesting" ∧ HasLoneSurrogateEscape s) := by
  rw [evaluate_some] at h
  split at h; · simp at h
  split at h; · injection h with h; exact Or.inl h.symm
  split at h; · simp at h
  split at h
  · rename_i e' hj
    injection h with h; subst h
    obtain ⟨he, hsc⟩ := jsonLoads_error hj
    exact Or.inr ⟨he, jsonLoads_fuel hsc⟩
  all_goals first
    | (simp at h; done)
    | (injection h with h; exact Or.inl h.symm)

theorem evaluate_ok {s : Str} {v : CVal} (h : evaluate (some s) = .ok v) :
    (s = [] ∧ v = .none) ∨
    (s ≠ [] ∧ v = .str s ∧ (isLit s ∨ jsonLoads s = .ok none)) ∨
    (s ≠ [] ∧ ¬ isLit s ∧ ∃ jv, jsonLoads s = .ok (some jv) ∧ jv ≠ .container ∧ v = cvalOf jv) := by
  rw [evaluate_some] at h
  split at h
  · rename_i he; injection h with h
    exact Or.inl ⟨by simpa using he, h.symm⟩
  rename_i hne
  have hne' : s ≠ [] := by simpa using hne
  split at h; · simp at h
  split at h
  · rename_i hl; injection h with h
    exact Or.inr (Or.inl ⟨hne', h.symm, Or.inl hl⟩)
  rename_i hl
  split at h
  · simp at h
  · rename_i hj; injection h with h
    exact Or.inr (Or.inl ⟨hne', h.symm, Or.inr hj⟩)
  all_goals first
    | (simp at h; done)
    | (rename_i hj; injection h with h
       exact Or.inr (Or.inr ⟨hne', hl, _, hj, by simp, h.symm⟩))

theorem jsonLoads_inv {s : Str} {jv : JVal} (h : jsonLoads s = .ok (some jv)) :
    ∃ pre rest, s = pre ++ skipWs s ∧ AllWs pre ∧
      scanJson (2 * s.length + 2) (skipWs s) = .ok jv rest ∧ AllWs rest := by
  obtain ⟨rest, hsc, hr⟩ := jsonLoads_ok h
  obtain ⟨pre, hpre, hws⟩ := skipWs_split s
  exact ⟨pre, rest, hpre, hws, hsc, skipWs_eq_nil hr⟩

/-- an `.ok` result that is neither the text itself nor `None`-for-empty comes from a JSON value
    that spans the whole text up to whitespace -/
theorem evaluate_ok_json {s : Str} {v : CVal} (h : evaluate (some s) = .ok v)
    (hv : v ≠ .str s) (hs : s ≠ []) :
    ¬ isLit s ∧ ∃ jv pre rest, v = cvalOf jv ∧ jv ≠ .container ∧ s = pre ++ skipWs s ∧ AllWs pre ∧
      scanJson (2 * s.length + 2) (skipWs s) = .ok jv rest ∧ AllWs rest := by
  rcases evaluate_ok h with ⟨h1, _⟩ | ⟨_, h2, _⟩ | ⟨_, hl, jv, hj, hc, hv'⟩
  · exact absurd h1 hs
  · exact absurd h2 hv
  · obtain ⟨pre, rest, h1, h2, h3, h4⟩ := jsonLoads_inv hj
    exact ⟨hl, jv, pre, rest, hv', hc, h1, h2, h3, h4⟩

/-! ## 11. numbers -/

theorem evaluate_number {s t : Str} {isF : Bool}
    (h : evaluate (some s) = .ok (if isF then .float t else .int t)) :
    WsPadded s t ∧ IsJsonNumber t isF := by
  have hs : s ≠ [] := by
    intro e; subst e; cases isF <;> simp [evaluate] at h
  obtain ⟨_, jv, pre, rest, hv, _, hpre, hws, hsc, hrest⟩ :=
    evaluate_ok_json h (by cases isF <;> simp) hs
  have hjv : jv = if isF then .float t else .int t := by
    cases isF <;> cases jv <;> simp [cvalOf] at hv ⊢ <;> exact hv.symm
  subst hjv
  rcases scanJson_inv hsc with ⟨x, q, hx, _⟩ | ⟨hx, _⟩ | ⟨hx, _⟩ | ⟨hx, _⟩ | ⟨t', isF', hn, hx⟩ | ⟨n, hx⟩
  · cases isF <;> simp at hx
  · cases isF <;> simp at hx
  · cases isF <;> simp at hx
  · cases isF <;> simp at hx
  · have : isF' = isF ∧ t' = t := by
      cases isF <;> cases isF' <;> simp at hx ⊢ <;> exact hx.symm
    obtain ⟨rfl, rfl⟩ := this
    obtain ⟨hsp, hnum⟩ := scanJsonNumber_spec hn
    refine ⟨⟨pre, rest, ?_, hws, hrest⟩, hnum⟩
    rw [List.append_assoc, ← hsp]; exact hpre
  · cases isF <;> simp at hx

/-! ## 12. `None` -/

theorem wsPadded_skipWs {s t pre post : Str} {c : Char} {q : Str} (hs : s = pre ++ t ++ post)
    (hpre : AllWs pre) (ht : t = c :: q) (hc : isJsonWs c = false) : skipWs s = t ++ post := by
  rw [hs, List.append_assoc, skipWs_allWs_append hpre, ht, List.cons_append, skipWs_cons_of_not hc]

theorem startsWith_quote_iff {s : Str} (h : startsWith ['"'] s = true) : ∃ q, s = '"' :: q := by
  rw [startsWith, List.isPrefixOf_iff_prefix] at h
  obtain ⟨q, rfl⟩ := h
  exact ⟨q, rfl⟩

theorem endsWith_quote_iff {s : Str} (h : endsWith ['"'] s = true) : ∃ q, s = q ++ ['"'] := by
  rw [endsWith, List.isSuffixOf_iff_suffix] at h
  obtain ⟨q, rfl⟩ := h
  exact ⟨q, rfl⟩

/-- a whitespace-padded word that neither starts nor ends with `"` passes `evaluate`'s quote test -/
theorem padded_quotes {s t pre post : Str} {c d : Char} {q q' : Str} (hs : s = pre ++ t ++ post)
    (hpre : AllWs pre) (hpost : AllWs post) (ht : t = c :: q) (ht' : t = q' ++ [d])
    (hc : c ≠ '"') (hd : d ≠ '"') :
    startsWith ['"'] s = false ∧ endsWith ['"'] s = false := by
  have hws : ∀ x, isJsonWs x = true → x ≠ '"' := by
    intro x hx e; subst e; revert hx; decide
  constructor
  · cases hb : startsWith ['"'] s with
    | false => rfl
    | true =>
      obtain ⟨r, hr⟩ := startsWith_quote_iff hb
      cases pre with
      | nil => rw [hs, ht] at hr; injection hr with e _; exact absurd e hc
      | cons x xs => rw [hs] at hr; injection hr with e _; exact absurd e (hws x (hpre x (by simp)))
  · cases hb : endsWith ['"'] s with
    | false => rfl
    | true =>
      obtain ⟨r, hr⟩ := endsWith_quote_iff hb
      have hl : s.getLast? = some '"' := by rw [hr]; simp
      rw [hs, ht', List.getLast?_append, List.getLast?_append] at hl
      cases hp : post.getLast? with
      | none => rw [hp] at hl; simp at hl; exact absurd hl hd
      | some x =>
        rw [hp] at hl; simp at hl
        have : x ∈ post := List.mem_of_getLast? hp
        exact absurd hl (hws x (hpost x this))

theorem scanJson_null (f : Nat) (post : Str) :
    scanJson (f+1) ("null".toList ++ post) = .ok .null post := by
  simp [scanJson, startsWith]

theorem evaluate_none_iff (a : Option Str) :
    evaluate a = .ok .none ↔
      a = none ∨ a = some [] ∨
      ∃ s, a = some s ∧ s ≠ "null".toList ∧ WsPadded s "null".toList := by
  constructor
  · intro h
    cases a with
    | none => exact Or.inl rfl
    | some s =>
      by_cases hs : s = []
      · exact Or.inr (Or.inl (by rw [hs]))
      · right; right
        obtain ⟨hl, jv, pre, rest, hv, hc, hpre, hws, hsc, hrest⟩ := evaluate_ok_json h (by simp) hs
        have hjv : jv = .null := by cases jv <;> simp [cvalOf] at hv hc ⊢
        subst hjv
        refine ⟨s, rfl, fun e => hl (Or.inr (Or.inr e)), pre, rest, ?_, hws, hrest⟩
        rcases scanJson_inv hsc with ⟨x, q, hx, _⟩ | ⟨hx, _⟩ | ⟨_, hx⟩ | ⟨hx, _⟩ | ⟨t', isF', _, hx⟩ | ⟨n, hx⟩
        · simp at hx
        · simp at hx
        · rw [List.append_assoc, ← hx]; exact hpre
        · simp at hx
        · cases isF' <;> simp at hx
        · simp at hx
  · rintro (rfl | rfl | ⟨s, rfl, hne, pre, post, hs, hpre, hpost⟩)
    · rfl
    · rfl
    · have hsk : skipWs s = "null".toList ++ post :=
        wsPadded_skipWs (c := 'n') (q := "ull".toList) hs hpre rfl (by decide)
      have hq := padded_quotes (c := 'n') (q := "ull".toList) (q' := "nul".toList) (d := 'l')
        hs hpre hpost rfl rfl (by decide) (by decide)
      have hne' : s.isEmpty = false := by
        cases s with
        | nil => simp [skipWs] at hsk
        | cons _ _ => rfl
      have hlit : ¬ (s = "true".toList ∨ s = "false".toList ∨ s = "null".toList) := by
        rintro (e | e | e)
        · rw [e] at hsk; revert hsk; simp [skipWs, isJsonWs]
        · rw [e] at hsk; revert hsk; simp [skipWs, isJsonWs]
        · exact hne e
      have hj : jsonLoads s = .ok (some .null) := by
        unfold jsonLoads
        rw [hsk, scanJson_null]
        simp [skipWs_allWs hpost]
      rw [evaluate_some]
      simp only [hne', hq.1, hq.2, hlit, hj]
      rfl

/-! ## 13. `bool` -/

theorem evaluate_bool {s : Str} (h : evaluate (some s) = .ok .bool) :
    s ≠ "true".toList ∧ s ≠ "false".toList ∧
      (WsPadded s "true".toList ∨ WsPadded s "false".toList) := by
  have hs : s ≠ [] := by intro e; subst e; simp [evaluate] at h
  obtain ⟨hl, jv, pre, rest, hv, hc, hpre, hws, hsc, hrest⟩ := evaluate_ok_json h (by simp) hs
  have hjv : jv = .bool := by cases jv <;> simp [cvalOf] at hv hc ⊢
  subst hjv
  refine ⟨fun e => hl (Or.inl e), fun e => hl (Or.inr (Or.inl e)), ?_⟩
  rcases scanJson_inv hsc with ⟨x, q, hx, _⟩ | ⟨hx, _⟩ | ⟨hx, _⟩ | ⟨_, hx⟩ | ⟨t', isF', _, hx⟩ | ⟨n, hx⟩
  · simp at hx
  · simp at hx
  · simp at hx
  · rcases hx with hx | hx
    · exact Or.inl ⟨pre, rest, by rw [List.append_assoc, ← hx]; exact hpre, hws, hrest⟩
    · exact Or.inr ⟨pre, rest, by rw [List.append_assoc, ← hx]; exact hpre, hws, hrest⟩
  · cases isF' <;> simp at hx
  · simp at hx

theorem wsPadded_noWs {s t : Str} (hn : NoWs s) (h : WsPadded s t) : s = t := by
  obtain ⟨pre, post, hs, hpre, hpost⟩ := h
  have h1 : pre = [] := by
    cases pre with
    | nil => rfl
    | cons x xs =>
      have := hn x (by rw [hs]; simp)
      rw [hpre x (by simp)] at this; cases this
  have h2 : post = [] := by
    cases post with
    | nil => rfl
    | cons x xs =>
      have := hn x (by rw [hs]; simp)
      rw [hpost x (by simp)] at this; cases this
  rw [hs, h1, h2]; simp

theorem evaluate_noWs_not_bool {s : Str} (hn : NoWs s) : evaluate (some s) ≠ .ok .bool := by
  intro h
  obtain ⟨h1, h2, h3 | h3⟩ := evaluate_bool h
  · exact h1 (wsPadded_noWs hn h3)
  · exact h2 (wsPadded_noWs hn h3)

/-! ## 14. containers -/

theorem evaluate_constant_error {s : Str} (h : evaluate (some s) = .error .constant) :
    (startsWith ['"'] s ≠ endsWith ['"'] s) ∨ (∃ q, skipWs s = '[' :: q ∨ skipWs s = '{' :: q) := by
  rw [evaluate_some] at h
  split at h; · simp at h
  split at h; · rename_i hq; left; simpa using hq
  split at h; · simp at h
  split at h
  · rename_i e' hj
    injection h with h; subst h
    have := (jsonLoads_error hj).1
    simp at this
  all_goals first
    | (simp at h; done)
    | skip
  rename_i hj
  obtain ⟨pre, rest, _, _, hsc, _⟩ := jsonLoads_inv hj
  rcases scanJson_inv hsc with ⟨x, q, hx, _⟩ | ⟨_, hx⟩ | ⟨hx, _⟩ | ⟨hx, _⟩ | ⟨t', isF', _, hx⟩ | ⟨n, hx⟩
  · simp at hx
  · exact Or.inr hx
  · simp at hx
  · simp at hx
  · cases isF' <;> simp at hx
  · simp at hx

/-! ## 15. `ctype` -/

theorem ctype_eq (a : Option Str) :
    ctype a = match evaluate a with
      | .ok v => tagOf a v
      | .error e => .error e := by
  cases a with
  | none => rfl
  | some s =>
    simp only [ctype]
    cases evaluate (some s) with
    | error e => rfl
    | ok v => cases v <;> rfl

end C18
end Penman

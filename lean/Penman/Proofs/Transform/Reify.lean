/-
  Penman.Proofs.Transform.Reify — `reifyEdges` as a run of events.

  * `nodeContexts`/`appearsInverted` never raise (after fix F19), so
    `reifyEdges` is total.
  * `ReifWf`, `Unambiguous` : the decidable table conditions.
  * `Ev`, `Run` : the fold of `reifyEdges` as an inductive relation on the
    (reversed) list of events, with the exact state it produces; the
    projections of the state (triples, variables, marker lookups) are
    characterised by pure functions of the event list.
-/
import Penman.Proofs.Transform.Basic
namespace Penman

/-! ### totality of the layout diagnostics -/

theorem ite_ne_error {ε α} {c : Prop} [Decidable c] {a b : Except ε α} {e : ε}
    (h1 : c → a ≠ .error e) (h2 : ¬c → b ≠ .error e) : (if c then a else b) ≠ .error e := by
  split
  · exact h1 ‹_›
  · exact h2 ‹_›

theorem bind_ne_error {ε α β} {x : Except ε α} {f : α → Except ε β} {e : ε}
    (h1 : x ≠ .error e) (h2 : ∀ a, f a ≠ .error e) : (x >>= f) ≠ .error e := by
  cases x with
  | error e' =>
    intro h; simp only [bind, Except.bind, Except.error.injEq] at h; exact h1 (by rw [h])
  | ok a => exact h2 a

theorem except_ok_of_ne_error {ε α} {x : Except ε α} (h : ∀ e, x ≠ .error e) : ∃ a, x = .ok a := by
  cases x with
  | error e => exact absurd rfl (h e)
  | ok a => exact ⟨a, rfl⟩

theorem nodeContextsLoop_ne_error (g : Graph) (vars : List Str) (ts : List Triple)
    (stack : List (Option Str)) (e : PyErr) : nodeContextsLoop g vars ts stack ≠ .error e := by
  induction ts generalizing stack with
  | nil => simp [nodeContextsLoop]
  | cons t rest ih =>
    cases stack with
    | nil => simp [nodeContextsLoop]
    | cons top stack =>
      cases top with
      | none => simp [nodeContextsLoop]
      | some cur =>
        simp only [nodeContextsLoop]
        refine ite_ne_error (fun _ => by simp) (fun _ => ?_)
        refine ite_ne_error (fun _ => by simp) (fun _ => ?_)
        exact bind_ne_error (ih _) (fun a => by simp [pure, Except.pure])

/-- `node_contexts` never raises -/
theorem nodeContexts_ok (g : Graph) : ∃ c, nodeContexts g = .ok c :=
  except_ok_of_ne_error (fun e => nodeContextsLoop_ne_error g _ _ _ e)

/-- `appears_inverted` never raises -/
theorem appearsInverted_ok (g : Graph) (t : Triple) : ∃ b, appearsInverted g t = .ok b := by
  apply except_ok_of_ne_error
  intro e
  unfold appearsInverted
  refine ite_ne_error (fun _ => by simp) (fun _ => ?_)
  split
  · simp
  · exact bind_ne_error (nodeContextsLoop_ne_error _ _ _ _ _) (fun a => by simp [pure, Except.pure])

/-- when a triple appears inverted its target is a variable of the graph -/
theorem appearsInverted_true {g : Graph} {t : Triple} (h : appearsInverted g t = .ok true) :
    t.role ≠ CONCEPT_ROLE ∧ ∃ s, t.tgt = .str s ∧ s ∈ g.variables := by
  unfold appearsInverted at h
  split at h
  · simp at h
  · rename_i hc
    simp only [Bool.or_eq_true, decide_eq_true_eq, Bool.not_eq_eq_eq_not, Bool.not_true, not_or,
      Bool.not_eq_false] at hc
    refine ⟨hc.1, ?_⟩
    have := hc.2
    unfold Graph.isVar at this
    cases ht : t.tgt with
    | str s => rw [ht] at this; exact ⟨s, rfl, by simpa using this⟩
    | none => rw [ht] at this; simp at this
    | num x => rw [ht] at this; simp at this

/-! ### table conditions -/

theorem dereifyLoop_eq (s t : Str) (x y : Atom) (ds : List Reif) :
    dereifyLoop s t x y ds =
      (derefLookup s t ds).map (fun p => if p.1 then (y, p.2, x) else (x, p.2, y)) := by
  induction ds with
  | nil => rfl
  | cons rf rest ih =>
    simp only [dereifyLoop, derefLookup]
    split
    · rfl
    · split
      · rfl
      · exact ih

theorem derefLookup_swap {s t : Str} (h : s ≠ t) (ds : List Reif) :
    derefLookup t s ds = (derefLookup s t ds).map (fun p => (!p.1, p.2)) := by
  induction ds with
  | nil => rfl
  | cons rf rest ih =>
    simp only [derefLookup]
    by_cases a1 : rf.source = s <;> by_cases a2 : rf.target = t <;>
      by_cases a3 : rf.source = t <;> by_cases a4 : rf.target = s <;>
      first
        | (exfalso; exact h (a1.symm.trans a3))
        | (exfalso; exact h (a4.symm.trans a2))
        | simp [a1, a2, a3, a4, ih, h, Ne.symm h]

theorem derefLookup_mem {s t : Str} {ds : List Reif} {p : Bool × Str}
    (h : derefLookup s t ds = some p) : ∃ rf ∈ ds, rf.role = p.2 := by
  induction ds with
  | nil => simp [derefLookup] at h
  | cons rf r ih =>
    simp only [derefLookup] at h
    split at h
    · simp only [Option.some.injEq] at h; subst h; exact ⟨rf, by simp, rfl⟩
    · split at h
      · simp only [Option.some.injEq] at h; subst h; exact ⟨rf, by simp, rfl⟩
      · obtain ⟨rf', h1, h2⟩ := ih h
        exact ⟨rf', by simp [h1], h2⟩

/-- a successful `Model.dereify` returns the two targets (in one of the two
    orders) and the role of a table entry -/
theorem dereify_ok_spec {m : Model} {i0 f s : Triple} {r : Atom × Str × Atom}
    (hr : m.dereify i0 f s = .ok r) :
    ((r.1 = f.tgt ∧ r.2.2 = s.tgt) ∨ (r.1 = s.tgt ∧ r.2.2 = f.tgt)) ∧
      ∃ rf ∈ m.reifs, rf.role = r.2.1 := by
  unfold Model.dereify at hr
  split at hr
  · simp at hr
  · split at hr
    · simp at hr
    · simp only at hr
      split at hr
      · simp at hr
      · rw [dereifyLoop_eq] at hr
        cases hd : derefLookup f.role s.role (m.reifs.filter (·.concept = i0.tgt)) with
        | none => rw [hd] at hr; simp at hr
        | some p =>
          rw [hd] at hr
          simp only [Option.map_some, Except.ok.injEq] at hr
          subst hr
          obtain ⟨rf, hrf, hrole⟩ := derefLookup_mem hd
          refine ⟨?_, rf, (List.mem_filter.mp hrf).1, ?_⟩
          · cases p.1 <;> simp
          · cases p.1 <;> simp [hrole]

theorem find?_of_isReifiable {m : Model} {r : Str} (h : m.isReifiable r = true) :
    ∃ rf, m.reifs.find? (·.role = r) = some rf ∧ rf ∈ m.reifs ∧ rf.role = r := by
  unfold Model.isReifiable at h
  rw [List.any_eq_true] at h
  obtain ⟨x, hx, hr⟩ := h
  cases hf : m.reifs.find? (·.role = r) with
  | none =>
    rw [List.find?_eq_none] at hf
    exact absurd hr (hf x hx)
  | some rf =>
    exact ⟨rf, rfl, List.mem_of_find?_eq_some hf, by simpa using List.find?_some hf⟩

theorem isReifiable_of_find? {m : Model} {r : Str} {rf : Reif}
    (h : m.reifs.find? (·.role = r) = some rf) : m.isReifiable r = true := by
  unfold Model.isReifiable
  rw [List.any_eq_true]
  exact ⟨rf, List.mem_of_find?_eq_some h, by simpa using List.find?_some h⟩

/-! ### events -/

/-- what `reify_edges` does with one input triple -/
inductive Ev where
  | keep (t : Triple)
  | reif (t : Triple) (rf : Reif) (v : Str) (inv : Bool)

def inTriple (t : Triple) (rf : Reif) (v : Str) : Triple := ⟨v, rf.source, .str t.src⟩
def nodeTriple (rf : Reif) (v : Str) : Triple := ⟨v, CONCEPT_ROLE, rf.concept⟩
def outTriple (t : Triple) (rf : Reif) (v : Str) : Triple := ⟨v, rf.target, t.tgt⟩
/-- the triple written first (carrying `Push v`) -/
def firstTriple (t : Triple) (rf : Reif) (v : Str) (inv : Bool) : Triple :=
  if inv then outTriple t rf v else inTriple t rf v
/-- the triple written last (carrying the migrated markers) -/
def lastTriple (t : Triple) (rf : Reif) (v : Str) (inv : Bool) : Triple :=
  if inv then inTriple t rf v else outTriple t rf v

def Ev.orig : Ev → Triple
  | .keep t => t
  | .reif t _ _ _ => t

/-- the triples an event contributes, in order -/
def Ev.out : Ev → List Triple
  | .keep t => [t]
  | .reif t rf v inv => [firstTriple t rf v inv, nodeTriple rf v, lastTriple t rf v inv]

def Ev.newVar : Ev → List Str
  | .keep _ => []
  | .reif _ _ v _ => [v]

/-- the reified original triple of an event, if any -/
def Ev.reified : Ev → List Triple
  | .keep _ => []
  | .reif t _ _ _ => [t]

/-- local correctness of an event w.r.t. the model and input graph -/
def EvOk (m : Model) (g : Graph) : Ev → Prop
  | .keep t => t ∈ g.triples ∧ m.isReifiable t.role = false
  | .reif t rf _ inv => t ∈ g.triples ∧ m.reifs.find? (·.role = t.role) = some rf ∧
      appearsInverted g t = .ok inv

@[simp] theorem firstTriple_src (t rf v inv) : (firstTriple t rf v inv).src = v := by
  cases inv <;> rfl
@[simp] theorem lastTriple_src (t rf v inv) : (lastTriple t rf v inv).src = v := by
  cases inv <;> rfl
@[simp] theorem nodeTriple_src (rf v) : (nodeTriple rf v).src = v := rfl

/-! ### the step function -/

/-- the body of the loop of `reify_edges` (verbatim) -/
def reifyStep (m : Model) (g : Graph) (st : RState) (t : Triple) : Except PyErr RState :=
    if m.isReifiable t.role then do
      let (inT, nodeT, outT) ← m.reify t st.vars
      let inv ← appearsInverted g t
      let (inT, outT) := if inv then (outT, inT) else (inT, outT)
      let var := nodeT.src
      let ep := st.epidata.set inT [.push var]
      let old := (AList.get? ep t).getD []
      let ep := ep.erase t
      let (nodeEpis, outEpis) := edgeMarkers old
      let ep := (ep.set nodeT nodeEpis).set outT outEpis
      pure { vars := var :: st.vars, epidata := ep, triples := outT :: nodeT :: inT :: st.triples }
    else pure { st with triples := t :: st.triples }

theorem reifyEdges_eq (m : Model) (g : Graph) :
    reifyEdges m g = (do
      let st ← g.triples.foldlM (reifyStep m g)
        { vars := g.variables, epidata := g.epidata, triples := [] }
      pure (Graph.mk' st.triples.reverse g.getTop st.epidata g.metadata)) := rfl

/-- the state after reifying `t` with reification `rf` and orientation `inv` -/
def reifSt (st : RState) (t : Triple) (rf : Reif) (inv : Bool) : RState :=
  let v := freshVar st.vars
  let a := firstTriple t rf v inv
  let n := nodeTriple rf v
  let b := lastTriple t rf v inv
  let ep1 := st.epidata.set a [.push v]
  let old := (AList.get? ep1 t).getD []
  let ep2 := ep1.erase t
  { vars := v :: st.vars,
    epidata := (ep2.set n (edgeMarkers old).1).set b (edgeMarkers old).2,
    triples := b :: n :: a :: st.triples }

theorem reifyStep_reif {m : Model} {g : Graph} {st : RState} {t : Triple} {rf : Reif} {inv : Bool}
    (hf : m.reifs.find? (·.role = t.role) = some rf) (hi : appearsInverted g t = .ok inv) :
    reifyStep m g st t = .ok (reifSt st t rf inv) := by
  have hr := isReifiable_of_find? hf
  unfold reifyStep
  rw [if_pos hr]
  simp only [Model.reify, hf, hi, bind, Except.bind, pure, Except.pure]
  cases inv <;> rfl

theorem reifyStep_keep {m : Model} {g : Graph} {st : RState} {t : Triple}
    (hr : m.isReifiable t.role = false) :
    reifyStep m g st t = .ok { st with triples := t :: st.triples } := by
  unfold reifyStep
  simp [hr, pure, Except.pure]

/-! ### runs -/

/-- The loop of `reify_edges` as a relation between the list of events so far
    (latest first) and the loop state. -/
inductive Run (m : Model) (g : Graph) : List Ev → RState → Prop
  | nil : Run m g [] ⟨g.variables, g.epidata, []⟩
  | keep {rev st} (t : Triple) : Run m g rev st → t ∈ g.triples → m.isReifiable t.role = false →
      Run m g (.keep t :: rev) { st with triples := t :: st.triples }
  | reif {rev st} (t : Triple) (rf : Reif) (inv : Bool) : Run m g rev st → t ∈ g.triples →
      m.reifs.find? (·.role = t.role) = some rf → appearsInverted g t = .ok inv →
      Run m g (.reif t rf (freshVar st.vars) inv :: rev) (reifSt st t rf inv)

theorem run_fold (m : Model) (g : Graph) : ∀ (l : List Triple) (rev : List Ev) (st : RState),
    (∀ t ∈ l, t ∈ g.triples) → Run m g rev st →
    ∃ rev' st', Run m g rev' st' ∧ rev'.reverse.map Ev.orig = rev.reverse.map Ev.orig ++ l ∧
      l.foldlM (reifyStep m g) st = .ok st'
  | [], rev, st, _, hr => ⟨rev, st, hr, by simp, rfl⟩
  | t :: l, rev, st, hl, hr => by
    by_cases hre : m.isReifiable t.role = true
    · obtain ⟨rf, hf, _, _⟩ := find?_of_isReifiable hre
      obtain ⟨inv, hi⟩ := appearsInverted_ok g t
      obtain ⟨rev', st', h1, h2, h3⟩ := run_fold m g l _ _ (fun x hx => hl x (by simp [hx]))
        (Run.reif t rf inv hr (hl t (by simp)) hf hi)
      refine ⟨rev', st', h1, ?_, ?_⟩
      · rw [h2]; simp [Ev.orig]
      · simp only [List.foldlM, bind, Except.bind, reifyStep_reif hf hi]; exact h3
    · have hre' : m.isReifiable t.role = false := by simpa using hre
      obtain ⟨rev', st', h1, h2, h3⟩ := run_fold m g l _ _ (fun x hx => hl x (by simp [hx]))
        (Run.keep t hr (hl t (by simp)) hre')
      refine ⟨rev', st', h1, ?_, ?_⟩
      · rw [h2]; simp [Ev.orig]
      · simp only [List.foldlM, bind, Except.bind, reifyStep_keep hre']; exact h3

/-- `reify_edges` never raises, and its result is described by a run. -/
theorem reifyEdges_run (m : Model) (g : Graph) :
    ∃ rev st, Run m g rev st ∧ rev.reverse.map Ev.orig = g.triples ∧
      reifyEdges m g = .ok (Graph.mk' st.triples.reverse g.getTop st.epidata g.metadata) := by
  obtain ⟨rev, st, h1, h2, h3⟩ := run_fold m g g.triples [] _ (fun _ h => h) Run.nil
  refine ⟨rev, st, h1, by simpa using h2, ?_⟩
  rw [reifyEdges_eq]
  simp only [h3, bind, Except.bind, pure, Except.pure]

/-! ### projections of a run -/

theorem run_triples {m g rev st} (h : Run m g rev st) :
    st.triples.reverse = rev.reverse.flatMap Ev.out := by
  induction h with
  | nil => rfl
  | keep t _ _ _ ih => simp [ih, Ev.out]
  | reif t rf inv _ _ _ _ ih => simp [reifSt, ih, Ev.out]

theorem run_vars {m g rev st} (h : Run m g rev st) :
    st.vars = rev.flatMap Ev.newVar ++ g.variables := by
  induction h with
  | nil => rfl
  | keep t _ _ _ ih => simp [ih, Ev.newVar]
  | reif t rf inv _ _ _ _ ih => simp [reifSt, ih, Ev.newVar]

theorem run_vars_nodup {m g rev st} (h : Run m g rev st) : st.vars.Nodup := by
  induction h with
  | nil => exact nodup_variables g
  | keep t _ _ _ ih => exact ih
  | reif t rf inv _ _ _ _ ih =>
    simp only [reifSt, List.nodup_cons]
    exact ⟨freshVar_fresh _, ih⟩

theorem run_evOk {m g rev st} (h : Run m g rev st) : ∀ e ∈ rev, EvOk m g e := by
  induction h with
  | nil => simp
  | keep t _ ht hr ih =>
    intro e he
    rcases List.mem_cons.mp he with rfl | he
    · exact ⟨ht, hr⟩
    · exact ih e he
  | reif t rf inv _ ht hf hi ih =>
    intro e he
    rcases List.mem_cons.mp he with rfl | he
    · exact ⟨ht, hf, hi⟩
    · exact ih e he

/-- each new variable is `freshVar` of the variables existing when it was made -/
theorem run_shape {m g rev st} (h : Run m g rev st) :
    ∀ post t rf v inv pre, rev = post ++ .reif t rf v inv :: pre →
      v = freshVar (pre.flatMap Ev.newVar ++ g.variables) := by
  induction h with
  | nil => intro post t rf v inv pre h; simp at h
  | keep t0 _ _ _ ih =>
    intro post t rf v inv pre h
    cases post with
    | nil => simp at h
    | cons p post =>
      simp only [List.cons_append, List.cons.injEq] at h
      exact ih post t rf v inv pre h.2
  | reif t0 rf0 inv0 hrun _ _ _ ih =>
    intro post t rf v inv pre h
    cases post with
    | nil =>
      simp only [List.nil_append, List.cons.injEq, Ev.reif.injEq] at h
      obtain ⟨⟨_, _, hv, _⟩, hpre⟩ := h
      rw [← hv, run_vars hrun, hpre]
    | cons p post =>
      simp only [List.cons_append, List.cons.injEq] at h
      exact ih post t rf v inv pre h.2

/-! ### marker lookups of a run -/

theorem AList.get?_set {α β : Type} [DecidableEq α] (d : AList α β) (k k' : α) (v : β) :
    AList.get? (AList.set d k v) k' = if k = k' then some v else AList.get? d k' := by
  by_cases h : k = k'
  · subst h; simp [AList.get?_set_self]
  · simp [h, AList.get?_set_ne d v h]

theorem AList.get?_erase {α β : Type} [DecidableEq α] (d : AList α β) (k k' : α) :
    AList.get? (AList.erase d k) k' = if k = k' then none else AList.get? d k' := by
  by_cases h : k = k'
  · subst h; simp [AList.get?_erase_self]
  · simp [h, AList.get?_erase_ne d h]

/-- the marker lookup function after a list of events (latest first) -/
def expEp (g : Graph) : List Ev → Triple → Option (List Epi)
  | [], k => AList.get? g.epidata k
  | .keep _ :: r, k => expEp g r k
  | .reif t rf v inv :: r, k =>
    let a := firstTriple t rf v inv
    let old := ((if a = t then some [Epi.push v] else expEp g r t)).getD []
    if lastTriple t rf v inv = k then some (edgeMarkers old).2
    else if nodeTriple rf v = k then some (edgeMarkers old).1
    else if t = k then none
    else if a = k then some [.push v]
    else expEp g r k

theorem run_epidata {m g rev st} (h : Run m g rev st) :
    ∀ k, AList.get? st.epidata k = expEp g rev k := by
  induction h with
  | nil => intro k; rfl
  | keep t _ _ _ ih => intro k; exact ih k
  | reif t rf inv hrun _ _ _ ih =>
    intro k
    simp only [reifSt, expEp, AList.get?_set, AList.get?_erase, ih, run_vars hrun]

theorem run_keys_nodup {m g rev st} (h : Run m g rev st) (hg : (AList.keys g.epidata).Nodup) :
    (AList.keys st.epidata).Nodup := by
  induction h with
  | nil => exact hg
  | keep t _ _ _ ih => exact ih
  | reif t rf inv _ _ _ _ ih =>
    simp only [reifSt]
    exact AList.nodup_keys_set _ _ _ (AList.nodup_keys_set _ _ _
      (AList.nodup_keys_erase _ _ (AList.nodup_keys_set _ _ _ ih)))

end Penman

/-
  Penman.Proofs.NormalFormGraphDecoded — the graphs `interpret` returns are in DECODED NORMAL FORM:
  on a tree that is well formed for layout (`wfNodeB`, Spec/WfLayout.lean), under a model that deinverts,
  no triple of the result has an inverted role together with a variable as target (such a relation is
  deinverted by `interpret`), and every role carries its colon.
-/
import Penman.Props.C03
import Penman.Proofs.Interpret
import Penman.Spec.WfLayout
namespace Penman
namespace C20gen
open Penman.Cfg

variable (isAlpha : Char → Bool) (m : Model)

/-- decoded normal form of one triple w.r.t. the variables `vars` -/
def NormT (vars : List Str) (t : Triple) : Prop :=
  t.role.head? = some ':' ∧ ¬ (m.isRoleInverted t.role = true ∧ atomInVars vars t.tgt = true)

theorem dropEnd_length (n : Nat) (s : Str) : (dropEnd n s).length = s.length - n := by
  unfold dropEnd; simp [List.length_take]

theorem inverted_length {r : Str} (h : m.isRoleInverted r = true) : 3 ≤ r.length := by
  unfold Model.isRoleInverted at h
  simp only [Bool.and_eq_true] at h
  have := List.IsSuffix.length_le (List.isSuffixOf_iff_suffix.1 h.2)
  simpa [ofStr] using this

theorem invertRole_of_inverted {r : Str} (h : m.isRoleInverted r = true) : m.invertRole r = dropEnd 3 r := by
  unfold Model.isRoleInverted at h
  unfold Model.invertRole
  simp only [Bool.and_eq_true] at h
  simp [h.1, h.2]

/-- what `roleOk` says about the core of a role: colon, not `:instance`, and if it is inverted its
    inversion is not -/
theorem roleOk_core {role core : Str} {es : List Epi} (h : roleOk isAlpha m role = true)
    (hp : processRole isAlpha role = .ok (core, es)) :
    core.head? = some ':' ∧ core ≠ CONCEPT_ROLE ∧
    (m.isRoleInverted core = true → m.isRoleInverted (m.invertRole core) = false) := by
  unfold roleOk at h
  rw [hp] at h
  simp only [Bool.and_eq_true, Bool.or_eq_true, Bool.not_eq_true', decide_eq_true_eq] at h
  obtain ⟨⟨⟨⟨h1, h2⟩, _⟩, h4⟩, _⟩ := h
  refine ⟨?_, h2, ?_⟩
  · cases core with
    | nil => simp [startsWith, List.isPrefixOf] at h1
    | cons c cs =>
      simp only [startsWith, List.isPrefixOf, Bool.and_true, beq_iff_eq] at h1
      simp [← h1]
  · intro hinv
    rcases h4 with h4 | h4
    · rw [hinv] at h4; cases h4
    · cases hi2 : m.isRoleInverted (m.invertRole core) with
      | false => rfl
      | true =>
        exfalso
        have l1 := inverted_length m hinv
        have e1 := invertRole_of_inverted m hinv
        have e2 := invertRole_of_inverted m hi2
        have : (m.invertRole (m.invertRole core)).length = core.length := by rw [h4]
        rw [e2, dropEnd_length, e1, dropEnd_length] at this
        omega

theorem concept_head : CONCEPT_ROLE.head? = some ':' := by decide

theorem normT_concept (vars : List Str) (v : Str) (a : Atom) : NormT m vars ⟨v, CONCEPT_ROLE, a⟩ := by
  refine ⟨concept_head, ?_⟩
  rintro ⟨h, _⟩
  have : m.isRoleInverted CONCEPT_ROLE = false := by
    unfold Model.isRoleInverted
    have : endsWith ofStr CONCEPT_ROLE = false := by decide
    simp [this]
  rw [this] at h; cases h

/-- the triple of an atomic branch -/
theorem normT_atom (hnoop : m.noop = false) (vars : List Str) (v core : Str) (tgt : Atom)
    (hc : core.head? = some ':')
    (hinv : m.isRoleInverted core = true → m.isRoleInverted (m.invertRole core) = false) :
    NormT m vars (if m.isRoleInverted core && atomInVars vars tgt then m.deinvert ⟨v, core, tgt⟩ else ⟨v, core, tgt⟩) := by
  by_cases hcond : (m.isRoleInverted core && atomInVars vars tgt) = true
  · rw [if_pos hcond]
    simp only [Bool.and_eq_true] at hcond
    have hd : m.deinvert ⟨v, core, tgt⟩ = m.invert ⟨v, core, tgt⟩ := by
      simp [Model.deinvert, hnoop, hcond.1]
    rw [hd]
    refine ⟨by rw [invert_role]; exact head_invertRole m _ hc, ?_⟩
    rintro ⟨h, _⟩
    rw [invert_role, hinv hcond.1] at h; cases h
  · rw [if_neg hcond]
    refine ⟨hc, ?_⟩
    rintro ⟨h1, h2⟩
    apply hcond
    simp only [] at h1 h2
    simp [h1, h2]

/-- the triple of a branch to a nested node -/
theorem normT_sub (hnoop : m.noop = false) (vars : List Str) (v core nv : Str)
    (hc : core.head? = some ':')
    (hinv : m.isRoleInverted core = true → m.isRoleInverted (m.invertRole core) = false) :
    NormT m vars (m.deinvert ⟨v, core, .str nv⟩) := by
  cases hi : m.isRoleInverted core with
  | true =>
    have hd : m.deinvert ⟨v, core, .str nv⟩ = m.invert ⟨v, core, .str nv⟩ := by
      simp [Model.deinvert, hnoop, hi]
    rw [hd]
    refine ⟨by rw [invert_role]; exact head_invertRole m _ hc, ?_⟩
    rintro ⟨h, _⟩
    rw [invert_role, hinv hi] at h; cases h
  | false =>
    have hd : m.deinvert ⟨v, core, .str nv⟩ = ⟨v, core, .str nv⟩ := by
      simp [Model.deinvert, hi]
    rw [hd]
    refine ⟨hc, ?_⟩
    rintro ⟨h, _⟩
    simp only [] at h
    rw [hi] at h; cases h

mutual
theorem normal_node (hnoop : m.noop = false) (vars : List Str) : ∀ (n : Node), wfNodeB isAlpha m n = true →
    ∀ ts es, interpretNode isAlpha m vars n = .ok (ts, es) → ∀ t ∈ ts, NormT m vars t
  | .mk v bs => by
    intro hwf ts es h t ht
    obtain ⟨var, out, rfl, hb, hcase⟩ := Interp.interpretNode_ok h
    have hout : ∀ t ∈ out.triples, NormT m vars t := by
      cases bs with
      | nil =>
        simp only [interpretBranches, Except.ok.injEq] at hb
        subst hb; intro t ht; simp at ht
      | atom role a rest =>
        by_cases hs : role = ['/']
        · subst hs
          simp only [wfNodeB, if_true, Bool.and_eq_true] at hwf
          obtain ⟨r', repis, tgt, tepis, out', h1, h2, h3, rfl⟩ := Interp.interpretBranches_atom_ok hb
          have hr' : r' = CONCEPT_ROLE := by
            simp only [processRole, if_true, Except.ok.injEq, Prod.mk.injEq] at h1
            exact h1.1.symm
          subst hr'
          intro t ht
          simp only [List.mem_cons] at ht
          rcases ht with rfl | ht
          · have hi : m.isRoleInverted CONCEPT_ROLE = false := by
              unfold Model.isRoleInverted
              have : endsWith ofStr CONCEPT_ROLE = false := by decide
              simp [this]
            simp only [hi, Bool.false_and, Bool.false_eq_true, if_false]
            exact normT_concept m vars var tgt
          · exact normal_branches hnoop vars var rest hwf.2 out' h3 t ht
        · simp only [wfNodeB, hs, if_false] at hwf
          exact normal_branches hnoop vars var _ hwf out hb
      | sub role n rest =>
        simp only [wfNodeB] at hwf
        exact normal_branches hnoop vars var _ hwf out hb
    rcases hcase with ⟨_, rfl, _⟩ | ⟨_, rfl, _⟩
    · exact hout t ht
    · simp only [List.mem_cons] at ht
      rcases ht with rfl | ht
      · exact normT_concept m vars var .none
      · exact hout t ht
theorem normal_branches (hnoop : m.noop = false) (vars : List Str) (var : Str) : ∀ (bs : Branches),
    wfBranchesB isAlpha m var bs = true →
    ∀ out, interpretBranches isAlpha m vars var bs = .ok out → ∀ t ∈ out.triples, NormT m vars t
  | .nil => by
    intro _ out h t ht
    simp only [interpretBranches, Except.ok.injEq] at h
    subst h; simp at ht
  | .atom role a rest => by
    intro hwf out h t ht
    simp only [wfBranchesB, Bool.and_eq_true] at hwf
    obtain ⟨⟨⟨hro, _⟩, _⟩, hrest⟩ := hwf
    obtain ⟨r', repis, tgt, tepis, out', h1, h2, h3, rfl⟩ := Interp.interpretBranches_atom_ok h
    obtain ⟨c1, _, c3⟩ := roleOk_core isAlpha m hro h1
    simp only [List.mem_cons] at ht
    rcases ht with rfl | ht
    · exact normT_atom m hnoop vars var r' tgt c1 c3
    · exact normal_branches hnoop vars var rest hrest out' h3 t ht
  | .sub role n rest => by
    intro hwf out h t ht
    simp only [wfBranchesB, Bool.and_eq_true] at hwf
    obtain ⟨⟨hro, hn⟩, hrest⟩ := hwf
    obtain ⟨r', repis, nv, nts, nes, out', h1, h0, h2, h3, rfl⟩ := Interp.interpretBranches_sub_ok h
    obtain ⟨c1, _, c3⟩ := roleOk_core isAlpha m hro h1
    simp only [List.cons_append, List.mem_cons, List.mem_append] at ht
    rcases ht with rfl | ht | ht
    · exact normT_sub m hnoop vars var r' nv c1 c3
    · exact normal_node hnoop vars n hn nts nes h2 t ht
    · exact normal_branches hnoop vars var rest hrest out' h3 t ht
end

/-- **decoded graphs are in decoded normal form**: no triple of `interpret t` has an inverted role
    together with a variable of the tree as target -/
theorem interpret_normal (hnoop : m.noop = false) {t : Tree} {g : Graph} (hwf : wfNodeB isAlpha m t.node = true)
    (h : interpret isAlpha m t = .ok g) :
    ∀ x ∈ g.triples, ¬ (m.isRoleInverted x.role = true ∧ atomInVars t.node.vars x.tgt = true) := by
  unfold interpret at h
  cases hi : interpretNode isAlpha m t.node.vars t.node with
  | error e => simp [hi, bind, Except.bind] at h
  | ok r =>
    obtain ⟨ts, es⟩ := r
    simp only [hi, bind, Except.bind, pure, Except.pure, Except.ok.injEq] at h
    subst h
    intro x hx
    simp only [Graph.mk', List.mem_map] at hx
    obtain ⟨y, hy, rfl⟩ := hx
    obtain ⟨n1, n2⟩ := normal_node isAlpha m hnoop t.node.vars t.node hwf ts es hi y hy
    simp only [ensureColon_of_head n1]
    exact n2

end C20gen
end Penman

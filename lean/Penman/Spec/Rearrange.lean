/-
  Penman.Spec.Rearrange — the specification vocabulary for property C05a
  (`rearrange`): the shape of sort keys, the comparison used for sorting, the
  "same branches up to order" relation `NodePerm`, the "sorted at every node"
  predicate `NodeSorted`, and `popless` (epidata without `POP` markers).
  Definitions only; the lemmas are in `Penman/Proofs/Rearrange*.lean`.
-/
import Penman.Layout
namespace Penman

/-! ### sort keys -/

/-- the constructor of a key component (`bool`, `str` or `int` in Python) -/
def KV.tag : KV → Nat
  | .b _ => 0 | .s _ => 1 | .n _ => 2

/-- the shape of a key: the component types in order. Python compares key
    lists of equal shape only (the same `key` functions are applied to all roles). -/
def kvShape (k : List KV) : List Nat := k.map KV.tag

/-- the comparison used by `sortBranches` -/
def branchLe (m : Model) (vars : List Str) (key : Option (List KeyFn)) (a b : Branch) : Bool :=
  kvLe (branchKey m vars key a) (branchKey m vars key b)

/-! ### the part of a branch list that is sorted -/

/-- the leading `/` branch of a branch list (alone), or nothing -/
def Branches.leading : Branches → Branches
  | .nil => .nil
  | .atom r a _ => if r = ['/'] then .atom r a .nil else .nil
  | .sub r n _ => if r = ['/'] then .sub r n .nil else .nil

/-- the part of a branch list that `rearrange` sorts: everything after a
    leading `/` branch, or everything if the first branch is not `/` -/
def Branches.sortedPart : Branches → Branches
  | .nil => .nil
  | .atom r a rest => if r = ['/'] then rest else .atom r a rest
  | .sub r n rest => if r = ['/'] then rest else .sub r n rest

/-- `rearrange` applied to one branch: nested nodes are rearranged -/
def rearrangeBranch (m : Model) (vars : List Str) (key : Option (List KeyFn)) : Branch → Branch
  | (r, .atom a) => (r, .atom a)
  | (r, .node n) => (r, .node (rearrangeNode m vars key n))

/-! ### same branches up to order, recursively -/

mutual
/-- `NodePerm n n'`: same variable, and the branches of `n'` are a permutation
    of the branches of `n` after relating them pointwise by `BranchesRel`. -/
inductive NodePerm : Node → Node → Prop
  | mk {v : Option Str} {bs mid bs' : Branches} :
      BranchesRel bs mid → mid.toList.Perm bs'.toList → NodePerm (.mk v bs) (.mk v bs')
/-- pointwise: same role, equal atoms, nested nodes related by `NodePerm` -/
inductive BranchesRel : Branches → Branches → Prop
  | nil : BranchesRel .nil .nil
  | atom {r : Str} {a : Atom} {rest rest' : Branches} :
      BranchesRel rest rest' → BranchesRel (.atom r a rest) (.atom r a rest')
  | sub {r : Str} {n n' : Node} {rest rest' : Branches} :
      NodePerm n n' → BranchesRel rest rest' → BranchesRel (.sub r n rest) (.sub r n' rest')
end

/-! ### sorted at every node -/

mutual
/-- the sorted part of every node (except inside a leading `/` branch, which
    `rearrange` does not enter) is sorted for `le` -/
inductive NodeSorted (le : Branch → Branch → Bool) : Node → Prop
  | mk {v : Option Str} {bs : Branches} :
      bs.sortedPart.toList.Pairwise (fun a b => le a b = true) → KidsSorted le bs.sortedPart →
      NodeSorted le (.mk v bs)
inductive KidsSorted (le : Branch → Branch → Bool) : Branches → Prop
  | nil : KidsSorted le .nil
  | atom {r : Str} {a : Atom} {rest : Branches} : KidsSorted le rest → KidsSorted le (.atom r a rest)
  | sub {r : Str} {n : Node} {rest : Branches} : NodeSorted le n → KidsSorted le rest →
      KidsSorted le (.sub r n rest)
end

/-! ### epidata up to `POP` -/

/-- epidata with the `POP` markers removed -/
def popless (es : List (Triple × List Epi)) : List (Triple × List Epi) :=
  es.map fun p => (p.1, p.2.filter (fun e => !e.isPop))

end Penman

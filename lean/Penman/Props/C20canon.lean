import Penman.Props.C20genEvalCli
/-!
# C20 — known finding F24: `--canonicalize-roles` runs before the layout is chosen

`--canonicalize-roles` rewrites the roles of the *input* tree.  The layout that `configure` chooses afterwards
may write an edge inverted, and the inverted spelling may itself be a normalisation key of the model
(`:mod-of` ↦ `:domain`, `:domain-of` ↦ `:mod` under AMR).  The first output then contains a role that the
canonicalisation step of the second pass rewrites: the hypothesis `canonStep R = R` (`hcanon`,
`StageRun.canonFix`) of the graph-stage normal-form theorems (Props/C20gen, C20genStages, C20vars) fails, and the
command is really not idempotent there.  Both passes are evaluated on the model by the kernel; the same two
outputs were replayed on the real tool (`known_findings.json`, F24).

It needs a layout that changes between input and output: here `--dereify-edges` collapses `_`, which shifts the
POP markers so that `(c :mod b)` is written from `b`.
-/
namespace Penman.C20gen
open Penman Penman.NF Penman.Cfg Penman.C03Text Penman.Framing Penman.C20nf

/-- the tree the first pass prints for the witness of F24 -/
def f24Out : Tree :=
  ⟨.mk (some (s "b")) (.atom (s "/") (.str (s "alpha"))
    (.sub (s ":ARG0") (.mk (some (s "c")) (.atom (s "/") (.str (s "gamma"))
        (.sub (s ":quant") (.mk (some (s "d")) (.atom (s "/") (.str (s "alpha")) .nil)) .nil)))
    (.atom (s ":mod-of") (.str (s "c")) .nil))), []⟩

/-- the canonicalisation step does NOT fix the printed tree: `:mod-of` is a normalisation key of AMR -/
theorem F24_not_canon_fixed : canonStep amr true f24Out ≠ .ok f24Out := by
  decide +kernel

/-- **known finding F24**: `penman --amr --canonicalize-roles --dereify-edges` prints `:mod-of c` for the
    witness, and `:domain c` when that output is fed back -/
theorem F24_counterexample :
    processInput gcfg uT amr (stageOpts true none false true false (some (-1)) false)
        (s "(b / alpha :ARG0 (c / gamma :ARG1-of (_ / have-quant-91 :ARG2 (d / alpha)) :mod b))") =
      (s "(b / alpha\n   :ARG0 (c / gamma\n            :quant (d / alpha))\n   :mod-of c)\n", .ok 0) ∧
    processInput gcfg uT amr (stageOpts true none false true false (some (-1)) false)
        (s "(b / alpha\n   :ARG0 (c / gamma\n            :quant (d / alpha))\n   :mod-of c)\n") =
      (s "(b / alpha\n   :ARG0 (c / gamma\n            :quant (d / alpha))\n   :domain c)\n", .ok 0) := by
  cli_decide

end Penman.C20gen

/-
  Penman.Proofs.Transform.Encode — the results of the transformations satisfy
  the hypotheses of C06's `configure_complete`, hence they encode without error.
-/
import Penman.Proofs.Transform.Program
import Penman.Props.C06
namespace Penman

/-! ### from `Connected` to C06's reachability -/

theorem connected_cfgReach {g : Graph} (hc : Connected g) :
    ∃ t, g.getTop = some t ∧ t ∈ g.variables ∧ ∀ v ∈ g.variables, Cfg.Reach g t v := by
  obtain ⟨top, hgt, htsrc, hall⟩ := hc
  have hvar : ∀ x, IsSrc g x → x ∈ g.variables := by
    rintro x ⟨t, ht, rfl⟩; exact src_mem_variables ht
  have conv : ∀ x, Reach g top x → Cfg.Reach g top x := by
    intro x hx
    induction hx with
    | refl => exact Cfg.Reach.refl
    | step hb hadj hcs ih =>
      obtain ⟨t, ht, hr, hbc⟩ := hadj
      exact Cfg.Reach.step ih ⟨t, ht, hr, hvar _ (hb.isSrc htsrc), hvar _ hcs, hbc⟩
  refine ⟨top, hgt, getTop_mem_variables hgt, ?_⟩
  intro v hv
  rw [mem_variables] at hv
  rcases hv with ⟨t, ht, rfl⟩ | htop
  · exact conv _ (hall t ht)
  · have : g.getTop = some v := by simp [Graph.getTop, htop]
    rw [hgt] at this
    simp only [Option.some.injEq] at this
    subst this; exact Cfg.Reach.refl

theorem strTargets_pushSrcOK {g : Graph} (h : StrTargets g) : Cfg.PushSrcOK g := by
  intro t ht
  by_cases hc : t.role = CONCEPT_ROLE
  · right; left; exact hc
  · left; exact h t ht hc

/-- **a graph satisfying `EncOK` encodes**: `configure` succeeds (C06) -/
theorem encOK_configure {m : Model} {g : Graph} (h : EncOK m g) :
    ∃ T, configure m g none = .ok T := by
  obtain ⟨⟨_, _, hc⟩, hs, hn⟩ := h
  obtain ⟨t, hgt, htv, hr⟩ := connected_cfgReach hc
  exact configure_complete hn (strTargets_pushSrcOK hs) (by simpa [Cfg.topOf] using hgt) htv hr

/-! ### where the triples of the results come from -/

theorem mem_reifyResult {m : Model} {g : Graph} {rev : List Ev} {st : RState} (hm : ReifWf m)
    (hg : RolesColon g) (hrun : Run m g rev st) {t1 : Triple} (h1 : t1 ∈ (reifyResult g st).triples) :
    t1 ∈ g.triples ∨ t1.role = CONCEPT_ROLE ∨
    (∃ rf ∈ m.reifs, (t1.role = rf.source ∨ t1.role = rf.target) ∧
      ∃ t ∈ g.triples, t.role ≠ CONCEPT_ROLE ∧ (t1.tgt = .str t.src ∨ t1.tgt = t.tgt)) := by
  rw [reifyResult_triples hm hg hrun, List.mem_flatMap] at h1
  obtain ⟨e, he, h1⟩ := h1
  have hok := evOk_rev hrun e he
  cases e with
  | keep t =>
    simp only [Ev.out, List.mem_singleton] at h1
    subst h1; left; exact hok.1
  | reif t rf v inv =>
    have hre := evOk_reif hok
    have hc : t.role ≠ CONCEPT_ROLE := by
      intro h; have := hre.2.2.2; rw [h, hm.2] at this; simp at this
    simp only [Ev.out, List.mem_cons, List.not_mem_nil, or_false] at h1
    rcases h1 with rfl | rfl | rfl
    · right; right
      cases inv
      · exact ⟨rf, hre.2.1, Or.inl rfl, t, hre.1, hc, Or.inl rfl⟩
      · exact ⟨rf, hre.2.1, Or.inr rfl, t, hre.1, hc, Or.inr rfl⟩
    · right; left; rfl
    · right; right
      cases inv
      · exact ⟨rf, hre.2.1, Or.inr rfl, t, hre.1, hc, Or.inr rfl⟩
      · exact ⟨rf, hre.2.1, Or.inl rfl, t, hre.1, hc, Or.inl rfl⟩

theorem mem_dereifyResult {m : Model} {g g' : Graph} (hm : ReifWf m) (hg : RolesColon g)
    (h : dereifyEdges m g = .ok g') {t1 : Triple} (h1 : t1 ∈ g'.triples) :
    t1 ∈ g.triples ∨
    (∃ rf ∈ m.reifs, t1.role = rf.role ∧
      ∃ t ∈ g.triples, t.role ≠ CONCEPT_ROLE ∧ t1.tgt = t.tgt) := by
  rw [(dereifyEdges_ok h).1, List.mem_map] at h1
  obtain ⟨t0, h0, rfl⟩ := h1
  rw [List.mem_flatMap] at h0
  obtain ⟨t, htg, h0⟩ := h0
  unfold derOut at h0
  cases hcol : collapseOf m g t.src with
  | none =>
    rw [hcol] at h0
    simp only [List.mem_singleton] at h0
    subst h0
    left
    rw [ensureColon_of_colon (hg t0 htg)]; exact htg
  | some ag =>
    rw [hcol] at h0
    simp only at h0
    split at h0
    · simp only [List.mem_singleton] at h0
      subst h0
      right
      obtain ⟨_, _, ⟨a, b, hl, hab⟩, ⟨rf, hrf, hrole⟩, _⟩ := collapseOf_some hcol
      have hcolon : startsWith [':'] ag.dereified.role = true := by
        rw [← hrole]; exact (hm.1 rf hrf).2.2.2.2.2.2.2
      refine ⟨rf, hrf, by simp only [ensureColon_of_colon hcolon, hrole], ?_⟩
      have ha := mem_otherOf (show a ∈ otherOf g.triples t.src by rw [hl]; simp)
      have hb := mem_otherOf (show b ∈ otherOf g.triples t.src by rw [hl]; simp)
      rcases hab with ⟨_, h2⟩ | ⟨_, h2⟩
      · exact ⟨b, hb.1, hb.2.1, h2⟩
      · exact ⟨a, ha.1, ha.2.1, h2⟩
    · simp at h0

theorem mem_attrResult {g : Graph} (hg : RolesColon g) {t1 : Triple}
    (h1 : t1 ∈ (reifyAttributes g).triples) :
    t1 ∈ g.triples ∨ t1.role = CONCEPT_ROLE ∨
    (∃ t ∈ g.triples, t.role ≠ CONCEPT_ROLE ∧ t1.role = t.role ∧ ∃ v, t1.tgt = .str v) := by
  obtain ⟨evs, ho, ht, _, _, hok⟩ := reifyAttributes_triples g
  rw [ht, List.mem_map] at h1
  obtain ⟨t0, h0, rfl⟩ := h1
  rw [List.mem_flatMap] at h0
  obtain ⟨e, he, h0⟩ := h0
  cases e with
  | keep t =>
    simp only [AEv.out, List.mem_singleton] at h0
    subst h0
    left
    rw [ensureColon_of_colon (hg t0 (hok _ he).1)]; exact (hok _ he).1
  | attr t v =>
    simp only [AEv.out, List.mem_cons, List.not_mem_nil, or_false] at h0
    rcases h0 with rfl | rfl
    · right; right
      refine ⟨t, (hok _ he).1, (hok _ he).2.1, ?_, v, rfl⟩
      show ensureColon t.role = t.role
      exact ensureColon_of_colon (hg t (hok _ he).1)
    · right; left
      show ensureColon CONCEPT_ROLE = CONCEPT_ROLE
      exact ensureColon_concept

theorem mem_branchResult {m : Model} {g g' : Graph} (hct : startsWith [':'] m.topRole = true)
    (hg : RolesColon g) (h : indicateBranches m g = .ok g') {t1 : Triple} (h1 : t1 ∈ g'.triples) :
    t1 ∈ g.triples ∨ (t1.role = m.topRole ∧ ∃ v, t1.tgt = .str v) := by
  rw [(indicateBranches_ok h).1, List.mem_map] at h1
  obtain ⟨t0, h0, rfl⟩ := h1
  rw [List.mem_flatMap] at h0
  obtain ⟨t, htg, h0⟩ := h0
  rcases List.mem_append.mp h0 with h0' | h0'
  · right
    rcases branchIns_spec m g t with ⟨e0, _⟩ | ⟨e0, pv, _, hpv⟩ | ⟨s, hs, e0, _, _⟩
    · rw [e0] at h0'; simp at h0'
    · rw [e0] at h0'; simp only [List.mem_singleton] at h0'; subst h0'
      exact ⟨by simp only [ensureColon_of_colon hct], pv, hpv.symm⟩
    · rw [e0] at h0'; simp only [List.mem_singleton] at h0'; subst h0'
      exact ⟨by simp only [ensureColon_of_colon hct], t.src, rfl⟩
  · simp only [List.mem_singleton] at h0'; subst h0'
    left
    rw [ensureColon_of_colon (hg t0 htg)]; exact htg

/-! ### every step preserves `EncOK` -/

theorem step_encOK {m : Model} (hm : ReifWf m) (htr : TopRoleOk m) (hti : TableInvOK m) (x : Xf)
    (g : Graph) (he : EncOK m g) (hs : x.Side g) :
    ∃ g', x.run m g = .ok g' ∧ EncOK m g' ∧ g'.getTop = g.getTop := by
  obtain ⟨hw, hst, hn⟩ := he
  obtain ⟨g', hrun', hw', htop'⟩ := step_wfc hm htr x g hw hs
  refine ⟨g', hrun', ⟨hw', ?_, ?_⟩, htop'⟩ <;> cases x
  -- StrTargets
  · obtain ⟨rev, st, hrun, _, h⟩ := reifyEdges_result m g
    simp only [Xf.run, h, Except.ok.injEq] at hrun'
    subst hrun'
    intro t1 h1 hr1
    rcases mem_reifyResult hm hw.1 hrun h1 with h | h | ⟨_, _, _, t, ht, hr, h | h⟩
    · exact hst t1 h hr1
    · exact absurd h hr1
    · rw [h]; rfl
    · rw [h]; exact hst t ht hr
  · intro t1 h1 hr1
    rcases mem_dereifyResult hm hw.1 hrun' h1 with h | ⟨_, _, _, t, ht, hr, h⟩
    · exact hst t1 h hr1
    · rw [h]; exact hst t ht hr
  · simp only [Xf.run, Except.ok.injEq] at hrun'
    subst hrun'
    intro t1 h1 hr1
    rcases mem_attrResult hw.1 h1 with h | h | ⟨_, _, _, _, v, h⟩
    · exact hst t1 h hr1
    · exact absurd h hr1
    · rw [h]; rfl
  · intro t1 h1 hr1
    rcases mem_branchResult htr.1 hw.1 hrun' h1 with h | ⟨_, v, h⟩
    · exact hst t1 h hr1
    · rw [h]; rfl
  -- NoInstOf
  · obtain ⟨rev, st, hrun, _, h⟩ := reifyEdges_result m g
    simp only [Xf.run, h, Except.ok.injEq] at hrun'
    subst hrun'
    intro t1 h1 hr1
    rcases mem_reifyResult hm hw.1 hrun h1 with h | h | ⟨rf, hrf, h | h, _⟩
    · exact hn t1 h hr1
    · exact absurd h hr1
    · rw [h]; exact (hti.1 rf hrf).2.1
    · rw [h]; exact (hti.1 rf hrf).2.2
  · intro t1 h1 hr1
    rcases mem_dereifyResult hm hw.1 hrun' h1 with h | ⟨rf, hrf, h, _⟩
    · exact hn t1 h hr1
    · rw [h]; exact (hti.1 rf hrf).1
  · simp only [Xf.run, Except.ok.injEq] at hrun'
    subst hrun'
    intro t1 h1 hr1
    rcases mem_attrResult hw.1 h1 with h | h | ⟨t, ht, hr, h, _⟩
    · exact hn t1 h hr1
    · exact absurd h hr1
    · rw [h]; exact hn t ht hr
  · intro t1 h1 hr1
    rcases mem_branchResult htr.1 hw.1 hrun' h1 with h | ⟨h, _⟩
    · exact hn t1 h hr1
    · rw [h]; exact hti.2

theorem prog_encOK {m : Model} (hm : ReifWf m) (htr : TopRoleOk m) (hti : TableInvOK m) :
    ∀ (p : List Xf) (g : Graph), EncOK m g → SideAlong m p g →
      ∃ g', runProg m p g = .ok g' ∧ EncOK m g' ∧ g'.getTop = g.getTop
  | [], g, hw, _ => ⟨g, rfl, hw, rfl⟩
  | x :: r, g, hw, hs => by
    obtain ⟨g1, h1, hw1, ht1⟩ := step_encOK hm htr hti x g hw hs.1
    obtain ⟨g2, h2, hw2, ht2⟩ := prog_encOK hm htr hti r g1 hw1 (hs.2 g1 h1)
    refine ⟨g2, ?_, hw2, ht2.trans ht1⟩
    simp only [runProg, List.foldlM, h1, bind, Except.bind]
    exact h2

end Penman

/-
  Penman.Spec.TripleVariants — the spacing variants of the triple-conjunction notation
  `role(source, target) ^ role(…` as STRINGS: around the comma (`a,b` `a, b` `a ,b` `a , b`)
  and around the conjunction sign (any number of spaces before it; after it nothing — the caret
  is glued to the next role, `^role(` —, or an optional line feed and spaces).
  `formatTriples` (the model of `format_triples`) is the instance "`, `" with `" ^ "` or `" ^\n"`.
-/
import Penman.Format

namespace Penman.Spec
open Penman

/-- spacing around the comma -/
inductive CommaStyle where
  | glued    -- `a,b`
  | left     -- `a, b`
  | right    -- `a ,b`
  | spaced   -- `a , b`
deriving DecidableEq, Repr

def CommaStyle.text : CommaStyle → Str
  | .glued => [',']
  | .left => [',', ' ']
  | .right => [' ', ',']
  | .spaced => [' ', ',', ' ']

/-- spacing around the conjunction sign: `pre` spaces, `^`, optionally a line feed, `post` spaces -/
structure ConjStyle where
  pre : Nat
  nl : Bool
  post : Nat
deriving DecidableEq, Repr

def ConjStyle.text (j : ConjStyle) : Str :=
  List.replicate j.pre ' ' ++ '^' :: ((if j.nl then ['\n'] else []) ++ List.replicate j.post ' ')

/-- the caret is glued to the following role: `… ^role(…` -/
def ConjStyle.glued (j : ConjStyle) : Bool := !j.nl && j.post == 0

/-- one triple `role(source<comma>target)` -/
def tripleText (cs : CommaStyle) (t : Triple) : Str :=
  lstripChar ':' t.role ++ '(' :: (t.src ++ (cs.text ++
    ((match t.tgt with | .none => "None".toList | a => atomText a) ++ [')'])))

/-- a conjunction, each triple with its own comma style and the style of the conjunction
    sign that follows it (ignored for the last triple) -/
def formatTriplesV : List (Triple × CommaStyle × ConjStyle) → Str
  | [] => []
  | [(t, cs, _)] => tripleText cs t
  | (t, cs, j) :: rest => tripleText cs t ++ (j.text ++ formatTriplesV rest)

/-- the styles `format_triples` uses: `, ` and ` ^\n` (indent) or ` ^ ` -/
def stdStyle (indent : Bool) : CommaStyle × ConjStyle :=
  (.left, if indent then ⟨1, true, 0⟩ else ⟨1, false, 1⟩)

/-- what the parser returns for a triple: the role with exactly one leading colon -/
def normTriple (t : Triple) : Triple := { t with role := ':' :: lstripChar ':' t.role }

end Penman.Spec

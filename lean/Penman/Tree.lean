/-
  Penman.Tree — `penman.tree`: the tree type (cons-style mutual inductive,
  so that structural mutual recursion and induction work), node listing,
  `reset_variables`.
-/
import Penman.Basic
namespace Penman

mutual
/-- a node `(var, branches)`; `var = none` is the empty node `()` -/
inductive Node where
  | mk (var : Option Str) (bs : Branches)
/-- the branch list of a node, each branch `(role, target)` with an atomic
    target or a nested node -/
inductive Branches where
  | nil
  | atom (role : Str) (a : Atom) (rest : Branches)
  | sub (role : Str) (n : Node) (rest : Branches)
end

mutual
def Node.beq : Node → Node → Bool
  | .mk v bs, .mk v' bs' => v == v' && Branches.beq bs bs'
def Branches.beq : Branches → Branches → Bool
  | .nil, .nil => true
  | .atom r a b, .atom r' a' b' => r == r' && a == a' && Branches.beq b b'
  | .sub r n b, .sub r' n' b' => r == r' && Node.beq n n' && Branches.beq b b'
  | _, _ => false
end
instance : BEq Node := ⟨Node.beq⟩
instance : BEq Branches := ⟨Branches.beq⟩
instance : Inhabited Node := ⟨.mk none .nil⟩

def Node.var : Node → Option Str | .mk v _ => v
def Node.bs : Node → Branches | .mk _ bs => bs

/-- a non-recursive view of a branch target -/
inductive Tgt where
  | atom (a : Atom)
  | node (n : Node)

abbrev Branch := Str × Tgt

def Branches.toList : Branches → List Branch
  | .nil => []
  | .atom r a rest => (r, .atom a) :: rest.toList
  | .sub r n rest => (r, .node n) :: rest.toList

def Branches.ofList : List Branch → Branches
  | [] => .nil
  | (r, .atom a) :: rest => .atom r a (Branches.ofList rest)
  | (r, .node n) :: rest => .sub r n (Branches.ofList rest)

def Branches.append : Branches → Branches → Branches
  | .nil, c => c
  | .atom r a rest, c => .atom r a (rest.append c)
  | .sub r n rest, c => .sub r n (rest.append c)

mutual
def Node.size : Node → Nat
  | .mk _ bs => 1 + bs.size
def Branches.size : Branches → Nat
  | .nil => 1
  | .atom _ _ r => 1 + r.size
  | .sub _ n r => 1 + n.size + r.size
end

structure Tree where
  node : Node
  metadata : AList Str Str := []

mutual
/-- `Tree.nodes()` / `_nodes` : the variables of the nodes in depth-first
    order (nodes with `var = None` are skipped). We keep `(var, branches)`. -/
def Node.nodes : Node → List (Str × Branches)
  | .mk v bs => (match v with | some x => [(x, bs)] | none => []) ++ bs.nodes
def Branches.nodes : Branches → List (Str × Branches)
  | .nil => []
  | .atom _ _ rest => rest.nodes
  | .sub _ n rest => n.nodes ++ rest.nodes
end

def Node.vars (n : Node) : List Str := n.nodes.map (·.1)

/-- the concept of a branch list: target of the first `/` branch
    (`next((tgt for role, tgt in branches if role == '/'), None)`);
    a nested node there is not a `str`, so it yields no prefix. -/
def Branches.concept : Branches → Option Tgt
  | .nil => none
  | .atom r a rest => if r = ['/'] then some (.atom a) else rest.concept
  | .sub r n rest => if r = ['/'] then some (.node n) else rest.concept

/-! ### reset_variables -/

/-- one piece of a `str.format` template restricted to `{prefix}`, `{i}`, `{j}` -/
inductive FmtPiece where
  | lit (s : Str) | pre | i | j
deriving DecidableEq, Repr

abbrev Fmt := List FmtPiece

def Fmt.render (fmt : Fmt) (pre : Str) (i : Nat) : Str :=
  fmt.flatMap fun
    | .lit s => s
    | .pre => pre
    | .i => natToStr i
    | .j => if i = 0 then [] else natToStr (i + 1)

/-- does the template mention `{i}` or `{j}`? (otherwise the Python loop
    does not terminate on a collision: boundary O5) -/
def Fmt.progressive (fmt : Fmt) : Bool := fmt.any fun p => p = .i || p = .j

/-- `_default_variable_prefix` w.r.t. `isalpha`/`lower` tables -/
def defaultPrefix (isAlpha : Char → Bool) (lower : Char → Str) : Option Tgt → Str
  | some (.atom (.str s)) =>
    match s.find? isAlpha with
    | some c => lower c
    | none => ['_']
  | _ => ['_']

/-- the `while newvar is None or newvar in used` loop; `none` = fuel ran out -/
def pickVar (fmt : Fmt) (pre : Str) (used : List Str) : Nat → Nat → Option Str
  | 0, _ => none
  | f+1, i =>
    let v := fmt.render pre i
    if v ∈ used then pickVar fmt pre used f (i+1) else some v

/-- first pass of `reset_variables`: the old→new map, in DFS order -/
def buildVarmap (isAlpha : Char → Bool) (lower : Char → Str) (fmt : Fmt) :
    List (Str × Branches) → AList Str Str → List Str → Option (AList Str Str)
  | [], vm, _ => some vm
  | (v, bs) :: rest, vm, used =>
    if AList.contains vm v then buildVarmap isAlpha lower fmt rest vm used
    else
      let pre := defaultPrefix isAlpha lower bs.concept
      -- without `{i}`/`{j}` a single collision loops forever
      match pickVar fmt pre used (if fmt.progressive then used.length + 1 else 1) 0 with
      | none => none
      | some nv => buildVarmap isAlpha lower fmt rest (vm ++ [(v, nv)]) (nv :: used)

mutual
/-- `_map_vars` (after fix F7: a reference may carry an alignment) -/
def Node.mapVars (vm : AList Str Str) : Node → Except PyErr Node
  | .mk v bs => do
    let bs' ← bs.mapVars vm
    match v with
    | some x => match AList.get? vm x with
      | some nv => pure (.mk (some nv) bs')
      | none => throw (.other "KeyError")
    | none => throw (.other "KeyError")
def Branches.mapVars (vm : AList Str Str) : Branches → Except PyErr Branches
  | .nil => pure .nil
  | .atom r a rest => do
    let rest' ← rest.mapVars vm
    let a' := match a with
      | .str s =>
        if r ≠ ['/'] then
          let p := partitionStr ['~'] s
          match AList.get? vm p.1 with
          | some nv => Atom.str (nv ++ (if p.2.1 then ['~'] else []) ++ p.2.2)
          | none => a
        else a
      | _ => a
    pure (.atom r a' rest')
  | .sub r n rest => do
    let n' ← n.mapVars vm
    let rest' ← rest.mapVars vm
    pure (.sub r n' rest')
end

/-- `Tree.reset_variables(fmt)`; `.unmodelled` = the Python loop would hang -/
def Node.resetVariables (isAlpha : Char → Bool) (lower : Char → Str) (fmt : Fmt) (n : Node) : Except PyErr Node :=
  match buildVarmap isAlpha lower fmt n.nodes [] [] with
  | none => .error (.unmodelled "reset_variables does not terminate")
  | some vm => n.mapVars vm

end Penman

/-
  Penman.Proofs.Layout1 — generic lemmas for C02: association lists,
  fuel irrelevance of `configureNode`, the marker scan `preconfEpis`, and the
  pairwise view `preDataP` of `preconfigure`.
-/
import Penman.Spec.WfLayout
namespace Penman
namespace C02

/-! ### association lists -/
section AL
variable {α β : Type} [DecidableEq α]

theorem get?_set_same (c : AList α β) (k : α) (v : β) : AList.get? (AList.set c k v) k = some v := by
  induction c with
  | nil => simp [AList.set, AList.get?]
  | cons p r ih =>
    obtain ⟨k', v'⟩ := p
    by_cases h : k' = k
    · subst h; simp [AList.set, AList.get?]
    · simp only [AList.set, h, if_false]
      simp only [AList.get?] at ih ⊢
      simp [List.find?, h, ih]

theorem get?_set_other (c : AList α β) (k w : α) (v : β) (hw : w ≠ k) :
    AList.get? (AList.set c k v) w = AList.get? c w := by
  induction c with
  | nil => simp [AList.set, AList.get?, Ne.symm hw]
  | cons p r ih =>
    obtain ⟨k', v'⟩ := p
    by_cases h : k' = k
    · subst h; simp [AList.set, AList.get?, List.find?, Ne.symm hw]
    · simp only [AList.set, h, if_false]
      simp only [AList.get?] at ih ⊢
      by_cases h2 : k' = w
      · simp [List.find?, h2]
      · simp [List.find?, h2, ih]

theorem get?_cons (k' : α) (v' : β) (r : AList α β) (k : α) :
    AList.get? ((k', v') :: r) k = if k' = k then some v' else AList.get? r k := by
  by_cases h : k' = k <;> simp [AList.get?, List.find?, h]

theorem get?_append_left (l r : AList α β) (k : α) (h : k ∈ AList.keys l) :
    AList.get? (l ++ r) k = AList.get? l k := by
  induction l with
  | nil => simp [AList.keys] at h
  | cons p l ih =>
    obtain ⟨k', v'⟩ := p
    simp only [List.cons_append, get?_cons]
    by_cases hk : k' = k
    · simp [hk]
    · simp only [hk, if_false]
      apply ih
      simp only [AList.keys, List.map_cons, List.mem_cons] at h
      rcases h with h | h
      · exact absurd h.symm hk
      · exact h

theorem get?_append_right (l r : AList α β) (k : α) (h : k ∉ AList.keys l) :
    AList.get? (l ++ r) k = AList.get? r k := by
  induction l with
  | nil => rfl
  | cons p l ih =>
    obtain ⟨k', v'⟩ := p
    simp only [AList.keys, List.map_cons, List.mem_cons, not_or] at h
    simp only [List.cons_append, get?_cons]
    have hk : ¬ k' = k := fun e => h.1 e.symm
    simp only [hk, if_false]
    exact ih h.2

theorem set_append_left (l r : AList α β) (k : α) (v : β) (h : k ∈ AList.keys l) :
    AList.set (l ++ r) k v = AList.set l k v ++ r := by
  induction l with
  | nil => simp [AList.keys] at h
  | cons p l ih =>
    obtain ⟨k', v'⟩ := p
    by_cases hk : k' = k
    · simp [AList.set, hk]
    · simp only [List.cons_append, AList.set, hk, if_false, List.cons.injEq, true_and]
      apply ih
      simp only [AList.keys, List.map_cons, List.mem_cons] at h
      rcases h with h | h
      · exact absurd h.symm hk
      · exact h

theorem set_append_right (l r : AList α β) (k : α) (v : β) (h : k ∉ AList.keys l) :
    AList.set (l ++ r) k v = l ++ AList.set r k v := by
  induction l with
  | nil => rfl
  | cons p l ih =>
    obtain ⟨k', v'⟩ := p
    simp only [AList.keys, List.map_cons, List.mem_cons, not_or] at h
    have hk : ¬ k' = k := fun e => h.1 e.symm
    simp only [List.cons_append, AList.set, hk, if_false, List.cons.injEq, true_and]
    exact ih h.2

theorem set_new (l : AList α β) (k : α) (v : β) (h : k ∉ AList.keys l) :
    AList.set l k v = l ++ [(k, v)] := by
  have := set_append_right l [] k v h
  simpa [AList.set] using this

theorem set_set (l : AList α β) (k : α) (v v' : β) :
    AList.set (AList.set l k v) k v' = AList.set l k v' := by
  induction l with
  | nil => simp [AList.set]
  | cons p l ih =>
    obtain ⟨k', w⟩ := p
    by_cases hk : k' = k
    · simp [AList.set, hk]
    · simp [AList.set, hk, ih]

theorem keys_set_mem (l : AList α β) (k : α) (v : β) (h : k ∈ AList.keys l) :
    AList.keys (AList.set l k v) = AList.keys l := by
  induction l with
  | nil => simp [AList.keys] at h
  | cons p l ih =>
    obtain ⟨k', w⟩ := p
    by_cases hk : k' = k
    · simp [AList.set, hk, AList.keys]
    · simp only [AList.set, hk, if_false, AList.keys, List.map_cons, List.cons.injEq, true_and]
      apply ih
      simp only [AList.keys, List.map_cons, List.mem_cons] at h
      rcases h with h | h
      · exact absurd h.symm hk
      · exact h

theorem get?_of_mem_nodup {l : AList α β} (hn : (AList.keys l).Nodup) {k : α} {v : β} (h : (k, v) ∈ l) :
    AList.get? l k = some v := by
  induction l with
  | nil => simp at h
  | cons p l ih =>
    obtain ⟨k', v'⟩ := p
    simp only [AList.keys, List.map_cons, List.nodup_cons] at hn
    simp only [List.mem_cons, Prod.mk.injEq] at h
    rw [get?_cons]
    rcases h with ⟨h1, h2⟩ | h
    · simp [h1, h2]
    · have : ¬ k' = k := by
        intro e; subst e
        exact hn.1 (List.mem_map.2 ⟨(k', v), h, rfl⟩)
      simp only [this, if_false]
      exact ih hn.2 h

theorem ofList_aux (l acc : AList α β) (h : (AList.keys acc ++ AList.keys l).Nodup) :
    l.foldl (fun d p => d.set p.1 p.2) acc = acc ++ l := by
  induction l generalizing acc with
  | nil => simp
  | cons p l ih =>
    obtain ⟨k, v⟩ := p
    simp only [List.foldl_cons]
    have hk : k ∉ AList.keys acc := by
      intro hm
      simp only [AList.keys, List.map_cons] at h
      have := (List.nodup_append.1 h).2.2 k hm k (by simp)
      exact this rfl
    rw [set_new acc k v hk, ih]
    · simp
    · simp only [AList.keys, List.map_append, List.map_cons, List.map_nil] at h ⊢
      simpa using h

theorem ofList_nodup (l : AList α β) (h : (AList.keys l).Nodup) : AList.ofList l = l := by
  have := ofList_aux l [] (by simpa [AList.keys] using h)
  simpa [AList.ofList] using this

end AL

theorem epimapOf_nodup (l : List (Triple × List Epi)) (h : (l.map (·.1)).Nodup) : epimapOf l = l := by
  induction l with
  | nil => rfl
  | cons p l ih =>
    obtain ⟨t, e⟩ := p
    simp only [List.map_cons, List.nodup_cons] at h
    simp only [epimapOf, ih h.2, List.cons.injEq, true_and]
    apply List.filter_eq_self.2
    intro q hq
    simp only [ne_eq, decide_not, Bool.not_eq_eq_eq_not, Bool.not_true, decide_eq_false_iff_not]
    intro e; exact h.1 (e ▸ List.mem_map.2 ⟨q, hq, rfl⟩)

/-! ### `configureNode`: consumed data is a prefix; fuel irrelevance -/

theorem cn_suffix (m : Model) : ∀ f var data st s, (configureNode m f var data st s).1 <:+ data := by
  intro f var data st s
  fun_induction configureNode m f var data st s <;>
    first
    | exact List.suffix_refl _
    | exact List.suffix_cons _ _
    | (rename_i ih; exact ih.trans (List.suffix_cons _ _))
    | (rename_i ih1 ih2; exact (ih2.trans ih1).trans (List.suffix_cons _ _))

theorem cn_length_le (m : Model) (f var data st s) :
    (configureNode m f var data st s).1.length ≤ data.length :=
  (cn_suffix m f var data st s).length_le

/-- fuel irrelevance: any two fuels above `data.length` give the same result -/
theorem cn_fuel (m : Model) : ∀ f f' var data st s, data.length < f → data.length < f' →
    configureNode m f var data st s = configureNode m f' var data st s := by
  intro f
  induction f with
  | zero => intro f' var data st s h; omega
  | succ f ih =>
    intro f' var data st s h h'
    cases f' with
    | zero => omega
    | succ f' =>
      cases data with
      | nil => simp [configureNode]
      | cons d data =>
        cases d with
        | pop => simp [configureNode]
        | t tr push epis =>
          simp only [List.length_cons] at h h'
          have hl : data.length < f := by omega
          have hl' : data.length < f' := by omega
          simp only [configureNode]
          split
          · rfl
          · split
            · split
              · exact ih _ _ _ _ _ hl hl'
              · exact ih _ _ _ _ _ hl hl'
            · split
              · rename_i v _
                have e1 := ih f' v data (st.newCell v) false hl hl'
                rw [e1]
                have := cn_length_le m f' v data (st.newCell v) false
                exact ih _ _ _ _ _ (by omega) (by omega)
              · exact ih _ _ _ _ _ hl hl'

/-! ### the marker scan -/

/-- alignment markers (mode 1 or 2) are passed through in order -/
theorem preconfEpis_aln (m : Model) (orig : Triple) (A rest : List Epi) (hA : ∀ e ∈ A, e.isLayout = false)
    (tr : Triple) (push : Bool) (acc : List Epi) (pops : Nat) (pushed : List Str) :
    preconfEpis m orig (A ++ rest) tr push acc pops pushed =
      preconfEpis m orig rest tr push (A.reverse ++ acc) pops pushed := by
  induction A generalizing acc with
  | nil => rfl
  | cons e A ih =>
    have he := hA e (by simp)
    have hA' : ∀ e ∈ A, e.isLayout = false := fun x hx => hA x (List.mem_cons_of_mem _ hx)
    cases e with
    | push v => simp [Epi.isLayout] at he
    | pop => simp [Epi.isLayout] at he
    | roleAln p i => simp only [List.cons_append, preconfEpis, ih hA']; simp
    | aln p i => simp only [List.cons_append, preconfEpis, ih hA']; simp

/-- one more `POP` at the end of the marker list is one more pop -/
theorem preconfEpis_snoc_pop (m : Model) (orig : Triple) (es : List Epi)
    (tr : Triple) (push : Bool) (acc : List Epi) (pops : Nat) (pushed : List Str)
    {tr' : Triple} {push' : Bool} {epis : List Epi} {pops' : Nat} {pushed' : List Str}
    (h : preconfEpis m orig es tr push acc pops pushed = .ok (tr', push', epis, pops', pushed')) :
    preconfEpis m orig (es ++ [.pop]) tr push acc pops pushed = .ok (tr', push', epis, pops' + 1, pushed') := by
  induction es generalizing tr push acc pops pushed with
  | nil =>
    simp only [preconfEpis, Except.ok.injEq, Prod.mk.injEq] at h
    obtain ⟨h1, h2, h3, h4, h5⟩ := h
    simp [preconfEpis, h1, h2, h3, h4, h5]
  | cons e es ih =>
    cases e with
    | pop => simp only [List.cons_append, preconfEpis] at h ⊢; exact ih _ _ _ _ _ h
    | roleAln p i => simp only [List.cons_append, preconfEpis] at h ⊢; exact ih _ _ _ _ _ h
    | aln p i => simp only [List.cons_append, preconfEpis] at h ⊢; exact ih _ _ _ _ _ h
    | push v =>
      simp only [List.cons_append, preconfEpis] at h ⊢
      split at h
      · rename_i h1; simp only [h1, if_true]; exact ih _ _ _ _ _ h
      · rename_i h1
        simp only [h1, if_false]
        split at h
        · rename_i h2; simp only [h2, if_true]; exact ih _ _ _ _ _ h
        · rename_i h2
          simp only [h2, if_false]
          split at h
          · rename_i h3
            subst h3
            simp only [if_true]
            cases htg : tr.tgt with
            | str s => simp only [htg] at h ⊢; exact ih _ _ _ _ _ h
            | none => simp [htg] at h
            | num s => simp [htg] at h
          · rename_i h3; simp only [h3, if_false]; exact ih _ _ _ _ _ h

/-! ### `preconfigure` as a walk over the (triple, markers) pairs -/

/-- `_preconfigure` reading the markers from the pairs themselves; also returns `pushed` -/
def preDataP (m : Model) : List (Triple × List Epi) → List Str → Except PyErr (List Datum × List Str)
  | [], pushed => .ok ([], pushed)
  | (tr, es) :: rest, pushed =>
    match preconfEpis m tr es tr false [] 0 pushed with
    | .error e => .error e
    | .ok (tr', push, epis, pops, pushed') =>
      match preDataP m rest pushed' with
      | .error e => .error e
      | .ok (more, p) => .ok (Datum.t tr' push epis :: List.replicate pops Datum.pop ++ more, p)

theorem preconfigure_eq (m : Model) (E : Epidata) (L : List (Triple × List Epi))
    (hL : ∀ p ∈ L, AList.get? E p.1 = some p.2) (pushed : List Str)
    {d : List Datum} {p : List Str} (h : preDataP m L pushed = .ok (d, p)) :
    preconfigure m E (L.map (·.1)) pushed = .ok d := by
  induction L generalizing pushed d p with
  | nil => simp only [preDataP, Except.ok.injEq, Prod.mk.injEq] at h; simp [preconfigure, h.1]
  | cons q L ih =>
    obtain ⟨tr, es⟩ := q
    have hq := hL (tr, es) (by simp)
    simp only at hq
    simp only [preDataP] at h
    simp only [List.map_cons, preconfigure, hq, Option.getD_some]
    cases hp : preconfEpis m tr es tr false [] 0 pushed with
    | error e => simp [hp] at h
    | ok r =>
      obtain ⟨tr', push, epis, pops, pushed'⟩ := r
      simp only [hp] at h
      cases hr : preDataP m L pushed' with
      | error e => simp [hr] at h
      | ok r2 =>
        obtain ⟨more, p2⟩ := r2
        simp only [hr, Except.ok.injEq, Prod.mk.injEq] at h
        have := ih (fun x hx => hL x (List.mem_cons_of_mem _ hx)) pushed' hr
        simp only [bind, Except.bind, this]
        rw [← h.1]; rfl

theorem preDataP_append (m : Model) (L1 L2 : List (Triple × List Epi)) (pushed : List Str)
    {d1 d2 : List Datum} {p1 p2 : List Str}
    (h1 : preDataP m L1 pushed = .ok (d1, p1)) (h2 : preDataP m L2 p1 = .ok (d2, p2)) :
    preDataP m (L1 ++ L2) pushed = .ok (d1 ++ d2, p2) := by
  induction L1 generalizing pushed d1 with
  | nil =>
    simp only [preDataP, Except.ok.injEq, Prod.mk.injEq] at h1
    obtain ⟨rfl, rfl⟩ := h1
    simpa using h2
  | cons q L ih =>
    obtain ⟨tr, es⟩ := q
    simp only [preDataP, List.cons_append] at h1 ⊢
    cases hp : preconfEpis m tr es tr false [] 0 pushed with
    | error e => simp [hp] at h1
    | ok r =>
      obtain ⟨tr', push, epis, pops, pushed'⟩ := r
      simp only [hp] at h1 ⊢
      cases hr : preDataP m L pushed' with
      | error e => simp [hr] at h1
      | ok r2 =>
        obtain ⟨more, p⟩ := r2
        simp only [hr, Except.ok.injEq, Prod.mk.injEq] at h1
        obtain ⟨rfl, rfl⟩ := h1
        rw [ih pushed' hr]
        simp

theorem preDataP_pop (m : Model) (L : List (Triple × List Epi)) (hne : L ≠ []) (pushed : List Str)
    {d : List Datum} {p : List Str} (h : preDataP m L pushed = .ok (d, p)) :
    preDataP m (appendPopLast L) pushed = .ok (d ++ [.pop], p) := by
  induction L generalizing pushed d with
  | nil => exact absurd rfl hne
  | cons q L ih =>
    obtain ⟨tr, es⟩ := q
    cases L with
    | nil =>
      simp only [preDataP, appendPopLast] at h ⊢
      cases hp : preconfEpis m tr es tr false [] 0 pushed with
      | error e => simp [hp] at h
      | ok r =>
        obtain ⟨tr', push, epis, pops, pushed'⟩ := r
        simp only [hp, Except.ok.injEq, Prod.mk.injEq] at h
        obtain ⟨rfl, rfl⟩ := h
        rw [preconfEpis_snoc_pop m tr es tr false [] 0 pushed hp]
        simp [List.replicate_succ']
    | cons q2 L2 =>
      simp only [appendPopLast]
      rw [preDataP] at h
      cases hp : preconfEpis m tr es tr false [] 0 pushed with
      | error e => simp [hp] at h
      | ok r =>
        obtain ⟨tr', push, epis, pops, pushed'⟩ := r
        simp only [hp] at h
        cases hr : preDataP m (q2 :: L2) pushed' with
        | error e => simp [hr] at h
        | ok r2 =>
          obtain ⟨more, p2⟩ := r2
          simp only [hr, Except.ok.injEq, Prod.mk.injEq] at h
          obtain ⟨rfl, rfl⟩ := h
          have := ih (by simp) pushed' hr
          rw [preDataP.eq_2, hp]
          simp only [this]
          simp

theorem appendPopLast_map_fst (L : List (Triple × List Epi)) :
    (appendPopLast L).map (·.1) = L.map (·.1) := by
  induction L with
  | nil => rfl
  | cons q L ih =>
    obtain ⟨tr, es⟩ := q
    cases L with
    | nil => rfl
    | cons q2 L2 => simp only [appendPopLast, List.map_cons, List.cons.injEq, true_and]; exact ih

theorem appendPopLast_ne_nil {L : List (Triple × List Epi)} (h : L ≠ []) : appendPopLast L ≠ [] := by
  intro e
  have := congrArg (List.map (·.1)) e
  rw [appendPopLast_map_fst] at this
  simp at this
  exact h this

end C02
end Penman

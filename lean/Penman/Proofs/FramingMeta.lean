/-
  Penman.Proofs.FramingMeta — `commentMeta` and trailing white space swallowed by a
  COMMENT token (the CR of a CRLF-terminated line), property C09.
-/
import Penman.Parse
namespace Penman.Framing
open Penman

/-! ### `rfindAux` / `rpartitionStr` -/

theorem isPrefixOf_length {sep l : Str} (h : sep.isPrefixOf l = true) : sep.length ≤ l.length :=
  (List.isPrefixOf_iff_prefix.1 h).length_le

theorem rfindAux_bound (sep : Str) : ∀ (s : Str) (i : Nat) (acc : Option Nat) (j : Nat),
    rfindAux sep s i acc = some j → acc = some j ∨ (i ≤ j ∧ j + sep.length ≤ i + s.length) := by
  intro s
  induction s with
  | nil => intro i acc j h; simp [rfindAux] at h; exact Or.inl h
  | cons c cs ih =>
    intro i acc j h
    simp only [rfindAux] at h
    rcases ih (i + 1) _ j h with h1 | h1
    · split at h1
      · rename_i hp
        cases h1
        have := isPrefixOf_length hp
        exact Or.inr ⟨Nat.le_refl _, by simpa using this⟩
      · exact Or.inl h1
    · refine Or.inr ⟨by omega, ?_⟩
      simp only [List.length_cons]; omega

theorem rfindAux_noColon (rs : Str) (h : ∀ c ∈ rs, c ≠ ':') : ∀ (i : Nat) (acc : Option Nat),
    rfindAux [':', ':'] rs i acc = acc := by
  induction rs with
  | nil => intro i acc; rfl
  | cons c cs ih =>
    intro i acc
    have hc : c ≠ ':' := h c (by simp)
    simp only [rfindAux]
    have : List.isPrefixOf [':', ':'] (c :: cs) = false := by
      simp [List.isPrefixOf, Ne.symm hc]
    rw [this]
    exact ih (fun d hd => h d (by simp [hd])) (i + 1) acc

theorem rfindAux_append (rs : Str) (h : ∀ c ∈ rs, c ≠ ':') : ∀ (s : Str) (i : Nat) (acc : Option Nat),
    rfindAux [':', ':'] (s ++ rs) i acc = rfindAux [':', ':'] s i acc := by
  intro s
  induction s with
  | nil => intro i acc; simpa [rfindAux] using rfindAux_noColon rs h i acc
  | cons c cs ih =>
    intro i acc
    simp only [List.cons_append, rfindAux]
    have : List.isPrefixOf [':', ':'] (c :: (cs ++ rs)) = List.isPrefixOf [':', ':'] (c :: cs) := by
      cases cs with
      | nil =>
        cases rs with
        | nil => rfl
        | cons d ds =>
          have hd : d ≠ ':' := h d (by simp)
          simp [List.isPrefixOf, Ne.symm hd]
      | cons d ds => simp [List.isPrefixOf]
    rw [this, ih]

/-- `rpartition('::')` of a text followed by colon-free characters -/
theorem rpartitionStr_append (rs : Str) (h : ∀ c ∈ rs, c ≠ ':') (s : Str) :
    rpartitionStr [':', ':'] (s ++ rs) =
      if (rpartitionStr [':', ':'] s).2.1 then
        ((rpartitionStr [':', ':'] s).1, true, (rpartitionStr [':', ':'] s).2.2 ++ rs)
      else ([], false, s ++ rs) := by
  unfold rpartitionStr
  rw [rfindAux_append rs h]
  cases hf : rfindAux [':', ':'] s 0 none with
  | none => simp
  | some i =>
    have hb := rfindAux_bound _ s 0 none i hf
    simp only [reduceCtorEq, false_or, List.length_cons, List.length_nil] at hb
    have h1 : i ≤ s.length := by omega
    have h2 : i + 2 ≤ s.length := by omega
    simp only [List.length_cons, List.length_nil, ↓reduceIte]
    rw [List.take_append_of_le_length h1, List.drop_append_of_le_length h2]

theorem rpartitionStr_fst_length (s : Str) (h : (rpartitionStr [':', ':'] s).2.1 = true) :
    (rpartitionStr [':', ':'] s).1.length < s.length := by
  unfold rpartitionStr at h ⊢
  cases hf : rfindAux [':', ':'] s 0 none with
  | none => rw [hf] at h; simp at h
  | some i =>
    have hb := rfindAux_bound _ s 0 none i hf
    simp only [reduceCtorEq, false_or, List.length_cons, List.length_nil] at hb
    simp only [List.length_take]
    omega

/-! ### `partition(' ')`, `rstrip` -/

theorem partitionStr_space_found (a : Str) (h : ' ' ∈ a) : (partitionStr [' '] a).2.1 = true := by
  induction a with
  | nil => simp at h
  | cons c cs ih =>
    simp only [partitionStr]
    split
    · rfl
    · rename_i hp
      have hc : c ≠ ' ' := by
        intro hc; subst hc; simp [List.isPrefixOf] at hp
      have : ' ' ∈ cs := by
        simp only [List.mem_cons] at h
        rcases h with h | h
        · exact absurd h.symm hc
        · exact h
      simp [ih this]

theorem isPrefixOf_space (c : Char) (x : Str) : List.isPrefixOf [' '] (c :: x) = (c == ' ') := by
  by_cases h : c = ' '
  · subst h; rfl
  · have h1 : (c == ' ') = false := beq_false_of_ne h
    have h2 : (' ' == c) = false := beq_false_of_ne (Ne.symm h)
    simp only [List.isPrefixOf, h1, h2, Bool.false_and]

theorem partitionStr_space_append (a b : Str) (h : (partitionStr [' '] a).2.1 = true) :
    partitionStr [' '] (a ++ b) =
      ((partitionStr [' '] a).1, true, (partitionStr [' '] a).2.2 ++ b) := by
  induction a with
  | nil => simp [partitionStr] at h
  | cons c cs ih =>
    simp only [partitionStr, List.cons_append, isPrefixOf_space] at h ⊢
    by_cases hc : c = ' '
    · subst hc; simp
    · simp only [beq_iff_eq, hc, ↓reduceIte] at h ⊢
      have hfound : (partitionStr [' '] cs).2.1 = true := by
        by_cases hq : (partitionStr [' '] cs).2.1 = true
        · exact hq
        · simp [hq] at h
      rw [ih hfound]
      simp [hfound]

theorem dropWhile_append_all (p : Char → Bool) (l m : Str) (h : ∀ c ∈ l, p c = true) :
    (l ++ m).dropWhile p = m.dropWhile p := by
  induction l with
  | nil => rfl
  | cons c cs ih =>
    have hc := h c (by simp)
    simp only [List.cons_append, List.dropWhile_cons, hc, ↓reduceIte]
    exact ih (fun d hd => h d (by simp [hd]))

theorem rstripBy_append (p : Char → Bool) (v rs : Str) (h : ∀ c ∈ rs, p c = true) :
    rstripBy p (v ++ rs) = rstripBy p v := by
  unfold rstripBy
  rw [List.reverse_append, dropWhile_append_all p _ _ (fun c hc => h c (by simpa using hc))]

/-! ### `commentMeta` -/

theorem commentMeta_fuel (isSpace : Char → Bool) : ∀ (f f' : Nat) (s : Str) (md : AList Str Str),
    s.length < f → s.length < f' → commentMeta isSpace f s md = commentMeta isSpace f' s md := by
  intro f
  induction f with
  | zero => intro f' s md h; omega
  | succ f ih =>
    intro f' s md h h'
    obtain ⟨g, rfl⟩ : ∃ g, f' = g + 1 := ⟨f' - 1, by omega⟩
    simp only [commentMeta]
    split
    · rfl
    · split
      · rename_i hfound
        have := rpartitionStr_fst_length s hfound
        exact ih g _ _ (by omega) (by omega)
      · rfl

/-- the value separator is present after the last `::` (or there is no `::` at all):
    then white space glued to the end of the comment only lengthens a value, which
    `rstrip` removes again -/
def MetaStable (text : Str) : Prop :=
  (rpartitionStr [':', ':'] text).2.1 = true → ' ' ∈ (rpartitionStr [':', ':'] text).2.2

instance (text : Str) : Decidable (MetaStable text) := by unfold MetaStable; infer_instance

/-- white space (no colon, no plain space) that a COMMENT token swallowed at the end
    of the line does not change the metadata, provided the last key has its separator -/
theorem commentMeta_tail (isSpace : Char → Bool) (s rs : Str) (md : AList Str Str)
    (hrs : ∀ c ∈ rs, isSpace c = true ∧ c ≠ ':') (hst : MetaStable s) :
    commentMeta isSpace ((s ++ rs).length + 1) (s ++ rs) md =
      commentMeta isSpace (s.length + 1) s md := by
  have hcol : ∀ c ∈ rs, c ≠ ':' := fun c hc => (hrs c hc).2
  simp only [commentMeta]
  rw [rpartitionStr_append rs hcol s]
  by_cases hfound : (rpartitionStr [':', ':'] s).2.1 = true
  · have hsp := hst hfound
    have hne : s ≠ [] := by
      intro h; subst h; simp [rpartitionStr, rfindAux] at hfound
    have hne' : s ++ rs ≠ [] := by simp [hne]
    simp only [List.isEmpty_iff, hne, hne', hfound, ↓reduceIte]
    rw [partitionStr_space_append _ rs (partitionStr_space_found _ hsp)]
    simp only
    rw [rstripBy_append isSpace _ rs (fun c hc => (hrs c hc).1)]
    have := rpartitionStr_fst_length s hfound
    apply commentMeta_fuel
    · simp only [List.length_append]; omega
    · omega
  · simp only [hfound, Bool.false_eq_true, ↓reduceIte]
    split <;> split <;> rfl

end Penman.Framing

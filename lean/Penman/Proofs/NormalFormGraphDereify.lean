/-
  Penman.Proofs.NormalFormGraphDereify — `dereify_edges` is idempotent on graphs (for every model with a
  well-formed reification table): after one pass the dereification agenda is empty.
  A collapse replaces a node by a relation whose role is REIFIABLE; source and target roles of a
  reification are never reifiable (`ReifWf`), so the new relation cannot be one of the two relations of a
  collapsible node, and the nodes it touches keep a relation that is not part of a reification pattern.
-/
import Penman.Proofs.Transform
namespace Penman
namespace C20gen

/-! ### `Model.dereify` does not depend on the order of the two relations -/

theorem derefLookup_same {m : Model} (hm : ReifWf m) (s : Str) : ∀ ds : List Reif, (∀ rf ∈ ds, rf ∈ m.reifs) →
    derefLookup s s ds = none
  | [], _ => rfl
  | rf :: rest, h => by
    have hne : rf.source ≠ rf.target := (hm.1 rf (h rf (by simp))).2.2.2.2.1
    simp only [derefLookup]
    rw [if_neg (fun hc => hne (hc.1.trans hc.2.symm)), if_neg (fun hc => hne (hc.2.trans hc.1.symm))]
    exact derefLookup_same hm s rest (fun r hr => h r (by simp [hr]))

theorem dereify_swap {m : Model} (hm : ReifWf m) (i0 a b : Triple) (_hab : a.src = b.src) :
    m.dereify i0 b a = m.dereify i0 a b := by
  have hloop : ∀ ds : List Reif, (∀ rf ∈ ds, rf ∈ m.reifs) →
      dereifyLoop b.role a.role b.tgt a.tgt ds = dereifyLoop a.role b.role a.tgt b.tgt ds := by
    intro ds hsub
    rw [dereifyLoop_eq, dereifyLoop_eq]
    by_cases hr : a.role = b.role
    · rw [hr, derefLookup_same hm b.role _ hsub]; rfl
    · rw [derefLookup_swap hr]
      cases derefLookup a.role b.role ds with
      | none => rfl
      | some p => obtain ⟨f, r⟩ := p; cases f <;> rfl
  have hcond : (i0.src = b.src ∧ b.src = a.src) = (i0.src = a.src ∧ a.src = b.src) := by
    apply propext
    constructor
    · rintro ⟨h1, h2⟩; exact ⟨h1.trans h2, h2.symm⟩
    · rintro ⟨h1, h2⟩; exact ⟨h1.trans h2, h2.symm⟩
  unfold Model.dereify
  simp only [hcond, hloop _ (fun rf h => (List.mem_filter.1 h).1)]

theorem derefLookup_roles {s t : Str} {ds : List Reif} {p : Bool × Str} (h : derefLookup s t ds = some p) :
    ∃ rf ∈ ds, (rf.source = s ∧ rf.target = t) ∨ (rf.target = s ∧ rf.source = t) := by
  induction ds with
  | nil => simp [derefLookup] at h
  | cons rf r ih =>
    simp only [derefLookup] at h
    split at h
    · rename_i hc; exact ⟨rf, by simp, Or.inl hc⟩
    · split at h
      · rename_i hc; exact ⟨rf, by simp, Or.inr hc⟩
      · obtain ⟨rf', h1, h2⟩ := ih h
        exact ⟨rf', by simp [h1], h2⟩

/-- the two relations of a node that `Model.dereify` accepts have roles that are not reifiable -/
theorem dereify_ok_not_reifiable {m : Model} (hm : ReifWf m) {i0 a b : Triple} {r : Atom × Str × Atom}
    (h : m.dereify i0 a b = .ok r) : m.isReifiable a.role = false ∧ m.isReifiable b.role = false := by
  unfold Model.dereify at h
  split at h
  · simp at h
  · split at h
    · simp at h
    · simp only at h
      split at h
      · simp at h
      · rw [dereifyLoop_eq] at h
        cases hd : derefLookup a.role b.role (m.reifs.filter (·.concept = i0.tgt)) with
        | none => rw [hd] at h; simp at h
        | some p =>
          obtain ⟨rf, hrf, hr⟩ := derefLookup_roles hd
          have hok := hm.1 rf (List.mem_filter.1 hrf).1
          rcases hr with ⟨h1, h2⟩ | ⟨h1, h2⟩
          · rw [← h1, ← h2]; exact ⟨hok.2.2.2.2.2.1, hok.2.2.2.2.2.2.1⟩
          · rw [← h1, ← h2]; exact ⟨hok.2.2.2.2.2.2.1, hok.2.2.2.2.2.1⟩

/-! ### an order-independent description of "collapsible" -/

/-- the node `x` with node label `i0` is collapsed by `dereify_edges` -/
def Collapsible (m : Model) (g : Graph) (x : Str) (i0 : Triple) : Prop :=
  ∃ a b, otherOf g.triples x = [a, b] ∧ Atom.str x ∉ (agendaScan g).1 ∧ m.isDereifiable i0.tgt = true ∧
    ∃ s role tgt, m.dereify i0 a b = .ok (.str s, role, tgt) ∧ s ∈ g.variables

theorem entryRes_skip_or {m : Model} (hm : ReifWf m) {g : Graph} {x : Str} {i0 : Triple} :
    (entryRes m g x i0 ≠ .skip → (∃ e, entryRes m g x i0 = .err e) ∨ Collapsible m g x i0) ∧
    (Collapsible m g x i0 → ∃ ag, entryRes m g x i0 = .add ag) := by
  cases hl : otherOf g.triples x with
  | nil =>
    have h1 : entryRes m g x i0 = .skip := by unfold entryRes; rw [hl]
    have h2 : ¬ Collapsible m g x i0 := by
      rintro ⟨a', b', hab', _⟩; rw [hl] at hab'; cases hab'
    exact ⟨fun hne => absurd h1 hne, fun hc => absurd hc h2⟩
  | cons a r =>
    cases r with
    | nil =>
      have h1 : entryRes m g x i0 = .skip := by unfold entryRes; rw [hl]
      have h2 : ¬ Collapsible m g x i0 := by
        rintro ⟨a', b', hab', _⟩; rw [hl] at hab'; cases hab'
      exact ⟨fun hne => absurd h1 hne, fun hc => absurd hc h2⟩
    | cons b r2 =>
      cases r2 with
      | cons c r3 =>
        have h1 : entryRes m g x i0 = .skip := by unfold entryRes; rw [hl]
        have h2 : ¬ Collapsible m g x i0 := by
          rintro ⟨a', b', hab', _⟩; rw [hl] at hab'; cases hab'
        exact ⟨fun hne => absurd h1 hne, fun hc => absurd hc h2⟩
      | nil =>
        have ha := mem_otherOf (show a ∈ otherOf g.triples x by rw [hl]; simp)
        have hb := mem_otherOf (show b ∈ otherOf g.triples x by rw [hl]; simp)
        have hab : a.src = b.src := ha.2.2.trans hb.2.2.symm
        have hsame : m.dereify i0 (if getPushedVariable g b = some x then b else a)
            (if getPushedVariable g b = some x then a else b) = m.dereify i0 a b := by
          by_cases hp : getPushedVariable g b = some x
          · simp only [hp, if_true]; exact dereify_swap hm i0 a b hab
          · simp only [hp, if_false]
        have hE : entryRes m g x i0 =
            if Atom.str x ∉ (agendaScan g).1 ∧ m.isDereifiable i0.tgt = true then
              match m.dereify i0 a b with
              | .error .model => .skip
              | .error e => .err e
              | .ok (.str s, role, tgt) =>
                if s ∈ g.variables then
                  .add ⟨x, (if getPushedVariable g b = some x then b else a), ⟨s, role, tgt⟩,
                    agendaEpis g i0 (if getPushedVariable g b = some x then a else b)⟩
                else .skip
              | .ok _ => .skip
            else .skip := by
          unfold entryRes
          rw [hl]
          simp only [hsame]
          rfl
        rw [hE]
        by_cases hc : Atom.str x ∉ (agendaScan g).1 ∧ m.isDereifiable i0.tgt = true
        · rw [if_pos hc]
          constructor
          · intro hne
            cases hd : m.dereify i0 a b with
            | error e =>
              rw [hd] at hne
              cases e with
              | model => exact absurd rfl hne
              | _ => left; exact ⟨_, rfl⟩
            | ok r =>
              rw [hd] at hne
              obtain ⟨src, role, tgt⟩ := r
              cases src with
              | str s =>
                by_cases hs : s ∈ g.variables
                · right; exact ⟨a, b, hl, hc.1, hc.2, s, role, tgt, hd, hs⟩
                · simp only [hs, if_false] at hne; exact absurd rfl hne
              | none => exact absurd rfl hne
              | num n => exact absurd rfl hne
          · rintro ⟨a', b', hab', _, _, s, role, tgt, hd, hs⟩
            rw [hl] at hab'
            simp only [List.cons.injEq, and_true] at hab'
            obtain ⟨rfl, rfl⟩ := hab'
            rw [hd]
            simp only [hs, if_true]
            exact ⟨_, rfl⟩
        · rw [if_neg hc]
          constructor
          · intro hne; exact absurd rfl hne
          · rintro ⟨a', b', _, h1, h2, _⟩
            exact absurd ⟨h1, h2⟩ hc

/-! ### the triples after one pass -/

section Pass
variable {m : Model} {g g1 : Graph}

theorem isReifiable_of_mem {rf : Reif} (h : rf ∈ m.reifs) : m.isReifiable rf.role = true := by
  simp only [Model.isReifiable, List.any_eq_true, decide_eq_true_eq]
  exact ⟨rf, h, rfl⟩

/-- every triple of the result is an old triple of a node that is not collapsed, or the dereified triple
    of a collapsed node (its role is reifiable, its source a variable of `g`) -/
theorem mem_pass (hg : RolesColon g) (hm : ReifWf m) (h : dereifyEdges m g = .ok g1) {t1 : Triple}
    (h1 : t1 ∈ g1.triples) :
    (t1 ∈ g.triples ∧ collapseOf m g t1.src = none) ∨
    (∃ y ag, collapseOf m g y = some ag ∧ t1 = ag.dereified ∧ m.isReifiable t1.role = true ∧
      t1.src ∈ g.variables) := by
  rw [(dereifyEdges_ok h).1, List.mem_map] at h1
  obtain ⟨t0, h0, rfl⟩ := h1
  rw [List.mem_flatMap] at h0
  obtain ⟨t, htg, h0⟩ := h0
  unfold derOut at h0
  cases hcol : collapseOf m g t.src with
  | none =>
    rw [hcol] at h0
    simp only [List.mem_singleton] at h0
    subst h0
    left
    have : ({ t0 with role := ensureColon t0.role } : Triple) = t0 := by
      rw [ensureColon_of_colon (hg t0 htg)]
    rw [this]; exact ⟨htg, hcol⟩
  | some ag =>
    rw [hcol] at h0
    simp only at h0
    split at h0
    · simp only [List.mem_singleton] at h0
      subst h0
      right
      obtain ⟨_, _, _, ⟨rf, hrf, hrole⟩, hsrc⟩ := collapseOf_some hcol
      have hcolon : startsWith [':'] ag.dereified.role = true := by
        rw [← hrole]; exact (hm.1 rf hrf).2.2.2.2.2.2.2
      have e : ({ ag.dereified with role := ensureColon ag.dereified.role } : Triple) = ag.dereified := by
        rw [ensureColon_of_colon hcolon]
      rw [e]
      exact ⟨t.src, ag, hcol, rfl, by rw [← hrole]; exact isReifiable_of_mem hrf, hsrc⟩
    · simp at h0

/-- an old triple of a node that is not collapsed is kept -/
theorem kept_pass (hg : RolesColon g) (h : dereifyEdges m g = .ok g1) {t : Triple} (ht : t ∈ g.triples)
    (hc : collapseOf m g t.src = none) : t ∈ g1.triples := by
  rw [(dereifyEdges_ok h).1, List.mem_map]
  refine ⟨t, ?_, by rw [ensureColon_of_colon (hg t ht)]⟩
  rw [List.mem_flatMap]
  exact ⟨t, ht, by simp [derOut, hc]⟩

/-- the dereified triple of a collapsed node is in the result -/
theorem new_pass (hm : ReifWf m) (h : dereifyEdges m g = .ok g1) {y : Str} {ag : Agenda}
    (hc : collapseOf m g y = some ag) : ag.dereified ∈ g1.triples := by
  obtain ⟨hv, hfirst, _, ⟨rf, hrf, hrole⟩, _⟩ := collapseOf_some hc
  have hf := mem_otherOf hfirst
  rw [(dereifyEdges_ok h).1, List.mem_map]
  have hcolon : startsWith [':'] ag.dereified.role = true := by
    rw [← hrole]; exact (hm.1 rf hrf).2.2.2.2.2.2.2
  refine ⟨ag.dereified, ?_, by rw [ensureColon_of_colon hcolon]⟩
  rw [List.mem_flatMap]
  refine ⟨ag.first, hf.1, ?_⟩
  simp [derOut, hf.2.2, hc]

/-- filtering the result by "source `x`" when `x` is not collapsed and no dereified triple has source `x`:
    the old triples of `x`, in order -/
theorem filter_pass (look : Str → Option Agenda) (x : Str) (P : Triple → Bool) (hx : look x = none) :
    ∀ (l : List Triple), (∀ t ∈ l, ∀ ag, look t.src = some ag → t = ag.first → ag.dereified.src ≠ x) →
      (l.flatMap (derOut look)).filter (fun t => P t && decide (t.src = x)) =
        l.filter (fun t => P t && decide (t.src = x))
  | [], _ => rfl
  | t :: l, h => by
    have ih := filter_pass look x P hx l (fun t' ht' => h t' (List.mem_cons_of_mem _ ht'))
    simp only [List.flatMap_cons, List.filter_append, ih]
    congr 1
    unfold derOut
    cases hl : look t.src with
    | none =>
      simp only []
      by_cases hp : (P t && decide (t.src = x)) = true <;> simp [hp]
    | some ag =>
      have htx : t.src ≠ x := by intro e; rw [e, hx] at hl; cases hl
      simp only
      split
      · rename_i hf
        have := h t List.mem_cons_self ag hl hf
        simp [this, htx]
      · simp [htx]

end Pass

/-- **`dereify_edges` is idempotent on graphs**: after one pass no node is collapsible. -/
theorem dereify_idempotent {m : Model} {g g1 : Graph} (hm : ReifWf m) (hg : RolesColon g)
    (h : dereifyEdges m g = .ok g1) : NoCollapsible m g1 := by
  unfold NoCollapsible
  rw [dereifyAgenda_nil_iff]
  intro p hp
  obtain ⟨hi0m, hi0r, hi0s⟩ := instOf_getLast (agendaScan_inst_mem hp)
  obtain ⟨x, i0⟩ := p
  simp only at hi0m hi0r hi0s ⊢
  apply Classical.byContradiction
  intro hne
  rcases (entryRes_skip_or hm).1 hne with ⟨e, he⟩ | hcoll
  · exact entryRes_no_err ⟨hi0r, hi0s⟩ he
  obtain ⟨a, b, hl, hfix, hder, s, role, tgt, hd, hs⟩ := hcoll
  -- `x` was not collapsed in `g`: its node label survives
  have hxnone : collapseOf m g x = none := by
    rcases mem_pass hg hm h hi0m with ⟨_, hc⟩ | ⟨y, ag, _, _, hre, _⟩
    · rw [hi0s] at hc; exact hc
    · rw [hi0r, hm.2] at hre; cases hre
  have hi0g : i0 ∈ g.triples := by
    rcases mem_pass hg hm h hi0m with ⟨hc, _⟩ | ⟨y, ag, _, _, hre, _⟩
    · exact hc
    · rw [hi0r, hm.2] at hre; cases hre
  -- the two relations are old ones
  obtain ⟨hra, hrb⟩ := dereify_ok_not_reifiable hm hd
  have hab_mem : ∀ t ∈ otherOf g1.triples x, m.isReifiable t.role = false := by
    intro t ht; rw [hl] at ht
    simp only [List.mem_cons, List.mem_nil_iff, or_false] at ht
    rcases ht with rfl | rfl
    · exact hra
    · exact hrb
  -- no dereified triple has source `x`
  have hnew : ∀ t ∈ g.triples, ∀ ag, collapseOf m g t.src = some ag → t = ag.first → ag.dereified.src ≠ x := by
    intro t _ ag hc _ hsrc
    have hmem := new_pass hm h hc
    obtain ⟨_, _, _, ⟨rf, hrf, hrole⟩, _⟩ := collapseOf_some hc
    have hre : m.isReifiable ag.dereified.role = true := by rw [← hrole]; exact isReifiable_of_mem hrf
    have hnc : ag.dereified.role ≠ CONCEPT_ROLE := by
      intro e; rw [e, hm.2] at hre; cases hre
    have : ag.dereified ∈ otherOf g1.triples x := by
      simp only [otherOf, List.mem_filter, decide_eq_true_eq]
      exact ⟨hmem, hnc, hsrc⟩
    rw [hab_mem _ this] at hre; cases hre
  -- the relations and labels of `x` are those of `g`
  have hg1 : g1.triples = g.triples.flatMap (derOut (collapseOf m g)) := by
    rw [(dereifyEdges_ok h).1]
    conv => rhs; rw [← List.map_id (g.triples.flatMap (derOut (collapseOf m g)))]
    apply List.map_congr_left
    intro t ht
    rw [List.mem_flatMap] at ht
    obtain ⟨t', ht', hmem⟩ := ht
    have hcolon : startsWith [':'] t.role = true := by
      unfold derOut at hmem
      cases hc : collapseOf m g t'.src with
      | none =>
        rw [hc] at hmem
        simp only [List.mem_singleton] at hmem
        rw [hmem]; exact hg t' ht'
      | some ag =>
        rw [hc] at hmem
        simp only at hmem
        split at hmem
        · simp only [List.mem_singleton] at hmem
          obtain ⟨_, _, _, ⟨rf, hrf, hrole⟩, _⟩ := collapseOf_some hc
          rw [hmem, ← hrole]; exact (hm.1 rf hrf).2.2.2.2.2.2.2
        · simp at hmem
    simp [ensureColon_of_colon hcolon]
  have hfilter : ∀ (P : Triple → Bool),
      g1.triples.filter (fun t => P t && decide (t.src = x)) =
        g.triples.filter (fun t => P t && decide (t.src = x)) := by
    intro P
    rw [hg1]
    exact filter_pass (collapseOf m g) x P hxnone g.triples hnew
  have hother : otherOf g1.triples x = otherOf g.triples x := by
    have := hfilter (fun t => decide (t.role ≠ CONCEPT_ROLE))
    simpa [otherOf, Bool.decide_and] using this
  have hinst : instOf g1.triples x = instOf g.triples x := by
    have := hfilter (fun t => decide (t.role = CONCEPT_ROLE))
    simpa [instOf, Bool.decide_and] using this
  -- `x` is not referenced in `g` either
  have htop : topAtom g1 = topAtom g := by unfold topAtom; rw [dereifyEdges_getTop h]
  have hfix' : Atom.str x ∉ (agendaScan g).1 := by
    intro hin
    rw [agendaScan_fixed] at hin
    apply hfix
    rw [agendaScan_fixed]
    rcases hin with htp | ⟨t, ht, hr, htg⟩
    · left; rw [htop]; exact htp
    · cases hc : collapseOf m g t.src with
      | none => right; exact ⟨t, kept_pass hg h ht hc, hr, htg⟩
      | some ag =>
        exfalso
        obtain ⟨_, _, ⟨a', b', hl', hab'⟩, ⟨rf, hrf, hrole⟩, _⟩ := collapseOf_some hc
        have hre : m.isReifiable ag.dereified.role = true := by rw [← hrole]; exact isReifiable_of_mem hrf
        have hnc : ag.dereified.role ≠ CONCEPT_ROLE := by
          intro e; rw [e, hm.2] at hre; cases hre
        have htm : t ∈ otherOf g.triples t.src := by
          simp only [otherOf, List.mem_filter, decide_eq_true_eq]; exact ⟨ht, hr, trivial⟩
        rw [hl'] at htm
        simp only [List.mem_cons, List.mem_nil_iff, or_false] at htm
        have hcase : Atom.str ag.dereified.src = Atom.str x ∨ ag.dereified.tgt = Atom.str x := by
          rcases htm with rfl | rfl <;> rcases hab' with ⟨h1, h2⟩ | ⟨h1, h2⟩
          · left; rw [h1, htg]
          · right; rw [h2, htg]
          · right; rw [h2, htg]
          · left; rw [h1, htg]
        rcases hcase with h1 | h1
        · have hsx : ag.dereified.src = x := by injection h1
          have hf := (collapseOf_some hc).2.1
          exact hnew ag.first (mem_otherOf hf).1 ag (by rw [(mem_otherOf hf).2.2]; exact hc) rfl hsx
        · apply hfix
          rw [agendaScan_fixed]
          right; exact ⟨ag.dereified, new_pass hm h hc, hnc, h1⟩
  -- the source of the dereified triple is a variable of `g`
  have hsg : s ∈ g.variables := by
    rw [mem_variables] at hs ⊢
    rcases hs with ⟨t, ht, hts⟩ | htp
    · rcases mem_pass hg hm h ht with ⟨ht', _⟩ | ⟨_, _, _, _, _, hv⟩
      · exact Or.inl ⟨t, ht', hts⟩
      · rw [hts] at hv; exact (mem_variables g s).1 hv
    · have : g1.getTop = some s := by unfold Graph.getTop; rw [htp]
      rw [dereifyEdges_getTop h] at this
      exact (mem_variables g s).1 (getTop_mem_variables this)
  -- so `x` was collapsible in `g`: contradiction
  have hcg : Collapsible m g x i0 :=
    ⟨a, b, by rw [← hother]; exact hl, hfix', hder, s, role, tgt, hd, hsg⟩
  obtain ⟨ag, hag⟩ := (entryRes_skip_or hm).2 hcg
  have hlast : (instOf g.triples x).getLast? = some i0 := by
    rw [← hinst]; exact agendaScan_inst_mem hp
  have : collapseOf m g x = some ag := by
    unfold collapseOf; rw [hlast]; simp [hag]
  rw [hxnone] at this; cases this

/-! ### the agenda does not depend on the order of the triples nor on the markers -/

theorem perm_pair {α : Type} {l : List α} {a b : α} (h : l.Perm [a, b]) : l = [a, b] ∨ l = [b, a] := by
  have hlen := h.length_eq
  match l, hlen with
  | [c, d], _ =>
    have hc : c ∈ [a, b] := h.subset (by simp)
    have hd : d ∈ [a, b] := h.subset (by simp)
    have ha : a ∈ [c, d] := h.symm.subset (by simp)
    have hb : b ∈ [c, d] := h.symm.subset (by simp)
    simp only [List.mem_cons, List.mem_nil_iff, or_false] at hc hd ha hb
    rcases hc with rfl | rfl
    · rcases hd with rfl | rfl
      · rcases hb with rfl | rfl <;> exact Or.inl rfl
      · exact Or.inl rfl
    · rcases hd with rfl | rfl
      · exact Or.inr rfl
      · rcases ha with rfl | rfl <;> exact Or.inl rfl

/-- **`NoCollapsible` is invariant under reordering the triples and replacing the markers**, for graphs in
    which no variable has two node labels. -/
theorem noCollapsible_perm {m : Model} (hm : ReifWf m) {g g' : Graph} (hp : g'.triples.Perm g.triples)
    (htop : g'.getTop = g.getTop)
    (hone : ((g.triples.filter (fun t => t.role = CONCEPT_ROLE)).map (·.src)).Nodup)
    (h : NoCollapsible m g) : NoCollapsible m g' := by
  unfold NoCollapsible at h ⊢
  rw [dereifyAgenda_nil_iff] at h ⊢
  intro p hp'
  obtain ⟨hi0m, hi0r, hi0s⟩ := instOf_getLast (agendaScan_inst_mem hp')
  obtain ⟨x, i0⟩ := p
  simp only at hi0m hi0r hi0s ⊢
  apply Classical.byContradiction
  intro hne
  rcases (entryRes_skip_or hm).1 hne with ⟨e, he⟩ | hcoll
  · exact entryRes_no_err ⟨hi0r, hi0s⟩ he
  obtain ⟨a, b, hl, hfix, hder, s, role, tgt, hd, hs⟩ := hcoll
  have ha := mem_otherOf (show a ∈ otherOf g'.triples x by rw [hl]; simp)
  have hb := mem_otherOf (show b ∈ otherOf g'.triples x by rw [hl]; simp)
  -- the relations of `x` in `g`
  have hoth : (otherOf g.triples x).Perm [a, b] := by
    rw [← hl]; exact (hp.filter _).symm
  -- `x` is not referenced in `g`
  have hfix' : Atom.str x ∉ (agendaScan g).1 := by
    intro hin
    apply hfix
    rw [agendaScan_fixed] at hin ⊢
    rcases hin with htp | ⟨t, ht, hr, htg⟩
    · left; unfold topAtom at htp ⊢; rw [htop]; exact htp
    · right; exact ⟨t, hp.symm.subset ht, hr, htg⟩
  have hsg : s ∈ g.variables := by
    rw [mem_variables] at hs
    rcases hs with ⟨t, ht, hts⟩ | htp
    · rw [← hts]; exact src_mem_variables (hp.subset ht)
    · have : g'.getTop = some s := by unfold Graph.getTop; rw [htp]
      rw [htop] at this
      exact getTop_mem_variables this
  -- the node label of `x` in `g`
  have hinst : instOf g.triples x = [i0] := by
    have hperm : (instOf g.triples x).Perm (instOf g'.triples x) := (hp.filter _).symm
    have hmem : i0 ∈ instOf g.triples x := by
      apply hperm.symm.subset
      simp only [instOf, List.mem_filter, decide_eq_true_eq]
      exact ⟨hi0m, hi0r, hi0s⟩
    have hnd : ((instOf g.triples x).map (·.src)).Nodup := by
      have hsub : (instOf g.triples x).Sublist (g.triples.filter (fun t => t.role = CONCEPT_ROLE)) := by
        unfold instOf
        have : g.triples.filter (fun t => decide (t.role = CONCEPT_ROLE ∧ t.src = x)) =
            (g.triples.filter (fun t => t.role = CONCEPT_ROLE)).filter (fun t => decide (t.src = x)) := by
          rw [List.filter_filter]
          apply List.filter_congr
          intro t _
          simp [Bool.decide_and, Bool.and_comm]
        rw [this]; exact List.filter_sublist
      exact List.Nodup.sublist (hsub.map _) hone
    match hio : instOf g.triples x, hmem, hnd with
    | [c], hmem, _ =>
      simp only [List.mem_singleton] at hmem; rw [hmem]
    | c :: d :: r, _, hnd =>
      exfalso
      have hc : c ∈ instOf g.triples x := by rw [hio]; simp
      have hdm : d ∈ instOf g.triples x := by rw [hio]; simp
      simp only [instOf, List.mem_filter, decide_eq_true_eq] at hc hdm
      simp only [List.map_cons, List.nodup_cons, List.mem_cons, not_or] at hnd
      exact hnd.1.1 (hc.2.2.trans hdm.2.2.symm)
  have hcg : Collapsible m g x i0 := by
    rcases perm_pair hoth with h1 | h1
    · exact ⟨a, b, h1, hfix', hder, s, role, tgt, hd, hsg⟩
    · exact ⟨b, a, h1, hfix', hder, s, role, tgt,
        by rw [dereify_swap hm i0 a b (ha.2.2.trans hb.2.2.symm)]; exact hd, hsg⟩
  obtain ⟨ag, hag⟩ := (entryRes_skip_or hm).2 hcg
  have hmemp : (x, i0) ∈ (agendaScan g).2.1 := by
    apply AList.mem_of_get?
    rw [agendaScan_inst, hinst]; rfl
  have := h (x, i0) hmemp
  simp only at this
  rw [this] at hag; cases hag

end C20gen
end Penman

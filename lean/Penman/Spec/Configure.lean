/-
  Penman.Spec.Configure — specification vocabulary for `Layout.configure`
  (properties C03 / C06): what the cell store denotes, how pending triples may
  be expressed, weak connectivity, and the hypotheses of the theorems.
-/
import Penman.Layout
namespace Penman
namespace Cfg

abbrev Cells := AList Str (List Edge)

def ckeys (c : Cells) : List Str := AList.keys c

def topOf (g : Graph) (top : Option Str) : Option Str :=
  match top with | some t => some t | none => g.getTop

def st0 (g : Graph) (top : Str) : St :=
  { cells := [(top, [])], nm := AList.set (g.variables.map (·, NM.unset)) top NM.own }

/-- the store `configure` hands to `buildNode` -/
def storeOf (m : Model) (g : Graph) (top : Str) : Except PyErr St :=
  (preconfigure m g.epidata g.triples []).bind fun data =>
    configureLoop m ((data.length + 1) * (data.length + 1) + 1)
      (stripPops (configureNode m (data.length + 1) top data (st0 g top) false).1) []
      (configureNode m (data.length + 1) top data (st0 g top) false).2.1

/-- the triple an edge of `v`'s cell stands for: `/` reads back as `:instance`,
    a node target as its variable -/
def denote (v : Str) (e : Edge) : Triple :=
  ⟨v, if e.role = ['/'] then CONCEPT_ROLE else e.role,
      match e.tgt with | .atom a => a | .node w => .str w⟩

/-- all triples expressed by a store -/
def placed (c : Cells) : List Triple := c.flatMap fun p => p.2.map (denote p.1)

/-- the triples still waiting in a data list -/
def pending : List Datum → List Triple
  | [] => []
  | .pop :: r => pending r
  | .t tr _ _ :: r => tr :: pending r

/-- `(v :instance None)` / `(v :instance "")`: what `_configure_node` silently drops -/
def NullInst (t : Triple) : Prop := t.role = CONCEPT_ROLE ∧ t.tgt.isMissing = true

/-- how one pending triple is expressed: as is, inverted once, or dropped (null instance) -/
inductive Step (m : Model) : Triple → Option Triple → Prop
  | keep (t : Triple) : ¬ NullInst t → Step m t (some t)
  | inv (t : Triple) (v : Str) : t.tgt = .str v → t.role ≠ CONCEPT_ROLE → ¬ NullInst (m.invert t) →
      Step m t (some (m.invert t))
  | drop (t : Triple) : NullInst t → Step m t none
  | dropInv (t : Triple) (v : Str) : t.tgt = .str v → t.role ≠ CONCEPT_ROLE → NullInst (m.invert t) →
      Step m t none

/-- element-wise correspondence, in order -/
inductive Corr (m : Model) : List Triple → List Triple → Prop
  | nil : Corr m [] []
  | cons {a ob l1 l2} : Step m a ob → Corr m l1 l2 → Corr m (a :: l1) (ob.toList ++ l2)

/-- `l2` expresses `l1` up to order -/
def Sim (m : Model) (l1 l2 : List Triple) : Prop := ∃ l, Corr m l1 l ∧ l.Perm l2

/-- what `_preconfigure` may do to a triple: nothing, or invert it (for `Push(source)`) -/
inductive PreStep (m : Model) : Triple → Triple → Prop
  | same (t : Triple) : PreStep m t t
  | inv (t : Triple) (v : Str) : t.tgt = .str v → t.role ≠ CONCEPT_ROLE → PreStep m t (m.invert t)

inductive Pre (m : Model) : List Triple → List Triple → Prop
  | nil : Pre m [] []
  | cons {a b l1 l2} : PreStep m a b → Pre m l1 l2 → Pre m (a :: l1) (b :: l2)

/-- graph-level role hypothesis: neither the role nor its first two inversions is the literal `/` -/
def RoleOK2 (m : Model) (t : Triple) : Prop :=
  t.role ≠ ['/'] ∧ m.invertRole t.role ≠ ['/'] ∧ m.invertRole (m.invertRole t.role) ≠ ['/']

instance (m : Model) (t : Triple) : Decidable (RoleOK2 m t) := by unfold RoleOK2; infer_instance

/-- some non-instance triple joins the two variables (in either direction) -/
def Adj (g : Graph) (b c : Str) : Prop :=
  ∃ t ∈ g.triples, t.role ≠ CONCEPT_ROLE ∧ b ∈ g.variables ∧ c ∈ g.variables ∧
    ((t.src = b ∧ t.tgt = .str c) ∨ (t.src = c ∧ t.tgt = .str b))

/-- weak connectivity: reflexive-transitive closure of `Adj` -/
inductive Reach (g : Graph) (a : Str) : Str → Prop
  | refl : Reach g a a
  | step {b c : Str} : Reach g a b → Adj g b c → Reach g a c

/-- no non-instance role inverts (once or twice) to `:instance` -/
def NoInstOf (m : Model) (g : Graph) : Prop :=
  ∀ t ∈ g.triples, t.role ≠ CONCEPT_ROLE →
    m.invertRole t.role ≠ CONCEPT_ROLE ∧ m.invertRole (m.invertRole t.role) ≠ CONCEPT_ROLE

instance (m : Model) (g : Graph) : Decidable (NoInstOf m g) := by unfold NoInstOf; infer_instance

/-- `Push(source)` is only attached to triples whose target can become a source -/
def PushSrcOK (g : Graph) : Prop :=
  ∀ t ∈ g.triples, (tgtStr? t.tgt).isSome = true ∨ t.role = CONCEPT_ROLE ∨
    Epi.push t.src ∉ (AList.get? g.epidata t).getD []

instance (g : Graph) : Decidable (PushSrcOK g) := by unfold PushSrcOK; infer_instance

/-- a marker is not a `Push` of a non-variable -/
def pushIn (V : List Str) : Epi → Prop
  | .push v => v ∈ V
  | _ => True

instance (V : List Str) (e : Epi) : Decidable (pushIn V e) := by
  cases e <;> unfold pushIn <;> infer_instance

/-- every `Push(v)` names a variable of the graph (the property's own quantifier) -/
def PushVars (g : Graph) : Prop :=
  ∀ t ∈ g.triples, ∀ e ∈ (AList.get? g.epidata t).getD [], pushIn g.variables e

instance (g : Graph) : Decidable (PushVars g) := by unfold PushVars; infer_instance

/-- an explicit `g.top` that is not the requested top occurs as a source
    (otherwise it is a variable without any triple, connected to nothing) -/
def TopOK (g : Graph) (t : Str) : Prop :=
  match g.top with
  | none => True
  | some z => z = t ∨ z ∈ g.triples.map (·.src)

instance (g : Graph) (t : Str) : Decidable (TopOK g t) := by
  unfold TopOK; cases g.top <;> infer_instance

/-- the epidata carries layout markers only (no alignments) -/
def NoAlign (g : Graph) : Prop :=
  ∀ t ∈ g.triples, ∀ e ∈ (AList.get? g.epidata t).getD [], e.mode = 0

instance (g : Graph) : Decidable (NoAlign g) := by unfold NoAlign; infer_instance

end Cfg

/-- `/` abbreviates `:instance` -/
def slashRole (r : Str) : Str := if r = ['/'] then CONCEPT_ROLE else r

mutual
/-- the triples a tree writes, as written (role and target text untouched, `/` read as
    `:instance`, a nested node as its variable), in text order -/
def Node.edgeTriples : Node → List Triple
  | .mk v bs => Branches.edgeTriples (v.getD []) bs
def Branches.edgeTriples (v : Str) : Branches → List Triple
  | .nil => []
  | .atom r a rest => ⟨v, slashRole r, a⟩ :: Branches.edgeTriples v rest
  | .sub r n rest => ⟨v, slashRole r, .str (n.var.getD [])⟩ :: (Node.edgeTriples n ++ Branches.edgeTriples v rest)
end

end Penman

/-
  Penman.Proofs.Align6 — the alignments of the decoded graph: `interpret` files
  the markers of the first written occurrence of each triple (`Decoded.epimap_proj`),
  so the role alignment / alignment reported for a decoded triple are those of the
  graph triple it came from.
-/
import Penman.Proofs.Align5
set_option linter.unusedSimpArgs false
namespace Penman
namespace Cfg
namespace Al
open Penman.Spec.Reading Penman.Interp

theorem find?_firstOccAux {α κ : Type} [DecidableEq κ] (key : α → κ) (k : κ) : ∀ (l : List α) (seen : List κ),
    k ∉ seen → (firstOccAux key seen l).find? (fun x => decide (key x = k)) = l.find? (fun x => decide (key x = k)) := by
  intro l
  induction l with
  | nil => intro _ _; rfl
  | cons x xs ih =>
    intro seen hk
    simp only [firstOccAux]
    split
    · rename_i hs
      have hne : key x ≠ k := by rintro rfl; exact hk hs
      rw [ih seen hk, List.find?_cons]
      simp [hne]
    · by_cases he : key x = k
      · simp [List.find?_cons, he]
      · rw [List.find?_cons, List.find?_cons]
        simp only [he, decide_false]
        apply ih
        simp only [List.mem_cons, not_or]
        exact ⟨fun h => he h.symm, hk⟩

theorem lookup_proj : ∀ (es : List (Triple × List Epi)) (L : List Denoted), es.map entryProj = L.map denProj → ∀ k,
    ((AList.get? es k).map fun e => (roleProj e, tgtProj e)) =
      (L.find? (fun d => decide (d.triple = k))).map (fun d => (denProj d).2) := by
  intro es
  induction es with
  | nil =>
    intro L h k
    cases L with
    | nil => rfl
    | cons _ _ => simp at h
  | cons x es ih =>
    intro L h k
    cases L with
    | nil => simp at h
    | cons d L =>
      simp only [List.map_cons, List.cons.injEq] at h
      obtain ⟨h1, h2⟩ := h
      obtain ⟨t, e⟩ := x
      simp only [entryProj, denProj, Prod.mk.injEq] at h1
      obtain ⟨hk, hr, hta⟩ := h1
      have := ih L h2 k
      simp only [AList.get?, List.find?_cons] at this ⊢
      by_cases hd : d.triple = k
      · simp [hd, hk, denProj, hr, hta]
      · have : ¬ t = k := by rw [hk]; exact hd
        simp only [hd, this, decide_false]
        assumption

/-- **the alignments survive.** Every triple of `g` is found in `g'` in its decoded form
    (`deinvert1 m g t0`: itself, or inverted if it was written with an inverted role to a variable),
    and that triple of `g'` reports the same role alignment and the same alignment; every triple
    of `g'` arises in this way. -/
theorem alignments_kept {isAlpha : Char → Bool} {m : Model} {g g' : Graph} {T : Tree} {ds : List Denoted}
    (hw : ModelWf m) (hg : WfGraphAl m g) (hal : AlignOK isAlpha m g)
    (hg' : interpret isAlpha m T = .ok g')
    (hread : Spec.Reading.read isAlpha m T.node = .ok ⟨T.node.var, ds⟩)
    (hperm : (g'.triples.map (deinvert1 m g)).Perm (g.triples.map (deinvert1 m g)))
    (hds : ∀ d ∈ ds, ∃ t1 ∈ g.triples, d.triple = deinvert1 m g t1 ∧ colon d.triple = d.triple ∧
        d.roleAln.map (fun a => Epi.roleAln a.1 a.2) = roleAlnOf g t1 ∧
        d.tgtAln.map (fun a => Epi.aln a.1 a.2) = tgtAlnOf g t1) :
    (∀ t0 ∈ g.triples, deinvert1 m g t0 ∈ g'.triples ∧
      roleAlnOf g' (deinvert1 m g t0) = roleAlnOf g t0 ∧ tgtAlnOf g' (deinvert1 m g t0) = tgtAlnOf g t0) ∧
    (∀ x ∈ g'.triples, ∃ t0 ∈ g.triples, x = deinvert1 m g t0) := by
  obtain ⟨v, ds', es, Dd⟩ := decoded hg'
  have hrd := Dd.rd
  rw [hread] at hrd
  simp only [Except.ok.injEq, Reading.mk.injEq] at hrd
  obtain ⟨_, rfl⟩ := hrd
  have htr : g'.triples = ds.map (·.triple) := by
    rw [Dd.triples]
    apply List.map_congr_left
    intro d hd
    obtain ⟨_, _, _, hc, _⟩ := hds d hd
    exact hc
  have hall : ∀ x ∈ g'.triples, ∃ t0 ∈ g.triples, x = deinvert1 m g t0 := by
    intro x hx
    rw [htr] at hx
    obtain ⟨d, hd, rfl⟩ := List.mem_map.1 hx
    obtain ⟨t1, ht1, h1, _⟩ := hds d hd
    exact ⟨t1, ht1, h1⟩
  refine ⟨?_, hall⟩
  intro t0 ht0
  have hmem : deinvert1 m g t0 ∈ g'.triples := by
    have : deinvert1 m g t0 ∈ g'.triples.map (deinvert1 m g) :=
      hperm.symm.subset (List.mem_map.2 ⟨t0, ht0, rfl⟩)
    obtain ⟨x, hx, hxe⟩ := List.mem_map.1 this
    obtain ⟨t1, ht1, rfl⟩ := hall x hx
    rw [deinvert1_idem hw (hg.roles t1 ht1).2.2] at hxe
    rw [← hxe]; exact hx
  refine ⟨hmem, ?_⟩
  rw [htr] at hmem
  obtain ⟨d0, hd0, hd0k⟩ := List.mem_map.1 hmem
  have hfind : ∃ d, ds.find? (fun d => decide (d.triple = deinvert1 m g t0)) = some d := by
    cases hf : ds.find? (fun d => decide (d.triple = deinvert1 m g t0)) with
    | some d => exact ⟨d, rfl⟩
    | none =>
      have := List.find?_eq_none.1 hf d0 hd0
      simp [hd0k] at this
  obtain ⟨d, hfd⟩ := hfind
  have hdm : d ∈ ds := List.mem_of_find?_eq_some hfd
  have hdk : d.triple = deinvert1 m g t0 := by
    have := List.find?_some hfd; simpa using this
  have hlook := lookup_proj g'.epidata (firstOccBy (·.triple) ds) Dd.epimap_proj (deinvert1 m g t0)
  unfold firstOccBy at hlook
  rw [find?_firstOccAux (fun d : Denoted => d.triple) (deinvert1 m g t0) ds [] (by simp), hfd] at hlook
  obtain ⟨t1, ht1, h1, _, hra, hta⟩ := hds d hdm
  have hagree := hal.agree t0 ht0 t1 ht1 (by rw [← h1, hdk])
  cases hget : AList.get? g'.epidata (deinvert1 m g t0) with
  | none => rw [hget] at hlook; simp at hlook
  | some e =>
    rw [hget] at hlook
    simp only [Option.map_some, Option.some.injEq, denProj, Prod.mk.injEq] at hlook
    obtain ⟨hr, htg⟩ := hlook
    constructor
    · show ((episOf g' (deinvert1 m g t0)).filter fun e => e.mode = 1).getLast? = _
      unfold episOf; rw [hget]
      simp only [Option.getD_some]
      have : roleProj e = (e.filter fun x => x.mode = 1).getLast? := rfl
      rw [← this, hr, hra, hagree.1]
    · show ((episOf g' (deinvert1 m g t0)).filter fun e => e.mode = 2).getLast? = _
      unfold episOf; rw [hget]
      simp only [Option.getD_some]
      have : tgtProj e = (e.filter fun x => x.mode = 2).getLast? := rfl
      rw [← this, htg, hta, hagree.2]

end Al
end Cfg
end Penman

/-
  Penman.Basic — shared vocabulary of the model.

  * `Str`      : Python `str` as a list of code points (no surrogates).
  * `Atom`     : an atomic tree/graph value: `None`, a `str`, or a number
                 (carried as the text Python's `str(x)` gives for it).
  * `PyErr`    : the Python exceptions the model can raise, as values.
  * string helpers with the semantics of the Python `str` methods penman uses.

  Core Lean only; no Mathlib in model files.
-/
namespace Penman

abbrev Str := List Char

/-- Atomic values (`penman.tree.is_atomic`): `None`, `str`, `int`/`float`
    (by their `str()` text; a number is never equal to a string). -/
inductive Atom where
  | none
  | str (s : Str)
  | num (text : Str)
deriving DecidableEq, Repr, Inhabited

/-- Python exceptions as values. `other` is anything the properties forbid
    (KeyError, IndexError, AttributeError, ...). `unmodelled` marks inputs
    outside the model's domain; the harness skips and counts them. -/
inductive PyErr where
  | decode (lineno offset : Nat) (kind : Nat)   -- kind 0: end of input, 1: expected ...
  | layout (kind : Nat)    -- 0 top not a variable, 1 possibly disconnected, 2 unknown configuration, 3 incomplete
  | constant
  | model
  | surface
  | graph
  | other (name : String)
  | unmodelled (why : String)
deriving DecidableEq, Repr, Inhabited

def PyErr.isOther : PyErr → Bool
  | .other _ => true
  | _ => false

/-- `target is None or target == ''` -/
def Atom.isMissing : Atom → Bool
  | .none => true
  | .str s => s.isEmpty
  | .num _ => false

/-- `target in vars` (only a `str` can be in a set of variables) -/
def atomInVars (vars : List Str) : Atom → Bool
  | .str s => s ∈ vars
  | _ => false

def tgtStr? : Atom → Option Str | .str s => some s | _ => none

/-! ### Python string methods -/

/-- `s.startswith(p)` -/
def startsWith (p s : Str) : Bool := p.isPrefixOf s
/-- `s.endswith(p)` -/
def endsWith (p s : Str) : Bool := p.isSuffixOf s

/-- drop the last `n` characters: `s[:-n]` for `n ≤ len s` (n > 0) -/
def dropEnd (n : Nat) (s : Str) : Str := s.take (s.length - n)

/-- `s.partition(sep)` for a non-empty `sep`: `(before, found, after)` -/
def partitionStr (sep : Str) : Str → Str × Bool × Str
  | [] => ([], false, [])
  | c :: cs =>
    if sep.isPrefixOf (c :: cs) then ([], true, (c :: cs).drop sep.length)
    else
      let r := partitionStr sep cs
      if r.2.1 then (c :: r.1, true, r.2.2) else (c :: cs, false, [])

/-- index of the last occurrence start of `sep` in `s`, scanning suffixes -/
def rfindAux (sep : Str) : Str → Nat → Option Nat → Option Nat
  | [], _, acc => acc
  | c :: cs, i, acc =>
    rfindAux sep cs (i+1) (if sep.isPrefixOf (c :: cs) then some i else acc)

/-- `s.rpartition(sep)` for a non-empty `sep`: `(before, found, after)`;
    when not found Python returns `('', '', s)`. -/
def rpartitionStr (sep s : Str) : Str × Bool × Str :=
  match rfindAux sep s 0 none with
  | some i => (s.take i, true, s.drop (i + sep.length))
  | none => ([], false, s)

/-- `s.lstrip(c)` for a single character -/
def lstripChar (c : Char) (s : Str) : Str := s.dropWhile (· == c)

/-- `s.rstrip()` w.r.t. a whitespace predicate -/
def rstripBy (p : Char → Bool) (s : Str) : Str := (s.reverse.dropWhile p).reverse

/-- `sep.join(parts)` -/
def joinStr (sep : Str) : List Str → Str
  | [] => []
  | [x] => x
  | x :: y :: r => x ++ sep ++ joinStr sep (y :: r)

/-- `s.split(c)` on a single character (always at least one piece) -/
def splitChar (c : Char) : Str → List Str
  | [] => [[]]
  | x :: xs =>
    if x == c then [] :: splitChar c xs
    else match splitChar c xs with
      | [] => [[x]]
      | p :: ps => (x :: p) :: ps

def isAsciiDigit (c : Char) : Bool := '0' ≤ c && c ≤ '9'
def isAsciiAlpha (c : Char) : Bool := ('a' ≤ c && c ≤ 'z') || ('A' ≤ c && c ≤ 'Z')

/-- decimal value of an all-digit string -/
def natOfDigits (s : Str) : Nat := s.foldl (fun n c => 10 * n + (c.toNat - '0'.toNat)) 0

/-- `str(n)` for a natural number -/
def natToStr (n : Nat) : Str := (toString n).toList

/-! ### association lists with Python `dict` semantics (insertion ordered) -/

abbrev AList (α β : Type) := List (α × β)

namespace AList
variable {α β : Type} [DecidableEq α]

def get? (d : AList α β) (k : α) : Option β := (d.find? (·.1 = k)).map (·.2)
def contains (d : AList α β) (k : α) : Bool := d.any (·.1 = k)
/-- `d[k] = v` : replace in place if present, else append -/
def set : AList α β → α → β → AList α β
  | [], k, v => [(k, v)]
  | (k', v') :: r, k, v => if k' = k then (k', v) :: r else (k', v') :: set r k v
/-- `del d[k]` / `d.pop(k)` -/
def erase (d : AList α β) (k : α) : AList α β := d.filter (·.1 ≠ k)
def keys (d : AList α β) : List α := d.map (·.1)
/-- `dict(pairs)` : later duplicates overwrite earlier values, position of first kept -/
def ofList (l : List (α × β)) : AList α β := l.foldl (fun d p => d.set p.1 p.2) []
/-- `d.update(e)` -/
def update (d e : AList α β) : AList α β := e.foldl (fun d p => d.set p.1 p.2) d
end AList

/-- order-preserving removal of later duplicates -/
def dedup {α : Type} [DecidableEq α] : List α → List α
  | [] => []
  | x :: xs => x :: (dedup xs).filter (· ≠ x)

end Penman

import Penman.Proofs.ResetVars
import Penman.Proofs.ResetIso
/-!
# C10 — relabelling variables is a graph isomorphism

Python: `penman/tree.py` (`Tree.reset_variables`, `_map_vars`,
`_default_variable_prefix`, `_nodes`).  Model: `Penman/Tree.lean`
(`Fmt.render`, `pickVar`, `buildVarmap`, `Node.mapVars`, `Node.resetVariables`)
and `interpret` of `Penman/Layout.lean`.

Clause of the property text ↦ theorem:

* "renames variables by a bijection chosen from the node concepts in
  depth-first order" ↦ `varmap_injective` (key list = tree variables in
  first-occurrence DFS order; values pairwise distinct, hence the map is
  injective; each new name is the rendering, with the prefix of the concept of
  the first node carrying the variable, of the least index not yet taken).
* "with any format" ↦ `renderInj_progressive` (every template mentioning `{i}`
  or `{j}`, with arbitrary literals / prefixes / further index pieces, renders
  distinct indices differently; this is an equivalence: `renderInj_iff`),
  `pickVar_terminates` (pigeonhole: the collision loop stops within
  `|used| + 1` rounds), `reset_total` (the model never reports a hang for a
  progressive template and fails only with `KeyError` for a node without
  variable).  Negative boundary (Python hangs): the `example` after
  `reset_total`.
* "applies it consistently at every definition and every reference (including
  references that carry an alignment), and touches nothing else: roles,
  constants, strings and concepts — even a concept spelled like a variable —
  are unchanged" ↦ `reset_shape` (the result is the shape-preserving total
  renaming `RV.renNode vm`) together with `renaming_clauses` (what `renNode`
  does at each position) and `aln_split` (stem/alignment split).
* "Provided no constant is spelled like a newly generated name, interpreting
  the relabelled tree equals renaming the interpretation of the original" ↦
  `reset_iso` (triples, top, epidata incl. `Push` markers, metadata; also when
  `interpret` fails: the same error).  Hypothesis `WfReset` is decidable; the
  three `example`s after `reset_iso` show that each of its clauses is needed.
  `newNames_clean` derives the name clauses of `WfReset` from a template and
  lower-casing table without `'~'`/`'"'`.
-/
namespace Penman
open RV

/-! ## formats -/

/-- every template that mentions `{i}` or `{j}` is injective in the index, whatever
    literals, prefixes and further index pieces surround it -/
theorem renderInj_progressive (fmt : Fmt) (h : fmt.progressive = true) : RenderInj fmt :=
  renderInj_of_progressive h

/-- … and no other template is -/
theorem renderInj_iff (fmt : Fmt) : RenderInj fmt ↔ fmt.progressive = true :=
  renderInj_iff_progressive fmt

example (s : Str) : RenderInj [.pre, .j] ∧ RenderInj [.pre, .i] ∧ RenderInj [.lit s, .i] ∧
    RenderInj [.pre, .lit s, .i] ∧ RenderInj [.i, .lit s, .j, .pre, .i] :=
  ⟨renderInj_progressive _ rfl, renderInj_progressive _ rfl, renderInj_progressive _ rfl,
   renderInj_progressive _ rfl, renderInj_progressive _ rfl⟩

/-- the collision loop terminates within `used.length + 1` rounds, with a name
    not in `used`: the rendering of the least non-colliding index -/
theorem pickVar_terminates (fmt : Fmt) (h : RenderInj fmt) (pre : Str) (used : List Str) :
    ∃ v k, pickVar fmt pre used (used.length + 1) 0 = some v ∧ v ∉ used ∧
      v = fmt.render pre k ∧ k ≤ used.length ∧ ∀ k', k' < k → fmt.render pre k' ∈ used :=
  pickVar_total h pre used

example : pickVar [.pre, .j] ['a'] [['a'], "a2".toList, "a4".toList] 4 0 = some "a3".toList := by
  decide

/-! ## the variable map -/

/-- The map built by the first pass: its keys are the tree's variables in
    depth-first first-occurrence order; its values are pairwise distinct, so it
    is injective; entry `k` is named by the rendering — with the prefix of the
    concept of the first node carrying that variable — of the least index whose
    rendering was not taken by the entries before it. -/
theorem varmap_injective (isAlpha : Char → Bool) (lower : Char → Str) (fmt : Fmt) (n : Node)
    (vm : AList Str Str) (h : buildVarmap isAlpha lower fmt n.nodes [] [] = some vm) :
    AList.keys vm = dedup n.vars ∧ (AList.keys vm).Nodup ∧ (∀ x, x ∈ AList.keys vm ↔ x ∈ n.vars) ∧
    (vm.map (·.2)).Nodup ∧
    (∀ a b x, AList.get? vm a = some x → AList.get? vm b = some x → a = b) ∧
    ∀ (k : Nat) (hk : k < vm.length), ∃ bs i,
      AList.get? n.nodes vm[k].1 = some bs ∧
      vm[k].2 = fmt.render (defaultPrefix isAlpha lower bs.concept) i ∧
      vm[k].2 ∉ (vm.take k).map (·.2) ∧
      ∀ i', i' < i → fmt.render (defaultPrefix isAlpha lower bs.concept) i' ∈ (vm.take k).map (·.2) := by
  obtain ⟨ext, h1, h2, h3⟩ := buildVarmap_spec n.nodes [] [] vm h (by simp [avals])
  simp only [List.nil_append] at h1
  subst h1
  have hk : AList.keys vm = dedup n.vars := by
    rw [h2, List.filter_eq_self.2 (by simp [AList.keys])]; rfl
  have hn : (avals vm).Nodup := by simpa using ExtOk.nodup_vals h3 (by simp [avals])
  refine ⟨hk, hk ▸ dedup_nodup _, fun x => by rw [hk]; exact mem_dedup, hn,
    fun a b x => get?_inj_of_nodup_vals hn, ?_⟩
  intro k hk
  simpa [EntryOk, avals] using ExtOk.index h3 k hk

/-- with a progressive template the model never reports a hang; the only
    failure is the `KeyError` Python raises for a node without variable -/
theorem reset_total (isAlpha : Char → Bool) (lower : Char → Str) (fmt : Fmt) (n : Node)
    (hp : fmt.progressive = true) :
    (∃ vm, buildVarmap isAlpha lower fmt n.nodes [] [] = some vm) ∧
    (nodeAllVars n = true → ∃ n', n.resetVariables isAlpha lower fmt = .ok n') ∧
    (nodeAllVars n = false → n.resetVariables isAlpha lower fmt = .error (.other "KeyError")) := by
  obtain ⟨vm, hvm⟩ := Option.isSome_iff_exists.1 (buildVarmap_total (isAlpha := isAlpha)
    (lower := lower) hp n.nodes [] [])
  have hkeys := (varmap_injective isAlpha lower fmt n vm hvm).2.2.1
  refine ⟨⟨vm, hvm⟩, ?_, ?_⟩
  · intro hall
    have : nodeMappable vm n = true := (nodeMappable_iff vm n).2 ⟨hall, fun v hv => (hkeys v).2 hv⟩
    exact ⟨renNode vm n, by simp [Node.resetVariables, hvm, node_mapVars_eq, this]⟩
  · intro hall
    have : nodeMappable vm n = false := by
      cases h : nodeMappable vm n with
      | false => rfl
      | true => rw [((nodeMappable_iff vm n).1 h).1] at hall; cases hall
    simp [Node.resetVariables, hvm, node_mapVars_eq, this]

/-- a sample tree `(v1 / v1 :ARG0 v1~e.5 :ARG1 (x / value :mod "v") :ARG2-of (y / Vim :ref x~2 :ref z))` -/
def c10Tree : Node :=
  .mk (some "v1".toList) (.atom ['/'] (.str "v1".toList)
    (.atom ":ARG0".toList (.str "v1~e.5".toList)
    (.sub ":ARG1".toList (.mk (some "x".toList) (.atom ['/'] (.str "value".toList)
        (.atom ":mod".toList (.str "\"v\"".toList) .nil)))
    (.sub ":ARG2-of".toList (.mk (some "y".toList) (.atom ['/'] (.str "Vim".toList)
        (.atom ":ref".toList (.str "x~2".toList) (.atom ":ref".toList (.str "z".toList) .nil)))) .nil))))

def c10Lower (c : Char) : Str := [c.toLower]

/-- all three concepts start with `v`: the names collide and are resolved in DFS order -/
example : buildVarmap isAsciiAlpha c10Lower [.pre, .j] c10Tree.nodes [] [] =
    some [("v1".toList, "v".toList), ("x".toList, "v2".toList), ("y".toList, "v3".toList)] := by
  decide

example : nodeAllVars c10Tree = true := by decide

/-- boundary (Python hangs): a template without `{i}`/`{j}` and two nodes with one prefix -/
example : (match c10Tree.resetVariables isAsciiAlpha c10Lower [.pre] with
    | .error (.unmodelled _) => true | _ => false) = true := by decide

/-! ## shape -/

/-- `reset_variables` returns the shape-preserving renaming `renNode vm` of the
    tree by the map of `varmap_injective`; every node had a variable. -/
theorem reset_shape (isAlpha : Char → Bool) (lower : Char → Str) (fmt : Fmt) (n n' : Node)
    (h : n.resetVariables isAlpha lower fmt = .ok n') :
    ∃ vm, buildVarmap isAlpha lower fmt n.nodes [] [] = some vm ∧ n' = renNode vm n ∧
      nodeAllVars n = true ∧ n'.vars = n.vars.map (renVar vm) ∧
      ∀ v ∈ n.vars, ∃ nv, AList.get? vm v = some nv ∧ renVar vm v = nv := by
  simp only [Node.resetVariables] at h
  split at h
  · cases h
  · rename_i vm hvm
    rw [node_mapVars_eq] at h
    split at h
    · rename_i hmp
      injection h with h
      subst h
      have hm := (nodeMappable_iff vm n).1 hmp
      refine ⟨vm, hvm, rfl, hm.1, renNode_vars vm n, ?_⟩
      intro v hv
      obtain ⟨nv, hnv⟩ := Option.isSome_iff_exists.1 (get?_isSome_iff.2 (hm.2 v hv))
      exact ⟨nv, hnv, by simp [renVar, hnv]⟩
    · cases h

/-- What the renaming does, position by position: node variables are replaced
    by their images; roles are kept; the target of a `/` branch is kept even if
    it is spelled like a variable; `None` and numbers are kept; a string target
    of another role whose stem (text before the first `'~'`) is a key is
    replaced by the image followed by the alignment, verbatim; any other string
    is kept. -/
theorem renaming_clauses (vm : AList Str Str) :
    (∀ v bs, renNode vm (.mk v bs) = .mk (v.map (renVar vm)) (renBranches vm bs)) ∧
    renBranches vm .nil = .nil ∧
    (∀ r a rest, renBranches vm (.atom r a rest) = .atom r (renAtom vm r a) (renBranches vm rest)) ∧
    (∀ r n rest, renBranches vm (.sub r n rest) = .sub r (renNode vm n) (renBranches vm rest)) ∧
    (∀ a, renAtom vm ['/'] a = a) ∧
    (∀ r, renAtom vm r .none = .none) ∧
    (∀ r t, renAtom vm r (.num t) = .num t) ∧
    (∀ r s nv, r ≠ ['/'] → AList.get? vm (alnStem s) = some nv →
      renAtom vm r (.str s) = .str (nv ++ alnSuffix s)) ∧
    (∀ r s, AList.get? vm (alnStem s) = none → renAtom vm r (.str s) = .str s) :=
  ⟨fun _ _ => by simp [renNode], by simp [renBranches], fun _ _ _ => by simp [renBranches],
   fun _ _ _ => by simp [renBranches], renAtom_concept vm, renAtom_none vm, renAtom_num vm,
   fun _ _ _ hr h => renAtom_ref hr h, fun _ _ h => renAtom_other h⟩

/-- stem and alignment of a string: `s = stem ++ suffix`, the stem has no `'~'`
    and the suffix is empty or starts with `'~'` -/
theorem aln_split (s : Str) :
    s = alnStem s ++ alnSuffix s ∧ '~' ∉ alnStem s ∧
      (alnSuffix s = [] ∨ ∃ rest, alnSuffix s = '~' :: rest) :=
  ⟨(partition_tilde_spec s).1, (partition_tilde_spec s).2.1, alnSuffix_shape s⟩

/-- finding F7 repaired: the aligned re-entrancy follows its variable; the
    concept spelled `v1` and the quoted string stay; `z` (no node) stays -/
example : (match c10Tree.resetVariables isAsciiAlpha c10Lower [.pre, .j] with
    | .ok n' => n' ==
      .mk (some "v".toList) (.atom ['/'] (.str "v1".toList)
        (.atom ":ARG0".toList (.str "v~e.5".toList)
        (.sub ":ARG1".toList (.mk (some "v2".toList) (.atom ['/'] (.str "value".toList)
            (.atom ":mod".toList (.str "\"v\"".toList) .nil)))
        (.sub ":ARG2-of".toList (.mk (some "v3".toList) (.atom ['/'] (.str "Vim".toList)
            (.atom ":ref".toList (.str "v2~2".toList) (.atom ":ref".toList (.str "z".toList) .nil)))) .nil))))
    | _ => false) = true := by decide

/-! ## isomorphism -/

/-- Hypotheses of `reset_iso` (decidable):
    * old variables do not start with `'"'`; new names contain no `'~'` and do
      not start with `'"'` (they must read back as variables);
    * `nodeIsoOk`: no string constant (before its alignment) on a non-`/` role is
      spelled like a new name — the property's own proviso; a variable reference
      or nested node hangs on a role that does not yield an `:instance` triple
      (as written or deinverted), and a nested node does not hang on `/`. -/
def WfReset (m : Model) (vm : AList Str Str) (n : Node) : Bool :=
  (AList.keys vm).all (fun k => k.head? != some '"') &&
  (vm.map (·.2)).all (fun nv => !nv.contains '~' && nv.head? != some '"') &&
  nodeIsoOk m vm (n.vars.map (renVar vm)) n

/-- Interpreting the relabelled tree is renaming the interpretation of the
    original: sources, variable targets of non-instance triples, the top, `Push`
    markers and the epidata keys are mapped by the variable map; everything else
    (roles, constants, concepts, alignments, metadata) is unchanged; when
    `interpret` fails on the original it fails identically on the relabelled
    tree. -/
theorem reset_iso (isAlpha isAlpha' : Char → Bool) (lower : Char → Str) (fmt : Fmt) (m : Model)
    (n n' : Node) (md : AList Str Str) (vm : AList Str Str)
    (hvm : buildVarmap isAlpha lower fmt n.nodes [] [] = some vm)
    (h : n.resetVariables isAlpha lower fmt = .ok n')
    (hwf : WfReset m vm n = true) :
    interpret isAlpha' m ⟨n', md⟩ = (interpret isAlpha' m ⟨n, md⟩).map (renGraph vm) := by
  obtain ⟨vm', hvm', hn', hall, _, _⟩ := reset_shape isAlpha lower fmt n n' h
  rw [hvm] at hvm'
  injection hvm' with hvm'
  subst hvm'
  subst hn'
  obtain ⟨_, _, hkeys, hnodup, _, _⟩ := varmap_injective isAlpha lower fmt n vm hvm
  simp only [WfReset, Bool.and_eq_true, List.all_eq_true, bne_iff_ne, ne_eq, Bool.not_eq_true',
    List.contains_eq_mem, decide_eq_false_iff_not] at hwf
  obtain ⟨⟨hq, hnews⟩, hiso⟩ := hwf
  have hv : VmOk vm n.vars :=
    { keys := fun x => (hkeys x).symm
      inj := hnodup
      keysQ := hq
      newsOk := fun k nv hg => hnews nv (List.mem_map.2 ⟨(k, nv), mem_of_get? hg, rfl⟩) }
  have hmp : nodeMappable vm n = true :=
    (nodeMappable_iff vm n).2 ⟨hall, fun v hv' => (hkeys v).2 hv'⟩
  exact interpret_ren isAlpha' m vm n md hv hmp hiso

/-- the name clauses of `WfReset` hold whenever the template's literals and the
    lower-casing table produce neither `'~'` nor `'"'` -/
theorem newNames_clean (isAlpha : Char → Bool) (lower : Char → Str) (fmt : Fmt) (n : Node)
    (vm : AList Str Str) (hvm : buildVarmap isAlpha lower fmt n.nodes [] [] = some vm)
    (hf : fmtClean fmt = true) (hl : ∀ c, isAlpha c = true → cleanStr (lower c) = true) :
    (vm.map (·.2)).all (fun nv => !nv.contains '~' && nv.head? != some '"') = true := by
  simp only [List.all_eq_true, List.mem_map, Bool.and_eq_true, Bool.not_eq_true',
    List.contains_eq_mem, decide_eq_false_iff_not, bne_iff_ne, ne_eq]
  rintro nv ⟨e, he, rfl⟩
  obtain ⟨k, hk, rfl⟩ := List.mem_iff_getElem.1 he
  obtain ⟨bs, i, _, h2, _⟩ := (varmap_injective isAlpha lower fmt n vm hvm).2.2.2.2.2 k hk
  rw [h2]
  exact cleanStr_spec (render_clean hf (defaultPrefix_clean hl _) i)

def c10Vm : AList Str Str :=
  [("v1".toList, "v".toList), ("x".toList, "v2".toList), ("y".toList, "v3".toList)]

/-- non-vacuity: the sample tree (concept spelled like a variable, aligned
    re-entrancies, quoted string, inverted role, colliding prefixes) satisfies
    every hypothesis of `reset_iso` -/
example : buildVarmap isAsciiAlpha c10Lower [.pre, .j] c10Tree.nodes [] [] = some c10Vm ∧
    (c10Tree.resetVariables isAsciiAlpha c10Lower [.pre, .j]).toBool = true ∧
    WfReset {} c10Vm c10Tree = true ∧
    (interpret isAsciiAlpha {} ⟨c10Tree, []⟩).toBool = true := by decide

/-! ### each clause of `WfReset` is needed (counterexamples, by evaluation) -/

/-- the triples of `interpret (reset t)` and of `rename (interpret t)` -/
def c10Sides (fmt : Fmt) (n : Node) : Option (List Triple) × Option (List Triple) :=
  match buildVarmap isAsciiAlpha c10Lower fmt n.nodes [] [],
        n.resetVariables isAsciiAlpha c10Lower fmt with
  | some vm, .ok n' =>
    ((interpret isAsciiAlpha {} ⟨n', []⟩).toOption.map (·.triples),
     ((interpret isAsciiAlpha {} ⟨n, []⟩).map (renGraph vm)).toOption.map (·.triples))
  | _, _ => (none, none)

/-- (a) a constant spelled like a new name — the property's proviso:
    `(x / foo :ARG0-of f)` becomes `(f / foo :ARG0-of f)`, whose constant `f` now
    reads as a re-entrancy and is deinverted -/
example :
    let t : Node := .mk (some ['x']) (.atom ['/'] (.str "foo".toList)
      (.atom ":ARG0-of".toList (.str ['f']) .nil))
    WfReset {} [(['x'], ['f'])] t = false ∧
    c10Sides [.pre, .j] t =
      (some [⟨['f'], ":instance".toList, .str "foo".toList⟩, ⟨['f'], ":ARG0".toList, .str ['f']⟩],
       some [⟨['f'], ":instance".toList, .str "foo".toList⟩, ⟨['f'], ":ARG0-of".toList, .str ['f']⟩]) := by
  decide

/-- (b) a variable reference on an explicit `:instance` role is relabelled by
    `_map_vars` although, in the graph, an instance target is a concept:
    `(x / A :instance y :ARG0 (y / B))` -/
example :
    let t : Node := .mk (some ['x']) (.atom ['/'] (.str ['A'])
      (.atom ":instance".toList (.str ['y'])
      (.sub ":ARG0".toList (.mk (some ['y']) (.atom ['/'] (.str ['B']) .nil)) .nil)))
    WfReset {} [(['x'], ['a']), (['y'], ['b'])] t = false ∧
    (c10Sides [.pre, .j] t).1 ≠ (c10Sides [.pre, .j] t).2 := by
  decide

/-- (c) a template whose literal contains `'~'`: the new name `f~0` reads back as
    `f` with an alignment: `(x / foo :ARG0 (y / bar :ARG1 x))` with `{prefix}~{i}` -/
example :
    let t : Node := .mk (some ['x']) (.atom ['/'] (.str "foo".toList)
      (.sub ":ARG0".toList (.mk (some ['y']) (.atom ['/'] (.str "bar".toList)
        (.atom ":ARG1".toList (.str ['x']) .nil))) .nil))
    WfReset {} [(['x'], "f~0".toList), (['y'], "b~0".toList)] t = false ∧
    (c10Sides [.pre, .lit ['~'], .i] t).1 ≠ (c10Sides [.pre, .lit ['~'], .i] t).2 := by
  decide

/-- (d) an old variable starting with `'"'`: `_map_vars` splits the quoted string
    `"a~b"~1` at its first `'~'` and finds the "variable" `"a`:
    `(x / foo :ARG0 "a~b"~1 :ARG1 ("a / bar))` -/
example :
    let t : Node := .mk (some ['x']) (.atom ['/'] (.str "foo".toList)
      (.atom ":ARG0".toList (.str "\"a~b\"~1".toList)
      (.sub ":ARG1".toList (.mk (some "\"a".toList) (.atom ['/'] (.str "bar".toList) .nil)) .nil)))
    WfReset {} [(['x'], ['f']), ("\"a".toList, ['b'])] t = false ∧
    (c10Sides [.pre, .j] t).1 ≠ (c10Sides [.pre, .j] t).2 := by
  decide

end Penman


/-
  Penman.Spec.TripleAutomaton — an independent recogniser for triple
  conjunctions (`penman.codec.PENMANCodec.parse_triples`)

      Conj   := Triple ('^' Triple)*
      Triple := Role '(' Source ','? Target? ')'

  over the tokens of the *triple* lexer pattern (SYMBOL, STRING, LPAREN,
  RPAREN, COMMENT, UNEXPECTED).  The lexer does not know the comma and the
  conjunction sign: they arrive inside SYMBOL tokens.  The documented lexical
  quirks are therefore part of the grammar and are explicit here:

    * the comma may be glued to the source (`a,`), to the target (`,b`), to
      both (`a,b` : one SYMBOL) or stand alone (`,`);
    * the conjunction sign may stand alone (`^`) or be glued to the next role
      (`^role`);
    * a role gets a leading `:` if it has none;
    * after a complete triple, anything that is not a SYMBOL starting with
      `^` ENDS the conjunction: the rest of the input is ignored (recorded
      behaviour, like `parse` ignoring what follows the first graph).

  It is an *iterative* finite-state machine: one transition per token, a
  small state enum carrying the parts of the triple under construction, and
  the list of completed triples.  It is not shaped like the recursive code of
  `Penman.Parse` and does not import it.

  Outcome of a run: the list of triples, or the first token that has no
  transition, or "input exhausted".  `Outcome.report` turns this into what
  `penman` reports: the offending token's `(lineno, offset)` (kind 1), or the
  end of the last token of the whole input (kind 0).
-/
import Penman.Lexer
import Penman.Model
import Penman.Spec.Automaton
namespace Penman.Spec.TripleAutomaton
open Penman
open Penman.Spec.Automaton (endPos isAtomTok)

/-! ### the lexical quirks -/

/-- the part of a SYMBOL text before its first comma (all of it if there is none) -/
def beforeComma (s : Str) : Str := s.takeWhile (· != ',')

/-- the part of a SYMBOL text after its first comma; `none` : no comma -/
def afterComma (s : Str) : Option Str :=
  match s.dropWhile (· != ',') with
  | [] => none
  | _ :: b => some b

/-- a role gets a leading colon if it has none -/
def withColon : Str → Str
  | ':' :: r => ':' :: r
  | r => ':' :: r

/-! ### the machine -/

inductive State where
  /-- at the start, or after a lone `^` : a role -/
  | expectRole
  /-- after the role : `(` -/
  | expectOpen (role : Str)
  /-- after `(` : the source, a SYMBOL (possibly `a,` or `a,b`) -/
  | expectSource (role : Str)
  /-- after the source; `sawComma` : a comma has been read (glued to the
      source or alone).  A target, a comma, or `)` (no target) -/
  | afterSource (role src : Str) (sawComma : Bool)
  /-- after the target : `)` -/
  | expectClose (role src tgt : Str)
  /-- after `)` : `^`, `^role`, or the end of the conjunction -/
  | afterTriple

structure Config where
  st : State
  /-- the completed triples, in order -/
  done : List Triple

inductive Step where
  | next (c : Config)
  /-- the conjunction ends before this token -/
  | stop (trs : List Triple)
  | reject

/-- the transition function: exactly one token is consumed per transition -/
def step : Config → Tok → Step
  | ⟨.expectRole, acc⟩, t =>
    if t.ty = .SYMBOL then .next ⟨.expectOpen (withColon t.text), acc⟩ else .reject
  | ⟨.expectOpen role, acc⟩, t =>
    if t.ty = .LPAREN then .next ⟨.expectSource role, acc⟩ else .reject
  | ⟨.expectSource role, acc⟩, t =>
    if t.ty = .SYMBOL then
      match afterComma t.text with
      | none => .next ⟨.afterSource role (beforeComma t.text) false, acc⟩      -- `a`
      | some [] => .next ⟨.afterSource role (beforeComma t.text) true, acc⟩    -- `a,`
      | some b => .next ⟨.expectClose role (beforeComma t.text) b, acc⟩        -- `a,b`
    else .reject
  | ⟨.afterSource role src comma, acc⟩, t =>
    if t.ty = .RPAREN then .next ⟨.afterTriple, acc ++ [⟨src, role, .none⟩]⟩   -- no target
    else if comma then
      if isAtomTok t then .next ⟨.expectClose role src t.text, acc⟩ else .reject
    else if t.ty = .SYMBOL then
      match t.text with
      | [','] => .next ⟨.afterSource role src true, acc⟩                       -- `,`
      | ',' :: b => .next ⟨.expectClose role src b, acc⟩                       -- `,b`
      | _ => .reject
    else .reject
  | ⟨.expectClose role src tgt, acc⟩, t =>
    if t.ty = .RPAREN then .next ⟨.afterTriple, acc ++ [⟨src, role, .str tgt⟩]⟩ else .reject
  | ⟨.afterTriple, acc⟩, t =>
    if t.ty = .SYMBOL then
      match t.text with
      | ['^'] => .next ⟨.expectRole, acc⟩                                      -- `^`
      | '^' :: r => .next ⟨.expectOpen (withColon r), acc⟩                     -- `^role`
      | _ => .stop acc
    else .stop acc

inductive Outcome where
  /-- the triples of the conjunction -/
  | accept (trs : List Triple)
  /-- the first token with no transition -/
  | rejectAt (t : Tok)
  /-- input ran out inside a triple (or before the first one) -/
  | exhausted

/-- end of input: fine after a complete triple, an error anywhere else -/
def atEnd : Config → Outcome
  | ⟨.afterTriple, acc⟩ => .accept acc
  | _ => .exhausted

/-- run from a configuration -/
def loop : Config → List Tok → Outcome
  | cfg, [] => atEnd cfg
  | cfg, t :: ts =>
    match step cfg t with
    | .next cfg' => loop cfg' ts
    | .stop trs => .accept trs
    | .reject => .rejectAt t

def init : Config := ⟨.expectRole, []⟩

def runOutcome (toks : List Tok) : Outcome := loop init toks

/-- what is reported for an outcome, given the whole input `all` -/
def Outcome.report (all : List Tok) : Outcome → Except PyErr (List Triple)
  | .accept trs => .ok trs
  | .rejectAt t => .error (.decode t.lineno t.offset 1)
  | .exhausted => .error (.decode (endPos all).1 (endPos all).2 0)

/-- the recogniser: the triples, or the position and kind of the error -/
def run (toks : List Tok) : Except PyErr (List Triple) := (runOutcome toks).report toks

/-! ### the language of the machine -/

/-- the configuration reached after reading all of `toks` without rejecting
    or stopping -/
def steps : Config → List Tok → Option Config
  | cfg, [] => some cfg
  | cfg, t :: ts =>
    match step cfg t with
    | .next cfg' => steps cfg' ts
    | _ => none

/-- `toks` starts with a complete conjunction -/
def Accepts (toks : List Tok) : Prop := ∃ trs, runOutcome toks = .accept trs

/-- `pre` can be extended to an accepted input -/
def Viable (pre : List Tok) : Prop := ∃ ext, Accepts (pre ++ ext)

end Penman.Spec.TripleAutomaton


/-
  Penman.Proofs.NormalFormTree — tree-level machinery for the "normal form" clause of C20:
  a generic preservation principle for `rearrangeNode` (`RearrStable`), the predicate
  "every role of the tree satisfies `p`" (`allRolesN`), and basic facts about
  `dropNullConcept` (variables, no empty concept slot left).
-/
import Penman.Proofs.RearrangeInterp
import Penman.Spec.WfLayout
import Penman.Spec.Role
namespace Penman.NF
open Penman Penman.RA

/-! ### branch lists as lists -/

theorem toList_eq_nil : ∀ {bs : Branches}, bs.toList = [] → bs = .nil
  | .nil, _ => rfl
  | .atom .., h => by simp [Branches.toList] at h
  | .sub .., h => by simp [Branches.toList] at h

theorem toList_split (bs : Branches) : bs.toList = bs.leading.toList ++ bs.sortedPart.toList := by
  rw [← Branches.toList_append, Branches.leading_append_sortedPart]

theorem mem_of_mem_sortedPart {bs : Branches} {b : Branch} (h : b ∈ bs.sortedPart.toList) : b ∈ bs.toList :=
  (Branches.sortedPart_sublist bs).subset h

theorem mem_of_mem_leading {bs : Branches} {b : Branch} (h : b ∈ bs.leading.toList) : b ∈ bs.toList := by
  rw [toList_split]; exact List.mem_append_left _ h

/-! ### a generic preservation principle for `rearrangeNode` -/

/-- `P` (on nodes) with edge predicate `E` (relative to the variable of the node) is stable
    under `_rearrange`: `P` of a node gives `E` of every branch that is sorted, `P` is rebuilt from
    the leading `/` branch and any list of as many `E`-branches, and `E` of a node-branch is
    `P` of the nested node plus something that does not depend on that node. -/
structure RearrStable (P : Node → Prop) (E : Option Str → Branch → Prop) : Prop where
  decomp : ∀ v bs, P (.mk v bs) → ∀ b ∈ bs.sortedPart.toList, E v b
  rebuild : ∀ v bs x, P (.mk v bs) → x.toList.length = bs.sortedPart.toList.length →
    (∀ b ∈ x.toList, E v b) → P (.mk v (bs.leading.append x))
  sub : ∀ v r n, E v (r, .node n) → P n
  resub : ∀ v r n n', E v (r, .node n) → P n' → E v (r, .node n')

section
variable {P : Node → Prop} {E : Option Str → Branch → Prop}

mutual
theorem rearrangeNode_stable (h : RearrStable P E) (m : Model) (vars : List Str)
    (key : Option (List KeyFn)) : ∀ n : Node, P n → P (rearrangeNode m vars key n)
  | .mk v bs, hp => by
    rw [rearrangeNode_eq, rearrangeKids_eq_map]
    refine h.rebuild v bs _ hp ?_ ?_
    · rw [Branches.toList_ofList, (sortBranches_perm m vars key _).length_eq, List.length_map]
    · intro b hb
      rw [Branches.toList_ofList] at hb
      have hb' := (sortBranches_perm m vars key _).mem_iff.1 hb
      obtain ⟨b0, hb0, rfl⟩ := List.mem_map.1 hb'
      exact rearrangeBranch_stable h m vars key v bs b0 (mem_of_mem_sortedPart hb0) (h.decomp v bs hp b0 hb0)
theorem rearrangeBranch_stable (h : RearrStable P E) (m : Model) (vars : List Str)
    (key : Option (List KeyFn)) (v : Option Str) : ∀ (bs : Branches) (b : Branch), b ∈ bs.toList → E v b →
    E v (rearrangeBranch m vars key b)
  | .nil, b, hb, _ => by simp [Branches.toList] at hb
  | .atom r a rest, b, hb, he => by
    simp only [Branches.toList, List.mem_cons] at hb
    rcases hb with rfl | hb
    · exact he
    · exact rearrangeBranch_stable h m vars key v rest b hb he
  | .sub r n rest, b, hb, he => by
    simp only [Branches.toList, List.mem_cons] at hb
    rcases hb with rfl | hb
    · exact h.resub v r n _ he (rearrangeNode_stable h m vars key n (h.sub v r n he))
    · exact rearrangeBranch_stable h m vars key v rest b hb he
end
end

/-! ### every role of the tree satisfies `p` -/

mutual
def allRolesN (p : Str → Prop) : Node → Prop
  | .mk _ bs => allRolesB p bs
def allRolesB (p : Str → Prop) : Branches → Prop
  | .nil => True
  | .atom r _ rest => p r ∧ allRolesB p rest
  | .sub r n rest => p r ∧ allRolesN p n ∧ allRolesB p rest
end

/-- the edge predicate of `allRolesN` -/
def roleEdge (p : Str → Prop) (b : Branch) : Prop :=
  p b.1 ∧ (match b.2 with | .node n => allRolesN p n | .atom _ => True)

theorem allRolesB_iff (p : Str → Prop) : ∀ bs : Branches, allRolesB p bs ↔ ∀ b ∈ bs.toList, roleEdge p b
  | .nil => by simp [allRolesB, Branches.toList]
  | .atom r a rest => by
    simp [allRolesB, Branches.toList, roleEdge, allRolesB_iff p rest]
  | .sub r n rest => by
    simp [allRolesB, Branches.toList, roleEdge, allRolesB_iff p rest, and_assoc]

theorem allRoles_stable (p : Str → Prop) : RearrStable (allRolesN p) (fun _ b => roleEdge p b) where
  decomp := fun v bs hp b hb => (allRolesB_iff p bs).1 hp b (mem_of_mem_sortedPart hb)
  rebuild := fun v bs x hp _ hx => by
    show allRolesB p _
    rw [allRolesB_iff, Branches.toList_append]
    intro b hb
    rcases List.mem_append.1 hb with hb | hb
    · exact (allRolesB_iff p bs).1 hp b (mem_of_mem_leading hb)
    · exact hx b hb
  sub := fun _ _ _ h => h.2
  resub := fun _ _ _ _ h h' => ⟨h.1, h'⟩

mutual
theorem allRolesN_sameShape (p : Str → Prop) : ∀ n : Node,
    allRolesN p n ↔ Node.sameShape (fun _ r' => p r') n n
  | .mk v bs => by simp [allRolesN, Node.sameShape, allRolesB_sameShape p bs]
theorem allRolesB_sameShape (p : Str → Prop) : ∀ bs : Branches,
    allRolesB p bs ↔ Branches.sameShape (fun _ r' => p r') bs bs
  | .nil => by simp [allRolesB, Branches.sameShape]
  | .atom r a rest => by simp [allRolesB, Branches.sameShape, allRolesB_sameShape p rest]
  | .sub r n rest => by
    simp [allRolesB, Branches.sameShape, allRolesB_sameShape p rest, allRolesN_sameShape p n]
end

mutual
theorem allRolesN_dropNull (p : Str → Prop) : ∀ n : Node, allRolesN p n → allRolesN p (dropNullConcept n)
  | .mk v bs, h => by
    simp only [dropNullConcept, allRolesN] at h ⊢
    exact allRolesB_dropNull p bs h
theorem allRolesB_dropNull (p : Str → Prop) : ∀ bs : Branches, allRolesB p bs → allRolesB p (dropNullBranches bs)
  | .nil, _ => by simp [dropNullBranches, allRolesB]
  | .atom r a rest, h => by
    simp only [allRolesB] at h
    simp only [dropNullBranches]
    split
    · exact allRolesB_dropNull p rest h.2
    · exact ⟨h.1, allRolesB_dropNull p rest h.2⟩
  | .sub r n rest, h => by
    simp only [allRolesB] at h
    simp only [dropNullBranches, allRolesB]
    exact ⟨h.1, allRolesN_dropNull p n h.2.1, allRolesB_dropNull p rest h.2.2⟩
end

/-! ### `dropNullConcept`: variables, no empty slot left -/

mutual
theorem dropNull_nodes : ∀ n : Node, (dropNullConcept n).nodes.map (·.1) = n.nodes.map (·.1)
  | .mk v bs => by
    cases v <;> simp [dropNullConcept, Node.nodes, dropNullB_nodes bs]
theorem dropNullB_nodes : ∀ bs : Branches, (dropNullBranches bs).nodes.map (·.1) = bs.nodes.map (·.1)
  | .nil => rfl
  | .atom r a rest => by
    simp only [dropNullBranches]
    split <;> simp [Branches.nodes, dropNullB_nodes rest]
  | .sub r n rest => by
    simp [dropNullBranches, Branches.nodes, dropNull_nodes n, dropNullB_nodes rest]
end

theorem dropNull_vars (n : Node) : (dropNullConcept n).vars = n.vars := dropNull_nodes n

theorem dropNull_var (n : Node) : (dropNullConcept n).var = n.var := by
  cases n; rfl

mutual
theorem noNull_dropNull : ∀ n : Node, noNullN (dropNullConcept n) = true
  | .mk v bs => by simp [dropNullConcept, noNullN, noNullB_dropNull bs]
theorem noNullB_dropNull : ∀ bs : Branches, noNullB (dropNullBranches bs) = true
  | .nil => rfl
  | .atom r a rest => by
    simp only [dropNullBranches]
    split
    · exact noNullB_dropNull rest
    · rename_i h; simp [noNullB, h, noNullB_dropNull rest]
  | .sub r n rest => by
    simp [dropNullBranches, noNullB, noNull_dropNull n, noNullB_dropNull rest]
end

/-- the edge predicate of `noNullN` -/
def noNullEdge (b : Branch) : Prop :=
  match b with
  | (r, .atom a) => ¬ (r = ['/'] ∧ a = .none)
  | (_, .node n) => noNullN n = true

theorem noNullB_iff : ∀ bs : Branches, noNullB bs = true ↔ ∀ b ∈ bs.toList, noNullEdge b
  | .nil => by simp [noNullB, Branches.toList]
  | .atom r a rest => by
    simp only [noNullB, Branches.toList, List.mem_cons, forall_eq_or_imp, noNullEdge, noNullB_iff rest,
      Bool.and_eq_true, Bool.not_eq_true', decide_eq_false_iff_not]
  | .sub r n rest => by
    simp only [noNullB, Branches.toList, List.mem_cons, forall_eq_or_imp, noNullEdge, noNullB_iff rest,
      Bool.and_eq_true]

theorem noNull_stable : RearrStable (fun n => noNullN n = true) (fun _ b => noNullEdge b) where
  decomp := fun v bs hp b hb => (noNullB_iff bs).1 hp b (mem_of_mem_sortedPart hb)
  rebuild := fun v bs x hp _ hx => by
    show noNullB _ = true
    rw [noNullB_iff, Branches.toList_append]
    intro b hb
    rcases List.mem_append.1 hb with hb | hb
    · exact (noNullB_iff bs).1 hp b (mem_of_mem_leading hb)
    · exact hx b hb
  sub := fun _ _ _ h => h
  resub := fun _ _ _ _ _ h' => h'

theorem noNull_rearrange (m : Model) (vars : List Str) (key : Option (List KeyFn)) (n : Node)
    (h : noNullN n = true) : noNullN (rearrangeNode m vars key n) = true :=
  rearrangeNode_stable noNull_stable m vars key n h

end Penman.NF


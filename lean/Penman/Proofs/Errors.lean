/-
  Penman.Proofs.Errors — `Model.errors` is the dict built from an explicit
  list of `(context, message)` pairs (`errList`); membership of a message
  under a context is membership in that list; the list is characterised in
  terms of `Model.hasRole` and `Reach`.
-/
import Penman.Proofs.Dfs
import Penman.Proofs.SortStrs
namespace Penman

/-! ### association lists -/

section AListLemmas
variable {α β : Type} [DecidableEq α]

theorem AList.get?_set_eq (d : AList α β) (k k' : α) (v : β) :
    AList.get? (d.set k v) k' = if k = k' then some v else AList.get? d k' := by
  induction d with
  | nil =>
    simp only [AList.set, AList.get?, List.find?_cons, List.find?_nil]
    by_cases h : k = k' <;> simp [h]
  | cons p r ih =>
    obtain ⟨a, b⟩ := p
    simp only [AList.set]
    by_cases hak : a = k
    · subst hak
      rw [if_pos rfl]
      by_cases h : a = k'
      · simp [AList.get?, h]
      · simp [AList.get?, h]
    · rw [if_neg hak]
      by_cases h : a = k'
      · subst h
        simp [AList.get?, Ne.symm hak]
      · have := ih
        simp only [AList.get?] at this ⊢
        simp only [List.find?_cons, h, decide_false]
        exact this

theorem AList.mem_set (d : AList α β) (k : α) (v : β) (p : α × β) (h : p ∈ d.set k v) :
    p ∈ d ∨ p = (k, v) := by
  induction d with
  | nil =>
    simp only [AList.set, List.mem_singleton] at h
    exact Or.inr h
  | cons q r ih =>
    obtain ⟨a, b⟩ := q
    simp only [AList.set] at h
    by_cases hak : a = k
    · rw [if_pos hak] at h
      rcases List.mem_cons.1 h with h | h
      · exact Or.inr (by rw [h, hak])
      · exact Or.inl (List.mem_cons_of_mem _ h)
    · rw [if_neg hak] at h
      rcases List.mem_cons.1 h with h | h
      · exact Or.inl (h ▸ List.mem_cons_self ..)
      · rcases ih h with h | h
        · exact Or.inl (List.mem_cons_of_mem _ h)
        · exact Or.inr h

theorem AList.set_ne_nil (d : AList α β) (k : α) (v : β) : d.set k v ≠ [] := by
  cases d with
  | nil => simp [AList.set]
  | cons q r =>
    obtain ⟨a, b⟩ := q
    simp only [AList.set]
    split <;> simp

theorem AList.keys_set (d : AList α β) (k : α) (v : β) :
    (d.set k v).map (·.1) = if k ∈ d.map (·.1) then d.map (·.1) else d.map (·.1) ++ [k] := by
  induction d with
  | nil => simp [AList.set]
  | cons q r ih =>
    obtain ⟨a, b⟩ := q
    simp only [AList.set]
    by_cases hak : a = k
    · subst hak
      simp
    · rw [if_neg hak]
      simp only [List.map_cons, ih, List.mem_cons]
      by_cases hk : k ∈ r.map (·.1)
      · simp [hk]
      · simp [hk, Ne.symm hak]

theorem AList.get?_of_mem (d : AList α β) (k : α) (v : β)
    (hn : (d.map (·.1)).Nodup) (h : (k, v) ∈ d) : AList.get? d k = some v := by
  induction d with
  | nil => cases h
  | cons q r ih =>
    obtain ⟨a, b⟩ := q
    simp only [List.map_cons, List.nodup_cons] at hn
    rcases List.mem_cons.1 h with h | h
    · cases h
      simp [AList.get?]
    · have hne : a ≠ k := by
        intro e
        subst e
        exact hn.1 (List.mem_map.2 ⟨(a, v), h, rfl⟩)
      have := ih hn.2 h
      simp only [AList.get?] at this ⊢
      simp only [List.find?_cons, hne, decide_false]
      exact this

theorem AList.mem_of_get? (d : AList α β) (k : α) (v : β) (h : AList.get? d k = some v) :
    (k, v) ∈ d := by
  simp only [AList.get?, Option.map_eq_some_iff] at h
  obtain ⟨p, hp, hv⟩ := h
  have h1 := List.find?_some hp
  have h2 := List.mem_of_find?_eq_some hp
  simp only [decide_eq_true_eq] at h1
  obtain ⟨a, b⟩ := p
  simp only at h1 hv
  subst h1; subst hv
  exact h2

end AListLemmas

/-! ### the dict `err` as a fold of `err[k].append(msg)` -/

abbrev ErrDict := AList (Option Triple) (List Nat)

/-- `err[k].append(msg)` on a `defaultdict(list)` -/
def errAdd (d : ErrDict) (k : Option Triple) (msg : Nat) : ErrDict :=
  d.set k ((AList.get? d k).getD [] ++ [msg])

/-- append a whole list of `(context, message)` pairs -/
def errAddAll (d : ErrDict) (l : List (Option Triple × Nat)) : ErrDict :=
  l.foldl (fun d p => errAdd d p.1 p.2) d

theorem codes_errAdd (d : ErrDict) (k k' : Option Triple) (msg : Nat) :
    codes (errAdd d k msg) k' = if k = k' then codes d k ++ [msg] else codes d k' := by
  simp only [codes, errAdd, AList.get?_set_eq]
  by_cases h : k = k' <;> simp [h]

theorem codes_errAddAll (d : ErrDict) (l : List (Option Triple × Nat)) (k : Option Triple) :
    codes (errAddAll d l) k = codes d k ++ (l.filter (fun p => p.1 = k)).map (·.2) := by
  induction l generalizing d with
  | nil => simp [errAddAll]
  | cons p l ih =>
    have : errAddAll d (p :: l) = errAddAll (errAdd d p.1 p.2) l := rfl
    rw [this, ih, codes_errAdd]
    by_cases h : p.1 = k
    · simp [h]
    · simp [h]

theorem errAddAll_append (d : ErrDict) (l₁ l₂ : List (Option Triple × Nat)) :
    errAddAll d (l₁ ++ l₂) = errAddAll (errAddAll d l₁) l₂ := by
  simp [errAddAll, List.foldl_append]

theorem errAddAll_eq_nil (d : ErrDict) (l : List (Option Triple × Nat)) :
    errAddAll d l = [] ↔ d = [] ∧ l = [] := by
  induction l generalizing d with
  | nil => simp [errAddAll]
  | cons p l ih =>
    have : errAddAll d (p :: l) = errAddAll (errAdd d p.1 p.2) l := rfl
    rw [this, ih]
    simp [errAdd, AList.set_ne_nil]

/-- entries are never empty lists, keys are never repeated -/
def ErrDictWf (d : ErrDict) : Prop := (∀ p ∈ d, p.2 ≠ []) ∧ (d.map (·.1)).Nodup

theorem errAdd_wf (d : ErrDict) (k : Option Triple) (msg : Nat) (h : ErrDictWf d) :
    ErrDictWf (errAdd d k msg) := by
  constructor
  · intro p hp
    rcases AList.mem_set _ _ _ _ hp with hp | hp
    · exact h.1 p hp
    · rw [hp]; simp
  · simp only [errAdd, AList.keys_set]
    split
    · exact h.2
    · rename_i hk
      rw [List.nodup_append]
      refine ⟨h.2, by simp, ?_⟩
      intro a ha b hb
      simp only [List.mem_singleton] at hb
      subst hb
      intro e
      exact hk (e ▸ ha)

theorem errAddAll_wf (d : ErrDict) (l : List (Option Triple × Nat)) (h : ErrDictWf d) :
    ErrDictWf (errAddAll d l) := by
  induction l generalizing d with
  | nil => exact h
  | cons p l ih => exact ih _ (errAdd_wf d p.1 p.2 h)

theorem errAddAll_nil_wf (l : List (Option Triple × Nat)) : ErrDictWf (errAddAll [] l) :=
  errAddAll_wf [] l ⟨fun _ h => (nomatch h), List.nodup_nil⟩

/-- folds that add conditionally / in nested loops are `errAddAll` of an explicit list -/
theorem foldl_cond_add {α : Type} (l : List α) (p : α → Bool) (key : α → Option Triple) (msg : Nat)
    (d : ErrDict) :
    l.foldl (fun d x => if p x then d else errAdd d (key x) msg) d =
      errAddAll d ((l.filter (fun x => !p x)).map (fun x => (key x, msg))) := by
  induction l generalizing d with
  | nil => rfl
  | cons a l ih =>
    simp only [List.foldl_cons, ih, List.filter_cons]
    by_cases h : p a = true
    · simp [h]
    · simp only [h, Bool.false_eq_true, if_false]
      simp only [Bool.not_eq_true] at h
      simp [errAddAll]

theorem foldl_add {α : Type} (l : List α) (key : α → Option Triple) (msg : Nat) (d : ErrDict) :
    l.foldl (fun d x => errAdd d (key x) msg) d = errAddAll d (l.map (fun x => (key x, msg))) := by
  simp [errAddAll, List.foldl_map]

theorem foldl_nested {α β γ : Type} (l : List α) (f : α → List β) (h : γ → β → γ) (d : γ) :
    l.foldl (fun d u => (f u).foldl h d) d = (l.flatMap f).foldl h d := by
  induction l generalizing d with
  | nil => rfl
  | cons a l ih => simp [List.flatMap_cons, List.foldl_append, ih]

/-! ### the explicit list of errors -/

/-- the "invalid role" entries, in triple order -/
def roleErrs (m : Model) (g : Graph) : List (Option Triple × Nat) :=
  (g.triples.filter (fun t => !m.hasRole t.role)).map (fun t => (some t, E_ROLE))

/-- the unreachable variables in the order they are reported -/
def unreachVars (g : Graph) (top : Str) : List Str :=
  sortStrs (g.srcs.filter (· ∉ reachable g top))

/-- the "unreachable" entries: per unreachable variable in sorted order, its triples -/
def unreachErrs (g : Graph) (top : Str) : List (Option Triple × Nat) :=
  ((unreachVars g top).flatMap (fun u => g.triples.filter (·.src = u))).map
    (fun t => (some t, E_UNREACH))

/-- every `(context, message)` pair `Model.errors` records, in order -/
def errList (m : Model) (g : Graph) : List (Option Triple × Nat) :=
  if g.triples.isEmpty then [(none, E_EMPTY)]
  else roleErrs m g ++
    match g.getTop with
    | none => [(none, E_NOTOP)]
    | some top =>
      if top.isEmpty then [(none, E_NOTOP)]
      else if top ∉ g.srcs then [(none, E_TOPVAR)]
      else unreachErrs g top

/-- the first loop of `Model.errors` -/
def roleFold (m : Model) (g : Graph) : ErrDict :=
  g.triples.foldl (fun (d : ErrDict) (t : Triple) => if m.hasRole t.role then d else errAdd d (some t) 0) []

theorem errors_eq_errAddAll (m : Model) (g : Graph) : m.errors g = errAddAll [] (errList m g) := by
  unfold Model.errors errList
  by_cases he : g.triples.isEmpty = true
  · simp only [he, if_true]
    rfl
  · simp only [he, Bool.false_eq_true, if_false]
    change (match g.getTop with
      | none => errAdd (roleFold m g) none 3
      | some top =>
        if top.isEmpty then errAdd (roleFold m g) none 3
        else if top ∉ g.srcs then errAdd (roleFold m g) none 4
        else (sortStrs (g.srcs.filter (· ∉ reachable g top))).foldl
          (fun (d : ErrDict) (u : Str) =>
            (g.triples.filter (fun (t : Triple) => t.src = u)).foldl (fun (d : ErrDict) (t : Triple) => errAdd d (some t) 1) d)
          (roleFold m g)) = _
    unfold roleFold
    rw [foldl_cond_add g.triples (fun t => m.hasRole t.role) some 0 []]
    rw [errAddAll_append]
    change _ = errAddAll (errAddAll [] (roleErrs m g)) _
    cases g.getTop with
    | none => rfl
    | some top =>
      simp only
      by_cases h1 : top.isEmpty = true
      · simp only [h1, if_true]; rfl
      · simp only [h1, Bool.false_eq_true, if_false]
        by_cases h2 : top ∉ g.srcs
        · simp only [h2, not_false_eq_true, if_true]; rfl
        · simp only [h2, if_false]
          rw [foldl_nested, foldl_add]
          rfl

/-! ### reading the dict -/

theorem mem_codes_errors (m : Model) (g : Graph) (k : Option Triple) (c : Nat) :
    c ∈ codes (m.errors g) k ↔ (k, c) ∈ errList m g := by
  rw [errors_eq_errAddAll, codes_errAddAll]
  simp only [codes, AList.get?, List.find?_nil, Option.map_none, Option.getD_none, List.nil_append,
    List.mem_map, List.mem_filter, decide_eq_true_eq]
  constructor
  · rintro ⟨p, ⟨hp, hk⟩, hc⟩
    obtain ⟨a, b⟩ := p
    simp only at hk hc
    subst hk; subst hc
    exact hp
  · intro h
    exact ⟨(k, c), ⟨h, rfl⟩, rfl⟩

theorem errors_wf (m : Model) (g : Graph) : ErrDictWf (m.errors g) := by
  rw [errors_eq_errAddAll]
  exact errAddAll_nil_wf _

theorem errors_eq_nil_iff (m : Model) (g : Graph) : m.errors g = [] ↔ errList m g = [] := by
  rw [errors_eq_errAddAll, errAddAll_eq_nil]
  simp

/-- an entry of the dict lists exactly the messages recorded for its key -/
theorem errors_entry (m : Model) (g : Graph) (k : Option Triple) (cs : List Nat)
    (h : (k, cs) ∈ m.errors g) : cs ≠ [] ∧ codes (m.errors g) k = cs := by
  have wf := errors_wf m g
  refine ⟨wf.1 _ h, ?_⟩
  simp only [codes, AList.get?_of_mem _ k cs wf.2 h, Option.getD_some]

theorem errors_key_iff (m : Model) (g : Graph) (k : Option Triple) :
    k ∈ (m.errors g).map (·.1) ↔ ∃ c, (k, c) ∈ errList m g := by
  constructor
  · intro h
    obtain ⟨⟨k', cs⟩, hp, hk⟩ := List.mem_map.1 h
    simp only at hk
    subst hk
    obtain ⟨hne, hc⟩ := errors_entry m g k' cs hp
    cases cs with
    | nil => exact absurd rfl hne
    | cons c cs =>
      exact ⟨c, (mem_codes_errors m g k' c).1 (by rw [hc]; exact List.mem_cons_self ..)⟩
  · rintro ⟨c, hc⟩
    have := (mem_codes_errors m g k c).2 hc
    simp only [codes] at this
    cases hg : AList.get? (m.errors g) k with
    | none => simp [hg] at this
    | some cs =>
      exact List.mem_map.2 ⟨(k, cs), AList.mem_of_get? _ _ _ hg, rfl⟩

/-! ### membership in `errList` -/

theorem mem_roleErrs (m : Model) (g : Graph) (k : Option Triple) (c : Nat) :
    (k, c) ∈ roleErrs m g ↔ c = E_ROLE ∧ ∃ t, k = some t ∧ t ∈ g.triples ∧ m.hasRole t.role = false := by
  simp only [roleErrs, List.mem_map, List.mem_filter, Bool.not_eq_true', Prod.mk.injEq]
  constructor
  · rintro ⟨t, ⟨ht, hr⟩, hk, hc⟩
    exact ⟨hc.symm, t, hk.symm, ht, hr⟩
  · rintro ⟨hc, t, hk, ht, hr⟩
    exact ⟨t, ⟨ht, hr⟩, hk.symm, hc.symm⟩

theorem mem_unreachVars (g : Graph) (top v : Str) (htop : g.IsSrc top) :
    v ∈ unreachVars g top ↔ g.IsSrc v ∧ ¬ Reach g top v := by
  simp only [unreachVars, mem_sortStrs, List.mem_filter, decide_eq_true_eq, mem_srcs,
    dfs_reach g top v htop]

theorem mem_unreachErrs (g : Graph) (top : Str) (htop : g.IsSrc top) (k : Option Triple) (c : Nat) :
    (k, c) ∈ unreachErrs g top ↔
      c = E_UNREACH ∧ ∃ t, k = some t ∧ t ∈ g.triples ∧ ¬ Reach g top t.src := by
  simp only [unreachErrs, List.mem_map, List.mem_flatMap, List.mem_filter, decide_eq_true_eq,
    Prod.mk.injEq]
  constructor
  · rintro ⟨t, ⟨u, hu, ht, hsrc⟩, hk, hc⟩
    subst hsrc
    exact ⟨hc.symm, t, hk.symm, ht, ((mem_unreachVars g top _ htop).1 hu).2⟩
  · rintro ⟨hc, t, hk, ht, hr⟩
    exact ⟨t, ⟨t.src, (mem_unreachVars g top _ htop).2 ⟨⟨t, ht, rfl⟩, hr⟩, ht, rfl⟩, hk.symm, hc.symm⟩

/-- the shape of `errList` by cases on the graph -/
inductive TopCase (g : Graph) : Prop
  | unset : g.getTop = none ∨ g.getTop = some [] → TopCase g
  | notVar (top : Str) : g.getTop = some top → top ≠ [] → ¬ g.IsSrc top → TopCase g
  | ok (top : Str) : g.TopOk top → TopCase g

theorem isEmpty_eq_false_of_ne {α : Type} {l : List α} (h : l ≠ []) : l.isEmpty = false := by
  cases l with
  | nil => exact absurd rfl h
  | cons a l => rfl

theorem errList_empty (m : Model) (g : Graph) (h : g.triples = []) : errList m g = [(none, E_EMPTY)] := by
  simp [errList, h]

theorem errList_unset (m : Model) (g : Graph) (h : g.triples ≠ [])
    (ht : g.getTop = none ∨ g.getTop = some []) : errList m g = roleErrs m g ++ [(none, E_NOTOP)] := by
  simp only [errList, isEmpty_eq_false_of_ne h, Bool.false_eq_true, if_false]
  rcases ht with ht | ht <;> simp [ht]

theorem errList_notVar (m : Model) (g : Graph) (top : Str) (h : g.triples ≠ [])
    (ht : g.getTop = some top) (hne : top ≠ []) (hs : ¬ g.IsSrc top) :
    errList m g = roleErrs m g ++ [(none, E_TOPVAR)] := by
  simp only [errList, isEmpty_eq_false_of_ne h, Bool.false_eq_true, if_false, ht,
    isEmpty_eq_false_of_ne hne, mem_srcs, hs, not_false_eq_true, if_true]

theorem errList_ok (m : Model) (g : Graph) (top : Str) (h : g.triples ≠ []) (ht : g.TopOk top) :
    errList m g = roleErrs m g ++ unreachErrs g top := by
  simp only [errList, isEmpty_eq_false_of_ne h, Bool.false_eq_true, if_false, ht.1,
    isEmpty_eq_false_of_ne ht.2.1, mem_srcs, ht.2.2, not_true_eq_false]

theorem topCase (g : Graph) : TopCase g := by
  cases h : g.getTop with
  | none => exact .unset (Or.inl h)
  | some top =>
    by_cases h1 : top = []
    · exact .unset (Or.inr (by rw [h, h1]))
    · by_cases h2 : g.IsSrc top
      · exact .ok top ⟨h, h1, h2⟩
      · exact .notVar top h h1 h2

theorem TopOk_unique (g : Graph) (a b : Str) (ha : g.TopOk a) (hb : g.TopOk b) : a = b := by
  have := ha.1.symm.trans hb.1
  exact Option.some.inj this

/-! ### the master characterisation -/

/-- what can be recorded, and exactly when -/
def ErrSpec (m : Model) (g : Graph) (k : Option Triple) (c : Nat) : Prop :=
  (g.triples = [] ∧ k = none ∧ c = E_EMPTY) ∨
  (g.triples ≠ [] ∧
    ((c = E_ROLE ∧ ∃ t, k = some t ∧ t ∈ g.triples ∧ m.hasRole t.role = false) ∨
     (c = E_UNREACH ∧ ∃ t, k = some t ∧ t ∈ g.triples ∧ ∃ top, g.TopOk top ∧ ¬ Reach g top t.src) ∨
     (k = none ∧ c = E_NOTOP ∧ (g.getTop = none ∨ g.getTop = some [])) ∨
     (k = none ∧ c = E_TOPVAR ∧ ∃ top, g.getTop = some top ∧ top ≠ [] ∧ ¬ g.IsSrc top)))

theorem mem_errList (m : Model) (g : Graph) (k : Option Triple) (c : Nat) :
    (k, c) ∈ errList m g ↔ ErrSpec m g k c := by
  unfold ErrSpec
  by_cases he : g.triples = []
  · rw [errList_empty m g he]
    simp [he]
  · simp only [he, false_and, false_or, ne_eq, not_false_eq_true, true_and]
    rcases topCase g with ht | ⟨top, ht, hne, hs⟩ | ⟨top, hok⟩
    · rw [errList_unset m g he ht, List.mem_append, mem_roleErrs]
      have h1 : ¬ ∃ top, g.TopOk top := by
        rintro ⟨top, h, hne, _⟩
        rcases ht with ht | ht <;> rw [ht] at h
        · cases h
        · exact hne (Option.some.inj h).symm
      have h2 : ¬ ∃ top, g.getTop = some top ∧ top ≠ [] ∧ ¬ g.IsSrc top := by
        rintro ⟨top, h, hne, _⟩
        rcases ht with ht | ht <;> rw [ht] at h
        · cases h
        · exact hne (Option.some.inj h).symm
      simp only [List.mem_singleton, Prod.mk.injEq, ht, and_true, h2, and_false, or_false]
      constructor
      · rintro (h | h)
        · exact Or.inl h
        · exact Or.inr (Or.inr h)
      · rintro (h | ⟨_, t, _, _, top, hok, _⟩ | h)
        · exact Or.inl h
        · exact absurd ⟨top, hok⟩ h1
        · exact Or.inr h
    · rw [errList_notVar m g top he ht hne hs, List.mem_append, mem_roleErrs]
      have h1 : ¬ ∃ top, g.TopOk top := by
        rintro ⟨top', h, _, hs'⟩
        rw [ht] at h
        exact hs ((Option.some.inj h) ▸ hs')
      have h2 : ¬ (g.getTop = none ∨ g.getTop = some []) := by
        rintro (h | h) <;> rw [ht] at h
        · cases h
        · exact hne (Option.some.inj h)
      simp only [List.mem_singleton, Prod.mk.injEq, h2, and_false, false_or]
      constructor
      · rintro (h | h)
        · exact Or.inl h
        · exact Or.inr (Or.inr ⟨h.1, h.2, top, ht, hne, hs⟩)
      · rintro (h | ⟨_, t, _, _, top, hok, _⟩ | h)
        · exact Or.inl h
        · exact absurd ⟨top, hok⟩ h1
        · exact Or.inr ⟨h.1, h.2.1⟩
    · rw [errList_ok m g top he hok, List.mem_append, mem_roleErrs, mem_unreachErrs g top hok.2.2]
      have h2 : ¬ (g.getTop = none ∨ g.getTop = some []) := by
        rintro (h | h) <;> rw [hok.1] at h
        · cases h
        · exact hok.2.1 (Option.some.inj h)
      have h3 : ¬ ∃ top, g.getTop = some top ∧ top ≠ [] ∧ ¬ g.IsSrc top := by
        rintro ⟨top', h, _, hs'⟩
        rw [hok.1] at h
        exact hs' ((Option.some.inj h) ▸ hok.2.2)
      simp only [h2, h3, and_false, or_false]
      constructor
      · rintro (h | ⟨hc, t, hk, ht, hr⟩)
        · exact Or.inl h
        · exact Or.inr ⟨hc, t, hk, ht, top, hok, hr⟩
      · rintro (h | ⟨hc, t, hk, ht, top', hok', hr⟩)
        · exact Or.inl h
        · have := TopOk_unique g top' top hok' hok
          subst this
          exact Or.inr ⟨hc, t, hk, ht, hr⟩

/-- **every message under every context, exactly when it applies** -/
theorem mem_codes_errors_iff (m : Model) (g : Graph) (k : Option Triple) (c : Nat) :
    c ∈ codes (m.errors g) k ↔ ErrSpec m g k c := by
  rw [mem_codes_errors, mem_errList]

theorem errors_role (m : Model) (g : Graph) (t : Triple) :
    E_ROLE ∈ codes (m.errors g) (some t) ↔ t ∈ g.triples ∧ m.hasRole t.role = false := by
  rw [mem_codes_errors_iff]
  unfold ErrSpec
  constructor
  · rintro (⟨_, h, _⟩ | ⟨_, ⟨_, t', hk, ht, hr⟩ | ⟨h, _⟩ | ⟨h, _⟩ | ⟨h, _⟩⟩)
    · cases h
    · cases hk; exact ⟨ht, hr⟩
    · cases h
    · cases h
    · cases h
  · rintro ⟨ht, hr⟩
    exact Or.inr ⟨List.ne_nil_of_mem ht, Or.inl ⟨rfl, t, rfl, ht, hr⟩⟩

theorem errors_unreach (m : Model) (g : Graph) (t : Triple) :
    E_UNREACH ∈ codes (m.errors g) (some t) ↔
      t ∈ g.triples ∧ ∃ top, g.TopOk top ∧ ¬ Reach g top t.src := by
  rw [mem_codes_errors_iff]
  unfold ErrSpec
  constructor
  · rintro (⟨_, h, _⟩ | ⟨_, ⟨h, _⟩ | ⟨_, t', hk, ht, hr⟩ | ⟨h, _⟩ | ⟨h, _⟩⟩)
    · cases h
    · cases h
    · cases hk; exact ⟨ht, hr⟩
    · cases h
    · cases h
  · rintro ⟨ht, hr⟩
    exact Or.inr ⟨List.ne_nil_of_mem ht, Or.inr (Or.inl ⟨rfl, t, rfl, ht, hr⟩)⟩

theorem errors_general_empty (m : Model) (g : Graph) :
    E_EMPTY ∈ codes (m.errors g) none ↔ g.triples = [] := by
  rw [mem_codes_errors_iff]
  unfold ErrSpec
  constructor
  · rintro (⟨h, _⟩ | ⟨_, ⟨h, _⟩ | ⟨h, _⟩ | ⟨_, h, _⟩ | ⟨_, h, _⟩⟩)
    · exact h
    all_goals cases h
  · intro h
    exact Or.inl ⟨h, rfl, rfl⟩

theorem errors_general_notop (m : Model) (g : Graph) :
    E_NOTOP ∈ codes (m.errors g) none ↔
      g.triples ≠ [] ∧ (g.getTop = none ∨ g.getTop = some []) := by
  rw [mem_codes_errors_iff]
  unfold ErrSpec
  constructor
  · rintro (⟨_, _, h⟩ | ⟨hne, ⟨h, _⟩ | ⟨h, _⟩ | ⟨_, _, h⟩ | ⟨_, h, _⟩⟩)
    · cases h
    · cases h
    · cases h
    · exact ⟨hne, h⟩
    · cases h
  · rintro ⟨hne, h⟩
    exact Or.inr ⟨hne, Or.inr (Or.inr (Or.inl ⟨rfl, rfl, h⟩))⟩

theorem errors_general_topvar (m : Model) (g : Graph) :
    E_TOPVAR ∈ codes (m.errors g) none ↔
      g.triples ≠ [] ∧ ∃ top, g.getTop = some top ∧ top ≠ [] ∧ ¬ g.IsSrc top := by
  rw [mem_codes_errors_iff]
  unfold ErrSpec
  constructor
  · rintro (⟨_, _, h⟩ | ⟨hne, ⟨h, _⟩ | ⟨h, _⟩ | ⟨_, h, _⟩ | ⟨_, _, h⟩⟩)
    · cases h
    · cases h
    · cases h
    · cases h
    · exact ⟨hne, h⟩
  · rintro ⟨hne, h⟩
    exact Or.inr ⟨hne, Or.inr (Or.inr (Or.inr ⟨rfl, rfl, h⟩))⟩

/-- no other message anywhere: triple contexts carry only 0/1 and are triples
    of the graph, the general context carries only 2/3/4 -/
theorem errors_no_other (m : Model) (g : Graph) (k : Option Triple) (c : Nat)
    (h : c ∈ codes (m.errors g) k) :
    (∃ t, k = some t ∧ t ∈ g.triples ∧ (c = E_ROLE ∨ c = E_UNREACH)) ∨
    (k = none ∧ (c = E_EMPTY ∨ c = E_NOTOP ∨ c = E_TOPVAR)) := by
  rw [mem_codes_errors_iff] at h
  rcases h with ⟨_, hk, hc⟩ | ⟨_, ⟨hc, t, hk, ht, _⟩ | ⟨hc, t, hk, ht, _⟩ | ⟨hk, hc, _⟩ | ⟨hk, hc, _⟩⟩
  · exact Or.inr ⟨hk, Or.inl hc⟩
  · exact Or.inl ⟨t, hk, ht, Or.inl hc⟩
  · exact Or.inl ⟨t, hk, ht, Or.inr hc⟩
  · exact Or.inr ⟨hk, Or.inr (Or.inl hc)⟩
  · exact Or.inr ⟨hk, Or.inr (Or.inr hc)⟩

/-- the report is empty exactly for a non-empty graph with only modelled
    roles whose top is a variable from which every variable is reachable -/
theorem errors_empty_iff (m : Model) (g : Graph) :
    m.errors g = [] ↔
      g.triples ≠ [] ∧ (∀ t ∈ g.triples, m.hasRole t.role = true) ∧
      ∃ top, g.TopOk top ∧ ∀ t ∈ g.triples, Reach g top t.src := by
  have key : m.errors g = [] ↔ ∀ k c, ¬ ErrSpec m g k c := by
    rw [errors_eq_nil_iff]
    constructor
    · intro h k c hs
      have := (mem_errList m g k c).2 hs
      rw [h] at this
      cases this
    · intro h
      cases hl : errList m g with
      | nil => rfl
      | cons p l =>
        exfalso
        exact h p.1 p.2 ((mem_errList m g p.1 p.2).1 (by rw [hl]; exact List.mem_cons_self ..))
  rw [key]
  constructor
  · intro h
    have hne : g.triples ≠ [] := fun he => h none E_EMPTY (Or.inl ⟨he, rfl, rfl⟩)
    refine ⟨hne, ?_, ?_⟩
    · intro t ht
      cases hr : m.hasRole t.role with
      | true => rfl
      | false => exact absurd (Or.inr ⟨hne, Or.inl ⟨rfl, t, rfl, ht, hr⟩⟩) (h (some t) E_ROLE)
    · rcases topCase g with ht | ⟨top, ht, hne', hs⟩ | ⟨top, hok⟩
      · exact absurd (Or.inr ⟨hne, Or.inr (Or.inr (Or.inl ⟨rfl, rfl, ht⟩))⟩) (h none E_NOTOP)
      · exact absurd (Or.inr ⟨hne, Or.inr (Or.inr (Or.inr ⟨rfl, rfl, top, ht, hne', hs⟩))⟩)
          (h none E_TOPVAR)
      · refine ⟨top, hok, ?_⟩
        intro t ht
        apply Classical.byContradiction
        intro hr
        exact h (some t) E_UNREACH (Or.inr ⟨hne, Or.inr (Or.inl ⟨rfl, t, rfl, ht, top, hok, hr⟩)⟩)
  · rintro ⟨hne, hroles, top, hok, hreach⟩ k c hs
    rcases hs with ⟨he, _⟩ | ⟨_, ⟨_, t, _, ht, hr⟩ | ⟨_, t, _, ht, top', hok', hr⟩ | ⟨_, _, h⟩ | ⟨_, _, top', h, hne', hs'⟩⟩
    · exact hne he
    · rw [hroles t ht] at hr; cases hr
    · have := TopOk_unique g top' top hok' hok
      subst this
      exact hr (hreach t ht)
    · rcases h with h | h <;> rw [hok.1] at h
      · cases h
      · exact hok.2.1 (Option.some.inj h)
    · rw [hok.1] at h
      exact hs' ((Option.some.inj h) ▸ hok.2.2)

/-- if every source is reachable from a usable top, only "invalid role" is ever reported -/
theorem errors_only_role_of_reach (m : Model) (g : Graph) (top : Str) (hok : g.TopOk top)
    (hreach : ∀ v, g.IsSrc v → Reach g top v) (k : Option Triple) (c : Nat)
    (h : c ∈ codes (m.errors g) k) :
    c = E_ROLE ∧ ∃ t, k = some t ∧ t ∈ g.triples ∧ m.hasRole t.role = false := by
  rw [mem_codes_errors_iff] at h
  have hne : g.triples ≠ [] := by
    obtain ⟨t, ht, _⟩ := hok.2.2
    exact List.ne_nil_of_mem ht
  rcases h with ⟨he, _⟩ | ⟨_, h | ⟨_, t, _, ht, top', hok', hr⟩ | ⟨_, _, h⟩ | ⟨_, _, top', h, hne', hs'⟩⟩
  · exact absurd he hne
  · exact h
  · have := TopOk_unique g top' top hok' hok
    subst this
    exact absurd (hreach t.src ⟨t, ht, rfl⟩) hr
  · rcases h with h | h <;> rw [hok.1] at h
    · cases h
    · exact absurd (Option.some.inj h) hok.2.1
  · rw [hok.1] at h
    exact absurd ((Option.some.inj h) ▸ hok.2.2) hs'

end Penman

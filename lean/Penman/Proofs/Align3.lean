/-
  Penman.Proofs.Align3 — reading one edge of the store that carries alignment
  markers: the written relation denotes the store's triple (deinverted once if
  needed) together with exactly the edge's role alignment and alignment.
-/
import Penman.Proofs.Align2
set_option linter.unusedSimpArgs false
namespace Penman
namespace Cfg
namespace Al
open Penman.Spec.Reading

/-- what is known about an edge of the final store -/
structure EdgeFacts (isAlpha : Char → Bool) (m : Model) (vars : List Str) (v : Str) (e : Edge) : Prop where
  notInst : e.role ≠ CONCEPT_ROLE
  good : GoodT m (Cfg.denote v e)
  node : ∀ w, e.tgt = .node w → w ∈ vars
  one1 : (e.epis.filter fun x => x.mode = 1).length ≤ 1
  one2 : (e.epis.filter fun x => x.mode = 2).length ≤ 1
  ok : ∀ x ∈ e.epis, EpiOK isAlpha x
  ra : (e.epis.filter fun x => x.mode = 1) ≠ [] → e.role ≠ ['/']
  ta : (e.epis.filter fun x => x.mode = 2) ≠ [] → ∃ s, e.tgt = .atom (.str s) ∧ s ∉ vars ∧ TextOKal s

theorem filter_cases {es : List Epi} {k : Nat} (h : (es.filter fun x => x.mode = k).length ≤ 1) :
    (es.filter fun x => x.mode = k) = [] ∨
      ∃ x, x ∈ es ∧ x.mode = k ∧ (es.filter fun x => x.mode = k) = [x] := by
  cases hf : (es.filter fun x => x.mode = k) with
  | nil => exact Or.inl rfl
  | cons x r =>
    right
    have hx : x ∈ es.filter fun x => x.mode = k := by rw [hf]; exact List.mem_cons_self
    have hr : r = [] := by
      rw [hf] at h
      cases r with
      | nil => rfl
      | cons _ _ => simp at h
    simp only [List.mem_filter, decide_eq_true_eq] at hx
    exact ⟨x, hx.1, hx.2, by rw [hr]⟩

variable {isAlpha : Char → Bool} {m : Model} {vars : List Str} {v : Str} {e : Edge}

theorem denote_role_slash (v : Str) (e : Edge) : (Cfg.denote v e).role = slashRole e.role := by
  simp [Cfg.denote, slashRole]

theorem edge_role_noTilde (F : EdgeFacts isAlpha m vars v e) : '~' ∉ e.role := by
  have := F.good.roleTilde
  rw [denote_role_slash] at this
  unfold slashRole at this
  split at this
  · rename_i h; rw [h]; decide
  · exact this

/-- the role text: its name is the role of the store's triple, its alignment suffix the edge's role alignment -/
theorem role_part (F : EdgeFacts isAlpha m vars v e) :
    roleName (outRole e) = (Cfg.denote v e).role ∧
    ∃ ra, parseAln? isAlpha (roleAlnText (outRole e)) = .ok ra ∧
      ra.map (fun a => Epi.roleAln a.1 a.2) = (e.epis.filter fun x => x.mode = 1).getLast? := by
  have hr := edge_role_noTilde F
  rw [denote_role_slash, outRole_eq]
  rcases filter_cases F.one1 with h0 | ⟨x, hx, hm, h1⟩
  · have : raStr e.epis = [] := by simp [raStr, h0]
    rw [this, List.append_nil, h0]
    exact ⟨roleName_plain hr, none, by simp [roleAlnText_plain hr, parseAln?], rfl⟩
  · have hns : e.role ≠ ['/'] := F.ra (by rw [h1]; simp)
    cases x with
    | push _ => simp [Epi.mode] at hm
    | pop => simp [Epi.mode] at hm
    | aln _ _ => simp [Epi.mode] at hm
    | roleAln p i =>
      have hok : MarkerOK isAlpha p i := F.ok _ hx
      have : raStr e.epis = '~' :: alnBody p i := by simp [raStr, h1, Epi.toStr, alnToString_eq]
      rw [this, h1, roleName_append hr, roleAlnText_append hr]
      refine ⟨by simp [slashRole, hns], some (p, i), ?_, rfl⟩
      simp [parseAln?, hok.1, Except.map]

/-- the edge carries no alignment: the written atom is the atom itself -/
theorem outAtom_plain {a : Atom} (h : (e.epis.filter fun x => x.mode = 2) = []) : outAtom e a = a := by
  rw [outAtom_eq, if_pos h]

theorem denote_edge_al (hnoop : m.noop = false) (F : EdgeFacts isAlpha m vars v e)
    (hnumE : notNum (Cfg.denote v e).tgt = true) :
    ∃ d, Spec.Reading.denote isAlpha m vars (edgeWritten v e) = .ok d ∧
      d.triple = readTriple m vars (Cfg.denote v e) ∧
      d.roleAln.map (fun a => Epi.roleAln a.1 a.2) = (e.epis.filter fun x => x.mode = 1).getLast? ∧
      d.tgtAln.map (fun a => Epi.aln a.1 a.2) = (e.epis.filter fun x => x.mode = 2).getLast? := by
  obtain ⟨hrn, ra, hpa, hra⟩ := role_part F
  cases e with
  | mk role tgt epis =>
    simp only [] at hrn hpa hra
    cases tgt with
    | node w =>
      have hw := F.node w rfl
      have h2 : (epis.filter fun x => x.mode = 2) = [] := by
        apply Classical.byContradiction
        intro hne
        obtain ⟨s, hs, _⟩ := F.ta hne
        simp at hs
      have hden : Cfg.denote v ⟨role, .node w, epis⟩ = ⟨v, roleName (outRole ⟨role, .node w, epis⟩), .str w⟩ := by
        rw [hrn]; simp [Cfg.denote]
      rw [hden]
      simp only [edgeWritten, Spec.Reading.denote, hpa, h2, List.getLast?_nil]
      refine ⟨_, rfl, ?_, hra, rfl⟩
      simp only [readTriple, orientTriple, hnoop, Bool.not_false, Bool.true_and, atomInVars, hw, decide_true, and_true]
    | atom a =>
      have hden : Cfg.denote v ⟨role, .atom a, epis⟩ = ⟨v, roleName (outRole ⟨role, .atom a, epis⟩), a⟩ := by
        rw [hrn]; simp [Cfg.denote]
      have hnum := hnumE
      have hgood := F.good
      rw [hden] at hnum hgood ⊢
      rcases filter_cases F.one2 with h0 | ⟨x, hx, hm, h1⟩
      · simp only [] at h0
        have hoa : outAtom ⟨role, .atom a, epis⟩ a = a := outAtom_plain h0
        rw [h0]
        cases a with
        | none =>
          simp only [edgeWritten, hoa, Spec.Reading.denote, hpa]
          exact ⟨_, rfl, by simp [readTriple, atomInVars], hra, rfl⟩
        | num x => simp [notNum] at hnum
        | str s =>
          have hs : TextOK s := hgood.tgt
          have hpn : parseAln? isAlpha none = .ok none := rfl
          simp only [edgeWritten, hoa, Spec.Reading.denote, hpa, splitTarget_ok hs, hpn]
          refine ⟨_, rfl, ?_, ?_, ?_⟩
          · simp only [readTriple, orientTriple, hnoop, Bool.not_false, Bool.true_and, atomInVars,
              Bool.and_eq_true, decide_eq_true_eq]
          · exact hra
          · rfl
      · simp only [] at hx hm h1
        obtain ⟨s, hs, hsv, hst⟩ := F.ta (by simp only []; rw [h1]; simp)
        simp only [Edge.mk.injEq, ETgt.atom.injEq] at hs
        have ha : a = .str s := by simpa using hs
        subst ha
        cases x with
        | push _ => simp [Epi.mode] at hm
        | pop => simp [Epi.mode] at hm
        | roleAln _ _ => simp [Epi.mode] at hm
        | aln p i =>
          have hok : MarkerOK isAlpha p i := F.ok _ hx
          have hta : taStr epis = '~' :: alnBody p i := by simp [taStr, h1, Epi.toStr, alnToString_eq]
          have hoa : outAtom ⟨role, .atom (.str s), epis⟩ (.str s) = .str (s ++ '~' :: alnBody p i) := by
            rw [outAtom_eq]; simp only []; rw [if_neg (by rw [h1]; simp), hta]; rfl
          obtain ⟨b', hsp, hb'⟩ := splitTarget_append isAlpha hst hok.2
          rw [h1]
          have hpt : parseAln? isAlpha (some b') = .ok (some (p, i)) := by
            simp [parseAln?, hb', hok.1, Except.map]
          simp only [edgeWritten, hoa, Spec.Reading.denote, hpa, hsp, hpt]
          refine ⟨_, rfl, ?_, ?_, ?_⟩
          · simp [readTriple, orientTriple, atomInVars, hsv]
          · exact hra
          · rfl

theorem roleName_outRole (F : EdgeFacts isAlpha m vars v e) : roleName (outRole e) = (Cfg.denote v e).role :=
  (role_part F).1

end Al
end Cfg
end Penman

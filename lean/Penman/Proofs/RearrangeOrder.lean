/-
  Penman.Proofs.RearrangeOrder — order theory of the sort keys of `rearrange`:
  `strLt`, `KV.lt`, `kvLe` (a total preorder on equally shaped keys), the fixed
  shape of `evalKeys`/`branchKey`, and the characterisation of
  `alphanumericOrder`.
-/
import Penman.Spec.Rearrange
namespace Penman.RA

/-! ### `strLt` is a strict total order -/

theorem strLt_irrefl : ∀ a : Str, strLt a a = false
  | [] => rfl
  | c :: cs => by simp [strLt, strLt_irrefl cs]

theorem strLt_trans : ∀ {a b c : Str}, strLt a b = true → strLt b c = true → strLt a c = true
  | [], [], _, h, _ => by simp [strLt] at h
  | [], _ :: _, [], _, h => by simp [strLt] at h
  | [], _ :: _, _ :: _, _, _ => by simp [strLt]
  | _ :: _, [], _, h, _ => by simp [strLt] at h
  | _ :: _, _ :: _, [], _, h => by simp [strLt] at h
  | x :: xs, y :: ys, z :: zs, h1, h2 => by
    simp only [strLt] at h1 h2 ⊢
    by_cases hxy : x < y
    · by_cases hyz : y < z
      · simp [Char.lt_trans hxy hyz]
      · simp only [hyz, if_false] at h2
        by_cases hzy : z < y
        · simp [hzy] at h2
        · have : y = z := Char.le_antisymm (Char.not_lt.mp hzy) (Char.not_lt.mp hyz)
          subst this; simp [hxy]
    · simp only [hxy, if_false] at h1
      by_cases hyx : y < x
      · simp [hyx] at h1
      · have : x = y := Char.le_antisymm (Char.not_lt.mp hyx) (Char.not_lt.mp hxy)
        subst this
        simp only [hyx, if_false] at h1
        by_cases hxz : x < z
        · simp [hxz]
        · simp only [hxz, if_false] at h2 ⊢
          by_cases hzx : z < x
          · simp [hzx] at h2
          · simp only [hzx, if_false] at h2 ⊢
            exact strLt_trans h1 h2

theorem strLt_asymm {a b : Str} (h : strLt a b = true) : strLt b a = false := by
  cases h' : strLt b a
  · rfl
  · have := strLt_trans h h'; simp [strLt_irrefl] at this

theorem strLt_tri : ∀ {a b : Str}, strLt a b = false → strLt b a = false → a = b
  | [], [], _, _ => rfl
  | [], _ :: _, h, _ => by simp [strLt] at h
  | _ :: _, [], _, h => by simp [strLt] at h
  | x :: xs, y :: ys, h1, h2 => by
    simp only [strLt] at h1 h2
    by_cases hxy : x < y
    · simp [hxy] at h1
    · by_cases hyx : y < x
      · simp [hyx] at h2
      · have : x = y := Char.le_antisymm (Char.not_lt.mp hyx) (Char.not_lt.mp hxy)
        subst this
        simp only [hxy, if_false] at h1 h2
        rw [strLt_tri h1 h2]

/-! ### `KV.lt` on equal constructors -/

theorem KV.lt_irrefl (a : KV) : KV.lt a a = false := by
  cases a <;> simp [KV.lt, strLt_irrefl]

theorem KV.lt_trans {a b c : KV} (h1 : KV.lt a b = true) (h2 : KV.lt b c = true) : KV.lt a c = true := by
  cases a <;> cases b <;> cases c <;> simp_all [KV.lt]
  · exact strLt_trans h1 h2
  · omega

theorem KV.lt_asymm {a b : KV} (h : KV.lt a b = true) : KV.lt b a = false := by
  cases h' : KV.lt b a
  · rfl
  · have := KV.lt_trans h h'; simp [KV.lt_irrefl] at this

theorem KV.lt_tri {a b : KV} (ht : a.tag = b.tag) (h1 : KV.lt a b = false) (h2 : KV.lt b a = false) : a = b := by
  cases a <;> cases b <;> simp_all [KV.lt, KV.tag]
  · rename_i x y; cases x <;> cases y <;> simp_all
  · exact strLt_tri h1 h2
  · omega

/-! ### `kvLe` is a total preorder (indeed a total order) on equally shaped keys -/

theorem kvLe_refl : ∀ a : List KV, kvLe a a = true
  | [] => rfl
  | x :: xs => by simp [kvLe, KV.lt_irrefl, kvLe_refl xs]

theorem kvLe_total : ∀ {a b : List KV}, kvShape a = kvShape b → (kvLe a b || kvLe b a) = true
  | [], _, _ => by simp [kvLe]
  | _ :: _, [], h => by simp [kvShape] at h
  | x :: xs, y :: ys, h => by
    simp only [kvShape, List.map_cons, List.cons.injEq] at h
    simp only [kvLe]
    cases hxy : KV.lt x y
    · cases hyx : KV.lt y x
      · simpa using kvLe_total (a := xs) (b := ys) h.2
      · simp
    · simp

theorem kvLe_trans : ∀ {a b c : List KV}, kvShape a = kvShape b → kvShape b = kvShape c →
    kvLe a b = true → kvLe b c = true → kvLe a c = true
  | [], _, _, _, _, _, _ => by simp [kvLe]
  | _ :: _, [], _, h, _, _, _ => by simp [kvShape] at h
  | _ :: _, _ :: _, [], _, h, _, _ => by simp [kvShape] at h
  | x :: xs, y :: ys, z :: zs, s1, s2, h1, h2 => by
    simp only [kvShape, List.map_cons, List.cons.injEq] at s1 s2
    simp only [kvLe] at h1 h2 ⊢
    cases hxy : KV.lt x y
    · simp only [hxy] at h1
      cases hyx : KV.lt y x
      · have := KV.lt_tri s1.1 hxy hyx; subst this
        simp only [hyx] at h1
        cases hxz : KV.lt x z
        · simp only [hxz] at h2 ⊢
          cases hzx : KV.lt z x
          · simp only [hzx] at h2 ⊢
            simp only [Bool.false_eq_true, if_false] at h1 h2 ⊢
            exact kvLe_trans s1.2 s2.2 h1 h2
          · simp [hzx] at h2
        · simp
      · simp [hyx] at h1
    · cases hyz : KV.lt y z
      · simp only [hyz] at h2
        cases hzy : KV.lt z y
        · have := KV.lt_tri s2.1 hyz hzy; subst this
          simp [hxy]
        · simp [hzy] at h2
      · simp [KV.lt_trans hxy hyz]

theorem kvLe_antisymm : ∀ {a b : List KV}, kvShape a = kvShape b →
    kvLe a b = true → kvLe b a = true → a = b
  | [], [], _, _, _ => rfl
  | [], _ :: _, h, _, _ => by simp [kvShape] at h
  | _ :: _, [], h, _, _ => by simp [kvShape] at h
  | x :: xs, y :: ys, s, h1, h2 => by
    simp only [kvShape, List.map_cons, List.cons.injEq] at s
    simp only [kvLe] at h1 h2
    cases hxy : KV.lt x y
    · cases hyx : KV.lt y x
      · have := KV.lt_tri s.1 hxy hyx; subst this
        simp only [hxy, Bool.false_eq_true, if_false] at h1 h2
        rw [kvLe_antisymm s.2 h1 h2]
      · simp [hxy, hyx] at h1
    · simp [hxy, KV.lt_asymm hxy] at h2

/-! ### every key function yields keys of one fixed shape -/

def _root_.Penman.KeyFn.shape : KeyFn → List Nat
  | .original => [0]
  | .alphanumeric => [1, 2]
  | .canonical => [0, 1, 2]
  | .invertedLast => [0]

theorem _root_.Penman.KeyFn.eval_shape (m : Model) (k : KeyFn) (r : Str) : kvShape (k.eval m r) = KeyFn.shape k := by
  cases k <;> rfl

theorem evalKeys_shape (m : Model) (ks : List KeyFn) (r : Str) :
    kvShape (evalKeys m ks r) = ks.flatMap KeyFn.shape := by
  induction ks with
  | nil => rfl
  | cons k ks ih =>
    simp only [evalKeys, kvShape, List.flatMap_cons, List.map_append] at ih ⊢
    rw [ih]; congr 1; exact KeyFn.eval_shape m k r

/-- the shape of all sort keys of `rearrange` for a given `key` argument -/
def keyShape : Option (List KeyFn) → List Nat
  | none => [0, 0]
  | some ks => 0 :: ks.flatMap KeyFn.shape

theorem branchKey_shape (m : Model) (vars : List Str) (key : Option (List KeyFn)) (b : Branch) :
    kvShape (branchKey m vars key b) = keyShape key := by
  cases key with
  | none => rfl
  | some ks =>
    simp only [branchKey, keyShape, kvShape, List.map_cons, KV.tag, List.cons.injEq, true_and]
    exact evalKeys_shape m ks b.1

theorem sortBranches_eq (m : Model) (vars : List Str) (key : Option (List KeyFn)) (bs : List Branch) :
    sortBranches m vars key bs = bs.mergeSort (branchLe m vars key) := rfl

theorem branchLe_refl (m : Model) (vars : List Str) (key : Option (List KeyFn)) (a : Branch) :
    branchLe m vars key a a = true := kvLe_refl _

theorem branchLe_total (m : Model) (vars : List Str) (key : Option (List KeyFn)) (a b : Branch) :
    (branchLe m vars key a b || branchLe m vars key b a) = true :=
  kvLe_total ((branchKey_shape m vars key a).trans (branchKey_shape m vars key b).symm)

theorem branchLe_trans (m : Model) (vars : List Str) (key : Option (List KeyFn)) (a b c : Branch) :
    branchLe m vars key a b = true → branchLe m vars key b c = true → branchLe m vars key a c = true :=
  kvLe_trans ((branchKey_shape m vars key a).trans (branchKey_shape m vars key b).symm)
    ((branchKey_shape m vars key b).trans (branchKey_shape m vars key c).symm)

/-- two branches compare as equal exactly when their keys are equal -/
theorem branchLe_antisymm (m : Model) (vars : List Str) (key : Option (List KeyFn)) (a b : Branch) :
    branchLe m vars key a b = true → branchLe m vars key b a = true →
    branchKey m vars key a = branchKey m vars key b :=
  kvLe_antisymm ((branchKey_shape m vars key a).trans (branchKey_shape m vars key b).symm)

/-! ### `sortBranches`: permutation, sortedness, stability -/

theorem sortBranches_perm (m : Model) (vars : List Str) (key : Option (List KeyFn)) (bs : List Branch) :
    (sortBranches m vars key bs).Perm bs := List.mergeSort_perm _ _

theorem sortBranches_pairwise (m : Model) (vars : List Str) (key : Option (List KeyFn)) (bs : List Branch) :
    (sortBranches m vars key bs).Pairwise (fun a b => branchLe m vars key a b = true) :=
  List.pairwise_mergeSort (branchLe_trans m vars key) (branchLe_total m vars key) bs

theorem sortBranches_sublist (m : Model) (vars : List Str) (key : Option (List KeyFn)) {ys bs : List Branch}
    (hp : ys.Pairwise (fun a b => branchLe m vars key a b = true)) (hs : ys.Sublist bs) :
    ys.Sublist (sortBranches m vars key bs) :=
  List.sublist_mergeSort (branchLe_trans m vars key) (branchLe_total m vars key) hp hs

theorem sortBranches_of_pairwise (m : Model) (vars : List Str) (key : Option (List KeyFn)) {bs : List Branch}
    (hp : bs.Pairwise (fun a b => branchLe m vars key a b = true)) : sortBranches m vars key bs = bs :=
  List.mergeSort_of_pairwise hp

theorem sortBranches_nil (m : Model) (vars : List Str) (key : Option (List KeyFn)) :
    sortBranches m vars key [] = [] := by simp [sortBranches]

theorem sortBranches_singleton (m : Model) (vars : List Str) (key : Option (List KeyFn)) (a : Branch) :
    sortBranches m vars key [a] = [a] := by simp [sortBranches]

open List.MergeSort.Internal in
/-- evaluation of the sort on two branches (used for concrete examples) -/
theorem sortBranches_pair (m : Model) (vars : List Str) (key : Option (List KeyFn)) (a b : Branch) :
    sortBranches m vars key [a, b] = if branchLe m vars key a b then [a, b] else [b, a] := by
  simp only [sortBranches_eq, List.mergeSort, splitInTwo]
  simp [List.merge]

/-- stability: the branches with one given key keep their relative order -/
theorem sortBranches_filter_key (m : Model) (vars : List Str) (key : Option (List KeyFn)) (bs : List Branch)
    (k : List KV) :
    (sortBranches m vars key bs).filter (fun b => branchKey m vars key b = k) =
      bs.filter (fun b => branchKey m vars key b = k) := by
  have hpw : (bs.filter (fun b => branchKey m vars key b = k)).Pairwise
      (fun a b => branchLe m vars key a b = true) := by
    rw [List.pairwise_iff_forall_sublist]
    intro a b hab
    have ha := hab.subset (List.mem_cons_self)
    have hb := hab.subset (List.mem_cons_of_mem _ List.mem_cons_self)
    simp only [List.mem_filter, decide_eq_true_eq] at ha hb
    simp only [branchLe, ha.2, hb.2, kvLe_refl]
  have hsub := (sortBranches_sublist m vars key hpw List.filter_sublist).filter
    (fun b => decide (branchKey m vars key b = k))
  rw [List.filter_filter] at hsub
  simp only [Bool.and_self] at hsub
  have hlen := ((sortBranches_perm m vars key bs).filter (fun b => decide (branchKey m vars key b = k))).length_eq
  exact (hsub.eq_of_length hlen.symm).symm

/-! ### `alphanumericOrder` -/

theorem alphanumericSplit_digits (init : Str) (c : Char) (digs : Str)
    (hc : isAsciiDigit c = false) (hd : digs ≠ []) (hall : digs.all isAsciiDigit = true)
    (hnl : init.contains '\n' = false) :
    alphanumericSplit (init ++ c :: digs) = some (init ++ [c], natOfDigits digs) := by
  have htw : ((init ++ c :: digs).reverse.takeWhile isAsciiDigit).reverse = digs := by
    have : (init ++ c :: digs).reverse = digs.reverse ++ (c :: init.reverse) := by simp
    rw [this, List.takeWhile_append_of_pos (by simpa using hall)]
    simp [hc]
  have hpre : (init ++ c :: digs).take ((init ++ c :: digs).length - digs.length) = init ++ [c] := by
    have : (init ++ c :: digs) = (init ++ [c]) ++ digs := by simp
    rw [this, List.length_append, Nat.add_sub_cancel, List.take_left']
    rfl
  unfold alphanumericSplit
  simp only [htw, hpre]
  have h1 : digs.isEmpty = false := by cases digs <;> simp_all
  have h2 : (init ++ [c]).isEmpty = false := by cases init <;> simp
  have h3 : (init ++ [c]).dropLast = init := by simp
  simp only [h1, h2, h3, hnl]
  simp

/-- a role without a final ASCII digit has no numeric suffix -/
theorem alphanumericSplit_nodigit (init : Str) (c : Char) (hc : isAsciiDigit c = false) :
    alphanumericSplit (init ++ [c]) = none := by
  have htw : ((init ++ [c]).reverse.takeWhile isAsciiDigit) = [] := by simp [hc]
  unfold alphanumericSplit
  simp only [htw]
  simp

theorem endsWith_nl_snoc (init : Str) (c : Char) : endsWith ['\n'] (init ++ [c]) = decide (c = '\n') := by
  simp only [endsWith, List.isSuffixOf, List.reverse_append, List.reverse_cons, List.reverse_nil,
    List.nil_append, List.cons_append, List.isPrefixOf]
  by_cases h : c = '\n'
  · subst h; rfl
  · have h' : ¬ '\n' = c := fun e => h e.symm
    simp [h, h']

/-- `(.*\D)(\d+)$`: name = everything up to the last non-digit, number = the digit suffix -/
theorem alphanumericOrder_digits (init : Str) (c : Char) (digs : Str)
    (hc : isAsciiDigit c = false) (hd : digs ≠ []) (hall : digs.all isAsciiDigit = true)
    (hnl : init.contains '\n' = false) :
    alphanumericOrder (init ++ c :: digs) = (init ++ [c], natOfDigits digs) := by
  simp [alphanumericOrder, alphanumericSplit_digits init c digs hc hd hall hnl]

/-- no trailing digits and no trailing line feed: the role itself, number 0 -/
theorem alphanumericOrder_nodigit (init : Str) (c : Char) (hc : isAsciiDigit c = false) (hn : c ≠ '\n') :
    alphanumericOrder (init ++ [c]) = (init ++ [c], 0) := by
  simp [alphanumericOrder, alphanumericSplit_nodigit init c hc, endsWith_nl_snoc, hn]

theorem alphanumericOrder_nil : alphanumericOrder [] = ([], 0) := by decide

/-- same role name, smaller number: strictly smaller alphanumeric key -/
theorem alphanumeric_key_lt (m : Model) {r1 r2 p : Str} {n1 n2 : Nat}
    (h1 : alphanumericOrder r1 = (p, n1)) (h2 : alphanumericOrder r2 = (p, n2)) (hlt : n1 < n2) :
    kvLe (evalKeys m [.alphanumeric] r1) (evalKeys m [.alphanumeric] r2) = true ∧
    kvLe (evalKeys m [.alphanumeric] r2) (evalKeys m [.alphanumeric] r1) = false := by
  have : ¬ n2 < n1 := by omega
  simp [evalKeys, KeyFn.eval, h1, h2, kvLe, KV.lt, strLt_irrefl, hlt, this]

/-- … and strictly smaller canonical key when both roles have the same direction -/
theorem canonical_key_lt (m : Model) {r1 r2 p : Str} {n1 n2 : Nat}
    (hi : m.isRoleInverted r1 = m.isRoleInverted r2)
    (h1 : alphanumericOrder r1 = (p, n1)) (h2 : alphanumericOrder r2 = (p, n2)) (hlt : n1 < n2) :
    kvLe (evalKeys m [.canonical] r1) (evalKeys m [.canonical] r2) = true ∧
    kvLe (evalKeys m [.canonical] r2) (evalKeys m [.canonical] r1) = false := by
  have : ¬ n2 < n1 := by omega
  simp [evalKeys, KeyFn.eval, h1, h2, hi, kvLe, KV.lt, strLt_irrefl, hlt, this]

/-- different role names are ordered by code point, whatever the numbers -/
theorem alphanumeric_key_name_lt (m : Model) {r1 r2 : Str}
    (hlt : strLt (alphanumericOrder r1).1 (alphanumericOrder r2).1 = true) :
    kvLe (evalKeys m [.alphanumeric] r1) (evalKeys m [.alphanumeric] r2) = true ∧
    kvLe (evalKeys m [.alphanumeric] r2) (evalKeys m [.alphanumeric] r1) = false := by
  simp [evalKeys, KeyFn.eval, kvLe, KV.lt, hlt, strLt_asymm hlt]

/-- the canonical key puts inverted roles last -/
theorem canonical_key_inverted_last (m : Model) {r1 r2 : Str}
    (h1 : m.isRoleInverted r1 = false) (h2 : m.isRoleInverted r2 = true) :
    kvLe (evalKeys m [.canonical] r1) (evalKeys m [.canonical] r2) = true ∧
    kvLe (evalKeys m [.canonical] r2) (evalKeys m [.canonical] r1) = false := by
  simp [evalKeys, KeyFn.eval, kvLe, KV.lt, h1, h2]

theorem invertedLast_key_inverted_last (m : Model) {r1 r2 : Str}
    (h1 : m.isRoleInverted r1 = false) (h2 : m.isRoleInverted r2 = true) :
    kvLe (evalKeys m [.invertedLast] r1) (evalKeys m [.invertedLast] r2) = true ∧
    kvLe (evalKeys m [.invertedLast] r2) (evalKeys m [.invertedLast] r1) = false := by
  simp [evalKeys, KeyFn.eval, kvLe, KV.lt, h1, h2]

/-- attributes first: a branch whose target is not a variable of the tree sorts
    strictly before one whose target is, whatever the role key -/
theorem branchLe_attr_first (m : Model) (vars : List Str) (key : Option (List KeyFn)) {a b : Branch}
    (ha : branchTargetInVars vars a.2 = false) (hb : branchTargetInVars vars b.2 = true) :
    branchLe m vars key a b = true ∧ branchLe m vars key b a = false := by
  simp [branchLe, branchKey, kvLe, KV.lt, ha, hb]

/-- when the attribute flag agrees (always, for `attributes_first = False`),
    branches compare by the role key alone -/
theorem branchLe_same_flag (m : Model) (vars : List Str) (ks : List KeyFn) {a b : Branch}
    (h : branchTargetInVars vars a.2 = branchTargetInVars vars b.2) :
    branchLe m vars (some ks) a b = kvLe (evalKeys m ks a.1) (evalKeys m ks b.1) := by
  simp [branchLe, branchKey, kvLe, KV.lt, h]

theorem branchTargetInVars_nil (t : Tgt) : branchTargetInVars [] t = false := by
  cases t with
  | atom a => cases a <;> simp [branchTargetInVars]
  | node n => simp only [branchTargetInVars]; split <;> simp

end Penman.RA

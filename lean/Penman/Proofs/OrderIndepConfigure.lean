/-
  Penman.Proofs.OrderIndepConfigure — property C17, consumer 1:
  `layout._configure` builds `nodemap = {var: None for var in g.variables()}` by iterating
  a set. Everything `configure` does with `nodemap` afterwards is a lookup or an update by
  key, so the result does not depend on the iteration order.
  Core Lean only.
-/
import Penman.Proofs.OrderIndep
set_option linter.unusedSimpArgs false
set_option linter.unusedVariables false
namespace Penman.OrderIndep
open Penman

/-! ### dictionaries that agree as mappings -/

/-- two dicts with the same lookups (key order may differ) -/
def NmEq (nm nm' : AList Str NM) : Prop := ∀ k, AList.get? nm k = AList.get? nm' k

theorem contains_eq_isSome {α β : Type} [DecidableEq α] (d : AList α β) (k : α) :
    AList.contains d k = (AList.get? d k).isSome := by
  induction d with
  | nil => rfl
  | cons p r ih =>
    simp only [AList.contains, List.any_cons, AList.get?_cons] at ih ⊢
    by_cases h : p.1 = k <;> simp [h, ih]

theorem NmEq.contains {nm nm' : AList Str NM} (h : NmEq nm nm') (k : Str) :
    AList.contains nm k = AList.contains nm' k := by
  rw [contains_eq_isSome, contains_eq_isSome, h k]

theorem NmEq.set {nm nm' : AList Str NM} (h : NmEq nm nm') (k : Str) (v : NM) :
    NmEq (AList.set nm k v) (AList.set nm' k v) := by
  intro k'
  rw [AList.get?_set, AList.get?_set, h k']

/-- the initial `nodemap` as a mapping: every variable ↦ unset, whatever the enumeration -/
theorem get?_map_unset (vars : List Str) (k : Str) :
    AList.get? (vars.map (·, NM.unset)) k = if k ∈ vars then some NM.unset else none := by
  induction vars with
  | nil => simp
  | cons v vs ih =>
    simp only [List.map_cons, AList.get?_cons, ih, List.mem_cons]
    by_cases h : v = k
    · simp [h]
    · simp [h, Ne.symm h]

theorem nmEq_init {vars vars' : List Str} (h : SameMembers vars vars') (top : Str) :
    NmEq (AList.set (vars.map (·, NM.unset)) top NM.own)
         (AList.set (vars'.map (·, NM.unset)) top NM.own) := by
  apply NmEq.set
  intro k
  rw [get?_map_unset, get?_map_unset]
  simp [h k]

/-- states that agree on the cells and, as mappings, on the nodemap -/
def StEq (st st' : St) : Prop := st.cells = st'.cells ∧ NmEq st.nm st'.nm

theorem StEq.cell {st st' : St} (h : StEq st st') (v : Str) : st.cell v = st'.cell v := by
  simp only [St.cell, h.1]

theorem StEq.addBack {st st' : St} (h : StEq st st') (v : Str) (e : Edge) :
    StEq (st.addBack v e) (st'.addBack v e) := by
  refine ⟨?_, h.2⟩
  simp only [St.addBack, h.cell, h.1]

theorem StEq.addFront {st st' : St} (h : StEq st st') (v : Str) (e : Edge) :
    StEq (st.addFront v e) (st'.addFront v e) := by
  refine ⟨?_, h.2⟩
  simp only [St.addFront, h.cell, h.1]

theorem StEq.newCell {st st' : St} (h : StEq st st') (v : Str) :
    StEq (st.newCell v) (st'.newCell v) := by
  refine ⟨?_, h.2.set v .own⟩
  simp only [St.newCell, h.1]

theorem StEq.noteSite {st st' : St} (h : StEq st st') (var : Str) (target : Atom) :
    StEq (st.noteSite var target) (st'.noteSite var target) := by
  cases target with
  | none => exact h
  | num _ => exact h
  | str v =>
    simp only [St.noteSite, ← h.2 v]
    split
    · exact ⟨h.1, h.2.set v _⟩
    · exact h

theorem StEq.established {st st' : St} (h : StEq st st') (target : Atom) :
    st.established target = st'.established target := by
  cases target <;> simp only [St.established, h.2 _]

theorem StEq.pushVar {st st' : St} (h : StEq st st') (push : Bool) (target : Atom) :
    pushVar st push target = pushVar st' push target := by
  simp only [Penman.pushVar, h.established]

/-! ### `_configure_node` -/

def CNRel (r r' : List Datum × St × Bool) : Prop := r.1 = r'.1 ∧ StEq r.2.1 r'.2.1 ∧ r.2.2 = r'.2.2

theorem configureNode_rel (m : Model) :
    ∀ (fuel : Nat) (var : Str) (data : List Datum) (st st' : St) (s : Bool), StEq st st' →
      CNRel (configureNode m fuel var data st s) (configureNode m fuel var data st' s)
  | 0, _, _, _, _, _, h => ⟨rfl, h, rfl⟩
  | _+1, _, [], _, _, _, h => ⟨rfl, h, rfl⟩
  | _+1, _, .pop :: _, _, _, _, h => ⟨rfl, h, rfl⟩
  | fuel+1, var, .t tr push epis :: data, st, st', s, h => by
    simp only [configureNode]
    cases orient m var tr push s with
    | none => exact ⟨rfl, h, rfl⟩
    | some o =>
      obtain ⟨role, target, push', s'⟩ := o
      simp only []
      by_cases hr : role = CONCEPT_ROLE
      · simp only [hr, if_true]
        by_cases hm : target.isMissing
        · simp only [hm, if_true]
          exact configureNode_rel m fuel var data st st' s' h
        · simp only [hm, Bool.false_eq_true, if_false]
          exact configureNode_rel m fuel var data _ _ s' (h.addFront _ _)
      · simp only [hr, if_false, ← h.pushVar]
        cases pushVar st push' target with
        | none =>
          exact configureNode_rel m fuel var data _ _ s' ((h.noteSite _ _).addBack _ _)
        | some v =>
          simp only []
          have h1 := configureNode_rel m fuel v data _ _ false (h.newCell v)
          obtain ⟨e1, e2, e3⟩ := h1
          rw [← e1, ← e3]
          exact configureNode_rel m fuel var _ _ _ _ (e2.addBack _ _)

/-! ### `_get_or_establish_site`, `_find_next` -/

theorem getOrEstablish_rel {st st' : St} (h : StEq st st') (v : Str) :
    (getOrEstablish st v).1 = (getOrEstablish st' v).1 ∧
      StEq (getOrEstablish st v).2 (getOrEstablish st' v).2 := by
  simp only [getOrEstablish, ← h.2 v]
  cases hg : AList.get? st.nm v with
  | none => exact ⟨rfl, h⟩
  | some x =>
    cases x with
    | unset => exact ⟨rfl, h⟩
    | own => exact ⟨rfl, h⟩
    | site u =>
      refine ⟨rfl, ?_, h.2.set v .own⟩
      simp only [h.cell, h.1]

def FNRel (r r' : List Datum × Option Str × List Datum × St) : Prop :=
  r.1 = r'.1 ∧ r.2.1 = r'.2.1 ∧ r.2.2.1 = r'.2.2.1 ∧ StEq r.2.2.2 r'.2.2.2

theorem tryEstablish_rel {st st' : St} (h : StEq st st') (v : Str) :
    (if AList.contains st.nm v then getOrEstablish st v else (false, st)).1 =
      (if AList.contains st'.nm v then getOrEstablish st' v else (false, st')).1 ∧
    StEq (if AList.contains st.nm v then getOrEstablish st v else (false, st)).2
      (if AList.contains st'.nm v then getOrEstablish st' v else (false, st')).2 := by
  rw [← h.2.contains v]
  cases AList.contains st.nm v with
  | true => simpa using getOrEstablish_rel h v
  | false => exact ⟨rfl, h⟩

theorem findNext_rel :
    ∀ (data skippedRev : List Datum) (st st' : St), StEq st st' →
      FNRel (findNext data skippedRev st) (findNext data skippedRev st')
  | [], [], _, _, h => ⟨rfl, rfl, rfl, h⟩
  | [], _ :: _, _, _, h => ⟨rfl, rfl, rfl, h⟩
  | .pop :: rest, sk, st, st', h => by
    simp only [findNext]
    exact findNext_rel rest _ st st' h
  | .t tr push epis :: rest, sk, st, st', h => by
    simp only [findNext]
    obtain ⟨a1, a2⟩ := tryEstablish_rel h tr.src
    generalize (if AList.contains st.nm tr.src then getOrEstablish st tr.src else (false, st)) = x
      at a1 a2 ⊢
    generalize (if AList.contains st'.nm tr.src then getOrEstablish st' tr.src else (false, st')) = x'
      at a1 a2 ⊢
    obtain ⟨xb, xs⟩ := x
    obtain ⟨xb', xs'⟩ := x'
    simp only at a1 a2
    subst a1
    cases xb with
    | true => exact ⟨rfl, rfl, rfl, a2⟩
    | false =>
      simp only [Bool.false_eq_true, if_false]
      cases tr.tgt with
      | none => exact findNext_rel rest _ _ _ a2
      | num _ => exact findNext_rel rest _ _ _ a2
      | str tv =>
        simp only []
        obtain ⟨b1, b2⟩ := tryEstablish_rel a2 tv
        generalize (if AList.contains xs.nm tv then getOrEstablish xs tv else (false, xs)) = y
          at b1 b2 ⊢
        generalize (if AList.contains xs'.nm tv then getOrEstablish xs' tv else (false, xs')) = y'
          at b1 b2 ⊢
        obtain ⟨yb, ys⟩ := y
        obtain ⟨yb', ys'⟩ := y'
        simp only at b1 b2
        subst b1
        cases yb with
        | true => exact ⟨rfl, rfl, rfl, b2⟩
        | false => exact findNext_rel rest _ _ _ b2

/-! ### the `while data:` loop -/

theorem configureLoop_rel (m : Model) :
    ∀ (fuel : Nat) (data skipped : List Datum) (st st' : St), StEq st st' →
      ExceptRel StEq (configureLoop m fuel data skipped st) (configureLoop m fuel data skipped st')
  | 0, _, _, _, _, _ => rfl
  | _+1, [], skipped, st, st', h => by
    simp only [configureLoop]
    split
    · exact h
    · exact rfl
  | fuel+1, d :: ds, skipped, st, st', h => by
    simp only [configureLoop]
    obtain ⟨f1, f2, f3, f4⟩ := findNext_rel (d :: ds) [] st st' h
    generalize findNext (d :: ds) [] st = x at f1 f2 f3 f4 ⊢
    generalize findNext (d :: ds) [] st' = x' at f1 f2 f3 f4 ⊢
    obtain ⟨sk, var, data1, st1⟩ := x
    obtain ⟨sk', var', data1', st1'⟩ := x'
    simp only at f1 f2 f3 f4
    subst f1 f2 f3
    cases var with
    | none => exact rfl
    | some v =>
      simp only []
      split
      · exact rfl
      · obtain ⟨c1, c2, c3⟩ := configureNode_rel m (data1.length + 1) v data1 _ _ false f4
        generalize configureNode m (data1.length + 1) v data1 st1 false = y at c1 c2 c3 ⊢
        generalize configureNode m (data1.length + 1) v data1 st1' false = y' at c1 c2 c3 ⊢
        obtain ⟨data2, st2, sur⟩ := y
        obtain ⟨data2', st2', sur'⟩ := y'
        simp only at c1 c2 c3
        subst c1 c3
        split
        · cases data2 with
          | nil => exact rfl
          | cons d2 rest => exact configureLoop_rel m fuel _ _ _ _ c2
        · split
          · exact rfl
          · exact configureLoop_rel m fuel _ _ _ _ c2

/-! ### `configure` with the enumeration of `g.variables()` as a parameter -/

/-- `configure(g, top, model)` where `for var in g.variables()` runs through `vars` -/
def configureWith (m : Model) (vars : List Str) (g : Graph) (top : Option Str) : Except PyErr Tree :=
  if g.triples.isEmpty then .ok { node := .mk g.getTop .nil, metadata := g.metadata }
  else
    let top := match top with | some t => some t | none => g.getTop
    match top with
    | none => .error (.layout 0)
    | some top =>
      if top ∉ vars then .error (.layout 0)
      else do
        let st0 : St := { cells := [(top, [])], nm := AList.set (vars.map (·, NM.unset)) top NM.own }
        let data ← preconfigure m g.epidata g.triples []
        let (data1, st1, _) := configureNode m (data.length + 1) top data st0 false
        let st2 ← configureLoop m ((data.length + 1) * (data.length + 1) + 1) (stripPops data1) [] st1
        let node ← buildNode st2.cells (2 * st2.cells.length + 2) top
        pure { node := node, metadata := g.metadata }

theorem configure_eq_with (m : Model) (g : Graph) (top : Option Str) :
    configure m g top = configureWith m g.variables g top := rfl

theorem configureWith_congr (m : Model) {vars vars' : List Str} (h : SameMembers vars vars')
    (g : Graph) (top : Option Str) : configureWith m vars g top = configureWith m vars' g top := by
  unfold configureWith
  split
  · rfl
  · simp only []
    split
    · rfl
    · rename_i tp _
      by_cases ht : tp ∈ vars
      · have ht' := (h tp).mp ht
        simp only [ht, ht', not_true_eq_false, if_false]
        cases preconfigure m g.epidata g.triples [] with
        | error e => rfl
        | ok data =>
          have h0 : StEq { cells := [(tp, [])], nm := AList.set (vars.map (·, NM.unset)) tp NM.own }
              { cells := [(tp, [])], nm := AList.set (vars'.map (·, NM.unset)) tp NM.own } :=
            ⟨rfl, nmEq_init h tp⟩
          obtain ⟨c1, c2, _⟩ := configureNode_rel m (data.length + 1) tp data _ _ false h0
          apply ExceptRel.eq_of
          show ExceptRel (· = ·) (Except.bind _ _) (Except.bind _ _)
          dsimp only [Except.bind]
          rw [← c1]
          refine ExceptRel.bind (configureLoop_rel m _ _ [] _ _ c2) ?_
          intro a b hab
          rw [hab.1]
          cases buildNode b.cells (2 * b.cells.length + 2) tp <;> exact rfl
      · have ht' : tp ∉ vars' := fun x => ht ((h tp).mpr x)
        simp only [ht, ht', not_false_eq_true, if_true]

/-- the model's own enumeration is duplicate-free, like a Python set -/
theorem variables_nodup (g : Graph) : g.variables.Nodup := Penman.variables_nodup g

end Penman.OrderIndep

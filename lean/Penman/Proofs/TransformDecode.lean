/-
  Penman.Proofs.TransformDecode — every transformation step, and every program of transformations,
  preserves the invariant `DecOK`; hence the result encodes and decodes to itself.
-/
import Penman.Proofs.TransformDecodeDereify
namespace Penman.C12dec
open Penman Penman.Spec Penman.C03Text

/-- side condition of one step, on the graph it is applied to: `PushSrcOk` for `indicate_branches`
    (as in C12), `DerefSide` for `dereify_edges`, none for the two reifications -/
def SideDec (m : Model) : Xf → Graph → Prop
  | .indicateBranches, g => PushSrcOk g
  | .dereifyEdges, g => DerefSide m g
  | _, _ => True

instance (m : Model) (x : Xf) (g : Graph) : Decidable (SideDec m x g) := by
  cases x <;> unfold SideDec <;> infer_instance

/-- the side conditions hold at every step of the program -/
def SideAlongDec (m : Model) : List Xf → Graph → Prop
  | [], _ => True
  | x :: r, g => SideDec m x g ∧ ∀ g', x.run m g = .ok g' → SideAlongDec m r g'

section
variable {cfg : LexCfg} {isSpace : Char → Bool} {m : Model}

/-- one step: it succeeds, and its result satisfies the invariant again, with the same top -/
theorem step_decOK (hm : ReifWf m) (htr : TopRoleOk m) (htab : TableOK cfg m) (x : Xf) (g : Graph)
    (hd : DecOK cfg isSpace m g) (hs : SideDec m x g) :
    ∃ g', x.run m g = .ok g' ∧ DecOK cfg isSpace m g' ∧ g'.getTop = g.getTop := by
  cases x with
  | reifyEdges =>
    obtain ⟨rev, st, _, _, h⟩ := reifyEdges_result m g
    exact ⟨_, h, reifyEdges_decOK hm htab hd h⟩
  | reifyAttributes => exact ⟨_, rfl, reifyAttributes_decOK htab hd⟩
  | dereifyEdges =>
    obtain ⟨g', h⟩ := dereifyEdges_total m g
    exact ⟨g', h, dereifyEdges_decOK hm htab hd hs h⟩
  | indicateBranches =>
    obtain ⟨g', h⟩ := indicateBranches_ok_iff.mpr (pushSrcOk_noErr hs)
    exact ⟨g', h, indicateBranches_decOK htr htab hd hs h⟩

/-- every program -/
theorem prog_decOK (hm : ReifWf m) (htr : TopRoleOk m) (htab : TableOK cfg m) :
    ∀ (p : List Xf) (g : Graph), DecOK cfg isSpace m g → SideAlongDec m p g →
      ∃ g', runProg m p g = .ok g' ∧ DecOK cfg isSpace m g' ∧ g'.getTop = g.getTop
  | [], g, hd, _ => ⟨g, rfl, hd, rfl⟩
  | x :: r, g, hd, hs => by
    obtain ⟨g1, h1, hd1, ht1⟩ := step_decOK hm htr htab x g hd hs.1
    obtain ⟨g2, h2, hd2, ht2⟩ := prog_decOK hm htr htab r g1 hd1 (hs.2 g1 h1)
    refine ⟨g2, ?_, hd2, ht2.trans ht1⟩
    simp only [runProg, List.foldlM, h1, bind, Except.bind]
    exact h2

end
end Penman.C12dec

/-
  Penman.Proofs.NormalFormVarsStages — the "idle stage" predicates of C20
  (`NoReifiable`, `NoCollapsible`, `NoAttributes`, `StagesIdle`) are invariant
  under the variable renaming `renGraph vm` of `reset_variables`.
-/
import Penman.Proofs.ResetIso
import Penman.Spec.NormalFormGraph
import Penman.Proofs.Transform.Dereify
import Penman.Proofs.RearrangeInterp
namespace Penman.RV
open Penman.C20gen

/-! ### the renaming on keys -/

theorem renVar_inj_keys {vm : AList Str Str} {vars : List Str} (hv : VmOk vm vars) {x y : Str}
    (hx : x ∈ AList.keys vm) (hy : y ∈ AList.keys vm) (e : renVar vm x = renVar vm y) : x = y := by
  obtain ⟨nx, hnx⟩ := Option.isSome_iff_exists.1 (get?_isSome_iff.2 hx)
  obtain ⟨ny, hny⟩ := Option.isSome_iff_exists.1 (get?_isSome_iff.2 hy)
  rw [renVar_of_get? hnx, renVar_of_get? hny] at e
  subst e
  exact get?_inj_of_nodup_vals hv.inj hnx hny

theorem renVar_mem_news {vm : AList Str Str} {vars : List Str} (hv : VmOk vm vars) {x : Str}
    (hx : x ∈ AList.keys vm) : renVar vm x ∈ vars.map (renVar vm) :=
  List.mem_map.2 ⟨x, (hv.keys x).2 hx, rfl⟩

/-- a name that is a key or is not a new name is renamed like the key `x` only if it is `x` -/
theorem renVar_eq_key {vm : AList Str Str} {vars : List Str} (hv : VmOk vm vars) {x s : Str}
    (hx : x ∈ AList.keys vm) (hs : s ∈ AList.keys vm ∨ s ∉ vars.map (renVar vm))
    (h : renVar vm s = renVar vm x) : s = x := by
  by_cases ks : s ∈ AList.keys vm
  · exact renVar_inj_keys hv ks hx h
  · rw [renVar_of_not_key ks] at h
    exact absurd (h ▸ renVar_mem_news hv hx) (hs.resolve_left ks)

theorem ensureColon_role {g : Graph} (hrc : RolesColon g) {t : Triple} (ht : t ∈ g.triples) :
    ensureColon t.role = t.role := ensureColon_of_colon (hrc t ht)

/-- the target of a renamed triple -/
def renTgtAtom (vm : AList Str Str) : Atom → Atom
  | .str s => .str (renVar vm s)
  | a => a

theorem renTriple_src (vm : AList Str Str) (t : Triple) : (renTriple vm t).src = renVar vm t.src := rfl
theorem renTriple_role (vm : AList Str Str) (t : Triple) : (renTriple vm t).role = t.role := rfl

theorem renTriple_tgt_concept (vm : AList Str Str) {t : Triple} (h : t.role = CONCEPT_ROLE) :
    (renTriple vm t).tgt = t.tgt := by
  simp [renTriple, h, ensureColon_concept]

theorem renTriple_tgt_other (vm : AList Str Str) {t : Triple} (h : ensureColon t.role ≠ CONCEPT_ROLE) :
    (renTriple vm t).tgt = renTgtAtom vm t.tgt := by
  simp only [renTriple, h, if_false, renTgtAtom]
  cases t.tgt <;> rfl

/-! ### top and variables of the renamed graph -/

theorem renGraph_getTop (vm : AList Str Str) (g : Graph) :
    (renGraph vm g).getTop = g.getTop.map (renVar vm) := by
  simp only [Graph.getTop, renGraph]
  cases g.top with
  | some t => rfl
  | none =>
    cases g.triples with
    | nil => rfl
    | cons t r => rfl

theorem mem_variables_ren (vm : AList Str Str) (g : Graph) (x' : Str) :
    x' ∈ (renGraph vm g).variables ↔ ∃ x ∈ g.variables, renVar vm x = x' := by
  simp only [mem_variables]
  constructor
  · rintro (⟨t', ht', rfl⟩ | h)
    · simp only [renGraph, List.mem_map] at ht'
      obtain ⟨t, ht, rfl⟩ := ht'
      exact ⟨t.src, Or.inl ⟨t, ht, rfl⟩, rfl⟩
    · simp only [renGraph, Option.map_eq_some_iff] at h
      obtain ⟨x, hx, rfl⟩ := h
      exact ⟨x, Or.inr hx, rfl⟩
  · rintro ⟨x, (⟨t, ht, rfl⟩ | h), rfl⟩
    · exact Or.inl ⟨renTriple vm t, List.mem_map.2 ⟨t, ht, rfl⟩, rfl⟩
    · right; simp [renGraph, h]

theorem variables_keys {vm : AList Str Str} {news : List Str} {g : Graph}
    (hcl : ∀ t ∈ g.triples, Closed vm news t)
    (htop : ∀ t, g.top = some t → t ∈ AList.keys vm) {x : Str} (hx : x ∈ g.variables) :
    x ∈ AList.keys vm := by
  rcases (mem_variables g x).1 hx with ⟨t, ht, rfl⟩ | h
  · exact (hcl t ht).1
  · exact htop x h

/-! ### `NoReifiable`, `NoAttributes` -/

theorem noReifiable_ren {m : Model} {vm : AList Str Str} {g : Graph} (h : NoReifiable m g) :
    NoReifiable m (renGraph vm g) := by
  intro t' ht'
  simp only [renGraph, List.mem_map] at ht'
  obtain ⟨t, ht, rfl⟩ := ht'
  exact h t ht

theorem noAttributes_ren {vm : AList Str Str} {g : Graph} (hrc : RolesColon g) (h : NoAttributes g) :
    NoAttributes (renGraph vm g) := by
  intro t' ht'
  simp only [renGraph, List.mem_map] at ht'
  obtain ⟨t, ht, rfl⟩ := ht'
  by_cases hc : t.role = CONCEPT_ROLE
  · exact Or.inl hc
  · right
    have h1 := (h t ht).resolve_left hc
    have hc' : ensureColon t.role ≠ CONCEPT_ROLE := by rw [ensureColon_role hrc ht]; exact hc
    rw [renTriple_tgt_other vm hc']
    cases htg : t.tgt with
    | none => simp [htg, atomInVars] at h1
    | num x => simp [htg, atomInVars] at h1
    | str s =>
      simp only [htg, atomInVars, decide_eq_true_eq] at h1
      simp only [renTgtAtom, atomInVars, decide_eq_true_eq]
      exact (mem_variables_ren vm g _).2 ⟨s, h1, rfl⟩

/-! ### the first loop of `_dereify_agenda` under the renaming -/

theorem otherOf_ren {vm : AList Str Str} {vars : List Str} (hv : VmOk vm vars) {l : List Triple}
    (hl : ∀ t ∈ l, t.src ∈ AList.keys vm) {v : Str} (hvk : v ∈ AList.keys vm) :
    otherOf (l.map (renTriple vm)) (renVar vm v) = (otherOf l v).map (renTriple vm) := by
  unfold otherOf
  rw [List.filter_map]
  congr 1
  apply List.filter_congr
  intro t ht
  have : renVar vm t.src = renVar vm v ↔ t.src = v :=
    ⟨renVar_inj_keys hv (hl t ht) hvk, fun e => by rw [e]⟩
  simp [Function.comp, renTriple_src, renTriple_role, this]

theorem instOf_ren {vm : AList Str Str} {vars : List Str} (hv : VmOk vm vars) {l : List Triple}
    (hl : ∀ t ∈ l, t.src ∈ AList.keys vm) {v : Str} (hvk : v ∈ AList.keys vm) :
    instOf (l.map (renTriple vm)) (renVar vm v) = (instOf l v).map (renTriple vm) := by
  unfold instOf
  rw [List.filter_map]
  congr 1
  apply List.filter_congr
  intro t ht
  have : renVar vm t.src = renVar vm v ↔ t.src = v :=
    ⟨renVar_inj_keys hv (hl t ht) hvk, fun e => by rw [e]⟩
  simp [Function.comp, renTriple_src, renTriple_role, this]

/-- a fixed variable stays fixed -/
theorem fixed_ren {vm : AList Str Str} {g : Graph} (hrc : RolesColon g) {v : Str}
    (h : Atom.str v ∈ (agendaScan g).1) :
    Atom.str (renVar vm v) ∈ (agendaScan (renGraph vm g)).1 := by
  rw [agendaScan_fixed] at h ⊢
  rcases h with h | ⟨t, ht, hr, htg⟩
  · left
    simp only [topAtom, renGraph_getTop] at h ⊢
    cases hg : g.getTop with
    | none => simp [hg] at h
    | some x =>
      simp only [hg, Atom.str.injEq] at h
      simp [h]
  · right
    refine ⟨renTriple vm t, List.mem_map.2 ⟨t, ht, rfl⟩, hr, ?_⟩
    rw [renTriple_tgt_other vm (by rw [ensureColon_role hrc ht]; exact hr), htg]; rfl

/-! ### marker lookup under the renaming -/

theorem get?_renEntry {vm : AList Str Str} {vars : List Str} (hv : VmOk vm vars) :
    ∀ (d : Epidata) (b : Triple), (∀ e ∈ d, Closed vm (vars.map (renVar vm)) e.1) →
      Closed vm (vars.map (renVar vm)) b →
      AList.get? (d.map (renEntry vm)) (renTriple vm b) =
        (AList.get? d b).map (List.map (renEpi vm))
  | [], b, _, _ => rfl
  | (k, es) :: r, b, hd, hb => by
    have hk : Closed vm (vars.map (renVar vm)) k := hd (k, es) List.mem_cons_self
    have ih := get?_renEntry hv r b (fun e he => hd e (List.mem_cons_of_mem _ he)) hb
    simp only [List.map_cons, AList.get?_cons, renEntry]
    by_cases h : k = b
    · simp [h]
    · have : renTriple vm k ≠ renTriple vm b := fun e => h (renTriple_inj hv k b hk hb e)
      simp only [if_neg h, if_neg this]
      exact ih

theorem getPushedVariable_ren {vm : AList Str Str} {vars : List Str} (hv : VmOk vm vars) {g : Graph}
    (hep : ∀ e ∈ g.epidata, Closed vm (vars.map (renVar vm)) e.1) {b : Triple}
    (hb : Closed vm (vars.map (renVar vm)) b) :
    getPushedVariable (renGraph vm g) (renTriple vm b) = (getPushedVariable g b).map (renVar vm) := by
  unfold getPushedVariable
  simp only [renGraph]
  rw [get?_renEntry hv g.epidata b hep hb]
  cases AList.get? g.epidata b with
  | none => rfl
  | some es =>
    simp only [Option.map_some, Option.getD_some]
    induction es with
    | nil => rfl
    | cons e r ih => cases e <;> simp [List.findSome?, renEpi, ih]

theorem getPushedVariable_mem {g : Graph} {b : Triple} {w : Str} (h : getPushedVariable g b = some w) :
    ∃ e ∈ g.epidata, Epi.push w ∈ e.2 := by
  unfold getPushedVariable at h
  cases hg : AList.get? g.epidata b with
  | none => simp [hg] at h
  | some es =>
    simp only [hg, Option.getD_some] at h
    obtain ⟨a, ha, hf⟩ := List.exists_of_findSome?_eq_some h
    refine ⟨(b, es), AList.mem_of_get? hg, ?_⟩
    cases a with
    | push v => simp only [Option.some.injEq] at hf; subst hf; exact ha
    | pop => simp at hf
    | roleAln p i => simp at hf
    | aln p i => simp at hf

/-! ### `Model.dereify` under the renaming -/

theorem dereifyLoop_ren (f : Atom → Atom) (r1 r2 : Str) (x y : Atom) : ∀ ds : List Reif,
    dereifyLoop r1 r2 (f x) (f y) ds =
      (dereifyLoop r1 r2 x y ds).map (fun p => (f p.1, p.2.1, f p.2.2))
  | [] => rfl
  | rf :: rest => by
    simp only [dereifyLoop]
    split
    · rfl
    · split
      · rfl
      · exact dereifyLoop_ren f r1 r2 x y rest

theorem dereify_ren (m : Model) (vm : AList Str Str) {i0 a b : Triple} (hi : i0.role = CONCEPT_ROLE)
    (ha : ensureColon a.role ≠ CONCEPT_ROLE) (hb : ensureColon b.role ≠ CONCEPT_ROLE)
    (h1 : i0.src = a.src) (h2 : a.src = b.src) :
    m.dereify (renTriple vm i0) (renTriple vm a) (renTriple vm b) =
      (m.dereify i0 a b).map (fun p => (renTgtAtom vm p.1, p.2.1, renTgtAtom vm p.2.2)) := by
  simp only [Model.dereify, renTriple_role, renTriple_src, hi, h1, h2, renTriple_tgt_concept vm hi,
    renTriple_tgt_other vm ha, renTriple_tgt_other vm hb, dereifyLoop_ren]
  simp only [ne_eq, not_true_eq_false, if_false, and_self]
  split
  · rfl
  · cases dereifyLoop a.role b.role a.tgt b.tgt (m.reifs.filter (·.concept = i0.tgt)) <;> rfl

/-! ### the decision of the second loop under the renaming -/

theorem dereifyLoop_src {r1 r2 : Str} {x y : Atom} : ∀ {ds : List Reif} {p : Atom × Str × Atom},
    dereifyLoop r1 r2 x y ds = some p → p.1 = x ∨ p.1 = y
  | [], p, h => by simp [dereifyLoop] at h
  | rf :: rest, p, h => by
    simp only [dereifyLoop] at h
    split at h
    · injection h with h; subst h; exact Or.inl rfl
    · split at h
      · injection h with h; subst h; exact Or.inr rfl
      · exact dereifyLoop_src h

theorem dereify_src {m : Model} {i0 a b : Triple} {p : Atom × Str × Atom}
    (h : m.dereify i0 a b = .ok p) : p.1 = a.tgt ∨ p.1 = b.tgt := by
  simp only [Model.dereify] at h
  split at h
  · cases h
  · split at h
    · cases h
    · split at h
      · cases h
      · split at h
        · rename_i hd
          injection h with h; subst h; exact dereifyLoop_src hd
        · cases h

/-- the new source of a dereified triple is a variable of the renamed graph only if the old
    one is a variable of the old graph -/
theorem dereify_var_ren {m : Model} {vm : AList Str Str} {vars : List Str} (hv : VmOk vm vars)
    {g : Graph} (hcl : ∀ t ∈ g.triples, Closed vm (vars.map (renVar vm)) t)
    (htop : ∀ t, g.top = some t → t ∈ AList.keys vm) {i0 x y : Triple}
    (hx : x ∈ g.triples) (hxr : ensureColon x.role ≠ CONCEPT_ROLE)
    (hy : y ∈ g.triples) (hyr : ensureColon y.role ≠ CONCEPT_ROLE) {s role : Str} {tgt : Atom}
    (hd : m.dereify i0 x y = .ok (.str s, role, tgt)) (hs : s ∉ g.variables) :
    renVar vm s ∉ (renGraph vm g).variables := by
  intro hin
  obtain ⟨k, hk, hks⟩ := (mem_variables_ren vm g _).1 hin
  have hkk := variables_keys hcl htop hk
  have hsc : s ∈ AList.keys vm ∨ s ∉ vars.map (renVar vm) := by
    rcases dereify_src hd with e | e
    · exact (hcl x hx).2 hxr s e.symm
    · exact (hcl y hy).2 hyr s e.symm
  exact hs (renVar_eq_key hv hkk hsc hks.symm ▸ hk)


theorem mem_otherOf {l : List Triple} {v : Str} {t : Triple} (h : t ∈ otherOf l v) :
    t ∈ l ∧ t.role ≠ CONCEPT_ROLE ∧ t.src = v := by
  simpa [otherOf] using h

theorem entryRes_skip_ren {m : Model} {vm : AList Str Str} {vars : List Str} (hv : VmOk vm vars)
    {g : Graph} (hrc : RolesColon g)
    (hcl : ∀ t ∈ g.triples, Closed vm (vars.map (renVar vm)) t)
    (hep : ∀ e ∈ g.epidata, Closed vm (vars.map (renVar vm)) e.1)
    (htop : ∀ t, g.top = some t → t ∈ AList.keys vm)
    (hpush : ∀ e ∈ g.epidata, ∀ w, Epi.push w ∈ e.2 →
      w ∈ AList.keys vm ∨ w ∉ vars.map (renVar vm))
    {v : Str} {i0 : Triple} (hvk : v ∈ AList.keys vm) (hi0r : i0.role = CONCEPT_ROLE)
    (hi0s : i0.src = v) (h : entryRes m g v i0 = .skip) :
    entryRes m (renGraph vm g) (renVar vm v) (renTriple vm i0) = .skip := by
  unfold entryRes at h ⊢
  have ho : otherOf (renGraph vm g).triples (renVar vm v) = (otherOf g.triples v).map (renTriple vm) :=
    otherOf_ren hv (fun t ht => (hcl t ht).1) hvk
  rw [ho]
  rcases hl : otherOf g.triples v with _ | ⟨a, _ | ⟨b, _ | ⟨c, r⟩⟩⟩
  · rfl
  · rfl
  · rw [hl] at h
    simp only [List.map_cons, List.map_nil] at h ⊢
    obtain ⟨hag, har, has⟩ := mem_otherOf (l := g.triples) (v := v) (t := a) (by rw [hl]; simp)
    obtain ⟨hbg, hbr, hbs⟩ := mem_otherOf (l := g.triples) (v := v) (t := b) (by rw [hl]; simp)
    have har' : ensureColon a.role ≠ CONCEPT_ROLE := by rw [ensureColon_role hrc hag]; exact har
    have hbr' : ensureColon b.role ≠ CONCEPT_ROLE := by rw [ensureColon_role hrc hbg]; exact hbr
    by_cases hc' : Atom.str (renVar vm v) ∉ (agendaScan (renGraph vm g)).1 ∧
        m.isDereifiable (renTriple vm i0).tgt
    · have hc : Atom.str v ∉ (agendaScan g).1 ∧ m.isDereifiable i0.tgt :=
        ⟨fun hin => hc'.1 (fixed_ren hrc hin), by rw [← renTriple_tgt_concept vm hi0r]; exact hc'.2⟩
      rw [if_pos hc] at h; rw [if_pos hc']
      have hp : getPushedVariable (renGraph vm g) (renTriple vm b) = some (renVar vm v) ↔
          getPushedVariable g b = some v := by
        rw [getPushedVariable_ren hv hep (hcl b hbg)]
        constructor
        · intro hh
          obtain ⟨w, hw, hw'⟩ := Option.map_eq_some_iff.1 hh
          obtain ⟨e, he, hwe⟩ := getPushedVariable_mem hw
          rw [hw, renVar_eq_key hv hvk (hpush e he w hwe) hw']
        · intro hh; rw [hh]; rfl
      simp only [hp]
      by_cases hpv : getPushedVariable g b = some v
      · simp only [hpv, if_true] at h ⊢
        rw [dereify_ren m vm hi0r hbr' har' (hi0s.trans hbs.symm) (hbs.trans has.symm)]
        cases hd : m.dereify i0 b a with
        | error e =>
          rw [hd] at h
          cases e <;> first | rfl | (simp at h)
        | ok r =>
          obtain ⟨src, role, tgt⟩ := r
          rw [hd] at h
          simp only [map_ok]
          cases src with
          | none => rfl
          | num t => rfl
          | str s =>
            have hs : s ∉ g.variables := by intro hs; simp [hs] at h
            have := dereify_var_ren hv hcl htop hbg hbr' hag har' hd hs
            simp [renTgtAtom, this]
      · simp only [hpv, if_false] at h ⊢
        rw [dereify_ren m vm hi0r har' hbr' (hi0s.trans has.symm) (has.trans hbs.symm)]
        cases hd : m.dereify i0 a b with
        | error e =>
          rw [hd] at h
          cases e <;> first | rfl | (simp at h)
        | ok r =>
          obtain ⟨src, role, tgt⟩ := r
          rw [hd] at h
          simp only [map_ok]
          cases src with
          | none => rfl
          | num t => rfl
          | str s =>
            have hs : s ∉ g.variables := by intro hs; simp [hs] at h
            have := dereify_var_ren hv hcl htop hag har' hbg hbr' hd hs
            simp [renTgtAtom, this]
    · simp only [hc', if_false]
  · rfl

/-! ### `NoCollapsible` -/

theorem noCollapsible_ren {m : Model} {vm : AList Str Str} {vars : List Str} (hv : VmOk vm vars)
    {g : Graph} (hrc : RolesColon g)
    (hcl : ∀ t ∈ g.triples, Closed vm (vars.map (renVar vm)) t)
    (hep : ∀ e ∈ g.epidata, Closed vm (vars.map (renVar vm)) e.1)
    (htop : ∀ t, g.top = some t → t ∈ AList.keys vm)
    (hpush : ∀ e ∈ g.epidata, ∀ w, Epi.push w ∈ e.2 →
      w ∈ AList.keys vm ∨ w ∉ vars.map (renVar vm))
    (h : NoCollapsible m g) : NoCollapsible m (renGraph vm g) := by
  unfold NoCollapsible at h ⊢
  rw [dereifyAgenda_nil_iff] at h ⊢
  intro p' hp'
  have h1 := agendaScan_inst_mem hp'
  obtain ⟨hmem, _, hs⟩ := instOf_getLast h1
  simp only [renGraph, List.mem_map] at hmem
  obtain ⟨t, ht, hte⟩ := hmem
  have hvk : t.src ∈ AList.keys vm := (hcl t ht).1
  have hp1 : p'.1 = renVar vm t.src := by rw [← hs, ← hte]; rfl
  have hsrcs : ∀ t ∈ g.triples, t.src ∈ AList.keys vm := fun t ht => (hcl t ht).1
  rw [hp1, show (renGraph vm g).triples = g.triples.map (renTriple vm) from rfl,
    instOf_ren hv hsrcs hvk, List.getLast?_map] at h1
  obtain ⟨i0, hi0, hi0e⟩ := Option.map_eq_some_iff.1 h1
  obtain ⟨_, hi0r, hi0s⟩ := instOf_getLast hi0
  have hmem0 : (t.src, i0) ∈ (agendaScan g).2.1 :=
    AList.mem_of_get? (by rw [agendaScan_inst]; exact hi0)
  have h2 := entryRes_skip_ren hv hrc hcl hep htop hpush hvk hi0r hi0s (h (t.src, i0) hmem0)
  rw [hp1, ← hi0e]; exact h2

/-! ### `Push` markers of an interpretation name node variables -/

def PushKeys (vm : AList Str Str) (l : List (Triple × List Epi)) : Prop :=
  ∀ e ∈ l, ∀ w, Epi.push w ∈ e.2 → w ∈ AList.keys vm

theorem map_eq_self {α : Type} {f : α → α} : ∀ {l : List α}, l.map f = l → ∀ x ∈ l, f x = x
  | [], _, x, hx => by cases hx
  | a :: r, h, x, hx => by
    simp only [List.map_cons, List.cons.injEq] at h
    rcases List.mem_cons.1 hx with rfl | hx
    · exact h.1
    · exact map_eq_self h.2 x hx

theorem no_push_of_fix {es : List Epi} (h : ∀ vm, es.map (renEpi vm) = es) (w : Str) :
    Epi.push w ∉ es := by
  intro hw
  have h1 := map_eq_self (h [(w, 'a' :: w)]) _ hw
  simp only [renEpi, Epi.push.injEq, renVar, AList.get?, List.find?, decide_true, Option.map_some,
    Option.getD_some] at h1
  have := congrArg List.length h1
  simp at this

theorem appendPopLast_push {vm : AList Str Str} : ∀ (l : List (Triple × List Epi)),
    PushKeys vm l → PushKeys vm (appendPopLast l)
  | [], h => h
  | [(t, e)], h => by
    intro e' he' w hw
    simp only [appendPopLast, List.mem_singleton] at he'
    subst he'
    simp only [List.mem_append, List.mem_singleton, reduceCtorEq, or_false] at hw
    exact h (t, e) List.mem_cons_self w hw
  | x :: y :: r, h => by
    intro e' he' w hw
    simp only [appendPopLast] at he'
    rcases List.mem_cons.1 he' with rfl | he'
    · exact h _ List.mem_cons_self w hw
    · exact appendPopLast_push (y :: r) (fun e he => h e (List.mem_cons_of_mem _ he)) e' he' w hw

mutual
theorem interpretNode_push (isAlpha : Char → Bool) (m : Model) (vm : AList Str Str)
    (vars : List Str) : ∀ (n : Node) (p : List Triple × List (Triple × List Epi)),
    nodeMappable vm n = true → interpretNode isAlpha m vars n = .ok p → PushKeys vm p.2
  | .mk v bs, p, hmp, h => by
    cases v with
    | none => simp [nodeMappable] at hmp
    | some var =>
      simp only [nodeMappable, Bool.and_eq_true] at hmp
      rw [interpretNode_some] at h
      cases hib : interpretBranches isAlpha m vars var bs with
      | error e => simp [hib, err_bind] at h
      | ok out =>
        have ih := interpretBranches_push isAlpha m vm vars bs var out hmp.2 hib
        simp only [hib, ok_bind, pure_eq] at h
        split at h
        · injection h with h; subst h; exact ih
        · injection h with h; subst h
          intro e he
          rcases List.mem_cons.1 he with rfl | he
          · intro w hw; cases hw
          · exact ih e he
theorem interpretBranches_push (isAlpha : Char → Bool) (m : Model) (vm : AList Str Str)
    (vars : List Str) : ∀ (bs : Branches) (var : Str) (out : InterpOut),
    branchesMappable vm bs = true → interpretBranches isAlpha m vars var bs = .ok out →
    PushKeys vm out.epidata
  | .nil, var, out, _, h => by
    simp only [interpretBranches] at h; injection h with h; subst h
    intro e he; cases he
  | .atom r a rest, var, out, hmp, h => by
    simp only [branchesMappable] at hmp
    rw [interpretBranches_atom] at h
    cases hpr : processRole isAlpha r with
    | error e => simp [hpr, err_bind] at h
    | ok x =>
      obtain ⟨role, repis⟩ := x
      cases hpa : processAtomic isAlpha a with
      | error e => simp [hpr, hpa, ok_bind, err_bind] at h
      | ok y =>
        obtain ⟨tgt, tepis⟩ := y
        cases hib : interpretBranches isAlpha m vars var rest with
        | error e => simp [hpr, hpa, hib, ok_bind, fmap_error] at h
        | ok out' =>
          have ih := interpretBranches_push isAlpha m vm vars rest var out' hmp hib
          simp only [hpr, hpa, hib, ok_bind, pure_eq] at h
          injection h with h; subst h
          rw [atomStep_epidata]
          intro e he
          rcases List.mem_cons.1 he with rfl | he
          · intro w hw
            exfalso
            have hrep : ∀ vm, repis.map (renEpi vm) = repis := by
              by_cases hr : r = ['/']
              · subst hr
                rw [processRole_concept] at hpr
                injection hpr with hpr; injection hpr with _ h2; subst h2
                intro _; rfl
              · exact (processRole_ok hr hpr).2
            rcases List.mem_append.1 hw with hw | hw
            · exact no_push_of_fix hrep w hw
            · exact no_push_of_fix (processAtomic_epis hpa) w hw
          · exact ih e he
  | .sub r (.mk v bs) rest, var, out, hmp, h => by
    simp only [branchesMappable, Bool.and_eq_true] at hmp
    cases v with
    | none => simp [nodeMappable] at hmp
    | some nv =>
      have hnv : nv ∈ AList.keys vm := by
        have := hmp.1
        simp only [nodeMappable, Bool.and_eq_true] at this
        exact contains_iff_mem_keys.1 this.1
      rw [interpretBranches_sub] at h
      cases hpr : processRole isAlpha r with
      | error e => simp [hpr, err_bind] at h
      | ok x =>
        obtain ⟨role, repis⟩ := x
        cases hin : interpretNode isAlpha m vars (.mk (some nv) bs) with
        | error e => simp [hpr, hin, ok_bind, err_bind] at h
        | ok p =>
          cases hib : interpretBranches isAlpha m vars var rest with
          | error e => simp [hpr, hin, hib, ok_bind, fmap_error] at h
          | ok out' =>
            have ih1 := interpretNode_push isAlpha m vm vars (.mk (some nv) bs) p hmp.1 hin
            have ih2 := interpretBranches_push isAlpha m vm vars rest var out' hmp.2 hib
            simp only [hpr, hin, hib, ok_bind, pure_eq] at h
            injection h with h; subst h
            simp only [subStep]
            intro e he
            rcases List.mem_cons.1 he with rfl | he
            · intro w hw
              have hrep : ∀ vm, repis.map (renEpi vm) = repis := by
                by_cases hr : r = ['/']
                · subst hr
                  rw [processRole_concept] at hpr
                  injection hpr with hpr; injection hpr with _ h2; subst h2
                  intro _; rfl
                · exact (processRole_ok hr hpr).2
              rcases List.mem_append.1 hw with hw | hw
              · exact absurd hw (no_push_of_fix hrep w)
              · simp only [List.mem_singleton, Epi.push.injEq] at hw
                subst hw; exact hnv
            · rcases List.mem_append.1 he with he | he
              · exact appendPopLast_push p.2 ih1 e he
              · exact ih2 e he
end

/-! ### the graph `interpret` returns satisfies the hypotheses -/

theorem mem_set_sub {α β : Type} [DecidableEq α] {d : AList α β} {k : α} {v : β} {p : α × β}
    (h : p ∈ AList.set d k v) : p ∈ d ∨ p = (k, v) := by
  induction d with
  | nil => right; simpa [AList.set] using h
  | cons q r ih =>
    obtain ⟨k', v'⟩ := q
    simp only [AList.set] at h
    split at h
    · rename_i hk
      rcases List.mem_cons.mp h with rfl | h'
      · right; rw [hk]
      · left; exact List.mem_cons_of_mem _ h'
    · rcases List.mem_cons.mp h with rfl | h'
      · left; simp
      · rcases ih h' with h'' | h''
        · left; exact List.mem_cons_of_mem _ h''
        · right; exact h''

theorem mem_ofList_sub {α β : Type} [DecidableEq α] {l : List (α × β)} {p : α × β}
    (h : p ∈ AList.ofList l) : p ∈ l := by
  have : ∀ (l : List (α × β)) (acc : AList α β), p ∈ l.foldl (fun d q => d.set q.1 q.2) acc →
      p ∈ acc ∨ p ∈ l := by
    intro l
    induction l with
    | nil => intro acc h; left; exact h
    | cons q r ih =>
      intro acc h
      rcases ih _ h with h' | h'
      · rcases mem_set_sub h' with h'' | h''
        · left; exact h''
        · right; rw [h'']; simp
      · right; exact List.mem_cons_of_mem _ h'
  rcases this l [] h with h' | h'
  · cases h'
  · exact h'

theorem closed_ensureColon {vm : AList Str Str} {news : List Str} {t : Triple}
    (h : Closed vm news t) : Closed vm news { t with role := ensureColon t.role } :=
  ⟨h.1, fun hc => h.2 (by rw [ensureColon_idem] at hc; exact hc)⟩

/-- what the lemmas above need of a graph, for the graph `interpret` returns -/
theorem interpret_renHyps (isAlpha : Char → Bool) (m : Model) (vm : AList Str Str) (n : Node)
    (md : AList Str Str) (g : Graph)
    (hv : VmOk vm n.vars) (hmp : nodeMappable vm n = true)
    (hok : nodeIsoOk m vm (n.vars.map (renVar vm)) n = true)
    (hi : interpret isAlpha m ⟨n, md⟩ = .ok g) :
    RolesColon g ∧
    (∀ t ∈ g.triples, Closed vm (n.vars.map (renVar vm)) t) ∧
    (∀ e ∈ g.epidata, Closed vm (n.vars.map (renVar vm)) e.1) ∧
    (∀ t, g.top = some t → t ∈ AList.keys vm) ∧
    (∀ e ∈ g.epidata, ∀ w, Epi.push w ∈ e.2 → w ∈ AList.keys vm) := by
  rw [interpret_def] at hi
  cases hin : interpretNode isAlpha m n.vars n with
  | error e => simp [hin, fmap_error] at hi
  | ok p =>
    simp only [hin, ok_bind, pure_eq] at hi
    injection hi with hi
    subst hi
    have hcl := interpretNode_closed isAlpha m vm n.vars hv n p hmp hok hin
    have hpu := interpretNode_push isAlpha m vm n.vars n p hmp hin
    have hkeys := RA.interpretNode_keys isAlpha m n.vars n p.1 p.2 hin
    refine ⟨mk'_rolesColon _ _ _ _, ?_, ?_, ?_, ?_⟩
    · intro t ht
      simp only [Graph.mk', List.mem_map] at ht
      obtain ⟨t0, ht0, rfl⟩ := ht
      rw [← hkeys] at ht0
      obtain ⟨e, he, rfl⟩ := List.mem_map.1 ht0
      exact closed_ensureColon (hcl e he)
    · intro e he
      exact hcl e (epimapOf_sub p.2 e (mem_ofList_sub he))
    · intro t ht
      cases n with
      | mk v bs =>
        cases v with
        | none => simp [nodeMappable] at hmp
        | some x =>
          simp only [nodeMappable, Bool.and_eq_true] at hmp
          simp only [Graph.mk', Node.var, Option.some.injEq] at ht
          subst ht
          exact contains_iff_mem_keys.1 hmp.1
    · intro e he
      exact hpu e (epimapOf_sub p.2 e (mem_ofList_sub he))

/-! ### the main result -/

/-- the stage predicates for an arbitrary graph satisfying the closure hypotheses -/
theorem stagesIdle_ren {m : Model} {o : Opts} {vm : AList Str Str} {vars : List Str}
    (hv : VmOk vm vars) {g : Graph} (hrc : RolesColon g)
    (hcl : ∀ t ∈ g.triples, Closed vm (vars.map (renVar vm)) t)
    (hep : ∀ e ∈ g.epidata, Closed vm (vars.map (renVar vm)) e.1)
    (htop : ∀ t, g.top = some t → t ∈ AList.keys vm)
    (hpush : ∀ e ∈ g.epidata, ∀ w, Epi.push w ∈ e.2 →
      w ∈ AList.keys vm ∨ w ∉ vars.map (renVar vm))
    (h : StagesIdle m o g) : StagesIdle m o (renGraph vm g) :=
  ⟨fun ho => noReifiable_ren (h.reify ho),
   fun ho => noCollapsible_ren hv hrc hcl hep htop hpush (h.dereify ho),
   fun ho => noAttributes_ren hrc (h.attrs ho)⟩

/-- **main result**: the idle-stage predicates of the graph `interpret` returns survive the
    renaming of `reset_variables` -/
theorem stagesIdle_interpret_ren (isAlpha : Char → Bool) (m : Model) (o : Opts) (vm : AList Str Str)
    (n : Node) (md : AList Str Str) (g : Graph)
    (hv : VmOk vm n.vars) (hmp : nodeMappable vm n = true)
    (hok : nodeIsoOk m vm (n.vars.map (renVar vm)) n = true)
    (hi : interpret isAlpha m ⟨n, md⟩ = .ok g)
    (h : StagesIdle m o g) : StagesIdle m o (renGraph vm g) := by
  obtain ⟨hrc, hcl, hep, htop, hpush⟩ := interpret_renHyps isAlpha m vm n md g hv hmp hok hi
  exact stagesIdle_ren hv hrc hcl hep htop (fun e he w hw => Or.inl (hpush e he w hw)) h

/-! ### bonus: the variable list of the renamed graph -/

theorem dedup_map_inj {f : Str → Str} : ∀ (l : List Str),
    (∀ a ∈ l, ∀ b ∈ l, f a = f b → a = b) → dedup (l.map f) = (dedup l).map f
  | [], _ => rfl
  | x :: r, h => by
    have ih := dedup_map_inj r
      (fun a ha b hb => h a (List.mem_cons_of_mem _ ha) b (List.mem_cons_of_mem _ hb))
    simp only [List.map_cons, dedup, ih, List.filter_map]
    congr 2
    apply List.filter_congr
    intro a ha
    have ha' : a ∈ r := RV.mem_dedup.1 ha
    have : f a = f x ↔ a = x :=
      ⟨h a (List.mem_cons_of_mem _ ha') x List.mem_cons_self, fun e => by rw [e]⟩
    simp [Function.comp, this]

theorem variables_ren {vm : AList Str Str} {vars : List Str} (hv : VmOk vm vars) {g : Graph}
    (hcl : ∀ t ∈ g.triples, Closed vm (vars.map (renVar vm)) t)
    (htop : ∀ t, g.top = some t → t ∈ AList.keys vm) :
    (renGraph vm g).variables = g.variables.map (renVar vm) := by
  have hd : dedup ((g.triples.map (renTriple vm)).map (·.src)) =
      (dedup (g.triples.map (·.src))).map (renVar vm) := by
    rw [← dedup_map_inj]
    · simp only [List.map_map]; rfl
    · intro a ha b hb
      obtain ⟨ta, hta, rfl⟩ := List.mem_map.1 ha
      obtain ⟨tb, htb, rfl⟩ := List.mem_map.1 hb
      exact renVar_inj_keys hv (hcl ta hta).1 (hcl tb htb).1
  unfold Graph.variables
  simp only [renGraph, hd]
  cases ht : g.top with
  | none => rfl
  | some t =>
    simp only [Option.map_some]
    have hk := htop t ht
    have : renVar vm t ∈ (dedup (g.triples.map (·.src))).map (renVar vm) ↔
        t ∈ dedup (g.triples.map (·.src)) := by
      constructor
      · intro h
        obtain ⟨k, hk', he⟩ := List.mem_map.1 h
        obtain ⟨tk, htk, rfl⟩ := List.mem_map.1 (RV.mem_dedup.1 hk')
        rw [← renVar_inj_keys hv (hcl tk htk).1 hk he]; exact hk'
      · intro h; exact List.mem_map.2 ⟨t, h, rfl⟩
    by_cases h : t ∈ dedup (g.triples.map (·.src))
    · rw [if_pos h, if_pos (this.2 h)]
    · rw [if_neg h, if_neg (fun h' => h (this.1 h'))]; simp

end Penman.RV

#!/venv/bin/python
"""Translator: /repo source -> lean/Penman/Generated.lean (+ build/tables.json).

Everything in penman that is *data* rather than control is re-read from the
working tree on every run: the lexer's character classes and alternation
orders (PATTERNS / PENMAN_RE / TRIPLE_RE, parsed with re._parser and matched
against fixed pattern shapes), CONCEPT_ROLE, the Model() defaults, the AMR
tables, the CLI key tables and the stage order of _process_in/_process_out
(from the AST of penman/__main__.py), and the Unicode predicates the model is
parametric in (str.isspace completely; isalpha/lower for a sample alphabet).

Exit status: 0 = generated (file rewritten only if its content changed);
3 = untranslatable (a pattern or table left the supported shape) - the reason
is printed and written to build/untranslatable.txt.
"""
import ast
import json
import os
import re
import sys

try:
    import re._parser as sp
    import re._constants as sc
except ImportError:  # pragma: no cover
    import sre_parse as sp
    import sre_constants as sc

REPO = os.environ.get('PENMAN_REPO', '/repo')
HERE = os.path.dirname(os.path.abspath(__file__))
VERIF = os.path.dirname(HERE)
OUT = os.path.join(VERIF, 'lean', 'Penman', 'Generated.lean')
BUILD = os.path.join(VERIF, 'build')

# sample alphabet for the Unicode predicates that are not in Lean core
def _harness_chars():
    """every non-ASCII character the generators can emit (harness/gen.py, corr.py)"""
    out = set()
    for f in ('gen.py', 'corr.py'):
        try:
            src = open(os.path.join(VERIF, 'harness', f), encoding='utf-8').read()
        except OSError:
            continue
        # string escapes such as '\xa0' or '\u2028' are evaluated by scanning the tokens
        import tokenize, io
        for tok in tokenize.generate_tokens(io.StringIO(src).readline):
            if tok.type == tokenize.STRING:
                try:
                    val = ast.literal_eval(tok.string)
                except Exception:  # noqa: BLE001
                    continue
                if isinstance(val, str):
                    out.update(c for c in val if ord(c) >= 0x80 and not 0xd800 <= ord(c) <= 0xdfff)
    return out


SAMPLE_CHARS = sorted(set([chr(c) for c in range(0x80)]) | _harness_chars() |
                      set('éÉßİıΩωж中あ٣²ǅ\u2028\u3000\u00a0\u2003\u0085ª\U0001d7ce\U0001f600Å'))


class Untranslatable(Exception):
    pass


def lean_char(c):
    o = ord(c)
    return f"(Char.ofNat 0x{o:x})"


def lean_str(s):
    if s and all(0x20 <= ord(c) <= 0x7e and c not in '"\\' for c in s):
        return f'"{s}".toList'
    return '[' + ', '.join(lean_char(c) for c in s) + ']'


def lean_charlist(cs):
    return '[' + ', '.join(lean_char(c) for c in cs) + ']'


def items(p):
    return list(p)


def negated_class(node):
    """(IN, [(NEGATE, None), (LITERAL, c)...]) -> list of chars"""
    op, av = node
    if op != sc.IN or not av or av[0] != (sc.NEGATE, None):
        raise Untranslatable(f'expected a negated class, got {node!r}')
    cs = []
    for o, a in av[1:]:
        if o != sc.LITERAL:
            raise Untranslatable(f'non-literal in negated class: {node!r}')
        cs.append(chr(a))
    return cs


def range_class(node):
    op, av = node
    if op != sc.IN:
        raise Untranslatable(f'expected a class, got {node!r}')
    rs = []
    for o, a in av:
        if o == sc.RANGE:
            rs.append((chr(a[0]), chr(a[1])))
        elif o == sc.LITERAL:
            rs.append((chr(a), chr(a)))
        else:
            raise Untranslatable(f'unsupported class item {o!r} in {node!r}')
    return rs


def rep(node, lo, hi):
    op, av = node
    if op != sc.MAX_REPEAT or av[0] != lo or (av[1] != hi):
        raise Untranslatable(f'expected repeat {lo}..{hi}, got {node!r}')
    return items(av[2])


def lit(node, ch):
    if tuple(node) != (sc.LITERAL, ord(ch)):
        raise Untranslatable(f'expected literal {ch!r}, got {node!r}')


def lexer_cfg():
    from penman import _lexer
    P = _lexer.PATTERNS
    parsed = {k: items(sp.parse(v, re.VERBOSE)) for k, v in P.items()}
    INF = sc.MAXREPEAT
    # COMMENT: \#.*$
    c = parsed['COMMENT']
    if len(c) != 3:
        raise Untranslatable('COMMENT shape')
    lit(c[0], '#')
    if rep(c[1], 0, INF) != [(sc.ANY, None)] or tuple(c[2]) != (sc.AT, sc.AT_END):
        raise Untranslatable('COMMENT shape')
    # STRING: "[^X]*(?:\\.[^X]*)*"
    s = parsed['STRING']
    if len(s) != 4:
        raise Untranslatable('STRING shape')
    lit(s[0], '"'); lit(s[3], '"')
    body = rep(s[1], 0, INF)
    if len(body) != 1:
        raise Untranslatable('STRING shape')
    str_excl = negated_class(body[0])
    esc = rep(s[2], 0, INF)
    if len(esc) != 3 or tuple(esc[1]) != (sc.ANY, None):
        raise Untranslatable('STRING shape')
    lit(esc[0], '\\')
    b2 = rep(esc[2], 0, INF)
    if len(b2) != 1 or negated_class(b2[0]) != str_excl:
        raise Untranslatable('STRING shape')
    if sorted(str_excl) != sorted(['"', '\\']):
        raise Untranslatable(f'STRING body class is {str_excl!r}')
    # ALIGNMENT: ~(?:[P]\.?)?[D]+(?:,[D]+)*
    a = parsed['ALIGNMENT']
    if len(a) != 4:
        raise Untranslatable('ALIGNMENT shape')
    lit(a[0], '~')
    pre = rep(a[1], 0, 1)
    if len(pre) != 2:
        raise Untranslatable('ALIGNMENT shape')
    aln_prefix = range_class(pre[0])
    dot = rep(pre[1], 0, 1)
    if len(dot) != 1:
        raise Untranslatable('ALIGNMENT shape')
    lit(dot[0], '.')
    d1 = rep(a[2], 1, INF)
    if len(d1) != 1:
        raise Untranslatable('ALIGNMENT shape')
    aln_digit = range_class(d1[0])
    tail = rep(a[3], 0, INF)
    if len(tail) != 2:
        raise Untranslatable('ALIGNMENT shape')
    lit(tail[0], ',')
    d2 = rep(tail[1], 1, INF)
    if len(d2) != 1 or range_class(d2[0]) != aln_digit:
        raise Untranslatable('ALIGNMENT shape')
    # ROLE: :[^X]*
    r = parsed['ROLE']
    if len(r) != 2:
        raise Untranslatable('ROLE shape')
    lit(r[0], ':')
    rb = rep(r[1], 0, INF)
    if len(rb) != 1:
        raise Untranslatable('ROLE shape')
    role_excl = negated_class(rb[0])
    # SYMBOL: [^X]+
    sy = parsed['SYMBOL']
    if len(sy) != 1:
        raise Untranslatable('SYMBOL shape')
    sb = rep(sy[0], 1, INF)
    if len(sb) != 1:
        raise Untranslatable('SYMBOL shape')
    sym_excl = negated_class(sb[0])
    for name, ch in (('LPAREN', '('), ('RPAREN', ')'), ('SLASH', '/')):
        p = parsed[name]
        if len(p) != 1:
            raise Untranslatable(name + ' shape')
        lit(p[0], ch)
    u = parsed['UNEXPECTED']
    if len(u) != 1:
        raise Untranslatable('UNEXPECTED shape')
    blank = negated_class(u[0])

    def order(rx):
        if rx.flags & ~(re.VERBOSE | re.UNICODE):
            raise Untranslatable(f'unexpected regex flags {rx.flags}')
        names = [k for k, _ in sorted(rx.groupindex.items(), key=lambda kv: kv[1])]
        expect = '\n|'.join(f'(?P<{n}>{P[n]})' for n in names)
        if rx.pattern != expect:
            raise Untranslatable('compiled pattern is not the ordered alternation of PATTERNS')
        return names
    return dict(blank=blank, roleExcl=role_excl, symExcl=sym_excl, strExcl=str_excl,
                alnPrefix=aln_prefix, alnDigit=aln_digit,
                penmanOrder=order(_lexer.PENMAN_RE), tripleOrder=order(_lexer.TRIPLE_RE))


META = set('.^$*+?{}[]\\|()')


def role_pat(p):
    """pattern string -> ('lit'|'digit'|'digits', literal)"""
    for suffix, kind in (('[0-9]+', 'digits'), ('[0-9]', 'digit')):
        if p.endswith(suffix):
            base = p[:-len(suffix)]
            if not (set(base) & META):
                return (kind, base)
    if not (set(p) & META):
        return ('lit', p)
    raise Untranslatable(f'role pattern outside the supported language: {p!r}')


def model_tables(m):
    return dict(
        topVariable=m.top_variable, topRole=m.top_role, conceptRole=m.concept_role,
        roles=[role_pat(p) for p in m.roles],
        norm=[[k, v] for k, v in m.normalizations.items()],
        reifs=[[role, concept, s, t]
               for role, lst in m.reifications.items() for (concept, s, t) in lst],
    )


def reif_order_check(m):
    """the model keeps the per-role order of the reification list; our flat
    list must reproduce `next(iter(reifications[role]))` and the
    dereifications[concept] order (= order of the original list)."""
    from penman.models import amr
    flat = [[r, c, s, t] for (r, c, s, t) in amr.reifications]
    return flat


def lean_model(name, t, noop=False):
    def pat(p):
        return f'.{p[0]} {lean_str(p[1])}'
    roles = ',\n    '.join(pat(p) for p in t['roles'])
    norm = ', '.join(f'({lean_str(k)}, {lean_str(v)})' for k, v in t['norm'])
    reifs = ',\n    '.join(
        f'⟨{lean_str(r)}, .str {lean_str(c)}, {lean_str(s)}, {lean_str(tg)}⟩' for r, c, s, tg in t['reifs'])
    return f'''def {name} : Model :=
  {{ noop := {'true' if noop else 'false'},
    topVariable := {lean_str(t['topVariable'])},
    topRole := {lean_str(t['topRole'])},
    conceptRole := {lean_str(t['conceptRole'])},
    roles := [
    {roles}],
    norm := [{norm}],
    reifs := [
    {reifs}] }}
'''


def cli_tables():
    src = open(os.path.join(REPO, 'penman', '__main__.py')).read()
    tree = ast.parse(src)
    from penman import __main__ as M
    keymap = {'original_order': 'original', 'alphanumeric_order': 'alphanumeric',
              'canonical_order': 'canonical', 'is_role_inverted': 'invertedLast',
              'random_order': 'random', 'attributes_first': 'attributesFirst'}
    def keys(d):
        out = []
        for k, v in d.items():
            if v not in keymap:
                raise Untranslatable(f'unknown ordering function {v!r}')
            out.append([k, keymap[v]])
        return out
    stages = {}
    for fn in tree.body:
        if isinstance(fn, ast.FunctionDef) and fn.name in ('_process_in', '_process_out'):
            seq = []
            for node in ast.walk(fn):
                pass
            def visit(stmts):
                for st in stmts:
                    if isinstance(st, ast.If):
                        t = st.test
                        if (isinstance(t, ast.Subscript) and isinstance(t.value, ast.Name)
                                and t.value.id == 'normalize_options'
                                and isinstance(t.slice, ast.Constant)):
                            seq.append(t.slice.value)
                        visit(st.body)
                        visit(st.orelse)
                    elif isinstance(st, (ast.Assign, ast.Expr)):
                        call = st.value
                        if isinstance(call, ast.Call):
                            f = call.func
                            if isinstance(f, ast.Attribute) and isinstance(f.value, ast.Name) \
                                    and f.value.id == 'layout' and f.attr in ('interpret', 'configure'):
                                # only top-level calls count as stages
                                seq.append('@' + f.attr)
            visit(fn.body)
            stages[fn.name] = seq
    return dict(rearrangeKeys=keys(M.REARRANGE_KEYS), reconfigureKeys=keys(M.RECONFIGURE_KEYS),
                processIn=stages.get('_process_in', []), processOut=stages.get('_process_out', []))


def unicode_tables():
    space = [chr(c) for c in range(sys.maxunicode + 1) if chr(c).isspace()]
    sample = [[c, c.isalpha(), c.lower()] for c in SAMPLE_CHARS]
    return space, sample


def generate():
    sys.path.insert(0, REPO)
    for k in list(sys.modules):
        if k == 'penman' or k.startswith('penman.'):
            del sys.modules[k]
    from penman import graph, model as pmodel
    from penman.models import amr, noop
    cfg = lexer_cfg()
    default = model_tables(pmodel.Model())
    amr_t = model_tables(amr.model)
    # flat reification list in source order (defines dereification order)
    amr_t['reifs'] = [[r, c, s, t] for (r, c, s, t) in amr.reifications]
    noop_t = model_tables(noop.model)
    if type(noop.model).deinvert is pmodel.Model.deinvert:
        raise Untranslatable('NoOpModel no longer overrides deinvert')
    cli = cli_tables()
    space, sample = unicode_tables()
    tables = dict(lexCfg=cfg, conceptRole=graph.CONCEPT_ROLE, default=default, amr=amr_t, noop=noop_t,
                  cli=cli, space=space, sample=sample)

    def ranges(rs):
        return '[' + ', '.join(f'({lean_char(a)}, {lean_char(b)})' for a, b in rs) + ']'

    def order(names):
        return '[' + ', '.join('.' + n for n in names) + ']'

    def strlist(l):
        return '[' + ', '.join(lean_str(x) for x in l) + ']'

    def keytab(l):
        return '[' + ', '.join(f'({lean_str(k)}, {lean_str(v)})' for k, v in l) + ']'
    lean = f'''/-
  GENERATED by tools/gen_tables.py from the penman/ sources of the repository under check - do not edit.
  Regenerated on every check run; theorems about these tables are
  re-checked by `decide` whenever the source tables change.
-/
import Penman.Lexer
import Penman.Model
namespace Penman.Generated

def lexCfg : LexCfg :=
  {{ blank := {lean_charlist(cfg['blank'])},
    roleExcl := {lean_charlist(cfg['roleExcl'])},
    symExcl := {lean_charlist(cfg['symExcl'])},
    strExcl := {lean_charlist(cfg['strExcl'])},
    alnPrefix := {ranges(cfg['alnPrefix'])},
    alnDigit := {ranges(cfg['alnDigit'])},
    penmanOrder := {order(cfg['penmanOrder'])},
    tripleOrder := {order(cfg['tripleOrder'])} }}

/-- `penman.graph.CONCEPT_ROLE` -/
def conceptRole : Str := {lean_str(graph.CONCEPT_ROLE)}

{lean_model('defaultModel', default)}
{lean_model('amrModel', amr_t)}
{lean_model('noopModel', noop_t, noop=True)}
/-- every code point for which `str.isspace()` holds -/
def spaceChars : List Char := {lean_charlist(space)}

/-- `(c, c.isalpha(), c.lower())` for the sample alphabet of the generators -/
def alphaSample : List (Char × Bool × Str) :=
  [{', '.join(f'({lean_char(c)}, {"true" if a else "false"}, {lean_str(l)})' for c, a, l in sample)}]

/-- command line: key name ↦ ordering function -/
def rearrangeKeys : List (Str × Str) := {keytab(cli['rearrangeKeys'])}
def reconfigureKeys : List (Str × Str) := {keytab(cli['reconfigureKeys'])}
/-- order in which `_process_in` / `_process_out` test their options / call layout -/
def processInOrder : List Str := {strlist(cli['processIn'])}
def processOutOrder : List Str := {strlist(cli['processOut'])}

end Penman.Generated
'''
    return lean, tables


def main():
    os.makedirs(BUILD, exist_ok=True)
    if '--dry' in sys.argv:
        # measurement mode (tools/mutate.py): translate, compare, write nothing
        try:
            lean, _ = generate()
        except Untranslatable as e:
            print('UNTRANSLATABLE:', e)
            return 3
        same = os.path.exists(OUT) and open(OUT).read() == lean
        print('Generated.lean unchanged' if same else 'Generated.lean DIFFERS')
        return 0
    ufile = os.path.join(BUILD, 'untranslatable.txt')
    try:
        lean, tables = generate()
    except Untranslatable as e:
        open(ufile, 'w').write(str(e) + '\n')
        print('UNTRANSLATABLE:', e)
        return 3
    if os.path.exists(ufile):
        os.remove(ufile)
    old = open(OUT).read() if os.path.exists(OUT) else None
    if old != lean:
        open(OUT, 'w').write(lean)
        print('Generated.lean rewritten')
    else:
        print('Generated.lean unchanged')
    json.dump(tables, open(os.path.join(BUILD, 'tables.json'), 'w'), ensure_ascii=True, indent=1)
    return 0


if __name__ == '__main__':
    sys.exit(main())

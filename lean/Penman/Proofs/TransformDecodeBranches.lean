/-
  Penman.Proofs.TransformDecodeBranches — `indicate_branches` preserves the invariant `DecOK`
  (under its side condition `PushSrcOk`).
-/
import Penman.Proofs.TransformDecodeAttr
namespace Penman.C12dec
open Penman Penman.Spec Penman.C03Text

theorem instSrcs_nil_of {l : List Triple} (h : ∀ t ∈ l, t.role ≠ CONCEPT_ROLE) : instSrcs l = [] := by
  simp only [instSrcs, List.map_eq_nil_iff, List.filter_eq_nil_iff]
  intro t ht; simp [h t ht]

section
variable {cfg : LexCfg} {isSpace : Char → Bool} {m : Model} {g : Graph}

theorem instSrcs_branches (htr : TopRoleOk m) : ∀ (l : List Triple),
    instSrcs (l.flatMap (fun t => branchIns m g t ++ [t])) = instSrcs l
  | [] => rfl
  | t :: r => by
    rw [List.flatMap_cons, instSrcs_append, instSrcs_append, instSrcs_branches htr r, instSrcs_cons t r,
      instSrcs_nil_of (fun t1 h1 => by rw [branchIns_role h1]; exact htr.2), List.nil_append]

/-- **`indicate_branches` preserves the invariant** -/
theorem indicateBranches_decOK (htr : TopRoleOk m) (htab : TableOK cfg m) (hd : DecOK cfg isSpace m g)
    (hs : PushSrcOk g) {g' : Graph} (h : indicateBranches m g = .ok g') :
    DecOK cfg isSpace m g' ∧ g'.getTop = g.getTop := by
  obtain ⟨ht, htop, hep, hmd⟩ := indicateBranches_ok h
  have hg := hd.rolesColon
  have hall : ∀ t1 ∈ g.triples.flatMap (fun t => branchIns m g t ++ [t]), TripleOK cfg m t1 := by
    intro t1 h1
    rw [List.mem_flatMap] at h1
    obtain ⟨t, htg, h1⟩ := h1
    have hT := hd.triples t htg
    rcases List.mem_append.mp h1 with h1 | h1
    · rcases branchIns_spec m g t with ⟨e0, _⟩ | ⟨e0, _⟩ | ⟨s, hst, e0, hpv, hne⟩
      · rw [e0] at h1; simp at h1
      · rw [e0] at h1; simp only [List.mem_singleton] at h1; subst h1
        exact ⟨htab.2.1, hT.2.1, hT.2.2.1, fun hc => absurd hc htr.2⟩
      · rw [e0] at h1; simp only [List.mem_singleton] at h1; subst h1
        obtain ⟨t', ht', hsrc, _⟩ := hs t htg hpv hne
        rw [hst] at hsrc
        simp only [Atom.str.injEq] at hsrc
        have hs' : SrcOK cfg s := hsrc ▸ (hd.triples t' ht').2.1
        exact ⟨htab.2.1, hs', atomOK_var hT.2.1, fun hc => absurd hc htr.2⟩
    · simp only [List.mem_singleton] at h1; subst h1; exact hT
  have htr' : g'.triples = g.triples.flatMap (fun t => branchIns m g t ++ [t]) := by
    rw [ht]
    exact map_ensureColon_id (fun t1 h1 => startsWith_of_head (hall t1 h1).1.1)
  have hvars : ∀ x ∈ g.variables, x ∈ g'.variables := by
    intro x hx
    rw [mem_variables] at hx ⊢
    rcases hx with ⟨t, htg, rfl⟩ | htp
    · left
      exact ⟨t, by rw [htr']; exact List.mem_flatMap.mpr ⟨t, htg, by simp⟩, rfl⟩
    · right; rw [htop]; simp [Graph.getTop, htp]
  refine ⟨⟨?_, ?_, ?_, ?_, indicateBranches_hasInst h hd.hasInst hs,
    indicateBranches_connected h htr.1 htr.2 hg hd.conn⟩, indicateBranches_getTop h⟩
  · rw [htr']; exact hall
  · show (instSrcs g'.triples).Nodup
    rw [htr', instSrcs_branches htr]; exact hd.oneLabel
  · rw [hmd, wfMeta_ofList hd.metaOK]; exact hd.metaOK
  · intro p hp
    rw [hep] at hp
    exact (hd.epi p (mem_ofList_imp hp)).mono hvars

end
end Penman.C12dec

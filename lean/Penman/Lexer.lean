/-
  Penman.Lexer — `penman._lexer`: the regex lexer as an ordered list of
  hand-written scanners parametrised by the character classes that the
  translator extracts from `PATTERNS` / `PENMAN_RE` / `TRIPLE_RE`.
-/
import Penman.Basic
namespace Penman

inductive TokTy where
  | COMMENT | STRING | LPAREN | RPAREN | SLASH | ROLE | SYMBOL | ALIGNMENT | UNEXPECTED
deriving DecidableEq, Repr, Inhabited

structure Tok where
  ty : TokTy
  text : Str
  lineno : Nat
  offset : Nat
deriving DecidableEq, Repr, Inhabited

/-- character classes and alternation orders read from the source -/
structure LexCfg where
  /-- the characters `UNEXPECTED` refuses (= what `finditer` can skip) -/
  blank : List Char
  /-- excluded set of the ROLE body class `[^...]` -/
  roleExcl : List Char
  /-- excluded set of the SYMBOL class `[^...]` -/
  symExcl : List Char
  /-- excluded set of the STRING body class `[^"\\]` -/
  strExcl : List Char
  /-- alignment prefix letter ranges, e.g. `[('a','z'),('A','Z')]` -/
  alnPrefix : List (Char × Char)
  /-- alignment digit ranges -/
  alnDigit : List (Char × Char)
  penmanOrder : List TokTy
  tripleOrder : List TokTy
deriving Repr

def inRanges (rs : List (Char × Char)) (c : Char) : Bool := rs.any fun r => r.1 ≤ c && c ≤ r.2

/-- longest prefix satisfying `p`, and the rest -/
def spanP (p : Char → Bool) : Str → Str × Str
  | [] => ([], [])
  | c :: cs => if p c then ((c :: (spanP p cs).1), (spanP p cs).2) else ([], c :: cs)

/-- `\#.*$` at a `#`: `.` stops at LF; `$` = end or before a final LF -/
def scanComment : Str → Option Str
  | '#' :: rest =>
    let body := (spanP (· != '\n') rest).1
    let after := (spanP (· != '\n') rest).2
    if after = [] ∨ after = ['\n'] then some ('#' :: body) else none
  | _ => none

/-- body of `"[^"\\]*(?:\\.[^"\\]*)*"` after the opening quote; returns the
    matched body including the closing quote -/
def scanStringBody (excl : List Char) : Nat → Str → Option Str
  | 0, _ => none
  | _, [] => none
  | f+1, c :: cs =>
    if c = '"' then some ['"']
    else if c = '\\' then
      match cs with
      | d :: ds => if d = '\n' then none else (scanStringBody excl f ds).map (fun r => c :: d :: r)
      | [] => none
    else if c ∈ excl then none
    else (scanStringBody excl f cs).map (fun r => c :: r)

def scanString (excl : List Char) : Str → Option Str
  | '"' :: rest => (scanStringBody excl (rest.length + 1) rest).map ('"' :: ·)
  | _ => none

def scanRole (excl : List Char) : Str → Option Str
  | ':' :: rest => some (':' :: (spanP (fun c => !(c ∈ excl)) rest).1)
  | _ => none

def scanSymbol (excl : List Char) (s : Str) : Option Str :=
  let m := (spanP (fun c => !(c ∈ excl)) s).1
  if m.isEmpty then none else some m

/-- `(?:,[0-9]+)*` -/
def scanAlnTail (dig : Char → Bool) : Nat → Str → Str
  | 0, _ => []
  | f+1, s =>
    match s with
    | ',' :: rest =>
      let ds := (spanP dig rest).1
      if ds.isEmpty then [] else ',' :: ds ++ scanAlnTail dig f (spanP dig rest).2
    | _ => []

/-- `[0-9]+(?:,[0-9]+)*` -/
def scanAlnDigits (dig : Char → Bool) (s : Str) : Option Str :=
  let ds := (spanP dig s).1
  if ds.isEmpty then none else some (ds ++ scanAlnTail dig s.length (spanP dig s).2)

/-- `~(?:[a-zA-Z]\.?)?[0-9]+(?:,[0-9]+)*` with the regex engine's backtracking -/
def scanAlignment (cfg : LexCfg) : Str → Option Str
  | '~' :: rest =>
    let dig := inRanges cfg.alnDigit
    let viaPrefix : Option Str :=
      match rest with
      | p :: r1 =>
        if inRanges cfg.alnPrefix p then
          match r1 with
          | '.' :: r2 =>
            match scanAlnDigits dig r2 with
            | some m => some (p :: '.' :: m)
            | none => (scanAlnDigits dig r1).map (p :: ·)
          | _ => (scanAlnDigits dig r1).map (p :: ·)
        else none
      | [] => none
    match viaPrefix with
    | some m => some ('~' :: m)
    | none => (scanAlnDigits dig rest).map ('~' :: ·)
  | _ => none

def scanChar (c : Char) : Str → Option Str
  | d :: _ => if d = c then some [c] else none
  | [] => none

def scanUnexpected (blank : List Char) : Str → Option Str
  | c :: _ => if c ∈ blank then none else some [c]
  | [] => none

def scanTy (cfg : LexCfg) (ty : TokTy) (s : Str) : Option Str :=
  match ty with
  | .COMMENT => scanComment s
  | .STRING => scanString cfg.strExcl s
  | .LPAREN => scanChar '(' s
  | .RPAREN => scanChar ')' s
  | .SLASH => scanChar '/' s
  | .ROLE => scanRole cfg.roleExcl s
  | .SYMBOL => scanSymbol cfg.symExcl s
  | .ALIGNMENT => scanAlignment cfg s
  | .UNEXPECTED => scanUnexpected cfg.blank s

/-- first alternative (in order) that matches at the start of `s` -/
def firstMatch (cfg : LexCfg) : List TokTy → Str → Option (TokTy × Str)
  | [], _ => none
  | ty :: tys, s =>
    match scanTy cfg ty s with
    | some m => some (ty, m)
    | none => firstMatch cfg tys s

/-- `regex.finditer(line)` : at each offset take the first matching
    alternative, else skip one character. -/
def lexAux (cfg : LexCfg) (order : List TokTy) (lineno : Nat) : Nat → Nat → Str → List Tok
  | 0, _, _ => []
  | _, _, [] => []
  | f+1, off, c :: cs =>
    match firstMatch cfg order (c :: cs) with
    | some (ty, m) =>
      if m.isEmpty then lexAux cfg order lineno f (off+1) cs   -- cannot happen: no pattern matches empty
      else ⟨ty, m, lineno, off⟩ :: lexAux cfg order lineno f (off + m.length) ((c :: cs).drop m.length)
    | none => lexAux cfg order lineno f (off+1) cs

def lexLine (cfg : LexCfg) (order : List TokTy) (lineno : Nat) (line : Str) : List Tok :=
  lexAux cfg order lineno (line.length + 1) 0 line

/-- `_lex` over `enumerate(lines, 1)` -/
def lexLinesFrom (cfg : LexCfg) (order : List TokTy) : Nat → List Str → List Tok
  | _, [] => []
  | n, l :: ls => lexLine cfg order n l ++ lexLinesFrom cfg order (n+1) ls

def lexLines (cfg : LexCfg) (order : List TokTy) (lines : List Str) : List Tok :=
  lexLinesFrom cfg order 1 lines

/-- `_LINE_BREAK_RE.split(s)` : split at CRLF, CR, LF (always ≥ 1 piece) -/
def splitLines : Str → List Str
  | [] => [[]]
  | '\r' :: '\n' :: rest => [] :: splitLines rest
  | '\r' :: rest => [] :: splitLines rest
  | '\n' :: rest => [] :: splitLines rest
  | c :: rest =>
    match splitLines rest with
    | [] => [[c]]
    | l :: ls => (c :: l) :: ls

/-- `lex(s)` for a `str` argument -/
def lexStr (cfg : LexCfg) (order : List TokTy) (s : Str) : List Tok :=
  lexLines cfg order (splitLines s)

end Penman

/-
  Penman.Spec.Reconfigure — specification vocabulary for `Layout.reconfigure`
  (property C05, reconfigure / new-top clauses): the graph `reconfigure` hands to
  `configure`, what a re-layout of a graph is, weak connectivity of a whole graph.
-/
import Penman.Spec.Configure
namespace Penman
namespace Recfg
open Cfg

/-- drop every layout marker (`Push`/`POP`) from every marker list -/
def stripEpi (e : Epidata) : Epidata := e.map fun (t, es) => (t, es.filter (!·.isLayout))

/-- the triple order `reconfigure` uses: stable sort by the role key, or the given order -/
def sortTriples (m : Model) (ts : List Triple) : Option (List KeyFn) → List Triple
  | none => ts
  | some ks => ts.mergeSort fun a b => kvLe (evalKeys m ks a.role) (evalKeys m ks b.role)

/-- the graph `reconfigure` hands to `configure` -/
def prep (m : Model) (g : Graph) (key : Option (List KeyFn)) : Graph :=
  { g with epidata := stripEpi g.epidata, triples := sortTriples m g.triples key }

/-- `g'` is `g` with its triples in another order and its layout markers removed -/
structure Relayout (g g' : Graph) : Prop where
  perm : g'.triples.Perm g.triples
  top : g'.top = g.top
  metadata : g'.metadata = g.metadata
  epidata : g'.epidata = stripEpi g.epidata

/-- weakly connected: every variable is reachable from every variable -/
def Connected (g : Graph) : Prop := ∀ u ∈ g.variables, ∀ v ∈ g.variables, Reach g u v

/-- the role comparison `reconfigure` sorts by (Python: `key(a.role) <= key(b.role)`) -/
def tripleLe (m : Model) (ks : List KeyFn) (a b : Triple) : Bool :=
  kvLe (evalKeys m ks a.role) (evalKeys m ks b.role)

end Recfg
end Penman

/-
  Penman.Spec.NormalForm — specification vocabulary for the "normal form" and "identity"
  clauses of property C20 (the `penman` command): the option sets covered, the tree the command
  prints for one graph, the text it prints for one input, and the decidable hypothesis
  `NormRolesText` on lexer tables + model.
-/
import Penman.Main
import Penman.Spec.TextWf
import Penman.Spec.WfLayout
namespace Penman

/-- the option sets covered by the proved part of the normal-form clause:
    `--canonicalize-roles` on or off, `--rearrange KEY` (any list of the selectable keys, with or
    without attributes first) or not, any `--indent`, `--compact` on or off; everything else off
    (no `--check`, `--triples`, `--make-variables`, `--reconfigure`, `--reify-edges`,
    `--dereify-edges`, `--reify-attributes`, `--indicate-branches`). -/
def nfOpts (canon : Bool) (re : Option (List KeyFn × Bool)) (i : Indent) (c : Bool) : Opts :=
  { canonicalizeRoles := canon, rearrange := re, indent := i, compact := c }

/-- first step of `_process_in` -/
def canonStep (m : Model) (canon : Bool) (t : Tree) : Except PyErr Tree :=
  if canon then canonicalizeRoles m t else pure t

/-- the `--rearrange` step of `_process_out` -/
def rearrangeOpt (m : Model) (re : Option (List KeyFn × Bool)) (t : Tree) : Tree :=
  match re with
  | some (ks, af) => rearrange m (some ks) af t
  | none => t

/-- the tree the command prints for a (canonicalised) input tree `t`: empty concept slots
    dropped, then rearranged -/
def nfTree (m : Model) (re : Option (List KeyFn × Bool)) (t : Tree) : Tree :=
  rearrangeOpt m re ⟨dropNullConcept t.node, t.metadata⟩

/-- the text `process` prints for the serialisations `ss` of the graphs of one input: a blank
    line before every graph but the first, a line feed after every graph -/
def streamOut : Bool → List Str → Str
  | _, [] => []
  | first, s :: ss => (if first then [] else ['\n']) ++ s ++ ['\n'] ++ streamOut false ss

/-- what canonicalisation needs of lexer tables and model to keep role texts ROLE texts:
    `~` ends a ROLE name, the characters of `-of` are ROLE name characters, and every
    normalisation value is a ROLE text (`:` followed by name characters). -/
def NormRolesText (cfg : LexCfg) (m : Model) : Bool :=
  cfg.roleExcl.contains '~' && ofStr.all (fun c => !cfg.roleExcl.contains c)
    && m.norm.all (fun kv => Spec.roleB cfg kv.2)

end Penman

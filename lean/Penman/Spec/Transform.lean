/-
  Penman.Spec.Transform — the (decidable) hypotheses and the vocabulary used
  in the statements of C11 / C12.
-/
import Penman.Transform
import Penman.Spec.Configure
namespace Penman

/-! ### graphs -/

/-- every role of the graph starts with a colon (true of every graph built by
    `Graph.mk'`, i.e. of every Python `Graph`) -/
def RolesColon (g : Graph) : Prop := ∀ t ∈ g.triples, startsWith [':'] t.role = true

instance (g : Graph) : Decidable (RolesColon g) := by unfold RolesColon; infer_instance

/-- the marker table is a dictionary (no duplicate keys): true of every Python
    `Graph` -/
def EpiKeysNodup (g : Graph) : Prop := (AList.keys g.epidata).Nodup

instance (g : Graph) : Decidable (EpiKeysNodup g) := by unfold EpiKeysNodup; infer_instance

def pushesIn (vars : List Str) (epis : List Epi) : Bool :=
  epis.all fun | .push p => decide (p ∈ vars) | _ => true

/-- every `Push` marker on a triple of the graph names a variable of the graph -/
def PushVars (g : Graph) : Prop :=
  ∀ t ∈ g.triples, pushesIn g.variables ((AList.get? g.epidata t).getD []) = true

instance (g : Graph) : Decidable (PushVars g) := by unfold PushVars; infer_instance

/-- spelled like a generated variable: `_` followed by ASCII digits only -/
def isGenName : Str → Bool
  | '_' :: rest => rest.all isAsciiDigit
  | _ => false

def freshSafeTgt (g : Graph) : Atom → Bool
  | .str s => !isGenName s || decide (s ∈ g.variables)
  | _ => true

/-- no constant target of a relation is spelled like a generated variable
    (`_`, `_2`, …): `reify_edges` picks names fresh w.r.t. the variables only -/
def FreshSafe (g : Graph) : Prop :=
  ∀ t ∈ g.triples, t.role ≠ CONCEPT_ROLE → freshSafeTgt g t.tgt = true

instance (g : Graph) : Decidable (FreshSafe g) := by unfold FreshSafe; infer_instance

/-- `∀ source, ∃ instance triple` : every source is a variable with a node -/
def HasInst (g : Graph) : Prop :=
  ∀ t ∈ g.triples, ∃ t' ∈ g.triples, t'.src = t.src ∧ t'.role = CONCEPT_ROLE

instance (g : Graph) : Decidable (HasInst g) := by unfold HasInst; infer_instance

/-- non-instance triples of `v` -/
def otherOf (ts : List Triple) (v : Str) : List Triple :=
  ts.filter (fun t => t.role ≠ CONCEPT_ROLE ∧ t.src = v)

/-- instance triples of `v` -/
def instOf (ts : List Triple) (v : Str) : List Triple :=
  ts.filter (fun t => t.role = CONCEPT_ROLE ∧ t.src = v)

/-! ### reification tables -/

/-- per-entry condition on a reification `(role, concept, source, target)` -/
def ReifEntryOk (m : Model) (rf : Reif) : Prop :=
  startsWith [':'] rf.source = true ∧ startsWith [':'] rf.target = true ∧
  rf.source ≠ CONCEPT_ROLE ∧ rf.target ≠ CONCEPT_ROLE ∧ rf.source ≠ rf.target ∧
  m.isReifiable rf.source = false ∧ m.isReifiable rf.target = false ∧
  startsWith [':'] rf.role = true

instance (m : Model) (rf : Reif) : Decidable (ReifEntryOk m rf) := by
  unfold ReifEntryOk; infer_instance

/-- The reification table is well formed: the role, source role and target role
    of every reification start with a colon; source and target role differ from
    each other and from `:instance`, and neither they nor `:instance` are
    reifiable themselves. -/
def ReifWf (m : Model) : Prop :=
  (∀ rf ∈ m.reifs, ReifEntryOk m rf) ∧ m.isReifiable CONCEPT_ROLE = false

instance (m : Model) : Decidable (ReifWf m) := by unfold ReifWf; infer_instance

/-- the decision `Model.dereify` takes, independent of the two targets:
    `(swapped?, role)` of the first matching dereification -/
def derefLookup (srcRole tgtRole : Str) : List Reif → Option (Bool × Str)
  | [] => none
  | rf :: rest =>
    if rf.source = srcRole ∧ rf.target = tgtRole then some (false, rf.role)
    else if rf.target = srcRole ∧ rf.source = tgtRole then some (true, rf.role)
    else derefLookup srcRole tgtRole rest

/-- Dereifying the first reification of `r` gives back `r` in the un-swapped
    orientation (vacuous for a role that is not reifiable). -/
def Unambiguous (m : Model) (r : Str) : Prop :=
  match m.reifs.find? (·.role = r) with
  | none => True
  | some rf =>
    derefLookup rf.source rf.target (m.reifs.filter (·.concept = rf.concept)) = some (false, r)

instance (m : Model) (r : Str) : Decidable (Unambiguous m r) := by
  unfold Unambiguous; split <;> infer_instance

/-- the graph contains no collapsible reified node: the agenda of
    `dereify_edges` is empty -/
def NoCollapsible (m : Model) (g : Graph) : Prop := dereifyAgenda m g = .ok []

instance (m : Model) (g : Graph) : Decidable (NoCollapsible m g) := by
  unfold NoCollapsible
  cases dereifyAgenda m g with
  | error e => exact isFalse (by simp)
  | ok l =>
    cases l with
    | nil => exact isTrue rfl
    | cons a r => exact isFalse (by simp)

/-! ### markers -/

/-- what a marker list becomes under reify → dereify: the last role alignment,
    the (target) alignments, the last `Push`, the `POP`s -/
def normEpis (old : List Epi) : List Epi :=
  (match (old.filter (fun e => e.mode = 1)).getLast? with | some e => [e] | none => []) ++
  old.filter (fun e => e.mode = 2) ++
  (match (old.filter (·.isPush)).getLast? with | some p => [p] | none => []) ++
  old.filter (·.isPop)

/-- the shape of the marker lists `interpret` produces: at most one role
    alignment, then at most one alignment, then at most one `Push`, then `POP`s -/
def DecodedShape (l : List Epi) : Prop :=
  ∃ (ra al pu : List Epi) (n : Nat), l = ra ++ al ++ pu ++ List.replicate n Epi.pop ∧
    (ra = [] ∨ ∃ p i, ra = [.roleAln p i]) ∧ (al = [] ∨ ∃ p i, al = [.aln p i]) ∧
    (pu = [] ∨ ∃ v, pu = [.push v])

/-- the `assert isinstance(t[2], str)` of `indicate_branches` fails on `t`:
    its first `Push` names its source (not its target) and its target is not a string -/
def BranchErr (g : Graph) (t : Triple) : Prop :=
  match getPushedVariable g t with
  | some pv => Atom.str pv ≠ t.tgt ∧ pv = t.src ∧ tgtStr? t.tgt = none
  | none => False

instance (g : Graph) (t : Triple) : Decidable (BranchErr g t) := by
  unfold BranchErr; split <;> infer_instance

/-- the `Push` markers that name the source of a relation sit on relations
    whose target is a variable with a node -/
def PushSrcOk (g : Graph) : Prop :=
  ∀ t ∈ g.triples, getPushedVariable g t = some t.src → Atom.str t.src ≠ t.tgt →
    ∃ t' ∈ g.triples, Atom.str t'.src = t.tgt ∧ t'.role = CONCEPT_ROLE

instance (g : Graph) : Decidable (PushSrcOk g) := by unfold PushSrcOk; infer_instance

def PushWfAt (g : Graph) (t : Triple) : Prop :=
  match getPushedVariable g t with
  | some pv => t.role ≠ CONCEPT_ROLE ∧ (Atom.str pv = t.tgt ∨ pv = t.src)
  | none => True

instance (g : Graph) (t : Triple) : Decidable (PushWfAt g t) := by
  unfold PushWfAt; split <;> infer_instance

/-- the (first) `Push` marker of a triple sits on a relation (not on an instance
    triple) and names the triple's source or target -/
def PushWf (g : Graph) : Prop := ∀ t ∈ g.triples, PushWfAt g t

instance (g : Graph) : Decidable (PushWf g) := by unfold PushWf; infer_instance

/-! ### connectivity -/

/-- `a` is the source of some triple -/
def IsSrc (g : Graph) (a : Str) : Prop := ∃ t ∈ g.triples, t.src = a

/-- a relation (non-instance triple) links `a` and `b`, in either direction
    (the `neighbours` of `_dfs`) -/
def Adj (g : Graph) (a b : Str) : Prop :=
  ∃ t ∈ g.triples, t.role ≠ CONCEPT_ROLE ∧
    ((t.src = a ∧ t.tgt = .str b) ∨ (t.src = b ∧ t.tgt = .str a))

/-- reachability through relations between sources -/
inductive Reach (g : Graph) (a : Str) : Str → Prop
  | refl : Reach g a a
  | step {b c : Str} : Reach g a b → Adj g b c → IsSrc g c → Reach g a c

/-- the top is a source and every source is reachable from it -/
def Connected (g : Graph) : Prop :=
  ∃ top, g.getTop = some top ∧ IsSrc g top ∧ ∀ t ∈ g.triples, Reach g top t.src

/-! ### programs of transformations (C12) -/

/-- the four graph transformations -/
inductive Xf where
  | reifyEdges | dereifyEdges | reifyAttributes | indicateBranches
deriving DecidableEq, Repr

def Xf.run (m : Model) : Xf → Graph → Except PyErr Graph
  | .reifyEdges, g => Penman.reifyEdges m g
  | .dereifyEdges, g => Penman.dereifyEdges m g
  | .reifyAttributes, g => .ok (Penman.reifyAttributes g)
  | .indicateBranches, g => Penman.indicateBranches m g

/-- run a program (a sequence of transformations) -/
def runProg (m : Model) (p : List Xf) (g : Graph) : Except PyErr Graph :=
  p.foldlM (fun g x => x.run m g) g

/-- well-formed and connected: roles carry a colon, every source is a variable
    with a node, the top is a source and reaches every source -/
def WfC (g : Graph) : Prop := RolesColon g ∧ HasInst g ∧ Connected g

/-- the top role starts with a colon and is not `:instance` -/
def TopRoleOk (m : Model) : Prop := startsWith [':'] m.topRole = true ∧ m.topRole ≠ CONCEPT_ROLE

instance (m : Model) : Decidable (TopRoleOk m) := by unfold TopRoleOk; infer_instance

/-- side condition of one step on the graph it is applied to -/
def Xf.Side : Xf → Graph → Prop
  | .indicateBranches, g => PushSrcOk g
  | _, _ => True

instance (x : Xf) (g : Graph) : Decidable (x.Side g) := by
  cases x <;> unfold Xf.Side <;> infer_instance

/-- the side conditions hold at every step of the program -/
def SideAlong (m : Model) : List Xf → Graph → Prop
  | [], _ => True
  | x :: r, g => x.Side g ∧ ∀ g', x.run m g = .ok g' → SideAlong m r g'

/-! ### encoding the results (C12 ∘ C06) -/

/-- every relation target is a string (true of every decoded graph; numbers
    and `None` targets only arise in hand-built graphs) -/
def StrTargets (g : Graph) : Prop :=
  ∀ t ∈ g.triples, t.role ≠ CONCEPT_ROLE → (tgtStr? t.tgt).isSome = true

instance (g : Graph) : Decidable (StrTargets g) := by unfold StrTargets; infer_instance

/-- neither the inversion of `r` nor its double inversion is `:instance` -/
def RoleInvOK (m : Model) (r : Str) : Prop :=
  m.invertRole r ≠ CONCEPT_ROLE ∧ m.invertRole (m.invertRole r) ≠ CONCEPT_ROLE

instance (m : Model) (r : Str) : Decidable (RoleInvOK m r) := by unfold RoleInvOK; infer_instance

/-- the roles the transformations introduce (reification roles, source and
    target roles, the top role) never invert to `:instance` -/
def TableInvOK (m : Model) : Prop :=
  (∀ rf ∈ m.reifs, RoleInvOK m rf.role ∧ RoleInvOK m rf.source ∧ RoleInvOK m rf.target) ∧
  RoleInvOK m m.topRole

instance (m : Model) : Decidable (TableInvOK m) := by unfold TableInvOK; infer_instance

/-- the hypotheses under which a graph is known to encode (`configure` succeeds):
    well-formed, connected, string targets, no role inverting to `:instance` -/
def EncOK (m : Model) (g : Graph) : Prop := WfC g ∧ StrTargets g ∧ Cfg.NoInstOf m g

end Penman

/-
  # C12 — Every transformation returns a well-formed graph that serialises faithfully

  Property text, clause by clause, and the theorem(s) covering it:

  * "Each graph transformation (reify edges, dereify edges, reify attributes,
     indicate branches) … accepts any well-formed connected graph … without raising"
        `C12_reifyEdges`, `C12_dereifyEdges`, `C12_reifyAttributes` (no side condition;
        `reify_edges`, `dereify_edges`, `reify_attributes` are TOTAL on all graphs:
        `C11_reify_total`, `C12_dereifyEdges_total`),
        `C12_indicateBranches` (side condition `PushSrcOk`);
        `C12_no_python_error` : for ANY graph the only possible failure is the
        `AssertionError` of `indicate_branches` (exactly when `BranchErr`);
        `C12_markerless` : none of the four fails on a graph without markers
        ("hand-built without markers").
  * "returns a graph with the same top that is again well-formed and connected:
     every source is a variable with a node"
        the same four theorems: `WfC g'` (= `RolesColon ∧ HasInst ∧ Connected`)
        and `g'.getTop = g.getTop`.
  * "and every composition of them"            `C12_program` (any program; the side
        condition `PushSrcOk` must hold on the graph each `indicateBranches` step is
        applied to — a decidable predicate; programs without `indicateBranches`
        need none: `C12_program_no_branches`)
  * "it encodes without error"                  `C12_encodes` (see below)
  * "Reifying attributes leaves no attribute"   `C12_attributes_none`
  * "contracting the new nodes gives back the original triples"
                                                `C12_attributes_contract`, `C12_attributes_fresh`
  * "indicating branches adds exactly one top-role triple per nested node"
                                                `C12_branches_shape`, `C12_branches_count`,
                                                `C12_branches_count_push` (under `PushWf`)
  * "removing them gives back the original"     `C12_branches_remove`

  UNPROVED (stated) — inherits C06/C03:
  ```
  C12_decodes : WfC g → … → ∀ g' (result of a program), ∀ T, configure m g' none = .ok T →
      interpret isAlpha m T ≅ g'          -- "and decodes to itself"
  ```

  Hypotheses the property text leaves implicit (counterexamples below):
  * `indicate_branches` on a `Push` that names the source of a relation whose
    target is a constant creates a source without a node, and raises
    `AssertionError` if that target is not a string. Hence `PushSrcOk`.
  * "removing the top-role triples gives back the original" needs an input
    without top-role triples (`exTopIn`).
  * "one top-role triple per nested node" needs `PushWf` (`exPushOdd`).
  * `reify_edges` on a graph whose top has no instance triple loses the top as a
    source (`exNoInst`): `HasInst` is needed for connectivity.
  * (history) before fix F20 `dereify_edges` turned the constant `7` of
    `(a / x :ARG2-of (v / have-mod-91 :ARG1 7))` into a source (finding F4'); now
    the node is left alone (`exF4'`).
-/
import Penman.Proofs.Transform
import Penman.Generated
namespace Penman
open Generated

/-! ## the four transformations -/

/-- `reify_edges`: total, well-formedness, connectivity and top preserved -/
theorem C12_reifyEdges {m : Model} (hm : ReifWf m) (g : Graph) (hw : WfC g) :
    ∃ g', reifyEdges m g = .ok g' ∧ WfC g' ∧ g'.getTop = g.getTop := by
  obtain ⟨hg, hi, hc⟩ := hw
  obtain ⟨rev, st, hrun, ho, h⟩ := reifyEdges_result m g
  exact ⟨_, h, ⟨reifyResult_rolesColon g st, reifyEdges_hasInst hm hg hrun ho hi,
    reifyEdges_connected hm hg hrun ho hi hc⟩, reifyResult_getTop hrun ho⟩

/-- `reify_attributes`: pure, well-formedness, connectivity and top preserved -/
theorem C12_reifyAttributes (g : Graph) (hw : WfC g) :
    WfC (reifyAttributes g) ∧ (reifyAttributes g).getTop = g.getTop :=
  ⟨⟨reifyAttributes_rolesColon g, reifyAttributes_hasInst g hw.2.1,
    reifyAttributes_connected g hw.1 hw.2.2⟩, reifyAttributes_getTop g⟩

/-- `dereify_edges`: total; well-formedness, connectivity and top preserved for
    every well-formed connected graph (after fix F20 the source of every
    dereified triple is a variable of the graph, hence a node) -/
theorem C12_dereifyEdges {m : Model} (hm : ReifWf m) (g : Graph) (hw : WfC g) :
    ∃ g', dereifyEdges m g = .ok g' ∧ WfC g' ∧ g'.getTop = g.getTop := by
  obtain ⟨hg, hi, hc⟩ := hw
  obtain ⟨g', h⟩ := dereifyEdges_total m g
  have htop : ∀ x, g.getTop = some x → IsSrc g x := by
    obtain ⟨top, hgt, htsrc, _⟩ := hc
    intro x hx; rw [hgt] at hx; simp only [Option.some.injEq] at hx; exact hx ▸ htsrc
  exact ⟨g', h, ⟨dereifyEdges_rolesColon h,
    dereifyEdges_hasInst h hi (dereified_src_node hi htop),
    dereifyEdges_connected h hm hg hc⟩, dereifyEdges_getTop h⟩

/-- `dereify_edges` never raises, for any graph and model -/
theorem C12_dereifyEdges_total (m : Model) (g : Graph) : ∃ g', dereifyEdges m g = .ok g' :=
  dereifyEdges_total m g

/-- the top is kept by `dereify_edges` whenever it succeeds (no hypothesis) -/
theorem C12_dereifyEdges_top {m : Model} {g g' : Graph} (h : dereifyEdges m g = .ok g') :
    g'.getTop = g.getTop := dereifyEdges_getTop h

/-- `indicate_branches`: under the side condition it succeeds and preserves
    well-formedness, connectivity and top -/
theorem C12_indicateBranches {m : Model} (htr : TopRoleOk m) (g : Graph) (hw : WfC g)
    (hs : PushSrcOk g) :
    ∃ g', indicateBranches m g = .ok g' ∧ WfC g' ∧ g'.getTop = g.getTop := by
  obtain ⟨hg, hi, hc⟩ := hw
  obtain ⟨g', h⟩ := indicateBranches_ok_iff.mpr (pushSrcOk_noErr hs)
  exact ⟨g', h, ⟨indicateBranches_rolesColon h, indicateBranches_hasInst h hi hs,
    indicateBranches_connected h htr.1 htr.2 hg hc⟩, indicateBranches_getTop h⟩

/-! ## errors -/

/-- For ANY graph and model, the only step that can fail is `indicate_branches`,
    with its `AssertionError`, exactly on a triple whose first `Push` names its
    source while its target is not a string. `reify_edges`, `dereify_edges` and
    `reify_attributes` are total. -/
theorem C12_no_python_error {m : Model} {x : Xf} {g : Graph} {e : PyErr} (h : x.run m g = .error e) :
    x = .indicateBranches ∧ e = .other "AssertionError" ∧ ∃ t ∈ g.triples, BranchErr g t :=
  step_error h

/-- On a graph without markers none of the four transformations fails at all,
    and `indicate_branches` inserts nothing. -/
theorem C12_markerless {m : Model} {g : Graph} (hep : g.epidata = []) (x : Xf) :
    ∃ g', x.run m g = .ok g' := by
  cases h : x.run m g with
  | ok g' => exact ⟨g', rfl⟩
  | error e =>
    obtain ⟨_, _, t, _, hb⟩ := step_error h
    exact absurd hb (branchIns_markerless (m := m) hep t).2

/-! ## programs -/

/-- **Every program of transformations** maps a well-formed connected graph to a
    well-formed connected graph with the same top, without raising, provided
    the (decidable) side condition of each `dereifyEdges`/`indicateBranches`
    step holds on the graph that step is applied to. No restriction on how often
    `indicateBranches` occurs is needed for these clauses. -/
theorem C12_program {m : Model} (hm : ReifWf m) (htr : TopRoleOk m) (p : List Xf) (g : Graph)
    (hw : WfC g) (hs : SideAlong m p g) :
    ∃ g', runProg m p g = .ok g' ∧ WfC g' ∧ g'.getTop = g.getTop :=
  prog_wfc hm htr p g hw hs

/-- programs without `indicateBranches` need no side condition -/
theorem C12_program_no_branches {m : Model} (hm : ReifWf m) (htr : TopRoleOk m) (p : List Xf)
    (hp : ∀ x ∈ p, x ≠ .indicateBranches) (g : Graph) (hw : WfC g) :
    ∃ g', runProg m p g = .ok g' ∧ WfC g' ∧ g'.getTop = g.getTop := by
  apply prog_wfc hm htr p g hw
  clear hw
  induction p generalizing g with
  | nil => trivial
  | cons x r ih =>
    refine ⟨?_, fun g' _ => ih (fun y hy => hp y (by simp [hy])) g'⟩
    have := hp x (by simp)
    cases x <;> first | trivial | exact absurd rfl this

/-! ## the results encode (C12 ∘ C06) -/

theorem amr_tableInvOK : TableInvOK amrModel := by decide +kernel
theorem noop_tableInvOK : TableInvOK noopModel := by decide +kernel

/-- a graph that is well-formed, connected, has string targets and no role
    inverting to `:instance` encodes: `configure` succeeds (by C06's
    `configure_complete`) -/
theorem C12_encOK_configure {m : Model} {g : Graph} (h : EncOK m g) :
    ∃ T, configure m g none = .ok T := encOK_configure h

/-- **"it encodes without error".** Every program of transformations maps a
    graph satisfying `EncOK` (well-formed, connected, relation targets are
    strings, no role inverts to `:instance`) to a graph that again satisfies
    `EncOK` — in particular `configure` succeeds on the result — provided the
    model's tables are sane (`ReifWf`, `TopRoleOk`, `TableInvOK`, all decidable and
    true of the AMR and no-op models) and `PushSrcOk` holds where
    `indicateBranches` is applied. -/
theorem C12_encodes {m : Model} (hm : ReifWf m) (htr : TopRoleOk m) (hti : TableInvOK m)
    (p : List Xf) (g : Graph) (he : EncOK m g) (hs : SideAlong m p g) :
    ∃ g' T, runProg m p g = .ok g' ∧ EncOK m g' ∧ g'.getTop = g.getTop ∧
      configure m g' none = .ok T := by
  obtain ⟨g', h1, h2, h3⟩ := prog_encOK hm htr hti p g he hs
  obtain ⟨T, hT⟩ := encOK_configure h2
  exact ⟨g', T, h1, h2, h3, hT⟩

/-- one step -/
theorem C12_encodes_step {m : Model} (hm : ReifWf m) (htr : TopRoleOk m) (hti : TableInvOK m)
    (x : Xf) (g : Graph) (he : EncOK m g) (hs : x.Side g) :
    ∃ g' T, x.run m g = .ok g' ∧ EncOK m g' ∧ configure m g' none = .ok T := by
  obtain ⟨g', h1, h2, _⟩ := step_encOK hm htr hti x g he hs
  obtain ⟨T, hT⟩ := encOK_configure h2
  exact ⟨g', T, h1, h2, hT⟩

/-! ## attribute reification -/

/-- **No attribute is left** (for ANY graph). -/
theorem C12_attributes_none (g : Graph) : (reifyAttributes g).attributes = [] :=
  reifyAttributes_no_attributes g

/-- **Contracting the new nodes gives back the original triples**: every pair
    `(s, r, v), (v, :instance, c)` with `v` not a variable of `g` ↦ `(s, r, c)`. -/
theorem C12_attributes_contract (g : Graph) (hg : RolesColon g) :
    contractAttrs (fun v => decide (v ∉ g.variables)) (reifyAttributes g).triples = g.triples :=
  reifyAttributes_contract g hg

/-- the shape of the result: in-place replacement of each attribute by the two
    triples; the new variables are pairwise distinct and fresh -/
theorem C12_attributes_fresh (g : Graph) :
    ∃ evs : List AEv, evs.map AEv.orig = g.triples ∧
      (reifyAttributes g).triples =
        (evs.flatMap AEv.out).map (fun t => { t with role := ensureColon t.role }) ∧
      (evs.flatMap AEv.newVar).Nodup ∧ (∀ v ∈ evs.flatMap AEv.newVar, v ∉ g.variables) ∧
      (∀ e ∈ evs, AEvOk g (evs.flatMap AEv.newVar ++ g.variables) e) :=
  reifyAttributes_triples g

/-! ## branch indication -/

/-- **Shape**: the result is the input with `branchIns m g t` inserted directly
    before each triple `t`, where `branchIns` is empty, or the single triple
    `(t.src, topRole, t.tgt)` when the first `Push` of `t` names its target, or
    `(s, topRole, t.src)` when it names its source and `t.tgt = s` is a string. -/
theorem C12_branches_shape {m : Model} {g g' : Graph} (h : indicateBranches m g = .ok g') :
    g'.triples = (g.triples.flatMap (fun t => branchIns m g t ++ [t])).map
        (fun t => { t with role := ensureColon t.role }) ∧
    ∀ t, (branchIns m g t = [] ∧
        ¬ (∃ pv, getPushedVariable g t = some pv ∧
            (Atom.str pv = t.tgt ∨ (pv = t.src ∧ ∃ s, t.tgt = .str s)))) ∨
      (branchIns m g t = [⟨t.src, m.topRole, t.tgt⟩] ∧
        ∃ pv, getPushedVariable g t = some pv ∧ Atom.str pv = t.tgt) ∨
      (∃ s, t.tgt = .str s ∧ branchIns m g t = [⟨s, m.topRole, .str t.src⟩] ∧
        getPushedVariable g t = some t.src ∧ Atom.str t.src ≠ t.tgt) :=
  ⟨(indicateBranches_ok h).1, branchIns_spec m g⟩

/-- **Removing the top-role triples gives back the original** (input without
    top-role triples), and **exactly one top-role triple is added per triple that
    opens a nested node**. -/
theorem C12_branches_remove {m : Model} {g g' : Graph} (h : indicateBranches m g = .ok g')
    (htr : TopRoleOk m) (hg : RolesColon g) (hno : ∀ t ∈ g.triples, t.role ≠ m.topRole) :
    g'.triples.filter (fun t => t.role ≠ m.topRole) = g.triples :=
  (indicateBranches_filter h htr.1 hg hno).1

theorem C12_branches_count {m : Model} {g g' : Graph} (h : indicateBranches m g = .ok g')
    (htr : TopRoleOk m) (hg : RolesColon g) (hno : ∀ t ∈ g.triples, t.role ≠ m.topRole) :
    (g'.triples.filter (fun t => t.role = m.topRole)).length =
      (g.triples.filter (fun t => branchIns m g t ≠ [])).length :=
  (indicateBranches_filter h htr.1 hg hno).2

/-- when the `Push` markers sit on relations and name an end of their triple
    (`PushWf`), the number of top-role triples added is the number of triples
    carrying a `Push`, i.e. one per nested node -/
theorem C12_branches_count_push {m : Model} {g g' : Graph} (h : indicateBranches m g = .ok g')
    (htr : TopRoleOk m) (hg : RolesColon g) (hno : ∀ t ∈ g.triples, t.role ≠ m.topRole)
    (hw : PushWf g) :
    (g'.triples.filter (fun t => t.role = m.topRole)).length =
      (g.triples.filter (fun t => (getPushedVariable g t).isSome)).length := by
  rw [C12_branches_count h htr hg hno]
  congr 1
  apply List.filter_congr
  intro t ht
  have hb := indicateBranches_ok_iff.mp ⟨g', h⟩ t ht
  have := branchIns_ne_nil_iff (m := m) hw ht hb
  by_cases hp : (getPushedVariable g t).isSome = true
  · simp [hp, this.mpr hp]
  · have hn : ¬ branchIns m g t ≠ [] := fun hne => hp (this.mp hne)
    simp only [ne_eq, Decidable.not_not] at hn
    simp [hp, hn]

/-! ## non-vacuity and counterexamples -/

section Examples

private def tr (s r t : String) : Triple := ⟨s.toList, r.toList, .str t.toList⟩

example : TopRoleOk amrModel ∧ TopRoleOk noopModel := by decide

/-- `(w / want-01 :ARG0 (b / boy) :mod 7)` as decoded -/
def exWant : Graph :=
  Graph.mk' [tr "w" ":instance" "want-01", tr "w" ":ARG0" "b", tr "b" ":instance" "boy",
      tr "w" ":mod" "7"] (some "w".toList)
    [(tr "w" ":instance" "want-01", []), (tr "w" ":ARG0" "b", [.push "b".toList]),
     (tr "b" ":instance" "boy", [.pop]), (tr "w" ":mod" "7", [])] []

theorem exWant_wfc : WfC exWant := by
  refine ⟨by decide, by decide, "w".toList, by decide,
    ⟨tr "w" ":instance" "want-01", by decide, rfl⟩, ?_⟩
  have hb : Reach exWant "w".toList "b".toList :=
    Reach.single ⟨tr "w" ":ARG0" "b", by decide, by decide, Or.inl ⟨rfl, rfl⟩⟩
      ⟨tr "b" ":instance" "boy", by decide, rfl⟩
  intro t ht
  have : t.src = "w".toList ∨ t.src = "b".toList := by
    revert t; decide
  rcases this with h | h <;> rw [h]
  · exact Reach.refl
  · exact hb

example : PushSrcOk exWant ∧ PushWf exWant ∧
    (∀ t ∈ exWant.triples, t.role ≠ amrModel.topRole) := by decide

/-- **`PushWf` is necessary for "one top-role triple per nested node".** A `Push`
    that names neither end of its triple gets no top-role triple; a `Push` on an
    instance triple gets one that points to the concept. -/
def exPushOdd : Graph :=
  Graph.mk' [tr "a" ":instance" "x", tr "a" ":mod" "7"] (some "a".toList)
    [(tr "a" ":instance" "x", [.push "x".toList]), (tr "a" ":mod" "7", [.push "b".toList])] []

example : ¬ PushWf exPushOdd ∧ PushSrcOk exPushOdd := by decide
example : (indicateBranches amrModel exPushOdd).toOption.map (·.triples) =
    some [tr "a" ":TOP" "x", tr "a" ":instance" "x", tr "a" ":mod" "7"] := by decide

example : EncOK amrModel exWant := ⟨exWant_wfc, by decide, by decide⟩

/-- the whole command-line pipeline applies to `exWant` -/
example : SideAlong amrModel [.reifyEdges, .reifyAttributes, .indicateBranches] exWant := by
  refine ⟨trivial, fun g1 h1 => ⟨trivial, fun g2 h2 => ⟨?_, fun _ _ => trivial⟩⟩⟩
  have e1 : g1 = (reifyEdges amrModel exWant).toOption.getD default := by
    simp only [Xf.run] at h1; rw [h1]; rfl
  simp only [Xf.run, Except.ok.injEq] at h2
  subst h2 e1
  decide

example : ((runProg amrModel [.reifyEdges, .reifyAttributes, .indicateBranches] exWant).toOption.map
    (·.triples)) =
    some [tr "w" ":instance" "want-01", tr "w" ":TOP" "b", tr "w" ":ARG0" "b", tr "b" ":instance" "boy",
      tr "w" ":TOP" "_", tr "_" ":ARG1" "w", tr "_" ":instance" "have-mod-91",
      tr "_" ":TOP" "_2", tr "_" ":ARG2" "_2", tr "_2" ":instance" "7"] := by decide

example : (reifyAttributes exWant).triples =
    [tr "w" ":instance" "want-01", tr "w" ":ARG0" "b", tr "b" ":instance" "boy", tr "w" ":mod" "_",
      tr "_" ":instance" "7"] := by decide

/-- **F4' (repaired by fix F20).** `(a / x :ARG2-of (v / have-mod-91 :ARG1 7))`:
    before the fix `dereify_edges` returned `(a / x) (7 :mod a)`, whose source `7`
    has no node; now `7` is not a variable, the node `v` is left alone and
    `dereify_edges` is the identity on the graph. -/
def exF4' : Graph :=
  Graph.mk' [tr "a" ":instance" "x", tr "v" ":ARG2" "a", tr "v" ":instance" "have-mod-91",
    tr "v" ":ARG1" "7"] (some "a".toList) [] []

example : RolesColon exF4' ∧ HasInst exF4' := by decide
example : (dereifyEdges amrModel exF4').toOption.map (·.triples) = some exF4'.triples := by decide
example : ((dereifyEdges amrModel exF4').toOption.map fun g' => decide (HasInst g')) = some true := by
  decide

/-- the same node with a variable as `:ARG1` IS collapsed (inverted orientation) -/
def exF4ok : Graph :=
  Graph.mk' [tr "a" ":instance" "x", tr "v" ":ARG2" "a", tr "v" ":instance" "have-mod-91",
    tr "v" ":ARG1" "b", tr "b" ":instance" "y"] (some "a".toList) [] []

example : (dereifyEdges amrModel exF4ok).toOption.map (·.triples) =
    some [tr "a" ":instance" "x", tr "b" ":mod" "a", tr "b" ":instance" "y"] := by decide

/-- **`PushSrcOk` is necessary.** A `Push` naming the source of an attribute:
    `indicate_branches` makes the constant `k` a source without a node … -/
def exPushSrc : Graph :=
  Graph.mk' [tr "a" ":instance" "x", tr "a" ":mod" "k"] (some "a".toList)
    [(tr "a" ":mod" "k", [.push "a".toList])] []

example : RolesColon exPushSrc ∧ HasInst exPushSrc ∧ ¬ PushSrcOk exPushSrc := by decide
example : ((indicateBranches amrModel exPushSrc).toOption.map fun g' => (g'.triples, decide (HasInst g')))
    = some ([tr "a" ":instance" "x", tr "k" ":TOP" "a", tr "a" ":mod" "k"], false) := by decide

/-- … and raises `AssertionError` when that target is not a string. -/
def exAssert : Graph :=
  Graph.mk' [tr "a" ":instance" "x", ⟨"a".toList, ":mod".toList, .none⟩] (some "a".toList)
    [(⟨"a".toList, ":mod".toList, .none⟩, [.push "a".toList])] []

example : indicateBranches amrModel exAssert = .error (.other "AssertionError") := by
  rw [indicateBranches_eq, branchFold, if_pos (by decide)]; rfl

/-- **An input with a top-role triple**: removing the top-role triples does not
    give back the original. -/
def exTopIn : Graph :=
  Graph.mk' [tr "a" ":instance" "x", tr "a" ":TOP" "b", tr "b" ":instance" "y"] (some "a".toList) [] []

example : ((indicateBranches amrModel exTopIn).toOption.map fun g' =>
    decide (g'.triples.filter (fun t => t.role ≠ amrModel.topRole) = exTopIn.triples)) = some false := by
  decide

/-- **`HasInst` is needed for connectivity under `reify_edges`**: the top `a` of
    `[(a :mod 7)]` is no longer a source afterwards. -/
def exNoInst : Graph := Graph.mk' [tr "a" ":mod" "7"] none [] []

example : ((reifyEdges amrModel exNoInst).toOption.map fun g' =>
    (g'.getTop, g'.triples.map (·.src))) =
    some (some "a".toList, ["_".toList, "_".toList, "_".toList]) := by decide

end Examples

end Penman

import Penman.Proofs.DumpsLoads
import Penman.Props.C03Text
import Penman.Props.C09
/-!
# C09, graph level — `loads(dumps(gs)) ≅ gs`, `load(dump(gs, file)) ≅ gs`

Property text (C09, last sentence): *"Serialising a list of graphs and loading it back returns equal
graphs in order - with blank-line separation, with none, and when written to a file - and every
metadata comment stays attached to the graph that follows it."*

`Props/C09.lean` proves this for TEXTS that are assumed to parse completely; this file discharges that
assumption for the texts `encode` produces and composes with `C03_text` (graph → text → graph), so that
the statement is about the Python functions `dumps` / `dump` / `loads` / `load` of `penman/codec.py`.

Model (`Penman/Spec/DumpsLoads.lean`; `encode`, `decode`: `Proofs/EncodeDecode.lean`):
* `encodeAll m gs i c` = `[codec.encode(g, indent=i, compact=c) for g in gs]` (`top = None`; the first
  failing `encode` is the error);
* `dumps m gs i c` = `'\n\n'.join(…)`; `dumpsSep sep` = the same with another separator;
* `dumpFile m gs i c` = what `_dump_stream` writes (`dumpStream`: `print(s₀)`, then `print(); print(s)`
  for every further text) — `dumpStream_join`: it is the `'\n\n'`-join followed by one `'\n'`;
* `loads cfg isSpace isAlpha m s` = `list(codec.iterdecode(s))`: `iterparseToks` over
  `lexStr cfg cfg.penmanOrder s`, `interpret` on every yielded tree in order; the first `interpret` error
  of a yielded tree wins, then the error `iterparse` raises, if any (`loadToks`; `loads_ok_iff`: for
  SUCCESS this is the same as "no parse error and every `interpret` succeeds");
* `loadFile …  s` = `load(fh)` for a file of content `s`: the same over `lexLines … (fileLines s)`.

Hypothesis on every graph: `Encodable cfg isSpace m g` = the hypotheses of `C03_text` with `top = None`
(`WfGraph`, `GraphTextOK`, `PushVars`, `PushSrcOK`; the graph's own top is a variable from which every
variable is reachable — all decidable except connectivity, as in C03).  On the tables: `FmtCfgWf cfg`
(C01), for files `SepChar cfg '\n'` (C09), for the same-line case `ParenStop cfg`, `OrderOk` (C09); all
hold for the generated tables (`…_generated`).  Conclusion for the `k`-th graph: `SameGraph m gs[k] gs'[k]` = the conclusion of
`C03_text` (same top, same variables, same triples as a multiset after one de-inversion with constants
by their written form, every loaded triple is the written form of a dumped one or its inversion, and
the SAME metadata).

Clause of the property text ↦ theorem(s)
* the step `Props/C09.lean` assumed: an encoded text parses completely and does not end in CR
  ↦ `encode_parses_completely` (`_parse` on its tokens returns the written form of the configured tree
  with its metadata and leaves NOTHING over, under every error context; the text ends in `)`, so not
  in CR; its last line is closed, `ClosedLast`).
* "Serialising a list of graphs and loading it back returns equal graphs in order … with blank-line
  separation" ↦ `C09_dumps_loads` (`dumps` / `loads`), `C09_dumps_loads_generated`.
* "… and when written to a file" ↦ `C09_dump_load_file` (`dumpFile` / `loadFile`); also
  `C09_newlines` with `trail = "\n"` (the text of `dumps` plus a final newline, as a string or a file).
* "… with none [no blank line]" ↦ `C09_newlines` (separator = `k+1` newlines: `k = 0` a single newline,
  `k = 1` = `dumps`; with or without a final newline; loaded as a string AND as a file);
  separator on the SAME LINE (blanks, or nothing at all) ↦ `C09_inline`.
* "every metadata comment stays attached to the graph that follows it" ↦ the clause
  `SameGraph.metadata : gs'[k].metadata = gs[k].metadata` (keys, values, order) in each theorem.
* the empty list ↦ `C09_empty`.

FINDINGS
* No metadata restriction is needed in the same-line case: a comment may FOLLOW a graph on the same
  line (`… ) # ::id 2` — the comment runs to the end of the line and the next graph starts on the next
  line); what cannot happen is a graph following a comment on the same line, and an encoded text never
  ends in a comment line (`encode_parses_completely`: its last line is closed).  So `C09_inline` holds
  for all `Encodable` graphs, with metadata on every graph.
* `loads` is modelled with Python's interleaving (`interpret` of a yielded tree runs before the next
  tree is parsed).  The simpler "parse error first" model agrees with it on every successful load
  (`loads_ok_iff`); they differ only in WHICH error is reported when both kinds occur.
Nothing is left unproved.
-/
namespace Penman.C09g
open Penman Penman.Spec Penman.Cfg Penman.C03Text Penman.Framing

/-! ## an encoded text parses completely -/

/-- **the text of an encoded graph parses completely**: whenever `configure` succeeds on a well-formed,
    character-level well-formed graph, `_parse` on the tokens of the text returns the written form of
    the configured tree with its metadata and leaves NOTHING over (under every error context, in
    particular `⟨eofPos toks⟩`); the text ends in `)`, hence not in CR, and its last line is closed. -/
theorem encode_parses_completely {cfg : LexCfg} (hcfg : FmtCfgWf cfg = true) (isSpace : Char → Bool)
    {m : Model} {g : Graph} {top : Option Str} {T : Tree} (hw : ModelWf m) (hg : WfGraph m g)
    (htx : GraphTextOK cfg isSpace m g) (hpv : PushVars g) (h : configure m g top = .ok T)
    (i : Indent) (c : Bool) :
    ∃ s, encode m g top i c = .ok s ∧
      parseTree ⟨eofPos (lexStr cfg cfg.penmanOrder s)⟩ isSpace (lexStr cfg cfg.penmanOrder s) =
        .ok (⟨writtenForm T.node, T.metadata⟩, []) ∧
      (∀ ctx, parseTree ctx isSpace (lexStr cfg cfg.penmanOrder s) =
        .ok (⟨writtenForm T.node, T.metadata⟩, [])) ∧
      s.getLast? = some ')' ∧ s.getLast? ≠ some '\r' ∧ ClosedLast cfg cfg.penmanOrder s := by
  obtain ⟨h1, h2, h3, h4, h5⟩ :=
    Penman.C09g.encode_parses_completely_aux hcfg isSpace hw hg htx hpv h i c
  exact ⟨_, h1, h2 _, h2, h3, h4, h5⟩

/-- `loads` succeeds exactly when `iterparse` raises nothing and every tree is interpreted -/
theorem loads_ok_iff (cfg : LexCfg) (isSpace isAlpha : Char → Bool) (m : Model) (s : Str) (gs' : List Graph) :
    loads cfg isSpace isAlpha m s = .ok gs' ↔
      (iterparseToks isSpace (lexStr cfg cfg.penmanOrder s)).2 = none ∧
      mapE (interpret isAlpha m) (iterparseToks isSpace (lexStr cfg cfg.penmanOrder s)).1 = .ok gs' :=
  loadToks_ok_iff isSpace isAlpha m _ gs'

/-- what `dump` writes: the `'\n\n'`-join of the texts followed by one line feed (nothing for `[]`) -/
theorem dumpStream_join (ss : List Str) :
    dumpStream ss = joinStr ['\n', '\n'] ss ++ (if ss = [] then [] else ['\n']) := dumpStream_eq ss

example : dumpStream ["(a)".toList, "(b)".toList, "(c)".toList] = "(a)\n\n(b)\n\n(c)\n".toList := by decide

/-! ## newline separation -/

/-- **Separator = `k+1` newlines** (`k = 1`: the blank line of `dumps`; `k = 0`: a single newline, no
    blank line), with or without a final newline, loaded as a string and as a file: the graphs come
    back in order, each with the content and the metadata of the graph it was dumped from. -/
theorem C09_newlines {cfg : LexCfg} (hcfg : FmtCfgWf cfg = true) (isSpace isAlpha : Char → Bool)
    {m : Model} (hw : ModelWf m) (hnoop : m.noop = false) (gs : List Graph)
    (h : ∀ g ∈ gs, Encodable cfg isSpace m g) (i : Indent) (c : Bool) (k : Nat) (trail : Str)
    (ht : trail = [] ∨ trail = ['\n']) :
    ∃ s gs', dumpsSep ('\n' :: List.replicate k '\n') m gs i c = .ok s ∧
      loads cfg isSpace isAlpha m (s ++ trail) = .ok gs' ∧
      (SepChar cfg '\n' → loadFile cfg isSpace isAlpha m (s ++ trail) = .ok gs') ∧
      gs'.length = gs.length ∧
      ∀ (j : Nat) (hj : j < gs.length) (hj' : j < gs'.length), SameGraph m gs[j] gs'[j] := by
  obtain ⟨ps, gs', a1, a2, a3, a4⟩ := encodeAll_roundtrip hcfg isSpace isAlpha hw hnoop i c gs h
  obtain ⟨e, f⟩ := rel₂_index a4
  refine ⟨_, gs', by rw [dumpsSep, a1]; rfl, ?_, fun hc => ?_, e, f⟩
  · exact loadToks_of_iterparse isSpace isAlpha m _ _ gs'
      (C09.dumps_loads_framing isSpace cfg _ k trail ht ps (fun p hp => getLast_ne_cr (a2 p hp).1)
        (fun p hp => (a2 p hp).2.2 _)) a3
  · exact loadToks_of_iterparse isSpace isAlpha m _ _ gs'
      (C09.dumps_loads_framing_file isSpace cfg hc _ k trail ht ps (fun p hp => getLast_ne_cr (a2 p hp).1)
        (fun p hp => (a2 p hp).2.2 _)) a3

/-- **`loads(dumps(gs))`.**  For graphs satisfying the hypotheses of `C03_text`, every indentation and
    compactness setting: `dumps` succeeds, `loads` of its text succeeds, and returns as many graphs, the
    `j`-th of which has the top, the variables, the triples (multiset, after one de-inversion, constants
    by their written form) and the METADATA of the `j`-th dumped graph. -/
theorem C09_dumps_loads {cfg : LexCfg} (hcfg : FmtCfgWf cfg = true) (isSpace isAlpha : Char → Bool)
    {m : Model} (hw : ModelWf m) (hnoop : m.noop = false) (gs : List Graph)
    (h : ∀ g ∈ gs, Encodable cfg isSpace m g) (i : Indent) (c : Bool) :
    ∃ s gs', dumps m gs i c = .ok s ∧ loads cfg isSpace isAlpha m s = .ok gs' ∧
      gs'.length = gs.length ∧
      ∀ (j : Nat) (hj : j < gs.length) (hj' : j < gs'.length), SameGraph m gs[j] gs'[j] := by
  obtain ⟨s, gs', h1, h2, _, h4, h5⟩ :=
    C09_newlines hcfg isSpace isAlpha hw hnoop gs h i c 1 [] (.inl rfl)
  rw [List.append_nil] at h2
  exact ⟨s, gs', h1, h2, h4, h5⟩

/-- **`load(file)` after `dump(gs, file)`**: the same through a file (every text followed by a newline,
    an empty line between two texts; the file iterated by lines). -/
theorem C09_dump_load_file {cfg : LexCfg} (hcfg : FmtCfgWf cfg = true) (hlf : SepChar cfg '\n')
    (isSpace isAlpha : Char → Bool) {m : Model} (hw : ModelWf m) (hnoop : m.noop = false)
    (gs : List Graph) (h : ∀ g ∈ gs, Encodable cfg isSpace m g) (i : Indent) (c : Bool) :
    ∃ s gs', dumpFile m gs i c = .ok s ∧ loadFile cfg isSpace isAlpha m s = .ok gs' ∧
      loads cfg isSpace isAlpha m s = .ok gs' ∧ gs'.length = gs.length ∧
      ∀ (j : Nat) (hj : j < gs.length) (hj' : j < gs'.length), SameGraph m gs[j] gs'[j] := by
  obtain ⟨ps, gs', a1, a2, a3, a4⟩ := encodeAll_roundtrip hcfg isSpace isAlpha hw hnoop i c gs h
  obtain ⟨e, f⟩ := rel₂_index a4
  have ht : (if ps.map (·.1) = [] then ([] : Str) else ['\n']) = [] ∨
      (if ps.map (·.1) = [] then ([] : Str) else ['\n']) = ['\n'] := by
    split
    · exact .inl rfl
    · exact .inr rfl
  refine ⟨_, gs', by rw [dumpFile, a1]; rfl, ?_, ?_, e, f⟩
  · rw [dumpStream_eq]
    exact loadToks_of_iterparse isSpace isAlpha m _ _ gs'
      (C09.dumps_loads_framing_file isSpace cfg hlf _ 1 _ ht ps (fun p hp => getLast_ne_cr (a2 p hp).1)
        (fun p hp => (a2 p hp).2.2 _)) a3
  · rw [dumpStream_eq]
    exact loadToks_of_iterparse isSpace isAlpha m _ _ gs'
      (C09.dumps_loads_framing isSpace cfg _ 1 _ ht ps (fun p hp => getLast_ne_cr (a2 p hp).1)
        (fun p hp => (a2 p hp).2.2 _)) a3

/-! ## the same line -/

/-- **Separator on the same line**: blanks that are no line breaks (space, TAB, …), or nothing at all.
    Needs `ParenStop` / `OrderOk` of the lexer tables (C09; decidable, true of the generated tables).
    No restriction on metadata: the comments of the next graph follow the closing parenthesis of the
    previous one on the same line and still belong to the next graph. -/
theorem C09_inline {cfg : LexCfg} (hcfg : FmtCfgWf cfg = true) (hp : ParenStop cfg)
    (ho : OrderOk cfg.penmanOrder) (isSpace isAlpha : Char → Bool)
    {m : Model} (hw : ModelWf m) (hnoop : m.noop = false) (gs : List Graph)
    (h : ∀ g ∈ gs, Encodable cfg isSpace m g) (i : Indent) (c : Bool) (sp : Str)
    (hsp : ∀ c ∈ sp, SepChar cfg c) (hnb : Framing.NoBreak sp) :
    ∃ s gs', dumpsSep sp m gs i c = .ok s ∧ loads cfg isSpace isAlpha m s = .ok gs' ∧
      gs'.length = gs.length ∧
      ∀ (j : Nat) (hj : j < gs.length) (hj' : j < gs'.length), SameGraph m gs[j] gs'[j] := by
  obtain ⟨ps, gs', a1, a2, a3, a4⟩ := encodeAll_roundtrip hcfg isSpace isAlpha hw hnoop i c gs h
  obtain ⟨e, f⟩ := rel₂_index a4
  refine ⟨_, gs', by rw [dumpsSep, a1]; rfl, ?_, e, f⟩
  exact loadToks_of_iterparse isSpace isAlpha m _ _ gs'
    (C09.dumps_loads_inline isSpace cfg hp _ ho sp hsp hnb ps (fun p hp => (a2 p hp).2.1)
      (fun p hp => (a2 p hp).2.2 _)) a3

/-! ## the empty list -/

/-- no graph: `dumps([]) = ''`, `dump([], file)` writes nothing, and both load as `[]` -/
theorem C09_empty (cfg : LexCfg) (isSpace isAlpha : Char → Bool) (m : Model) (i : Indent) (c : Bool) :
    dumps m [] i c = .ok [] ∧ dumpFile m [] i c = .ok [] ∧
    loads cfg isSpace isAlpha m [] = .ok [] ∧ loadFile cfg isSpace isAlpha m [] = .ok [] := by
  refine ⟨rfl, rfl, ?_, ?_⟩
  · simp [loads, loadToks, lexStr, lexLines, lexLinesFrom, lexLine, lexAux, splitLines, iterparseToks,
      iterparseLoop, mapE]
  · have : fileLines [] = [] := by decide
    simp [loadFile, loadToks, this, lexLines, lexLinesFrom, iterparseToks, iterparseLoop, mapE]

/-! ## the generated tables -/

theorem C09_dumps_loads_generated (isSpace isAlpha : Char → Bool) {m : Model} (hw : ModelWf m)
    (hnoop : m.noop = false) (gs : List Graph)
    (h : ∀ g ∈ gs, Encodable Generated.lexCfg isSpace m g) (i : Indent) (c : Bool) :
    ∃ s sf gs', dumps m gs i c = .ok s ∧ loads Generated.lexCfg isSpace isAlpha m s = .ok gs' ∧
      dumpFile m gs i c = .ok sf ∧ loadFile Generated.lexCfg isSpace isAlpha m sf = .ok gs' ∧
      gs'.length = gs.length ∧
      ∀ (j : Nat) (hj : j < gs.length) (hj' : j < gs'.length), SameGraph m gs[j] gs'[j] := by
  obtain ⟨s, gs', h1, h2, h3, h4⟩ := C09_dumps_loads C01.fmt_cfg_wf isSpace isAlpha hw hnoop gs h i c
  obtain ⟨sf, gs'', k1, k2, k3, _⟩ :=
    C09_dump_load_file C01.fmt_cfg_wf C09.lexWf_generated.1 isSpace isAlpha hw hnoop gs h i c
  -- the two loads return the same list: both are `interpret` over the same trees
  obtain ⟨ps, gs₀, a1, a2, a3, _⟩ :=
    encodeAll_roundtrip C01.fmt_cfg_wf isSpace isAlpha hw hnoop i c gs h
  have e1 : gs' = gs₀ := by
    have := loadToks_of_iterparse isSpace isAlpha m _ _ gs₀
      (C09.dumps_loads_framing isSpace Generated.lexCfg Generated.lexCfg.penmanOrder 1 [] (.inl rfl) ps
        (fun p hp => getLast_ne_cr (a2 p hp).1) (fun p hp => (a2 p hp).2.2 _)) a3
    simp only [dumps, dumpsSep, a1, Except.map, Except.ok.injEq] at h1
    rw [List.append_nil] at this
    subst h1
    simp only [loads] at h2
    rw [show ['\n', '\n'] = '\n' :: List.replicate 1 '\n' from rfl] at h2
    rw [this] at h2
    exact (Except.ok.inj h2).symm
  have e2 : gs'' = gs₀ := by
    have ht : (if ps.map (·.1) = [] then ([] : Str) else ['\n']) = [] ∨
        (if ps.map (·.1) = [] then ([] : Str) else ['\n']) = ['\n'] := by
      split
      · exact .inl rfl
      · exact .inr rfl
    have := loadToks_of_iterparse isSpace isAlpha m _ _ gs₀
      (C09.dumps_loads_framing_file isSpace Generated.lexCfg C09.lexWf_generated.1
        Generated.lexCfg.penmanOrder 1 _ ht ps
        (fun p hp => getLast_ne_cr (a2 p hp).1) (fun p hp => (a2 p hp).2.2 _)) a3
    simp only [dumpFile, a1, Except.map, Except.ok.injEq] at k1
    subst k1
    simp only [loadFile] at k2
    rw [dumpStream_eq, show ['\n', '\n'] = '\n' :: List.replicate 1 '\n' from rfl, this] at k2
    exact (Except.ok.inj k2).symm
  rw [e1] at h2 h3 h4
  rw [e2] at k2
  exact ⟨s, sf, gs₀, h1, h2, k1, k2, h3, h4⟩

theorem C09_inline_generated (isSpace isAlpha : Char → Bool) {m : Model} (hw : ModelWf m)
    (hnoop : m.noop = false) (gs : List Graph)
    (h : ∀ g ∈ gs, Encodable Generated.lexCfg isSpace m g) (i : Indent) (c : Bool) (sp : Str)
    (hsp : ∀ c ∈ sp, c = ' ' ∨ c = '\t') :
    ∃ s gs', dumpsSep sp m gs i c = .ok s ∧ loads Generated.lexCfg isSpace isAlpha m s = .ok gs' ∧
      gs'.length = gs.length ∧
      ∀ (j : Nat) (hj : j < gs.length) (hj' : j < gs'.length), SameGraph m gs[j] gs'[j] :=
  C09_inline C01.fmt_cfg_wf C09.parenStop_generated C09.orderOk_generated.1 isSpace isAlpha hw hnoop gs h
    i c sp (fun c hc => by rcases hsp c hc with rfl | rfl <;> decide)
    (fun c hc => by rcases hsp c hc with rfl | rfl <;> decide)

/-! ## non-vacuity: two graphs with metadata under the default model -/

namespace Examples
open Penman.C03Text.Examples

/-- `(c / gamma :polarity - :mod "x y")` with metadata `::id 2`, `::snt c d` -/
def g2 : Graph :=
  { triples := [T "c" ":instance" (S "gamma"), T "c" ":polarity" (S "-"), T "c" ":mod" (S "\"x y\"")],
    metadata := [("id".toList, "2".toList), ("snt".toList, "c d".toList)] }

/-- `gx` (C03Text: a re-entrancy, two inversions, a number, a string with a blank, stale layout
    markers; metadata `::id 1`, `::snt a b`) satisfies the hypothesis -/
theorem gx_encodable : Encodable Generated.lexCfg isSp Generated.defaultModel gx :=
  ⟨by decide, by decide, by decide, by decide, "d".toList, by decide, by decide, gx_conn _ (by decide)⟩

theorem g2_encodable : Encodable Generated.lexCfg isSp Generated.defaultModel g2 :=
  ⟨by decide, by decide, by decide, by decide, "c".toList, by decide, by decide, by
    intro v hv
    have : g2.variables = ["c".toList] := by decide
    rw [this] at hv; simp only [List.mem_singleton] at hv; subst hv; exact Reach.refl⟩

theorem both_encodable : ∀ g ∈ [gx, g2], Encodable Generated.lexCfg isSp Generated.defaultModel g := by
  intro g hg
  simp only [List.mem_cons, List.mem_nil_iff, or_false] at hg
  rcases hg with rfl | rfl
  · exact gx_encodable
  · exact g2_encodable

/-- all theorems apply to `[gx, g2]`, for every indentation and compactness setting -/
example (i : Indent) (c : Bool) :
    ∃ s sf gs', dumps Generated.defaultModel [gx, g2] i c = .ok s ∧
      loads Generated.lexCfg isSp isAsciiAlpha Generated.defaultModel s = .ok gs' ∧
      dumpFile Generated.defaultModel [gx, g2] i c = .ok sf ∧
      loadFile Generated.lexCfg isSp isAsciiAlpha Generated.defaultModel sf = .ok gs' ∧
      gs'.length = 2 ∧
      ∀ (j : Nat) (hj : j < [gx, g2].length) (hj' : j < gs'.length),
        SameGraph Generated.defaultModel [gx, g2][j] gs'[j] :=
  C09_dumps_loads_generated isSp isAsciiAlpha C13.modelWf_default (by decide) [gx, g2] both_encodable i c

/-- a single newline, a blank, nothing at all between the two texts -/
example (i : Indent) (c : Bool) :
    (∃ s gs', dumpsSep ['\n'] Generated.defaultModel [gx, g2] i c = .ok s ∧
      loads Generated.lexCfg isSp isAsciiAlpha Generated.defaultModel s = .ok gs' ∧ gs'.length = 2) ∧
    (∃ s gs', dumpsSep [' '] Generated.defaultModel [gx, g2] i c = .ok s ∧
      loads Generated.lexCfg isSp isAsciiAlpha Generated.defaultModel s = .ok gs' ∧ gs'.length = 2) ∧
    (∃ s gs', dumpsSep [] Generated.defaultModel [gx, g2] i c = .ok s ∧
      loads Generated.lexCfg isSp isAsciiAlpha Generated.defaultModel s = .ok gs' ∧ gs'.length = 2) := by
  refine ⟨?_, ?_, ?_⟩
  · obtain ⟨s, gs', h1, h2, _, h4, _⟩ := C09_newlines C01.fmt_cfg_wf isSp isAsciiAlpha C13.modelWf_default
      (by decide) [gx, g2] both_encodable i c 0 [] (.inl rfl)
    rw [List.append_nil] at h2
    exact ⟨s, gs', h1, h2, h4⟩
  · obtain ⟨s, gs', h1, h2, h4, _⟩ := C09_inline_generated isSp isAsciiAlpha C13.modelWf_default
      (by decide) [gx, g2] both_encodable i c [' '] (by simp)
    exact ⟨s, gs', h1, h2, h4⟩
  · obtain ⟨s, gs', h1, h2, h4, _⟩ := C09_inline_generated isSp isAsciiAlpha C13.modelWf_default
      (by decide) [gx, g2] both_encodable i c [] (by simp)
    exact ⟨s, gs', h1, h2, h4⟩

/-! ### through the real functions -/

theorem g2_configure : configure Generated.defaultModel g2 none =
    .ok ⟨.mk (some "c".toList) (.atom "/".toList (S "gamma") (.atom ":polarity".toList (S "-")
      (.atom ":mod".toList (S "\"x y\"") .nil))), g2.metadata⟩ :=
  configure_of_store (t := "c".toList) (by decide) rfl (by decide)
    (cells := [("c".toList, [E "/" (.atom (S "gamma")), E ":polarity" (.atom (S "-")),
      E ":mod" (.atom (S "\"x y\""))])]) (by decide +kernel)
    (by simp [buildNode, buildBranches, AList.get?, applyEpis, bind, Except.bind, pure, Except.pure, E, S])

def g2Text : Str := "# ::id 2\n# ::snt c d\n(c / gamma\n   :polarity -\n   :mod \"x y\")".toList

theorem g2_encode : encode Generated.defaultModel g2 none (some (-1)) false = .ok g2Text :=
  encode_of_configure g2_configure (by decide +kernel)

/-- the text `dumps` produces (default options) … -/
theorem dumps_example : dumps Generated.defaultModel [gx, g2] (some (-1)) false =
    .ok (gxText ++ "\n\n".toList ++ g2Text) := by
  simp only [dumps, dumpsSep, encodeAll, mapE, gx_encode, g2_encode, Except.map, joinStr]
  rfl

/-- … what `dump` writes … -/
theorem dumpFile_example : dumpFile Generated.defaultModel [gx, g2] (some (-1)) false =
    .ok (gxText ++ "\n\n".toList ++ g2Text ++ "\n".toList) := by
  simp only [dumpFile, encodeAll, mapE, gx_encode, g2_encode, Except.map, dumpStream_eq, joinStr,
    reduceCtorEq, if_false]
  rfl

/-- … and what they load to: two graphs, in order, each with ITS metadata -/
example :
    (loads Generated.lexCfg isSp isAsciiAlpha Generated.defaultModel
        (gxText ++ "\n\n".toList ++ g2Text)).toOption.map (·.map fun g => (g.top, g.metadata)) =
      some [(some "d".toList, gx.metadata), (some "c".toList, g2.metadata)] := by decide +kernel

/-- through the file: the triples (`0` and `7` are strings, both inverted edges are de-inverted) -/
example :
    (loadFile Generated.lexCfg isSp isAsciiAlpha Generated.defaultModel
        (gxText ++ "\n\n".toList ++ g2Text ++ "\n".toList)).toOption.map (·.map fun g => g.triples) =
      some [[T "d" ":instance" (S "dog"), T "d" ":quant" (S "0"), T "b" ":ARG1" (S "d"),
             T "b" ":ARG0" (S "d"), T "b" ":instance" (S "bark-01"), T "b" ":mod-of" (S "7"),
             T "d" ":name" (S "\"a b\"")], g2.triples] := by decide +kernel

/-- the same texts on one line, nothing between them: the comments of the second graph follow the
    `)` of the first and stay with the second graph -/
example :
    (loads Generated.lexCfg isSp isAsciiAlpha Generated.defaultModel
        (gxText ++ g2Text)).toOption.map (·.map fun g => (g.top, g.metadata)) =
      some [(some "d".toList, gx.metadata), (some "c".toList, g2.metadata)] := by decide +kernel

/-- the hypothesis excludes something: a disconnected graph is not `Encodable` (and `dumps` fails) -/
example : (dumps Generated.defaultModel [gx, gdis] none false).toOption = none := by
  have h : (encode Generated.defaultModel gdis none none false).toOption = none := by decide +kernel
  simp only [dumps, dumpsSep, encodeAll, mapE]
  cases h' : encode Generated.defaultModel gdis none none false with
  | ok s => rw [h'] at h; simp [Except.toOption] at h
  | error e =>
    cases encode Generated.defaultModel gx none none false <;> simp [Except.map, Except.toOption]

end Examples

end Penman.C09g

/-
  Penman.Proofs.FramingParse — the parser on token streams that differ only in what a
  successful parse cannot see (positions, white space swallowed by comments, what
  follows the graph), `iterparse` on concatenated streams (property C09).
-/
import Penman.Proofs.FramingMeta
namespace Penman.Framing
open Penman

/-- tokens that a successful parse cannot tell apart: same type, same text unless a
    COMMENT, same metadata if a COMMENT; positions are ignored -/
def TokSim (isSpace : Char → Bool) (t t' : Tok) : Prop :=
  t.ty = t'.ty ∧ (t.ty ≠ .COMMENT → t.text = t'.text) ∧
  (t.ty = .COMMENT → ∀ md, commentMeta isSpace (t.text.length + 1) t.text md =
      commentMeta isSpace (t'.text.length + 1) t'.text md)

theorem TokSim.refl (isSpace : Char → Bool) (t : Tok) : TokSim isSpace t t :=
  ⟨rfl, fun _ => rfl, fun _ _ => rfl⟩

theorem TokSim.symm {isSpace : Char → Bool} {t t' : Tok} (h : TokSim isSpace t t') :
    TokSim isSpace t' t :=
  ⟨h.1.symm, fun hn => (h.2.1 (by rw [h.1]; exact hn)).symm,
   fun hc md => (h.2.2 (by rw [h.1]; exact hc) md).symm⟩

/-- `ts'` is token-wise similar to `ts`, followed by `rest` -/
inductive LSim (isSpace : Char → Bool) (rest : List Tok) : List Tok → List Tok → Prop
  | nil : LSim isSpace rest [] rest
  | cons {t t' : Tok} {ts ts' : List Tok} : TokSim isSpace t t' → LSim isSpace rest ts ts' →
      LSim isSpace rest (t :: ts) (t' :: ts')

theorem LSim.cons_inv {isSpace : Char → Bool} {rest : List Tok} {t : Tok} {ts ts' : List Tok}
    (h : LSim isSpace rest (t :: ts) ts') :
    ∃ t' ts'', ts' = t' :: ts'' ∧ TokSim isSpace t t' ∧ LSim isSpace rest ts ts'' := by
  cases h with
  | cons h1 h2 => exact ⟨_, _, rfl, h1, h2⟩

theorem LSim.append_refl (isSpace : Char → Bool) (rest : List Tok) :
    ∀ ts, LSim isSpace rest ts (ts ++ rest)
  | [] => .nil
  | t :: ts => .cons (TokSim.refl isSpace t) (LSim.append_refl isSpace rest ts)

theorem takeAln_sim {isSpace : Char → Bool} {rest : List Tok} {c c' : PCtx} {text x : Str}
    {ts r ts' : List Tok} (h : takeAln c text ts = .ok (x, r)) (hs : LSim isSpace rest ts ts') :
    ∃ r', takeAln c' text ts' = .ok (x, r') ∧ LSim isSpace rest r r' := by
  cases ts with
  | nil => simp [takeAln] at h
  | cons t ts0 =>
    obtain ⟨t', ts0', rfl, ht, hs0⟩ := hs.cons_inv
    simp only [takeAln] at h ⊢
    rw [← ht.1]
    split at h
    · rename_i ha
      simp only [Except.ok.injEq, Prod.mk.injEq] at h
      obtain ⟨rfl, rfl⟩ := h
      simp only [ha, ↓reduceIte]
      exact ⟨ts0', by rw [ht.2.1 (by rw [ha]; decide)], hs0⟩
    · rename_i ha
      simp only [Except.ok.injEq, Prod.mk.injEq] at h
      obtain ⟨rfl, rfl⟩ := h
      simp only [ha, ↓reduceIte]
      exact ⟨t' :: ts0', rfl, .cons ht hs0⟩

theorem parse_sim (isSpace : Char → Bool) (c c' : PCtx) (rest : List Tok) : ∀ f,
    (∀ ts n r, parseNode c f ts = .ok (n, r) → ∀ f' ts', f ≤ f' → LSim isSpace rest ts ts' →
      ∃ r', parseNode c' f' ts' = .ok (n, r') ∧ LSim isSpace rest r r') ∧
    (∀ ts b r, parseEdges c f ts = .ok (b, r) → ∀ f' ts', f ≤ f' → LSim isSpace rest ts ts' →
      ∃ r', parseEdges c' f' ts' = .ok (b, r') ∧ LSim isSpace rest r r') := by
  intro f
  induction f with
  | zero =>
    constructor
    · intro ts n r h; simp [parseNode] at h
    · intro ts b r h; simp [parseEdges] at h
  | succ f ih =>
    obtain ⟨ihN, ihE⟩ := ih
    constructor
    · intro ts n r h f' ts' hf hs
      obtain ⟨g, rfl⟩ : ∃ g, f' = g + 1 := ⟨f' - 1, by omega⟩
      have hg : f ≤ g := by omega
      cases ts with
      | nil => simp [parseNode, expectTy, bind, Except.bind] at h
      | cons lp ts1 =>
        obtain ⟨lp', ts1', rfl, hlp, hs1⟩ := hs.cons_inv
        simp only [parseNode, expectTy, bind, Except.bind, pure, Except.pure, throw, throwThe,
          MonadExceptOf.throw] at h ⊢
        by_cases hl : lp.ty = .LPAREN
        · have hl' : lp'.ty = .LPAREN := by rw [← hlp.1]; exact hl
          simp only [hl, hl', ↓reduceIte] at h ⊢
          cases ts1 with
          | nil => simp at h
          | cons t ts2 =>
            obtain ⟨t', ts2', rfl, ht, hs2⟩ := hs1.cons_inv
            simp only at h ⊢
            rw [← ht.1]
            by_cases hr : t.ty = .RPAREN
            · simp only [hr, ↓reduceIte, Except.ok.injEq, Prod.mk.injEq] at h ⊢
              obtain ⟨rfl, rfl⟩ := h
              exact ⟨ts2', ⟨rfl, rfl⟩, hs2⟩
            · simp only [hr, ↓reduceIte] at h ⊢
              by_cases hsy : t.ty = .SYMBOL
              · have htxt : t.text = t'.text := ht.2.1 (by rw [hsy]; decide)
                simp only [hsy, ↓reduceIte] at h ⊢
                cases ts2 with
                | nil => simp at h
                | cons s ts3 =>
                  obtain ⟨s', ts3', rfl, hss, hs3⟩ := hs2.cons_inv
                  simp only at h ⊢
                  rw [← hss.1]
                  by_cases hsl : s.ty = .SLASH
                  · simp only [hsl, ↓reduceIte] at h ⊢
                    cases ts3 with
                    | nil => simp at h
                    | cons k ts4 =>
                      obtain ⟨k', ts4', rfl, hk, hs4⟩ := hs3.cons_inv
                      simp only at h ⊢
                      have hkk : isSymOrStr k' = isSymOrStr k := by
                        simp only [isSymOrStr, hk.1]
                      rw [hkk]
                      by_cases hks : isSymOrStr k = true
                      · have hktxt : k.text = k'.text := hk.2.1 (by
                          intro hc; simp [isSymOrStr, hc] at hks)
                        simp only [hks, ↓reduceIte] at h ⊢
                        cases ha : takeAln c k.text ts4 with
                        | error e => simp [ha] at h
                        | ok v1 =>
                          obtain ⟨x, r1⟩ := v1
                          obtain ⟨r1', ha', hsa⟩ := takeAln_sim (c' := c') ha hs4
                          rw [ha] at h
                          rw [← hktxt, ha']
                          simp only at h ⊢
                          cases he : parseEdges c f r1 with
                          | error e => simp [he] at h
                          | ok v2 =>
                            obtain ⟨b, r2⟩ := v2
                            obtain ⟨r2', he', hse⟩ := ihE r1 b r2 he g r1' hg hsa
                            rw [he] at h
                            rw [he']
                            simp only [Except.ok.injEq, Prod.mk.injEq] at h ⊢
                            obtain ⟨rfl, rfl⟩ := h
                            exact ⟨r2', ⟨by rw [htxt], rfl⟩, hse⟩
                      · simp only [hks, Bool.false_eq_true, ↓reduceIte] at h ⊢
                        cases he : parseEdges c f (k :: ts4) with
                        | error e => simp [he] at h
                        | ok v2 =>
                          obtain ⟨b, r2⟩ := v2
                          obtain ⟨r2', he', hse⟩ := ihE _ b r2 he g (k' :: ts4') hg (.cons hk hs4)
                          rw [he] at h
                          rw [he']
                          simp only [Except.ok.injEq, Prod.mk.injEq] at h ⊢
                          obtain ⟨rfl, rfl⟩ := h
                          exact ⟨r2', ⟨by rw [htxt], rfl⟩, hse⟩
                  · simp only [hsl, ↓reduceIte] at h ⊢
                    cases he : parseEdges c f (s :: ts3) with
                    | error e => simp [he] at h
                    | ok v2 =>
                      obtain ⟨b, r2⟩ := v2
                      obtain ⟨r2', he', hse⟩ := ihE _ b r2 he g (s' :: ts3') hg (.cons hss hs3)
                      rw [he] at h
                      rw [he']
                      simp only [Except.ok.injEq, Prod.mk.injEq] at h ⊢
                      obtain ⟨rfl, rfl⟩ := h
                      exact ⟨r2', ⟨by rw [htxt], rfl⟩, hse⟩
              · simp [hsy] at h
        · simp [hl] at h
    · intro ts b r h f' ts' hf hs
      obtain ⟨g, rfl⟩ : ∃ g, f' = g + 1 := ⟨f' - 1, by omega⟩
      have hg : f ≤ g := by omega
      cases ts with
      | nil => simp [parseEdges] at h
      | cons t ts1 =>
        obtain ⟨t', ts1', rfl, ht, hs1⟩ := hs.cons_inv
        simp only [parseEdges, bind, Except.bind, pure, Except.pure, throw, throwThe,
          MonadExceptOf.throw] at h ⊢
        rw [← ht.1]
        by_cases hr : t.ty = .RPAREN
        · simp only [hr, ↓reduceIte, Except.ok.injEq, Prod.mk.injEq] at h ⊢
          obtain ⟨rfl, rfl⟩ := h
          exact ⟨ts1', ⟨rfl, rfl⟩, hs1⟩
        · simp only [hr, ↓reduceIte] at h ⊢
          by_cases hro : t.ty = .ROLE
          · have htxt : t.text = t'.text := ht.2.1 (by rw [hro]; decide)
            simp only [hro, ne_eq, not_true_eq_false, ↓reduceIte] at h ⊢
            cases ha : takeAln c t.text ts1 with
            | error e => simp [ha] at h
            | ok v1 =>
              obtain ⟨role, r1⟩ := v1
              obtain ⟨r1', ha', hsa⟩ := takeAln_sim (c' := c') ha hs1
              rw [ha] at h
              rw [← htxt, ha']
              simp only at h ⊢
              cases r1 with
              | nil => simp at h
              | cons n ts2 =>
                obtain ⟨n', ts2', rfl, hn, hs2⟩ := hsa.cons_inv
                simp only at h ⊢
                have hnn : isSymOrStr n' = isSymOrStr n := by simp only [isSymOrStr, hn.1]
                rw [hnn, ← hn.1]
                by_cases hns : isSymOrStr n = true
                · have hntxt : n.text = n'.text := hn.2.1 (by
                    intro hc; simp [isSymOrStr, hc] at hns)
                  simp only [hns, ↓reduceIte] at h ⊢
                  cases hb : takeAln c n.text ts2 with
                  | error e => simp [hb] at h
                  | ok v2 =>
                    obtain ⟨target, r2⟩ := v2
                    obtain ⟨r2', hb', hsb⟩ := takeAln_sim (c' := c') hb hs2
                    rw [hb] at h
                    rw [← hntxt, hb']
                    simp only at h ⊢
                    cases he : parseEdges c f r2 with
                    | error e => simp [he] at h
                    | ok v3 =>
                      obtain ⟨bs, r3⟩ := v3
                      obtain ⟨r3', he', hse⟩ := ihE r2 bs r3 he g r2' hg hsb
                      rw [he] at h
                      rw [he']
                      simp only [Except.ok.injEq, Prod.mk.injEq] at h ⊢
                      obtain ⟨rfl, rfl⟩ := h
                      exact ⟨r3', ⟨rfl, rfl⟩, hse⟩
                · simp only [hns, Bool.false_eq_true, ↓reduceIte] at h ⊢
                  by_cases hnl : n.ty = .LPAREN
                  · simp only [hnl, ↓reduceIte] at h ⊢
                    cases hb : parseNode c f (n :: ts2) with
                    | error e => simp [hb] at h
                    | ok v2 =>
                      obtain ⟨node, r2⟩ := v2
                      obtain ⟨r2', hb', hsb⟩ := ihN _ node r2 hb g (n' :: ts2') hg (.cons hn hs2)
                      rw [hb] at h
                      rw [hb']
                      simp only at h ⊢
                      cases he : parseEdges c f r2 with
                      | error e => simp [he] at h
                      | ok v3 =>
                        obtain ⟨bs, r3⟩ := v3
                        obtain ⟨r3', he', hse⟩ := ihE r2 bs r3 he g r2' hg hsb
                        rw [he] at h
                        rw [he']
                        simp only [Except.ok.injEq, Prod.mk.injEq] at h ⊢
                        obtain ⟨rfl, rfl⟩ := h
                        exact ⟨r3', ⟨rfl, rfl⟩, hse⟩
                  · simp only [hnl, ↓reduceIte] at h ⊢
                    by_cases hnr : n.ty = .ROLE ∨ n.ty = .RPAREN
                    · simp only [hnr, ↓reduceIte] at h ⊢
                      cases he : parseEdges c f (n :: ts2) with
                      | error e => simp [he] at h
                      | ok v3 =>
                        obtain ⟨bs, r3⟩ := v3
                        obtain ⟨r3', he', hse⟩ := ihE _ bs r3 he g (n' :: ts2') hg (.cons hn hs2)
                        rw [he] at h
                        rw [he']
                        simp only [Except.ok.injEq, Prod.mk.injEq] at h ⊢
                        obtain ⟨rfl, rfl⟩ := h
                        exact ⟨r3', ⟨rfl, rfl⟩, hse⟩
                    · simp [hnr] at h
          · simp [hro] at h

/-! ### a successful parse consumes tokens -/

theorem takeAln_length {c : PCtx} {text x : Str} {ts r : List Tok}
    (h : takeAln c text ts = .ok (x, r)) : r.length ≤ ts.length := by
  cases ts with
  | nil => simp [takeAln] at h
  | cons t ts0 =>
    simp only [takeAln] at h
    split at h <;> simp only [Except.ok.injEq, Prod.mk.injEq] at h <;> obtain ⟨_, rfl⟩ := h <;> simp

theorem parse_consumes (c : PCtx) : ∀ f,
    (∀ ts n r, parseNode c f ts = .ok (n, r) → r.length < ts.length) ∧
    (∀ ts b r, parseEdges c f ts = .ok (b, r) → r.length < ts.length) := by
  intro f
  induction f with
  | zero =>
    constructor
    · intro ts n r h; simp [parseNode] at h
    · intro ts b r h; simp [parseEdges] at h
  | succ f ih =>
    obtain ⟨ihN, ihE⟩ := ih
    constructor
    · intro ts n r h
      cases ts with
      | nil => simp [parseNode, expectTy, bind, Except.bind] at h
      | cons lp ts1 =>
        simp only [parseNode, expectTy, bind, Except.bind, pure, Except.pure, throw, throwThe,
          MonadExceptOf.throw] at h
        by_cases hl : lp.ty = .LPAREN
        · simp only [hl, ↓reduceIte] at h
          cases ts1 with
          | nil => simp at h
          | cons t ts2 =>
            simp only at h
            by_cases hr : t.ty = .RPAREN
            · simp only [hr, ↓reduceIte, Except.ok.injEq, Prod.mk.injEq] at h
              obtain ⟨rfl, rfl⟩ := h
              simp; omega
            · simp only [hr, ↓reduceIte] at h
              by_cases hsy : t.ty = .SYMBOL
              · simp only [hsy, ↓reduceIte] at h
                cases ts2 with
                | nil => simp at h
                | cons s ts3 =>
                  simp only at h
                  by_cases hsl : s.ty = .SLASH
                  · simp only [hsl, ↓reduceIte] at h
                    cases ts3 with
                    | nil => simp at h
                    | cons k ts4 =>
                      simp only at h
                      by_cases hks : isSymOrStr k = true
                      · simp only [hks, ↓reduceIte] at h
                        cases ha : takeAln c k.text ts4 with
                        | error e => simp [ha] at h
                        | ok v1 =>
                          obtain ⟨x, r1⟩ := v1
                          have l1 := takeAln_length ha
                          rw [ha] at h
                          simp only at h
                          cases he : parseEdges c f r1 with
                          | error e => simp [he] at h
                          | ok v2 =>
                            obtain ⟨b, r2⟩ := v2
                            have l2 := ihE r1 b r2 he
                            rw [he] at h
                            simp only [Except.ok.injEq, Prod.mk.injEq] at h
                            obtain ⟨rfl, rfl⟩ := h
                            simp only [List.length_cons]; omega
                      · simp only [hks, Bool.false_eq_true, ↓reduceIte] at h
                        cases he : parseEdges c f (k :: ts4) with
                        | error e => simp [he] at h
                        | ok v2 =>
                          obtain ⟨b, r2⟩ := v2
                          have l2 := ihE _ b r2 he
                          rw [he] at h
                          simp only [Except.ok.injEq, Prod.mk.injEq] at h
                          obtain ⟨rfl, rfl⟩ := h
                          simp only [List.length_cons] at l2 ⊢; omega
                  · simp only [hsl, ↓reduceIte] at h
                    cases he : parseEdges c f (s :: ts3) with
                    | error e => simp [he] at h
                    | ok v2 =>
                      obtain ⟨b, r2⟩ := v2
                      have l2 := ihE _ b r2 he
                      rw [he] at h
                      simp only [Except.ok.injEq, Prod.mk.injEq] at h
                      obtain ⟨rfl, rfl⟩ := h
                      simp only [List.length_cons] at l2 ⊢; omega
              · simp [hsy] at h
        · simp [hl] at h
    · intro ts b r h
      cases ts with
      | nil => simp [parseEdges] at h
      | cons t ts1 =>
        simp only [parseEdges, bind, Except.bind, pure, Except.pure, throw, throwThe,
          MonadExceptOf.throw] at h
        by_cases hr : t.ty = .RPAREN
        · simp only [hr, ↓reduceIte, Except.ok.injEq, Prod.mk.injEq] at h
          obtain ⟨rfl, rfl⟩ := h
          simp
        · simp only [hr, ↓reduceIte] at h
          by_cases hro : t.ty = .ROLE
          · simp only [hro, ne_eq, not_true_eq_false, ↓reduceIte] at h
            cases ha : takeAln c t.text ts1 with
            | error e => simp [ha] at h
            | ok v1 =>
              obtain ⟨role, r1⟩ := v1
              have l1 := takeAln_length ha
              rw [ha] at h
              simp only at h
              cases r1 with
              | nil => simp at h
              | cons n ts2 =>
                simp only at h
                by_cases hns : isSymOrStr n = true
                · simp only [hns, ↓reduceIte] at h
                  cases hb : takeAln c n.text ts2 with
                  | error e => simp [hb] at h
                  | ok v2 =>
                    obtain ⟨target, r2⟩ := v2
                    have l2 := takeAln_length hb
                    rw [hb] at h
                    simp only at h
                    cases he : parseEdges c f r2 with
                    | error e => simp [he] at h
                    | ok v3 =>
                      obtain ⟨bs, r3⟩ := v3
                      have l3 := ihE r2 bs r3 he
                      rw [he] at h
                      simp only [Except.ok.injEq, Prod.mk.injEq] at h
                      obtain ⟨rfl, rfl⟩ := h
                      simp only [List.length_cons] at l1 ⊢; omega
                · simp only [hns, Bool.false_eq_true, ↓reduceIte] at h
                  by_cases hnl : n.ty = .LPAREN
                  · simp only [hnl, ↓reduceIte] at h
                    cases hb : parseNode c f (n :: ts2) with
                    | error e => simp [hb] at h
                    | ok v2 =>
                      obtain ⟨node, r2⟩ := v2
                      have l2 := ihN _ node r2 hb
                      rw [hb] at h
                      simp only at h
                      cases he : parseEdges c f r2 with
                      | error e => simp [he] at h
                      | ok v3 =>
                        obtain ⟨bs, r3⟩ := v3
                        have l3 := ihE r2 bs r3 he
                        rw [he] at h
                        simp only [Except.ok.injEq, Prod.mk.injEq] at h
                        obtain ⟨rfl, rfl⟩ := h
                        simp only [List.length_cons] at l1 l2 ⊢; omega
                  · simp only [hnl, ↓reduceIte] at h
                    by_cases hnr : n.ty = .ROLE ∨ n.ty = .RPAREN
                    · simp only [hnr, ↓reduceIte] at h
                      cases he : parseEdges c f (n :: ts2) with
                      | error e => simp [he] at h
                      | ok v3 =>
                        obtain ⟨bs, r3⟩ := v3
                        have l3 := ihE _ bs r3 he
                        rw [he] at h
                        simp only [Except.ok.injEq, Prod.mk.injEq] at h
                        obtain ⟨rfl, rfl⟩ := h
                        simp only [List.length_cons] at l1 l3 ⊢; omega
                    · simp [hnr] at h
          · simp [hro] at h

/-! ### comments, trees -/

theorem LSim.length {isSpace : Char → Bool} {rest ts ts' : List Tok} (h : LSim isSpace rest ts ts') :
    ts'.length = ts.length + rest.length := by
  induction h with
  | nil => simp
  | cons _ _ ih => simp only [List.length_cons, ih]; omega

theorem parseComments_sim {isSpace : Char → Bool} {rest : List Tok} {c c' : PCtx} :
    ∀ {ts ts' r : List Tok} {md md' : AList Str Str},
      parseComments c isSpace ts md = .ok (md', r) → LSim isSpace rest ts ts' →
      ∃ r', parseComments c' isSpace ts' md = .ok (md', r') ∧ LSim isSpace rest r r' ∧
        r.length ≤ ts.length := by
  intro ts
  induction ts with
  | nil => intro ts' r md md' h; simp [parseComments] at h
  | cons t ts0 ih =>
    intro ts' r md md' h hs
    obtain ⟨t', ts0', rfl, ht, hs0⟩ := hs.cons_inv
    simp only [parseComments] at h ⊢
    rw [← ht.1]
    by_cases hc : t.ty = .COMMENT
    · simp only [hc, ↓reduceIte] at h ⊢
      rw [← ht.2.2 hc md]
      obtain ⟨r', h1, h2, h3⟩ := ih h hs0
      exact ⟨r', h1, h2, by simp only [List.length_cons]; omega⟩
    · simp only [hc, ↓reduceIte, Except.ok.injEq, Prod.mk.injEq] at h ⊢
      obtain ⟨rfl, rfl⟩ := h
      exact ⟨t' :: ts0', ⟨rfl, rfl⟩, .cons ht hs0, Nat.le_refl _⟩

/-- a successful `_parse` gives the same tree on every similar token stream, whatever follows -/
theorem parseTree_sim {isSpace : Char → Bool} {rest : List Tok} {c c' : PCtx}
    {ts ts' r : List Tok} {T : Tree}
    (h : parseTree c isSpace ts = .ok (T, r)) (hs : LSim isSpace rest ts ts') :
    ∃ r', parseTree c' isSpace ts' = .ok (T, r') ∧ LSim isSpace rest r r' ∧
      r.length < ts.length := by
  simp only [parseTree, bind, Except.bind, pure, Except.pure] at h ⊢
  cases hc : parseComments c isSpace ts [] with
  | error e => simp [hc] at h
  | ok v =>
    obtain ⟨md, ts1⟩ := v
    obtain ⟨ts1', hc', hs1, hl1⟩ := parseComments_sim (c' := c') hc hs
    rw [hc] at h
    rw [hc']
    simp only at h ⊢
    cases hn : parseNode c (ts1.length + 1) ts1 with
    | error e => simp [hn] at h
    | ok v2 =>
      obtain ⟨node, r2⟩ := v2
      have hlen := hs1.length
      obtain ⟨r2', hn', hs2⟩ := (parse_sim isSpace c c' rest _).1 ts1 node r2 hn
        (ts1'.length + 1) ts1' (by omega) hs1
      have hl2 := (parse_consumes c _).1 ts1 node r2 hn
      rw [hn] at h
      rw [hn']
      simp only [Except.ok.injEq, Prod.mk.injEq] at h ⊢
      obtain ⟨rfl, rfl⟩ := h
      exact ⟨r2', ⟨rfl, rfl⟩, hs2, by omega⟩

/-! ### `iterparse` -/

theorem LSim.symm_nil {isSpace : Char → Bool} {ts ts' : List Tok} (h : LSim isSpace [] ts ts') :
    LSim isSpace [] ts' ts := by
  induction h with
  | nil => exact .nil
  | cons h1 _ ih => exact .cons h1.symm ih

theorem LSim.nil_inv {isSpace : Char → Bool} {rest ts' : List Tok} (h : LSim isSpace rest [] ts') :
    ts' = rest := by
  cases h; rfl

theorem LSim.refl_nil (isSpace : Char → Bool) (ts : List Tok) : LSim isSpace [] ts ts := by
  simpa using LSim.append_refl isSpace [] ts

theorem LSim.append {isSpace : Char → Bool} {a a' b b' : List Tok} (h : LSim isSpace [] a a')
    (h' : LSim isSpace [] b b') : LSim isSpace [] (a ++ b) (a' ++ b') := by
  induction h with
  | nil => simpa using h'
  | cons h1 _ ih => exact .cons h1 ih

/-- similar token streams give the same trees, and an error in one iff in the other -/
theorem iterparseLoop_sim (isSpace : Char → Bool) (c c' : PCtx) : ∀ (f : Nat) (ts ts' : List Tok)
    (acc : List Tree) (f' : Nat), LSim isSpace [] ts ts' → ts.length < f → ts'.length < f' →
    (iterparseLoop c isSpace f ts acc).1 = (iterparseLoop c' isSpace f' ts' acc).1 ∧
    (iterparseLoop c isSpace f ts acc).2.isSome = (iterparseLoop c' isSpace f' ts' acc).2.isSome := by
  intro f
  induction f with
  | zero => intro ts ts' acc f' _ h; omega
  | succ f ih =>
    intro ts ts' acc f' hs hl hl'
    obtain ⟨g, rfl⟩ : ∃ g, f' = g + 1 := ⟨f' - 1, by omega⟩
    cases ts with
    | nil =>
      have := hs.nil_inv
      subst this
      simp [iterparseLoop]
    | cons t ts0 =>
      obtain ⟨t', ts0', rfl, ht, hs0⟩ := hs.cons_inv
      simp only [iterparseLoop]
      rw [← ht.1]
      by_cases hc : t.ty = .COMMENT ∨ t.ty = .LPAREN
      · simp only [hc, ↓reduceIte]
        cases hp : parseTree c isSpace (t :: ts0) with
        | ok v =>
          obtain ⟨T, r⟩ := v
          obtain ⟨r', hp', hsr, hlr⟩ := parseTree_sim (c' := c') hp hs
          rw [hp']
          simp only
          have e1 := hsr.length
          have e2 := hs.length
          simp only [List.length_nil, Nat.add_zero] at e1 e2
          exact ih r r' (T :: acc) g hsr (by omega) (by omega)
        | error e =>
          cases hp' : parseTree c' isSpace (t' :: ts0') with
          | ok v =>
            obtain ⟨T, r'⟩ := v
            obtain ⟨r, hp2, _, _⟩ := parseTree_sim (c' := c) hp' hs.symm_nil
            rw [hp] at hp2
            cases hp2
          | error e' => simp
      · simp [hc]

theorem iterparseToks_sim (isSpace : Char → Bool) (ts ts' : List Tok) (hs : LSim isSpace [] ts ts') :
    (iterparseToks isSpace ts).1 = (iterparseToks isSpace ts').1 ∧
    (iterparseToks isSpace ts).2.isSome = (iterparseToks isSpace ts').2.isSome :=
  iterparseLoop_sim isSpace _ _ _ ts ts' [] _ hs (by omega) (by omega)

theorem parseTree_ok_head {isSpace : Char → Bool} {c : PCtx} {ts r : List Tok} {T : Tree}
    (h : parseTree c isSpace ts = .ok (T, r)) :
    ∃ t ts0, ts = t :: ts0 ∧ (t.ty = .COMMENT ∨ t.ty = .LPAREN) := by
  cases ts with
  | nil => simp [parseTree, parseComments, bind, Except.bind] at h
  | cons t ts0 =>
    refine ⟨t, ts0, rfl, ?_⟩
    by_cases hc : t.ty = .COMMENT
    · exact Or.inl hc
    · right
      simp only [parseTree, parseComments, hc, ↓reduceIte, bind, Except.bind, parseNode, expectTy] at h
      by_cases hl : t.ty = .LPAREN
      · exact hl
      · simp [hl] at h

/-- the frame property: a token list that parses completely parses the same way, leaving
    exactly `rest`, whatever `rest` is (and whatever the error context) -/
theorem parseTree_frame {isSpace : Char → Bool} {c : PCtx} {ts : List Tok} {T : Tree}
    (h : parseTree c isSpace ts = .ok (T, [])) (c' : PCtx) (rest : List Tok) :
    parseTree c' isSpace (ts ++ rest) = .ok (T, rest) := by
  obtain ⟨r', h', hs, _⟩ := parseTree_sim (c' := c') h (LSim.append_refl isSpace rest ts)
  rw [hs.nil_inv] at h'
  exact h'

theorem iterparseLoop_concat (isSpace : Char → Bool) (c : PCtx) :
    ∀ (gs : List (List Tok × Tree)), (∀ p ∈ gs, ∃ c0, parseTree c0 isSpace p.1 = .ok (p.2, [])) →
    ∀ (f : Nat) (acc : List Tree), (gs.map (·.1)).flatten.length < f →
    iterparseLoop c isSpace f (gs.map (·.1)).flatten acc = (acc.reverse ++ gs.map (·.2), none) := by
  intro gs
  induction gs with
  | nil =>
    intro _ f acc hf
    obtain ⟨g, rfl⟩ : ∃ g, f = g + 1 := ⟨f - 1, by omega⟩
    simp [iterparseLoop]
  | cons p gs ih =>
    intro h f acc hf
    obtain ⟨g, rfl⟩ : ∃ g, f = g + 1 := ⟨f - 1, by omega⟩
    obtain ⟨c0, hp⟩ := h p (by simp)
    obtain ⟨t, ts0, hts, hty⟩ := parseTree_ok_head hp
    have hfr := parseTree_frame hp c (gs.map (·.1)).flatten
    simp only [List.map_cons, List.flatten_cons] at hf ⊢
    rw [hts] at hfr hf ⊢
    simp only [List.cons_append] at hfr hf ⊢
    simp only [iterparseLoop, hty, ↓reduceIte, hfr]
    rw [ih (fun q hq => h q (by simp [hq])) g (p.2 :: acc) (by
      simp only [List.length_cons, List.length_append] at hf; omega)]
    simp

/-- `iterparse` on a concatenation of complete graphs yields exactly their trees, in order,
    without error; every block of metadata comments stays with the graph that follows it -/
theorem iterparseToks_concat (isSpace : Char → Bool) (gs : List (List Tok × Tree))
    (h : ∀ p ∈ gs, ∃ c0, parseTree c0 isSpace p.1 = .ok (p.2, [])) :
    iterparseToks isSpace (gs.map (·.1)).flatten = (gs.map (·.2), none) := by
  have := iterparseLoop_concat isSpace ⟨eofPos (gs.map (·.1)).flatten⟩ gs h
    ((gs.map (·.1)).flatten.length + 1) [] (by omega)
  simpa [iterparseToks] using this

/-! ### recorded behaviour O8: comments after the last graph -/

theorem parseComments_all (isSpace : Char → Bool) (c : PCtx) : ∀ (cs : List Tok) (md : AList Str Str),
    (∀ t ∈ cs, t.ty = .COMMENT) → parseComments c isSpace cs md = .error c.eofErr := by
  intro cs
  induction cs with
  | nil => intro md _; rfl
  | cons t ts ih =>
    intro md h
    simp only [parseComments, h t (by simp), ↓reduceIte]
    exact ih _ (fun x hx => h x (by simp [hx]))

theorem iterparseLoop_concat_tail (isSpace : Char → Bool) (c : PCtx) (tail : List Tok) :
    ∀ (gs : List (List Tok × Tree)), (∀ p ∈ gs, ∃ c0, parseTree c0 isSpace p.1 = .ok (p.2, [])) →
    ∀ (f : Nat) (acc : List Tree), ((gs.map (·.1)).flatten ++ tail).length < f →
    ∃ f', tail.length < f' ∧
      iterparseLoop c isSpace f ((gs.map (·.1)).flatten ++ tail) acc =
        iterparseLoop c isSpace f' tail ((gs.map (·.2)).reverse ++ acc) := by
  intro gs
  induction gs with
  | nil => intro _ f acc hf; exact ⟨f, by simpa using hf, by simp⟩
  | cons p gs ih =>
    intro h f acc hf
    obtain ⟨g, rfl⟩ : ∃ g, f = g + 1 := ⟨f - 1, by omega⟩
    obtain ⟨c0, hp⟩ := h p (by simp)
    obtain ⟨t, ts0, hts, hty⟩ := parseTree_ok_head hp
    have hfr := parseTree_frame hp c ((gs.map (·.1)).flatten ++ tail)
    simp only [List.map_cons, List.flatten_cons, List.append_assoc] at hf ⊢
    rw [hts] at hfr hf ⊢
    simp only [List.cons_append] at hfr hf ⊢
    simp only [iterparseLoop, hty, ↓reduceIte, hfr]
    obtain ⟨f', hf', e⟩ := ih (fun q hq => h q (by simp [hq])) g (p.2 :: acc) (by
      simp only [List.length_cons, List.length_append] at hf ⊢; omega)
    exact ⟨f', hf', by rw [e]; simp⟩

/-- O8: COMMENT tokens after the last graph are not dropped: `iterparse` yields all the
    graphs and then raises a decode error positioned at the end of the input -/
theorem iterparseToks_trailing_comments (isSpace : Char → Bool) (gs : List (List Tok × Tree))
    (h : ∀ p ∈ gs, ∃ c0, parseTree c0 isSpace p.1 = .ok (p.2, []))
    (cs : List Tok) (hne : cs ≠ []) (hcs : ∀ t ∈ cs, t.ty = .COMMENT) :
    iterparseToks isSpace ((gs.map (·.1)).flatten ++ cs) =
      (gs.map (·.2), some (PCtx.eofErr ⟨eofPos ((gs.map (·.1)).flatten ++ cs)⟩)) := by
  unfold iterparseToks
  obtain ⟨f', hf', e⟩ := iterparseLoop_concat_tail isSpace
    ⟨eofPos ((gs.map (·.1)).flatten ++ cs)⟩ cs gs h
    (((gs.map (·.1)).flatten ++ cs).length + 1) [] (by omega)
  rw [e]
  obtain ⟨g, rfl⟩ : ∃ g, f' = g + 1 := ⟨f' - 1, by omega⟩
  cases cs with
  | nil => exact absurd rfl hne
  | cons t ts =>
    have ht := hcs t (by simp)
    simp only [iterparseLoop, ht, true_or, ↓reduceIte, parseTree, bind, Except.bind]
    rw [parseComments_all isSpace _ (t :: ts) [] hcs]
    simp

end Penman.Framing

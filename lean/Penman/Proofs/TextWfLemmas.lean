/-
  The Boolean well-formedness predicates of `Spec/TextWf.lean` versus the lexical grammar
  of `Spec/LexSpec.lean`, and: a tree is `WfTreeText` iff it is the abstract tree of a
  well-formed concrete syntax tree all of whose token texts are good (`TokGood`).
-/
import Penman.Proofs.FormatLex

set_option linter.unusedSimpArgs false
namespace Penman.FL
open Penman Penman.Spec Penman.Lex

variable {cfg : LexCfg}

/-! ### Boolean predicates vs. grammar -/

theorem noBreakB_iff (s : Str) : noBreakB s = true ↔ NoBreak s := by
  simp [noBreakB, NoBreak]

theorem symbolB_iff (s : Str) :
    symbolB cfg s = true ↔ IsSymbol cfg s ∧ s.head? ≠ some '#' ∧ NoBreak s := by
  simp only [symbolB, Bool.and_eq_true, noBreakB_iff, IsSymbol, Bool.not_eq_true', List.isEmpty_eq_false_iff,
    List.all_eq_true, List.contains_eq_mem, decide_eq_false_iff_not, bne_iff_ne, ne_eq]
  constructor
  · rintro ⟨⟨⟨h1, h2⟩, h3⟩, h4⟩; exact ⟨⟨h1, h2⟩, h3, h4⟩
  · rintro ⟨⟨h1, h2⟩, h3, h4⟩; exact ⟨⟨⟨h1, h2⟩, h3⟩, h4⟩

theorem noBreak_cons {c : Char} {s : Str} (h1 : c ≠ '\n') (h2 : c ≠ '\r') : NoBreak (c :: s) ↔ NoBreak s := by
  simp [NoBreak, h1.symm, h2.symm]

theorem roleB_iff (s : Str) : roleB cfg s = true ↔ IsRole cfg s ∧ NoBreak s := by
  unfold roleB
  split
  · rename_i b
    simp only [Bool.and_eq_true, noBreakB_iff, IsRole, List.all_eq_true, Bool.not_eq_true',
      List.contains_eq_mem, decide_eq_false_iff_not, noBreak_cons (show ':' ≠ '\n' by decide) (show ':' ≠ '\r' by decide)]
    constructor
    · rintro ⟨h1, h2⟩; exact ⟨⟨b, rfl, h1⟩, h2⟩
    · rintro ⟨⟨b', hb, h1⟩, h2⟩; cases hb; exact ⟨h1, h2⟩
  · rename_i hne
    constructor
    · intro h; cases h
    · rintro ⟨⟨b, rfl, -⟩, -⟩; exact absurd rfl (hne b)

theorem stringB_iff (hwf : CfgWfP cfg) (s : Str) : stringB cfg s = true ↔ IsString cfg s ∧ NoBreak s := by
  simp only [stringB, Bool.and_eq_true, noBreakB_iff, beq_iff_eq]
  constructor
  · rintro ⟨h1, h2⟩; exact ⟨(scanString_sound h1).2.1, h2⟩
  · rintro ⟨h1, h2⟩
    exact ⟨scanString_complete hwf.quote_str hwf.bslash_str ⟨List.prefix_refl _, h1, by simp⟩, h2⟩

theorem alignmentB_iff (hwf : CfgWfP cfg) (s : Str) :
    alignmentB cfg s = true ↔ IsAlignment cfg s ∧ NoBreak s := by
  simp only [alignmentB, Bool.and_eq_true, noBreakB_iff, beq_iff_eq]
  constructor
  · rintro ⟨h1, h2⟩; exact ⟨(scanAlignment_sound h1).2.1, h2⟩
  · rintro ⟨h1, h2⟩
    have := scanAlignment_exact hwf h1 (rest := []) (by intro c hc; simp at hc)
    exact ⟨by simpa using this, h2⟩

theorem alignedB_iff (p : Str → Bool) (s : Str) :
    alignedB cfg p s = true ↔
      ∃ m a, s = m ++ a ∧ p m = true ∧ (a = [] ∨ alignmentB cfg a = true) := by
  simp only [alignedB, List.any_eq_true, List.mem_range, Bool.and_eq_true, Bool.or_eq_true,
    List.isEmpty_iff]
  constructor
  · rintro ⟨i, -, h1, h2⟩
    exact ⟨s.take i, s.drop i, (List.take_append_drop i s).symm, h1, h2⟩
  · rintro ⟨m, a, rfl, h1, h2⟩
    exact ⟨m.length, by simp; omega, by simpa using h1, by simpa using h2⟩

/-! ### texts ↔ `TText` -/

def GoodToks (cfg : LexCfg) (ts : List Tok) : Prop := ∀ t ∈ ts, TokGood cfg t

theorem goodToks_append {a b : List Tok} : GoodToks cfg (a ++ b) ↔ GoodToks cfg a ∧ GoodToks cfg b := by
  simp only [GoodToks, List.mem_append]
  exact ⟨fun h => ⟨fun t ht => h t (.inl ht), fun t ht => h t (.inr ht)⟩,
    fun h t ht => ht.elim (h.1 t) (h.2 t)⟩

theorem goodToks_cons {a : Tok} {b : List Tok} : GoodToks cfg (a :: b) ↔ TokGood cfg a ∧ GoodToks cfg b := by
  simp [GoodToks]

theorem goodToks_nil : GoodToks cfg [] := by simp [GoodToks]

theorem aln_tok (hwf : CfgWfP cfg) {a : Str} (h : a = [] ∨ alignmentB cfg a = true) :
    ∃ o : Option Tok, (∀ t, o = some t → t.ty = .ALIGNMENT) ∧ (∀ t, o = some t → TokGood cfg t) ∧ alnText o = a := by
  by_cases ha : a = []
  · exact ⟨none, by simp, by simp, by simp [alnText, ha]⟩
  · have h := (alignmentB_iff hwf a).1 (h.resolve_left ha)
    exact ⟨some ⟨.ALIGNMENT, a, 0, 0⟩, by rintro t ⟨⟩; rfl,
      by rintro t ⟨⟩; exact ⟨h.1, h.2, by simp⟩, rfl⟩

theorem mk_ttext (tok : Tok) (o : Option Tok) (h1 : ∀ t, o = some t → t.ty = .ALIGNMENT)
    (h2 : ∀ t, o = some t → TokGood cfg t) (hg : TokGood cfg tok) :
    (TText.mk tok o).wfAln = true ∧ (TText.mk tok o).text = tok.text ++ alnText o ∧
      GoodToks cfg (TText.mk tok o).toks := by
  cases o with
  | none => exact ⟨rfl, by simp [TText.text, alnText], by simp [TText.toks, GoodToks, hg]⟩
  | some a =>
    exact ⟨by simp [TText.wfAln, h1 a rfl], by simp [TText.text, alnText],
      by simp [TText.toks, GoodToks, hg, h2 a rfl]⟩

theorem role_ttext (hwf : CfgWfP cfg) {s : Str} (h : roleTextB cfg s = true) :
    ∃ x : TText, x.tok.ty = .ROLE ∧ x.wfAln = true ∧ x.text = s ∧ GoodToks cfg x.toks := by
  obtain ⟨m, a, rfl, hm, ha⟩ := (alignedB_iff _ _).1 h
  obtain ⟨o, h1, h2, rfl⟩ := aln_tok hwf ha
  have hm := (roleB_iff m).1 hm
  obtain ⟨e1, e2, e3⟩ := mk_ttext ⟨.ROLE, m, 0, 0⟩ o h1 h2 ⟨hm.1, hm.2, by simp⟩
  exact ⟨_, rfl, e1, e2, e3⟩

theorem atom_ttext (hwf : CfgWfP cfg) {s : Str} (h : atomTextB cfg s = true) :
    ∃ x : TText, isSymOrStr x.tok = true ∧ x.wfAln = true ∧ x.text = s ∧ GoodToks cfg x.toks := by
  obtain ⟨m, a, rfl, hm, ha⟩ := (alignedB_iff _ _).1 h
  obtain ⟨o, h1, h2, rfl⟩ := aln_tok hwf ha
  simp only [Bool.or_eq_true] at hm
  rcases hm with hm | hm
  · have hm := (symbolB_iff m).1 hm
    obtain ⟨e1, e2, e3⟩ := mk_ttext ⟨.SYMBOL, m, 0, 0⟩ o h1 h2 ⟨hm.1, hm.2.2, fun _ => hm.2.1⟩
    exact ⟨_, rfl, e1, e2, e3⟩
  · have hm := (stringB_iff hwf m).1 hm
    obtain ⟨e1, e2, e3⟩ := mk_ttext ⟨.STRING, m, 0, 0⟩ o h1 h2 ⟨hm.1, hm.2, by simp⟩
    exact ⟨_, rfl, e1, e2, e3⟩

theorem aln_of_ttext (hwf : CfgWfP cfg) (x : TText) (ha : x.wfAln = true) (hg : GoodToks cfg x.toks) :
    alnText x.aln = [] ∨ alignmentB cfg (alnText x.aln) = true := by
  obtain ⟨-, h1, h2⟩ := ttParts x ha hg
  cases h : x.aln with
  | none => exact .inl rfl
  | some a =>
    have hg := h2 a h
    have := hg.1; rw [h1 a h] at this
    exact .inr ((alignmentB_iff hwf _).2 ⟨this, hg.2.1⟩)

theorem ttext_role (hwf : CfgWfP cfg) (x : TText) (hty : x.tok.ty = .ROLE) (ha : x.wfAln = true)
    (hg : GoodToks cfg x.toks) : roleTextB cfg x.text = true := by
  obtain ⟨hgt, -, -⟩ := ttParts x ha hg
  have := hgt.1; rw [hty] at this
  exact (alignedB_iff _ _).2 ⟨x.tok.text, alnText x.aln, ttText_eq x,
    (roleB_iff _).2 ⟨this, hgt.2.1⟩, aln_of_ttext hwf x ha hg⟩

theorem ttext_atom (hwf : CfgWfP cfg) (x : TText) (hty : isSymOrStr x.tok = true) (ha : x.wfAln = true)
    (hg : GoodToks cfg x.toks) : atomTextB cfg x.text = true := by
  obtain ⟨hgt, -, -⟩ := ttParts x ha hg
  refine (alignedB_iff _ _).2 ⟨x.tok.text, alnText x.aln, ttText_eq x, ?_, aln_of_ttext hwf x ha hg⟩
  simp only [isSymOrStr, Bool.or_eq_true, decide_eq_true_eq] at hty ⊢
  have := hgt.1
  rcases hty with hty | hty <;> rw [hty] at this
  · exact .inl ((symbolB_iff _).2 ⟨this, hgt.2.2 hty, hgt.2.1⟩)
  · exact .inr ((stringB_iff hwf _).2 ⟨this, hgt.2.1⟩)

/-! ### `WfTreeText` ⇒ concrete syntax tree -/

def lpT : Tok := ⟨.LPAREN, ['('], 0, 0⟩
def rpT : Tok := ⟨.RPAREN, [')'], 0, 0⟩
def slT : Tok := ⟨.SLASH, ['/'], 0, 0⟩

theorem good_lpT : TokGood cfg lpT := ⟨rfl, ⟨by decide, by decide⟩, by simp [lpT]⟩
theorem good_rpT : TokGood cfg rpT := ⟨rfl, ⟨by decide, by decide⟩, by simp [rpT]⟩
theorem good_slT : TokGood cfg slT := ⟨rfl, ⟨by decide, by decide⟩, by simp [slT]⟩

/-- the well-formed concrete syntax trees with good token texts -/
def CNode.Good (cfg : LexCfg) (k : CNode) : Prop := k.wf = true ∧ GoodToks cfg k.toks
def CEdges.Good (cfg : LexCfg) (es : CEdges) : Prop := es.wf = true ∧ GoodToks cfg es.toks

theorem edge_atom_cst (hwf : CfgWfP cfg) {r : Str} {a : Atom} {es : CEdges} (hr : roleTextB cfg r = true)
    (ha : atomB cfg a = true) (he : CEdges.Good cfg es) :
    ∃ es' : CEdges, CEdges.Good cfg es' ∧ es'.tree = .atom r a es.tree := by
  obtain ⟨x, x1, x2, rfl, x4⟩ := role_ttext hwf hr
  cases a with
  | none =>
    exact ⟨.atom x none es, ⟨by simp [CEdges.wf, x1, x2, he.1],
      by simp only [CEdges.toks]; exact goodToks_append.2 ⟨x4, he.2⟩⟩, rfl⟩
  | str s =>
    obtain ⟨y, y1, y2, rfl, y4⟩ := atom_ttext hwf (by simpa [atomB] using ha)
    exact ⟨.atom x (some y) es, ⟨by simp [CEdges.wf, x1, x2, y1, y2, he.1],
      by simp only [CEdges.toks]; exact goodToks_append.2 ⟨x4, goodToks_append.2 ⟨y4, he.2⟩⟩⟩, rfl⟩
  | num t => simp [atomB] at ha

mutual
theorem wfNode_cst (hwf : CfgWfP cfg) : (t : Node) → wfNodeB cfg t = true →
    ∃ k : CNode, CNode.Good cfg k ∧ k.tree = t
  | .mk none bs, h => by
    cases bs <;> simp [wfNodeB] at h
    exact ⟨.empty lpT rpT, ⟨rfl, by simp [CNode.toks, GoodToks, good_lpT, good_rpT]⟩, rfl⟩
  | .mk (some v) bs, h => by
    simp only [wfNodeB, Bool.and_eq_true] at h
    obtain ⟨hv, hb⟩ := h
    have hv := (symbolB_iff v).1 hv
    have gv : TokGood cfg ⟨.SYMBOL, v, 0, 0⟩ := ⟨hv.1, hv.2.2, fun _ => hv.2.1⟩
    have fin : ∀ (sl : Option (Tok × Option TText)) (es : CEdges), slashWf sl = true →
        GoodToks cfg (slashToks sl) → CEdges.Good cfg es →
        CNode.Good cfg (.mk lpT ⟨.SYMBOL, v, 0, 0⟩ sl es rpT) := by
      intro sl es h1 h2 h3
      refine ⟨by simp [CNode.wf, lpT, rpT, h1, h3.1], ?_⟩
      simp only [CNode.toks]
      exact goodToks_cons.2 ⟨good_lpT, goodToks_cons.2 ⟨gv, goodToks_append.2 ⟨h2,
        goodToks_append.2 ⟨h3.2, goodToks_cons.2 ⟨good_rpT, goodToks_nil⟩⟩⟩⟩⟩
    match bs, hb with
    | .nil, _ => exact ⟨_, fin none .nil rfl goodToks_nil ⟨rfl, goodToks_nil⟩, rfl⟩
    | .atom r a rest, hb =>
      simp only [wfTopB, Bool.and_eq_true] at hb
      obtain ⟨hra, hrest⟩ := hb
      obtain ⟨es, he, rfl⟩ := wfEdges_cst hwf rest hrest
      by_cases hr : r = ['/']
      · subst hr
        simp only [if_true] at hra
        cases a with
        | none =>
          exact ⟨_, fin (some (slT, none)) es rfl (by simp [slashToks, GoodToks, good_slT]) he, rfl⟩
        | str s =>
          obtain ⟨y, y1, y2, rfl, y4⟩ := atom_ttext hwf (by simpa [atomB] using hra)
          exact ⟨_, fin (some (slT, some y)) es (by simp [slashWf, slT, y1, y2])
            (by simp only [slashToks]; exact goodToks_cons.2 ⟨good_slT, y4⟩) he, rfl⟩
        | num t => simp [atomB] at hra
      · simp only [hr, if_false, Bool.and_eq_true] at hra
        obtain ⟨es', he', ht'⟩ := edge_atom_cst hwf hra.1 hra.2 he
        exact ⟨_, fin none es' rfl goodToks_nil he', by simp [CNode.tree, ht']⟩
    | .sub r n rest, hb =>
      simp only [wfTopB, Bool.and_eq_true] at hb
      obtain ⟨⟨hr, hn⟩, hrest⟩ := hb
      obtain ⟨es, he, rfl⟩ := wfEdges_cst hwf rest hrest
      obtain ⟨k, hk, rfl⟩ := wfNode_cst hwf n hn
      obtain ⟨x, x1, x2, rfl, x4⟩ := role_ttext hwf hr
      exact ⟨_, fin none (.sub x k es) rfl goodToks_nil ⟨by simp [CEdges.wf, x1, x2, hk.1, he.1],
        by simp only [CEdges.toks]; exact goodToks_append.2 ⟨x4, goodToks_append.2 ⟨hk.2, he.2⟩⟩⟩, rfl⟩
theorem wfEdges_cst (hwf : CfgWfP cfg) : (bs : Branches) → wfEdgesB cfg bs = true →
    ∃ es : CEdges, CEdges.Good cfg es ∧ es.tree = bs
  | .nil, _ => ⟨.nil, ⟨rfl, goodToks_nil⟩, rfl⟩
  | .atom r a rest, h => by
    simp only [wfEdgesB, Bool.and_eq_true] at h
    obtain ⟨⟨hr, ha⟩, hrest⟩ := h
    obtain ⟨es, he, rfl⟩ := wfEdges_cst hwf rest hrest
    exact edge_atom_cst hwf hr ha he
  | .sub r n rest, h => by
    simp only [wfEdgesB, Bool.and_eq_true] at h
    obtain ⟨⟨hr, hn⟩, hrest⟩ := h
    obtain ⟨es, he, rfl⟩ := wfEdges_cst hwf rest hrest
    obtain ⟨k, hk, rfl⟩ := wfNode_cst hwf n hn
    obtain ⟨x, x1, x2, rfl, x4⟩ := role_ttext hwf hr
    exact ⟨.sub x k es, ⟨by simp [CEdges.wf, x1, x2, hk.1, he.1],
      by simp only [CEdges.toks]; exact goodToks_append.2 ⟨x4, goodToks_append.2 ⟨hk.2, he.2⟩⟩⟩, rfl⟩
end

/-! ### concrete syntax tree ⇒ `WfTreeText` -/

theorem wfTop_of_edges : (bs : Branches) → wfEdgesB cfg bs = true → wfTopB cfg bs = true
  | .nil, _ => rfl
  | .atom r a rest, h => by
    simp only [wfEdgesB, Bool.and_eq_true] at h
    simp only [wfTopB, Bool.and_eq_true]
    refine ⟨?_, h.2⟩
    split
    · exact h.1.2
    · simp [h.1.1, h.1.2]
  | .sub r n rest, h => by simpa [wfEdgesB, wfTopB] using h

mutual
theorem cst_wfNode (hwf : CfgWfP cfg) : (k : CNode) → CNode.Good cfg k → wfNodeB cfg k.tree = true
  | .empty lp rp, _ => rfl
  | .mk lp var sl es rp, ⟨hw, hg⟩ => by
    simp only [CNode.wf, Bool.and_eq_true, decide_eq_true_eq] at hw
    obtain ⟨⟨⟨⟨-, hv⟩, hsl⟩, hes⟩, -⟩ := hw
    simp only [CNode.toks] at hg
    obtain ⟨-, hg⟩ := goodToks_cons.1 hg
    obtain ⟨gv, hg⟩ := goodToks_cons.1 hg
    obtain ⟨gsl, hg⟩ := goodToks_append.1 hg
    obtain ⟨ges, -⟩ := goodToks_append.1 hg
    have hE := cst_wfEdges hwf es ⟨hes, ges⟩
    have hvs : symbolB cfg var.text = true := by
      have := gv.1; rw [hv] at this
      exact (symbolB_iff _).2 ⟨this, gv.2.2 hv, gv.2.1⟩
    simp only [CNode.tree, wfNodeB, Bool.and_eq_true]
    refine ⟨hvs, ?_⟩
    match sl, hsl, gsl with
    | none, _, _ => exact wfTop_of_edges _ hE
    | some (s, none), _, _ => simp [wfTopB, atomB, hE]
    | some (s, some c), hsl, gsl =>
      simp only [slashWf, Bool.and_eq_true, decide_eq_true_eq] at hsl
      simp only [slashToks] at gsl
      have := ttext_atom hwf c hsl.1.2 hsl.2 (goodToks_cons.1 gsl).2
      simp [wfTopB, atomB, hE, this]
theorem cst_wfEdges (hwf : CfgWfP cfg) : (es : CEdges) → CEdges.Good cfg es → wfEdgesB cfg es.tree = true
  | .nil, _ => rfl
  | .atom r none es, ⟨hw, hg⟩ => by
    simp only [CEdges.wf, Bool.and_eq_true, decide_eq_true_eq] at hw
    simp only [CEdges.toks] at hg
    obtain ⟨gr, ges⟩ := goodToks_append.1 hg
    simp [CEdges.tree, wfEdgesB, atomB, ttext_role hwf r hw.1.1 hw.1.2 gr, cst_wfEdges hwf es ⟨hw.2, ges⟩]
  | .atom r (some a) es, ⟨hw, hg⟩ => by
    simp only [CEdges.wf, Bool.and_eq_true, decide_eq_true_eq] at hw
    simp only [CEdges.toks] at hg
    obtain ⟨gr, hg⟩ := goodToks_append.1 hg
    obtain ⟨ga, ges⟩ := goodToks_append.1 hg
    simp [CEdges.tree, wfEdgesB, atomB, ttext_role hwf r hw.1.1.1.1 hw.1.1.1.2 gr,
      ttext_atom hwf a hw.1.1.2 hw.1.2 ga, cst_wfEdges hwf es ⟨hw.2, ges⟩]
  | .sub r n es, ⟨hw, hg⟩ => by
    simp only [CEdges.wf, Bool.and_eq_true, decide_eq_true_eq] at hw
    simp only [CEdges.toks] at hg
    obtain ⟨gr, hg⟩ := goodToks_append.1 hg
    obtain ⟨gn, ges⟩ := goodToks_append.1 hg
    simp [CEdges.tree, wfEdgesB, ttext_role hwf r hw.1.1.1 hw.1.1.2 gr,
      cst_wfNode hwf n ⟨hw.1.2, gn⟩, cst_wfEdges hwf es ⟨hw.2, ges⟩]
end

/-- **`WfTreeText` characterised**: the abstract trees of the well-formed concrete syntax
    trees whose token texts are in their class languages -/
theorem wfTreeText_iff (hwf : CfgWfP cfg) (t : Node) :
    WfTreeText cfg t ↔ ∃ k : CNode, CNode.Good cfg k ∧ k.tree = t :=
  ⟨wfNode_cst hwf t, by rintro ⟨k, hk, rfl⟩; exact cst_wfNode hwf k hk⟩

end Penman.FL

/-
  Penman.Proofs.ResetVars — helper lemmas for property C10
  (`Tree.reset_variables`): decimal rendering, injectivity of format
  templates, termination of the collision loop, the variable map.
-/
import Penman.Tree
namespace Penman.RV

/-! ### decimal rendering -/

theorem natToStr_eq (n : Nat) : natToStr n = Nat.toDigits 10 n := by
  simp [natToStr]

theorem natToStr_inj {a b : Nat} (h : natToStr a = natToStr b) : a = b := by
  rw [natToStr_eq, natToStr_eq] at h
  have := congrArg (fun l => Nat.ofDigitChars 10 l 0) h
  simpa [Nat.ofDigitChars_ten_toDigits] using this

theorem natToStr_ne_nil (n : Nat) : natToStr n ≠ [] := by
  rw [natToStr_eq]; exact Nat.toDigits_ne_nil

theorem natToStr_length_pos (n : Nat) : 0 < (natToStr n).length := by
  rw [natToStr_eq]; exact Nat.length_toDigits_pos

theorem natToStr_length_mono {a b : Nat} (h : a ≤ b) :
    (natToStr a).length ≤ (natToStr b).length := by
  rw [natToStr_eq, natToStr_eq]
  rw [Nat.length_toDigits_le_iff (by omega) Nat.length_toDigits_pos]
  have := (Nat.length_toDigits_le_iff (b := 10) (n := b) (k := (Nat.toDigits 10 b).length)
    (by omega) Nat.length_toDigits_pos).1 (Nat.le_refl _)
  omega

theorem natToStr_isDigit {n : Nat} {c : Char} (h : c ∈ natToStr n) : c.isDigit = true := by
  rw [natToStr_eq] at h
  exact Nat.isDigit_of_mem_toDigits (by decide) (by decide) h

/-! ### format templates -/

/-- rendering of one template piece -/
def pieceRender (pre : Str) (i : Nat) : FmtPiece → Str
  | .lit s => s
  | .pre => pre
  | .i => natToStr i
  | .j => if i = 0 then [] else natToStr (i + 1)

theorem Fmt.render_nil (pre : Str) (i : Nat) : Fmt.render [] pre i = [] := rfl

theorem Fmt.render_cons (p : FmtPiece) (fmt : Fmt) (pre : Str) (i : Nat) :
    Fmt.render (p :: fmt) pre i = pieceRender pre i p ++ Fmt.render fmt pre i := by
  cases p <;> simp [Fmt.render, pieceRender]

theorem pieceRender_length_mono (p : FmtPiece) (pre : Str) {i j : Nat} (h : i ≤ j) :
    (pieceRender pre i p).length ≤ (pieceRender pre j p).length := by
  cases p with
  | lit s => simp [pieceRender]
  | pre => simp [pieceRender]
  | i => exact natToStr_length_mono h
  | j =>
    simp only [pieceRender]
    split
    · simp
    · rw [if_neg (by omega)]; exact natToStr_length_mono (by omega)

theorem Fmt.render_length_mono (fmt : Fmt) (pre : Str) {i j : Nat} (h : i ≤ j) :
    (Fmt.render fmt pre i).length ≤ (Fmt.render fmt pre j).length := by
  induction fmt with
  | nil => simp [Fmt.render_nil]
  | cons p fmt ih =>
    have := pieceRender_length_mono p pre h
    simp only [Fmt.render_cons, List.length_append]; omega

/-- if two renderings agree (for `i ≤ j`) they agree piece by piece -/
theorem Fmt.render_eq_pieces (fmt : Fmt) (pre : Str) {i j : Nat} (h : i ≤ j)
    (e : Fmt.render fmt pre i = Fmt.render fmt pre j) :
    ∀ p ∈ fmt, pieceRender pre i p = pieceRender pre j p := by
  induction fmt with
  | nil => simp
  | cons q fmt ih =>
    rw [Fmt.render_cons, Fmt.render_cons] at e
    have h1 := pieceRender_length_mono q pre h
    have h2 := Fmt.render_length_mono fmt pre h
    have h3 := congrArg List.length e
    simp only [List.length_append] at h3
    have ⟨e1, e2⟩ := List.append_inj e (by omega)
    intro p hp
    rcases List.mem_cons.1 hp with rfl | hp
    · exact e1
    · exact ih e2 p hp

theorem pieceRender_index_inj {p : FmtPiece} (hp : p = .i ∨ p = .j) (pre : Str) {i j : Nat}
    (e : pieceRender pre i p = pieceRender pre j p) : i = j := by
  rcases hp with rfl | rfl
  · exact natToStr_inj e
  · simp only [pieceRender] at e
    split at e <;> split at e
    · omega
    · exact absurd e.symm (natToStr_ne_nil _)
    · exact absurd e (natToStr_ne_nil _)
    · have := natToStr_inj e; omega

/-- distinct indices render differently (for every prefix) -/
def _root_.Penman.RenderInj (fmt : Fmt) : Prop :=
  ∀ pre i j, fmt.render pre i = fmt.render pre j → i = j

/-- every template that mentions `{i}` or `{j}` — with arbitrary literals,
    prefixes and further index pieces around it — is injective in the index -/
theorem renderInj_of_progressive {fmt : Fmt} (h : fmt.progressive = true) : RenderInj fmt := by
  intro pre i j e
  simp only [Fmt.progressive, List.any_eq_true, Bool.or_eq_true, decide_eq_true_eq] at h
  obtain ⟨p, hp, hp'⟩ := h
  rcases Nat.le_total i j with hij | hij
  · exact pieceRender_index_inj hp' pre (Fmt.render_eq_pieces fmt pre hij e p hp)
  · exact (pieceRender_index_inj hp' pre (Fmt.render_eq_pieces fmt pre hij e.symm p hp)).symm

/-- conversely a template without index piece renders every index alike -/
theorem render_const_of_not_progressive {fmt : Fmt} (h : fmt.progressive = false) (pre : Str)
    (i j : Nat) : fmt.render pre i = fmt.render pre j := by
  induction fmt with
  | nil => rfl
  | cons p fmt ih =>
    simp only [Fmt.progressive, List.any_cons, Bool.or_eq_false_iff, decide_eq_false_iff_not] at h
    rw [Fmt.render_cons, Fmt.render_cons, ih (by simpa [Fmt.progressive] using h.2)]
    cases p <;> simp_all [pieceRender]

theorem renderInj_iff_progressive (fmt : Fmt) : RenderInj fmt ↔ fmt.progressive = true := by
  constructor
  · intro h
    cases hp : fmt.progressive with
    | true => rfl
    | false => exact absurd (h [] 0 1 (render_const_of_not_progressive hp [] 0 1)) (by omega)
  · exact renderInj_of_progressive

/-! ### the collision loop `pickVar` -/

theorem pickVar_some {fmt : Fmt} {pre : Str} {used : List Str} :
    ∀ (f i : Nat) (v : Str), pickVar fmt pre used f i = some v →
      ∃ k, i ≤ k ∧ k < i + f ∧ v = fmt.render pre k ∧ v ∉ used ∧
        ∀ k', i ≤ k' → k' < k → fmt.render pre k' ∈ used := by
  intro f
  induction f with
  | zero => intro i v h; simp [pickVar] at h
  | succ f ih =>
    intro i v h
    simp only [pickVar] at h
    split at h
    · rename_i hin
      obtain ⟨k, h1, h2, h3, h4, h5⟩ := ih (i + 1) v h
      refine ⟨k, by omega, by omega, h3, h4, ?_⟩
      intro k' hk1 hk2
      by_cases hk : k' = i
      · subst hk; exact hin
      · exact h5 k' (by omega) hk2
    · rename_i hin
      injection h with h
      subst h
      exact ⟨i, Nat.le_refl _, by omega, rfl, hin, fun k' h1 h2 => by omega⟩

theorem pickVar_none {fmt : Fmt} {pre : Str} {used : List Str} :
    ∀ (f i : Nat), pickVar fmt pre used f i = none →
      ∀ k, i ≤ k → k < i + f → fmt.render pre k ∈ used := by
  intro f
  induction f with
  | zero => intro i _ k h1 h2; omega
  | succ f ih =>
    intro i h k h1 h2
    simp only [pickVar] at h
    split at h
    · rename_i hin
      by_cases hk : k = i
      · subst hk; exact hin
      · exact ih (i + 1) h k (by omega) (by omega)
    · simp at h

/-- pigeonhole: with an index-injective template, `|U| + 1` attempts suffice,
    where `U` holds the used names not yet passed -/
theorem pickVar_isSome_aux {fmt : Fmt} {pre : Str} {used : List Str} (hinj : RenderInj fmt) :
    ∀ (f i : Nat) (U : List Str), U.length < f →
      (∀ u ∈ used, u ∈ U ∨ ∃ k, k < i ∧ u = fmt.render pre k) →
      (pickVar fmt pre used f i).isSome = true := by
  intro f
  induction f with
  | zero => intro i U h; omega
  | succ f ih =>
    intro i U hlen hU
    simp only [pickVar]
    split
    · rename_i hin
      have hvU : fmt.render pre i ∈ U := by
        rcases hU _ hin with h | ⟨k, hk, e⟩
        · exact h
        · have := hinj pre i k e; omega
      apply ih (i + 1) (U.filter (· ≠ fmt.render pre i))
      · have : (U.filter (· ≠ fmt.render pre i)).length < U.length :=
          List.length_filter_lt_length_iff_exists.2 ⟨_, hvU, by simp⟩
        omega
      · intro u hu
        by_cases e : u = fmt.render pre i
        · exact Or.inr ⟨i, by omega, e⟩
        · rcases hU u hu with h | ⟨k, hk, e'⟩
          · exact Or.inl (List.mem_filter.2 ⟨h, by simpa using e⟩)
          · exact Or.inr ⟨k, by omega, e'⟩
    · rfl

/-- the loop terminates within `used.length + 1` rounds with the first
    non-colliding rendering -/
theorem pickVar_total {fmt : Fmt} (hinj : RenderInj fmt) (pre : Str) (used : List Str) :
    ∃ v k, pickVar fmt pre used (used.length + 1) 0 = some v ∧ v ∉ used ∧
      v = fmt.render pre k ∧ k ≤ used.length ∧ ∀ k', k' < k → fmt.render pre k' ∈ used := by
  have h := pickVar_isSome_aux (pre := pre) (used := used) hinj (used.length + 1) 0 used
    (by omega) (fun u hu => Or.inl hu)
  obtain ⟨v, hv⟩ := Option.isSome_iff_exists.1 h
  obtain ⟨k, _, h2, h3, h4, h5⟩ := pickVar_some _ _ _ hv
  exact ⟨v, k, hv, h4, h3, by omega, fun k' hk => h5 k' (by omega) hk⟩

/-! ### `dedup`, association lists -/

theorem mem_dedup {x : Str} : ∀ {l : List Str}, x ∈ dedup l ↔ x ∈ l
  | [] => by simp [dedup]
  | y :: l => by
    have ih := mem_dedup (x := x) (l := l)
    by_cases h : x = y <;> simp [dedup, List.mem_filter, ih, h]

theorem dedup_nodup : ∀ (l : List Str), (dedup l).Nodup
  | [] => by simp [dedup]
  | y :: l => by
    simp only [dedup, List.nodup_cons, List.mem_filter]
    exact ⟨by simp, (dedup_nodup l).filter _⟩

/-- the values of an association list -/
def avals (d : AList Str Str) : List Str := d.map (·.2)

theorem contains_iff_mem_keys {d : AList Str Str} {k : Str} :
    AList.contains d k = true ↔ k ∈ AList.keys d := by
  simp [AList.contains, AList.keys]

theorem get?_cons (k v : Str) {β : Type} (b : β) (d : AList Str β) :
    AList.get? ((k, b) :: d) v = if k = v then some b else AList.get? d v := by
  simp only [AList.get?, List.find?_cons]
  by_cases h : k = v <;> simp [h]

theorem get?_isSome_iff {d : AList Str Str} {k : Str} :
    (AList.get? d k).isSome = true ↔ k ∈ AList.keys d := by
  induction d with
  | nil => simp [AList.get?, AList.keys]
  | cons e d ih =>
    obtain ⟨a, b⟩ := e
    rw [get?_cons]
    by_cases h : a = k
    · simp [h, AList.keys]
    · simp only [if_neg h, ih]
      simp [AList.keys, Ne.symm h]

theorem get?_eq_none_iff {d : AList Str Str} {k : Str} :
    AList.get? d k = none ↔ k ∉ AList.keys d := by
  rw [← get?_isSome_iff]; cases AList.get? d k <;> simp

theorem mem_of_get? {d : AList Str Str} {k v : Str} (h : AList.get? d k = some v) : (k, v) ∈ d := by
  induction d with
  | nil => simp [AList.get?] at h
  | cons e d ih =>
    obtain ⟨a, b⟩ := e
    rw [get?_cons] at h
    by_cases e : a = k
    · simp only [if_pos e] at h; injection h with h; subst e; subst h; exact List.mem_cons_self
    · simp only [if_neg e] at h; exact List.mem_cons_of_mem _ (ih h)

theorem get?_of_mem_nodup {d : AList Str Str} {k v : Str} (hn : (AList.keys d).Nodup)
    (h : (k, v) ∈ d) : AList.get? d k = some v := by
  induction d with
  | nil => simp at h
  | cons e d ih =>
    obtain ⟨a, b⟩ := e
    simp only [AList.keys, List.map_cons, List.nodup_cons] at hn
    rw [get?_cons]
    rcases List.mem_cons.1 h with h | h
    · injection h with h1 h2; simp [h1, h2]
    · have : a ≠ k := by
        intro e; subst e
        exact hn.1 (List.mem_map.2 ⟨(a, v), h, rfl⟩)
      simp only [if_neg this]
      exact ih hn.2 h

/-- a map with pairwise distinct values is injective -/
theorem get?_inj_of_nodup_vals {d : AList Str Str} (hn : (avals d).Nodup) {a b x : Str}
    (ha : AList.get? d a = some x) (hb : AList.get? d b = some x) : a = b := by
  induction d with
  | nil => simp [AList.get?] at ha
  | cons e d ih =>
    obtain ⟨k, v⟩ := e
    simp only [avals, List.map_cons, List.nodup_cons] at hn
    rw [get?_cons] at ha hb
    by_cases h1 : k = a <;> by_cases h2 : k = b
    · exact h1.symm.trans h2
    · simp only [if_pos h1, if_neg h2] at ha hb
      injection ha with ha; subst ha
      exact absurd (List.mem_map.2 ⟨(b, v), mem_of_get? hb, rfl⟩) hn.1
    · simp only [if_neg h1, if_pos h2] at ha hb
      injection hb with hb; subst hb
      exact absurd (List.mem_map.2 ⟨(a, v), mem_of_get? ha, rfl⟩) hn.1
    · simp only [if_neg h1, if_neg h2] at ha hb
      exact ih hn.2 ha hb

/-! ### the variable map built by `buildVarmap` -/

/-- what `reset_variables` guarantees about the entry `e` added when the
    map already holds `before`: its name is the rendering, with the prefix of
    the concept of the first node carrying that variable, of the least index
    whose rendering is not yet taken -/
def EntryOk (isAlpha : Char → Bool) (lower : Char → Str) (fmt : Fmt)
    (nodes : List (Str × Branches)) (before : AList Str Str) (e : Str × Str) : Prop :=
  ∃ bs i, AList.get? nodes e.1 = some bs ∧
    e.2 = fmt.render (defaultPrefix isAlpha lower bs.concept) i ∧
    e.2 ∉ avals before ∧
    ∀ i', i' < i → fmt.render (defaultPrefix isAlpha lower bs.concept) i' ∈ avals before

/-- all entries of `ext`, appended one after the other to `vm`, are `EntryOk` -/
def ExtOk (isAlpha : Char → Bool) (lower : Char → Str) (fmt : Fmt)
    (nodes : List (Str × Branches)) : AList Str Str → AList Str Str → Prop
  | _, [] => True
  | vm, e :: ext => EntryOk isAlpha lower fmt nodes vm e ∧ ExtOk isAlpha lower fmt nodes (vm ++ [e]) ext

theorem ExtOk.weaken {isAlpha : Char → Bool} {lower : Char → Str} {fmt : Fmt}
    {nodes : List (Str × Branches)} (v : Str) (bs : Branches) :
    ∀ {ext vm : AList Str Str}, ExtOk isAlpha lower fmt nodes vm ext → v ∉ AList.keys ext →
      ExtOk isAlpha lower fmt ((v, bs) :: nodes) vm ext
  | [], _, _, _ => trivial
  | e :: ext, vm, h, hv => by
    simp only [AList.keys, List.map_cons, List.mem_cons, not_or] at hv
    obtain ⟨⟨bs', i, h1, h2⟩, h3⟩ := h
    refine ⟨⟨bs', i, ?_, h2⟩, ExtOk.weaken v bs h3 hv.2⟩
    rw [get?_cons, if_neg hv.1]; exact h1

theorem buildVarmap_spec {isAlpha : Char → Bool} {lower : Char → Str} {fmt : Fmt} :
    ∀ (l : List (Str × Branches)) (vm : AList Str Str) (used : List Str) (vm' : AList Str Str),
      buildVarmap isAlpha lower fmt l vm used = some vm' →
      (∀ x, x ∈ used ↔ x ∈ avals vm) →
      ∃ ext, vm' = vm ++ ext ∧
        AList.keys ext = (dedup (l.map (·.1))).filter (fun x => decide (x ∉ AList.keys vm)) ∧
        ExtOk isAlpha lower fmt l vm ext := by
  intro l
  induction l with
  | nil =>
    intro vm used vm' h _
    simp only [buildVarmap] at h
    injection h with h
    exact ⟨[], by simp [h], by simp [dedup, AList.keys], trivial⟩
  | cons e rest ih =>
    obtain ⟨v, bs⟩ := e
    intro vm used vm' h hu
    simp only [buildVarmap] at h
    split at h
    · rename_i hc
      have hc' := contains_iff_mem_keys.1 hc
      obtain ⟨ext, h1, h2, h3⟩ := ih vm used vm' h hu
      refine ⟨ext, h1, ?_, ?_⟩
      · rw [h2]
        simp only [List.map_cons, dedup, List.filter_cons, hc', not_true_eq_false, decide_false,
          List.filter_filter]
        simp only [Bool.false_eq_true, if_false]
        apply List.filter_congr
        intro x _
        by_cases hx : x ∈ AList.keys vm
        · simp [hx]
        · have : x ≠ v := fun e => hx (e ▸ hc')
          simp [hx, this]
      · apply ExtOk.weaken v bs h3
        rw [h2]
        intro hv
        have := (List.mem_filter.1 hv).2
        simp [hc'] at this
    · rename_i hc
      have hc' : v ∉ AList.keys vm := fun h => hc (contains_iff_mem_keys.2 h)
      split at h
      · simp at h
      · rename_i nv hp
        obtain ⟨k, _, _, hk3, hk4, hk5⟩ := pickVar_some _ _ _ hp
        have hu' : ∀ x, x ∈ nv :: used ↔ x ∈ avals (vm ++ [(v, nv)]) := by
          intro x
          simp only [avals, List.map_append, List.map_cons, List.map_nil, List.mem_append,
            List.mem_cons, List.not_mem_nil, or_false]
          have := hu x
          simp only [avals] at this
          rw [this]
          exact Or.comm
        obtain ⟨ext, h1, h2, h3⟩ := ih _ _ vm' h hu'
        refine ⟨(v, nv) :: ext, by simp [h1], ?_, ?_, ?_⟩
        · have hk : AList.keys ((v, nv) :: ext) = v :: AList.keys ext := rfl
          have hk' : ∀ x, x ∈ AList.keys (vm ++ [(v, nv)]) ↔ x ∈ AList.keys vm ∨ x = v := by
            intro x; simp [AList.keys]
          rw [hk, h2]
          simp only [List.map_cons, dedup, List.filter_cons, hc', not_false_eq_true, decide_true,
            if_true, List.filter_filter]
          congr 1
          apply List.filter_congr
          intro x _
          by_cases hx : x = v <;> by_cases hx' : x ∈ AList.keys vm <;> simp [hk', hx, hx']
        · refine ⟨bs, k, by simp [get?_cons], hk3, fun h => hk4 ((hu nv).2 h), ?_⟩
          intro i' hi'
          exact (hu _).1 (hk5 i' (Nat.zero_le _) hi')
        · apply ExtOk.weaken v bs h3
          rw [h2]
          intro hv
          have := (List.mem_filter.1 hv).2
          simp [AList.keys] at this

theorem ExtOk.nodup_vals {isAlpha : Char → Bool} {lower : Char → Str} {fmt : Fmt}
    {nodes : List (Str × Branches)} :
    ∀ {ext vm : AList Str Str}, ExtOk isAlpha lower fmt nodes vm ext → (avals vm).Nodup →
      (avals (vm ++ ext)).Nodup
  | [], vm, _, h => by simpa using h
  | e :: ext, vm, ⟨⟨_, _, _, _, h3, _⟩, h'⟩, h => by
    have := ExtOk.nodup_vals h' (by
      simp only [avals, List.map_append, List.map_cons, List.map_nil] at h3 ⊢
      rw [List.nodup_append]
      refine ⟨h, by simp, ?_⟩
      intro a ha b hb
      simp only [List.mem_cons, List.not_mem_nil, or_false] at hb
      subst hb
      intro e; subst e; exact h3 ha)
    simpa using this

theorem ExtOk.index {isAlpha : Char → Bool} {lower : Char → Str} {fmt : Fmt}
    {nodes : List (Str × Branches)} :
    ∀ {ext vm : AList Str Str}, ExtOk isAlpha lower fmt nodes vm ext →
      ∀ (k : Nat) (h : k < ext.length), EntryOk isAlpha lower fmt nodes (vm ++ ext.take k) ext[k]
  | [], _, _, k, h => by simp at h
  | e :: ext, vm, ⟨h1, h2⟩, 0, _ => by simpa using h1
  | e :: ext, vm, ⟨h1, h2⟩, k + 1, h => by
    have := ExtOk.index h2 k (by simpa using h)
    simpa using this

/-- with a template mentioning `{i}` or `{j}` the first pass always succeeds -/
theorem buildVarmap_total {isAlpha : Char → Bool} {lower : Char → Str} {fmt : Fmt}
    (hp : fmt.progressive = true) :
    ∀ (l : List (Str × Branches)) (vm : AList Str Str) (used : List Str),
      (buildVarmap isAlpha lower fmt l vm used).isSome = true := by
  intro l
  induction l with
  | nil => intro vm used; simp [buildVarmap]
  | cons e rest ih =>
    obtain ⟨v, bs⟩ := e
    intro vm used
    simp only [buildVarmap]
    split
    · exact ih _ _
    · obtain ⟨nv, k, h, _⟩ := pickVar_total (renderInj_of_progressive hp)
        (defaultPrefix isAlpha lower bs.concept) used
      rw [h]
      exact ih _ _

/-! ### `partitionStr` at `'~'` -/

/-- the text from the first `'~'` on (empty if there is none) -/
def alnSuffix (s : Str) : Str :=
  let p := partitionStr ['~'] s
  (if p.2.1 then ['~'] else []) ++ p.2.2

/-- the text before the first `'~'` -/
def alnStem (s : Str) : Str := (partitionStr ['~'] s).1

theorem partition_tilde_cons (c : Char) (cs : Str) :
    partitionStr ['~'] (c :: cs) =
      if c = '~' then ([], true, cs)
      else if (partitionStr ['~'] cs).2.1 then
        (c :: (partitionStr ['~'] cs).1, true, (partitionStr ['~'] cs).2.2)
      else (c :: cs, false, []) := by
  by_cases h : c = '~'
  · subst h; simp [partitionStr, List.isPrefixOf]
  · have : (['~'].isPrefixOf (c :: cs)) = false := by
      simp [List.isPrefixOf, Ne.symm h]
    simp [partitionStr, this, h]

theorem partition_tilde_spec : ∀ (s : Str),
    s = alnStem s ++ alnSuffix s ∧ '~' ∉ alnStem s ∧
    ((partitionStr ['~'] s).2.1 = false → alnStem s = s ∧ (partitionStr ['~'] s).2.2 = [])
  | [] => by simp [alnStem, alnSuffix, partitionStr]
  | c :: cs => by
    have ih := partition_tilde_spec cs
    simp only [alnStem, alnSuffix] at ih ⊢
    rw [partition_tilde_cons]
    by_cases h : c = '~'
    · subst h; simp
    · simp only [if_neg h]
      cases hb : (partitionStr ['~'] cs).2.1 with
      | true =>
        simp only [hb, if_true] at ih ⊢
        refine ⟨by simpa using ih.1, ?_, by simp⟩
        simp only [List.mem_cons, not_or]
        exact ⟨Ne.symm h, ih.2.1⟩
      | false =>
        simp only [hb] at ih ⊢
        have := ih.2.2 trivial
        simp only [Bool.false_eq_true, if_false, List.append_nil, true_and, List.mem_cons, not_or,
          implies_true, and_true]
        refine ⟨Ne.symm h, ?_⟩
        rw [← this.1]; exact ih.2.1

theorem alnSuffix_shape (s : Str) : alnSuffix s = [] ∨ ∃ rest, alnSuffix s = '~' :: rest := by
  simp only [alnSuffix]
  cases hb : (partitionStr ['~'] s).2.1 with
  | true => exact Or.inr ⟨(partitionStr ['~'] s).2.2, by simp⟩
  | false => exact Or.inl (by simp [(partition_tilde_spec s).2.2 hb])

/-- `partition('~')` of a text whose stem has no `'~'` -/
theorem partition_tilde_append : ∀ (q rest : Str), '~' ∉ q →
    partitionStr ['~'] (q ++ '~' :: rest) = (q, true, rest)
  | [], rest, _ => by simp [partition_tilde_cons]
  | c :: q, rest, h => by
    simp only [List.mem_cons, not_or] at h
    have ih := partition_tilde_append q rest h.2
    simp only [List.cons_append]
    rw [partition_tilde_cons, if_neg (Ne.symm h.1), ih]
    simp

theorem partition_tilde_none (q : Str) (h : '~' ∉ q) : partitionStr ['~'] q = (q, false, []) := by
  induction q with
  | nil => simp [partitionStr]
  | cons c q ih =>
    simp only [List.mem_cons, not_or] at h
    rw [partition_tilde_cons, if_neg (Ne.symm h.1), ih h.2]
    simp

/-! ### the second pass `_map_vars` as a total renaming -/

/-- the renaming a variable map induces (identity off its keys) -/
def renVar (vm : AList Str Str) (v : Str) : Str := (AList.get? vm v).getD v

/-- what `_map_vars` does to an atomic target under role `r` -/
def renAtom (vm : AList Str Str) (r : Str) (a : Atom) : Atom :=
  match a with
  | .str s =>
    if r ≠ ['/'] then
      match AList.get? vm (alnStem s) with
      | some nv => Atom.str (nv ++ alnSuffix s)
      | none => a
    else a
  | _ => a

mutual
/-- the shape-preserving renaming of a tree -/
def renNode (vm : AList Str Str) : Node → Node
  | .mk v bs => .mk (v.map (renVar vm)) (renBranches vm bs)
def renBranches (vm : AList Str Str) : Branches → Branches
  | .nil => .nil
  | .atom r a rest => .atom r (renAtom vm r a) (renBranches vm rest)
  | .sub r n rest => .sub r (renNode vm n) (renBranches vm rest)
end

mutual
/-- every node has a variable, and it is a key of `vm` -/
def nodeMappable (vm : AList Str Str) : Node → Bool
  | .mk v bs => (match v with | some x => AList.contains vm x | none => false) && branchesMappable vm bs
def branchesMappable (vm : AList Str Str) : Branches → Bool
  | .nil => true
  | .atom _ _ rest => branchesMappable vm rest
  | .sub _ n rest => nodeMappable vm n && branchesMappable vm rest
end

mutual
/-- every node has a variable -/
def nodeAllVars : Node → Bool
  | .mk v bs => v.isSome && branchesAllVars bs
def branchesAllVars : Branches → Bool
  | .nil => true
  | .atom _ _ rest => branchesAllVars rest
  | .sub _ n rest => nodeAllVars n && branchesAllVars rest
end

mutual
theorem nodeMappable_iff (vm : AList Str Str) : ∀ (n : Node),
    nodeMappable vm n = true ↔ nodeAllVars n = true ∧ ∀ v ∈ n.vars, v ∈ AList.keys vm
  | .mk v bs => by
    have ih := branchesMappable_iff vm bs
    cases v with
    | none => simp [nodeMappable, nodeAllVars]
    | some x =>
      simp only [nodeMappable, nodeAllVars, Bool.and_eq_true, ih, contains_iff_mem_keys, Node.vars,
        Node.nodes, Option.isSome_some, true_and, List.map_append, List.map_cons, List.map_nil,
        List.mem_append, List.mem_cons, List.not_mem_nil, or_false]
      constructor
      · rintro ⟨h1, h2, h3⟩
        refine ⟨h2, ?_⟩
        rintro v (rfl | h)
        · exact h1
        · exact h3 v h
      · rintro ⟨h1, h2⟩
        exact ⟨h2 x (Or.inl rfl), h1, fun v hv => h2 v (Or.inr hv)⟩
theorem branchesMappable_iff (vm : AList Str Str) : ∀ (bs : Branches),
    branchesMappable vm bs = true ↔
      branchesAllVars bs = true ∧ ∀ v ∈ bs.nodes.map (·.1), v ∈ AList.keys vm
  | .nil => by simp [branchesMappable, branchesAllVars, Branches.nodes]
  | .atom _ _ rest => by
    simpa [branchesMappable, branchesAllVars, Branches.nodes] using branchesMappable_iff vm rest
  | .sub _ n rest => by
    have ih1 := nodeMappable_iff vm n
    have ih2 := branchesMappable_iff vm rest
    simp only [branchesMappable, branchesAllVars, Bool.and_eq_true, ih1, ih2, Branches.nodes,
      List.map_append, List.mem_append, Node.vars]
    constructor
    · rintro ⟨⟨h1, h2⟩, h3, h4⟩
      refine ⟨⟨h1, h3⟩, ?_⟩
      rintro v (h | h)
      · exact h2 v h
      · exact h4 v h
    · rintro ⟨⟨h1, h3⟩, h⟩
      exact ⟨⟨h1, fun v hv => h v (Or.inl hv)⟩, h3, fun v hv => h v (Or.inr hv)⟩
end

theorem mapVars_atom_eq (vm : AList Str Str) (r : Str) (a : Atom) (rest : Branches) :
    Branches.mapVars vm (.atom r a rest) =
      (Branches.mapVars vm rest).bind fun rest' => .ok (.atom r (renAtom vm r a) rest') := by
  cases a <;> simp only [Branches.mapVars, renAtom, alnStem, alnSuffix, List.append_assoc] <;> rfl

theorem except_if_bind {α β : Type} (c : Bool) (x : α) (e : PyErr) (f : α → Except PyErr β) :
    ((if c = true then Except.ok x else Except.error e) >>= f) =
      if c = true then f x else Except.error e := by
  cases c <;> rfl

mutual
/-- `_map_vars` either raises `KeyError` or returns the total renaming -/
theorem node_mapVars_eq (vm : AList Str Str) : ∀ (n : Node),
    n.mapVars vm =
      if nodeMappable vm n then .ok (renNode vm n) else .error (.other "KeyError")
  | .mk v bs => by
    have ih := branches_mapVars_eq vm bs
    simp only [Node.mapVars, ih, nodeMappable, renNode, except_if_bind]
    by_cases hb : branchesMappable vm bs = true
    · simp only [hb, if_true, Bool.and_true]
      cases v with
      | none => rfl
      | some x =>
        cases hg : AList.get? vm x with
        | none =>
          have : AList.contains vm x = false := by
            cases hc : AList.contains vm x with
            | false => rfl
            | true =>
              have := get?_isSome_iff.2 (contains_iff_mem_keys.1 hc)
              simp [hg] at this
          simp only [this, Bool.false_eq_true, if_false, hg]
          rfl
        | some nv =>
          have : AList.contains vm x = true :=
            contains_iff_mem_keys.2 (get?_isSome_iff.1 (by simp [hg]))
          simp only [this, if_true, Option.map_some, renVar, hg, Option.getD_some]
          rfl
    · simp only [hb, Bool.and_false, Bool.false_eq_true, if_false]
theorem branches_mapVars_eq (vm : AList Str Str) : ∀ (bs : Branches),
    bs.mapVars vm =
      if branchesMappable vm bs then .ok (renBranches vm bs) else .error (.other "KeyError")
  | .nil => rfl
  | .atom r a rest => by
    rw [mapVars_atom_eq, branches_mapVars_eq vm rest]
    simp only [branchesMappable, renBranches]
    by_cases hb : branchesMappable vm rest = true
    · simp only [hb, if_true]; rfl
    · simp only [hb, Bool.false_eq_true, if_false]; rfl
  | .sub r n rest => by
    have ih1 := node_mapVars_eq vm n
    have ih2 := branches_mapVars_eq vm rest
    simp only [Branches.mapVars, ih1, ih2, branchesMappable, renBranches, except_if_bind]
    by_cases h1 : nodeMappable vm n = true <;> by_cases h2 : branchesMappable vm rest = true <;>
      simp only [h1, h2, if_true, Bool.and_true, Bool.and_false, Bool.false_eq_true, if_false,
        Bool.and_self] <;> rfl
end

mutual
theorem renNode_vars (vm : AList Str Str) : ∀ (n : Node),
    (renNode vm n).vars = n.vars.map (renVar vm)
  | .mk v bs => by
    have ih := renBranches_vars vm bs
    cases v <;> simp [renNode, Node.vars, Node.nodes, ih]
theorem renBranches_vars (vm : AList Str Str) : ∀ (bs : Branches),
    (renBranches vm bs).nodes.map (·.1) = (bs.nodes.map (·.1)).map (renVar vm)
  | .nil => rfl
  | .atom _ _ rest => by simpa [renBranches, Branches.nodes] using renBranches_vars vm rest
  | .sub _ n rest => by
    have ih1 := renNode_vars vm n
    have ih2 := renBranches_vars vm rest
    simp only [Node.vars] at ih1
    simp [renBranches, Branches.nodes, ih1, ih2]
end

/-! clauses of `renAtom` -/

theorem renAtom_concept (vm : AList Str Str) (a : Atom) : renAtom vm ['/'] a = a := by
  cases a <;> simp [renAtom]

theorem renAtom_none (vm : AList Str Str) (r : Str) : renAtom vm r .none = .none := rfl

theorem renAtom_num (vm : AList Str Str) (r t : Str) : renAtom vm r (.num t) = .num t := rfl

theorem renAtom_ref {vm : AList Str Str} {r s nv : Str} (hr : r ≠ ['/'])
    (h : AList.get? vm (alnStem s) = some nv) :
    renAtom vm r (.str s) = .str (nv ++ alnSuffix s) := by
  simp [renAtom, hr, h]

theorem renAtom_other {vm : AList Str Str} {r s : Str} (h : AList.get? vm (alnStem s) = none) :
    renAtom vm r (.str s) = .str s := by
  simp only [renAtom, h]; split <;> rfl

/-! ### names generated from clean templates are clean -/

/-- a character that may occur in a variable: neither `'~'` nor `'"'` -/
def cleanChar (c : Char) : Bool := c != '~' && c != '"'

def cleanStr (s : Str) : Bool := s.all cleanChar

def fmtClean : Fmt → Bool
  | [] => true
  | .lit s :: r => cleanStr s && fmtClean r
  | _ :: r => fmtClean r

theorem natToStr_clean (n : Nat) : cleanStr (natToStr n) = true := by
  simp only [cleanStr, List.all_eq_true]
  intro c hc
  have := natToStr_isDigit hc
  simp only [Char.isDigit, Bool.and_eq_true, decide_eq_true_eq] at this
  simp only [cleanChar, Bool.and_eq_true, bne_iff_ne, ne_eq]
  constructor <;> (intro e; subst e; revert this; decide)

theorem render_clean {fmt : Fmt} {pre : Str} (hf : fmtClean fmt = true) (hp : cleanStr pre = true)
    (i : Nat) : cleanStr (fmt.render pre i) = true := by
  induction fmt with
  | nil => rfl
  | cons p fmt ih =>
    rw [Fmt.render_cons]
    simp only [cleanStr, List.all_append, Bool.and_eq_true] at ih ⊢
    cases p with
    | lit s =>
      simp only [fmtClean, Bool.and_eq_true] at hf
      exact ⟨hf.1, ih hf.2⟩
    | pre => exact ⟨hp, ih hf⟩
    | i => exact ⟨natToStr_clean i, ih hf⟩
    | j =>
      refine ⟨?_, ih hf⟩
      simp only [pieceRender]
      split
      · rfl
      · exact natToStr_clean _

theorem defaultPrefix_clean {isAlpha : Char → Bool} {lower : Char → Str}
    (hl : ∀ c, isAlpha c = true → cleanStr (lower c) = true) (t : Option Tgt) :
    cleanStr (defaultPrefix isAlpha lower t) = true := by
  unfold defaultPrefix
  split
  · split
    · rename_i c hc
      exact hl c (by simpa using List.find?_some hc)
    · rfl
  · rfl

theorem cleanStr_spec {s : Str} (h : cleanStr s = true) : '~' ∉ s ∧ s.head? ≠ some '"' := by
  simp only [cleanStr, List.all_eq_true, cleanChar, Bool.and_eq_true, bne_iff_ne, ne_eq] at h
  constructor
  · intro hm; exact (h _ hm).1 rfl
  · cases s with
    | nil => simp
    | cons c s =>
      simp only [List.head?_cons]
      intro e; injection e with e
      exact (h c List.mem_cons_self).2 e

end Penman.RV

/-
  Penman.Proofs.NormalFormMain — composition of C01, C02, C05a, C09, C13 for the normal-form
  clause of C20: one graph through `processTree` (first and second pass), then streams of
  graphs through `processInput`.
-/
import Penman.Proofs.NormalFormLayout
import Penman.Proofs.NormalFormText
import Penman.Proofs.NormalFormCli
import Penman.Props.C02
import Penman.Props.C05a
import Penman.Props.C13
namespace Penman.NF
open Penman Penman.RA Penman.Framing

/-! ### small facts about the vocabulary -/

theorem metaDict_of_wfMeta {isSpace : Char → Bool} {md : AList Str Str} (h : Spec.WfMeta isSpace md) :
    MetaDict md := by
  unfold MetaDict
  exact h.1.imp (fun hne => hne)

theorem rearrangeOpt_metadata (m : Model) (re : Option (List KeyFn × Bool)) (t : Tree) :
    (rearrangeOpt m re t).metadata = t.metadata := by
  unfold rearrangeOpt
  split <;> rfl

theorem nfTree_metadata (m : Model) (re : Option (List KeyFn × Bool)) (t : Tree) :
    (nfTree m re t).metadata = t.metadata := rearrangeOpt_metadata m re _

/-- the node of `rearrangeOpt` is a `rearrangeNode` of the node, or the node itself -/
theorem rearrangeOpt_node (m : Model) (re : Option (List KeyFn × Bool)) (t : Tree) :
    (rearrangeOpt m re t).node = t.node ∨
      ∃ vars key, (rearrangeOpt m re t).node = rearrangeNode m vars key t.node := by
  unfold rearrangeOpt
  split
  · exact Or.inr ⟨_, _, rfl⟩
  · exact Or.inl rfl

theorem rearrangeOpt_idem (m : Model) (re : Option (List KeyFn × Bool)) (t : Tree) :
    rearrangeOpt m re (rearrangeOpt m re t) = rearrangeOpt m re t := by
  unfold rearrangeOpt
  split
  · exact rearrange_idem m _ _ t
  · rfl

theorem canonStep_false (m : Model) (t : Tree) : canonStep m false t = .ok t := rfl

theorem canonStep_meta {m : Model} {canon : Bool} {t t' : Tree} (h : canonStep m canon t = .ok t') :
    t'.metadata = t.metadata := by
  cases canon with
  | false => cases h; rfl
  | true => exact (C13.canonicalizeRoles_shape h).1

/-! ### one graph, first pass -/

/-- the command on one tree: canonicalise (if asked), and print the normal-form tree of the
    result; status 0 -/
theorem processTree_nf (u : UTables) (m : Model) (canon : Bool) (re : Option (List KeyFn × Bool))
    (i : Indent) (c : Bool) (T T' : Tree) (hc : canonStep m canon T = .ok T')
    (hl : WfLayout u.isAlpha m T'.node) (hmd : MetaDict T'.metadata) :
    processTree u m (nfOpts canon re i c) T = .ok (format (nfTree m re T') i c, 0) := by
  obtain ⟨g, h1, h2⟩ := C02P.C02_layout u.isAlpha m T' hl hmd
  have hin : processIn u m (nfOpts canon re i c) T = .ok g := by
    unfold canonStep at hc
    cases canon with
    | false =>
      simp only [Bool.false_eq_true, if_false, pure, Except.pure, Except.ok.injEq] at hc
      subst hc
      simp [processIn, nfOpts, bind, Except.bind, h1, pure, Except.pure]
    | true =>
      simp only [if_true] at hc
      simp [processIn, nfOpts, bind, Except.bind, hc, h1, pure, Except.pure]
  have hout : processOut u m (nfOpts canon re i c) g = .ok (nfTree m re T') := by
    simp only [processOut, nfOpts, h2, nfTree, rearrangeOpt, bind, Except.bind, pure, Except.pure]
    cases re with
    | none => rfl
    | some p => rfl
  simp only [processTree, hin, bind, Except.bind]
  simp only [nfOpts, Bool.false_eq_true, if_false] at hout ⊢
  simp only [hout, pure, Except.pure]

/-! ### the printed tree is a fixed point of every step -/

section Fixed
variable (u : UTables) (m : Model) (canon : Bool) (re : Option (List KeyFn × Bool))

/-- `WfLayout` of the printed tree -/
theorem nfTree_wfLayout (T' : Tree) (hl : WfLayout u.isAlpha m T'.node) :
    WfLayout u.isAlpha m (nfTree m re T').node := by
  have h1 := wfLayout_dropNull u.isAlpha m T'.node hl
  rcases rearrangeOpt_node m re ⟨dropNullConcept T'.node, T'.metadata⟩ with e | ⟨vars, key, e⟩
  · unfold nfTree; rw [e]; exact h1
  · unfold nfTree; rw [e]; exact wfLayout_rearrange u.isAlpha m m vars key _ h1

/-- no empty concept slot is left -/
theorem nfTree_noNull (T' : Tree) : noNullN (nfTree m re T').node = true := by
  have h1 := noNull_dropNull T'.node
  rcases rearrangeOpt_node m re ⟨dropNullConcept T'.node, T'.metadata⟩ with e | ⟨vars, key, e⟩
  · unfold nfTree; rw [e]; exact h1
  · unfold nfTree; rw [e]; exact noNull_rearrange m vars key _ h1

/-- the printed tree is its own normal form -/
theorem nfTree_idem (T' : Tree) : nfTree m re (nfTree m re T') = nfTree m re T' := by
  have h := C02P.dropNull_id _ (nfTree_noNull m re T')
  have e : (⟨dropNullConcept (nfTree m re T').node, (nfTree m re T').metadata⟩ : Tree) = nfTree m re T' := by
    rw [h]
  show rearrangeOpt m re ⟨dropNullConcept (nfTree m re T').node, (nfTree m re T').metadata⟩ = _
  rw [e]
  exact rearrangeOpt_idem m re _

/-- grammar-validity of the printed tree -/
theorem nfTree_wfText (cfg : LexCfg) (T' : Tree) (hw : Spec.WfTreeText cfg T'.node) :
    Spec.WfTreeText cfg (nfTree m re T').node := by
  have h1 := wfTreeText_dropNull cfg T'.node hw
  rcases rearrangeOpt_node m re ⟨dropNullConcept T'.node, T'.metadata⟩ with e | ⟨vars, key, e⟩
  · unfold nfTree; rw [e]; exact h1
  · unfold nfTree; rw [e]; exact wfTreeText_rearrange cfg m vars key _ h1

/-- every role of the printed tree is a fixed point of `canonicalize_role`: canonicalising it
    again changes nothing -/
theorem nfTree_canon (hm : canon = true → ModelWf m) (T T' : Tree) (hc : canonStep m canon T = .ok T') :
    canonStep m canon (nfTree m re T') = .ok (nfTree m re T') := by
  cases canon with
  | false => rfl
  | true =>
    have hw := hm rfl
    obtain ⟨n', hn, rfl⟩ := C13.canonicalizeRoles_ok.1 hc
    have h0 : allRolesN (fun r => RoleRewritten m r r) n' :=
      (allRolesN_sameShape _ n').2 (Role.sameShape_idem_node hw.2.1 hw.2.2 T.node n' (Role.canonNode_shape m _ _ hn))
    have h1 := allRolesN_dropNull _ n' h0
    have h2 : allRolesN (fun r => RoleRewritten m r r) (nfTree m re { T with node := n' }).node := by
      rcases rearrangeOpt_node m re ⟨dropNullConcept n', T.metadata⟩ with e | ⟨vars, key, e⟩
      · unfold nfTree; rw [e]; exact h1
      · unfold nfTree; rw [e]; exact rearrangeNode_stable (allRoles_stable _) m vars key _ h1
    have h3 := Role.canonNode_fixed m _ ((allRolesN_sameShape _ _).1 h2)
    exact C13.canonicalizeRoles_ok.2 ⟨_, h3, rfl⟩

/-- grammar-validity survives the canonicalisation step -/
theorem canonStep_wfText (cfg : LexCfg) (hm : canon = true → ModelWf m ∧ NormRolesText cfg m = true)
    (T T' : Tree) (hc : canonStep m canon T = .ok T') (hw : Spec.WfTreeText cfg T.node) :
    Spec.WfTreeText cfg T'.node := by
  cases canon with
  | false => cases hc; exact hw
  | true =>
    obtain ⟨hwf, hn⟩ := hm rfl
    obtain ⟨n', hn', rfl⟩ := C13.canonicalizeRoles_ok.1 hc
    exact wfTreeText_canon hn hwf.2.1 hn' hw

end Fixed

/-! ### one graph, both passes -/

/-- everything the second pass needs, for one input tree `T` that the parser produced
    (grammar-valid, `WfMeta`) and whose canonicalised form `T'` is `WfLayout`:
    with `R := nfTree m re T'` (the tree printed by the first pass)
    * the first pass prints `format R`,
    * `R` is grammar-valid with the metadata of `T` (so its text parses back to `R`),
    * the second pass on `R` prints `format R` again. -/
theorem tree_normal_form {cfg : LexCfg} (u : UTables) (m : Model) (canon : Bool)
    (re : Option (List KeyFn × Bool)) (i : Indent) (c : Bool)
    (hm : canon = true → ModelWf m ∧ NormRolesText cfg m = true)
    (T T' : Tree) (hwt : Spec.WfTreeText cfg T.node) (hwm : Spec.WfMeta u.isSpace T.metadata)
    (hc : canonStep m canon T = .ok T') (hl : WfLayout u.isAlpha m T'.node) :
    processTree u m (nfOpts canon re i c) T = .ok (format (nfTree m re T') i c, 0) ∧
    Spec.WfTreeText cfg (nfTree m re T').node ∧
    Spec.WfMeta u.isSpace (nfTree m re T').metadata ∧
    processTree u m (nfOpts canon re i c) (nfTree m re T') = .ok (format (nfTree m re T') i c, 0) := by
  have hmeta : T'.metadata = T.metadata := canonStep_meta hc
  have hmd' : Spec.WfMeta u.isSpace T'.metadata := by rw [hmeta]; exact hwm
  have hR : Spec.WfMeta u.isSpace (nfTree m re T').metadata := by rw [nfTree_metadata]; exact hmd'
  refine ⟨processTree_nf u m canon re i c T T' hc hl (metaDict_of_wfMeta hmd'),
    nfTree_wfText m re cfg T' (canonStep_wfText m canon cfg hm T T' hc hwt), hR, ?_⟩
  have h2 := processTree_nf u m canon re i c (nfTree m re T') (nfTree m re T')
    (nfTree_canon m canon re (fun h => (hm h).1) T T' hc) (nfTree_wfLayout u m re T' hl)
    (metaDict_of_wfMeta hR)
  rwa [nfTree_idem] at h2

/-! ### streams -/

/-- data of one graph of a stream: its text `s`, the parsed tree `T`, its canonicalised form `T'` -/
structure GraphIn where
  s : Str
  T : Tree
  T' : Tree

/-- the hypotheses on one graph of the stream -/
def GraphIn.Ok (cfg : LexCfg) (u : UTables) (m : Model) (canon : Bool) (g : GraphIn) : Prop :=
  (∃ c0, parseTree c0 u.isSpace (lexStr cfg cfg.penmanOrder g.s) = .ok (g.T, [])) ∧
  canonStep m canon g.T = .ok g.T' ∧ WfLayout u.isAlpha m g.T'.node

theorem parse_of_parseTree {cfg : LexCfg} {isSpace : Char → Bool} {s : Str} {T : Tree}
    (h : ∃ c0, parseTree c0 isSpace (lexStr cfg cfg.penmanOrder s) = .ok (T, [])) :
    C01.parse cfg isSpace s = .ok T := by
  obtain ⟨c0, h⟩ := h
  obtain ⟨r', h', hr, _⟩ := parseTree_sim (c' := ⟨eofPos (lexStr cfg cfg.penmanOrder s)⟩) h
    (LSim.refl_nil isSpace _)
  rw [hr.nil_inv] at h'
  simp [C01.parse, parseToks, h', Except.map]

/-- **streams, both passes.** An input whose token stream is — up to line numbers and
    offsets — the concatenation of the token streams of texts `gₖ.s` that each parse completely:
    the command prints `streamOut true [format Rₖ]`, and printing is idempotent. -/
theorem stream_normal_form {cfg : LexCfg} (hw : Spec.FmtCfgWf cfg = true) (hsep : SepChar cfg '\n')
    (u : UTables) (m : Model) (canon : Bool) (re : Option (List KeyFn × Bool)) (i : Indent) (c : Bool)
    (hm : canon = true → ModelWf m ∧ NormRolesText cfg m = true)
    (x : Str) (gs : List GraphIn) (hg : ∀ g ∈ gs, g.Ok cfg u m canon)
    (hx : LSim u.isSpace [] (gs.map fun g => lexStr cfg cfg.penmanOrder g.s).flatten
      (lexStr cfg cfg.penmanOrder x)) :
    let out1 := streamOut true (gs.map fun g => format (nfTree m re g.T') i c)
    processInput cfg u m (nfOpts canon re i c) x = (out1, .ok 0) ∧
    processInput cfg u m (nfOpts canon re i c) out1 = (out1, .ok 0) := by
  intro out1
  have key : ∀ g ∈ gs, _ := fun g hgm =>
    have hp := parse_of_parseTree (hg g hgm).1
    have hwf := C01.parse_wf hw u.isSpace g.s g.T hp
    tree_normal_form (cfg := cfg) u m canon re i c hm g.T g.T' hwf.1 hwf.2 (hg g hgm).2.1 (hg g hgm).2.2
  have hfold : ∀ (l : List (List Tok × Tree × Str × Nat)), (∀ p ∈ l, p.2.2.2 = 0) →
      l.foldl (fun a p => a ||| p.2.2.2) 0 = 0 := by
    intro l
    induction l with
    | nil => intro _; rfl
    | cons p l ih =>
      intro h
      simp only [List.foldl_cons, h p (by simp)]
      exact ih (fun q hq => h q (by simp [hq]))
  constructor
  · -- first pass
    have := processInput_stream cfg hsep u m (nfOpts canon re i c) x
      (gs.map fun g => (lexStr cfg cfg.penmanOrder g.s, g.T, format (nfTree m re g.T') i c, 0))
      (by
        intro p hp; simp only [List.mem_map] at hp
        obtain ⟨g, hgm, rfl⟩ := hp; exact (hg g hgm).1)
      (by
        intro p hp; simp only [List.mem_map] at hp
        obtain ⟨g, hgm, rfl⟩ := hp; exact (key g hgm).1)
      (by simpa [List.map_map, Function.comp_def] using hx)
    rw [this, hfold _ (by intro p hp; simp only [List.mem_map] at hp; obtain ⟨g, _, rfl⟩ := hp; rfl)]
    simp [out1, List.map_map, Function.comp_def]
  · -- second pass
    by_cases hnil : gs = []
    · subst hnil
      simp only [out1, List.map_nil, streamOut]
      have := processInput_stream cfg hsep u m (nfOpts canon re i c) [] [] (by simp) (by simp)
        (by simp [lexStr, lexLines, splitLines, lexLinesFrom, lexLine_nil]; exact .nil)
      simpa [streamOut] using this
    · have hss : (gs.map fun g => format (nfTree m re g.T') i c) ≠ [] := by simpa using hnil
      have hsim := lexJoin_sim u.isSpace cfg cfg.penmanOrder 1 ['\n'] (Or.inr rfl)
        (gs.map fun g => format (nfTree m re g.T') i c)
        (by
          intro s hs; simp only [List.mem_map] at hs
          obtain ⟨g, _, rfl⟩ := hs; exact format_noCR _ _ _) 1
      rw [← streamOut_join _ hss] at hsim
      have := processInput_stream cfg hsep u m (nfOpts canon re i c) out1
        (gs.map fun g => (lexStr cfg cfg.penmanOrder (format (nfTree m re g.T') i c), nfTree m re g.T',
          format (nfTree m re g.T') i c, 0))
        (by
          intro p hp; simp only [List.mem_map] at hp
          obtain ⟨g, hgm, rfl⟩ := hp
          have hk := key g hgm
          refine ⟨⟨(0, 0)⟩, ?_⟩
          have := parseTree_format hw u.isSpace (nfTree m re g.T').node (nfTree m re g.T').metadata
            hk.2.1 hk.2.2.1 i c ⟨(0, 0)⟩
          exact this)
        (by
          intro p hp; simp only [List.mem_map] at hp
          obtain ⟨g, hgm, rfl⟩ := hp; exact (key g hgm).2.2.2)
        (by
          have := hsim.symm_nil
          simpa [List.map_map, Function.comp_def, lexStr, lexLines, out1] using this)
      rw [this, hfold _ (by intro p hp; simp only [List.mem_map] at hp; obtain ⟨g, _, rfl⟩ := hp; rfl)]
      simp [out1, List.map_map, Function.comp_def]

end Penman.NF

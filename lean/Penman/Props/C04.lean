/-
  # C04 — Decoding yields exactly the documented reading of the notation

  Reference reading: `Penman.Spec.Reading` (`written` → `denote` → `read`), written
  from docs/notation.rst and docs/structures.rst.  Model function: `Penman.interpret`
  (`penman.layout.interpret`), `Graph.mk'`, `Graph.getTop`, `Graph.variables`,
  `getAlignments` (`penman.surface.alignments` / `role_alignments`).

  Clause of the property text                                   ↦ theorem
  ------------------------------------------------------------------------------------
  "The top … and ordered triples obtained by decoding are those
   of the documented reading" (all trees, also ill-formed ones)  ↦ `C04`
  "per node one instance triple (null concept, listed first, if
   none is written) and one triple per branch in depth-first
   order"                                                        ↦ `C04` + definition of `Node.written`
                                                                    (`reading_null_instance_first`)
  "an inverted role on a branch to a node or to another node's
   variable is deinverted once with source and target swapped"   ↦ `C04` + `reading_swaps_node_targets`
  "(never, under the no-op model)"                               ↦ `reading_noop_never_swaps`
  "an inverted role on a constant is left as written"            ↦ `reading_constant_as_written`
  "… variables …"                                                ↦ `C04_variables`
  "Alignment suffixes are never part of a triple"                ↦ `C04_no_tilde`
  "reported separately, attached to the triple whose role or
   target they followed in the text"                             ↦ `C04_alignments`
  "a `~` inside a quoted string is content"                      ↦ `splitTarget` (spec), `C04_no_tilde`,
                                                                    example `quoted_tilde`
  domain: "all trees on which the model is defined"              ↦ `C04_domain` (interpret succeeds
                                                                    exactly when the reading exists)

  Roles and the colon: `Graph.__init__` adds a missing leading colon to every role
  (`ensureColon`), so `g.triples = r.triples.map colon`; for trees whose roles are
  written with their colon (every parsed tree) this is `g.triples = r.triples`
  (`C04_colon`).  The alignment tables are keyed by the triple *as denoted*, i.e.
  before that normalisation (see OBSERVATION at the end).

  Nothing is left unproved in this file.
-/
import Penman.Proofs.Decoded
import Penman.Generated
namespace Penman.Props.C04
open Penman Penman.Spec.Reading Penman.Interp

/-! ## the main statement -/

/-- **C04.** Whenever `interpret` succeeds (any tree, any model), the documented
    reading exists, and top and ordered triples are those of the reading. -/
theorem C04 (isAlpha : Char → Bool) (m : Model) (t : Tree) (g : Graph)
    (h : interpret isAlpha m t = .ok g) :
    ∃ r, read isAlpha m t.node = .ok r ∧
      g.getTop = r.top ∧ g.top = r.top ∧ r.top = t.node.var ∧
      g.triples = r.triples.map colon := by
  obtain ⟨v, ds, es, D⟩ := decoded h
  refine ⟨⟨some v, ds⟩, D.rd, D.getTop, D.top, D.var.symm, ?_⟩
  rw [D.triples]; simp [Reading.triples]

/-- the interpreter is defined exactly on the trees that have a reading
    (all nodes have a variable, no numeric atoms, alignment strings parse) -/
theorem C04_domain (isAlpha : Char → Bool) (m : Model) (t : Tree) :
    (∃ g, interpret isAlpha m t = .ok g) ↔ (∃ r, read isAlpha m t.node = .ok r) := by
  constructor
  · rintro ⟨g, h⟩; obtain ⟨r, hr, -⟩ := C04 isAlpha m t g h; exact ⟨r, hr⟩
  · rintro ⟨r, h⟩; exact interpret_defined h

/-- if every role is written with its colon, the triples are literally those of the reading -/
theorem C04_colon (isAlpha : Char → Bool) (m : Model) (t : Tree) (g : Graph) (r : Reading)
    (h : interpret isAlpha m t = .ok g) (hr : read isAlpha m t.node = .ok r)
    (hc : ∀ tr ∈ r.triples, startsWith [':'] tr.role = true) : g.triples = r.triples := by
  obtain ⟨r', hr', -, -, -, ht⟩ := C04 isAlpha m t g h
  rw [hr] at hr'; cases hr'
  rw [ht]
  conv => rhs; rw [← List.map_id r.triples]
  apply List.map_congr_left
  intro tr htr
  simp [colon, ensureColon, hc tr htr]

/-- **variables**: `g.variables()` is the set of sources of the reading, which is the set of
    node variables of the tree (in first-occurrence order of the sources). -/
theorem C04_variables (isAlpha : Char → Bool) (m : Model) (t : Tree) (g : Graph) (r : Reading)
    (h : interpret isAlpha m t = .ok g) (hr : read isAlpha m t.node = .ok r) :
    g.variables = dedup (r.triples.map (·.src)) ∧
    (∀ x, x ∈ g.variables ↔ (x ∈ t.node.vars ∨ x ∈ r.triples.map (·.src))) ∧
    (∀ x, x ∈ g.variables ↔ x ∈ t.node.vars) := by
  obtain ⟨v, ds, es, D⟩ := decoded h
  rw [D.rd] at hr; cases hr
  refine ⟨?_, ?_, D.mem_variables⟩
  · rw [D.variables_eq]; simp only [Reading.triples, List.map_map]; rfl
  · intro x
    have h1 := D.mem_variables x
    have h2 := D.mem_srcs x
    simp only [Reading.triples, List.map_map] at h2 ⊢
    rw [h1]
    constructor
    · exact fun hx => .inl hx
    · rintro (hx | hx)
      · exact hx
      · exact h2.1 hx

/-- **alignments**: `alignments(g)` / `role_alignments(g)` list, in text order, for each
    distinct triple the alignment written after the target / role of its *first* written
    occurrence (later duplicates of the triple are ignored). -/
theorem C04_alignments (isAlpha : Char → Bool) (m : Model) (t : Tree) (g : Graph) (r : Reading)
    (h : interpret isAlpha m t = .ok g) (hr : read isAlpha m t.node = .ok r) :
    getAlignments g false = r.alignments.map (fun p => (p.1, Epi.aln p.2.1 p.2.2)) ∧
    getAlignments g true = r.roleAlignments.map (fun p => (p.1, Epi.roleAln p.2.1 p.2.2)) := by
  obtain ⟨v, ds, es, D⟩ := decoded h
  rw [D.rd] at hr; cases hr
  exact ⟨D.alignments, D.roleAlignments⟩

/-- **no alignment suffix inside a triple**: no role of `g` contains `~`; a string target
    contains `~` only if it is a quoted string (then it is the text through its last `"`,
    by `C04`/`splitTarget`) or the variable of a node of the tree (hand-built trees only). -/
theorem C04_no_tilde (isAlpha : Char → Bool) (m : Model) (t : Tree) (g : Graph)
    (h : interpret isAlpha m t = .ok g) :
    ∀ tr ∈ g.triples, '~' ∉ tr.role ∧
      ∀ s, tr.tgt = .str s → '~' ∈ s → s.head? = some '"' ∨ s ∈ t.node.vars := by
  obtain ⟨v, ds, es, D⟩ := decoded h
  intro tr htr
  rw [D.triples] at htr
  obtain ⟨d, hd, rfl⟩ := List.mem_map.1 htr
  exact D.no_tilde hd

/-! ## the reading says what the property text says -/

/-- a node without node label is read with `(v :instance None)` first among its relations -/
theorem reading_null_instance_first (v : Option Str) (bs : Branches) (h : labelled bs = false) :
    Node.written (.mk v bs) = ⟨v, ['/'], .atom .none⟩ :: Branches.written v bs := by
  simp [Node.written, h]

/-- under the no-op model nothing is ever swapped: every triple keeps its writer as source -/
theorem reading_noop_never_swaps (isAlpha : Char → Bool) (m : Model) (vars : List Str) (w : Written)
    (d : Denoted) (hm : m.noop = true) (h : denote isAlpha m vars w = .ok d) :
    d.swapped = false ∧ d.triple.src = d.ctx ∧ d.triple.role = roleName w.role := by
  obtain ⟨-, -, hs⟩ := denote_shape h
  cases hs with
  | opens nv h1 h2 h3 h4 => simp only [hm, Bool.not_true, Bool.false_and] at h3; simp [h4, h3, orientTriple]
  | null h1 h2 h3 h4 => simp [h4, h3]
  | str raw h1 h2 h3 h4 => simp only [hm, Bool.not_true, Bool.false_and] at h3; simp [h4, h3, orientTriple]

/-- an inverted role on a constant (a target that is no node variable) is left as written -/
theorem reading_constant_as_written (isAlpha : Char → Bool) (m : Model) (vars : List Str) (c role raw : Str)
    (d : Denoted) (hv : (splitTarget raw).1 ∉ vars)
    (h : denote isAlpha m vars ⟨some c, role, .atom (.str raw)⟩ = .ok d) :
    d.swapped = false ∧ d.triple = ⟨c, roleName role, .str (splitTarget raw).1⟩ := by
  obtain ⟨hc, -, hs⟩ := denote_shape h
  simp only [Option.some.injEq] at hc
  cases hs with
  | opens nv h1 => cases h1
  | null h1 => cases h1
  | str raw' h1 h2 h3 h4 =>
    simp only [WTarget.atom.injEq, Atom.str.injEq] at h1; subst h1
    simp only [hv, decide_false, Bool.and_false] at h3
    simp [h4, h3, orientTriple, hc]

/-- an inverted role on a nested node, or on the variable of a node of the tree, is swapped
    exactly once by `Model.invert` (source and target exchanged) unless the model is no-op -/
theorem reading_swaps_node_targets (isAlpha : Char → Bool) (m : Model) (vars : List Str) (c role : Str)
    (hm : m.noop = false) (hi : m.isRoleInverted (roleName role) = true) :
    (∀ nv d, denote isAlpha m vars ⟨some c, role, .opens (some nv)⟩ = .ok d →
      d.swapped = true ∧ d.triple = ⟨nv, m.invertRole (roleName role), .str c⟩) ∧
    (∀ raw d, (splitTarget raw).1 ∈ vars → denote isAlpha m vars ⟨some c, role, .atom (.str raw)⟩ = .ok d →
      d.swapped = true ∧ d.triple = ⟨(splitTarget raw).1, m.invertRole (roleName role), .str c⟩) := by
  constructor
  · intro nv d h
    obtain ⟨hc, -, hs⟩ := denote_shape h
    simp only [Option.some.injEq] at hc
    cases hs with
    | null h1 => cases h1
    | str raw' h1 => cases h1
    | opens nv' h1 h2 h3 h4 =>
      simp only [WTarget.opens.injEq, Option.some.injEq] at h1; subst h1
      simp only [hm, hi, Bool.not_false, Bool.and_self] at h3
      simp [h4, h3, orientTriple, Model.invert, hc]
  · intro raw d hv h
    obtain ⟨hc, -, hs⟩ := denote_shape h
    simp only [Option.some.injEq] at hc
    cases hs with
    | opens nv h1 => cases h1
    | null h1 => cases h1
    | str raw' h1 h2 h3 h4 =>
      simp only [WTarget.atom.injEq, Atom.str.injEq] at h1; subst h1
      simp only [hm, hi, hv, Bool.not_false, Bool.and_self, decide_true] at h3
      simp [h4, h3, orientTriple, Model.invert, hc]

/-! ## non-vacuity: concrete trees -/

private def s (x : String) : Str := x.toList
private def T (src role tgt : String) : Triple := ⟨s src, s role, .str (s tgt)⟩

/-- the docstring example of `node_contexts`:
    `(a / alpha :attr val :ARG0 (b / beta :ARG0 (g / gamma)) :ARG0-of g)` -/
def exDoc : Tree := ⟨.mk (some (s "a")) (.atom (s "/") (.str (s "alpha")) (.atom (s ":attr") (.str (s "val"))
  (.sub (s ":ARG0") (.mk (some (s "b")) (.atom (s "/") (.str (s "beta"))
      (.sub (s ":ARG0") (.mk (some (s "g")) (.atom (s "/") (.str (s "gamma")) .nil)) .nil)))
  (.atom (s ":ARG0-of") (.str (s "g")) .nil)))), []⟩

/-- hypotheses of `C04` are satisfiable, and its conclusion is the expected graph -/
example : ((interpret isAsciiAlpha Generated.defaultModel exDoc).map fun g => (g.getTop, g.triples)).toOption =
    some (some (s "a"),
      [T "a" ":instance" "alpha", T "a" ":attr" "val", T "a" ":ARG0" "b", T "b" ":instance" "beta",
       T "b" ":ARG0" "g", T "g" ":instance" "gamma", T "g" ":ARG0" "a"]) := by decide

example : ((read isAsciiAlpha Generated.defaultModel exDoc.node).map fun r => (r.top, r.triples)).toOption =
    some (some (s "a"),
      [T "a" ":instance" "alpha", T "a" ":attr" "val", T "a" ":ARG0" "b", T "b" ":instance" "beta",
       T "b" ":ARG0" "g", T "g" ":instance" "gamma", T "g" ":ARG0" "a"]) := by decide

/-- no-op model (finding F11, repaired): `(a / x :R (b / y) :R-of b)` keeps `:R-of` on both -/
def exNoop : Tree := ⟨.mk (some (s "a")) (.atom (s "/") (.str (s "x"))
  (.sub (s ":R") (.mk (some (s "b")) (.atom (s "/") (.str (s "y")) .nil))
  (.atom (s ":R-of") (.str (s "b")) .nil))), []⟩

example : ((interpret isAsciiAlpha Generated.noopModel exNoop).map (·.triples)).toOption =
    some [T "a" ":instance" "x", T "a" ":R" "b", T "b" ":instance" "y", T "a" ":R-of" "b"] := by decide
example : ((interpret isAsciiAlpha Generated.defaultModel exNoop).map (·.triples)).toOption =
    some [T "a" ":instance" "x", T "a" ":R" "b", T "b" ":instance" "y", T "b" ":R" "a"] := by decide

/-- an ill-formed tree: no node label on `a`, a duplicate triple whose second occurrence alone
    carries an alignment, an inverted role on a constant, `~` inside a quoted string:
    `(a :R b :R b~e.2 :mod-of 7 :url "u~v"~3 :ARG1~e.4,5 (b))` -/
def exIll : Tree := ⟨.mk (some (s "a"))
  (.atom (s ":R") (.str (s "b")) (.atom (s ":R") (.str (s "b~e.2")) (.atom (s ":mod-of") (.str (s "7"))
  (.atom (s ":url") (.str (s "\"u~v\"~3"))
  (.sub (s ":ARG1~e.4,5") (.mk (some (s "b")) .nil) .nil))))), []⟩

example : ((interpret isAsciiAlpha Generated.defaultModel exIll).map fun g =>
      (g.triples, getAlignments g false, getAlignments g true)).toOption =
    some ([⟨s "a", s ":instance", .none⟩, T "a" ":R" "b", T "a" ":R" "b", T "a" ":mod-of" "7",
           T "a" ":url" "\"u~v\"", T "a" ":ARG1" "b", ⟨s "b", s ":instance", .none⟩],
          -- the alignment `~e.2` of the *second* `(a :R b)` is dropped: first occurrence wins
          [(T "a" ":url" "\"u~v\"", .aln none [3])],
          [(T "a" ":ARG1" "b", .roleAln (some (s "e.")) [4, 5])]) := by decide

/-- `quoted_tilde`: a `~` inside the quotes is content, the suffix after the last quote is not -/
example : splitTarget (s "\"http://x/~u\"~e.7") = (s "\"http://x/~u\"", some (s "~e.7")) := by decide
example : splitTarget (s "b~e.7") = (s "b", some (s "e.7")) := by decide

/-! ## OBSERVATION (candidate finding, hand-built trees only)

`Graph.__init__` normalises the roles of the *triples* (`_ensure_colon`) but not the keys
of `epidata`.  For a tree whose roles lack the colon — the example in the docstring of
`penman.layout.interpret` itself: `Tree(('b', [('/', 'bark-01'), ('ARG0', ('d', [('/', 'dog')]))]))`
— the markers are filed under `('b', 'ARG0', 'd')` while the graph holds `('b', ':ARG0', 'd')`:
the `Push` is unreachable, `node_contexts` answers `None` for the nested node.  Real code:
`layout.node_contexts(layout.interpret(t))` = `['b', 'b', None]`.  Parsed trees always carry
the colon, so `decode` is not affected; C14 states the hypothesis explicitly. -/
def exNoColon : Tree := ⟨.mk (some (s "b")) (.atom (s "/") (.str (s "bark-01"))
  (.sub (s "ARG0") (.mk (some (s "d")) (.atom (s "/") (.str (s "dog")) .nil)) .nil)), []⟩

example : ((interpret isAsciiAlpha Generated.defaultModel exNoColon).map fun g =>
      (g.triples, g.epidata.map (·.1))).toOption =
    some ([T "b" ":instance" "bark-01", T "b" ":ARG0" "d", T "d" ":instance" "dog"],
          [T "b" ":instance" "bark-01", T "b" "ARG0" "d", T "d" ":instance" "dog"]) := by decide
example : ((interpret isAsciiAlpha Generated.defaultModel exNoColon).map fun g =>
      (getPushedVariable g (T "b" ":ARG0" "d"), (nodeContexts g).toOption)).toOption =
    some (none, some [some (s "b"), some (s "b"), none]) := by decide

end Penman.Props.C04

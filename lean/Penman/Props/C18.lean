/-
  # C18 — Constant quoting, evaluation and typing are consistent with the notation

  Model: `Penman/Constant.lean` (`quote` = `json.dumps(str(x))`, `evaluate` = guarded
  `json.loads(s, parse_constant=str)`, `ctype` = `penman.constant.type`) and the STRING scanner of
  `Penman/Lexer.lean` with the generated tables `Generated.lexCfg`.
  Specification vocabulary (`isEscBlock`, `lexQuoteOk`, `IsJsonNumber`, `WsPadded`, `NoWs`,
  `HasLoneSurrogateEscape`, `tagOf`, `atomText`) is in `Penman/Spec/Constant.lean`.

  Clause of the property text                                   → theorem(s)
  ------------------------------------------------------------------------------------------
  "for every Python string, quoting yields text …"               `quote_shape` (shape of the text)
  "… that the lexer reads as exactly one string token"           `quote_lex_of_cfg` (any tables with
                                                                 `lexQuoteOk`), `quote_lex`,
                                                                 `quote_lex_triple` (generated tables)
  "… that evaluates back to the original string"                 `quote_eval`
  "… and that is typed as a string"                              `quote_type`
  "quoting a number is the quoting of its string form and
   quoting None gives the empty string constant"                 `quote_misc`, `quote_text`
  "for every atom text, evaluation is total up to the
   documented constant error"                                    `eval_total`, `eval_never_other`,
                                                                 `jsonLoads_fuel_suffices`,
                                                                 `scanners_fuel_suffice`,
                                                                 `scanJsonString_fuel_suffices`,
                                                                 `scanJson_fuel_noncontainer`,
                                                                 `scanJson_fuel_mono`
  "returns int/float only for JSON number syntax"                `eval_number`, `eval_number_noWs`
  "None only for empty/None"                                     `eval_none`, `eval_none_noWs`
  "never a bool/NaN/container"                                   `eval_no_bool_without_ws`, `eval_bool`,
                                                                 `eval_float_is_number` (no NaN),
                                                                 `eval_nan_is_str`, `eval_container`
  "the reported type always matches the Python type of the
   evaluated value"                                              `type_agrees`, `type_raises_iff`,
                                                                 `type_no_keyerror_without_ws`

  Fuel: `jsonLoads` starts `scanJson` with fuel `2 * s.length + 2`.  `scanners_fuel_suffice` shows
  by the measure "2·|remaining text| + 1 at a value position, + 2 at a container body" that this
  fuel is never exhausted: with it `scanJson`/`scanArray`/`scanObject` answer `.unmodelled` only when
  the text contains a lone surrogate escape.  Hence in `eval_total` the `.unmodelled` case implies
  `HasLoneSurrogateEscape s` and nothing else.  (With the earlier fuel `s.length + 1` this was false:
  `[[` exhausted it; `fuel_example` records that `[[` now evaluates to the symbol `[[` as in Python.)
-/
import Penman.Proofs.ConstantEval
import Penman.Proofs.ConstantCases
import Penman.Proofs.ConstantFuel
import Penman.Generated

namespace Penman
namespace C18

deriving instance DecidableEq for JScan
deriving instance DecidableEq for StrScan
deriving instance DecidableEq for Except

/-! ## Quoting -/

/-- **quote_shape.** `json.dumps(s)` is `"`, then one escape block per character of `s`, then `"`.
    Every block is a plain printable character other than `"`/`\`, or `\` followed by one of
    `" \ n r t b f`, or `\uXXXX`, or two `\uXXXX` (lower-case hex); hence the body is printable
    ASCII and every `"`/`\` of the body sits inside a backslash escape. -/
theorem quote_shape (s : Str) :
    ∃ blocks : List Str, blocks = s.map escapeChar ∧
      (∀ b ∈ blocks, isEscBlock b = true) ∧
      jsonDumpsStr s = '"' :: blocks.flatten ++ ['"'] ∧
      (∀ x ∈ blocks.flatten, isPrintable x = true) := by
  refine ⟨s.map escapeChar, rfl, ?_, jsonDumpsStr_eq s, ?_⟩
  · intro b hb
    obtain ⟨c, _, rfl⟩ := List.mem_map.mp hb
    exact isEscBlock_escapeChar c
  · intro x hx
    rw [← List.flatMap_def] at hx
    exact body_printable s x hx

example : isEscBlock ['a'] = true ∧ isEscBlock ['\\', '"'] = true ∧ isEscBlock "\\u00e9".toList = true ∧
    isEscBlock "\\ud83d\\ude00".toList = true ∧
    isEscBlock ['"'] = false ∧ isEscBlock ['\\'] = false ∧ isEscBlock ['\\', 'x'] = false ∧
    isEscBlock ['é'] = false ∧ isEscBlock ['\n'] = false := by decide

example : quote (.str "a\"b\\c\n\x01é😀 ".toList)
    = "\"a\\\"b\\\\c\\n\\u0001\\u00e9\\ud83d\\ude00 \"".toList := by decide

example : "a\"b\\c\n\x01é😀 ".toList.map escapeChar =
    [['a'], ['\\', '"'], ['b'], ['\\', '\\'], ['c'], ['\\', 'n'], "\\u0001".toList, "\\u00e9".toList,
     "\\ud83d\\ude00".toList, [' ']] := by decide

/-- **quote_misc.** Quoting a number is quoting its string form; quoting `None` gives `""`. -/
theorem quote_misc (t : Str) : quote (.num t) = quote (.str t) ∧ quote .none = "\"\"".toList :=
  ⟨rfl, rfl⟩

/-- `quote a` is `json.dumps` of the string form of `a`. -/
theorem quote_text (a : Atom) : quote a = jsonDumpsStr (atomText a) := by
  cases a <;> rfl

example : quote (.num "-1.5".toList) = "\"-1.5\"".toList := by decide

/-- **quote_lex**, for all lexer tables satisfying the decidable hypothesis `lexQuoteOk`
    (STRING is tried before every class that can match at `"`, and the STRING body class
    excludes no printable character except `"` and `\`): a quoted atom is exactly one STRING token
    on line 1 at offset 0. -/
theorem quote_lex_of_cfg {cfg : LexCfg} {order : List TokTy} (h : lexQuoteOk cfg order = true)
    (a : Atom) : lexStr cfg order (quote a) = [⟨.STRING, quote a, 1, 0⟩] := by
  rw [quote_text]; exact lexStr_jsonDumpsStr h _

/-- **quote_lex** at the generated tables, PENMAN order. -/
theorem quote_lex (a : Atom) :
    lexStr Generated.lexCfg Generated.lexCfg.penmanOrder (quote a) = [⟨.STRING, quote a, 1, 0⟩] :=
  quote_lex_of_cfg (by decide) a

/-- **quote_lex** at the generated tables, triple order. -/
theorem quote_lex_triple (a : Atom) :
    lexStr Generated.lexCfg Generated.lexCfg.tripleOrder (quote a) = [⟨.STRING, quote a, 1, 0⟩] :=
  quote_lex_of_cfg (by decide) a

example : lexQuoteOk Generated.lexCfg Generated.lexCfg.penmanOrder = true ∧
    lexQuoteOk Generated.lexCfg Generated.lexCfg.tripleOrder = true := by decide

-- the hypothesis is not trivially true: SYMBOL before STRING with `"` allowed in symbols fails it
example : lexQuoteOk { Generated.lexCfg with symExcl := [' '] } [.SYMBOL, .STRING] = false := by decide

example : lexStr Generated.lexCfg Generated.lexCfg.penmanOrder (quote (.str "a\"b\\c\n\x01é😀 ".toList))
    = [⟨.STRING, "\"a\\\"b\\\\c\\n\\u0001\\u00e9\\ud83d\\ude00 \"".toList, 1, 0⟩] := by decide +kernel

/-- **quote_eval.** Evaluating the quoted form of a string gives back the string. -/
theorem quote_eval (s : Str) : evaluate (some (quote (.str s))) = .ok (.str s) :=
  evaluate_jsonDumpsStr s

/-- for any atom, evaluating the quoted form gives its string form -/
theorem quote_eval_atom (a : Atom) : evaluate (some (quote a)) = .ok (.str (atomText a)) := by
  rw [quote_text]; exact evaluate_jsonDumpsStr _

example : evaluate (some "\"a\\\"b\\\\c\\n\\u0001\\u00e9\\ud83d\\ude00 \"".toList)
    = .ok (.str "a\"b\\c\n\x01é😀 ".toList) := by decide +kernel

/-- **quote_type.** A quoted atom is typed as a string. -/
theorem quote_type (a : Atom) : ctype (some (quote a)) = .ok .string := by
  rw [quote_text]; exact ctype_jsonDumpsStr _

example : ctype (some "\"\\ud83d\\ude00 \\\\\"".toList) = .ok .string := by decide +kernel

/-! ## Evaluation is total -/

/-- **eval_total.** `evaluate` returns a value, raises `ConstantError`, or is outside the model;
    the latter only for texts with a lone surrogate escape (Lean `Char` has no surrogates) — never
    because fuel ran out. It never raises anything else. -/
theorem eval_total (a : Option Str) :
    (∃ v, evaluate a = .ok v) ∨ evaluate a = .error .constant ∨
    (evaluate a = .error (.unmodelled "json: lone surrogate or nesting") ∧
      ∃ s, a = some s ∧ HasLoneSurrogateEscape s) := by
  cases a with
  | none => exact Or.inl ⟨_, rfl⟩
  | some s =>
    cases h : evaluate (some s) with
    | ok v => exact Or.inl ⟨v, rfl⟩
    | error e =>
      rcases evaluate_error h with rfl | ⟨rfl, hu⟩
      · exact Or.inr (Or.inl rfl)
      · exact Or.inr (Or.inr ⟨rfl, s, rfl, hu⟩)

theorem eval_never_other (a : Option Str) (n : String) : evaluate a ≠ .error (.other n) := by
  intro h
  rcases eval_total a with ⟨v, hv⟩ | hv | ⟨hv, _⟩ <;> rw [hv] at h <;> cases h

/-- The fuel `2 * s.length + 2` that `jsonLoads` gives to `scanJson` always suffices: `.unmodelled`
    can only come from a lone surrogate escape. -/
theorem jsonLoads_fuel_suffices (s : Str)
    (h : scanJson (2 * s.length + 2) (skipWs s) = .unmodelled) : HasLoneSurrogateEscape s :=
  jsonLoads_fuel h

/-- The underlying invariant for the three mutually recursive scanners: with fuel at least
    `2·|s| + 1` at a value position, resp. `2·|s| + 2` inside a container body, `.unmodelled` is
    never due to the fuel. -/
theorem scanners_fuel_suffice (f : Nat) :
    (∀ s, 2 * s.length + 1 ≤ f → scanJson f s = .unmodelled → HasLoneSurrogateEscape s) ∧
    (∀ s b, 2 * s.length + 2 ≤ f → scanArray f s b = .unmodelled → HasLoneSurrogateEscape s) ∧
    (∀ s b, 2 * s.length + 2 ≤ f → scanObject f s b = .unmodelled → HasLoneSurrogateEscape s) :=
  fuel_suffices f

/-- The fuel `length + 1` that `scanJson` gives to `scanJsonString` suffices: any two fuels above
    the length give the same result (so its `.bad` at fuel 0 is unreachable). -/
theorem scanJsonString_fuel_suffices (s acc : Str) (f : Nat) (hf : s.length < f) :
    scanJsonString f s acc = scanJsonString (s.length + 1) s acc :=
  scanJsonString_fuel f s acc _ hf (Nat.lt_succ_self _)

/-- Outside containers `scanJson` does not depend on its (positive) fuel. -/
theorem scanJson_fuel_noncontainer (s : Str) (h1 : ∀ q, s ≠ '[' :: q) (h2 : ∀ q, s ≠ '{' :: q)
    (f g : Nat) : scanJson (f+1) s = scanJson (g+1) s :=
  scanJson_fuel_irrelevant s h1 h2 f g

/-- Results other than `.unmodelled` are stable under more fuel: `.ok`/`.bad` answers of
    `scanJson` are never artefacts of the fuel. -/
theorem scanJson_fuel_mono (f : Nat) (s : Str) (h : scanJson f s ≠ .unmodelled) :
    scanJson (f+1) s = scanJson f s :=
  (fuel_mono f).1 s h

/-- deep unbalanced nesting is within the fuel: these are symbols, as in Python -/
theorem fuel_example :
    evaluate (some "[[".toList) = .ok (.str "[[".toList) ∧
    evaluate (some "[[[[{\"a\":[[".toList) = .ok (.str "[[[[{\"a\":[[".toList) ∧
    evaluate (some "[[[[]]]]".toList) = .error .constant := by decide +kernel

example : HasLoneSurrogateEscape "\"\\ud800\"".toList :=
  ⟨['"'], "d800\"".toList, 0xd800, ['"'], rfl, by decide, Or.inr ⟨by decide, by decide, by
    rintro ⟨r2, u2, r3, h, _⟩; cases h⟩⟩
example : evaluate (some "\"\\ud800\"".toList) = .error (.unmodelled "json: lone surrogate or nesting") := by
  decide
example : evaluate (some "\"a".toList) = .error .constant := by decide
example : evaluate (some "a b".toList) = .ok (.str "a b".toList) := by decide

/-! ## Numbers -/

/-- **eval_number.** `evaluate` returns an int (`isF = false`) or a float (`isF = true`) with text
    `t` only if the atom text is `t` surrounded by JSON whitespace and `t` matches the JSON number
    grammar, with a fraction or exponent exactly in the float case. -/
theorem eval_number {s t : Str} :
    (evaluate (some s) = .ok (.int t) → WsPadded s t ∧ IsJsonNumber t false) ∧
    (evaluate (some s) = .ok (.float t) → WsPadded s t ∧ IsJsonNumber t true) :=
  ⟨fun h => evaluate_number (isF := false) h, fun h => evaluate_number (isF := true) h⟩

/-- without JSON whitespace (every lexer token) the number text is the whole atom text -/
theorem eval_number_noWs {s t : Str} (hn : NoWs s) :
    (evaluate (some s) = .ok (.int t) → s = t ∧ IsJsonNumber t false) ∧
    (evaluate (some s) = .ok (.float t) → s = t ∧ IsJsonNumber t true) :=
  ⟨fun h => ⟨wsPadded_noWs hn (eval_number.1 h).1, (eval_number.1 h).2⟩,
   fun h => ⟨wsPadded_noWs hn (eval_number.2 h).1, (eval_number.2 h).2⟩⟩

/-- floats only come from number syntax: never NaN/Infinity -/
theorem eval_float_is_number {s t : Str} (h : evaluate (some s) = .ok (.float t)) :
    IsJsonNumber t true := (eval_number.2 h).2

/-- `NaN`, `Infinity`, `-Infinity` come back as strings (`parse_constant=str`). -/
theorem eval_nan_is_str :
    evaluate (some "NaN".toList) = .ok (.str "NaN".toList) ∧
    evaluate (some "Infinity".toList) = .ok (.str "Infinity".toList) ∧
    evaluate (some "-Infinity".toList) = .ok (.str "-Infinity".toList) := by decide

example : evaluate (some "-12".toList) = .ok (.int "-12".toList) ∧
    evaluate (some " 0 ".toList) = .ok (.int "0".toList) ∧
    evaluate (some "-1.50e+3".toList) = .ok (.float "-1.50e+3".toList) ∧
    evaluate (some "1E5".toList) = .ok (.float "1E5".toList) ∧
    evaluate (some "01".toList) = .ok (.str "01".toList) ∧
    evaluate (some "1.".toList) = .ok (.str "1.".toList) ∧
    evaluate (some "+1".toList) = .ok (.str "+1".toList) := by decide

example : IsJsonNumber "-1.50e+3".toList true :=
  ⟨['-'], ['1'], ".50".toList, "e+3".toList, rfl,
    ⟨Or.inr rfl, Or.inr ⟨'1', [], rfl, by decide, by decide, by simp⟩,
     Or.inr ⟨"50".toList, rfl, by decide, by decide⟩,
     Or.inr ⟨'e', ['+'], ['3'], rfl, Or.inl rfl, Or.inr (Or.inr rfl), by decide, by decide⟩⟩,
    by decide⟩

/-! ## None -/

/-- **eval_none.** `evaluate` returns `None` exactly for `None`, the empty text, and the text
    `null` padded with at least one JSON whitespace (bare `null` is the symbol `null`). -/
theorem eval_none (a : Option Str) :
    evaluate a = .ok .none ↔
      a = none ∨ a = some [] ∨ ∃ s, a = some s ∧ s ≠ "null".toList ∧ WsPadded s "null".toList :=
  evaluate_none_iff a

/-- without JSON whitespace: `None` only for `None` and the empty text -/
theorem eval_none_noWs {s : Str} (hn : NoWs s) : evaluate (some s) = .ok .none ↔ s = [] := by
  rw [eval_none]
  constructor
  · rintro (h | h | ⟨s', hs, hne, hp⟩)
    · cases h
    · injection h
    · injection hs with hs; subst hs; exact absurd (wsPadded_noWs hn hp) hne
  · rintro rfl; exact Or.inr (Or.inl rfl)

example : evaluate (some " null".toList) = .ok .none ∧ evaluate (some "null\n".toList) = .ok .none ∧
    evaluate (some "null".toList) = .ok (.str "null".toList) ∧
    evaluate (some "\"\"".toList) = .ok (.str []) := by decide

/-! ## bool, containers -/

/-- `evaluate` returns a bool only for whitespace-padded `true`/`false` … -/
theorem eval_bool {s : Str} (h : evaluate (some s) = .ok .bool) :
    s ≠ "true".toList ∧ s ≠ "false".toList ∧
      (WsPadded s "true".toList ∨ WsPadded s "false".toList) :=
  evaluate_bool h

/-- **eval_no_bool_without_ws.** … hence never for a text without JSON whitespace. -/
theorem eval_no_bool_without_ws {s : Str} (hn : NoWs s) : evaluate (some s) ≠ .ok .bool :=
  evaluate_noWs_not_bool hn

example : NoWs "true".toList ∧ evaluate (some "true".toList) = .ok (.str "true".toList) ∧
    evaluate (some " true".toList) = .ok .bool := by
  refine ⟨by decide, by decide, by decide⟩

/-- **eval_container.** `ConstantError` is raised only for unbalanced quotes or container-like
    text; a JSON container is never returned (`CVal` has no container value). -/
theorem eval_container {s : Str} (h : evaluate (some s) = .error .constant) :
    (startsWith ['"'] s ≠ endsWith ['"'] s) ∨ (∃ q, skipWs s = '[' :: q ∨ skipWs s = '{' :: q) :=
  evaluate_constant_error h

example : evaluate (some "[]".toList) = .error .constant ∧
    evaluate (some "{\"a\": [1, 2]}".toList) = .error .constant ∧
    evaluate (some "[1,]".toList) = .ok (.str "[1,]".toList) := by decide +kernel

/-! ## Types -/

/-- **type_agrees.** `type(s)` is the tag of `evaluate(s)`: `None ↦ Null`, `int ↦ Integer`,
    `float ↦ Float`, `str ↦ String` if the text starts and ends with `"` else `Symbol`,
    `bool ↦ KeyError`; and it raises whatever `evaluate` raises. -/
theorem type_agrees (a : Option Str) :
    ctype a = match evaluate a with
      | .ok v => tagOf a v
      | .error e => .error e :=
  ctype_eq a

/-- `type` raises exactly when `evaluate` raises or yields a bool. -/
theorem type_raises_iff (a : Option Str) :
    (∃ e, ctype a = .error e) ↔ (∃ e, evaluate a = .error e) ∨ evaluate a = .ok .bool := by
  rw [type_agrees]
  cases h : evaluate a with
  | error e => simp
  | ok v =>
    cases v <;> cases a <;> simp [tagOf]

/-- for texts without JSON whitespace `type` never raises `KeyError` (or any non-penman error) -/
theorem type_no_keyerror_without_ws {s : Str} (hn : NoWs s) (n : String) :
    ctype (some s) ≠ .error (.other n) := by
  rw [type_agrees]
  cases h : evaluate (some s) with
  | error e =>
    intro h'; injection h' with h'; subst h'
    exact eval_never_other _ _ h
  | ok v =>
    cases v with
    | bool => exact absurd h (eval_no_bool_without_ws hn)
    | _ => simp [tagOf]

example : ctype none = .ok .null ∧ ctype (some []) = .ok .null ∧
    ctype (some "-".toList) = .ok .symbol ∧ ctype (some "\"foo\"".toList) = .ok .string ∧
    ctype (some "1".toList) = .ok .integer ∧ ctype (some "1.2".toList) = .ok .float ∧
    ctype (some "\"".toList) = .ok .string ∧
    ctype (some " true".toList) = .error (.other "KeyError") ∧
    ctype (some "\"a".toList) = .error .constant := by decide

end C18
end Penman

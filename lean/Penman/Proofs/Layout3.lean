/-
  Penman.Proofs.Layout3 — C02: the datum list `dNode` that `preconfigure`
  makes of an interpreted well-formed tree (Push becomes a flag on the datum,
  every nested node is followed by exactly one POP).
-/
import Penman.Proofs.Layout2
namespace Penman
namespace C02

variable (isAlpha : Char → Bool) (m : Model)

/-! ### variables of nested nodes -/

/-- variables of the nodes nested in a branch list, depth first -/
def nvB (bs : Branches) : List Str := bs.nodes.map (·.1)

@[simp] theorem nvB_nil : nvB .nil = [] := rfl
@[simp] theorem nvB_atom (r : Str) (a : Atom) (rest : Branches) : nvB (.atom r a rest) = nvB rest := by
  simp [nvB, Branches.nodes]
@[simp] theorem nvB_sub (r : Str) (n : Node) (rest : Branches) : nvB (.sub r n rest) = n.vars ++ nvB rest := by
  simp [nvB, Branches.nodes, Node.vars]
@[simp] theorem vars_mk (x : Str) (bs : Branches) : (Node.mk (some x) bs).vars = x :: nvB bs := by
  simp [nvB, Node.nodes, Node.vars]

/-! ### the expected datum list -/

def instDatum (var : Str) (bs : Branches) : List Datum :=
  if hasConceptB isAlpha bs then [] else [.t ⟨var, CONCEPT_ROLE, .none⟩ false []]

mutual
/-- data of the contents of a node (no closing POP) -/
def dNode (vars : List Str) : Node → List Datum
  | .mk v bs => instDatum isAlpha (v.getD []) bs ++ dBranches vars (v.getD []) bs
def dBranches (vars : List Str) (var : Str) : Branches → List Datum
  | .nil => []
  | .atom role a rest =>
    .t (brTriple m vars var (roleCore isAlpha role) (atomCore isAlpha a)) false
        (roleEpis isAlpha role ++ atomEpis isAlpha a) :: dBranches vars var rest
  | .sub role n rest =>
    .t ⟨var, roleCore isAlpha role, .str (n.var.getD [])⟩ true (roleEpis isAlpha role)
      :: (dNode vars n ++ .pop :: dBranches vars var rest)
end

/-! ### single entries -/

theorem pre_single_aln (tr : Triple) (A : List Epi) (hA : ∀ e ∈ A, e.isLayout = false) (pushed : List Str) :
    preDataP m [(tr, A)] pushed = .ok ([.t tr false A], pushed) := by
  have := preconfEpis_aln m tr A [] hA tr false [] 0 pushed
  simp only [List.append_nil] at this
  simp [preDataP, this, preconfEpis]

theorem pre_single_push (var core nv : Str) (R : List Epi) (hR : ∀ e ∈ R, e.isLayout = false)
    (pushed : List Str) (hnv : nv ∉ pushed) (hne : nv ≠ var) (h1 : core ≠ CONCEPT_ROLE)
    (h2 : m.invertRole core ≠ CONCEPT_ROLE)
    (h3 : m.isRoleInverted core = true → m.invertRole (m.invertRole core) = core) :
    preDataP m [(subTriple m var core nv, R ++ [.push nv])] pushed =
      .ok ([.t ⟨var, core, .str nv⟩ true R], nv :: pushed) := by
  have := preconfEpis_aln m (subTriple m var core nv) R [.push nv] hR (subTriple m var core nv) false [] 0 pushed
  simp only [List.append_nil] at this
  simp only [preDataP, this]
  unfold subTriple
  by_cases hd : deinverts m core = true
  · have h3' := h3 (by unfold deinverts at hd; simp at hd; exact hd.2)
    simp [hd, preconfEpis, hnv, h2, Model.invert, h3']
  · have hd' : deinverts m core = false := by simpa using hd
    simp [hd', preconfEpis, hnv, h1, hne]

theorem roleEpis_aln {role : Str} (h : RoleFacts isAlpha m role) : ∀ e ∈ roleEpis isAlpha role, e.isLayout = false := by
  intro e he
  rcases h.epis with h | ⟨p, i, h⟩
  · simp [h] at he
  · simp [h] at he; subst he; rfl

theorem roleEpis_mode {role : Str} (h : RoleFacts isAlpha m role) : ∀ e ∈ roleEpis isAlpha role, e.mode = 1 := by
  intro e he
  rcases h.epis with h | ⟨p, i, h⟩
  · simp [h] at he
  · simp [h] at he; subst he; rfl

theorem atomEpis_aln {a : Atom} (h : AtomFacts isAlpha a) : ∀ e ∈ atomEpis isAlpha a, e.isLayout = false := by
  intro e he
  rcases h.text with ⟨h, _⟩ | ⟨p, i, c, h, _⟩
  · simp [h] at he
  · simp [h] at he; subst he; rfl

theorem slot_epis_aln {var role : Str} {a : Atom} (h : RoleSlot isAlpha m var role a) :
    ∀ e ∈ roleEpis isAlpha role, e.isLayout = false := by
  rcases h with rfl | ⟨h, _⟩
  · simp [slash_epis]
  · exact roleEpis_aln isAlpha m (roleFacts isAlpha m h)

/-! ### `preconfigure` of an interpreted tree -/

theorem LNode_var {n : Node} (h : LNode isAlpha m n) : ∃ nv bs, n = .mk (some nv) bs := by
  obtain ⟨v, bs⟩ := n
  obtain ⟨var, rfl, _, _⟩ := h
  exact ⟨var, bs, rfl⟩

mutual
theorem pre_node (vars : List Str) : ∀ (n : Node), LNode isAlpha m n → n.vars.Nodup →
    ∀ pushed : List Str, (∀ x ∈ nvB n.bs, x ∉ pushed) →
    ∃ p', preDataP m (spNode isAlpha m vars n) pushed = .ok (dNode isAlpha m vars n, p') ∧
      ∀ x, x ∈ p' ↔ x ∈ pushed ∨ x ∈ nvB n.bs
  | .mk v bs => by
    intro h hnd pushed hp
    obtain ⟨var, rfl, hb, _⟩ := h
    simp only [vars_mk, List.nodup_cons] at hnd
    simp only [Node.bs] at hp ⊢
    obtain ⟨p', h1, h2⟩ := pre_branches vars var bs hb hnd.1 hnd.2 pushed hp
    refine ⟨p', ?_, h2⟩
    simp only [spNode, dNode, Option.getD_some]
    refine preDataP_append m _ _ pushed (p1 := pushed) ?_ h1
    unfold instEntry instDatum
    cases hasConceptB isAlpha bs
    · simp [preDataP, preconfEpis]
    · simp [preDataP]
theorem pre_branches (vars : List Str) (var : Str) : ∀ (bs : Branches), LB isAlpha m var bs →
    var ∉ nvB bs → (nvB bs).Nodup →
    ∀ pushed : List Str, (∀ x ∈ nvB bs, x ∉ pushed) →
    ∃ p', preDataP m (spBranches isAlpha m vars var bs) pushed = .ok (dBranches isAlpha m vars var bs, p') ∧
      ∀ x, x ∈ p' ↔ x ∈ pushed ∨ x ∈ nvB bs
  | .nil => by
    intro _ _ _ pushed _
    exact ⟨pushed, by simp [spBranches, dBranches, preDataP], by simp⟩
  | .atom role a rest => by
    intro h hv hnd pushed hp
    obtain ⟨hs, ha, hb⟩ := h
    simp only [nvB_atom] at hv hnd hp ⊢
    obtain ⟨p', h1, h2⟩ := pre_branches vars var rest hb hv hnd pushed hp
    refine ⟨p', ?_, h2⟩
    simp only [spBranches, dBranches]
    have hA : ∀ e ∈ roleEpis isAlpha role ++ atomEpis isAlpha a, e.isLayout = false := by
      intro e he
      rcases List.mem_append.1 he with he | he
      · exact slot_epis_aln isAlpha m hs e he
      · exact atomEpis_aln isAlpha (atomFacts isAlpha ha) e he
    have := preDataP_append m [(brTriple m vars var (roleCore isAlpha role) (atomCore isAlpha a),
      roleEpis isAlpha role ++ atomEpis isAlpha a)] _ pushed (pre_single_aln m _ _ hA pushed) h1
    simpa using this
  | .sub role n rest => by
    intro h hv hnd pushed hp
    obtain ⟨hr, hn, hb⟩ := h
    obtain ⟨nv, nbs, rfl⟩ := LNode_var isAlpha m hn
    have rf := roleFacts isAlpha m hr
    simp only [nvB_sub, vars_mk, List.mem_append, List.mem_cons, not_or] at hv hnd hp ⊢
    have hnd' := List.nodup_append.1 hnd
    have hnv : nv ∉ pushed := hp nv (Or.inl (Or.inl rfl))
    have hne : nv ≠ var := fun e => hv.1.1 e.symm
    have e1 := pre_single_push m var (roleCore isAlpha role) nv (roleEpis isAlpha role)
      (roleEpis_aln isAlpha m rf) pushed hnv hne rf.notInst rf.invNotInst rf.canon
    have hnn : (Node.mk (some nv) nbs).vars.Nodup := by simpa using hnd'.1
    obtain ⟨p1, e2, m2⟩ := pre_node vars (.mk (some nv) nbs) hn hnn (nv :: pushed) (by
      intro x hx
      simp only [Node.bs] at hx
      simp only [List.mem_cons, not_or]
      refine ⟨?_, hp x (Or.inl (Or.inr hx))⟩
      rintro rfl
      exact (List.nodup_cons.1 hnd'.1).1 hx)
    have e2' := preDataP_pop m _ (spNode_ne_nil isAlpha m vars _) (nv :: pushed) e2
    obtain ⟨p2, e3, m3⟩ := pre_branches vars var rest hb hv.2 hnd'.2.1 p1 (by
      intro x hx hx1
      rcases (m2 x).1 hx1 with h | h
      · simp only [List.mem_cons] at h
        rcases h with rfl | h
        · exact hnd'.2.2 x (by simp) x hx rfl
        · exact hp x (Or.inr hx) h
      · simp only [Node.bs] at h
        exact hnd'.2.2 x (by simp [h]) x hx rfl)
    refine ⟨p2, ?_, ?_⟩
    · simp only [spBranches, dBranches, Node.var, Option.getD_some]
      have := preDataP_append m [(subTriple m var (roleCore isAlpha role) nv,
        roleEpis isAlpha role ++ [.push nv])] _ pushed e1 (preDataP_append m _ _ _ e2' e3)
      simpa using this
    · intro x
      rw [m3 x, m2 x]
      simp only [List.mem_cons, Node.bs]
      grind
end

end C02
end Penman

/-
  Penman.Proofs.Configure1 — structural facts about `configureNode`,
  `findNext`, `stripPops`, `configureLoop`: consumed data is a prefix,
  fuel irrelevance for `configureNode`, termination measure of the
  `while data:` loop.
-/
import Penman.Spec.Configure
namespace Penman
namespace Cfg

/-! ### association lists -/
section AL
variable {α β : Type} [DecidableEq α]

theorem get?_set_same (c : AList α β) (k : α) (v : β) : AList.get? (AList.set c k v) k = some v := by
  induction c with
  | nil => simp [AList.set, AList.get?]
  | cons p r ih =>
    obtain ⟨k', v'⟩ := p
    by_cases h : k' = k
    · subst h; simp [AList.set, AList.get?]
    · simp only [AList.set, h, if_false]
      simp only [AList.get?] at ih ⊢
      simp [List.find?, h, ih]

theorem get?_set_other (c : AList α β) (k w : α) (v : β) (hw : w ≠ k) :
    AList.get? (AList.set c k v) w = AList.get? c w := by
  induction c with
  | nil => simp [AList.set, AList.get?, Ne.symm hw]
  | cons p r ih =>
    obtain ⟨k', v'⟩ := p
    by_cases h : k' = k
    · subst h; simp [AList.set, AList.get?, List.find?, Ne.symm hw]
    · simp only [AList.set, h, if_false]
      simp only [AList.get?] at ih ⊢
      by_cases h2 : k' = w
      · simp [List.find?, h2]
      · simp [List.find?, h2, ih]

theorem keys_set (c : AList α β) (k : α) (v : β) :
    AList.keys (AList.set c k v) = if k ∈ AList.keys c then AList.keys c else AList.keys c ++ [k] := by
  induction c with
  | nil => simp [AList.set, AList.keys]
  | cons p r ih =>
    obtain ⟨k', v'⟩ := p
    by_cases h : k' = k
    · subst h; simp [AList.set, AList.keys]
    · simp only [AList.set, h, if_false]
      simp only [AList.keys, List.map_cons, List.mem_cons] at ih ⊢
      rw [ih]
      have : ¬ k = k' := fun e => h e.symm
      simp only [this, false_or]
      split <;> simp_all

theorem mem_set {c : AList α β} {k : α} {v : β} {p : α × β} (h : p ∈ AList.set c k v) :
    p ∈ c ∨ p = (k, v) := by
  induction c with
  | nil => simp [AList.set] at h; exact Or.inr h
  | cons q r ih =>
    obtain ⟨k', v'⟩ := q
    by_cases hk : k' = k
    · subst hk
      simp only [AList.set, if_true, List.mem_cons] at h
      rcases h with h | h
      · exact Or.inr h
      · exact Or.inl (List.mem_cons_of_mem _ h)
    · simp only [AList.set, hk, if_false, List.mem_cons] at h
      rcases h with h | h
      · exact Or.inl (by simp [h])
      · rcases ih h with h | h
        · exact Or.inl (List.mem_cons_of_mem _ h)
        · exact Or.inr h

theorem mem_of_get? {c : AList α β} {k : α} {v : β} (h : AList.get? c k = some v) : (k, v) ∈ c := by
  unfold AList.get? at h
  cases hf : c.find? (·.1 = k) with
  | none => simp [hf] at h
  | some p =>
    simp [hf] at h
    have h1 := List.mem_of_find?_eq_some hf
    have h2 := List.find?_some hf
    simp at h2
    obtain ⟨a, b⟩ := p
    simp at h h2; subst h; subst h2; exact h1

theorem get?_isSome_iff {c : AList α β} {k : α} : (AList.get? c k).isSome ↔ k ∈ AList.keys c := by
  induction c with
  | nil => simp [AList.get?, AList.keys]
  | cons p r ih =>
    obtain ⟨k', v'⟩ := p
    simp only [AList.get?, AList.keys] at ih ⊢
    by_cases h : k' = k
    · simp [List.find?, h]
    · have : ¬ k = k' := fun e => h e.symm
      simp [List.find?, h, this]

theorem contains_iff {c : AList α β} {k : α} : AList.contains c k = true ↔ k ∈ AList.keys c := by
  simp [AList.contains, AList.keys]
end AL

/-! ### `configureNode` consumes a prefix of the data -/

theorem cn_suffix (m : Model) : ∀ f var data st s, (configureNode m f var data st s).1 <:+ data := by
  intro f var data st s
  fun_induction configureNode m f var data st s <;>
    first
    | exact List.suffix_refl _
    | exact List.suffix_cons _ _
    | (rename_i ih; exact ih.trans (List.suffix_cons _ _))
    | (rename_i ih1 ih2; exact (ih2.trans ih1).trans (List.suffix_cons _ _))

theorem cn_length_le (m : Model) (f var data st s) :
    (configureNode m f var data st s).1.length ≤ data.length :=
  (cn_suffix m f var data st s).length_le

/-- (b) fuel irrelevance: any two fuels above `data.length` give the same result -/
theorem cn_fuel (m : Model) : ∀ f f' var data st s, data.length < f → data.length < f' →
    configureNode m f var data st s = configureNode m f' var data st s := by
  intro f
  induction f with
  | zero => intro f' var data st s h; omega
  | succ f ih =>
    intro f' var data st s h h'
    cases f' with
    | zero => omega
    | succ f' =>
      cases data with
      | nil => simp [configureNode]
      | cons d data =>
        cases d with
        | pop => simp [configureNode]
        | t tr push epis =>
          simp only [List.length_cons] at h h'
          have hl : data.length < f := by omega
          have hl' : data.length < f' := by omega
          simp only [configureNode]
          split
          · rfl
          · split
            · split
              · exact ih _ _ _ _ _ hl hl'
              · exact ih _ _ _ _ _ hl hl'
            · split
              · rename_i v _
                have e1 := ih f' v data (st.newCell v) false hl hl'
                rw [e1]
                have := cn_length_le m f' v data (st.newCell v) false
                exact ih _ _ _ _ _ (by omega) (by omega)
              · exact ih _ _ _ _ _ hl hl'

/-! ### `findNext`, `stripPops` -/

theorem findNext_some : ∀ data rev st {sk v data1 st1},
    findNext data rev st = (sk, some v, data1, st1) →
    sk ++ data1 = rev.reverse ++ data ∧
    ∃ tr push epis rest, data1 = Datum.t tr push epis :: rest ∧ (tr.src = v ∨ tr.tgt = .str v) := by
  intro data rev st
  fun_induction findNext data rev st <;> intro sk v data1 st1 h
  · simp at h
  · simp at h
  · rename_i ih; have := ih h; simpa using this
  · simp only [Prod.mk.injEq, Option.some.injEq] at h
    obtain ⟨rfl, rfl, rfl, rfl⟩ := h
    exact ⟨by simp; rfl, _, _, _, _, rfl, Or.inl rfl⟩
  · simp only [Prod.mk.injEq, Option.some.injEq] at h
    obtain ⟨rfl, rfl, rfl, rfl⟩ := h
    exact ⟨by simp; rfl, _, _, _, _, rfl, Or.inr (by assumption)⟩
  · rename_i ih; have := ih h; simpa using this
  · rename_i ih; have := ih h; simpa using this

theorem stripPops_suffix : ∀ l, stripPops l <:+ l := by
  intro l
  fun_induction stripPops l
  · rename_i ih; exact ih.trans (List.suffix_cons _ _)
  · exact List.suffix_refl _

theorem stripPops_length_le (l : List Datum) : (stripPops l).length ≤ l.length :=
  (stripPops_suffix l).length_le

/-! ### (a) the loop terminates within `(n+1)² + 1` rounds -/

/-- the termination measure of `configureLoop` -/
def psi (data skipped : List Datum) : Nat :=
  (data.length + skipped.length) * (data.length + skipped.length) + data.length

theorem psi_arith {T D T' D' : Nat} (hT : T' ≤ T) (h : T' < T ∨ D' < D) (hD : D' ≤ T') :
    T' * T' + D' < T * T + D := by
  by_cases e : T' < T
  · have h1 : (T' + 1) * (T' + 1) ≤ T * T := Nat.mul_le_mul e e
    have h2 : (T' + 1) * (T' + 1) = T' * T' + 2 * T' + 1 := by
      simp [Nat.add_mul, Nat.mul_add]; omega
    omega
  · have : T' = T := by omega
    subst this
    omega


/-- on a triple datum `configureNode` either refuses it (and reports `surprising`)
    or consumes it -/
theorem cn_head (m : Model) (f var tr push epis rest st s) :
    (orient m var tr push s = none ∧
      configureNode m (f+1) var (.t tr push epis :: rest) st s = (.t tr push epis :: rest, st, true)) ∨
    ((orient m var tr push s).isSome ∧
      (configureNode m (f+1) var (.t tr push epis :: rest) st s).1 <:+ rest) := by
  simp only [configureNode]
  split
  · left; exact ⟨by assumption, rfl⟩
  · right
    rename_i hor
    refine ⟨by simp [hor], ?_⟩
    split
    · split <;> exact cn_suffix _ _ _ _ _ _
    · split
      · exact (cn_suffix _ _ _ _ _ _).trans (cn_suffix _ _ _ _ _ _)
      · exact cn_suffix _ _ _ _ _ _

/-- one round of the `while data:` loop -/
inductive Round (m : Model) : List Datum × List Datum × St → List Datum × List Datum × St → Prop
  | skip {data skipped st sk v st1 tr push epis rest} :
      findNext data [] st = (sk, some v, .t tr push epis :: rest, st1) →
      orient m v tr push false = none →
      Round m (data, skipped, st) (stripPops rest, sk ++ skipped ++ [.t tr push epis], st1)
  | prog {data skipped st sk v st1 tr push epis rest} :
      findNext data [] st = (sk, some v, .t tr push epis :: rest, st1) →
      (orient m v tr push false).isSome →
      Round m (data, skipped, st)
        (stripPops ((configureNode m (rest.length + 2) v (.t tr push epis :: rest) st1 false).1 ++ (sk ++ skipped)), [],
         (configureNode m (rest.length + 2) v (.t tr push epis :: rest) st1 false).2.1)

theorem loop_cases (m : Model) (d data skipped st) :
    ((findNext (d :: data) [] st).2.1 = none ∧
      ∀ fuel, configureLoop m (fuel+1) (d :: data) skipped st = .error (.layout 1)) ∨
    ∃ nx, Round m (d :: data, skipped, st) nx ∧
      ∀ fuel, configureLoop m (fuel+1) (d :: data) skipped st = configureLoop m fuel nx.1 nx.2.1 nx.2.2 := by
  rcases hfn : findNext (d :: data) [] st with ⟨sk, var, data1, st1⟩
  cases var with
  | none => left; exact ⟨rfl, fun fuel => by simp [configureLoop, hfn]⟩
  | some v =>
    obtain ⟨hcat, tr, push, epis, rest, hd1, _⟩ := findNext_some _ _ _ hfn
    subst hd1
    right
    rcases cn_head m (rest.length + 1) v tr push epis rest st1 false with ⟨ho, hc⟩ | ⟨ho, hc⟩
    · refine ⟨_, Round.skip hfn ho, ?_⟩
      intro fuel
      simp only [configureLoop, hfn]
      simp only [List.length_cons, Nat.add_eq_zero_iff, Nat.succ_ne_self, and_false, if_false]
      rw [hc]
      simp only [List.length_cons, and_self, if_true]
    · refine ⟨_, Round.prog hfn ho, ?_⟩
      intro fuel
      simp only [configureLoop, hfn]
      simp only [List.length_cons, Nat.add_eq_zero_iff, Nat.succ_ne_self, and_false, if_false]
      have hl := hc.length_le
      have hne : ¬ ((configureNode m (rest.length + 1 + 1) v (.t tr push epis :: rest) st1 false).1.length = rest.length + 1 ∧
          (configureNode m (rest.length + 1 + 1) v (.t tr push epis :: rest) st1 false).2.2 = true) := by
        intro h; omega
      rw [if_neg hne]
      have hlt : ¬ ((configureNode m (rest.length + 1 + 1) v (.t tr push epis :: rest) st1 false).1.length ≥ rest.length + 1) := by
        omega
      rw [if_neg hlt]

theorem round_psi {m : Model} {a b} (h : Round m a b) : psi b.1 b.2.1 < psi a.1 a.2.1 := by
  cases h with
  | @skip data skipped st sk v st1 tr push epis rest hfn ho =>
    obtain ⟨hcat, _⟩ := findNext_some _ _ _ hfn
    have h1 := congrArg List.length hcat
    have h2 := stripPops_length_le rest
    simp only [psi, List.length_append, List.length_cons, List.length_nil, List.reverse_nil] at h1 ⊢
    apply psi_arith <;> omega
  | @prog data skipped st sk v st1 tr push epis rest hfn ho =>
    obtain ⟨hcat, _⟩ := findNext_some _ _ _ hfn
    have h1 := congrArg List.length hcat
    rcases cn_head m (rest.length + 1) v tr push epis rest st1 false with ⟨ho', hc⟩ | ⟨_, hc⟩
    · simp [ho'] at ho
    · have hl : (configureNode m (rest.length + 2) v (.t tr push epis :: rest) st1 false).1.length ≤ rest.length :=
        hc.length_le
      have h2 := stripPops_length_le ((configureNode m (rest.length + 2) v (.t tr push epis :: rest) st1 false).1 ++ (sk ++ skipped))
      simp only [psi, List.length_append, List.length_cons, List.length_nil, List.reverse_nil] at h1 h2 ⊢
      apply psi_arith <;> omega

theorem loop_no_other (m : Model) : ∀ fuel data skipped st, psi data skipped < fuel →
    ∀ s, configureLoop m fuel data skipped st ≠ .error (.other s) := by
  intro fuel
  induction fuel with
  | zero => intro data skipped st h; omega
  | succ fuel ih =>
    intro data skipped st hpsi s
    cases data with
    | nil => simp only [configureLoop]; split <;> simp
    | cons d data =>
      rcases loop_cases m d data skipped st with ⟨_, h⟩ | ⟨nx, hr, h⟩
      · rw [h]; simp
      · rw [h]
        have := round_psi hr
        exact ih _ _ _ (by simp only [] at this; omega) s

/-- the loop result does not depend on the fuel once it exceeds the measure -/
theorem loop_fuel (m : Model) : ∀ fuel fuel' data skipped st, psi data skipped < fuel → psi data skipped < fuel' →
    configureLoop m fuel data skipped st = configureLoop m fuel' data skipped st := by
  intro fuel
  induction fuel with
  | zero => intro fuel' data skipped st h; omega
  | succ fuel ih =>
    intro fuel' data skipped st h h'
    cases fuel' with
    | zero => omega
    | succ fuel' =>
      cases data with
      | nil => simp only [configureLoop]
      | cons d data =>
        rcases loop_cases m d data skipped st with ⟨_, e⟩ | ⟨nx, hr, e⟩
        · rw [e, e]
        · rw [e, e]
          have := round_psi hr
          exact ih _ _ _ _ (by simp only [] at this; omega) (by simp only [] at this; omega)

end Cfg

import Penman.Proofs.NormalFormMain
import Penman.Generated
/-!
# C20 (normal-form and identity clauses) — the output of the `penman` command is a fixed point

This file PROVES, by composing the finished developments C01 (text ↔ tree), C02 (tree ↔ graph
layout), C05a (`rearrange`), C09 (stream framing) and C13 (role canonicalisation), the two
clauses of property C20 that `Penman/Props/C20.lean` (pipeline equality) leaves as
"UNPROVED (stated)" and reduces to round-trip hypotheses:

  "… feeding the output back through the tool with the same options reproduces it byte for byte
   for every option set without --reconfigure, --indicate-branches or a random key; with no
   normalisation options and well-formed input the output decodes to the same graphs as the input."

for the option sets `nfOpts canon re i c` (Spec/NormalForm.lean): `--canonicalize-roles` on/off,
`--rearrange` with any list of the selectable keys and with/without attributes-first or absent,
every `--indent`, `--compact` on/off, every model; all other options off.

Model functions: `processIn`, `processOut`, `processTree`, `processLoop`, `processInput`, `mainRun`,
`fileLines` (Penman/Main.lean), `lexStr`/`lexLines` (Lexer), `parseTree` (Parse), `format`,
`interpret`, `configure`, `rearrange`, `canonicalizeRoles`.
Vocabulary (Penman/Spec/NormalForm.lean): `nfOpts`, `canonStep` (first line of `_process_in`),
`nfTree m re T'` (the tree that is printed: `dropNullConcept`, then `rearrange`), `streamOut`
(the text printed for one input: each serialisation followed by a line feed, a blank line between),
`NormRolesText cfg m` (decidable: `~` ends a ROLE, `-`,`o`,`f` are ROLE characters, every
normalisation value of the model is a ROLE text); `NF.GraphIn`/`GraphIn.Ok` (one graph of a
stream: its text, its tree, the canonicalised tree; Proofs/NormalFormMain.lean).

Clause ↦ theorem
* identity, one graph in the input ↦ `cli_identity`: the command prints the normal form
  `format ⟨dropNullConcept T.node, T.metadata⟩` + line feed, status 0; the printed text parses
  back to exactly that tree; and that tree is interpreted to the SAME graph as the input tree
  (`NF.interpret_dropNull`: an empty concept slot `(a /)` is invisible to `interpret` — the branch
  `('/', None)` yields the triple `(a :instance None)` with empty epidata at first position, and
  so does the synthetic instance triple of `(a)`).  So the output decodes to the same graphs.
* identity, streams ↦ `cli_identity_stream` (any number of graphs, any separators that produce no
  tokens; `iterparse` of the output yields the normal-form trees in order, each interpreted to
  the same graph as its input tree).
* normal form, one graph ↦ `cli_normal_form_partial`.
* normal form, streams ↦ `cli_normal_form_stream`; several inputs (`mainRun`) ↦ `cli_normal_form_inputs`
  (each input's output fed back on its own is reproduced byte for byte).
* per tree ↦ `NF.tree_normal_form` (first pass prints `format R`, `R` is grammar-valid, second pass
  on `R` prints `format R`), from `NF.processTree_nf` (C02), `NF.nfTree_canon` (C13: every role of
  `R` is a fixed point of `canonicalize_role`), `NF.nfTree_wfLayout` (`WfLayout` is preserved by
  `dropNullConcept` and `rearrangeNode`), `NF.nfTree_idem` (`dropNull_id`, `rearrange_idem`),
  `NF.nfTree_wfText` / `NF.canonStep_wfText` (`WfTreeText` is preserved by `dropNullConcept`,
  `rearrangeNode`, `canonNode`), `NF.parseTree_format` (C01/C07 with full consumption).

Hypotheses of the normal-form theorems and why they are there
* `FmtCfgWf cfg`, `SepChar cfg '\n'` (lexer tables; `fmt_cfg_wf`, by `decide` for the generated ones).
* the input's graphs parse completely (`parseTree … = .ok (T, [])`): the parser's own output,
  so `C01.parse_wf` makes them grammar-valid; nothing is assumed about metadata.
* `WfLayout u.isAlpha m T'.node` for the CANONICALISED tree `T'` (decidable).  It is not implied
  by `WfLayout` of the input tree: canonicalisation can merge roles (`:mod-of ↦ :domain` under
  AMR), so `(a :domain b :mod-of b)` has distinct triples before and a duplicated triple after —
  see `canon_breaks_wfLayout`.
* with `--canonicalize-roles`: `ModelWf m` (C13) and `NormRolesText cfg m`; both hold for the
  generated default/AMR/no-op models (`normRolesText_generated`).

UNPROVED (stated): the general `cli_normal_form` for the full option power set (see the end of the
file): reify-edges, dereify-edges, reify-attributes, make-variables, check are not covered here;
F18 (`--reify-edges --reify-attributes` on an inverted attribute with reifiable base role) is a
true counterexample (`Penman.C20.normal_form_F18`, repeated in Props/C20nfEval.lean as an `example`).
Concrete runs of the command evaluated on the model are in Props/C20nfEval.lean (kept apart to keep
both files well under the build-time limit).

FINDING (counterexample, `several_files_not_fixed` in Props/C20nfEval.lean): with SEVERAL input
files the concatenated output is NOT reproduced byte for byte when fed back as one stream: `process` separates the graphs
of one input by a blank line but `main` puts nothing between the outputs of different files, so
`penman a b` prints `(a / x)\n(b / y)\n`, and feeding that back prints `(a / x)\n\n(b / y)\n`
(real penman does the same).  The normal-form clause therefore holds per input stream
(`cli_normal_form_inputs`), not for the concatenation.

Integration note: importing the C01 chain and the C09 chain together needs the line
`import Penman.Proofs.LexLemmas` in `Penman/Proofs/FramingSplit.lean` (both auto-generate the same
matcher lemma for `splitLines`); no proof text changes.
-/
namespace Penman.C20nf
open Penman Penman.NF Penman.Framing

/-! ## hypotheses on the generated tables -/

theorem sepChar_generated : SepChar Generated.lexCfg '\n' := by decide

theorem normRolesText_generated :
    NormRolesText Generated.lexCfg Generated.defaultModel = true ∧
    NormRolesText Generated.lexCfg Generated.amrModel = true ∧
    NormRolesText Generated.lexCfg Generated.noopModel = true := by decide

/-! ## identity: no normalisation option -/

/-- **identity clause, one graph.**  No normalisation option (any indentation, compact or not),
    an input whose token stream parses completely as the tree `T`, `T` well formed for layout:
    * one graph in, one graph out: the normal-form text of `T` and a line feed, exit status 0;
    * the printed text parses back to the normal-form tree `⟨dropNullConcept T.node, T.metadata⟩`;
    * that tree and `T` are interpreted to the same graph (equal `Except` values: same triples,
      top, epidata, metadata). -/
theorem cli_identity {cfg : LexCfg} (hw : Spec.FmtCfgWf cfg = true) (hsep : SepChar cfg '\n')
    (u : UTables) (m : Model) (i : Indent) (c : Bool) (x : Str) (T : Tree)
    (hp : parseTree ⟨eofPos (lexStr cfg cfg.penmanOrder x)⟩ u.isSpace (lexStr cfg cfg.penmanOrder x)
      = .ok (T, []))
    (hl : WfLayout u.isAlpha m T.node) :
    let N : Tree := ⟨dropNullConcept T.node, T.metadata⟩
    processInput cfg u m { indent := i, compact := c } x = (format N i c ++ ['\n'], .ok 0) ∧
    C01.parse cfg u.isSpace (format N i c ++ ['\n']) = .ok N ∧
    interpret u.isAlpha m N = interpret u.isAlpha m T := by
  intro N
  have hwf := C01.parse_wf hw u.isSpace x T (parse_of_parseTree ⟨_, hp⟩)
  have ht := processTree_nf u m false none i c T T rfl hl (metaDict_of_wfMeta hwf.2)
  refine ⟨processInput_single cfg hsep u m _ x T _ 0 hp ht, ?_, interpret_dropNull u.isAlpha m T.node T.metadata hl.1⟩
  unfold C01.parse
  rw [lexStr_append_lf _ _ _ (format_noCR _ _ _)]
  exact C01.C01_roundtrip hw u.isSpace _ _ (wfTreeText_dropNull cfg T.node hwf.1) hwf.2 i c

/-- **identity clause, streams.**  An input whose token stream is, up to line numbers and
    offsets, the concatenation of the token streams of texts `gₖ.s` that parse completely to
    `gₖ.T` (so: any number of graphs, separated by anything that produces no tokens), all
    `WfLayout`: the command prints the normal forms in order (a blank line between, a line feed at
    the end, status 0); `iterparse` of the printed text yields exactly the normal-form trees, in
    order, without error; each is interpreted to the same graph as its input tree. -/
theorem cli_identity_stream {cfg : LexCfg} (hw : Spec.FmtCfgWf cfg = true) (hsep : SepChar cfg '\n')
    (u : UTables) (m : Model) (i : Indent) (c : Bool) (x : Str) (gs : List GraphIn)
    (hg : ∀ g ∈ gs, g.Ok cfg u m false)
    (hx : LSim u.isSpace [] (gs.map fun g => lexStr cfg cfg.penmanOrder g.s).flatten
      (lexStr cfg cfg.penmanOrder x)) :
    let N : GraphIn → Tree := fun g => ⟨dropNullConcept g.T.node, g.T.metadata⟩
    let out := streamOut true (gs.map fun g => format (N g) i c)
    processInput cfg u m { indent := i, compact := c } x = (out, .ok 0) ∧
    iterparseToks u.isSpace (lexStr cfg cfg.penmanOrder out) = (gs.map N, none) ∧
    ∀ g ∈ gs, interpret u.isAlpha m (N g) = interpret u.isAlpha m g.T := by
  intro N out
  have hT' : ∀ g ∈ gs, g.T' = g.T := fun g hgm => by
    have := (hg g hgm).2.1
    simp only [canonStep, Bool.false_eq_true, if_false, pure, Except.pure, Except.ok.injEq] at this
    exact this.symm
  have hout : out = streamOut true (gs.map fun g => format (nfTree m none g.T') i c) := by
    simp only [out]; congr 1
    apply List.map_congr_left
    intro g hgm; rw [hT' g hgm]; rfl
  have h1 := (stream_normal_form hw hsep u m false none i c (fun h => by cases h) x gs hg hx).1
  refine ⟨by rw [hout]; exact h1, ?_, ?_⟩
  · by_cases hnil : gs = []
    · subst hnil; rfl
    · have hss : (gs.map fun g => format (N g) i c) ≠ [] := by simpa using hnil
      simp only [out]
      rw [streamOut_join _ hss]
      have := iterparse_join u.isSpace cfg cfg.penmanOrder 1 ['\n'] (Or.inr rfl)
        (gs.map fun g => (format (N g) i c, N g))
        (by intro p hp; simp only [List.mem_map] at hp; obtain ⟨g, _, rfl⟩ := hp; exact format_noCR _ _ _)
        (by
          intro p hp; simp only [List.mem_map] at hp
          obtain ⟨g, hgm, rfl⟩ := hp
          have hwf := C01.parse_wf hw u.isSpace g.s g.T (parse_of_parseTree (hg g hgm).1)
          exact ⟨⟨(0, 0)⟩, parseTree_format hw u.isSpace _ _ (wfTreeText_dropNull cfg g.T.node hwf.1) hwf.2 i c _⟩)
      simpa [List.map_map, Function.comp_def] using this
  · intro g hgm
    have := (hg g hgm).2.2
    rw [hT' g hgm] at this
    exact interpret_dropNull u.isAlpha m g.T.node g.T.metadata this.1

/-! ## normal form: `--canonicalize-roles`, `--rearrange`, `--indent`, `--compact` -/

/-- **normal-form clause, one graph** (`_partial`: for the option sets `nfOpts`).
    Let the input parse completely as `T`, let `T'` be `T` after the canonicalisation step
    (`T' = T` without `--canonicalize-roles`), `WfLayout` for `T'`.  Then the command prints
    `out1 = format (nfTree m re T') ++ "\n"` with status 0, and feeding `out1` back through the
    command with the same options prints `out1` again, byte for byte, with status 0. -/
theorem cli_normal_form_partial {cfg : LexCfg} (hw : Spec.FmtCfgWf cfg = true) (hsep : SepChar cfg '\n')
    (u : UTables) (m : Model) (canon : Bool) (re : Option (List KeyFn × Bool)) (i : Indent) (c : Bool)
    (hm : canon = true → ModelWf m ∧ NormRolesText cfg m = true)
    (x : Str) (T T' : Tree)
    (hp : parseTree ⟨eofPos (lexStr cfg cfg.penmanOrder x)⟩ u.isSpace (lexStr cfg cfg.penmanOrder x)
      = .ok (T, []))
    (hc : canonStep m canon T = .ok T') (hl : WfLayout u.isAlpha m T'.node) :
    let out1 := format (nfTree m re T') i c ++ ['\n']
    processInput cfg u m (nfOpts canon re i c) x = (out1, .ok 0) ∧
    processInput cfg u m (nfOpts canon re i c) out1 = (out1, .ok 0) := by
  have := stream_normal_form hw hsep u m canon re i c hm x [⟨x, T, T'⟩]
    (by intro g hgm; simp only [List.mem_singleton] at hgm; subst hgm; exact ⟨⟨_, hp⟩, hc, hl⟩)
    (by simpa using LSim.refl_nil u.isSpace _)
  simpa [streamOut] using this

/-- **normal-form clause, streams**: any number of graphs in one input. -/
theorem cli_normal_form_stream {cfg : LexCfg} (hw : Spec.FmtCfgWf cfg = true) (hsep : SepChar cfg '\n')
    (u : UTables) (m : Model) (canon : Bool) (re : Option (List KeyFn × Bool)) (i : Indent) (c : Bool)
    (hm : canon = true → ModelWf m ∧ NormRolesText cfg m = true)
    (x : Str) (gs : List GraphIn) (hg : ∀ g ∈ gs, g.Ok cfg u m canon)
    (hx : LSim u.isSpace [] (gs.map fun g => lexStr cfg cfg.penmanOrder g.s).flatten
      (lexStr cfg cfg.penmanOrder x)) :
    let out1 := streamOut true (gs.map fun g => format (nfTree m re g.T') i c)
    processInput cfg u m (nfOpts canon re i c) x = (out1, .ok 0) ∧
    processInput cfg u m (nfOpts canon re i c) out1 = (out1, .ok 0) :=
  stream_normal_form hw hsep u m canon re i c hm x gs hg hx

/-- the stream hypothesis holds for texts joined by `k+1` line feeds, with or without a final
    line feed (what `dumps`/`dump` and the command itself write) -/
theorem stream_of_joined (isSpace : Char → Bool) (cfg : LexCfg) (k : Nat) (trail : Str)
    (ht : trail = [] ∨ trail = ['\n']) (ss : List Str) (hcr : ∀ s ∈ ss, s.getLast? ≠ some '\r') :
    LSim isSpace [] (ss.map (lexStr cfg cfg.penmanOrder)).flatten
      (lexStr cfg cfg.penmanOrder (joinStr ('\n' :: List.replicate k '\n') ss ++ trail)) :=
  (lexJoin_sim isSpace cfg cfg.penmanOrder k trail ht ss hcr 1).symm_nil

/-- **several inputs** (`main` over stdin or FILEs): the outputs are concatenated, the status is
    0, and each input's output, fed back on its own, is reproduced byte for byte. -/
theorem cli_normal_form_inputs {cfg : LexCfg} (hw : Spec.FmtCfgWf cfg = true) (hsep : SepChar cfg '\n')
    (u : UTables) (m : Model) (canon : Bool) (re : Option (List KeyFn × Bool)) (i : Indent) (c : Bool)
    (hm : canon = true → ModelWf m ∧ NormRolesText cfg m = true)
    (ins : List (Str × List GraphIn))
    (hg : ∀ p ∈ ins, (∀ g ∈ p.2, g.Ok cfg u m canon) ∧
      LSim u.isSpace [] (p.2.map fun g => lexStr cfg cfg.penmanOrder g.s).flatten
        (lexStr cfg cfg.penmanOrder p.1)) :
    let outOf : Str × List GraphIn → Str :=
      fun p => streamOut true (p.2.map fun g => format (nfTree m re g.T') i c)
    mainRun cfg u m (nfOpts canon re i c) (ins.map (·.1)) [] 0 = ((ins.map outOf).flatten, .ok 0) ∧
    ∀ p ∈ ins, mainRun cfg u m (nfOpts canon re i c) [outOf p] [] 0 = (outOf p, .ok 0) := by
  intro outOf
  have hfold : ∀ (l : List (Str × Str × Nat)), (∀ p ∈ l, p.2.2 = 0) →
      l.foldl (fun a p => a ||| p.2.2) 0 = 0 := by
    intro l
    induction l with
    | nil => intro _; rfl
    | cons p l ih =>
      intro h
      simp only [List.foldl_cons, h p (by simp)]
      exact ih (fun q hq => h q (by simp [hq]))
  constructor
  · have := mainRun_inputs cfg u m (nfOpts canon re i c) (ins.map fun p => (p.1, outOf p, 0))
      (by
        intro q hq; simp only [List.mem_map] at hq
        obtain ⟨p, hpm, rfl⟩ := hq
        exact (stream_normal_form hw hsep u m canon re i c hm p.1 p.2 (hg p hpm).1 (hg p hpm).2).1)
      [] 0
    simp only [List.map_map, Function.comp_def, List.nil_append] at this
    rw [this, hfold _ (by intro q hq; simp only [List.mem_map] at hq; obtain ⟨p, _, rfl⟩ := hq; rfl)]
  · intro p hpm
    have h2 := (stream_normal_form hw hsep u m canon re i c hm p.1 p.2 (hg p hpm).1 (hg p hpm).2).2
    have := mainRun_inputs cfg u m (nfOpts canon re i c) [(outOf p, outOf p, 0)]
      (by intro q hq; simp only [List.mem_singleton] at hq; subst hq; exact h2) [] 0
    simpa using this

/-! ## non-vacuity -/

/- decidable equality of trees and results, for the `decide` examples only -/
deriving instance DecidableEq for Node, Branches
deriving instance DecidableEq for Tree
deriving instance DecidableEq for Except

/-- ASCII stand-ins for the Unicode tables `str.isspace`, `str.isalpha`, `str.lower` -/
def uT : UTables := ⟨fun c => c = ' ' || c = '\n', isAsciiAlpha, fun c => [c]⟩

abbrev gcfg : LexCfg := Generated.lexCfg
abbrev amr : Model := Generated.amrModel

def s (x : String) : Str := x.toList

/-- the running example `(a / alpha :ARG0-of (b / beta) :mod 5 :ARG1 b)` -/
def exText : Str := s "(a / alpha :ARG0-of (b / beta) :mod 5 :ARG1 b)"
def exTree : Tree :=
  ⟨.mk (some (s "a")) (.atom (s "/") (.str (s "alpha"))
    (.sub (s ":ARG0-of") (.mk (some (s "b")) (.atom (s "/") (.str (s "beta")) .nil))
    (.atom (s ":mod") (.str (s "5"))
    (.atom (s ":ARG1") (.str (s "b")) .nil)))), []⟩

/-- the same graph written with non-canonical roles: `:ARG0-of-of-of`, `:domain-of` -/
def exText2 : Str := s "# ::id 2\n(a / alpha :ARG0-of-of-of (b / beta) :domain-of 5 :ARG1 b)"
def exTree2 : Tree :=
  ⟨.mk (some (s "a")) (.atom (s "/") (.str (s "alpha"))
    (.sub (s ":ARG0-of-of-of") (.mk (some (s "b")) (.atom (s "/") (.str (s "beta")) .nil))
    (.atom (s ":domain-of") (.str (s "5"))
    (.atom (s ":ARG1") (.str (s "b")) .nil)))), [(s "id", s "2")]⟩

/-- options: `--amr --canonicalize-roles --rearrange canonical` (adaptive indentation) -/
def exRe : Option (List KeyFn × Bool) := some ([.canonical], false)

theorem ex_parse : parseTree ⟨eofPos (lexStr gcfg gcfg.penmanOrder exText)⟩ uT.isSpace
    (lexStr gcfg gcfg.penmanOrder exText) = .ok (exTree, []) := by decide +kernel
theorem ex_parse2 : parseTree ⟨eofPos (lexStr gcfg gcfg.penmanOrder exText2)⟩ uT.isSpace
    (lexStr gcfg gcfg.penmanOrder exText2) = .ok (exTree2, []) := by decide +kernel
theorem ex_canon : canonStep amr true exTree = .ok exTree := by decide +kernel
theorem ex_canon2 : canonStep amr true exTree2 = .ok ⟨exTree.node, exTree2.metadata⟩ := by decide +kernel
theorem ex_layout : WfLayout uT.isAlpha amr exTree.node := by decide +kernel

/-- `cli_normal_form_partial` instantiated: AMR, canonicalise + rearrange canonical -/
example (i : Indent) (c : Bool) :
    let out1 := format (nfTree amr exRe exTree) i c ++ ['\n']
    processInput gcfg uT amr (nfOpts true exRe i c) exText = (out1, .ok 0) ∧
    processInput gcfg uT amr (nfOpts true exRe i c) out1 = (out1, .ok 0) :=
  cli_normal_form_partial C01.fmt_cfg_wf sepChar_generated uT amr true exRe i c
    (fun _ => ⟨C13.modelWf_amr, normRolesText_generated.2.1⟩) exText exTree exTree ex_parse ex_canon ex_layout

/-- … and on the non-canonical spelling (canonicalisation really rewrites roles, metadata kept) -/
example (i : Indent) (c : Bool) :
    let out1 := format (nfTree amr exRe ⟨exTree.node, exTree2.metadata⟩) i c ++ ['\n']
    processInput gcfg uT amr (nfOpts true exRe i c) exText2 = (out1, .ok 0) ∧
    processInput gcfg uT amr (nfOpts true exRe i c) out1 = (out1, .ok 0) :=
  cli_normal_form_partial C01.fmt_cfg_wf sepChar_generated uT amr true exRe i c
    (fun _ => ⟨C13.modelWf_amr, normRolesText_generated.2.1⟩) exText2 exTree2 _ ex_parse2 ex_canon2 ex_layout

/-- input for `cli_identity`: two metadata items on one line, an empty concept slot, an inverted edge -/
def idText : Str := s "# ::id 1 ::snt x y\n(a / :ARG0-of (b / beta) :mod 5)"
def idTree : Tree :=
  ⟨.mk (some (s "a")) (.atom (s "/") .none
    (.sub (s ":ARG0-of") (.mk (some (s "b")) (.atom (s "/") (.str (s "beta")) .nil))
    (.atom (s ":mod") (.str (s "5")) .nil))), [(s "snt", s "x y"), (s "id", s "1")]⟩

theorem id_parse : parseTree ⟨eofPos (lexStr gcfg gcfg.penmanOrder idText)⟩ uT.isSpace
    (lexStr gcfg gcfg.penmanOrder idText) = .ok (idTree, []) := by decide +kernel
theorem id_layout : WfLayout uT.isAlpha amr idTree.node := by decide +kernel

/-- `cli_identity` instantiated (AMR model, every indentation, compact or not) -/
example (i : Indent) (c : Bool) :
    let N : Tree := ⟨dropNullConcept idTree.node, idTree.metadata⟩
    processInput gcfg uT amr { indent := i, compact := c } idText = (format N i c ++ ['\n'], .ok 0) ∧
    C01.parse gcfg uT.isSpace (format N i c ++ ['\n']) = .ok N ∧
    interpret uT.isAlpha amr N = interpret uT.isAlpha amr idTree :=
  cli_identity C01.fmt_cfg_wf sepChar_generated uT amr i c idText idTree id_parse id_layout

/-- the normalisation really happens: `(a / :ARG0-of …)` is printed `(a :ARG0-of …)` -/
example : format ⟨dropNullConcept idTree.node, idTree.metadata⟩ none false =
    s "# ::snt x y\n# ::id 1\n(a :ARG0-of (b / beta) :mod 5)" := by decide +kernel

/-- two graphs in one stream (blank-line separated, final line feed): the stream hypothesis of
    `cli_normal_form_stream` / `cli_identity_stream` holds by `stream_of_joined` -/
example : LSim uT.isSpace [] ([exText, idText].map (lexStr gcfg gcfg.penmanOrder)).flatten
    (lexStr gcfg gcfg.penmanOrder (joinStr ('\n' :: List.replicate 1 '\n') [exText, idText] ++ ['\n'])) :=
  stream_of_joined uT.isSpace gcfg 1 ['\n'] (Or.inr rfl) [exText, idText] (by decide)

/-! ## boundaries and counterexamples -/

/-- `(a / x :domain b :mod-of b)` and its canonical form `(a / x :domain b :domain b)` -/
def mergeTree : Tree :=
  ⟨.mk (some (s "a")) (.atom (s "/") (.str (s "x"))
    (.atom (s ":domain") (.str (s "b")) (.atom (s ":mod-of") (.str (s "b")) .nil))), []⟩
def mergeTree' : Tree :=
  ⟨.mk (some (s "a")) (.atom (s "/") (.str (s "x"))
    (.atom (s ":domain") (.str (s "b")) (.atom (s ":domain") (.str (s "b")) .nil))), []⟩

/-- `WfLayout` is NOT preserved by canonicalisation (AMR merges `:mod-of` into `:domain`): hence the
    hypothesis of the normal-form theorems is on the canonicalised tree.  (The command is still
    idempotent on this input — checked on the model in Props/C20nfEval.lean and on /repo — so the
    hypothesis is sufficient, not necessary: with duplicated triples C02 does not apply.) -/
theorem canon_breaks_wfLayout :
    WfLayout uT.isAlpha amr mergeTree.node ∧ canonStep amr true mergeTree = .ok mergeTree' ∧
    ¬ WfLayout uT.isAlpha amr mergeTree'.node := by decide +kernel

/- UNPROVED (stated): the general normal-form clause, for the full option power set.

   theorem cli_normal_form {cfg : LexCfg} (hw : Spec.FmtCfgWf cfg = true) (hsep : SepChar cfg '\n')
       (u : UTables) (m : Model) (o : Opts) (hm : ModelWf m ∧ NormRolesText cfg m = true)
       (hrc : o.reconfigure = none) (hib : o.indicateBranches = false) (htr : o.triples = false)
       (hfmt : ∀ f, o.makeVariables = some f → f.progressive)
       (x : Str) (gs : List GraphIn) (hg : ∀ g ∈ gs, g.Ok cfg u m o.canonicalizeRoles)
       (hx : LSim u.isSpace [] (gs.map fun g => lexStr cfg cfg.penmanOrder g.s).flatten
         (lexStr cfg cfg.penmanOrder x))
       (hF18 : o.reifyEdges = true → o.reifyAttributes = true → ∀ g ∈ gs, NoInvReifiableAttr m g.T')
       (out1 : Str) (code : Nat) (h1 : processInput cfg u m o x = (out1, .ok code)) :
       processInput cfg u m o out1 = (out1, .ok code)

   where `NoInvReifiableAttr m t`: no attribute branch of `t` (atomic target that is not a variable
   of `t`) has a role that `m` regards as inverted and whose de-inverted role has a reification
   (F18, the `example` in Props/C20nfEval.lean).  `htr` is needed (the triple notation is not PENMAN input:
   `Penman.C20.normal_form_needs_no_triples`), `hfmt` excludes non-terminating relabelling.
   PROVED above: the instances with `o = nfOpts canon re i c` (`cli_normal_form_stream`,
   `cli_normal_form_partial`, `cli_normal_form_inputs`).  MISSING for the rest: the analogue of
   `NF.tree_normal_form` for `reifyEdges`/`dereifyEdges`/`reifyAttributes` (C10/C11/C12 give
   graph-level idempotence up to epidata; what is needed is that `configure` of the transformed
   graph is a `WfLayout`, grammar-valid tree on which the transformation is the identity),
   for `--make-variables` (C04: relabelling the relabelled tree is the identity) and for `--check`
   (the `error-N` metadata written by the first pass must be reproduced by the second). -/

end Penman.C20nf

import Penman.Props.C20nf
import Penman.Proofs.Cli
/-!
# C20 (normal-form clause) — concrete runs of the command evaluated on the model

Companion of `Penman/Props/C20nf.lean`: closed runs of `processInput` / `mainRun` through the
kernel-evaluable twins of `Penman/Proofs/Cli.lean` (`processInput_eq_S`, …): the two passes on the
running example, the several-files finding, the role-merging boundary and finding F18.
-/
namespace Penman.C20nf
open Penman Penman.NF

/-- evaluate a closed run of the command (Proofs/Cli.lean: kernel-evaluable twins) -/
macro "cli_decide" : tactic => `(tactic|
  (simp only [Cli.processInput_eq_S, Cli.mainRun_eq_S, Cli.processTree_eq_S]
   decide +kernel))

/-- the two passes evaluated on the model for `--amr --canonicalize-roles` (adaptive indentation);
    with `--rearrange` the sort (`List.mergeSort`, well-founded recursion) does not evaluate in the
    kernel — the real command prints `(a / alpha\n   :ARG1 b\n   :mod 5\n   :ARG0-of (b / beta))`
    for the running example and reproduces it (checked on /repo) -/
example :
    processInput gcfg uT amr (nfOpts true none (some (-1)) false) exText2 =
      (s "# ::id 2\n(a / alpha\n   :ARG0-of (b / beta)\n   :mod 5\n   :ARG1 b)\n", .ok 0) ∧
    processInput gcfg uT amr (nfOpts true none (some (-1)) false)
        (s "# ::id 2\n(a / alpha\n   :ARG0-of (b / beta)\n   :mod 5\n   :ARG1 b)\n") =
      (s "# ::id 2\n(a / alpha\n   :ARG0-of (b / beta)\n   :mod 5\n   :ARG1 b)\n", .ok 0) := by
  cli_decide

/-- FINDING: several input files.  `penman a b` prints the two outputs back to back; feeding that
    text back as one stream inserts a blank line between the graphs (only the third text is a
    fixed point).  Real penman: `penman a.txt b.txt` prints `(a / x)\n(b / y)\n`, and
    `penman` on that prints `(a / x)\n\n(b / y)\n`. -/
theorem several_files_not_fixed :
    mainRun gcfg uT Generated.defaultModel {} [s "(a / x)", s "(b / y)\n"] [] 0 = (s "(a / x)\n(b / y)\n", .ok 0) ∧
    mainRun gcfg uT Generated.defaultModel {} [s "(a / x)\n(b / y)\n"] [] 0 = (s "(a / x)\n\n(b / y)\n", .ok 0) ∧
    mainRun gcfg uT Generated.defaultModel {} [s "(a / x)\n\n(b / y)\n"] [] 0 = (s "(a / x)\n\n(b / y)\n", .ok 0) := by
  cli_decide

example :
    processInput gcfg uT amr (nfOpts true none none false) (s "(a / x :domain b :mod-of b)") =
      (s "(a / x :domain b :domain b)\n", .ok 0) ∧
    processInput gcfg uT amr (nfOpts true none none false) (s "(a / x :domain b :domain b)\n") =
      (s "(a / x :domain b :domain b)\n", .ok 0) := by
  cli_decide

/-- finding F18 (= `Penman.C20.normal_form_F18`): `--amr --reify-edges --reify-attributes` is not
    idempotent on an inverted attribute whose base role is reifiable -/
example :
    processInput gcfg uT amr { reifyEdges := true, reifyAttributes := true } (s "(a / x :mod-of 7)") =
      (s "(a / x\n   :mod-of (_ / 7))\n", .ok 0) ∧
    processInput gcfg uT amr { reifyEdges := true, reifyAttributes := true } (s "(a / x\n   :mod-of (_ / 7))\n") =
      (s "(a / x\n   :ARG2-of (_2 / have-mod-91\n                :ARG1 (_ / 7)))\n", .ok 0) := by
  cli_decide

end Penman.C20nf

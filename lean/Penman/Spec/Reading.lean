/-
  Penman.Spec.Reading — the *documented reading* of PENMAN notation, written
  from docs/notation.rst ("Graph Anatomy", the PEG grammar, the paragraph on
  alignments) and docs/structures.rst (interpretation, epigraph), and
  deliberately not shaped like `penman.layout.interpret`:

  1. `Node.written` lists, in text order (depth-first pre-order), the
     relations a tree *writes*: who wrote it (the variable of the node in
     whose branch list it stands), the role text and the target text exactly
     as written, and whether the target is a nested node. A node without a
     node label reads as if `/` with a null concept were written first.
     Nothing is interpreted here: no model, no alignments, no markers.
  2. `denote` gives one written relation its meaning: the role name (`/` is
     `:instance`; an alignment suffix `~…` is not part of the name), the
     target constant (alignment suffix removed, string-aware), the two
     alignment markers, and the orientation: an inverted role whose target
     is a nested node or the variable of some node of the tree is swapped
     once (never under the no-op model); on a constant it is left as written.
  3. `read` maps 2 over 1. Triples, top, alignment tables and the layout
     facts (`writer`) are projections of that single list.

  There are no epidata lists, no Push/POP markers, no insert-at-front, no
  "has_concept" flag threaded through a loop.
-/
import Penman.Layout
namespace Penman.Spec.Reading
open Penman

/-- a parsed alignment marker `~` prefix? indices -/
abbrev Marker := Option Str × List Nat

/-- what a branch points at, as written -/
inductive WTarget where
  /-- an atom (constant or variable reference), text as written -/
  | atom (a : Atom)
  /-- a nested node `( v … )`; `v = none` for a node without variable -/
  | opens (v : Option Str)
deriving DecidableEq, Repr

/-- one relation as it stands in the text -/
structure Written where
  /-- variable of the node in whose branch list (or node label) it is written -/
  ctx : Option Str
  /-- role text as written, `/` for the node label -/
  role : Str
  tgt : WTarget
deriving DecidableEq, Repr

/-! ### string level -/

/-- the text before the first `~` -/
def beforeTilde (s : Str) : Str := s.takeWhile (· ≠ '~')
/-- the text after the first `~` -/
def afterTilde (s : Str) : Str := (s.dropWhile (· ≠ '~')).drop 1
/-- a quoted string's text up to and including its last `"` -/
def throughLastQuote (s : Str) : Str := (s.reverse.dropWhile (· ≠ '"')).reverse
/-- what follows the last `"` -/
def afterLastQuoteText (s : Str) : Str := (s.reverse.takeWhile (· ≠ '"')).reverse

/-- the name of a written role: `/` abbreviates `:instance`; `Role Alignment?` -/
def roleName (raw : Str) : Str := if raw = ['/'] then CONCEPT_ROLE else beforeTilde raw

/-- the alignment text written after a role, if any -/
def roleAlnText (raw : Str) : Option Str :=
  if raw = ['/'] then none else if '~' ∈ raw then some (afterTilde raw) else none

/-- `Atom Alignment?`: the constant and the alignment text that follows it.
    A `~` inside a quoted string is content: for a target starting with `"`
    the alignment is what follows the last `"`. -/
def splitTarget (s : Str) : Str × Option Str :=
  if '~' ∈ s then
    if s.head? = some '"' then
      if afterLastQuoteText s = [] then (s, none) else (throughLastQuote s, some (afterLastQuoteText s))
    else (beforeTilde s, some (afterTilde s))
  else (s, none)

/-! ### step 1: what the tree writes -/

/-- does the branch list carry a node label (a relation named `:instance`)? -/
def labelled (bs : Branches) : Bool := bs.toList.any fun b => roleName b.1 = CONCEPT_ROLE

mutual
/-- the relations written by a node and everything nested in it, in text order -/
def Node.written : Node → List Written
  | .mk v bs => (if labelled bs then [] else [⟨v, ['/'], .atom .none⟩]) ++ Branches.written v bs
/-- the relations written by a branch list of the node `ctx` -/
def Branches.written (ctx : Option Str) : Branches → List Written
  | .nil => []
  | .atom r a rest => ⟨ctx, r, .atom a⟩ :: Branches.written ctx rest
  | .sub r n rest => ⟨ctx, r, .opens n.var⟩ :: (Node.written n ++ Branches.written ctx rest)
end

/-! ### step 2: what a written relation means -/

/-- the meaning of one written relation -/
structure Denoted where
  /-- the triple (role as named in the text; `Graph` adds a missing colon) -/
  triple : Triple
  /-- alignment written after the role -/
  roleAln : Option Marker
  /-- alignment written after the target -/
  tgtAln : Option Marker
  /-- variable of the node that wrote it -/
  ctx : Str
  /-- variable of the nested node this relation opens -/
  opens : Option Str
  /-- was it written inverted, i.e. did the reading swap source and target? -/
  swapped : Bool
deriving DecidableEq, Repr

def parseAln? (isAlpha : Char → Bool) : Option Str → Except PyErr (Option Marker)
  | none => .ok none
  | some s => (alnFromString isAlpha s).map some

/-- orientation: swap once iff the role is inverted, the target denotes a node, and the model deinverts -/
def orientTriple (m : Model) (sw : Bool) (t : Triple) : Triple := if sw then m.invert t else t

def denote (isAlpha : Char → Bool) (m : Model) (vars : List Str) (w : Written) : Except PyErr Denoted :=
  match w.ctx with
  | none => .error (.unmodelled "node without a variable")
  | some c =>
    let role := roleName w.role
    match parseAln? isAlpha (roleAlnText w.role) with
    | .error e => .error e
    | .ok ra =>
      match w.tgt with
      | .opens none => .error (.unmodelled "node without a variable")
      | .opens (some nv) =>
        let sw := !m.noop && m.isRoleInverted role
        .ok ⟨orientTriple m sw ⟨c, role, .str nv⟩, ra, none, c, some nv, sw⟩
      | .atom .none => .ok ⟨⟨c, role, .none⟩, ra, none, c, none, false⟩
      | .atom (.num _) => .error (.unmodelled "numeric atom in a tree given to interpret")
      | .atom (.str s) =>
        let st := splitTarget s
        match parseAln? isAlpha st.2 with
        | .error e => .error e
        | .ok ta =>
          let sw := !m.noop && m.isRoleInverted role && decide (st.1 ∈ vars)
          .ok ⟨orientTriple m sw ⟨c, role, .str st.1⟩, ra, ta, c, none, sw⟩

/-! ### step 3: the reading -/

/-- keep the first element for every key (later duplicates are ignored) -/
def firstOccAux {α κ : Type} [DecidableEq κ] (key : α → κ) (seen : List κ) : List α → List α
  | [] => []
  | x :: xs => if key x ∈ seen then firstOccAux key seen xs else x :: firstOccAux key (key x :: seen) xs

def firstOccBy {α κ : Type} [DecidableEq κ] (key : α → κ) (l : List α) : List α := firstOccAux key [] l

structure Reading where
  top : Option Str
  /-- the denoted relations in text order -/
  rels : List Denoted
deriving Repr

/-- the ordered triples, roles as named in the text -/
def Reading.triples (r : Reading) : List Triple := r.rels.map (·.triple)
/-- `Graph` reports every role with a leading colon -/
def colon (t : Triple) : Triple := { t with role := ensureColon t.role }
/-- alignments written after targets, by triple; duplicates of a triple are ignored -/
def Reading.alignments (r : Reading) : List (Triple × Marker) :=
  (firstOccBy (·.triple) r.rels).filterMap fun d => d.tgtAln.map fun a => (d.triple, a)
/-- alignments written after roles, by triple; duplicates of a triple are ignored -/
def Reading.roleAlignments (r : Reading) : List (Triple × Marker) :=
  (firstOccBy (·.triple) r.rels).filterMap fun d => d.roleAln.map fun a => (d.triple, a)
/-- layout facts: triple (as in the graph), writer node, opened node, written inverted? -/
def Reading.writer (r : Reading) : List (Triple × Str × Option Str × Bool) :=
  r.rels.map fun d => (colon d.triple, d.ctx, d.opens, d.swapped)

/-- The reading can be laid out again without loss (hypothesis of C14):
    * the denoted triples are pairwise distinct (so no marker is dropped for a duplicate),
    * every role is written with its colon (`Graph` adds a missing colon to the
      triple but not to the key its markers are filed under),
    * no nested node has the empty string as variable (Python: `if pushed:`),
    * no relation written inverted denotes an `:instance` triple (`:instance-of` on a node). -/
def Reading.Layoutable (r : Reading) : Prop :=
  r.triples.Nodup ∧ (∀ d ∈ r.rels, ensureColon d.triple.role = d.triple.role) ∧
  (∀ d ∈ r.rels, d.opens ≠ some []) ∧ (∀ d ∈ r.rels, d.swapped = true → d.triple.role ≠ CONCEPT_ROLE)

instance (r : Reading) : Decidable r.Layoutable := by unfold Reading.Layoutable; infer_instance

/-- the documented reading of a tree -/
def read (isAlpha : Char → Bool) (m : Model) (n : Node) : Except PyErr Reading :=
  ((Node.written n).mapM (denote isAlpha m n.vars)).map fun ds => ⟨n.var, ds⟩

end Penman.Spec.Reading

#!/bin/sh
# every check of MANIFEST.json against /repo (or $PENMAN_REPO), in N shards, each in its own copy of this
# directory under /tmp (removed at the end): tools/run_checks_parallel.sh quick|thorough SEED [N]
TIER=${1:-quick}; SEED=${2:-0}; N=${3:-5}
V=$(cd "$(dirname "$0")/.." && pwd)
cd $V
python3 -c "import json;print('\n'.join(c['property_id'] for c in json.load(open('MANIFEST.json'))['checks']))" | awk -v n=$N '{print > ("/tmp/chkshard." (NR%n))}'
for k in $(seq 0 $((N-1))); do
  rm -rf /tmp/vchk$k; cp -a $V /tmp/vchk$k
  ( cd /tmp/vchk$k
    for P in $(cat /tmp/chkshard.$k); do
      VERIF_SEED=$SEED ./check $P --tier $TIER > /tmp/chkshard.$k.log 2>&1; RC=$?
      echo "$P tier=$TIER seed=$SEED exit=$RC $(grep -h '^VIOLATION\|held' /tmp/chkshard.$k.log | tail -1)"
      if [ $RC -ne 0 ]; then mkdir -p /tmp/chkfail/$P-$SEED; cp /tmp/chkshard.$k.log /tmp/chkfail/$P-$SEED/log.txt; cp -r replays /tmp/chkfail/$P-$SEED/ 2>/dev/null; fi
    done > /tmp/chkshard.$k.out 2>&1
    rm -rf /tmp/vchk$k ) &
done
wait
cat /tmp/chkshard.*.out | sort
rm -f /tmp/chkshard.*

#!/usr/bin/env python3
"""Regenerate MANIFEST.json from the list of properties that have a Props module."""
import json, os
VERIF = os.path.dirname(os.path.dirname(os.path.abspath(__file__)))
props = [json.loads(l) for l in open(os.path.join(VERIF, 'properties.jsonl'))]
notes = json.load(open(os.path.join(VERIF, 'tools', 'manifest_notes.json')))
checks, na = [], []
for p in props:
    pid = p['id']
    n = notes.get(pid, {})
    if os.path.exists(os.path.join(VERIF, 'lean', 'Penman', 'Props', pid + '.lean')) and not n.get('not_applicable'):
        checks.append({
            'property_id': pid,
            'quick_cmd': f'./check {pid} --tier quick',
            'thorough_cmd': f'./check {pid} --tier thorough',
            'evidence_file': f'evidence/{pid}.json',
            'replay_cmd_template': f'./check {pid} --replay {{path}}',
            'engine': 'lean4-proof+correspondence',
            'level_claimed': {'category': 'proof', 'text': n.get('text', ''), 'design_ref': f'DESIGN.md §6 {pid}'},
            'level_note': n.get('note', ''),
            'technique': n.get('technique', 'Lean 4 theorems about a hand-written model + model/code correspondence check'),
        })
    else:
        na.append({'property_id': pid, 'reason': n.get('not_applicable', 'proof development not yet integrated (model and correspondence exist; see DESIGN.md)')})
m = {
    'version': 1,
    'setup_cmd': './setup.sh',
    'hooks': {'guard': 'PENMAN_VERIF', 'enable': 'no source hooks are needed: every observation point is a public or module-level function called in-process',
              'baseline_off_cmd': 'cd /repo && /venv/bin/python -m pytest -q -p no:cacheprovider --timeout=900', 'source_commits': [], 'add_only': True},
    'engines': [{'name': 'lean4-proof+correspondence', 'path': 'check', 'serves_properties': [c['property_id'] for c in checks],
                 'kind_free_text': 'Lean 4.33 theorems (lean/Penman/Props) about an executable model (lean/Penman/*.lean) tied to /repo by a translator (tools/gen_tables.py) and a differential correspondence check (harness/)'}],
    'checks': checks,
    'notes': 'See DESIGN.md. A broken proof obligation or correspondence triggers a failing-input search (harness/oracles.py); known findings in known_findings.json.',
    'not_applicable': na,
}
json.dump(m, open(os.path.join(VERIF, 'MANIFEST.json'), 'w'), indent=1)
print(len(checks), 'checks;', len(na), 'not claimed')

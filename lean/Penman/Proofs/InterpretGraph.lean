/-
  Penman.Proofs.InterpretGraph — graph-level helper lemmas for C04/C14:
  association lists, `epimapOf` = first occurrence, structural facts about
  `Spec.Reading.written`, the shape of a denoted relation, `~`-freeness.
-/
import Penman.Proofs.Interpret
namespace Penman.Interp
open Penman Penman.Spec.Reading

/-! ### association lists -/

theorem set_of_not_mem {α β : Type} [DecidableEq α] (d : AList α β) (k : α) (v : β)
    (h : k ∉ d.map (·.1)) : AList.set d k v = d ++ [(k, v)] := by
  induction d with
  | nil => rfl
  | cons x d ih =>
    obtain ⟨k', v'⟩ := x
    simp only [List.map_cons, List.mem_cons, not_or] at h
    have hne : ¬ k' = k := fun e => h.1 e.symm
    simp [AList.set, hne, ih h.2]

theorem foldl_set_nodup {α β : Type} [DecidableEq α] (l d : List (α × β))
    (h : ((d ++ l).map (·.1)).Nodup) :
    l.foldl (fun d p => AList.set d p.1 p.2) d = d ++ l := by
  induction l generalizing d with
  | nil => simp
  | cons x l ih =>
    have hx : x.1 ∉ d.map (·.1) := by
      simp only [List.map_append, List.map_cons] at h
      have := (List.nodup_append.1 h).2.2
      intro hm; exact this _ hm _ List.mem_cons_self rfl
    rw [List.foldl_cons, set_of_not_mem d x.1 x.2 hx, ih]
    · simp
    · simpa using h

theorem ofList_of_nodup {α β : Type} [DecidableEq α] (l : List (α × β)) (h : (l.map (·.1)).Nodup) :
    AList.ofList l = l := by
  have := foldl_set_nodup l [] (by simpa using h)
  simpa [AList.ofList] using this

theorem get?_of_mem_nodup {α β : Type} [DecidableEq α] (l : List (α × β)) (h : (l.map (·.1)).Nodup)
    {k : α} {v : β} (hm : (k, v) ∈ l) : AList.get? l k = some v := by
  induction l with
  | nil => cases hm
  | cons x l ih =>
    obtain ⟨k', v'⟩ := x
    simp only [List.map_cons, List.nodup_cons] at h
    rcases List.mem_cons.1 hm with he | hm'
    · cases he; simp [AList.get?]
    · have hne : k' ≠ k := by
        rintro rfl; exact h.1 (List.mem_map.2 ⟨_, hm', rfl⟩)
      have := ih h.2 hm'
      simpa [AList.get?, List.find?_cons, hne] using this

theorem get?_none_of_not_mem {α β : Type} [DecidableEq α] (l : List (α × β)) {k : α}
    (h : k ∉ l.map (·.1)) : AList.get? l k = none := by
  induction l with
  | nil => rfl
  | cons x l ih =>
    obtain ⟨k', v'⟩ := x
    simp only [List.map_cons, List.mem_cons, not_or] at h
    have := ih h.2
    have hne : ¬ k' = k := fun e => h.1 e.symm
    simp only [AList.get?, List.find?_cons, hne, decide_false] at this ⊢
    exact this

/-! ### `epimapOf` keeps the first entry per triple -/

theorem filter_epimapOf (seen : List Triple) (l : List (Triple × List Epi)) :
    (epimapOf l).filter (fun x => decide (x.1 ∉ seen)) = firstOccAux (·.1) seen l := by
  induction l generalizing seen with
  | nil => rfl
  | cons x l ih =>
    obtain ⟨t, e⟩ := x
    simp only [epimapOf, firstOccAux, List.filter_cons]
    by_cases hs : t ∈ seen
    · simp only [hs, not_true_eq_false, decide_false, Bool.false_eq_true, if_false, if_true, List.filter_filter]
      rw [← ih seen]
      apply List.filter_congr
      intro y _
      by_cases hy : y.1 ∈ seen
      · simp [hy]
      · have : y.1 ≠ t := by rintro rfl; exact hy hs
        simp [hy, this]
    · simp only [hs, not_false_eq_true, decide_true, if_true, if_false, List.filter_filter]
      rw [← ih (t :: seen)]
      congr 1
      apply List.filter_congr
      intro y _
      by_cases hy : y.1 = t <;> simp [hy, hs]

theorem epimapOf_eq_firstOcc (l : List (Triple × List Epi)) : epimapOf l = firstOccBy (·.1) l := by
  have := filter_epimapOf [] l
  rw [firstOccBy, ← this]; simp only [List.not_mem_nil, not_false_eq_true, decide_true]
  exact (List.filter_eq_self.2 (fun _ _ => rfl)).symm

theorem firstOccAux_map {α β κ : Type} [DecidableEq κ] (f : α → β) (key : β → κ) (seen : List κ) (l : List α) :
    firstOccAux key seen (l.map f) = (firstOccAux (fun a => key (f a)) seen l).map f := by
  induction l generalizing seen with
  | nil => rfl
  | cons x l ih =>
    simp only [List.map_cons, firstOccAux]
    by_cases h : key (f x) ∈ seen <;> simp [h, ih]

theorem firstOccAux_keys_nodup {α κ : Type} [DecidableEq κ] (key : α → κ) (seen : List κ) (l : List α) :
    ((firstOccAux key seen l).map key).Nodup ∧ ∀ x ∈ firstOccAux key seen l, key x ∉ seen := by
  induction l generalizing seen with
  | nil => simp [firstOccAux]
  | cons x l ih =>
    simp only [firstOccAux]
    by_cases h : key x ∈ seen
    · simp only [h, if_true]; exact ih seen
    · simp only [h, if_false, List.map_cons, List.nodup_cons, List.mem_cons, forall_eq_or_imp]
      obtain ⟨h1, h2⟩ := ih (key x :: seen)
      refine ⟨⟨?_, h1⟩, not_false, fun y hy hm => h2 y hy (List.mem_cons_of_mem _ hm)⟩
      intro hm
      obtain ⟨y, hy, hk⟩ := List.mem_map.1 hm
      exact h2 y hy (by simp [hk])

theorem firstOccAux_of_nodup {α κ : Type} [DecidableEq κ] (key : α → κ) (seen : List κ) (l : List α)
    (h : (l.map key).Nodup) (hs : ∀ x ∈ l, key x ∉ seen) : firstOccAux key seen l = l := by
  induction l generalizing seen with
  | nil => rfl
  | cons x l ih =>
    simp only [List.map_cons, List.nodup_cons] at h
    simp only [firstOccAux, hs x List.mem_cons_self, if_false]
    rw [ih (key x :: seen) h.2]
    intro y hy hm
    rcases List.mem_cons.1 hm with he | hm
    · exact h.1 (he ▸ List.mem_map.2 ⟨y, hy, rfl⟩)
    · exact hs y (List.mem_cons_of_mem _ hy) hm


/-! ### `All2` utilities, `mapM` -/

theorem All2.mem_right {α β : Type} {R : α → β → Prop} {l₁ l₂} (h : All2 R l₁ l₂) {b} (hb : b ∈ l₂) :
    ∃ a ∈ l₁, R a b := by
  induction h with
  | nil => cases hb
  | cons hr _ ih =>
    rcases List.mem_cons.1 hb with rfl | hb
    · exact ⟨_, List.mem_cons_self, hr⟩
    · obtain ⟨a, ha, hr⟩ := ih hb; exact ⟨a, List.mem_cons_of_mem _ ha, hr⟩

theorem All2.mem_left {α β : Type} {R : α → β → Prop} {l₁ l₂} (h : All2 R l₁ l₂) {a} (ha : a ∈ l₁) :
    ∃ b ∈ l₂, R a b := by
  induction h with
  | nil => cases ha
  | cons hr _ ih =>
    rcases List.mem_cons.1 ha with rfl | ha
    · exact ⟨_, List.mem_cons_self, hr⟩
    · obtain ⟨b, hb, hr⟩ := ih ha; exact ⟨b, List.mem_cons_of_mem _ hb, hr⟩

theorem All2.mem_pair {α β : Type} {R : α → β → Prop} {l₁ l₂} (h : All2 R l₁ l₂) {b} (hb : b ∈ l₂) :
    ∃ a, (a, b) ∈ l₁.zip l₂ ∧ R a b := by
  induction h with
  | nil => cases hb
  | cons hr _ ih =>
    rcases List.mem_cons.1 hb with rfl | hb
    · exact ⟨_, by simp, hr⟩
    · obtain ⟨a, ha, hr⟩ := ih hb; exact ⟨a, by simp [ha], hr⟩

theorem mapM_ok_all2 {α β ε : Type} {f : α → Except ε β} {l : List α} {bs : List β}
    (h : l.mapM f = .ok bs) : All2 (fun a b => f a = .ok b) l bs := by
  induction l generalizing bs with
  | nil => simp [pure, Except.pure] at h; subst h; exact .nil
  | cons a l ih =>
    rw [List.mapM_cons] at h
    cases hfa : f a with
    | error e => simp [hfa, bind, Except.bind] at h
    | ok b =>
      cases hl : l.mapM f with
      | error e => simp [hfa, hl, bind, Except.bind] at h
      | ok bs' =>
        simp [hfa, hl, bind, Except.bind, pure, Except.pure] at h
        subst h
        exact .cons hfa (ih hl)

/-! ### structural facts about `written` -/

theorem mem_vars_mk (v : Str) (bs : Branches) : v ∈ (Node.mk (some v) bs).vars := by
  simp [Node.vars, Node.nodes]

theorem vars_mk (v : Option Str) (bs : Branches) :
    (Node.mk v bs).vars = (match v with | some x => [x] | none => []) ++ bs.nodes.map (·.1) := by
  cases v <;> simp [Node.vars, Node.nodes]

mutual
theorem written_node_vars : (n : Node) → ∀ w ∈ Node.written n,
      (∀ c, w.ctx = some c → c ∈ n.vars) ∧ (∀ nv, w.tgt = .opens (some nv) → nv ∈ n.vars)
  | .mk v bs => by
    intro w hw
    have hb := written_branches_vars v bs
    rw [vars_mk]
    simp only [Node.written, List.mem_append] at hw
    rcases hw with hw | hw
    · by_cases hl : labelled bs
      · simp [hl] at hw
      · simp only [hl, Bool.false_eq_true, if_false, List.mem_singleton] at hw
        subst hw
        refine ⟨fun c hc => ?_, fun nv h => by cases h⟩
        cases v with
        | none => cases hc
        | some x => cases hc; simp
    · obtain ⟨h1, h2⟩ := hb w hw
      refine ⟨fun c hc => ?_, fun nv h => List.mem_append_right _ (h2 nv h)⟩
      rcases h1 c hc with h1 | hm
      · subst h1; simp
      · exact List.mem_append_right _ hm
theorem written_branches_vars (ctx : Option Str) : (bs : Branches) → ∀ w ∈ Branches.written ctx bs,
      (∀ c, w.ctx = some c → ctx = some c ∨ c ∈ bs.nodes.map (·.1)) ∧
      (∀ nv, w.tgt = .opens (some nv) → nv ∈ bs.nodes.map (·.1))
  | .nil => by intro w hw; simp [Branches.written] at hw
  | .atom r a rest => by
    intro w hw
    simp only [Branches.written, List.mem_cons] at hw
    rcases hw with rfl | hw
    · exact ⟨fun c hc => .inl hc, fun nv h => by cases h⟩
    · simpa [Branches.nodes] using written_branches_vars ctx rest w hw
  | .sub r n rest => by
    intro w hw
    simp only [Branches.written, List.mem_cons, List.mem_append] at hw
    simp only [Branches.nodes, List.map_append, List.mem_append]
    rcases hw with rfl | hw | hw
    · refine ⟨fun c hc => .inl hc, fun nv h => ?_⟩
      simp only [WTarget.opens.injEq] at h
      left
      cases n with
      | mk v bs => simp only [Node.var] at h; subst h; exact mem_vars_mk nv bs
    · obtain ⟨h1, h2⟩ := written_node_vars n w hw
      exact ⟨fun c hc => .inr (.inl (h1 c hc)), fun nv h => .inl (h2 nv h)⟩
    · obtain ⟨h1, h2⟩ := written_branches_vars ctx rest w hw
      refine ⟨fun c hc => ?_, fun nv h => .inr (h2 nv h)⟩
      rcases h1 c hc with h1 | hm
      · exact .inl h1
      · exact .inr (.inr hm)
end

/-- every branch is a written relation of its node -/
theorem written_of_branch (ctx : Option Str) : (bs : Branches) → ∀ b ∈ bs.toList,
      ∃ w ∈ Branches.written ctx bs, w.ctx = ctx ∧ w.role = b.1
  | .nil => by intro b hb; simp [Branches.toList] at hb
  | .atom r a rest => by
    intro b hb
    simp only [Branches.toList, List.mem_cons] at hb
    rcases hb with rfl | hb
    · exact ⟨⟨ctx, r, .atom a⟩, by simp [Branches.written], rfl, rfl⟩
    · obtain ⟨w, hw, h⟩ := written_of_branch ctx rest b hb
      exact ⟨w, by simp [Branches.written, hw], h⟩
  | .sub r n rest => by
    intro b hb
    simp only [Branches.toList, List.mem_cons] at hb
    rcases hb with rfl | hb
    · exact ⟨⟨ctx, r, .opens n.var⟩, by simp [Branches.written], rfl, rfl⟩
    · obtain ⟨w, hw, h⟩ := written_of_branch ctx rest b hb
      exact ⟨w, by simp [Branches.written, hw], h⟩

mutual
/-- every node writes (or is read as having) an instance relation -/
theorem written_instance_node : (n : Node) → ∀ v ∈ n.vars,
      ∃ w ∈ Node.written n, w.ctx = some v ∧ roleName w.role = CONCEPT_ROLE
  | .mk x bs => by
    intro v hv
    rw [vars_mk, List.mem_append] at hv
    rcases hv with hv | hv
    · cases x with
      | none => simp at hv
      | some x =>
        simp only [List.mem_singleton] at hv; subst hv
        by_cases hl : labelled bs
        · simp only [labelled, List.any_eq_true, decide_eq_true_eq] at hl
          obtain ⟨b, hb, hr⟩ := hl
          obtain ⟨w, hw, h1, h2⟩ := written_of_branch (some v) bs b hb
          exact ⟨w, by simp [Node.written, hw], h1, by rw [h2]; exact hr⟩
        · exact ⟨⟨some v, ['/'], .atom .none⟩, by simp [Node.written, hl], rfl, by simp [roleName]⟩
    · obtain ⟨w, hw, h⟩ := written_instance_branches x bs v hv
      exact ⟨w, by simp [Node.written, hw], h⟩
theorem written_instance_branches (ctx : Option Str) : (bs : Branches) → ∀ v ∈ bs.nodes.map (·.1),
      ∃ w ∈ Branches.written ctx bs, w.ctx = some v ∧ roleName w.role = CONCEPT_ROLE
  | .nil => by intro v hv; simp [Branches.nodes] at hv
  | .atom r a rest => by
    intro v hv
    simp only [Branches.nodes] at hv
    obtain ⟨w, hw, h⟩ := written_instance_branches ctx rest v hv
    exact ⟨w, by simp [Branches.written, hw], h⟩
  | .sub r n rest => by
    intro v hv
    simp only [Branches.nodes, List.map_append, List.mem_append] at hv
    rcases hv with hv | hv
    · obtain ⟨w, hw, h⟩ := written_instance_node n v hv
      exact ⟨w, by simp [Branches.written, hw], h⟩
    · obtain ⟨w, hw, h⟩ := written_instance_branches ctx rest v hv
      exact ⟨w, by simp [Branches.written, hw], h⟩
end


/-! ### the shape of a denoted relation -/

inductive Shape (isAlpha : Char → Bool) (m : Model) (vars : List Str) (w : Written) (d : Denoted) : Prop where
  | opens (nv : Str) (h1 : w.tgt = .opens (some nv)) (h2 : d.opens = some nv)
      (h3 : d.swapped = (!m.noop && m.isRoleInverted (roleName w.role)))
      (h4 : d.triple = orientTriple m d.swapped ⟨d.ctx, roleName w.role, .str nv⟩) (h5 : d.tgtAln = none)
  | null (h1 : w.tgt = .atom .none) (h2 : d.opens = none) (h3 : d.swapped = false)
      (h4 : d.triple = ⟨d.ctx, roleName w.role, .none⟩) (h5 : d.tgtAln = none)
  | str (raw : Str) (h1 : w.tgt = .atom (.str raw)) (h2 : d.opens = none)
      (h3 : d.swapped = (!m.noop && m.isRoleInverted (roleName w.role) && decide ((splitTarget raw).1 ∈ vars)))
      (h4 : d.triple = orientTriple m d.swapped ⟨d.ctx, roleName w.role, .str (splitTarget raw).1⟩)
      (h5 : parseAln? isAlpha (splitTarget raw).2 = .ok d.tgtAln)

theorem denote_shape {isAlpha m vars w d} (h : denote isAlpha m vars w = .ok d) :
    w.ctx = some d.ctx ∧ parseAln? isAlpha (roleAlnText w.role) = .ok d.roleAln ∧
      Shape isAlpha m vars w d := by
  obtain ⟨ctx, role, tgt⟩ := w
  unfold denote at h
  cases ctx with
  | none => simp at h
  | some c =>
    simp only at h
    cases hra : parseAln? isAlpha (roleAlnText role) with
    | error e => simp [hra] at h
    | ok ra =>
      simp only [hra] at h
      cases tgt with
      | opens v =>
        cases v with
        | none => simp at h
        | some nv =>
          simp only [Except.ok.injEq] at h; subst h
          exact ⟨rfl, rfl, .opens nv rfl rfl rfl rfl rfl⟩
      | atom a =>
        cases a with
        | none => simp only [Except.ok.injEq] at h; subst h; exact ⟨rfl, rfl, .null rfl rfl rfl rfl rfl⟩
        | num t => simp at h
        | str s =>
          simp only at h
          cases hta : parseAln? isAlpha (splitTarget s).2 with
          | error e => simp [hta] at h
          | ok ta =>
            simp only [hta, Except.ok.injEq] at h; subst h
            exact ⟨rfl, rfl, .str s rfl rfl rfl rfl hta⟩

/-! ### no `~` leaks into a triple -/

theorem tilde_not_mem_beforeTilde (s : Str) : '~' ∉ beforeTilde s := by
  intro h
  have := mem_takeWhile_imp h
  simp at this

theorem tilde_not_mem_roleName (raw : Str) : '~' ∉ roleName raw := by
  unfold roleName
  by_cases h : raw = ['/']
  · simp only [h, if_true]; decide
  · simp only [h, if_false]; exact tilde_not_mem_beforeTilde raw

theorem tilde_splitTarget (s : Str) (h : '~' ∈ (splitTarget s).1) : (splitTarget s).1.head? = some '"' := by
  unfold splitTarget at h ⊢
  by_cases hm : '~' ∈ s
  · simp only [hm, if_true] at h ⊢
    by_cases hq : s.head? = some '"'
    · simp only [hq, if_true] at h ⊢
      by_cases ht : afterLastQuoteText s = []
      · simp only [ht, if_true]; exact hq
      · simp only [ht, if_false]
        have hmem : '"' ∈ s := by
          cases s with
          | nil => simp at hq
          | cons c cs => simp at hq; subst hq; simp
        obtain ⟨a, h1, h2, -⟩ := quote_split s hmem
        rw [h1]
        cases a with
        | nil => rfl
        | cons x a => rw [h2] at hq; exact hq
    · simp only [hq, if_false] at h
      exact absurd h (tilde_not_mem_beforeTilde s)
  · simp only [hm, if_false] at h

theorem tilde_not_mem_invertRole (m : Model) (r : Str) (h : '~' ∉ r) : '~' ∉ m.invertRole r := by
  unfold Model.invertRole
  split
  · intro hm; exact h (List.mem_of_mem_take hm)
  · intro hm
    rcases List.mem_append.1 hm with hm | hm
    · exact h hm
    · revert hm; decide

theorem tilde_not_mem_ensureColon (r : Str) (h : '~' ∉ r) : '~' ∉ ensureColon r := by
  unfold ensureColon
  split
  · exact h
  · intro hm
    rcases List.mem_cons.1 hm with hm | hm
    · revert hm; decide
    · exact h hm

theorem not_inverted_concept (m : Model) : m.isRoleInverted CONCEPT_ROLE = false := by
  have : endsWith ofStr CONCEPT_ROLE = false := by decide
  simp [Model.isRoleInverted, this]

end Penman.Interp

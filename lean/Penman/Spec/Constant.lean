/-
  Penman.Spec.Constant — specification-level definitions for property C18:
  the shape of `json.dumps` output, the decidable hypothesis on lexer tables,
  the JSON number grammar (independent of `scanJsonNumber`), lone-surrogate
  escapes, and the type tag of an evaluated constant.
-/
import Penman.Constant
import Penman.Lexer

namespace Penman
namespace C18

/-! ### shape of a quoted string -/

/-- lower-case hexadecimal digit -/
def isHexLower (c : Char) : Bool := ('0' ≤ c && c ≤ '9') || ('a' ≤ c && c ≤ 'f')

/-- printable ASCII -/
def isPrintable (c : Char) : Bool := 0x20 ≤ c.toNat && c.toNat ≤ 0x7e

/-- the characters that may follow a backslash in the output of `json.dumps` (other than `u`) -/
def simpleEscapes : List Char := ['"', '\\', 'n', 'r', 't', 'b', 'f']

/-- One escape block of a JSON string body as `json.dumps` writes it:
    a plain printable character other than `"` and `\`, a two-character escape,
    one `\uXXXX`, or two `\uXXXX` (a surrogate pair). -/
def isEscBlock (b : Str) : Bool :=
  match b with
  | [c] => c != '"' && c != '\\' && isPrintable c
  | [b0, e] => b0 == '\\' && simpleEscapes.contains e
  | [b0, u, h3, h2, h1, h0] =>
      b0 == '\\' && u == 'u' && isHexLower h3 && isHexLower h2 && isHexLower h1 && isHexLower h0
  | [b0, u, h3, h2, h1, h0, b0', u', l3, l2, l1, l0] =>
      b0 == '\\' && u == 'u' && isHexLower h3 && isHexLower h2 && isHexLower h1 && isHexLower h0 &&
      b0' == '\\' && u' == 'u' && isHexLower l3 && isHexLower l2 && isHexLower l1 && isHexLower l0
  | _ => false

/-! ### hypothesis on the lexer tables -/

/-- the STRING body class excludes no printable character besides `"` and `\` -/
def strExclOk (excl : List Char) : Bool :=
  excl.all fun c => c == '"' || c == '\\' || !isPrintable c

/-- token classes whose scanner cannot match at a `"` -/
def failsOnQuote (cfg : LexCfg) : TokTy → Bool
  | .COMMENT | .LPAREN | .RPAREN | .SLASH | .ROLE | .ALIGNMENT => true
  | .SYMBOL => cfg.symExcl.contains '"'
  | .UNEXPECTED => cfg.blank.contains '"'
  | .STRING => false

/-- in `order`, STRING comes before every class that could match at a `"` -/
def stringFirst (cfg : LexCfg) : List TokTy → Bool
  | [] => false
  | ty :: tys => ty == .STRING || (failsOnQuote cfg ty && stringFirst cfg tys)

/-- decidable hypothesis on the lexer tables for lexing quoted strings -/
def lexQuoteOk (cfg : LexCfg) (order : List TokTy) : Bool :=
  stringFirst cfg order && strExclOk cfg.strExcl

/-! ### JSON number grammar `-?(0|[1-9][0-9]*)(\.[0-9]+)?([eE][+-]?[0-9]+)?` -/

/-- `[0-9]+` -/
def IsDigits (ds : Str) : Prop := ds ≠ [] ∧ ∀ c ∈ ds, isAsciiDigit c = true

/-- the four parts of a JSON number -/
structure JsonNumberParts (sign int frac exp : Str) : Prop where
  /-- `-?` -/
  sign : sign = [] ∨ sign = ['-']
  /-- `0|[1-9][0-9]*` -/
  int : int = ['0'] ∨ ∃ c ds, int = c :: ds ∧ '1' ≤ c ∧ c ≤ '9' ∧ ∀ d ∈ ds, isAsciiDigit d = true
  /-- `(\.[0-9]+)?` -/
  frac : frac = [] ∨ ∃ ds, frac = '.' :: ds ∧ IsDigits ds
  /-- `([eE][+-]?[0-9]+)?` -/
  exp : exp = [] ∨ ∃ e sg ds, exp = e :: sg ++ ds ∧ (e = 'e' ∨ e = 'E') ∧
    (sg = [] ∨ sg = ['-'] ∨ sg = ['+']) ∧ IsDigits ds

/-- `t` matches the JSON number grammar; `isFloat` iff it has a fraction or an exponent -/
def IsJsonNumber (t : Str) (isFloat : Bool) : Prop :=
  ∃ sign int frac exp, t = sign ++ int ++ frac ++ exp ∧ JsonNumberParts sign int frac exp ∧
    (isFloat = true ↔ frac ≠ [] ∨ exp ≠ [])

/-- all characters are JSON whitespace -/
def AllWs (s : Str) : Prop := ∀ c ∈ s, isJsonWs c = true

/-- no character is JSON whitespace -/
def NoWs (s : Str) : Prop := ∀ c ∈ s, isJsonWs c = false

instance (s : Str) : Decidable (AllWs s) := by unfold AllWs; infer_instance
instance (s : Str) : Decidable (NoWs s) := by unfold NoWs; infer_instance
instance (s : Str) : Decidable (IsDigits s) := by unfold IsDigits; infer_instance

/-- `s` is `t` surrounded by JSON whitespace -/
def WsPadded (s t : Str) : Prop := ∃ pre post, s = pre ++ t ++ post ∧ AllWs pre ∧ AllWs post

/-! ### surrogate escapes (outside the model: Lean `Char` has no surrogates) -/

/-- `s` contains a `\uXXXX` escape with `XXXX` in D800..DFFF that is a low surrogate, or a
    high surrogate not immediately followed by a `\uXXXX` low surrogate. -/
def HasLoneSurrogateEscape (s : Str) : Prop :=
  ∃ pre post u rest, s = pre ++ '\\' :: 'u' :: post ∧ hex4Val post = some (u, rest) ∧
    ((0xdc00 ≤ u ∧ u ≤ 0xdfff) ∨
     (0xd800 ≤ u ∧ u ≤ 0xdbff ∧
        ¬ ∃ rest2 u2 rest3, rest = '\\' :: 'u' :: rest2 ∧ hex4Val rest2 = some (u2, rest3) ∧
            0xdc00 ≤ u2 ∧ u2 ≤ 0xdfff))

/-! ### type tags -/

/-- the `Type` that `penman.constant.type` derives from an evaluated value
    (`bool` is not in `_typemap`: `KeyError`) -/
def tagOf (a : Option Str) : CVal → Except PyErr CType
  | .none => .ok .null
  | .int _ => .ok .integer
  | .float _ => .ok .float
  | .bool => .error (.other "KeyError")
  | .str _ =>
    match a with
    | some s => .ok (if startsWith ['"'] s && endsWith ['"'] s then .string else .symbol)
    | none => .ok .symbol

/-- the string form of an atom, as `str(x)` gives it (`None` is special-cased by `quote`) -/
def atomText : Atom → Str
  | .none => []
  | .str s => s
  | .num t => t

end C18
end Penman

import Penman.Props.C20gen
import Penman.Props.C20nfEval
/-!
# C20 (normal-form clause), GRAPH half — non-vacuity and findings, evaluated on the model

Companion of `Penman/Props/C20gen.lean` (kept apart to keep both files well under the build-time
limit): the theorems instantiated on concrete graphs under `Generated.amrModel`, and the findings as
closed statements proved by `decide +kernel` (`configure` through its kernel-evaluable twin
`C02.configure_eq`).  Every run below was replayed on /repo with the same result.
-/
namespace Penman.C20gen
open Penman Penman.NF Penman.Cfg Penman.C03Text Penman.Framing Penman.C20nf

deriving instance DecidableEq for Graph

def T3 (s r : String) (t : Atom) : Triple := ⟨s.toList, r.toList, t⟩
def S3 (s : String) : Atom := .str s.toList
abbrev dflt : Model := Generated.defaultModel
abbrev isSp : Char → Bool := C03Text.Examples.isSp

/-! ## the key lemma and the fixed point on the running example of C03Text -/

/-- `gx` of Props/C03Text.lean (`(b / bark-01 :ARG0 (d / dog :quant 0 :name "a b" :ARG1-of b) :mod-of 7)`,
    triples shuffled, a number, an inverted edge, an inverted attribute, stale layout markers) is `LayoutOK` -/
theorem gx_layoutOK : LayoutOK amr C03Text.Examples.gx ∧ LayoutOK dflt C03Text.Examples.gx := by decide +kernel

/-- `configure_wfLayout` instantiated: the printed tree of `gx` (written form) is in the domain of C02 -/
example : WfLayout isAsciiAlpha dflt (writtenForm C03Text.Examples.gxNode) ∧
    noNullN (writtenForm C03Text.Examples.gxNode) = true := by
  have := configure_wfLayout isAsciiAlpha (m := dflt) (g := C03Text.Examples.gx) (top := none) C13.modelWf_default
    (by decide) (by decide) gx_layoutOK.2 (by decide) C03Text.Examples.gx_configure
  exact ⟨this.1, this.2.1⟩

/-- `encode_normal_form` instantiated (AMR, every top, indentation, compactness): whatever `encode gx`
    prints, decoding and encoding it again prints the same text (`gx` has no number spelled like a variable) -/
example (top : Option Str) (i : Indent) (c : Bool) (s1 : Str)
    (h1 : encode amr C03Text.Examples.gx top i c = .ok s1) :
    ∃ g', decode gcfg isSp isAsciiAlpha amr s1 = .ok g' ∧ encode amr g' none i c = .ok s1 := by
  obtain ⟨g', s2, a1, a2, _, a4⟩ := encode_normal_form C01.fmt_cfg_wf isSp isAsciiAlpha (m := amr)
    (g := C03Text.Examples.gx) C13.modelWf_amr (by decide) (by decide +kernel) gx_layoutOK.1 (by decide +kernel)
    (by decide) i c s1 h1
  have hnv : NumNotVar C03Text.Examples.gx := by decide
  rw [a4 (Or.inr hnv)] at a2
  exact ⟨g', a1, a2⟩

/-! ## FINDINGS 1 and 2: inverted self-loops are not fixed points -/

/-- a self-loop with an inverted role -/
def gLoopInv : Graph := { triples := [T3 "a" ":instance" (S3 "x"), T3 "a" ":ARG0-of" (S3 "a")] }
/-- a self-loop with a plain role and the layout marker `Push(a)` -/
def gLoopPush : Graph :=
  { triples := [T3 "a" ":instance" (S3 "x"), T3 "a" ":ARG0" (S3 "a")],
    epidata := [(T3 "a" ":ARG0" (S3 "a"), [.push "a".toList])] }

/-- both satisfy every hypothesis of C03 / C03Text, and every clause of `LayoutOK` but `selfLoop` -/
theorem loops_wf :
    (WfGraph dflt gLoopInv ∧ GraphTextOK gcfg isSp dflt gLoopInv ∧ Cfg.PushVars gLoopInv ∧ PushSrcOK gLoopInv ∧
      NoNum gLoopInv ∧ ¬ LayoutOK dflt gLoopInv) ∧
    (WfGraph dflt gLoopPush ∧ GraphTextOK gcfg isSp dflt gLoopPush ∧ Cfg.PushVars gLoopPush ∧ PushSrcOK gLoopPush ∧
      NoNum gLoopPush ∧ ¬ LayoutOK dflt gLoopPush) := by decide +kernel

/-- **FINDING 1.** `encode g = (a / x :ARG0-of a)` but `encode (decode (encode g)) = (a / x :ARG0 a)`. -/
theorem selfloop_inverted_not_fixed :
    encode dflt gLoopInv none none false = .ok (s "(a / x :ARG0-of a)") ∧
    (decode gcfg isSp isAsciiAlpha dflt (s "(a / x :ARG0-of a)")).bind
      (fun g => encode dflt g none none false) = .ok (s "(a / x :ARG0 a)") := by
  simp only [encode, C02.configure_eq]; decide +kernel

/-- **FINDING 2.** `configure` writes the self-loop `(a :ARG0 a)` marked `Push(a)` as `:ARG0-of a`:
    it CAN produce an inverted self-loop from a marker assignment; the second encoding differs. -/
theorem selfloop_push_not_fixed :
    encode dflt gLoopPush none none false = .ok (s "(a / x :ARG0-of a)") ∧
    (decode gcfg isSp isAsciiAlpha dflt (s "(a / x :ARG0-of a)")).bind
      (fun g => encode dflt g none none false) = .ok (s "(a / x :ARG0 a)") := by
  simp only [encode, C02.configure_eq]; decide +kernel

/-- the tree `(a / x :ARG0-of a)` is indeed outside the domain of C02 -/
example : ¬ WfLayout isAsciiAlpha dflt
    (.mk (some (s "a")) (.atom (s "/") (.str (s "x")) (.atom (s ":ARG0-of") (.str (s "a")) .nil))) := by
  decide +kernel

/-- without the marker (and with a plain role) a self-loop is fine -/
example : LayoutOK dflt { gLoopPush with epidata := [] } := by decide +kernel

/-! ## FINDING 3: `compact` and a number spelled like a variable -/

/-- `gnv` of Props/C03Text.lean (`:q 0` with the NUMBER 0 next to a node `(0 / y)`): first encoding
    `(a / x :q 0\n   :r (0 / y))`, second encoding `(a / x\n   :q 0\n   :r (0 / y))` — they differ in one
    line break; the second one is a fixed point (`encode_normal_form`). -/
theorem encode_normal_form_needs_numNotVar :
    LayoutOK dflt C03Text.Examples.gnv ∧ ¬ NumNotVar C03Text.Examples.gnv ∧
    encode dflt C03Text.Examples.gnv none (some (-1)) true = .ok (s "(a / x :q 0\n   :r (0 / y))") ∧
    (decode gcfg isSp isAsciiAlpha dflt (s "(a / x :q 0\n   :r (0 / y))")).bind
      (fun g => encode dflt g none (some (-1)) true) = .ok (s "(a / x\n   :q 0\n   :r (0 / y))") := by
  refine ⟨by decide +kernel, by decide, C03Text.Examples.compact_number_differs.1, ?_⟩
  simp only [encode, C02.configure_eq]; decide +kernel

end Penman.C20gen

/-
  Penman.Proofs.ResetIso — `interpret` commutes with the renaming done by
  `reset_variables` (property C10, clause `reset_iso`).
-/
import Penman.Proofs.ResetVars
import Penman.Layout
namespace Penman.RV

/-! ### `Except` plumbing -/

theorem ok_bind {α β : Type} (a : α) (f : α → Except PyErr β) : (Except.ok a >>= f) = f a := rfl
theorem err_bind {α β : Type} (e : PyErr) (f : α → Except PyErr β) :
    ((Except.error e : Except PyErr α) >>= f) = Except.error e := rfl
theorem pure_eq {α : Type} (a : α) : (pure a : Except PyErr α) = .ok a := rfl
theorem throw_eq {α : Type} (e : PyErr) : (throw e : Except PyErr α) = .error e := rfl
theorem fmap_ok {α β : Type} (f : α → β) (a : α) :
    f <$> (Except.ok a : Except PyErr α) = .ok (f a) := rfl
theorem fmap_error {α β : Type} (f : α → β) (e : PyErr) :
    f <$> (Except.error e : Except PyErr α) = .error e := rfl
theorem map_ok {α β : Type} (f : α → β) (a : α) :
    Except.map f (Except.ok a : Except PyErr α) = .ok (f a) := rfl
theorem map_error {α β : Type} (f : α → β) (e : PyErr) :
    Except.map f (Except.error e : Except PyErr α) = .error e := rfl

/-! ### renaming of interpretations -/

/-- rename a triple: the source always; the target when it is a string and
    the triple is not an instance triple (whose target is a concept) -/
def renTriple (vm : AList Str Str) (t : Triple) : Triple :=
  ⟨renVar vm t.src, t.role,
    if ensureColon t.role = CONCEPT_ROLE then t.tgt
    else match t.tgt with
      | .str s => .str (renVar vm s)
      | a => a⟩

def renEpi (vm : AList Str Str) : Epi → Epi
  | .push v => .push (renVar vm v)
  | e => e

def renEntry (vm : AList Str Str) (p : Triple × List Epi) : Triple × List Epi :=
  (renTriple vm p.1, p.2.map (renEpi vm))

def renPair (vm : AList Str Str) (p : List Triple × List (Triple × List Epi)) :
    List Triple × List (Triple × List Epi) :=
  (p.1.map (renTriple vm), p.2.map (renEntry vm))

def renOut (vm : AList Str Str) (o : InterpOut) : InterpOut :=
  ⟨o.hasConcept, o.triples.map (renTriple vm), o.epidata.map (renEntry vm)⟩

/-- rename a graph: sources, variable targets, the top, `Push` markers and
    the keys of the epidata -/
def renGraph (vm : AList Str Str) (g : Graph) : Graph :=
  { triples := g.triples.map (renTriple vm), top := g.top.map (renVar vm),
    epidata := g.epidata.map (renEntry vm), metadata := g.metadata }

theorem appendPopLast_map (vm : AList Str Str) : ∀ (l : List (Triple × List Epi)),
    appendPopLast (l.map (renEntry vm)) = (appendPopLast l).map (renEntry vm)
  | [] => rfl
  | [(t, e)] => by simp [appendPopLast, renEntry, renEpi]
  | x :: y :: r => by
    have := appendPopLast_map vm (y :: r)
    simp only [List.map_cons] at this ⊢
    simp only [appendPopLast, List.map_cons, this]

/-! ### `processRole`, `processAtomic` -/

theorem processRole_concept (isAlpha : Char → Bool) :
    processRole isAlpha ['/'] = .ok (CONCEPT_ROLE, []) := by
  simp [processRole]

theorem processRole_ok {isAlpha : Char → Bool} {r role : Str} {repis : List Epi} (hr : r ≠ ['/'])
    (h : processRole isAlpha r = .ok (role, repis)) :
    role = alnStem r ∧ ∀ vm, repis.map (renEpi vm) = repis := by
  simp only [processRole, if_neg hr] at h
  split at h
  · rename_i hb
    cases ha : alnFromString isAlpha (partitionStr ['~'] r).2.2 with
    | error e => simp [ha, fmap_error] at h
    | ok x =>
      simp only [ha, ok_bind, pure_eq] at h
      injection h with h; injection h with h1 h2
      subst h1; subst h2
      exact ⟨rfl, fun vm => rfl⟩
  · rename_i hb
    injection h with h; injection h with h1 h2
    subst h1; subst h2
    have := (partition_tilde_spec r).2.2 (by simpa using hb)
    exact ⟨this.1.symm, fun vm => rfl⟩

/-- the result of `_process_atomic` on `q ++ suf` when `q` is the stem -/
def procTail (isAlpha : Char → Bool) (q : Str) : Str → Except PyErr (Atom × List Epi)
  | [] => .ok (.str q, [])
  | _ :: rest => do
    let (pre, idx) ← alnFromString isAlpha rest
    pure (.str q, [.aln pre idx])

theorem processAtomic_stem (isAlpha : Char → Bool) (q suf : Str) (hq : '~' ∉ q)
    (hq' : q.head? ≠ some '"') (hs : suf = [] ∨ ∃ rest, suf = '~' :: rest) :
    processAtomic isAlpha (.str (q ++ suf)) = procTail isAlpha q suf := by
  rcases hs with rfl | ⟨rest, rfl⟩
  · simp [processAtomic, procTail, hq]
  · have h1 : (q ++ '~' :: rest).isEmpty = false := by cases q <;> rfl
    have h2 : (q ++ '~' :: rest).contains '~' = true := by simp
    have h3 : startsWith ['"'] (q ++ '~' :: rest) = false := by
      cases q with
      | nil => simp [startsWith, List.isPrefixOf]
      | cons c q =>
        have : c ≠ '"' := by simpa using hq'
        simp [startsWith, List.isPrefixOf, Ne.symm this]
    simp only [processAtomic, h1, h2, h3, partition_tilde_append q rest hq, procTail]
    simp

theorem procTail_ren (isAlpha : Char → Bool) (q q' suf : Str) :
    procTail isAlpha q' suf = (procTail isAlpha q suf).map (fun p => (.str q', p.2)) := by
  cases suf with
  | nil => rfl
  | cons c rest =>
    simp only [procTail]
    cases alnFromString isAlpha rest <;> rfl

theorem procTail_ok {isAlpha : Char → Bool} {q suf : Str} {t : Atom} {e : List Epi}
    (h : procTail isAlpha q suf = .ok (t, e)) : t = .str q ∧ ∀ vm, e.map (renEpi vm) = e := by
  cases suf with
  | nil => simp only [procTail] at h; injection h with h; injection h with h1 h2; subst h1; subst h2; exact ⟨rfl, fun _ => rfl⟩
  | cons c rest =>
    simp only [procTail] at h
    cases ha : alnFromString isAlpha rest with
    | error e => simp [ha, fmap_error] at h
    | ok x =>
      simp only [ha, ok_bind, pure_eq] at h
      injection h with h; injection h with h1 h2; subst h1; subst h2; exact ⟨rfl, fun _ => rfl⟩

theorem rfindAux_some (sep : Str) : ∀ (s : Str) (i j : Nat),
    ∃ k, rfindAux sep s i (some j) = some k
  | [], _, j => ⟨j, rfl⟩
  | c :: cs, i, j => by
    simp only [rfindAux]
    split
    · exact rfindAux_some sep cs (i + 1) i
    · exact rfindAux_some sep cs (i + 1) j

theorem afterLastQuote_quote (cs : Str) : ∃ k, afterLastQuote ('"' :: cs) = k + 1 := by
  obtain ⟨k, hk⟩ := rfindAux_some ['"'] cs 1 0
  refine ⟨k, ?_⟩
  simp only [afterLastQuote, rfindAux]
  have : (['"'].isPrefixOf ('"' :: cs)) = true := by simp [List.isPrefixOf]
  simp only [this, if_true, Nat.zero_add, hk]

/-- the target `_process_atomic` yields for a string is its stem before the
    first `'~'`, or (for a quoted string) a text starting with `'"'` -/
theorem processAtomic_ok_tgt {isAlpha : Char → Bool} {s : Str} {t : Atom} {e : List Epi}
    (h : processAtomic isAlpha (.str s) = .ok (t, e)) :
    (∃ t0, t = .str t0 ∧ (t0 = alnStem s ∨ t0.head? = some '"')) ∧
      ∀ vm, e.map (renEpi vm) = e := by
  simp only [processAtomic] at h
  split at h
  · rename_i hc
    injection h with h; injection h with h1 h2; subst h1; subst h2
    refine ⟨⟨s, rfl, Or.inl ?_⟩, fun _ => rfl⟩
    rcases Bool.or_eq_true_iff.1 hc with hc | hc
    · have : s = [] := by simpa using hc
      subst this; rfl
    · have : '~' ∉ s := by simpa using hc
      simp [alnStem, partition_tilde_none s this]
  · split at h
    · rename_i hq
      have hs : ∃ cs, s = '"' :: cs := by
        cases s with
        | nil => simp [startsWith, List.isPrefixOf] at hq
        | cons c cs =>
          have : '"' = c := by simpa [startsWith, List.isPrefixOf] using hq
          exact ⟨cs, by rw [← this]⟩
      obtain ⟨cs, rfl⟩ := hs
      obtain ⟨k, hk⟩ := afterLastQuote_quote cs
      split at h
      · cases ha : alnFromString isAlpha (List.drop (afterLastQuote ('"' :: cs)) ('"' :: cs)) with
        | error e => simp [ha, fmap_error] at h
        | ok x =>
          simp only [ha, ok_bind, pure_eq] at h
          injection h with h; injection h with h1 h2; subst h1; subst h2
          exact ⟨⟨_, rfl, Or.inr (by rw [hk]; rfl)⟩, fun _ => rfl⟩
      · injection h with h; injection h with h1 h2; subst h1; subst h2
        exact ⟨⟨_, rfl, Or.inr rfl⟩, fun _ => rfl⟩
    · cases ha : alnFromString isAlpha (partitionStr ['~'] s).2.2 with
      | error e => simp [ha, fmap_error] at h
      | ok x =>
        simp only [ha, ok_bind, pure_eq] at h
        injection h with h; injection h with h1 h2; subst h1; subst h2
        exact ⟨⟨_, rfl, Or.inl rfl⟩, fun _ => rfl⟩

theorem processAtomic_none (isAlpha : Char → Bool) :
    processAtomic isAlpha .none = .ok (.none, []) := rfl

/-! ### hypotheses of the isomorphism theorem -/

/-- the role (without its alignment) does not produce an instance triple,
    neither as written nor after deinversion -/
def roleOk (m : Model) (r : Str) : Bool :=
  decide (ensureColon (alnStem r) ≠ CONCEPT_ROLE) &&
    decide (ensureColon (m.invertRole (alnStem r)) ≠ CONCEPT_ROLE)

mutual
/-- * a variable reference and a nested node hang on a role that does not
      produce an instance triple (`roleOk`), a nested node not on `/`;
    * a string constant that is not a variable reference is not spelled
      (before its alignment) like one of the new names `news` -/
def nodeIsoOk (m : Model) (vm : AList Str Str) (news : List Str) : Node → Bool
  | .mk _ bs => branchesIsoOk m vm news bs
def branchesIsoOk (m : Model) (vm : AList Str Str) (news : List Str) : Branches → Bool
  | .nil => true
  | .atom r a rest =>
    (decide (r = ['/']) ||
      match a with
      | .str s => if AList.contains vm (alnStem s) then roleOk m r else decide (alnStem s ∉ news)
      | _ => true) && branchesIsoOk m vm news rest
  | .sub r n rest =>
    decide (r ≠ ['/']) && roleOk m r && nodeIsoOk m vm news n && branchesIsoOk m vm news rest
end

/-- what the isomorphism needs from the variable map w.r.t. the variables
    `vars` of the tree: same key set, injective, old variables do not start
    with `'"'`, new names contain no `'~'` and do not start with `'"'` -/
structure VmOk (vm : AList Str Str) (vars : List Str) : Prop where
  keys : ∀ x, x ∈ vars ↔ x ∈ AList.keys vm
  inj : (avals vm).Nodup
  keysQ : ∀ k, k ∈ AList.keys vm → k.head? ≠ some '"'
  newsOk : ∀ k nv, AList.get? vm k = some nv → '~' ∉ nv ∧ nv.head? ≠ some '"'

theorem renVar_of_get? {vm : AList Str Str} {k nv : Str} (h : AList.get? vm k = some nv) :
    renVar vm k = nv := by simp [renVar, h]

theorem renVar_of_not_key {vm : AList Str Str} {k : Str} (h : k ∉ AList.keys vm) :
    renVar vm k = k := by simp [renVar, get?_eq_none_iff.2 h]

theorem mem_news {vm : AList Str Str} {vars : List Str} (hv : VmOk vm vars) {x : Str} :
    x ∈ vars.map (renVar vm) ↔ ∃ k, AList.get? vm k = some x := by
  simp only [List.mem_map]
  constructor
  · rintro ⟨k, hk, rfl⟩
    have := get?_isSome_iff.2 ((hv.keys k).1 hk)
    obtain ⟨nv, hnv⟩ := Option.isSome_iff_exists.1 this
    exact ⟨k, by rw [renVar_of_get? hnv]; exact hnv⟩
  · rintro ⟨k, hk⟩
    exact ⟨k, (hv.keys k).2 (get?_isSome_iff.1 (by simp [hk])), renVar_of_get? hk⟩

theorem isRoleInverted_concept (m : Model) : m.isRoleInverted CONCEPT_ROLE = false := by
  have : endsWith ofStr CONCEPT_ROLE = false := by decide
  simp [Model.isRoleInverted, this]

theorem ensureColon_concept : ensureColon CONCEPT_ROLE = CONCEPT_ROLE := by decide

/-! ### one atomic branch -/

def atomStep (m : Model) (variables : List Str) (var role : Str) (repis : List Epi) (tgt : Atom)
    (tepis : List Epi) (out : InterpOut) : InterpOut :=
  let triple : Triple := ⟨var, role, tgt⟩
  let triple := if m.isRoleInverted role && atomInVars variables tgt then m.deinvert triple else triple
  ⟨out.hasConcept || role = CONCEPT_ROLE, triple :: out.triples,
    (triple, repis ++ tepis) :: out.epidata⟩

theorem interpretBranches_atom (isAlpha : Char → Bool) (m : Model) (variables : List Str)
    (var r : Str) (a : Atom) (rest : Branches) :
    interpretBranches isAlpha m variables var (.atom r a rest) =
      processRole isAlpha r >>= fun x => processAtomic isAlpha a >>= fun y =>
        interpretBranches isAlpha m variables var rest >>= fun out =>
          pure (atomStep m variables var x.1 x.2 y.1 y.2 out) := by
  simp only [interpretBranches]; rfl

theorem renTriple_deinvert (m : Model) (vm : AList Str Str) (var role p : Str)
    (h1 : ensureColon role ≠ CONCEPT_ROLE) (h2 : ensureColon (m.invertRole role) ≠ CONCEPT_ROLE) :
    renTriple vm (m.deinvert ⟨var, role, .str p⟩) =
      m.deinvert ⟨renVar vm var, role, .str (renVar vm p)⟩ := by
  simp only [Model.deinvert]
  split
  · simp [renTriple, h1]
  · split
    · simp [renTriple, Model.invert, h2]
    · simp [renTriple, h1]

/-- a renamed reference -/
theorem atomStep_ren_ref (m : Model) (vm : AList Str Str) (vars : List Str) (var role p : Str)
    (repis tepis : List Epi) (out : InterpOut)
    (h1 : ensureColon role ≠ CONCEPT_ROLE) (h2 : ensureColon (m.invertRole role) ≠ CONCEPT_ROLE)
    (hin : (renVar vm p ∈ vars.map (renVar vm)) ↔ p ∈ vars)
    (hr : repis.map (renEpi vm) = repis) (ht : tepis.map (renEpi vm) = tepis) :
    atomStep m (vars.map (renVar vm)) (renVar vm var) role repis (.str (renVar vm p)) tepis
        (renOut vm out) =
      renOut vm (atomStep m vars var role repis (.str p) tepis out) := by
  have hin' : atomInVars (vars.map (renVar vm)) (.str (renVar vm p)) = atomInVars vars (.str p) := by
    simp only [atomInVars]
    by_cases h : p ∈ vars
    · simp [h, hin.2 h]
    · have : ¬ renVar vm p ∈ vars.map (renVar vm) := fun h' => h (hin.1 h')
      simp [h, this]
  simp only [atomStep, renOut, hin']
  split
  · simp [renEntry, renTriple_deinvert m vm var role p h1 h2, hr, ht]
  · simp [renEntry, renTriple, h1, hr, ht]

/-- an atom that is left alone and causes no deinversion -/
theorem atomStep_ren_const (m : Model) (vm : AList Str Str) (vars : List Str) (var role : Str)
    (tgt : Atom) (repis tepis : List Epi) (out : InterpOut)
    (hd : (m.isRoleInverted role && atomInVars vars tgt) = false)
    (hd' : (m.isRoleInverted role && atomInVars (vars.map (renVar vm)) tgt) = false)
    (hc : ensureColon role = CONCEPT_ROLE ∨ ∀ s, tgt = .str s → renVar vm s = s)
    (hr : repis.map (renEpi vm) = repis) (ht : tepis.map (renEpi vm) = tepis) :
    atomStep m (vars.map (renVar vm)) (renVar vm var) role repis tgt tepis (renOut vm out) =
      renOut vm (atomStep m vars var role repis tgt tepis out) := by
  have ht' : renTriple vm ⟨var, role, tgt⟩ = ⟨renVar vm var, role, tgt⟩ := by
    simp only [renTriple]
    rcases hc with hc | hc
    · simp [hc]
    · split
      · rfl
      · cases tgt with
        | str s => simp [hc s rfl]
        | none => rfl
        | num t => rfl
  simp only [atomStep, renOut, hd, hd']
  simp [renEntry, ht', hr, ht]

/-! ### one nested node -/

def subStep (m : Model) (var role : Str) (repis : List Epi) (nv : Str)
    (p : List Triple × List (Triple × List Epi)) (out : InterpOut) : InterpOut :=
  let triple := m.deinvert ⟨var, role, .str nv⟩
  ⟨out.hasConcept || role = CONCEPT_ROLE, triple :: p.1 ++ out.triples,
    (triple, repis ++ [.push nv]) :: appendPopLast p.2 ++ out.epidata⟩

theorem interpretBranches_sub (isAlpha : Char → Bool) (m : Model) (variables : List Str)
    (var r : Str) (v : Option Str) (bs : Branches) (rest : Branches) :
    interpretBranches isAlpha m variables var (.sub r (.mk v bs) rest) =
      processRole isAlpha r >>= fun x =>
        match v with
        | none => throw (.unmodelled "node without a variable")
        | some nv =>
          interpretNode isAlpha m variables (.mk v bs) >>= fun p =>
            interpretBranches isAlpha m variables var rest >>= fun out =>
              pure (subStep m var x.1 x.2 nv p out) := by
  simp only [interpretBranches, Node.var]
  cases processRole isAlpha r with
  | error e => rfl
  | ok x => cases v <;> rfl

theorem subStep_ren (m : Model) (vm : AList Str Str) (var role nv : Str) (repis : List Epi)
    (p : List Triple × List (Triple × List Epi)) (out : InterpOut)
    (h1 : ensureColon role ≠ CONCEPT_ROLE) (h2 : ensureColon (m.invertRole role) ≠ CONCEPT_ROLE)
    (hr : repis.map (renEpi vm) = repis) :
    subStep m (renVar vm var) role repis (renVar vm nv) (renPair vm p) (renOut vm out) =
      renOut vm (subStep m var role repis nv p out) := by
  simp only [subStep, renOut, renPair, appendPopLast_map]
  simp [renEntry, renTriple_deinvert m vm var role nv h1 h2, hr, renEpi]

theorem interpretNode_some (isAlpha : Char → Bool) (m : Model) (variables : List Str)
    (var : Str) (bs : Branches) :
    interpretNode isAlpha m variables (.mk (some var) bs) =
      interpretBranches isAlpha m variables var bs >>= fun out =>
        if out.hasConcept then pure (out.triples, out.epidata)
        else pure (⟨var, CONCEPT_ROLE, .none⟩ :: out.triples,
                   (⟨var, CONCEPT_ROLE, .none⟩, []) :: out.epidata) := by
  simp only [interpretNode]

theorem processAtomic_epis {isAlpha : Char → Bool} {a t : Atom} {e : List Epi}
    (h : processAtomic isAlpha a = .ok (t, e)) (vm : AList Str Str) : e.map (renEpi vm) = e := by
  cases a with
  | none => simp only [processAtomic_none] at h; injection h with h; injection h with _ h2; subst h2; rfl
  | num t => simp [processAtomic] at h
  | str s => exact (processAtomic_ok_tgt h).2 vm

/-! ### the tree-level commutation -/

theorem atom_case_ren (isAlpha : Char → Bool) (m : Model) (vm : AList Str Str) (vars : List Str)
    (hv : VmOk vm vars) (var r : Str) (a : Atom) (rest : Branches)
    (hok : (decide (r = ['/']) ||
      match a with
      | .str s => if AList.contains vm (alnStem s) then roleOk m r
                  else decide (alnStem s ∉ vars.map (renVar vm))
      | _ => true) = true)
    (ih : interpretBranches isAlpha m (vars.map (renVar vm)) (renVar vm var) (renBranches vm rest) =
      (interpretBranches isAlpha m vars var rest).map (renOut vm)) :
    interpretBranches isAlpha m (vars.map (renVar vm)) (renVar vm var)
        (.atom r (renAtom vm r a) (renBranches vm rest)) =
      (interpretBranches isAlpha m vars var (.atom r a rest)).map (renOut vm) := by
  rw [interpretBranches_atom, interpretBranches_atom, ih]
  cases hpr : processRole isAlpha r with
  | error e => rfl
  | ok x =>
    obtain ⟨role, repis⟩ := x
    simp only [ok_bind]
    by_cases hr : r = ['/']
    · subst hr
      rw [processRole_concept] at hpr
      injection hpr with hpr; injection hpr with h1 h2; subst h1; subst h2
      rw [renAtom_concept]
      cases hpa : processAtomic isAlpha a with
      | error e => rfl
      | ok y =>
        obtain ⟨tgt, tepis⟩ := y
        simp only [ok_bind]
        cases interpretBranches isAlpha m vars var rest with
        | error e => rfl
        | ok out =>
          simp only [map_ok, ok_bind, pure_eq]
          rw [atomStep_ren_const m vm vars var CONCEPT_ROLE tgt [] tepis out
            (by simp [isRoleInverted_concept]) (by simp [isRoleInverted_concept])
            (Or.inl ensureColon_concept) rfl (processAtomic_epis hpa vm)]
    · obtain ⟨hrole, hrepis⟩ := processRole_ok hr hpr
      simp only [hr, decide_false, Bool.false_or] at hok
      cases a with
      | num t => rfl
      | none =>
        rw [renAtom_none, processAtomic_none]
        simp only [ok_bind]
        cases interpretBranches isAlpha m vars var rest with
        | error e => rfl
        | ok out =>
          simp only [map_ok, ok_bind, pure_eq]
          rw [atomStep_ren_const m vm vars var role .none repis [] out
            (by simp [atomInVars]) (by simp [atomInVars])
            (Or.inr (fun s h => by cases h)) (hrepis vm) rfl]
      | str s =>
        simp only at hok
        cases hg : AList.get? vm (alnStem s) with
        | some nv =>
          have hkey : alnStem s ∈ AList.keys vm := get?_isSome_iff.1 (by simp [hg])
          rw [if_pos (contains_iff_mem_keys.2 hkey)] at hok
          simp only [roleOk, Bool.and_eq_true, decide_eq_true_eq, ← hrole] at hok
          rw [renAtom_ref hr hg]
          have hsp := partition_tilde_spec s
          have hno := hv.newsOk _ _ hg
          rw [processAtomic_stem isAlpha nv (alnSuffix s) hno.1 hno.2 (alnSuffix_shape s)]
          conv => rhs; rw [hsp.1]
          rw [processAtomic_stem isAlpha (alnStem s) (alnSuffix s) hsp.2.1 (hv.keysQ _ hkey)
            (alnSuffix_shape s)]
          rw [procTail_ren isAlpha (alnStem s) nv (alnSuffix s)]
          cases hpt : procTail isAlpha (alnStem s) (alnSuffix s) with
          | error e => rfl
          | ok y =>
            obtain ⟨tgt, tepis⟩ := y
            obtain ⟨ht, hte⟩ := procTail_ok hpt
            subst ht
            simp only [map_ok, ok_bind]
            cases interpretBranches isAlpha m vars var rest with
            | error e => rfl
            | ok out =>
              simp only [map_ok, ok_bind, pure_eq]
              rw [← renVar_of_get? hg]
              rw [atomStep_ren_ref m vm vars var role (alnStem s) repis tepis out hok.1 hok.2
                ?_ (hrepis vm) (hte vm)]
              have h1 : alnStem s ∈ vars := (hv.keys _).2 hkey
              exact ⟨fun _ => h1, fun _ => List.mem_map.2 ⟨_, h1, rfl⟩⟩
        | none =>
          have hkey : alnStem s ∉ AList.keys vm := get?_eq_none_iff.1 hg
          have hc : AList.contains vm (alnStem s) = false := by
            cases h : AList.contains vm (alnStem s) with
            | false => rfl
            | true => exact absurd (contains_iff_mem_keys.1 h) hkey
          simp only [hc, Bool.false_eq_true, if_false, decide_eq_true_eq] at hok
          rw [renAtom_other hg]
          cases hpa : processAtomic isAlpha (.str s) with
          | error e => rfl
          | ok y =>
            obtain ⟨tgt, tepis⟩ := y
            obtain ⟨⟨t0, ht, ht0⟩, hte⟩ := processAtomic_ok_tgt hpa
            subst ht
            have hnk : t0 ∉ AList.keys vm := by
              rcases ht0 with rfl | hq
              · exact hkey
              · exact fun h => hv.keysQ _ h hq
            have hnn : t0 ∉ vars.map (renVar vm) := by
              rcases ht0 with rfl | hq
              · exact hok
              · intro h
                obtain ⟨k, hk⟩ := (mem_news hv).1 h
                exact (hv.newsOk _ _ hk).2 hq
            have hnv : t0 ∉ vars := fun h => hnk ((hv.keys _).1 h)
            simp only [ok_bind]
            cases interpretBranches isAlpha m vars var rest with
            | error e => rfl
            | ok out =>
              simp only [map_ok, ok_bind, pure_eq]
              rw [atomStep_ren_const m vm vars var role (.str t0) repis tepis out
                (by simp [atomInVars, hnv]) (by simp only [atomInVars, hnn]; simp)
                (Or.inr (fun s h => by injection h with h; subst h; exact renVar_of_not_key hnk))
                (hrepis vm) (hte vm)]

mutual
theorem interpretNode_ren (isAlpha : Char → Bool) (m : Model) (vm : AList Str Str)
    (vars : List Str) (hv : VmOk vm vars) : ∀ (n : Node),
    nodeAllVars n = true → nodeIsoOk m vm (vars.map (renVar vm)) n = true →
    interpretNode isAlpha m (vars.map (renVar vm)) (renNode vm n) =
      (interpretNode isAlpha m vars n).map (renPair vm)
  | .mk v bs, hall, hok => by
    cases v with
    | none => simp [nodeAllVars] at hall
    | some var =>
      simp only [nodeAllVars, Option.isSome_some, Bool.true_and] at hall
      simp only [nodeIsoOk] at hok
      have ih := interpretBranches_ren isAlpha m vm vars hv bs var hall hok
      simp only [renNode, Option.map_some, interpretNode_some, ih]
      cases interpretBranches isAlpha m vars var bs with
      | error e => rfl
      | ok out =>
        simp only [map_ok, ok_bind, pure_eq, renOut]
        cases out.hasConcept with
        | true => rfl
        | false =>
          simp only [Bool.false_eq_true, if_false, map_ok, renPair, List.map_cons, renEntry,
            List.map_nil]
          have : renTriple vm ⟨var, CONCEPT_ROLE, .none⟩ = ⟨renVar vm var, CONCEPT_ROLE, .none⟩ := by
            simp [renTriple]
          rw [this]
theorem interpretBranches_ren (isAlpha : Char → Bool) (m : Model) (vm : AList Str Str)
    (vars : List Str) (hv : VmOk vm vars) : ∀ (bs : Branches) (var : Str),
    branchesAllVars bs = true → branchesIsoOk m vm (vars.map (renVar vm)) bs = true →
    interpretBranches isAlpha m (vars.map (renVar vm)) (renVar vm var) (renBranches vm bs) =
      (interpretBranches isAlpha m vars var bs).map (renOut vm)
  | .nil, var, _, _ => by
    simp only [renBranches, interpretBranches]; rfl
  | .atom r a rest, var, hall, hok => by
    simp only [branchesAllVars] at hall
    simp only [branchesIsoOk, Bool.and_eq_true] at hok
    have ih := interpretBranches_ren isAlpha m vm vars hv rest var hall hok.2
    simp only [renBranches]
    exact atom_case_ren isAlpha m vm vars hv var r a rest hok.1 ih
  | .sub r (.mk v bs) rest, var, hall, hok => by
    simp only [branchesAllVars, Bool.and_eq_true] at hall
    simp only [branchesIsoOk, Bool.and_eq_true, decide_eq_true_eq] at hok
    obtain ⟨⟨⟨hr, hro⟩, hn⟩, hrest⟩ := hok
    have ih1 := interpretNode_ren isAlpha m vm vars hv (.mk v bs) hall.1 hn
    have ih2 := interpretBranches_ren isAlpha m vm vars hv rest var hall.2 hrest
    cases v with
    | none => simp [nodeAllVars] at hall
    | some nv =>
      simp only [renBranches]
      simp only [renNode, Option.map_some] at ih1 ⊢
      rw [interpretBranches_sub, interpretBranches_sub, ih1, ih2]
      cases hpr : processRole isAlpha r with
      | error e => rfl
      | ok x =>
        obtain ⟨role, repis⟩ := x
        obtain ⟨hrole, hrepis⟩ := processRole_ok hr hpr
        simp only [roleOk, Bool.and_eq_true, decide_eq_true_eq, ← hrole] at hro
        simp only [ok_bind]
        cases interpretNode isAlpha m vars (.mk (some nv) bs) with
        | error e => rfl
        | ok p =>
          simp only [map_ok, ok_bind]
          cases interpretBranches isAlpha m vars var rest with
          | error e => rfl
          | ok out =>
            simp only [map_ok, ok_bind, pure_eq]
            rw [subStep_ren m vm var role nv repis p out hro.1 hro.2 (hrepis vm)]
end

/-! ### dictionaries under a key map that is injective on a predicate -/

section Dict
variable {β : Type} (f : Triple → Triple) (g : β → β) (P : Triple → Prop)
  (hinj : ∀ a b, P a → P b → f a = f b → a = b)
include hinj

theorem set_map_inj : ∀ (d : AList Triple β) (k : Triple) (v : β),
    (∀ e ∈ d, P e.1) → P k →
    AList.set (d.map fun e => (f e.1, g e.2)) (f k) (g v) =
      (AList.set d k v).map fun e => (f e.1, g e.2)
  | [], k, v, _, _ => rfl
  | (k', v') :: r, k, v, hd, hk => by
    have hk' : P k' := hd (k', v') List.mem_cons_self
    have ih := set_map_inj r k v (fun e he => hd e (List.mem_cons_of_mem _ he)) hk
    simp only [List.map_cons, AList.set]
    by_cases h : k' = k
    · simp [h]
    · have : f k' ≠ f k := fun e => h (hinj _ _ hk' hk e)
      simp only [if_neg h, if_neg this, List.map_cons, ih]

omit hinj in
theorem set_pred' : ∀ (d : AList Triple β) (k : Triple) (v : β),
    (∀ e ∈ d, P e.1) → P k → ∀ e ∈ AList.set d k v, P e.1
  | [], k, v, _, hk, e, he => by
    simp only [AList.set, List.mem_cons, List.not_mem_nil, or_false] at he; subst he; exact hk
  | (k', v') :: r, k, v, hd, hk, e, he => by
    simp only [AList.set] at he
    split at he
    · rcases List.mem_cons.1 he with rfl | he
      · exact hd (k', v') List.mem_cons_self
      · exact hd e (List.mem_cons_of_mem _ he)
    · rcases List.mem_cons.1 he with rfl | he
      · exact hd (k', v') List.mem_cons_self
      · exact set_pred' r k v (fun e he => hd e (List.mem_cons_of_mem _ he)) hk e he

theorem foldl_set_map_inj : ∀ (l d : AList Triple β),
    (∀ e ∈ l, P e.1) → (∀ e ∈ d, P e.1) →
    (l.map fun e => (f e.1, g e.2)).foldl (fun d p => AList.set d p.1 p.2)
        (d.map fun e => (f e.1, g e.2)) =
      (l.foldl (fun d p => AList.set d p.1 p.2) d).map fun e => (f e.1, g e.2)
  | [], d, _, _ => rfl
  | (k, v) :: l, d, hl, hd => by
    have hk : P k := hl (k, v) List.mem_cons_self
    simp only [List.map_cons, List.foldl_cons]
    rw [set_map_inj f g P hinj d k v hd hk]
    exact foldl_set_map_inj l _ (fun e he => hl e (List.mem_cons_of_mem _ he))
      (set_pred' P d k v hd hk)

theorem ofList_map_inj (l : AList Triple β) (hl : ∀ e ∈ l, P e.1) :
    AList.ofList (l.map fun e => (f e.1, g e.2)) =
      (AList.ofList l).map fun e => (f e.1, g e.2) :=
  foldl_set_map_inj f g P hinj l [] hl (fun _ h => by cases h)

end Dict

theorem epimapOf_sub : ∀ (l : List (Triple × List Epi)) (e : Triple × List Epi),
    e ∈ epimapOf l → e ∈ l
  | [], e, h => by simp [epimapOf] at h
  | (t, x) :: rest, e, h => by
    simp only [epimapOf, List.mem_cons, List.mem_filter] at h
    rcases h with rfl | ⟨h, _⟩
    · exact List.mem_cons_self
    · exact List.mem_cons_of_mem _ (epimapOf_sub rest e h)

theorem epimapOf_map_inj (f : Triple → Triple) (g : List Epi → List Epi) (P : Triple → Prop)
    (hinj : ∀ a b, P a → P b → f a = f b → a = b) :
    ∀ (l : List (Triple × List Epi)), (∀ e ∈ l, P e.1) →
      epimapOf (l.map fun e => (f e.1, g e.2)) = (epimapOf l).map fun e => (f e.1, g e.2)
  | [], _ => rfl
  | (t, x) :: rest, hl => by
    have ht : P t := hl (t, x) List.mem_cons_self
    have hrest : ∀ e ∈ rest, P e.1 := fun e he => hl e (List.mem_cons_of_mem _ he)
    have ih := epimapOf_map_inj f g P hinj rest hrest
    simp only [List.map_cons, epimapOf, ih, List.filter_map]
    congr 2
    apply List.filter_congr
    intro e he
    have hpe : P e.1 := hrest e (epimapOf_sub rest e he)
    by_cases h : e.1 = t
    · simp [h]
    · have : f e.1 ≠ f t := fun e' => h (hinj _ _ hpe ht e')
      simp [h, this]

/-! ### the triples of an interpretation are closed under the renaming -/

/-- source is a variable; a non-instance string target is a variable or is
    not one of the new names -/
def Closed (vm : AList Str Str) (news : List Str) (t : Triple) : Prop :=
  t.src ∈ AList.keys vm ∧
    (ensureColon t.role ≠ CONCEPT_ROLE → ∀ s, t.tgt = .str s → s ∈ AList.keys vm ∨ s ∉ news)

theorem renTriple_inj {vm : AList Str Str} {vars : List Str} (hv : VmOk vm vars) (a b : Triple)
    (ha : Closed vm (vars.map (renVar vm)) a) (hb : Closed vm (vars.map (renVar vm)) b)
    (h : renTriple vm a = renTriple vm b) : a = b := by
  obtain ⟨s1, r1, t1⟩ := a
  obtain ⟨s2, r2, t2⟩ := b
  simp only [renTriple, Triple.mk.injEq] at h
  obtain ⟨h1, h2, h3⟩ := h
  subst h2
  have key_inj : ∀ x y, x ∈ AList.keys vm → y ∈ AList.keys vm → renVar vm x = renVar vm y → x = y := by
    intro x y hx hy e
    obtain ⟨nx, hnx⟩ := Option.isSome_iff_exists.1 (get?_isSome_iff.2 hx)
    obtain ⟨ny, hny⟩ := Option.isSome_iff_exists.1 (get?_isSome_iff.2 hy)
    rw [renVar_of_get? hnx, renVar_of_get? hny] at e
    subst e
    exact get?_inj_of_nodup_vals hv.inj hnx hny
  have hs : s1 = s2 := key_inj _ _ ha.1 hb.1 h1
  subst hs
  by_cases hc : ensureColon r1 = CONCEPT_ROLE
  · simp only [hc, if_true] at h3; rw [h3]
  · simp only [hc, if_false] at h3
    have ha2 := ha.2 hc
    have hb2 := hb.2 hc
    have news_of_key : ∀ x, x ∈ AList.keys vm → renVar vm x ∈ vars.map (renVar vm) :=
      fun x hx => List.mem_map.2 ⟨x, (hv.keys x).2 hx, rfl⟩
    cases t1 with
    | none => cases t2 <;> simp_all
    | num t => cases t2 <;> simp_all
    | str x =>
      cases t2 with
      | none => simp at h3
      | num t => simp at h3
      | str y =>
        simp only [Atom.str.injEq] at h3
        have hx := ha2 x rfl
        have hy := hb2 y rfl
        by_cases kx : x ∈ AList.keys vm <;> by_cases ky : y ∈ AList.keys vm
        · rw [key_inj x y kx ky h3]
        · rw [renVar_of_not_key ky] at h3
          exact absurd (h3 ▸ news_of_key x kx) (hy.resolve_left ky)
        · rw [renVar_of_not_key kx] at h3
          exact absurd (h3 ▸ news_of_key y ky) (hx.resolve_left kx)
        · rw [renVar_of_not_key kx, renVar_of_not_key ky] at h3; rw [h3]

theorem closed_deinvert (m : Model) (vm : AList Str Str) (news : List Str) (a r b : Str) (c : Bool)
    (ha : a ∈ AList.keys vm) (hb : b ∈ AList.keys vm) :
    Closed vm news (if c then m.deinvert ⟨a, r, .str b⟩ else ⟨a, r, .str b⟩) := by
  have h0 : Closed vm news ⟨a, r, .str b⟩ :=
    ⟨ha, fun _ s hs => by injection hs with hs; subst hs; exact Or.inl hb⟩
  cases c with
  | false => exact h0
  | true =>
    simp only [if_true, Model.deinvert]
    split
    · exact h0
    · split
      · exact ⟨hb, fun _ s hs => by
          simp only [Model.invert] at hs; injection hs with hs; subst hs; exact Or.inl ha⟩
      · exact h0

theorem appendPopLast_keys : ∀ (l : List (Triple × List Epi)),
    (appendPopLast l).map (·.1) = l.map (·.1)
  | [] => rfl
  | [(t, e)] => rfl
  | x :: y :: r => by
    have := appendPopLast_keys (y :: r)
    simp only [appendPopLast, List.map_cons] at this ⊢
    rw [this]

theorem atomStep_epidata (m : Model) (variables : List Str) (var role : Str) (repis : List Epi)
    (tgt : Atom) (tepis : List Epi) (out : InterpOut) :
    (atomStep m variables var role repis tgt tepis out).epidata =
      ((if m.isRoleInverted role && atomInVars variables tgt then m.deinvert ⟨var, role, tgt⟩
        else ⟨var, role, tgt⟩), repis ++ tepis) :: out.epidata := rfl

mutual
theorem interpretNode_closed (isAlpha : Char → Bool) (m : Model) (vm : AList Str Str)
    (vars : List Str) (hv : VmOk vm vars) : ∀ (n : Node) (p : List Triple × List (Triple × List Epi)),
    nodeMappable vm n = true → nodeIsoOk m vm (vars.map (renVar vm)) n = true →
    interpretNode isAlpha m vars n = .ok p →
    ∀ e ∈ p.2, Closed vm (vars.map (renVar vm)) e.1
  | .mk v bs, p, hmp, hok, h => by
    cases v with
    | none => simp [nodeMappable] at hmp
    | some var =>
      simp only [nodeMappable, Bool.and_eq_true] at hmp
      simp only [nodeIsoOk] at hok
      have hvar := contains_iff_mem_keys.1 hmp.1
      rw [interpretNode_some] at h
      cases hib : interpretBranches isAlpha m vars var bs with
      | error e => simp [hib, err_bind] at h
      | ok out =>
        have ih := interpretBranches_closed isAlpha m vm vars hv bs var out hvar hmp.2 hok hib
        simp only [hib, ok_bind, pure_eq] at h
        split at h
        · injection h with h; subst h; exact ih
        · injection h with h; subst h
          intro e he
          rcases List.mem_cons.1 he with rfl | he
          · exact ⟨hvar, fun hc => absurd ensureColon_concept hc⟩
          · exact ih e he
theorem interpretBranches_closed (isAlpha : Char → Bool) (m : Model) (vm : AList Str Str)
    (vars : List Str) (hv : VmOk vm vars) : ∀ (bs : Branches) (var : Str) (out : InterpOut),
    var ∈ AList.keys vm →
    branchesMappable vm bs = true → branchesIsoOk m vm (vars.map (renVar vm)) bs = true →
    interpretBranches isAlpha m vars var bs = .ok out →
    ∀ e ∈ out.epidata, Closed vm (vars.map (renVar vm)) e.1
  | .nil, var, out, _, _, _, h => by
    simp only [interpretBranches] at h; injection h with h; subst h; simp
  | .atom r a rest, var, out, hvar, hmp, hok, h => by
    simp only [branchesMappable] at hmp
    simp only [branchesIsoOk, Bool.and_eq_true] at hok
    rw [interpretBranches_atom] at h
    cases hpr : processRole isAlpha r with
    | error e => simp [hpr, err_bind] at h
    | ok x =>
      obtain ⟨role, repis⟩ := x
      cases hpa : processAtomic isAlpha a with
      | error e => simp [hpr, hpa, ok_bind, err_bind] at h
      | ok y =>
        obtain ⟨tgt, tepis⟩ := y
        cases hib : interpretBranches isAlpha m vars var rest with
        | error e => simp [hpr, hpa, hib, ok_bind, fmap_error] at h
        | ok out' =>
          have ih := interpretBranches_closed isAlpha m vm vars hv rest var out' hvar hmp hok.2 hib
          simp only [hpr, hpa, hib, ok_bind, pure_eq] at h
          injection h with h; subst h
          rw [atomStep_epidata]
          intro e he
          rcases List.mem_cons.1 he with rfl | he
          · simp only
            by_cases hr : r = ['/']
            · subst hr
              rw [processRole_concept] at hpr
              injection hpr with hpr; injection hpr with h1 h2; subst h1
              simp only [isRoleInverted_concept, Bool.false_and, Bool.false_eq_true, if_false]
              exact ⟨hvar, fun hc => absurd ensureColon_concept hc⟩
            · have hok1 := hok.1
              simp only [hr, decide_false, Bool.false_or] at hok1
              cases a with
              | num t => simp [processAtomic] at hpa
              | none =>
                rw [processAtomic_none] at hpa
                injection hpa with hpa; injection hpa with h1 h2; subst h1
                simp only [atomInVars, Bool.and_false, Bool.false_eq_true, if_false]
                exact ⟨hvar, fun _ s hs => by cases hs⟩
              | str s =>
                obtain ⟨⟨t0, ht, ht0⟩, _⟩ := processAtomic_ok_tgt hpa
                subst ht
                by_cases hk : t0 ∈ AList.keys vm
                · exact closed_deinvert m vm _ var role t0 _ hvar hk
                · have hnn : t0 ∉ vars.map (renVar vm) := by
                    rcases ht0 with rfl | hq
                    · have hc : AList.contains vm (alnStem s) = false := by
                        cases h : AList.contains vm (alnStem s) with
                        | false => rfl
                        | true => exact absurd (contains_iff_mem_keys.1 h) hk
                      simpa [hc] using hok1
                    · intro h
                      obtain ⟨k, hk'⟩ := (mem_news hv).1 h
                      exact (hv.newsOk _ _ hk').2 hq
                  have hnv : t0 ∉ vars := fun h => hk ((hv.keys _).1 h)
                  simp only [atomInVars, hnv, decide_false, Bool.and_false, Bool.false_eq_true,
                    if_false]
                  exact ⟨hvar, fun _ s hs => by injection hs with hs; subst hs; exact Or.inr hnn⟩
          · exact ih e he
  | .sub r (.mk v bs) rest, var, out, hvar, hmp, hok, h => by
    simp only [branchesMappable, Bool.and_eq_true] at hmp
    simp only [branchesIsoOk, Bool.and_eq_true, decide_eq_true_eq] at hok
    obtain ⟨⟨⟨hr, hro⟩, hn⟩, hrest⟩ := hok
    cases v with
    | none => simp [nodeMappable] at hmp
    | some nv =>
      have hnv : nv ∈ AList.keys vm := by
        have := hmp.1
        simp only [nodeMappable, Bool.and_eq_true] at this
        exact contains_iff_mem_keys.1 this.1
      rw [interpretBranches_sub] at h
      cases hpr : processRole isAlpha r with
      | error e => simp [hpr, err_bind] at h
      | ok x =>
        obtain ⟨role, repis⟩ := x
        cases hin : interpretNode isAlpha m vars (.mk (some nv) bs) with
        | error e => simp [hpr, hin, ok_bind, err_bind] at h
        | ok p =>
          cases hib : interpretBranches isAlpha m vars var rest with
          | error e => simp [hpr, hin, hib, ok_bind, fmap_error] at h
          | ok out' =>
            have ih1 := interpretNode_closed isAlpha m vm vars hv (.mk (some nv) bs) p hmp.1 hn hin
            have ih2 := interpretBranches_closed isAlpha m vm vars hv rest var out' hvar hmp.2 hrest hib
            simp only [hpr, hin, hib, ok_bind, pure_eq] at h
            injection h with h; subst h
            simp only [subStep]
            intro e he
            rcases List.mem_cons.1 he with rfl | he
            · have := closed_deinvert m vm (vars.map (renVar vm)) var role nv true hvar hnv
              simpa using this
            · rcases List.mem_append.1 he with he | he
              · have : e.1 ∈ (appendPopLast p.2).map (·.1) := List.mem_map.2 ⟨e, he, rfl⟩
                rw [appendPopLast_keys] at this
                obtain ⟨e', he', he''⟩ := List.mem_map.1 this
                rw [← he'']; exact ih1 e' he'
              · exact ih2 e he
end

/-! ### the graph-level statement -/

theorem ensureColon_idem (r : Str) : ensureColon (ensureColon r) = ensureColon r := by
  simp only [ensureColon]
  split
  · rfl
  · simp [startsWith, List.isPrefixOf]

theorem renTriple_ensureColon (vm : AList Str Str) (t : Triple) :
    ({ renTriple vm t with role := ensureColon (renTriple vm t).role } : Triple) =
      renTriple vm { t with role := ensureColon t.role } := by
  simp [renTriple, ensureColon_idem]

theorem renNode_var (vm : AList Str Str) (n : Node) : (renNode vm n).var = n.var.map (renVar vm) := by
  cases n; rfl

theorem interpret_def (isAlpha : Char → Bool) (m : Model) (t : Tree) :
    interpret isAlpha m t =
      interpretNode isAlpha m t.node.vars t.node >>= fun p =>
        pure (Graph.mk' p.1 t.node.var (epimapOf p.2) t.metadata) := by
  rfl

theorem interpret_ren (isAlpha : Char → Bool) (m : Model) (vm : AList Str Str) (n : Node)
    (md : AList Str Str) (hv : VmOk vm n.vars) (hmp : nodeMappable vm n = true)
    (hok : nodeIsoOk m vm (n.vars.map (renVar vm)) n = true) :
    interpret isAlpha m ⟨renNode vm n, md⟩ = (interpret isAlpha m ⟨n, md⟩).map (renGraph vm) := by
  have hall := ((nodeMappable_iff vm n).1 hmp).1
  have h1 := interpretNode_ren isAlpha m vm n.vars hv n hall hok
  rw [interpret_def, interpret_def]
  simp only [renNode_vars, h1]
  cases hin : interpretNode isAlpha m n.vars n with
  | error e => rfl
  | ok p =>
    have hcl := interpretNode_closed isAlpha m vm n.vars hv n p hmp hok hin
    simp only [map_ok, ok_bind, pure_eq, renPair]
    congr 1
    simp only [Graph.mk', renGraph, renNode_var, Graph.mk.injEq, List.map_map, and_true, true_and]
    constructor
    · apply List.map_congr_left
      intro t _
      exact renTriple_ensureColon vm t
    · have e1 := epimapOf_map_inj (renTriple vm) (List.map (renEpi vm))
        (Closed vm (n.vars.map (renVar vm))) (renTriple_inj hv) p.2 hcl
      have e2 := ofList_map_inj (renTriple vm) (List.map (renEpi vm))
        (Closed vm (n.vars.map (renVar vm))) (renTriple_inj hv) (epimapOf p.2)
        (fun e he => hcl e (epimapOf_sub p.2 e he))
      have hre : renEntry vm = fun e => (renTriple vm e.1, List.map (renEpi vm) e.2) := rfl
      rw [hre, e1, e2]

end Penman.RV

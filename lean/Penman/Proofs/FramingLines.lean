/-
  Penman.Proofs.FramingLines — lines with and without terminators, `fileLines`,
  and the token stream of a text in its different containers (property C09).
-/
import Penman.Proofs.FramingLex
namespace Penman.Framing
open Penman

/-! ### one line -/

theorem tailTok_nil (t : Tok) : tailTok [] t = t := by
  unfold tailTok; split <;> simp

theorem map_tailTok_nil (ts : List Tok) : ts.map (tailTok []) = ts := by
  induction ts with
  | nil => rfl
  | cons t ts ih => simp [tailTok_nil, ih]

/-- a line followed by separators and at most one LF: the same tokens, a COMMENT grows -/
theorem lexLine_tail (cfg : LexCfg) (order : List TokTy) (n : Nat) (l rs nl : Str) (hl : NoLF l)
    (ht : SepTail cfg rs nl) :
    lexLine cfg order n (l ++ (rs ++ nl)) = (lexLine cfg order n l).map (tailTok rs) := by
  unfold lexLine
  exact lexAux_tail cfg order n rs nl ht (l.length + 1) l hl (by omega) _ 0 (by simp)

theorem sepTail_lf {cfg : LexCfg} (h : SepChar cfg '\n') : SepTail cfg [] ['\n'] :=
  ⟨by simp, Or.inr ⟨rfl, h⟩⟩

theorem sepTail_crlf {cfg : LexCfg} (h : SepChar cfg '\n') (h' : SepChar cfg '\r') :
    SepTail cfg ['\r'] ['\n'] :=
  ⟨by simp [h'], Or.inr ⟨rfl, h⟩⟩

theorem sepTail_cr {cfg : LexCfg} (h' : SepChar cfg '\r') : SepTail cfg ['\r'] [] :=
  ⟨by simp [h'], Or.inl rfl⟩

/-- a terminating LF is irrelevant: same tokens, same texts, same offsets -/
theorem lexLine_lf (cfg : LexCfg) (order : List TokTy) (n : Nat) (l : Str) (hl : NoLF l)
    (h : SepChar cfg '\n') : lexLine cfg order n (l ++ ['\n']) = lexLine cfg order n l := by
  have := lexLine_tail cfg order n l [] ['\n'] hl (sepTail_lf h)
  simpa [map_tailTok_nil] using this

/-- a terminating CRLF: the CR is swallowed by a COMMENT, nothing else changes -/
theorem lexLine_crlf (cfg : LexCfg) (order : List TokTy) (n : Nat) (l : Str) (hl : NoLF l)
    (h : SepChar cfg '\n') (h' : SepChar cfg '\r') :
    lexLine cfg order n (l ++ ['\r', '\n']) = (lexLine cfg order n l).map (tailTok ['\r']) := by
  have := lexLine_tail cfg order n l ['\r'] ['\n'] hl (sepTail_crlf h h')
  simpa using this

theorem lexLine_cr (cfg : LexCfg) (order : List TokTy) (n : Nat) (l : Str) (hl : NoLF l)
    (h' : SepChar cfg '\r') :
    lexLine cfg order n (l ++ ['\r']) = (lexLine cfg order n l).map (tailTok ['\r']) := by
  have := lexLine_tail cfg order n l ['\r'] [] hl (sepTail_cr h')
  simpa using this

theorem lexLine_nil (cfg : LexCfg) (order : List TokTy) (n : Nat) : lexLine cfg order n [] = [] := by
  simp [lexLine, lexAux]

/-- a blank line (separators only) has no token -/
theorem lexLine_seps (cfg : LexCfg) (order : List TokTy) (n : Nat) (l : Str)
    (h : ∀ c ∈ l, SepChar cfg c) : lexLine cfg order n l = [] :=
  lexAux_seps cfg order n l h _ _

/-- on a line without LF only the last token can be a COMMENT -/
theorem lexAux_comment_last (cfg : LexCfg) (order : List TokTy) (n : Nat) :
    ∀ (f : Nat) (s : Str) (off : Nat), NoLF s →
      ∀ t ∈ (lexAux cfg order n f off s).dropLast, t.ty ≠ .COMMENT := by
  intro f
  induction f with
  | zero => intro s off _ t ht; simp [lexAux] at ht
  | succ f ih =>
    intro s off hs t ht
    cases s with
    | nil => simp [lexAux] at ht
    | cons c cs =>
      simp only [lexAux] at ht
      cases hm : firstMatch cfg order (c :: cs) with
      | none => rw [hm] at ht; exact ih cs _ hs.tail t ht
      | some p =>
        obtain ⟨ty, m⟩ := p
        rw [hm] at ht
        simp only at ht
        split at ht
        · exact ih cs _ hs.tail t ht
        · by_cases hty : ty = .COMMENT
          · subst hty
            have := firstMatch_comment_all cfg order (c :: cs) m hs hm
            subst this
            simp [lexAux_nil] at ht
          · cases hr : lexAux cfg order n f (off + m.length) (List.drop m.length (c :: cs)) with
            | nil => rw [hr] at ht; simp at ht
            | cons x xs =>
              rw [hr, List.dropLast_cons_cons] at ht
              simp only [List.mem_cons] at ht
              rcases ht with rfl | ht
              · exact hty
              · exact ih _ _ (hs.drop _) t (by rw [hr]; exact ht)

theorem lexLine_comment_last (cfg : LexCfg) (order : List TokTy) (n : Nat) (l : Str) (hl : NoLF l) :
    ∀ t ∈ (lexLine cfg order n l).dropLast, t.ty ≠ .COMMENT :=
  lexAux_comment_last cfg order n _ l 0 hl

/-- `tailTok` applied to the last token only -/
def tailLast (rs : Str) : List Tok → List Tok
  | [] => []
  | [t] => [tailTok rs t]
  | t :: u :: r => t :: tailLast rs (u :: r)

theorem map_tailTok_eq_tailLast (rs : Str) : ∀ (ts : List Tok),
    (∀ t ∈ ts.dropLast, t.ty ≠ .COMMENT) → ts.map (tailTok rs) = tailLast rs ts
  | [], _ => rfl
  | [t], _ => rfl
  | t :: u :: r, h => by
    have ht : t.ty ≠ .COMMENT := h t (by simp)
    have := map_tailTok_eq_tailLast rs (u :: r) (fun x hx => h x (by
      rw [List.dropLast_cons_cons]; exact List.mem_cons_of_mem _ hx))
    simp only [List.map_cons, tailLast] at this ⊢
    rw [this]
    simp [tailTok, ht]

/-! ### lists of lines -/

theorem lexLinesFrom_append (cfg : LexCfg) (order : List TokTy) (k : Nat) (a b : List Str) :
    lexLinesFrom cfg order k (a ++ b) =
      lexLinesFrom cfg order k a ++ lexLinesFrom cfg order (k + a.length) b := by
  induction a generalizing k with
  | nil => simp [lexLinesFrom]
  | cons l ls ih =>
    simp only [List.cons_append, lexLinesFrom, ih, List.length_cons, List.append_assoc]
    congr 3
    omega

theorem lexLinesFrom_map_tail (cfg : LexCfg) (order : List TokTy) (rs nl : Str)
    (ht : SepTail cfg rs nl) (k : Nat) (ls : List Str) (h : ∀ l ∈ ls, NoLF l) :
    lexLinesFrom cfg order k (ls.map (· ++ (rs ++ nl))) =
      (lexLinesFrom cfg order k ls).map (tailTok rs) := by
  induction ls generalizing k with
  | nil => simp [lexLinesFrom]
  | cons l ls ih =>
    simp only [List.map_cons, lexLinesFrom, List.map_append]
    rw [lexLine_tail cfg order k l rs nl (h l (by simp)) ht, ih _ (fun x hx => h x (by simp [hx]))]

/-- lines handed over with their LF terminators: the same tokens -/
theorem lexLinesFrom_map_lf (cfg : LexCfg) (order : List TokTy) (hc : SepChar cfg '\n') (k : Nat)
    (ls : List Str) (h : ∀ l ∈ ls, NoLF l) :
    lexLinesFrom cfg order k (ls.map (· ++ ['\n'])) = lexLinesFrom cfg order k ls := by
  have := lexLinesFrom_map_tail cfg order [] ['\n'] (sepTail_lf hc) k ls h
  simpa [map_tailTok_nil] using this

/-- trailing empty lines add nothing -/
theorem lexLinesFrom_nil_line (cfg : LexCfg) (order : List TokTy) (k : Nat) :
    lexLinesFrom cfg order k [[]] = [] := by
  simp [lexLinesFrom, lexLine_nil]

/-! ### `fileLines` -/

theorem fileLines_aux (n : Nat) (x : Str) : ∀ (ls : List Str) (k : Nat), k + ls.length + 1 = n →
    ((ls ++ [x]).zipIdx k).filterMap (fun (p : Str × Nat) =>
        if p.2 + 1 < n then some (p.1 ++ ['\n']) else (if p.1.isEmpty then none else some p.1)) =
      ls.map (· ++ ['\n']) ++ (if x.isEmpty then [] else [x]) := by
  intro ls
  induction ls with
  | nil =>
    intro k hk
    simp only [List.length_nil, Nat.add_zero] at hk
    have : ¬ (k + 1 < n) := by omega
    simp only [List.nil_append, List.zipIdx_cons, List.zipIdx_nil, List.filterMap_cons, this,
      ↓reduceIte, List.filterMap_nil, List.map_nil]
    by_cases hx : x.isEmpty = true <;> simp [hx]
  | cons l ls ih =>
    intro k hk
    simp only [List.length_cons] at hk
    have h1 : k + 1 < n := by omega
    simp only [List.cons_append, List.zipIdx_cons, List.filterMap_cons, h1, ↓reduceIte,
      List.map_cons]
    rw [ih (k + 1) (by omega)]

/-- `fileLines` : every piece but the last gets an LF; an empty last piece is dropped -/
theorem fileLines_eq (s : Str) (init : List Str) (last : Str) (h : splitLines s = init ++ [last]) :
    fileLines s = init.map (· ++ ['\n']) ++ (if last.isEmpty then [] else [last]) := by
  unfold fileLines
  simp only [h]
  exact fileLines_aux _ last init 0 (by simp)

theorem splitLines_concat (s : Str) : ∃ init last, splitLines s = init ++ [last] := by
  rcases List.eq_nil_or_concat (splitLines s) with h | ⟨init, last, h⟩
  · exact absurd h (splitLines_ne_nil s)
  · exact ⟨init, last, by simpa using h⟩

/-- a text read as a file (universal newlines) gives exactly the tokens of the text as a
    string: same types, texts, line numbers and offsets -/
theorem lexLines_fileLines (cfg : LexCfg) (order : List TokTy) (hc : SepChar cfg '\n') (s : Str) :
    lexLines cfg order (fileLines s) = lexStr cfg order s := by
  obtain ⟨init, last, h⟩ := splitLines_concat s
  have hno : ∀ l ∈ init, NoLF l := fun l hl =>
    (splitLines_noBreak s l (by rw [h]; simp [hl])).noLF
  rw [fileLines_eq s init last h]
  unfold lexStr lexLines
  rw [h, lexLinesFrom_append, lexLinesFrom_append, lexLinesFrom_map_lf cfg order hc 1 init hno]
  congr 1
  simp only [List.length_map]
  split
  · rename_i he
    have : last = [] := by simpa using he
    subst this
    simp [lexLinesFrom, lexLine_nil]
  · rfl

/-- all lines handed over with their LF terminator (also the last one) -/
theorem lexLines_map_lf (cfg : LexCfg) (order : List TokTy) (hc : SepChar cfg '\n') (s : Str) :
    lexLines cfg order ((splitLines s).map (· ++ ['\n'])) = lexStr cfg order s :=
  lexLinesFrom_map_lf cfg order hc 1 _ (fun l hl => (splitLines_noBreak s l hl).noLF)

/-- all lines handed over with a CRLF terminator: a COMMENT swallows the CR -/
theorem lexLines_map_crlf (cfg : LexCfg) (order : List TokTy) (hc : SepChar cfg '\n')
    (hr : SepChar cfg '\r') (s : Str) :
    lexLines cfg order ((splitLines s).map (· ++ ['\r', '\n'])) =
      (lexStr cfg order s).map (tailTok ['\r']) :=
  lexLinesFrom_map_tail cfg order ['\r'] ['\n'] (sepTail_crlf hc hr) 1 _
    (fun l hl => (splitLines_noBreak s l hl).noLF)

end Penman.Framing

/-
  Penman.Spec.WfLayout — specification vocabulary for property C02:
  `dropNullConcept` (the only normalisation `encode ∘ decode` may perform) and
  the decidable well-formedness predicate `WfLayout` on trees.
-/
import Penman.Layout
namespace Penman

/-! ### the normal form: an empty concept slot `(a /)` is written `(a)` -/

mutual
/-- remove every `('/', None)` branch (an empty concept slot) -/
def dropNullConcept : Node → Node
  | .mk v bs => .mk v (dropNullBranches bs)
def dropNullBranches : Branches → Branches
  | .nil => .nil
  | .atom r a rest =>
    if r = ['/'] ∧ a = .none then dropNullBranches rest else .atom r a (dropNullBranches rest)
  | .sub r n rest => .sub r (dropNullConcept n) (dropNullBranches rest)
end

mutual
/-- the tree has no empty concept slot -/
def noNullN : Node → Bool
  | .mk _ bs => noNullB bs
def noNullB : Branches → Bool
  | .nil => true
  | .atom r a rest => !(decide (r = ['/'] ∧ a = .none)) && noNullB rest
  | .sub _ n rest => noNullN n && noNullB rest
end

/-! ### the written pieces of a branch -/

/-- the text the markers of a branch contribute when re-appended (`str(marker)` each) -/
def episText (es : List Epi) : Str := es.flatMap Epi.toStr

/-- role of a branch as read by `_process_role` (`[]` if that raises) -/
def roleCore (isAlpha : Char → Bool) (role : Str) : Str :=
  match processRole isAlpha role with | .ok x => x.1 | .error _ => []
/-- role alignment markers as read by `_process_role` -/
def roleEpis (isAlpha : Char → Bool) (role : Str) : List Epi :=
  match processRole isAlpha role with | .ok x => x.2 | .error _ => []
/-- atomic target as read by `_process_atomic` -/
def atomCore (isAlpha : Char → Bool) (a : Atom) : Atom :=
  match processAtomic isAlpha a with | .ok x => x.1 | .error _ => .none
/-- target alignment markers as read by `_process_atomic` -/
def atomEpis (isAlpha : Char → Bool) (a : Atom) : List Epi :=
  match processAtomic isAlpha a with | .ok x => x.2 | .error _ => []

/-- A role text other than `/` is well formed for layout:
    * `_process_role` accepts it (the alignment suffix, if any, parses);
    * its core (the part before the first `~`) starts with `:`;
    * the core is not `:instance`, and inverting it does not give `:instance`
      (`invertRole` either strips or adds `-of`, so this says the core is not an
      undefined `:instance-of`);
    * the core is in canonical inversion form: if the model regards it as inverted,
      inverting twice gives it back (at most one `-of` beyond what the model defines;
      for a role that is not inverted nothing is required);
    * the alignment suffix is canonical: re-appending `str(marker)` to the core
      reproduces the role text (no leading zeros in indices, one `~`, …). -/
def roleOk (isAlpha : Char → Bool) (m : Model) (role : Str) : Bool :=
  match processRole isAlpha role with
  | .ok (core, es) =>
    startsWith [':'] core && decide (core ≠ CONCEPT_ROLE) && decide (m.invertRole core ≠ CONCEPT_ROLE)
      && (!m.isRoleInverted core || decide (m.invertRole (m.invertRole core) = core)) && decide (core ++ episText es = role)
  | .error _ => false

/-- An atomic target is well formed for layout: `None`, or a non-empty string
    whose core (string-aware: a text starting with `"` ends at its last `"`;
    otherwise the part before the first `~`) is non-empty and whose alignment
    suffix, if any, parses and is canonical (re-appending `str(marker)` to the
    core reproduces the text). Numbers never occur in parsed trees. -/
def atomOk (isAlpha : Char → Bool) (a : Atom) : Bool :=
  match processAtomic isAlpha a with
  | .ok (tgt, es) =>
    (match tgt with | .none => true | .str c => !c.isEmpty | .num _ => false) &&
    (match es with
     | [] => decide (tgt = a)
     | _ => decide (a = .str (atomStr tgt ++ episText es)))
  | .error _ => false

/-- does `interpret` deinvert an edge with this role? (`NoOpModel.deinvert` is the identity) -/
def deinverts (m : Model) (core : Str) : Bool := !m.noop && m.isRoleInverted core

mutual
/-- per-node conditions: a variable; `/` only as first branch, with an atomic target -/
def wfNodeB (isAlpha : Char → Bool) (m : Model) : Node → Bool
  | .mk v bs =>
    match v with
    | none => false
    | some var =>
      match bs with
      | .atom role a rest =>
        if role = ['/'] then atomOk isAlpha a && wfBranchesB isAlpha m var rest
        else wfBranchesB isAlpha m var (.atom role a rest)
      | .nil => true
      | .sub role n rest => wfBranchesB isAlpha m var (.sub role n rest)
/-- conditions on the non-concept branches of the node `var`:
    role and target texts well formed, no inverted self-loop, nested nodes well formed -/
def wfBranchesB (isAlpha : Char → Bool) (m : Model) (var : Str) : Branches → Bool
  | .nil => true
  | .atom role a rest =>
    roleOk isAlpha m role && atomOk isAlpha a
      && !(deinverts m (roleCore isAlpha role) && decide (atomCore isAlpha a = .str var))
      && wfBranchesB isAlpha m var rest
  | .sub role n rest =>
    roleOk isAlpha m role && wfNodeB isAlpha m n && wfBranchesB isAlpha m var rest
end

/-- the triples the tree denotes (what `_interpret_node` returns) are pairwise distinct -/
def distinctTriplesB (isAlpha : Char → Bool) (m : Model) (n : Node) : Bool :=
  match interpretNode isAlpha m n.vars n with
  | .ok (ts, _) => decide ts.Nodup
  | .error _ => false

/-- `WfLayout`: the trees on which `encode ∘ decode` is claimed to reproduce the layout -/
def WfLayout (isAlpha : Char → Bool) (m : Model) (n : Node) : Prop :=
  wfNodeB isAlpha m n = true ∧ n.vars.Nodup ∧ distinctTriplesB isAlpha m n = true

instance (isAlpha : Char → Bool) (m : Model) (n : Node) : Decidable (WfLayout isAlpha m n) := by
  unfold WfLayout; infer_instance

/-- metadata is a Python `dict`: keys are distinct (a representation invariant of
    the association-list model of `dict`) -/
def MetaDict (md : AList Str Str) : Prop := (md.map (·.1)).Nodup

instance (md : AList Str Str) : Decidable (MetaDict md) := by unfold MetaDict; infer_instance

end Penman

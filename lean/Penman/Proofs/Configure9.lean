/-
  Penman.Proofs.Configure9 — converse of completeness: if `configure` succeeds,
  every variable is weakly connected to the top.
-/
import Penman.Proofs.Configure8
namespace Penman
namespace Cfg

/-- a pending triple is a triple of the graph, possibly inverted by `preconfigure` -/
def Version (m : Model) (g : Graph) (x : Triple) : Prop :=
  ∃ t ∈ g.triples, x = t ∨ (x = m.invert t ∧ (∃ b, t.tgt = .str b) ∧ t.role ≠ CONCEPT_ROLE)

def DOK (m : Model) (g : Graph) : Datum → Prop
  | .pop => True
  | .t x push _ => Version m g x ∧ (push = true → ∃ v ∈ g.variables, x.tgt = .str v)

def AllDOK (m : Model) (g : Graph) (l : List Datum) : Prop := ∀ d ∈ l, DOK m g d

structure RInv (g : Graph) (top : Str) (st : St) : Prop where
  keys : ∀ w, HasKey st w → w ∈ g.variables
  reach : ∀ w, Avail st w → Reach g top w

theorem hasKey_of_avail {st : St} {w : Str} (h : Avail st w) : HasKey st w := by
  unfold HasKey; rcases h with h | ⟨u, h⟩ <;> simp [h]

theorem rinv_of_nm_eq {g : Graph} {top : Str} {st st' : St} (h : st'.nm = st.nm) (hr : RInv g top st) :
    RInv g top st' :=
  ⟨fun w hw => hr.keys w (by unfold HasKey at *; rwa [h] at hw),
   fun w hw => hr.reach w (by unfold Avail at *; rwa [h] at hw)⟩

theorem orient_push {m : Model} {var : Str} {tr : Triple} {push s : Bool} {role : Str} {target : Atom}
    {push' s' : Bool} (h : orient m var tr push s = some (role, target, push', s')) (hp : push' = true) :
    tr.src = var ∧ role = tr.role ∧ target = tr.tgt ∧ push = true := by
  unfold orient at h
  split at h
  · rename_i h1
    simp only [Option.some.injEq, Prod.mk.injEq] at h
    obtain ⟨rfl, rfl, rfl, _⟩ := h
    exact ⟨h1, rfl, rfl, hp⟩
  · split at h
    · simp only [Option.some.injEq, Prod.mk.injEq] at h
      obtain ⟨_, _, h3, _⟩ := h
      rw [← h3] at hp; simp at hp
    · simp at h

theorem pushVar_push {st : St} {push : Bool} {target : Atom} {v : Str}
    (h : pushVar st push target = some v) : push = true := by
  unfold pushVar at h
  split at h
  · rename_i hb; simp only [Bool.and_eq_true] at hb; exact hb.1
  · simp at h

theorem adj_of_orient {m : Model} {g : Graph} {var w : Str} {x : Triple} {role : Str} {target : Atom}
    (hv : Version m g x)
    (ho : (x.src = var ∧ role = x.role ∧ target = x.tgt) ∨
      (x.tgt = .str var ∧ x.role ≠ CONCEPT_ROLE ∧ role = m.invertRole x.role ∧ target = .str x.src))
    (hr : role ≠ CONCEPT_ROLE) (ht : target = .str w) (hvar : var ∈ g.variables) (hw : w ∈ g.variables) :
    Adj g var w := by
  obtain ⟨t, htm, hx⟩ := hv
  rcases ho with ⟨h1, h2, h3⟩ | ⟨h1, h2, h3, h4⟩
  · rcases hx with rfl | ⟨rfl, ⟨b, hb⟩, hrole⟩
    · exact ⟨x, htm, h2 ▸ hr, hvar, hw, Or.inl ⟨h1, by rw [← h3, ht]⟩⟩
    · refine ⟨t, htm, hrole, hvar, hw, Or.inr ⟨?_, ?_⟩⟩
      · have : Atom.str t.src = .str w := by rw [← invert_tgt m t, ← h3, ht]
        simpa using this
      · rw [hb, ← invert_src m t b hb, h1]
  · rcases hx with rfl | ⟨rfl, ⟨b, hb⟩, hrole⟩
    · refine ⟨x, htm, h2, hvar, hw, Or.inr ⟨?_, h1⟩⟩
      rw [ht] at h4; simpa using h4.symm
    · refine ⟨t, htm, hrole, hvar, hw, Or.inl ⟨?_, ?_⟩⟩
      · have : Atom.str t.src = .str var := by rw [← invert_tgt m t, h1]
        simpa using this
      · rw [hb]
        have : (m.invert t).src = w := by rw [ht] at h4; simpa using h4.symm
        rw [invert_src m t b hb] at this; rw [this]

theorem mono_addFront (st : St) (v : Str) (e : Edge) : Mono st (st.addFront v e) := mono_of_nm_eq rfl
theorem mono_addBack (st : St) (v : Str) (e : Edge) : Mono st (st.addBack v e) := mono_of_nm_eq rfl
theorem rinv_addFront {g : Graph} {top : Str} {st : St} (v : Str) (e : Edge) (hr : RInv g top st) :
    RInv g top (st.addFront v e) := rinv_of_nm_eq (st := st) (st' := st.addFront v e) rfl hr
theorem rinv_addBack {g : Graph} {top : Str} {st : St} (v : Str) (e : Edge) (hr : RInv g top st) :
    RInv g top (st.addBack v e) := rinv_of_nm_eq (st := st) (st' := st.addBack v e) rfl hr

theorem cn_mono (m : Model) : ∀ f var data st s, Mono st (configureNode m f var data st s).2.1 := by
  intro f
  induction f with
  | zero => intro var data st s; exact Mono.refl _
  | succ f ih =>
    intro var data st s
    cases data with
    | nil => exact Mono.refl _
    | cons d data =>
      cases d with
      | pop => exact Mono.refl _
      | t tr push epis =>
        simp only [configureNode]
        split
        · exact Mono.refl _
        · split
          · split
            · exact ih _ _ _ _
            · exact (mono_addFront st var _).trans (ih _ _ _ _)
          · split
            · rename_i v _
              exact (((mono_newCell st v).1.trans (ih v data _ false)).trans (mono_addBack _ var _)).trans (ih _ _ _ _)
            · exact ((mono_noteSite st var _).trans (mono_addBack _ var _)).trans (ih _ _ _ _)

theorem cn_reach (m : Model) (g : Graph) (top : Str) : ∀ f var data st s, RInv g top st → Own st var →
    AllDOK m g data → RInv g top (configureNode m f var data st s).2.1 := by
  intro f
  induction f with
  | zero => intro var data st s hr _ _; exact hr
  | succ f ih =>
    intro var data st s hr hv hd
    cases data with
    | nil => exact hr
    | cons d data =>
      cases d with
      | pop => exact hr
      | t tr push epis =>
        have hd' : AllDOK m g data := fun d hd' => hd d (List.mem_cons_of_mem _ hd')
        obtain ⟨hver, hpush⟩ := hd (.t tr push epis) List.mem_cons_self
        have hvarV : var ∈ g.variables := hr.keys var (hasKey_of_avail (avail_of_own hv))
        have hvarR : Reach g top var := hr.reach var (avail_of_own hv)
        simp only [configureNode]
        split
        · exact hr
        · rename_i role target push' s' hor
          have ho := orient_cases hor
          split
          · split
            · exact ih _ _ _ _ hr hv hd'
            · exact ih _ _ (st.addFront var ⟨['/'], .atom target, epis⟩) _ (rinv_addFront _ _ hr) hv hd'
          · rename_i hncr
            split
            · rename_i v hp
              obtain ⟨htgt, _⟩ := pushVar_some hp
              obtain ⟨o1, o2, o3, o4⟩ := orient_push hor (pushVar_push hp)
              obtain ⟨v', hv', htv⟩ := hpush o4
              have hvV : v ∈ g.variables := by
                rw [← o3, htgt] at htv; simp only [Atom.str.injEq] at htv; rw [htv]; exact hv'
              have hadj : Adj g var v := adj_of_orient hver ho hncr htgt hvarV hvV
              have r1 : RInv g top (st.newCell v) := by
                constructor
                · intro w hw
                  by_cases e : w = v
                  · rw [e]; exact hvV
                  · apply hr.keys; unfold HasKey at *; simpa [St.newCell, get?_set_other _ _ _ _ e] using hw
                · intro w hw
                  by_cases e : w = v
                  · rw [e]; exact Reach.step hvarR hadj
                  · apply hr.reach; unfold Avail at *; simpa [St.newCell, get?_set_other _ _ _ _ e] using hw
              have m0 := (mono_newCell st v).1
              have r2 := ih v data (st.newCell v) false r1 (by simp [Own, St.newCell, get?_set_same]) hd'
              have m1 := cn_mono m f v data (st.newCell v) false
              have hd2 : AllDOK m g (configureNode m f v data (st.newCell v) false).1 :=
                fun d hdm => hd' d ((cn_suffix m f v data (st.newCell v) false).subset hdm)
              exact ih var _ ((configureNode m f v data (st.newCell v) false).2.1.addBack var ⟨role, .node v, epis⟩) _
                (rinv_addBack _ _ r2) ((m0.trans m1).2.2 _ hv) hd2
            · have r1 : RInv g top (st.noteSite var target) := by
                cases target with
                | none => exact hr
                | num _ => exact hr
                | str w =>
                  simp only [St.noteSite]
                  split
                  · rename_i hu
                    have hwK : HasKey st w := by unfold HasKey; simp [hu]
                    have hwV := hr.keys w hwK
                    have hadj : Adj g var w := adj_of_orient hver ho hncr rfl hvarV hwV
                    constructor
                    · intro x hx
                      by_cases e : x = w
                      · rw [e]; exact hwV
                      · apply hr.keys; unfold HasKey at *; simpa [get?_set_other _ _ _ _ e] using hx
                    · intro x hx
                      by_cases e : x = w
                      · rw [e]; exact Reach.step hvarR hadj
                      · apply hr.reach; unfold Avail at *; simpa [get?_set_other _ _ _ _ e] using hx
                  · exact hr
              exact ih var data ((st.noteSite var target).addBack var ⟨role, .atom target, epis⟩) _
                (rinv_addBack _ _ r1) ((mono_noteSite st var target).2.2 _ hv) hd'


/-! ### the data produced by `preconfigure` -/

theorem preconfEpis_push (m : Model) (g : Graph) (orig : Triple) (ho : orig ∈ g.triples) :
    ∀ es tr push epis pops pushed r,
    (∀ v, Epi.push v ∈ es → v ∈ g.variables) →
    (tr = orig ∨ (orig.src ∈ pushed ∧ ∃ v ∈ g.variables, tr.tgt = .str v)) →
    (push = true → ∃ v ∈ g.variables, tr.tgt = .str v) →
    preconfEpis m orig es tr push epis pops pushed = .ok r →
    (r.2.1 = true → ∃ v ∈ g.variables, r.1.tgt = .str v) := by
  intro es tr push epis pops pushed
  fun_induction preconfEpis m orig es tr push epis pops pushed <;> intro r hes hinv hp h
  · simp only [Except.ok.injEq] at h; subst h; exact hp
  · rename_i ih; exact ih r (fun v hv => hes v (List.mem_cons_of_mem _ hv)) hinv hp h
  · rename_i ih; exact ih r (fun v hv => hes v (List.mem_cons_of_mem _ hv)) hinv hp h
  · rename_i rest tr push epis pops pushed s htg hnp hcond ih
    have htr : tr = orig := by
      rcases hinv with h | ⟨h, _⟩
      · exact h
      · exact absurd h hnp
    subst htr
    have hnew : ∃ v ∈ g.variables, (m.invert tr).tgt = .str v :=
      ⟨tr.src, src_mem_variables ho, invert_tgt m tr⟩
    exact ih r (fun v hv => hes v (List.mem_cons_of_mem _ hv)) (Or.inr ⟨by simp, hnew⟩) (fun _ => hnew) h
  · simp at h
  · rename_i pvar rest tr push epis pops pushed hnp hcond hsrc ih
    have hnew : ∃ v ∈ g.variables, tr.tgt = .str v := by
      rcases hinv with h | ⟨_, h⟩
      · subst h
        have : Atom.str pvar = tr.tgt := by
          apply Classical.byContradiction
          intro hne
          exact hcond (Or.inl ⟨hsrc, hne⟩)
        exact ⟨pvar, hes pvar List.mem_cons_self, this.symm⟩
      · exact h
    apply ih r (fun v hv => hes v (List.mem_cons_of_mem _ hv)) _ (fun _ => hnew) h
    rcases hinv with h | ⟨h1, h2⟩
    · exact Or.inl h
    · exact Or.inr ⟨List.mem_cons_of_mem _ h1, h2⟩
  · rename_i ih; exact ih r (fun v hv => hes v (List.mem_cons_of_mem _ hv)) hinv hp h
  · rename_i ih; exact ih r (fun v hv => hes v (List.mem_cons_of_mem _ hv)) hinv hp h

theorem version_of_preStep {m : Model} {g : Graph} {t x : Triple} (ht : t ∈ g.triples) (h : PreStep m t x) :
    Version m g x := by
  cases h with
  | same => exact ⟨t, ht, Or.inl rfl⟩
  | inv v hv hr => exact ⟨t, ht, Or.inr ⟨rfl, ⟨v, hv⟩, hr⟩⟩

theorem preconfigure_dok (m : Model) (g : Graph) (hpv : PushVars g) : ∀ ts pushed data,
    (∀ t ∈ ts, t ∈ g.triples) → preconfigure m g.epidata ts pushed = .ok data → AllDOK m g data := by
  intro ts
  induction ts with
  | nil => intro pushed data _ h; simp [preconfigure] at h; subst h; intro d hd; simp at hd
  | cons t ts ih =>
    intro pushed data hts h
    simp only [preconfigure] at h
    cases h1 : preconfEpis m t ((AList.get? g.epidata t).getD []) t false [] 0 pushed with
    | error e1 => rw [h1] at h; simp [bind, Except.bind] at h
    | ok r =>
      obtain ⟨tr', push, epis, pops, pushed'⟩ := r
      rw [h1] at h
      simp only [bind, Except.bind] at h
      cases h2 : preconfigure m g.epidata ts pushed' with
      | error e2 => rw [h2] at h; simp at h
      | ok more =>
        rw [h2] at h
        simp only [pure, Except.pure, Except.ok.injEq] at h
        subst h
        have htm := hts t List.mem_cons_self
        have hv := version_of_preStep htm (preconfEpis_spec m t _ _ _ _ _ _ _ (Or.inl rfl) h1)
        have hp := preconfEpis_push m g t htm _ _ _ _ _ _ _ (fun v hv => hpv t htm (.push v) hv) (Or.inl rfl) (by simp) h1
        intro d hd
        simp only [List.mem_cons, List.mem_append, List.mem_replicate] at hd
        rcases hd with (rfl | ⟨_, rfl⟩) | hd
        · exact ⟨hv, hp⟩
        · trivial
        · exact ih _ _ (fun t ht => hts t (List.mem_cons_of_mem _ ht)) h2 d hd

theorem mem_pending {l : List Datum} {tr : Triple} (h : tr ∈ pending l) : ∃ p e, Datum.t tr p e ∈ l := by
  induction l with
  | nil => simp [pending] at h
  | cons d r ih =>
    cases d with
    | pop =>
      obtain ⟨p, e, hm⟩ := ih (by simpa [pending] using h)
      exact ⟨p, e, List.mem_cons_of_mem _ hm⟩
    | t x p e =>
      simp only [pending, List.mem_cons] at h
      rcases h with rfl | h
      · exact ⟨p, e, List.mem_cons_self⟩
      · obtain ⟨p', e', hm⟩ := ih h
        exact ⟨p', e', List.mem_cons_of_mem _ hm⟩

theorem rnc_of_version {m : Model} {g : Graph} {x : Triple} (hn : NoInstOf m g) (h : Version m g x) : RNC m x := by
  obtain ⟨t, ht, hx⟩ := h
  rcases hx with rfl | ⟨rfl, _, hr⟩
  · intro hr; exact (hn _ ht hr).1
  · intro _; rw [invert_role]; exact (hn t ht hr).2

theorem rnc_of_dok {m : Model} {g : Graph} {l : List Datum} (hn : NoInstOf m g) (h : AllDOK m g l) :
    ∀ tr ∈ pending l, RNC m tr := by
  intro tr htr
  obtain ⟨p, e, hm⟩ := mem_pending htr
  exact rnc_of_version hn (h _ hm).1

/-! ### the loop -/

structure VInv (m : Model) (g : Graph) (top : Str) (data skipped : List Datum) (st : St) : Prop where
  good : Good st
  keys : ∀ v ∈ g.variables, HasKey st v
  rinv : RInv g top st
  dokD : AllDOK m g data
  dokS : AllDOK m g skipped
  src : ∀ t ∈ g.triples, Avail st t.src ∨
    ∃ x ∈ pending data ++ pending skipped, x = t ∨ (x = m.invert t ∧ t.role ≠ CONCEPT_ROLE)

theorem version_src {m : Model} {g : Graph} {st : St} {t x : Triple} (hn : NoInstOf m g) (ht : t ∈ g.triples)
    (hx : x = t ∨ (x = m.invert t ∧ t.role ≠ CONCEPT_ROLE)) (he : EndsAvail g.variables st x) :
    Avail st t.src := by
  rcases hx with rfl | ⟨rfl, hr⟩
  · exact he.1 (src_mem_variables ht)
  · apply he.2 _ t.src (src_mem_variables ht) (invert_tgt m t)
    rw [invert_role]; exact (hn t ht hr).1

theorem vinv_round {m : Model} {g : Graph} {top : Str} {a b} (hn : NoInstOf m g) (h : Round m a b)
    (hc : VInv m g top a.1 a.2.1 a.2.2) : VInv m g top b.1 b.2.1 b.2.2 := by
  cases h with
  | @skip data skipped st sk v st1 tr push epis rest hfn ho =>
    obtain ⟨hcat, _⟩ := findNext_some _ _ _ hfn
    simp only [List.reverse_nil, List.nil_append] at hcat
    have hspec := findNext_spec data [] st
    have hgf := good_findNext data [] st hc.good
    rw [hfn] at hspec hgf
    obtain ⟨hav, hkey, _, _⟩ := hspec
    have hpend : ∀ x, x ∈ pending (stripPops rest) ++ pending (sk ++ skipped ++ [.t tr push epis]) ↔
        x ∈ pending data ++ pending skipped := by
      intro x
      simp only [← hcat, pending_append, pending, pending_stripPops, List.mem_append, List.mem_cons,
        List.mem_nil_iff, or_false]
      grind
    refine ⟨hgf.1, fun w hw => (hkey w).2 (hc.keys w hw),
      ⟨fun w hw => hc.rinv.keys w ((hkey w).1 hw), fun w hw => hc.rinv.reach w ((hav w).1 hw)⟩, ?_, ?_, ?_⟩
    · intro d hd
      apply hc.dokD
      rw [← hcat]
      exact List.mem_append_right _ (List.mem_cons_of_mem _ ((stripPops_suffix rest).subset hd))
    · intro d hd
      simp only [List.mem_append, List.mem_singleton] at hd
      rcases hd with (hd | hd) | hd
      · apply hc.dokD; rw [← hcat]; exact List.mem_append_left _ hd
      · exact hc.dokS d hd
      · subst hd; apply hc.dokD; rw [← hcat]; simp
    · intro t ht
      rcases hc.src t ht with h | ⟨x, hx, hv⟩
      · exact Or.inl ((hav _).2 h)
      · exact Or.inr ⟨x, (hpend x).2 hx, hv⟩
  | @prog data skipped st sk v st1 tr push epis rest hfn ho =>
    obtain ⟨hcat, _⟩ := findNext_some _ _ _ hfn
    simp only [List.reverse_nil, List.nil_append] at hcat
    have hspec := findNext_spec data [] st
    have hgf := good_findNext data [] st hc.good
    rw [hfn] at hspec hgf
    obtain ⟨hav, hkey, _, _⟩ := hspec
    obtain ⟨g1, e1, o1⟩ := hgf
    have hd1 : AllDOK m g (.t tr push epis :: rest) := by
      intro d hd; apply hc.dokD; rw [← hcat]; exact List.mem_append_right _ hd
    have r1 : RInv g top st1 :=
      ⟨fun w hw => hc.rinv.keys w ((hkey w).1 hw), fun w hw => hc.rinv.reach w ((hav w).1 hw)⟩
    obtain ⟨g2, _⟩ := good_cn m (rest.length + 2) v (.t tr push epis :: rest) st1 false g1 (o1 v rfl)
    have r2 := cn_reach m g top (rest.length + 2) v (.t tr push epis :: rest) st1 false r1 (o1 v rfl) hd1
    obtain ⟨mono, c, hcc, hE⟩ := cn_avail m g.variables (rest.length + 2) v (.t tr push epis :: rest) st1 false
      (o1 v rfl) (fun w hw => (hkey w).2 (hc.keys w hw)) (rnc_of_dok hn hd1)
    have hdata : pending data = pending sk ++ (pending c ++
        pending (configureNode m (rest.length + 2) v (.t tr push epis :: rest) st1 false).1) := by
      rw [← hcat, pending_append, ← pending_append c, ← hcc]
    refine ⟨g2, fun w hw => mono.2.1 _ ((hkey w).2 (hc.keys w hw)), r2, ?_, fun d hd => by simp at hd, ?_⟩
    · intro d hd
      have := (stripPops_suffix _).subset hd
      simp only [List.mem_append] at this
      rcases this with h | h | h
      · exact hd1 d ((cn_suffix _ _ _ _ _ _).subset h)
      · apply hc.dokD; rw [← hcat]; exact List.mem_append_left _ h
      · exact hc.dokS d h
    · intro t ht
      rcases hc.src t ht with h | ⟨x, hx, hv⟩
      · exact Or.inl (mono.1 _ ((hav _).2 h))
      · simp only [hdata, List.mem_append] at hx
        rcases hx with (hx | hx | hx) | hx
        · exact Or.inr ⟨x, by simp [pending_append, pending_stripPops, hx], hv⟩
        · exact Or.inl (version_src hn ht hv (hE x hx))
        · exact Or.inr ⟨x, by simp [pending_append, pending_stripPops, hx], hv⟩
        · exact Or.inr ⟨x, by simp [pending_append, pending_stripPops, hx], hv⟩

theorem loop_connected {m : Model} {g : Graph} {top : Str} (hn : NoInstOf m g) :
    ∀ fuel data skipped st st', VInv m g top data skipped st →
    configureLoop m fuel data skipped st = .ok st' →
    RInv g top st' ∧ ∀ t ∈ g.triples, Avail st' t.src := by
  intro fuel
  induction fuel with
  | zero => intro data skipped st st' _ h; simp [configureLoop] at h
  | succ fuel ih =>
    intro data skipped st st' hc h
    cases data with
    | nil =>
      simp only [configureLoop] at h
      split at h
      · rename_i he
        simp only [Except.ok.injEq] at h; subst h
        have : skipped = [] := by simpa using he
        subst this
        refine ⟨hc.rinv, fun t ht => ?_⟩
        rcases hc.src t ht with h | ⟨x, hx, _⟩
        · exact h
        · simp [pending] at hx
      · simp at h
    | cons d data =>
      rcases loop_cases m d data skipped st with ⟨_, e⟩ | ⟨nx, hr, e⟩
      · rw [e] at h; simp at h
      · rw [e] at h
        exact ih _ _ _ _ (vinv_round hn hr hc) h


theorem rinv_st0 (g : Graph) (top : Str) (ht : top ∈ g.variables) : RInv g top (st0 g top) := by
  constructor
  · intro w hw
    by_cases e : w = top
    · rw [e]; exact ht
    · unfold HasKey st0 at hw
      simp only [get?_set_other _ _ _ _ e] at hw
      rw [get?_isSome_iff] at hw
      simpa [AList.keys, Function.comp] using hw
  · intro w hw
    by_cases e : w = top
    · rw [e]; exact Reach.refl
    · exfalso
      unfold Avail st0 at hw
      simp only [get?_set_other _ _ _ _ e] at hw
      rcases hw with h | ⟨u, h⟩ <;> (have := get?_map_const h; simp at this)

theorem mem_variables {g : Graph} {v : Str} (h : v ∈ g.variables) :
    (∃ t ∈ g.triples, t.src = v) ∨ g.top = some v := by
  unfold Graph.variables at h
  simp only [] at h
  have key : v ∈ dedup (g.triples.map (·.src)) → ∃ t ∈ g.triples, t.src = v := by
    intro h; simpa using mem_dedup.1 h
  split at h
  · rename_i t ht
    split at h
    · exact Or.inl (key h)
    · simp only [List.mem_append, List.mem_singleton] at h
      rcases h with h | h
      · exact Or.inl (key h)
      · exact Or.inr (by rw [ht, h])
  · exact Or.inl (key h)

/-- converse of completeness for the store computation -/
theorem storeOf_connected {m : Model} {g : Graph} {top : Str} {st : St} (hn : NoInstOf m g) (hpv : PushVars g)
    (ht : top ∈ g.variables) (htop : TopOK g top) (h : storeOf m g top = .ok st) :
    ∀ v ∈ g.variables, Reach g top v := by
  unfold storeOf at h
  cases hp : preconfigure m g.epidata g.triples [] with
  | error e1 => rw [hp] at h; simp [Except.bind] at h
  | ok data =>
    rw [hp] at h
    simp only [Except.bind] at h
    have hpre := preconfigure_spec m _ _ _ _ hp
    have hdok := preconfigure_dok m g hpv _ _ _ (fun t ht => ht) hp
    obtain ⟨g0, o0⟩ := good_st0 g top
    obtain ⟨g1, _⟩ := good_cn m (data.length + 1) top data (st0 g top) false g0 o0
    have r1 := cn_reach m g top (data.length + 1) top data (st0 g top) false (rinv_st0 g top ht) o0 hdok
    obtain ⟨mono, c, hc, hE⟩ := cn_avail m g.variables (data.length + 1) top data (st0 g top) false o0
      (keys_st0 g top) (rnc_of_dok hn hdok)
    have hv : VInv m g top (stripPops (configureNode m (data.length + 1) top data (st0 g top) false).1) []
        (configureNode m (data.length + 1) top data (st0 g top) false).2.1 := by
      refine ⟨g1, fun v hv => mono.2.1 _ (keys_st0 g top v hv), r1, ?_, fun d hd => by simp at hd, ?_⟩
      · intro d hd
        exact hdok d ((cn_suffix _ _ _ _ _ _).subset ((stripPops_suffix _).subset hd))
      · intro t htm
        obtain ⟨x, hx, hs⟩ := hpre.forward t htm
        have hver : x = t ∨ (x = m.invert t ∧ t.role ≠ CONCEPT_ROLE) := by
          cases hs with
          | same => exact Or.inl rfl
          | inv _ _ hr => exact Or.inr ⟨rfl, hr⟩
        rw [hc, pending_append, List.mem_append] at hx
        rcases hx with hx | hx
        · exact Or.inl (version_src hn htm hver (hE x hx))
        · exact Or.inr ⟨x, by simp [pending, pending_stripPops, hx], hver⟩
    obtain ⟨rf, hsrc⟩ := loop_connected hn _ _ _ _ _ hv h
    intro v hvv
    rcases mem_variables hvv with ⟨t, htm, rfl⟩ | hgt
    · exact rf.reach _ (hsrc t htm)
    · have htop' : v = top ∨ v ∈ g.triples.map (·.src) := by
        unfold TopOK at htop; rw [hgt] at htop; exact htop
      rcases htop' with rfl | hz
      · exact Reach.refl
      · simp only [List.mem_map] at hz
        obtain ⟨t, htm, rfl⟩ := hz
        exact rf.reach _ (hsrc t htm)

/-- if `configure` succeeds on a non-empty graph, the top is a variable and every variable is
    weakly connected to it -/
theorem configure_success_connected {m : Model} {g : Graph} {top : Option Str} {T : Tree}
    (hn : NoInstOf m g) (hpv : PushVars g) (hne : g.triples.isEmpty = false)
    (h : configure m g top = .ok T) :
    ∃ t, topOf g top = some t ∧ t ∈ g.variables ∧ (TopOK g t → ∀ v ∈ g.variables, Reach g t v) := by
  rcases configure_cases m g top with ⟨he, _⟩ | ⟨_, _, h'⟩ | ⟨t, _, ht, htv, ⟨e, _, h'⟩ | ⟨st, node, hs, _, _, _⟩⟩
  · rw [he] at hne; simp at hne
  · rw [h'] at h; simp at h
  · rw [h'] at h; simp at h
  · exact ⟨t, ht, htv, fun htop => storeOf_connected hn hpv htv htop hs⟩

end Cfg

/-
  Penman.Proofs.NormalFormGraphReset — `reset_variables` is idempotent on trees whose variables are
  defined once: relabelling the relabelled tree changes nothing.  The new names depend only on the
  concept prefixes in depth-first order and on the template, and the relabelling touches neither
  (C10: `reset_shape`, `varmap_injective`).
-/
import Penman.Props.C10
namespace Penman
namespace RV

/-! ### the relabelled tree has the same concept prefixes, node by node -/

theorem renBranches_prefix (isAlpha : Char → Bool) (lower : Char → Str) (vm : AList Str Str) :
    ∀ bs : Branches, defaultPrefix isAlpha lower (renBranches vm bs).concept =
      defaultPrefix isAlpha lower bs.concept
  | .nil => rfl
  | .atom r a rest => by
    by_cases hr : r = ['/']
    · subst hr; simp [renBranches, Branches.concept, renAtom_concept]
    · simp only [renBranches, Branches.concept, hr, if_false]
      exact renBranches_prefix isAlpha lower vm rest
  | .sub r n rest => by
    by_cases hr : r = ['/']
    · subst hr; simp [renBranches, Branches.concept, defaultPrefix]
    · simp only [renBranches, Branches.concept, hr, if_false]
      exact renBranches_prefix isAlpha lower vm rest

/-- one node of the relabelled tree -/
def renNodeEntry (vm : AList Str Str) (p : Str × Branches) : Str × Branches := (renVar vm p.1, renBranches vm p.2)

mutual
theorem renNode_nodes (vm : AList Str Str) : ∀ n : Node, (renNode vm n).nodes = n.nodes.map (renNodeEntry vm)
  | .mk v bs => by
    have ih := renBranches_nodes vm bs
    cases v <;> simp [renNode, Node.nodes, ih, renNodeEntry]
theorem renBranches_nodes (vm : AList Str Str) : ∀ bs : Branches,
    (renBranches vm bs).nodes = bs.nodes.map (renNodeEntry vm)
  | .nil => rfl
  | .atom _ _ rest => by simpa [renBranches, Branches.nodes] using renBranches_nodes vm rest
  | .sub _ n rest => by
    simp [renBranches, Branches.nodes, renNode_nodes vm n, renBranches_nodes vm rest]
end

/-! ### association lists -/

theorem get?_append_new (d e : AList Str Str) (k v : Str) (hk : k ∉ AList.keys d) :
    AList.get? (d ++ (k, v) :: e) k = some v := by
  induction d with
  | nil => simp [AList.get?]
  | cons p d ih =>
    simp only [AList.keys, List.map_cons, List.mem_cons, not_or] at hk
    have : ¬ p.1 = k := fun h => hk.1 h.symm
    simp only [List.cons_append, AList.get?, List.find?_cons, this, decide_false] at ih ⊢
    exact ih hk.2

theorem keys_append (d e : AList Str Str) : AList.keys (d ++ e) = AList.keys d ++ AList.keys e := by
  simp [AList.keys]

theorem avals_append (d e : AList Str Str) : avals (d ++ e) = avals d ++ avals e := by
  simp [avals]

/-- the diagonal map on the new names -/
def diag (vm : AList Str Str) : AList Str Str := vm.map fun e => (e.2, e.2)

theorem diag_append (d e : AList Str Str) : diag (d ++ e) = diag d ++ diag e := by simp [diag]

theorem keys_diag (vm : AList Str Str) : AList.keys (diag vm) = avals vm := by
  simp [diag, AList.keys, avals]

theorem get?_diag {vm : AList Str Str} {x y : Str} (h : AList.get? (diag vm) x = some y) : y = x := by
  have := mem_of_get? h
  simp only [diag, List.mem_map] at this
  obtain ⟨e, _, he⟩ := this
  injection he with h1 h2
  rw [← h1, ← h2]

/-! ### the map built for the relabelled tree is the diagonal -/

theorem buildVarmap_renamed {isAlpha : Char → Bool} {lower : Char → Str} {fmt : Fmt} (vmF : AList Str Str)
    (hvals : (avals vmF).Nodup) :
    ∀ (L : List (Str × Branches)) (vm0 : AList Str Str) (used0 : List Str) (vm0' : AList Str Str),
      buildVarmap isAlpha lower fmt L vm0 used0 = some vmF →
      (L.map (·.1)).Nodup → (∀ v ∈ L.map (·.1), v ∉ AList.keys vm0) →
      AList.keys vm0' = avals vm0 →
      ∃ E, vmF = vm0 ++ E ∧
        buildVarmap isAlpha lower fmt (L.map (renNodeEntry vmF)) vm0' used0 = some (vm0' ++ diag E) := by
  intro L
  induction L with
  | nil =>
    intro vm0 used0 vm0' h _ _ _
    simp only [buildVarmap, Option.some.injEq] at h
    exact ⟨[], by simp [h], by simp [buildVarmap, diag]⟩
  | cons p rest ih =>
    obtain ⟨v, bs⟩ := p
    intro vm0 used0 vm0' h hnd hfresh hkeys
    have hv : v ∉ AList.keys vm0 := hfresh v (by simp)
    have hc : AList.contains vm0 v = false := by
      cases hcc : AList.contains vm0 v with
      | false => rfl
      | true => exact absurd (contains_iff_mem_keys.1 hcc) hv
    simp only [buildVarmap, hc, Bool.false_eq_true, if_false] at h
    cases hpick : pickVar fmt (defaultPrefix isAlpha lower bs.concept) used0
        (if fmt.progressive = true then used0.length + 1 else 1) 0 with
    | none => rw [hpick] at h; cases h
    | some nv =>
      rw [hpick] at h
      simp only at h
      simp only [List.map_cons, List.nodup_cons] at hnd
      obtain ⟨E2, hE, hB⟩ := ih (vm0 ++ [(v, nv)]) (nv :: used0) (vm0' ++ [(nv, nv)]) h hnd.2
        (by
          intro w hw
          rw [keys_append]
          simp only [AList.keys, List.map_cons, List.map_nil, List.mem_append, List.mem_singleton, not_or]
          refine ⟨hfresh w (by simp [hw]), ?_⟩
          rintro rfl; exact hnd.1 hw)
        (by rw [keys_append, avals_append, hkeys]; rfl)
      refine ⟨(v, nv) :: E2, by rw [hE]; simp, ?_⟩
      have hF : vmF = vm0 ++ (v, nv) :: E2 := by rw [hE]; simp
      have hren : renVar vmF v = nv := by
        simp [renVar, hF, get?_append_new vm0 E2 v nv hv]
      have hc' : AList.contains vm0' nv = false := by
        cases hcc : AList.contains vm0' nv with
        | false => rfl
        | true =>
          exfalso
          have h1 : nv ∈ avals vm0 := by rw [← hkeys]; exact contains_iff_mem_keys.1 hcc
          rw [hF, avals_append] at hvals
          have := (List.nodup_append.1 hvals).2.2 nv h1 nv (by simp [avals])
          exact this rfl
      simp only [List.map_cons, renNodeEntry, hren, buildVarmap, hc', Bool.false_eq_true, if_false,
        renBranches_prefix, hpick]
      rw [hB]
      simp [diag]

/-! ### the diagonal renaming is the identity -/

theorem renVar_diag (vm : AList Str Str) (x : Str) : renVar (diag vm) x = x := by
  unfold renVar
  cases h : AList.get? (diag vm) x with
  | none => rfl
  | some y => simp [get?_diag h]

theorem renAtom_diag (vm : AList Str Str) (r : Str) (a : Atom) : renAtom (diag vm) r a = a := by
  cases a with
  | none => rfl
  | num t => rfl
  | str s =>
    by_cases hr : r = ['/']
    · subst hr; exact renAtom_concept _ _
    · cases h : AList.get? (diag vm) (alnStem s) with
      | none => exact renAtom_other h
      | some nv =>
        rw [renAtom_ref hr h, get?_diag h]
        congr 1
        exact (partition_tilde_spec s).1.symm

mutual
theorem renNode_diag (vm : AList Str Str) : ∀ n : Node, renNode (diag vm) n = n
  | .mk v bs => by
    cases v <;> simp [renNode, renBranches_diag vm bs, renVar_diag]
theorem renBranches_diag (vm : AList Str Str) : ∀ bs : Branches, renBranches (diag vm) bs = bs
  | .nil => rfl
  | .atom r a rest => by simp [renBranches, renAtom_diag, renBranches_diag vm rest]
  | .sub r n rest => by simp [renBranches, renNode_diag vm n, renBranches_diag vm rest]
end

/-- **`reset_variables` is idempotent** on a tree whose variables are defined once: relabelling the
    relabelled tree (same template) returns it unchanged. -/
theorem reset_idem (isAlpha : Char → Bool) (lower : Char → Str) (fmt : Fmt) (n n' : Node)
    (hnd : n.vars.Nodup) (h : n.resetVariables isAlpha lower fmt = .ok n') :
    n'.resetVariables isAlpha lower fmt = .ok n' := by
  obtain ⟨vm, hvm, rfl, hall, hvars, hget⟩ := reset_shape isAlpha lower fmt n _ h
  obtain ⟨_, _, hkeys, hvals, _, _⟩ := varmap_injective isAlpha lower fmt n vm hvm
  obtain ⟨E, hE, hB⟩ := buildVarmap_renamed (isAlpha := isAlpha) (lower := lower) (fmt := fmt) vm hvals
    n.nodes [] [] [] hvm hnd (by intro v _; simp [AList.keys]) rfl
  simp only [List.nil_append] at hE hB
  subst hE
  simp only [Node.resetVariables, renNode_nodes, hB]
  rw [node_mapVars_eq]
  have hmp : nodeMappable (diag vm) (renNode vm n) = true := by
    rw [nodeMappable_iff]
    refine ⟨?_, ?_⟩
    · have := (nodeMappable_iff vm n).2 ⟨hall, fun v hv => (hkeys v).2 hv⟩
      -- every node of the relabelled tree has a variable
      have key : ∀ (vm' : AList Str Str), (∀ m : Node, nodeAllVars (renNode vm' m) = nodeAllVars m) ∧
          (∀ bs : Branches, branchesAllVars (renBranches vm' bs) = branchesAllVars bs) := by
        intro vm'
        exact ⟨fun m => Node.rec (motive_1 := fun m => nodeAllVars (renNode vm' m) = nodeAllVars m)
            (motive_2 := fun bs => branchesAllVars (renBranches vm' bs) = branchesAllVars bs)
            (fun v bs ih => by cases v <;> simp [renNode, nodeAllVars, ih])
            rfl
            (fun r a rest ih => by simpa [renBranches, branchesAllVars] using ih)
            (fun r m rest ih1 ih2 => by simp [renBranches, branchesAllVars, ih1, ih2]) m,
          fun bs => Branches.rec (motive_1 := fun m => nodeAllVars (renNode vm' m) = nodeAllVars m)
            (motive_2 := fun bs => branchesAllVars (renBranches vm' bs) = branchesAllVars bs)
            (fun v bs ih => by cases v <;> simp [renNode, nodeAllVars, ih])
            rfl
            (fun r a rest ih => by simpa [renBranches, branchesAllVars] using ih)
            (fun r m rest ih1 ih2 => by simp [renBranches, branchesAllVars, ih1, ih2]) bs⟩
      rw [(key vm).1 n]; exact hall
    · intro v hv
      rw [hvars] at hv
      obtain ⟨w, hw, rfl⟩ := List.mem_map.1 hv
      obtain ⟨nv, hnv, hr⟩ := hget w hw
      rw [hr, keys_diag]
      exact List.mem_map.2 ⟨(w, nv), mem_of_get? hnv, rfl⟩
  simp [hmp, renNode_diag]

end RV
end Penman

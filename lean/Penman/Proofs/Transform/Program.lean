/-
  Penman.Proofs.Transform.Program — every transformation step, and hence every
  program of transformations, maps well-formed connected graphs to well-formed
  connected graphs with the same top.
-/
import Penman.Proofs.Transform.Connected
namespace Penman

/-! ### roles of the results -/

theorem dereifyEdges_rolesColon {m : Model} {g g' : Graph} (h : dereifyEdges m g = .ok g') :
    RolesColon g' := by
  intro t ht
  rw [(dereifyEdges_ok h).1, List.mem_map] at ht
  obtain ⟨t0, _, rfl⟩ := ht
  exact ensureColon_colon _

theorem indicateBranches_rolesColon {m : Model} {g g' : Graph} (h : indicateBranches m g = .ok g') :
    RolesColon g' := by
  intro t ht
  rw [(indicateBranches_ok h).1, List.mem_map] at ht
  obtain ⟨t0, _, rfl⟩ := ht
  exact ensureColon_colon _

theorem reifyAttributes_rolesColon (g : Graph) : RolesColon (reifyAttributes g) := by
  rw [reifyAttributes_eq]; exact mk'_rolesColon _ _ _ _

theorem reifyResult_rolesColon (g : Graph) (st : RState) : RolesColon (reifyResult g st) :=
  mk'_rolesColon _ _ _ _

/-! ### programs -/

theorem step_wfc {m : Model} (hm : ReifWf m) (htr : TopRoleOk m) (x : Xf) (g : Graph)
    (hw : WfC g) (hs : x.Side g) : ∃ g', x.run m g = .ok g' ∧ WfC g' ∧ g'.getTop = g.getTop := by
  obtain ⟨hg, hi, hc⟩ := hw
  cases x with
  | reifyEdges =>
    obtain ⟨rev, st, hrun, ho, h⟩ := reifyEdges_result m g
    exact ⟨_, h, ⟨reifyResult_rolesColon g st, reifyEdges_hasInst hm hg hrun ho hi,
      reifyEdges_connected hm hg hrun ho hi hc⟩, reifyResult_getTop hrun ho⟩
  | reifyAttributes =>
    exact ⟨_, rfl, ⟨reifyAttributes_rolesColon g, reifyAttributes_hasInst g hi,
      reifyAttributes_connected g hg hc⟩, reifyAttributes_getTop g⟩
  | dereifyEdges =>
    obtain ⟨g', h⟩ := dereifyEdges_total m g
    have htop : ∀ x, g.getTop = some x → IsSrc g x := by
      obtain ⟨top, hgt, htsrc, _⟩ := hc
      intro x hx; rw [hgt] at hx; simp only [Option.some.injEq] at hx; exact hx ▸ htsrc
    exact ⟨g', h, ⟨dereifyEdges_rolesColon h,
      dereifyEdges_hasInst h hi (dereified_src_node hi htop),
      dereifyEdges_connected h hm hg hc⟩, dereifyEdges_getTop h⟩
  | indicateBranches =>
    obtain ⟨g', h⟩ := indicateBranches_ok_iff.mpr (pushSrcOk_noErr hs)
    exact ⟨g', h, ⟨indicateBranches_rolesColon h, indicateBranches_hasInst h hi hs,
      indicateBranches_connected h htr.1 htr.2 hg hc⟩, indicateBranches_getTop h⟩

theorem prog_wfc {m : Model} (hm : ReifWf m) (htr : TopRoleOk m) : ∀ (p : List Xf) (g : Graph),
    WfC g → SideAlong m p g → ∃ g', runProg m p g = .ok g' ∧ WfC g' ∧ g'.getTop = g.getTop
  | [], g, hw, _ => ⟨g, rfl, hw, rfl⟩
  | x :: r, g, hw, hs => by
    obtain ⟨g1, h1, hw1, ht1⟩ := step_wfc hm htr x g hw hs.1
    obtain ⟨g2, h2, hw2, ht2⟩ := prog_wfc hm htr r g1 hw1 (hs.2 g1 h1)
    refine ⟨g2, ?_, hw2, ht2.trans ht1⟩
    simp only [runProg, List.foldlM, h1, bind, Except.bind]
    exact h2

/-- the only step that can fail is `indicate_branches`, with its
    `AssertionError`; the other three transformations are total -/
theorem step_error {m : Model} {x : Xf} {g : Graph} {e : PyErr} (h : x.run m g = .error e) :
    x = .indicateBranches ∧ e = .other "AssertionError" ∧ ∃ t ∈ g.triples, BranchErr g t := by
  cases x with
  | reifyEdges =>
    obtain ⟨rev, st, _, _, h'⟩ := reifyEdges_result m g
    simp only [Xf.run, h'] at h
    exact absurd h (by simp)
  | reifyAttributes => simp [Xf.run] at h
  | dereifyEdges =>
    obtain ⟨g', h'⟩ := dereifyEdges_total m g
    simp only [Xf.run, h'] at h
    exact absurd h (by simp)
  | indicateBranches => exact ⟨rfl, indicateBranches_error h⟩

end Penman

/-
  Penman.Proofs.TransformDecodeReify — `reify_edges` preserves the invariant `DecOK`
  (hence its result satisfies every hypothesis of `C03Text.C03_text`).
-/
import Penman.Proofs.TransformDecodeBase
namespace Penman.C12dec
open Penman Penman.Spec Penman.C03Text

/-- sources of the node labels, in order -/
def instSrcs (l : List Triple) : List Str := (l.filter (fun t => t.role = CONCEPT_ROLE)).map (·.src)

theorem instSrcs_append (a b : List Triple) : instSrcs (a ++ b) = instSrcs a ++ instSrcs b := by
  simp [instSrcs]

theorem instSrcs_cons (t : Triple) (l : List Triple) : instSrcs (t :: l) = instSrcs [t] ++ instSrcs l :=
  instSrcs_append [t] l

theorem instSrcs_single_inst {t : Triple} (h : t.role = CONCEPT_ROLE) : instSrcs [t] = [t.src] := by
  simp [instSrcs, h]

theorem instSrcs_single_not {t : Triple} (h : t.role ≠ CONCEPT_ROLE) : instSrcs [t] = [] := by
  simp [instSrcs, h]

theorem instSrcs_subset {g : Graph} : ∀ x ∈ instSrcs g.triples, x ∈ g.variables := by
  intro x hx
  simp only [instSrcs, List.mem_map, List.mem_filter] at hx
  obtain ⟨t, ⟨ht, _⟩, rfl⟩ := hx
  exact src_mem_variables ht

/-- a marker table all of whose entries are fine gives fine lookups -/
theorem markOK_get {V : List Str} {d : Epidata} (h : ∀ p ∈ d, MarkOK V p.1 p.2) (k : Triple) :
    MarkOK V k ((AList.get? d k).getD []) := by
  cases hk : AList.get? d k with
  | none => exact markOK_nil _ _
  | some es => exact h (k, es) (AList.mem_of_get? hk)

theorem edgeMarkers_fst_nil {old : List Epi} (h : ∀ e ∈ old, e.mode = 0) : (edgeMarkers old).1 = [] := by
  have : old.filter (fun e => !e.isPush && !e.isPop && e.mode = 1) = [] := by
    rw [List.filter_eq_nil_iff]
    intro e he
    simp [h e he]
  simp only [edgeMarkers, reifiedMarkers, this, List.filterMap_nil]

section
variable {cfg : LexCfg} {isSpace : Char → Bool} {m : Model} {g : Graph}

/-! ### the triples -/

theorem tripleOK_ev_out (hm : ReifWf m) (htab : TableOK cfg m) (hd : DecOK cfg isSpace m g) {e : Ev}
    (he : EvOk m g e) (hv : ∀ v ∈ e.newVar, isGenName v = true) : ∀ t1 ∈ e.out, TripleOK cfg m t1 := by
  cases e with
  | keep t =>
    intro t1 h1
    simp only [Ev.out, List.mem_singleton] at h1
    subst h1; exact hd.triples _ he.1
  | reif t rf v inv =>
    obtain ⟨ht, hrf, _, _⟩ := evOk_reif he
    have hT := hd.triples t ht
    have hR := htab.1 rf hrf
    have hE := hm.1 rf hrf
    have hvv : SrcOK cfg v := srcOK_genName htab.2.2 (hv v (by simp [Ev.newVar]))
    have hin : TripleOK cfg m (inTriple t rf v) :=
      ⟨hR.2.1, hvv, atomOK_var hT.2.1, fun h => absurd h hE.2.2.1⟩
    have hout : TripleOK cfg m (outTriple t rf v) :=
      ⟨hR.2.2.1, hvv, hT.2.2.1, fun h => absurd h hE.2.2.2.1⟩
    have hnode : TripleOK cfg m (nodeTriple rf v) :=
      ⟨hd.conceptOK, hvv, hR.2.2.2.1, fun _ => hR.2.2.2.2⟩
    intro t1 h1
    simp only [Ev.out, List.mem_cons, List.not_mem_nil, or_false] at h1
    rcases h1 with rfl | rfl | rfl
    · cases inv
      · exact hin
      · exact hout
    · exact hnode
    · cases inv
      · exact hout
      · exact hin

/-! ### one node label per variable -/

theorem instSrcs_reify (hm : ReifWf m) : ∀ {l : List Ev}, (∀ e ∈ l, EvOk m g e) →
    (instSrcs (l.flatMap Ev.out)).Perm (instSrcs (l.map Ev.orig) ++ l.flatMap Ev.newVar)
  | [], _ => by simp [instSrcs]
  | e :: r, hok => by
    have ih := instSrcs_reify hm (l := r) (fun e he => hok e (by simp [he]))
    rw [List.flatMap_cons, instSrcs_append, List.map_cons, instSrcs_cons, List.flatMap_cons]
    cases e with
    | keep t =>
      simp only [Ev.out, Ev.orig, Ev.newVar, List.nil_append, List.append_assoc]
      exact ih.append_left _
    | reif t rf v inv =>
      obtain ⟨_, hrf, _, hre⟩ := evOk_reif (hok (.reif t rf v inv) (by simp))
      have hE := hm.1 rf hrf
      have hc : t.role ≠ CONCEPT_ROLE := by
        intro h; rw [h, hm.2] at hre; simp at hre
      have hout : instSrcs (Ev.reif t rf v inv).out = [v] := by
        have h1 : rf.source ≠ CONCEPT_ROLE := hE.2.2.1
        have h2 : rf.target ≠ CONCEPT_ROLE := hE.2.2.2.1
        cases inv <;>
          simp [instSrcs, Ev.out, firstTriple, lastTriple, inTriple, outTriple, nodeTriple,
            h1, h2]
      rw [hout]
      simp only [Ev.orig, Ev.newVar, instSrcs_single_not hc, List.nil_append, List.singleton_append]
      exact (ih.cons v).trans List.perm_middle.symm

theorem flatMap_reverse_perm {α β : Type} (l : List α) (f : α → List β) :
    (l.reverse.flatMap f).Perm (l.flatMap f) :=
  (List.reverse_perm l).flatMap_right f

/-! ### the markers -/

theorem run_markOK (he : EpiAll g) {rev : List Ev} {st : RState} (hrun : Run m g rev st) :
    ∀ p ∈ st.epidata, MarkOK st.vars p.1 p.2 := by
  induction hrun with
  | nil => exact he
  | keep t _ _ _ ih => exact ih
  | @reif rev0 st0 t rf inv hrun' ht hf hi ih =>
    have hfresh : freshVar st0.vars ∉ st0.vars := freshVar_fresh _
    have hsub : ∀ x ∈ st0.vars, x ∈ freshVar st0.vars :: st0.vars := fun x hx => by simp [hx]
    have htv : t.src ∈ st0.vars := by
      rw [run_vars hrun']; exact List.mem_append_right _ (src_mem_variables ht)
    have hat : firstTriple t rf (freshVar st0.vars) inv ≠ t := by
      intro h; apply hfresh; have := congrArg Triple.src h; simp only [firstTriple_src] at this
      rw [this]; exact htv
    have hold := markOK_get ih t
    have holdeq : (AList.get? (st0.epidata.set (firstTriple t rf (freshVar st0.vars) inv)
        [.push (freshVar st0.vars)]) t).getD [] = (AList.get? st0.epidata t).getD [] := by
      rw [AList.get?_set_ne _ _ hat]
    intro p hp
    simp only [reifSt, holdeq] at hp ⊢
    rcases mem_set_imp hp with hp | rfl
    · rcases mem_set_imp hp with hp | rfl
      · rcases mem_set_imp (mem_erase_imp hp) with hp | rfl
        · exact (ih p hp).mono hsub
        · -- the first triple, carrying `Push v`
          refine ⟨by simp [Epi.mode], by simp [Cfg.pushIn], ?_⟩
          left
          cases inv
          · rfl
          · obtain ⟨_, s, hs, _⟩ := appearsInverted_true hi
            simp [firstTriple, outTriple, hs, tgtStr?]
      · -- the node triple
        rw [edgeMarkers_fst_nil hold.1]
        exact markOK_nil _ _
    · -- the last triple, carrying the migrated markers
      refine ⟨fun e he' => hold.1 e (mem_edgeMarkers_snd he'),
        fun e he' => pushIn_mono hsub (hold.2.1 e (mem_edgeMarkers_snd he')), ?_⟩
      cases inv
      · right; right
        intro hmem
        have := hold.2.1 _ (mem_edgeMarkers_snd hmem)
        simp only [lastTriple, outTriple, Bool.false_eq_true, if_false, Cfg.pushIn] at this
        exact hfresh this
      · left; rfl

/-! ### variables -/

theorem reify_vars_sup (hm : ReifWf m) (hg : RolesColon g) {rev : List Ev} {st : RState}
    (hrun : Run m g rev st) (ho : rev.reverse.map Ev.orig = g.triples) (hi : HasInst g) :
    ∀ x ∈ st.vars, x ∈ (reifyResult g st).variables := by
  intro x hx
  rw [run_vars hrun, List.mem_append] at hx
  rcases hx with hx | hx
  · rw [List.mem_flatMap] at hx
    obtain ⟨e, he, hx⟩ := hx
    cases e with
    | keep t => simp [Ev.newVar] at hx
    | reif t rf v inv =>
      simp only [Ev.newVar, List.mem_singleton] at hx
      subst hx
      have : nodeTriple rf x ∈ (reifyResult g st).triples := by
        rw [reifyResult_triples hm hg hrun]
        exact List.mem_flatMap.mpr ⟨_, by simpa using he, by simp [Ev.out]⟩
      exact src_mem_variables this
  · rw [mem_variables] at hx
    rcases hx with ⟨t, ht, rfl⟩ | htop
    · exact old_src_var hm hg hrun ho hi t ht
    · rw [mem_variables]; right
      rw [reifyResult_top]; simp [Graph.getTop, htop]

/-! ### the theorem -/

/-- **`reify_edges` preserves the invariant** -/
theorem reifyEdges_decOK (hm : ReifWf m) (htab : TableOK cfg m) (hd : DecOK cfg isSpace m g)
    {g' : Graph} (h : reifyEdges m g = .ok g') : DecOK cfg isSpace m g' ∧ g'.getTop = g.getTop := by
  obtain ⟨rev, st, hrun, ho, h'⟩ := reifyEdges_result m g
  rw [h'] at h
  simp only [Except.ok.injEq] at h
  subst h
  have hg := hd.rolesColon
  have htr := reifyResult_triples hm hg hrun
  have hok := evOk_rev hrun
  have hnew := run_newVars hrun
  refine ⟨⟨?_, ?_, ?_, ?_, reifyEdges_hasInst hm hg hrun ho hd.hasInst,
    reifyEdges_connected hm hg hrun ho hd.hasInst hd.conn⟩, reifyResult_getTop hrun ho⟩
  · intro t1 h1
    rw [htr, List.mem_flatMap] at h1
    obtain ⟨e, he, h1⟩ := h1
    refine tripleOK_ev_out hm htab hd (hok e he) (fun v hv => ?_) t1 h1
    exact (hnew.2 v (List.mem_flatMap.mpr ⟨e, by simpa using he, hv⟩)).2
  · show (instSrcs (reifyResult g st).triples).Nodup
    rw [htr]
    refine (instSrcs_reify hm hok).nodup_iff.mpr ?_
    rw [ho, List.nodup_append]
    refine ⟨hd.oneLabel, (flatMap_reverse_perm rev Ev.newVar).nodup_iff.mpr hnew.1, ?_⟩
    intro a ha b hb hab
    subst hab
    have hb' := (flatMap_reverse_perm rev Ev.newVar).mem_iff.mp hb
    exact (hnew.2 a hb').1 (instSrcs_subset a ha)
  · show WfMeta isSpace (AList.ofList g.metadata)
    rw [wfMeta_ofList hd.metaOK]; exact hd.metaOK
  · intro p hp
    have hp' : p ∈ st.epidata := mem_ofList_imp hp
    exact (run_markOK hd.epi hrun p hp').mono (reify_vars_sup hm hg hrun ho hd.hasInst)

end
end Penman.C12dec

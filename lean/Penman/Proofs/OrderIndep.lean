/-
  Penman.Proofs.OrderIndep — helper lemmas for property C17 (order independence of
  every consumer of a Python `set`), part 1: generic tools, `interpret`, `Graph.__ior__`,
  `Graph.__isub__`, fresh variables (`reify_edges`, `reify_attributes`), `sorted`.
  Core Lean only.
-/
import Penman.Proofs.GraphLemmas
import Penman.Transform
set_option linter.unusedSimpArgs false
set_option linter.unusedVariables false
namespace Penman.OrderIndep
open Penman

/-- two enumerations of the same set: same members (order and multiplicity irrelevant) -/
def SameMembers {α : Type} (l l' : List α) : Prop := ∀ a, a ∈ l ↔ a ∈ l'

theorem SameMembers.refl {α : Type} (l : List α) : SameMembers l l := fun _ => Iff.rfl
theorem SameMembers.symm {α : Type} {l l' : List α} (h : SameMembers l l') : SameMembers l' l :=
  fun a => (h a).symm
theorem SameMembers.of_perm {α : Type} {l l' : List α} (h : l.Perm l') : SameMembers l l' :=
  fun _ => h.mem_iff
theorem SameMembers.cons {α : Type} {l l' : List α} (h : SameMembers l l') (a : α) :
    SameMembers (a :: l) (a :: l') := fun b => by simp [h b]

theorem SameMembers.of_subsets {α : Type} {l l' : List α} (h : ∀ a ∈ l, a ∈ l')
    (h' : ∀ a ∈ l', a ∈ l) : SameMembers l l' := fun a => ⟨h a, h' a⟩

theorem SameMembers.decide_mem {α : Type} [DecidableEq α] {l l' : List α} (h : SameMembers l l')
    (a : α) : decide (a ∈ l) = decide (a ∈ l') := by
  simp [h a]

theorem atomInVars_congr {vars vars' : List Str} (h : SameMembers vars vars') (a : Atom) :
    atomInVars vars a = atomInVars vars' a := by
  cases a <;> simp [atomInVars, h _]

/-! ### relations through `Except` and `foldlM` -/

def ExceptRel {ε α β : Type} (R : α → β → Prop) : Except ε α → Except ε β → Prop
  | .ok a, .ok b => R a b
  | .error e, .error e' => e = e'
  | _, _ => False

theorem ExceptRel.bind {ε α β α' β' : Type} {R : α → β → Prop} {S : α' → β' → Prop}
    {x : Except ε α} {y : Except ε β} {f : α → Except ε α'} {g : β → Except ε β'}
    (hxy : ExceptRel R x y) (hfg : ∀ a b, R a b → ExceptRel S (f a) (g b)) :
    ExceptRel S (x >>= f) (y >>= g) := by
  cases x <;> cases y
  · exact hxy
  · exact hxy.elim
  · exact hxy.elim
  · exact hfg _ _ hxy

theorem ExceptRel.eq_of {ε α : Type} {x y : Except ε α} (h : ExceptRel (· = ·) x y) : x = y := by
  cases x <;> cases y <;> simp_all [ExceptRel]

theorem ExceptRel.map_eq {ε α β γ : Type} {R : α → β → Prop} {x : Except ε α} {y : Except ε β}
    (h : ExceptRel R x y) (f : α → γ) (g : β → γ) (hfg : ∀ a b, R a b → f a = g b) :
    x.map f = y.map g := by
  cases x <;> cases y
  · exact congrArg _ h
  · exact h.elim
  · exact h.elim
  · exact congrArg Except.ok (hfg _ _ h)

theorem foldlM_rel {ε σ σ' α : Type} (R : σ → σ' → Prop) (f : σ → α → Except ε σ)
    (f' : σ' → α → Except ε σ') (h : ∀ s s' a, R s s' → ExceptRel R (f s a) (f' s' a)) :
    ∀ (l : List α) (s : σ) (s' : σ'), R s s' → ExceptRel R (l.foldlM f s) (l.foldlM f' s')
  | [], s, s', hr => hr
  | a :: l, s, s', hr => by
    simp only [List.foldlM_cons]
    exact ExceptRel.bind (h s s' a hr) (fun a b hab => foldlM_rel R f f' h l a b hab)

theorem foldl_rel {σ σ' α : Type} (R : σ → σ' → Prop) (f : σ → α → σ)
    (f' : σ' → α → σ') (h : ∀ s s' a, R s s' → R (f s a) (f' s' a)) :
    ∀ (l : List α) (s : σ) (s' : σ'), R s s' → R (l.foldl f s) (l.foldl f' s')
  | [], s, s', hr => hr
  | a :: l, s, s', hr => foldl_rel R f f' h l _ _ (h s s' a hr)

/-! ### 2. `layout.interpret`: the variable set is used for membership only -/

mutual
theorem interpretNode_congr (isAlpha : Char → Bool) (m : Model) {vars vars' : List Str}
    (h : SameMembers vars vars') :
    ∀ n : Node, interpretNode isAlpha m vars n = interpretNode isAlpha m vars' n
  | .mk v bs => by
    cases v with
    | none => simp [interpretNode]
    | some var => simp only [interpretNode, interpretBranches_congr isAlpha m h var bs]
theorem interpretBranches_congr (isAlpha : Char → Bool) (m : Model) {vars vars' : List Str}
    (h : SameMembers vars vars') (var : Str) :
    ∀ bs : Branches, interpretBranches isAlpha m vars var bs = interpretBranches isAlpha m vars' var bs
  | .nil => by simp [interpretBranches]
  | .atom role a rest => by
    simp only [interpretBranches, interpretBranches_congr isAlpha m h var rest, atomInVars_congr h]
  | .sub role n rest => by
    simp only [interpretBranches, interpretBranches_congr isAlpha m h var rest,
      interpretNode_congr isAlpha m h n]
end

/-- `interpret` with the enumeration of `{v for v, _ in t.nodes()}` as a parameter -/
def interpretWith (isAlpha : Char → Bool) (m : Model) (variables : List Str) (t : Tree) :
    Except PyErr Graph := do
  let (triples, epidata) ← interpretNode isAlpha m variables t.node
  pure (Graph.mk' triples t.node.var (epimapOf epidata) t.metadata)

theorem interpret_eq_with (isAlpha : Char → Bool) (m : Model) (t : Tree) :
    interpret isAlpha m t = interpretWith isAlpha m t.node.vars t := rfl

theorem interpretWith_congr (isAlpha : Char → Bool) (m : Model) {vars vars' : List Str}
    (h : SameMembers vars vars') (t : Tree) :
    interpretWith isAlpha m vars t = interpretWith isAlpha m vars' t := by
  simp only [interpretWith, interpretNode_congr isAlpha m h]

/-! ### 4. `Graph.__isub__`: deleting keys in any order -/

theorem foldl_erase_eq_filter {α β : Type} [DecidableEq α] (order : List α) (d : AList α β) :
    order.foldl (fun d t => AList.erase d t) d = d.filter (fun p => p.1 ∉ order) := by
  induction order generalizing d with
  | nil => exact (List.filter_eq_self.mpr (by simp)).symm
  | cons t order ih =>
    rw [List.foldl_cons, ih]
    simp only [AList.erase, List.filter_filter]
    apply List.filter_congr
    intro p _
    by_cases h1 : p.1 = t <;> by_cases h2 : p.1 ∈ order <;> simp [h1, h2]

theorem filter_notMem_congr {α β : Type} [DecidableEq α] {o o' : List α} (h : SameMembers o o')
    (d : AList α β) : d.filter (fun p => p.1 ∉ o) = d.filter (fun p => p.1 ∉ o') := by
  apply List.filter_congr
  intro p _
  simp [h p.1]

/-- `Graph.__isub__` with the deletion order of `removed` as a parameter:
    `for t in removed: if t in self.epidata: del self.epidata[t]` -/
def isubWith (order : List Triple) (g h : Graph) : Graph :=
  let triples := g.triples.filter (· ∉ h.triples)
  let epidata := order.foldl (fun d t => AList.erase d t) g.epidata
  let possible : List Atom := triples.flatMap (fun t => [Atom.str t.src, t.tgt])
  let top := match g.top with
    | some t => if Atom.str t ∈ possible then some t else none
    | none => none
  { g with triples := triples, epidata := epidata, top := top }

theorem isubWith_eq (order : List Triple) (g h : Graph) (ho : SameMembers order h.triples) :
    isubWith order g h = g.isub h := by
  unfold isubWith Graph.isub
  rw [foldl_erase_eq_filter, filter_notMem_congr ho]
  rfl

/-! ### 3. `Graph.__ior__` -/

/-- `Graph.__ior__` with the order in which the markers of the new triples are inserted as a
    parameter (before fix F17 this was the iteration order of the set `new`) -/
def iorWith (order : List Triple) (g h : Graph) : Graph :=
  let new := h.triples.filter (· ∉ g.triples)
  let ep1 := order.foldl (fun d t => match AList.get? h.epidata t with
                                     | some e => d.set t e
                                     | none => d) g.epidata
  { g with triples := g.triples ++ new, epidata := AList.update ep1 h.epidata }

theorem ior_eq_with (g h : Graph) : g.ior h = iorWith (h.triples.filter (· ∉ g.triples)) g h := rfl

theorem get?_foldl_iorStep (h : Graph) (order : List Triple) (d : Epidata) (k : Triple) :
    AList.get? (order.foldl (fun d t => match AList.get? h.epidata t with
                                     | some e => d.set t e
                                     | none => d) d) k =
      if k ∈ order ∧ (AList.get? h.epidata k).isSome then AList.get? h.epidata k else AList.get? d k := by
  induction order generalizing d with
  | nil => simp
  | cons t order ih =>
    simp only [List.foldl_cons, ih, List.mem_cons]
    cases ht : AList.get? h.epidata t with
    | none =>
      by_cases hkt : k = t
      · subst hkt; simp [ht]
      · simp [hkt]
    | some e =>
      by_cases hkt : k = t
      · subst hkt
        by_cases hk : k ∈ order <;> simp [ht, hk, AList.get?_set]
      · by_cases hk : k ∈ order <;> simp [hk, hkt, AList.get?_set, Ne.symm hkt]

/-- as a *mapping* the result of the union never depended on the set order … -/
theorem iorWith_get?_congr {o o' : List Triple} (ho : SameMembers o o') (g h : Graph) (k : Triple) :
    AList.get? (iorWith o g h).epidata k = AList.get? (iorWith o' g h).epidata k := by
  simp only [iorWith, AList.get?_update, get?_foldl_iorStep, ho k]

theorem iorWith_triples (o : List Triple) (g h : Graph) :
    (iorWith o g h).triples = (g.ior h).triples := rfl

/-! ### 6. fresh variables -/

theorem natToStr_eq (n : Nat) : natToStr n = Nat.toDigits 10 n := by
  simp [natToStr, Nat.toString_eq_repr, Nat.toList_repr]

theorem natToStr_inj {a b : Nat} (h : natToStr a = natToStr b) : a = b := by
  rw [natToStr_eq, natToStr_eq] at h
  have := congrArg (fun l => Nat.ofDigitChars 10 l 0) h
  simpa [Nat.ofDigitChars_ten_toDigits] using this

/-- the candidate `_N` -/
def cand (i : Nat) : Str := '_' :: natToStr i

theorem cand_inj {a b : Nat} (h : cand a = cand b) : a = b := by
  simp only [cand, List.cons.injEq, true_and] at h
  exact natToStr_inj h

/-- pigeonhole: among `len + 1` consecutive candidates one is not in `vars` -/
theorem exists_cand_notMem (vars : List Str) (i : Nat) :
    ∃ j, i ≤ j ∧ j ≤ i + vars.length ∧ cand j ∉ vars := by
  generalize hn : vars.length = n
  induction n generalizing vars i with
  | zero =>
    have : vars = [] := List.eq_nil_of_length_eq_zero hn
    exact ⟨i, Nat.le_refl _, by omega, by simp [this]⟩
  | succ n ih =>
    by_cases hi : cand i ∈ vars
    · obtain ⟨j, h1, h2, h3⟩ := ih (vars.erase (cand i)) (i + 1)
        (by rw [List.length_erase_of_mem hi, hn]; rfl)
      refine ⟨j, by omega, by omega, ?_⟩
      intro hj
      apply h3
      rw [List.mem_erase_of_ne]
      · exact hj
      · intro e
        have := cand_inj e
        omega
    · exact ⟨i, Nat.le_refl _, by omega, hi⟩

theorem freshVarLoop_congr {vars vars' : List Str} (h : SameMembers vars vars') :
    ∀ f i, freshVarLoop vars f i = freshVarLoop vars' f i
  | 0, i => rfl
  | f+1, i => by
    simp only [freshVarLoop, h _, freshVarLoop_congr h f]

/-- with a witness inside the fuel window, the loop returns the least candidate from `i` on
    that is not in `vars` -/
theorem freshVarLoop_spec (vars : List Str) :
    ∀ (f i j : Nat), i ≤ j → j < i + f → cand j ∉ vars →
      ∃ k, i ≤ k ∧ k ≤ j ∧ freshVarLoop vars f i = cand k ∧ cand k ∉ vars ∧
        ∀ k', i ≤ k' → k' < k → cand k' ∈ vars
  | 0, i, j, h1, h2, _ => by omega
  | f+1, i, j, h1, h2, h3 => by
    by_cases hi : cand i ∈ vars
    · have hij : i ≠ j := by rintro rfl; exact h3 hi
      obtain ⟨k, k1, k2, k3, k4, k5⟩ := freshVarLoop_spec vars f (i+1) j (by omega) (by omega) h3
      refine ⟨k, by omega, k2, ?_, k4, ?_⟩
      · simp only [freshVarLoop]
        rw [if_pos (by simpa [cand] using hi)]
        exact k3
      · intro k' a b
        by_cases e : k' = i
        · subst e; exact hi
        · exact k5 k' (by omega) b
    · refine ⟨i, Nat.le_refl _, h1, ?_, hi, by intros; omega⟩
      simp only [freshVarLoop]
      rw [if_neg (by simpa [cand] using hi)]
      rfl

/-- the least candidate is unique, so more fuel changes nothing -/
theorem least_unique (vars : List Str) {i k k' : Nat}
    (hk : cand k ∉ vars) (hk' : cand k' ∉ vars) (ik : i ≤ k) (ik' : i ≤ k')
    (lk : ∀ x, i ≤ x → x < k → cand x ∈ vars) (lk' : ∀ x, i ≤ x → x < k' → cand x ∈ vars) :
    k = k' := by
  rcases Nat.lt_trichotomy k k' with h | h | h
  · exact absurd (lk' k ik h) hk
  · exact h
  · exact absurd (lk k' ik' h) hk'

/-- `freshVar` only depends on the SET of variables: not on the order of the enumeration,
    not on duplicates (although the fuel `vars.length + 1` does) -/
theorem freshVar_congr {vars vars' : List Str} (h : SameMembers vars vars') :
    freshVar vars = freshVar vars' := by
  unfold freshVar
  by_cases hu : ['_'] ∈ vars
  · rw [if_pos hu, if_pos ((h _).mp hu)]
    obtain ⟨j, j1, j2, j3⟩ := exists_cand_notMem vars 2
    obtain ⟨j', j1', j2', j3'⟩ := exists_cand_notMem vars' 2
    obtain ⟨k, k1, _, k3, k4, k5⟩ := freshVarLoop_spec vars (vars.length + 1) 2 j j1 (by omega) j3
    obtain ⟨k', k1', _, k3', k4', k5'⟩ :=
      freshVarLoop_spec vars' (vars'.length + 1) 2 j' j1' (by omega) j3'
    rw [k3, k3']
    have : k = k' := least_unique vars k4 (fun hm => k4' ((h _).mp hm)) k1 k1' k5
      (fun x a b => (h _).mpr (k5' x a b))
    rw [this]
  · rw [if_neg hu, if_neg (fun x => hu ((h _).mpr x))]

/-- `freshVar vars` is `_` if that is free, else the least `_N`, `N ≥ 2`, not in `vars`;
    in particular the fuel `vars.length + 1` always suffices -/
theorem freshVar_spec (vars : List Str) :
    freshVar vars ∉ vars ∧
    ((['_'] ∉ vars ∧ freshVar vars = ['_']) ∨
     (['_'] ∈ vars ∧ ∃ k, 2 ≤ k ∧ freshVar vars = cand k ∧ ∀ k', 2 ≤ k' → k' < k → cand k' ∈ vars)) := by
  unfold freshVar
  split
  · rename_i hu
    obtain ⟨j, j1, j2, j3⟩ := exists_cand_notMem vars 2
    obtain ⟨k, k1, _, k3, k4, k5⟩ := freshVarLoop_spec vars (vars.length + 1) 2 j j1 (by omega) j3
    rw [k3]
    exact ⟨k4, Or.inr ⟨hu, k, k1, rfl, k5⟩⟩
  · rename_i hu
    exact ⟨hu, Or.inl ⟨hu, rfl⟩⟩

theorem reify_congr (m : Model) (t : Triple) {vars vars' : List Str} (h : SameMembers vars vars') :
    m.reify t vars = m.reify t vars' := by
  simp only [Model.reify, freshVar_congr h]

/-! #### `attrVarLoop` (the shared counter of `reify_attributes`) -/

theorem attrVarLoop_spec (vars : List Str) :
    ∀ (f i j : Nat), i ≤ j → j < i + f → cand j ∉ vars →
      ∃ k, i ≤ k ∧ k ≤ j ∧ attrVarLoop vars f i = (cand k, k + 1) ∧ cand k ∉ vars ∧
        ∀ k', i ≤ k' → k' < k → cand k' ∈ vars
  | 0, i, j, h1, h2, _ => by omega
  | f+1, i, j, h1, h2, h3 => by
    by_cases hi : cand i ∈ vars
    · have hij : i ≠ j := by rintro rfl; exact h3 hi
      obtain ⟨k, k1, k2, k3, k4, k5⟩ := attrVarLoop_spec vars f (i+1) j (by omega) (by omega) h3
      refine ⟨k, by omega, k2, ?_, k4, ?_⟩
      · simp only [attrVarLoop]
        rw [if_pos (by simpa [cand] using hi)]
        exact k3
      · intro k' a b
        by_cases e : k' = i
        · subst e; exact hi
        · exact k5 k' (by omega) b
    · refine ⟨i, Nat.le_refl _, h1, ?_, hi, by intros; omega⟩
      simp only [attrVarLoop]
      rw [if_neg (by simpa [cand] using hi)]
      rfl

theorem attrVarLoop_congr {vars vars' : List Str} (h : SameMembers vars vars') (i : Nat) :
    attrVarLoop vars (vars.length + 1) i = attrVarLoop vars' (vars'.length + 1) i := by
  obtain ⟨j, j1, j2, j3⟩ := exists_cand_notMem vars i
  obtain ⟨j', j1', j2', j3'⟩ := exists_cand_notMem vars' i
  obtain ⟨k, k1, _, k3, k4, k5⟩ := attrVarLoop_spec vars (vars.length + 1) i j j1 (by omega) j3
  obtain ⟨k', k1', _, k3', k4', k5'⟩ :=
    attrVarLoop_spec vars' (vars'.length + 1) i j' j1' (by omega) j3'
  rw [k3, k3']
  have : k = k' := least_unique vars k4 (fun hm => k4' ((h _).mp hm)) k1 k1' k5
    (fun x a b => (h _).mpr (k5' x a b))
  rw [this]

/-! #### the two transformations with the enumeration of `g.variables()` as a parameter -/

/-- one iteration of the loop of `reify_edges` -/
def reifyStep (m : Model) (g : Graph) (st : RState) (t : Triple) : Except PyErr RState :=
  if m.isReifiable t.role then do
    let (inT, nodeT, outT) ← m.reify t st.vars
    let inv ← appearsInverted g t
    let (inT, outT) := if inv then (outT, inT) else (inT, outT)
    let var := nodeT.src
    let ep := st.epidata.set inT [.push var]
    let old := (AList.get? ep t).getD []
    let ep := ep.erase t
    let (nodeEpis, outEpis) := edgeMarkers old
    let ep := (ep.set nodeT nodeEpis).set outT outEpis
    pure { vars := var :: st.vars, epidata := ep, triples := outT :: nodeT :: inT :: st.triples }
  else pure { st with triples := t :: st.triples }

/-- `reify_edges(g, model)` with `vars = g.variables()` enumerated as `vars0` -/
def reifyEdgesWith (m : Model) (vars0 : List Str) (g : Graph) : Except PyErr Graph := do
  let st ← g.triples.foldlM (reifyStep m g) { vars := vars0, epidata := g.epidata, triples := [] }
  pure (Graph.mk' st.triples.reverse g.getTop st.epidata g.metadata)

theorem reifyEdges_eq_with (m : Model) (g : Graph) :
    reifyEdges m g = reifyEdgesWith m g.variables g := rfl

def RState.Rel (s s' : RState) : Prop :=
  SameMembers s.vars s'.vars ∧ s.epidata = s'.epidata ∧ s.triples = s'.triples

theorem reifyStep_rel (m : Model) (g : Graph) (s s' : RState) (t : Triple) (hr : RState.Rel s s') :
    ExceptRel RState.Rel (reifyStep m g s t) (reifyStep m g s' t) := by
  obtain ⟨v, e, ts⟩ := s
  obtain ⟨v', e', ts'⟩ := s'
  obtain ⟨hv, he, ht⟩ := hr
  simp only at hv he ht
  subst he ht
  unfold reifyStep
  by_cases hr : m.isReifiable t.role
  · simp only [hr, if_true, reify_congr m t hv]
    cases m.reify t v' with
    | error e => exact rfl
    | ok r =>
      obtain ⟨a, b, c⟩ := r
      cases appearsInverted g t with
      | error e => exact rfl
      | ok inv => exact ⟨SameMembers.cons hv _, rfl, rfl⟩
  · simp only [hr, Bool.false_eq_true, if_false]
    exact ⟨hv, rfl, rfl⟩

theorem reifyEdgesWith_congr (m : Model) {vars vars' : List Str} (h : SameMembers vars vars')
    (g : Graph) : reifyEdgesWith m vars g = reifyEdgesWith m vars' g := by
  unfold reifyEdgesWith
  apply ExceptRel.eq_of
  refine ExceptRel.bind (R := RState.Rel)
    (foldlM_rel RState.Rel _ _ (reifyStep_rel m g) g.triples _ _ ⟨h, rfl, rfl⟩) ?_
  rintro ⟨v, e, ts⟩ ⟨v', e', ts'⟩ ⟨_, he, ht⟩
  simp only at he ht
  subst he ht
  exact rfl

/-- one iteration of the loop of `reify_attributes` -/
def attrStep (acc : List Str × Nat × Epidata × List Triple) (t : Triple) :
    List Str × Nat × Epidata × List Triple :=
  let (vars, i, ep, ts) := acc
  if t.role ≠ CONCEPT_ROLE ∧ !atomInVars vars t.tgt then
    let (var, i') := if ['_'] ∈ vars then attrVarLoop vars (vars.length + 1) i else (['_'], i)
    let roleT : Triple := ⟨t.src, t.role, .str var⟩
    let nodeT : Triple := ⟨var, CONCEPT_ROLE, t.tgt⟩
    let old := (AList.get? ep t).getD []
    let ep := ep.erase t
    let (roleEpis, nodeEpis) := attrMarkers old
    let ep := (ep.set roleT (roleEpis ++ [.push var])).set nodeT (nodeEpis ++ [.pop])
    (var :: vars, i', ep, nodeT :: roleT :: ts)
  else (vars, i, ep, t :: ts)

/-- `reify_attributes(g)` with `variables = g.variables()` enumerated as `vars0` -/
def reifyAttributesWith (vars0 : List Str) (g : Graph) : Graph :=
  let (_, _, ep, ts) := g.triples.foldl attrStep (vars0, 2, g.epidata, [])
  Graph.mk' ts.reverse g.getTop ep g.metadata

theorem reifyAttributes_eq_with (g : Graph) :
    reifyAttributes g = reifyAttributesWith g.variables g := rfl

def AttrRel (s s' : List Str × Nat × Epidata × List Triple) : Prop :=
  SameMembers s.1 s'.1 ∧ s.2 = s'.2

theorem attrStep_rel (s s' : List Str × Nat × Epidata × List Triple) (t : Triple)
    (hr : AttrRel s s') : AttrRel (attrStep s t) (attrStep s' t) := by
  obtain ⟨v, i, e, ts⟩ := s
  obtain ⟨v', i', e', ts'⟩ := s'
  obtain ⟨hv, he⟩ := hr
  simp only [Prod.mk.injEq] at hv he
  obtain ⟨rfl, rfl, rfl⟩ := he
  unfold attrStep
  simp only [atomInVars_congr hv, attrVarLoop_congr hv]
  by_cases hu : ['_'] ∈ v
  · have hu' := (hv _).mp hu
    simp only [hu, hu', if_true]
    split
    · exact ⟨SameMembers.cons hv _, rfl⟩
    · exact ⟨hv, rfl⟩
  · have hu' : ['_'] ∉ v' := fun x => hu ((hv _).mpr x)
    simp only [hu, hu', if_false]
    split
    · exact ⟨SameMembers.cons hv _, rfl⟩
    · exact ⟨hv, rfl⟩

theorem reifyAttributesWith_congr {vars vars' : List Str} (h : SameMembers vars vars')
    (g : Graph) : reifyAttributesWith vars g = reifyAttributesWith vars' g := by
  unfold reifyAttributesWith
  have key := foldl_rel AttrRel attrStep attrStep attrStep_rel g.triples
    (vars, 2, g.epidata, []) (vars', 2, g.epidata, []) ⟨h, rfl⟩
  obtain ⟨_, h2⟩ := key
  simp only [h2]

/-! ### 7. other consumers that only test membership: `rearrange`, `node_contexts` -/

theorem branchTargetInVars_congr {vars vars' : List Str} (h : SameMembers vars vars') (t : Tgt) :
    branchTargetInVars vars t = branchTargetInVars vars' t := by
  cases t with
  | atom a => cases a <;> simp [branchTargetInVars, h _]
  | node n =>
    simp only [branchTargetInVars]
    cases n.var <;> simp [h _]

theorem sortBranches_congr (m : Model) {vars vars' : List Str} (h : SameMembers vars vars')
    (key : Option (List KeyFn)) (bs : List Branch) :
    sortBranches m vars key bs = sortBranches m vars' key bs := by
  simp only [sortBranches, branchKey, branchTargetInVars_congr h]

mutual
theorem rearrangeNode_congr (m : Model) {vars vars' : List Str} (h : SameMembers vars vars')
    (key : Option (List KeyFn)) :
    ∀ n : Node, rearrangeNode m vars key n = rearrangeNode m vars' key n
  | .mk v .nil => by simp [rearrangeNode]
  | .mk v (.atom r a rest) => by
    simp only [rearrangeNode, sortBranches_congr m h, rearrangeKids_congr m h key rest]
  | .mk v (.sub r n rest) => by
    simp only [rearrangeNode, sortBranches_congr m h, rearrangeKids_congr m h key rest,
      rearrangeNode_congr m h key n]
theorem rearrangeKids_congr (m : Model) {vars vars' : List Str} (h : SameMembers vars vars')
    (key : Option (List KeyFn)) :
    ∀ bs : Branches, rearrangeKids m vars key bs = rearrangeKids m vars' key bs
  | .nil => by simp [rearrangeKids]
  | .atom r a rest => by simp only [rearrangeKids, rearrangeKids_congr m h key rest]
  | .sub r n rest => by
    simp only [rearrangeKids, rearrangeKids_congr m h key rest, rearrangeNode_congr m h key n]
end

/-- `rearrange(t, key, attributes_first)` with `variables = {node[0] for node in t.nodes()}`
    enumerated as `vars0` -/
def rearrangeWith (m : Model) (vars0 : List Str) (key : Option (List KeyFn)) (attributesFirst : Bool)
    (t : Tree) : Tree :=
  let vars := if attributesFirst then vars0 else []
  { t with node := rearrangeNode m vars key t.node }

theorem rearrange_eq_with (m : Model) (key : Option (List KeyFn)) (af : Bool) (t : Tree) :
    rearrange m key af t = rearrangeWith m t.node.vars key af t := rfl

theorem rearrangeWith_congr (m : Model) {vars vars' : List Str} (h : SameMembers vars vars')
    (key : Option (List KeyFn)) (af : Bool) (t : Tree) :
    rearrangeWith m vars key af t = rearrangeWith m vars' key af t := by
  unfold rearrangeWith
  cases af
  · rfl
  · simp only [if_true, rearrangeNode_congr m h]

theorem nodeContextsLoop_congr (g : Graph) {vars vars' : List Str} (h : SameMembers vars vars') :
    ∀ (ts : List Triple) (stack : List (Option Str)),
      nodeContextsLoop g vars ts stack = nodeContextsLoop g vars' ts stack
  | [], _ => by simp [nodeContextsLoop]
  | _ :: _, [] => by simp [nodeContextsLoop]
  | t :: rest, top :: stack => by
    simp only [nodeContextsLoop, h _, nodeContextsLoop_congr g h rest]

/-! ### `sorted(...)`: the result is a function of the multiset -/

theorem strLt_irrefl : ∀ a : Str, strLt a a = false
  | [] => rfl
  | c :: cs => by simp [strLt, Char.lt_irrefl, strLt_irrefl cs]

theorem strLt_trichotomy : ∀ a b : Str, strLt a b = false → strLt b a = false → a = b
  | [], [], _, _ => rfl
  | [], _ :: _, h, _ => by simp [strLt] at h
  | _ :: _, [], _, h => by simp [strLt] at h
  | a :: as, b :: bs, h1, h2 => by
    simp only [strLt] at h1 h2
    by_cases hab : a < b
    · simp [hab] at h1
    · by_cases hba : b < a
      · simp [hba] at h2
      · simp only [hab, hba, if_false] at h1 h2
        have : a = b := Char.le_antisymm (Char.not_lt.mp hba) (Char.not_lt.mp hab)
        rw [this, strLt_trichotomy as bs h1 h2]

theorem strLt_trans : ∀ a b c : Str, strLt a b = true → strLt b c = true → strLt a c = true
  | [], [], _, h, _ => by simp [strLt] at h
  | [], _ :: _, [], _, h => by simp [strLt] at h
  | [], _ :: _, _ :: _, _, _ => rfl
  | _ :: _, [], _, h, _ => by simp [strLt] at h
  | _ :: _, _ :: _, [], _, h => by simp [strLt] at h
  | a :: as, b :: bs, c :: cs, h1, h2 => by
    simp only [strLt] at h1 h2 ⊢
    by_cases hab : a < b
    · by_cases hbc : b < c
      · simp [Char.lt_trans hab hbc]
      · by_cases hcb : c < b
        · simp [hbc, hcb] at h2
        · have : b = c := Char.le_antisymm (Char.not_lt.mp hcb) (Char.not_lt.mp hbc)
          subst this; simp [hab]
    · by_cases hba : b < a
      · simp [hab, hba] at h1
      · have e : a = b := Char.le_antisymm (Char.not_lt.mp hba) (Char.not_lt.mp hab)
        subst e
        simp only [hab, if_false] at h1
        by_cases hac : a < c
        · simp [hac]
        · by_cases hca : c < a
          · simp [hac, hca] at h2
          · simp only [hac, hca, if_false] at h2 ⊢
            exact strLt_trans as bs cs h1 h2

theorem strLt_asymm (a b : Str) (h : strLt a b = true) : strLt b a = false := by
  cases h' : strLt b a with
  | false => rfl
  | true => have := strLt_trans a b a h h'; rw [strLt_irrefl] at this; cases this

/-- the comparison handed to `mergeSort` by `sortStrs` -/
def strLe (a b : Str) : Bool := !strLt b a

theorem strLe_total (a b : Str) : (strLe a b || strLe b a) = true := by
  simp only [strLe]
  cases h : strLt b a with
  | false => simp
  | true => simp [strLt_asymm b a h]

theorem strLe_trans (a b c : Str) (h1 : strLe a b = true) (h2 : strLe b c = true) :
    strLe a c = true := by
  simp only [strLe, Bool.not_eq_true'] at *
  cases h : strLt c a with
  | false => rfl
  | true =>
    -- c < a, ¬ b < a, ¬ c < b : either a = b or a < b
    cases hab : strLt a b with
    | true => have := strLt_trans c a b h hab; rw [h2] at this; cases this
    | false =>
      have e : a = b := strLt_trichotomy a b hab h1
      subst e; rw [h2] at h; cases h

theorem strLe_antisymm (a b : Str) (h1 : strLe a b = true) (h2 : strLe b a = true) : a = b := by
  simp only [strLe, Bool.not_eq_true'] at *
  exact strLt_trichotomy a b h2 h1

/-- `sorted(s)` does not depend on the iteration order of the set `s` -/
theorem sortStrs_perm {l l' : List Str} (h : l.Perm l') : sortStrs l = sortStrs l' := by
  unfold sortStrs
  have p : (l.mergeSort fun a b => !strLt b a).Perm (l'.mergeSort fun a b => !strLt b a) :=
    (List.mergeSort_perm _ _).trans (h.trans (List.mergeSort_perm _ _).symm)
  have s1 := List.pairwise_mergeSort (le := fun a b => !strLt b a)
    (fun a b c => strLe_trans a b c) (fun a b => strLe_total a b) l
  have s2 := List.pairwise_mergeSort (le := fun a b => !strLt b a)
    (fun a b c => strLe_trans a b c) (fun a b => strLe_total a b) l'
  exact List.Perm.eq_of_pairwise (le := fun a b => (!strLt b a) = true)
    (fun a b _ _ h1 h2 => strLe_antisymm a b h1 h2) s1 s2 p

end Penman.OrderIndep

/-
  Penman.Spec.AlignTextOK — character-level well-formedness of a graph WITH surface alignments
  (hypothesis of `C03al_text`): `GraphTextOK` (Spec/EncodeText.lean) plus
  * every alignment marker prints to an ALIGNMENT text of the lexer tables;
  * triples with the same DECODED WRITTEN form carry the same alignments (`AlignOK.agree` compares
    triples as they are; in text a number and the string spelled like it are the same constant).
-/
import Penman.Spec.AlignOK
import Penman.Spec.EncodeText
namespace Penman
namespace C03Text
open Penman.Spec Penman.Cfg

structure GraphTextOKal (cfg : LexCfg) (isSpace : Char → Bool) (m : Model) (g : Graph) : Prop where
  /-- the alignment-free conditions of `C03_text` -/
  base : GraphTextOK cfg isSpace m g
  /-- `str(marker)` is an ALIGNMENT token text (`~`, optional letter, optional `.`, digits, `,digits`…) -/
  markers : ∀ t ∈ g.triples, ∀ e ∈ episOf g t, e.mode ≠ 0 → alignmentB cfg e.toStr = true
  /-- triples that are read back as the same triple — constants compared by their written form —
      carry the same alignments (decoding keeps the markers of the first written occurrence) -/
  agreeW : ∀ t ∈ g.triples, ∀ t' ∈ g.triples,
      deinvert1 m g (writtenTriple t) = deinvert1 m g (writtenTriple t') →
      roleAlnOf g t = roleAlnOf g t' ∧ tgtAlnOf g t = tgtAlnOf g t'

instance (cfg : LexCfg) (isSpace : Char → Bool) (m : Model) (g : Graph) :
    Decidable (GraphTextOKal cfg isSpace m g) :=
  decidable_of_iff
    (GraphTextOK cfg isSpace m g ∧
     (∀ t ∈ g.triples, ∀ e ∈ episOf g t, e.mode ≠ 0 → alignmentB cfg e.toStr = true) ∧
     (∀ t ∈ g.triples, ∀ t' ∈ g.triples,
        deinvert1 m g (writtenTriple t) = deinvert1 m g (writtenTriple t') →
        roleAlnOf g t = roleAlnOf g t' ∧ tgtAlnOf g t = tgtAlnOf g t'))
    ⟨fun ⟨a, b, c⟩ => ⟨a, b, c⟩, fun ⟨a, b, c⟩ => ⟨a, b, c⟩⟩

end C03Text
end Penman

import Penman.Proofs.Reconfigure
/-!
# C05b — "Re-layout operations never change the graph": the reconfigure and new-top clauses

(The rearrange clauses are `Penman.Props.C05a`.) Everything here is a COROLLARY of the finished
`configure`/`interpret` development: `C03`, `C03_tree` (`Penman/Props/C03.lean`). Nothing of it is
re-proved; what is proved here is that the graph `reconfigure` hands to `configure` is a *re-layout* of
the original and that every hypothesis and conclusion of C03 is invariant under re-layout.

Model function: `Layout.reconfigure m g top key` = resolve the top on `g` (`topOf g top`: the requested
one, else `g.getTop` — fix F21), strip every layout marker, stably sort `g.triples` by `kvLe` on
`evalKeys m ks role` (`key = some ks`) or keep the order (`key = none`), then `configure` from that top.
Vocabulary: `Penman/Spec/Reconfigure.lean` (`prep`, `Relayout`, `Connected`, `tripleLe`),
`Penman/Spec/Encode.lean` (`WfGraph`, `NoNum`, `deinvert1`), `Penman/Spec/Configure.lean`
(`Reach`, `PushVars`, `PushSrcOK`, `topOf`). Lemmas: `Penman/Proofs/Reconfigure.lean`.

Clause of the property text ↦ theorem(s)

* *"Reconfiguring a graph under any triple-ordering key … leaves the graph's content unchanged (same
  variables and triples up to deinversion; same top)"* ↦ `reconfigure_graph` (graph level:
  `interpret (reconfigure g top key)`, for EVERY key list `ks : List KeyFn` and for `none`, for
  decoded and hand-built graphs, explicit or implicit top; no hypothesis on the layout markers of
  `g`: they are discarded) and `reconfigure_tree` (the tree itself, numbers allowed). What
  `reconfigure` does before `configure` ↦ `reconfigure_prep`.
  The random key of the command line is a permutation of the triples decided outside the model;
  the theorems `relayout_graph`/`relayout_tree` (Proofs file) hold for ANY permutation of the triples.
* *"same top for reconfigure"* ↦ `reconfigure_graph`/`reconfigure_tree`: the top is `topOf g top`,
  resolved on the ORIGINAL triple order. History: before fix F21 the implicit top (source of the
  first triple) was resolved AFTER sorting, and
  `Graph([('a',':instance','x'),('a',':z','b'),('b',':instance','y'),('b',':a','c')])` reconfigured
  under `alphanumeric_order` came out with top `b`; `Examples.reconfigure_implicit_top_kept` shows the
  repaired behaviour on exactly this graph (top `a`, although `(b :a c)` is now the first triple —
  `Examples.gI_sorted_first`).
* *"choosing a new top … leaves the graph's content unchanged"*, quantifier *"every variable as new
  top"* ↦ `new_top_graph`, `new_top_tree` (`configure g (some v)` for every variable `v` of a weakly
  connected graph), `reconfigure_new_top` (the same through `reconfigure`, any key);
  connectivity from one variable is connectivity from every variable ↦ `reach_symm`, `reach_trans`,
  `connected_of_reach`.
* (optional) the order handed to `configure` is sorted by the key and the sort is stable ↦
  `reconfigure_sorted`. NOT proved: how the branch order of the configured tree follows that order
  (it does only where the layout allows; no statement is made).

Hypotheses are those of C03 (`ModelWf m`, `m.noop = false`, `WfGraph m g`, `NoNum g` at graph level,
`topOf g top = some t`, `t ∈ g.variables`, connectivity), MINUS `PushVars g`/`PushSrcOK g` for
`reconfigure` (markers are stripped). Nothing is left UNPROVED (stated); no clause is false of the
(repaired) model.
-/
namespace Penman
namespace C05b
open Cfg Recfg

/-! ## what `reconfigure` does before `configure` -/

/-- `reconfigure` is `configure` (from the top resolved on `g`) on a graph with the same triples in
    another order, the same top
    and metadata, the same variables, no `Push`/`POP` left (so the marker hypotheses of C03/C06 hold
    trivially), well-formed iff `g` is, with the same connectivity and the same `deinvert1`. -/
theorem reconfigure_prep (m : Model) (g : Graph) (key : Option (List KeyFn)) :
    (∀ top, reconfigure m g top key = configure m (prep m g key) (topOf g top)) ∧
    (prep m g key).triples.Perm g.triples ∧ (prep m g key).top = g.top ∧
    (prep m g key).metadata = g.metadata ∧
    (∀ x, x ∈ (prep m g key).variables ↔ x ∈ g.variables) ∧
    (∀ t, ∀ e ∈ (AList.get? (prep m g key).epidata t).getD [], e.isLayout = false) ∧
    PushVars (prep m g key) ∧ PushSrcOK (prep m g key) ∧
    (WfGraph m (prep m g key) ↔ WfGraph m g) ∧ (NoNum (prep m g key) ↔ NoNum g) ∧
    (∀ t v, Reach (prep m g key) t v ↔ Reach g t v) ∧
    deinvert1 m (prep m g key) = deinvert1 m g :=
  have h := prep_relayout m g key
  ⟨fun top => reconfigure_eq m g top key, h.perm, h.top, h.metadata, h.variables, h.no_layout,
    h.pushVars, h.pushSrcOK, h.wfGraph m, h.noNum, h.reach, h.deinvert1_eq m⟩

/-- every graph returned by `interpret` carries an explicit top (so for decoded graphs the top
    never depended on the triple order, even before fix F21) -/
theorem decoded_top_explicit {isAlpha : Char → Bool} {m : Model} {T : Tree} {g : Graph}
    (h : interpret isAlpha m T = .ok g) : g.top.isSome = true :=
  interpret_top_explicit h

/-! ## connectivity does not depend on the starting variable -/

theorem reach_symm {g : Graph} {a b : Str} (h : Reach g a b) : Reach g b a := Reach.symm' h

theorem reach_trans {g : Graph} {a b c : Str} (h1 : Reach g a b) (h2 : Reach g b c) : Reach g a c :=
  Reach.trans' h1 h2

/-- everything reachable from ONE variable ⇒ everything reachable from EVERY variable -/
theorem connected_of_reach {g : Graph} {t : Str} (h : ∀ v ∈ g.variables, Reach g t v) : Connected g :=
  Recfg.connected_of_reach h

/-! ## reconfigure -/

/-- **reconfigure, graph level.** For every key (a list of key functions, or `none`):
    `interpret (reconfigure g top key)` has the top, the variables and — up to one deinversion — the
    triples of `g`. No hypothesis on the layout markers of `g`, none on how the top is given. -/
theorem reconfigure_graph (isAlpha : Char → Bool) {m : Model} {g : Graph} {top : Option Str} {t : Str}
    (hw : ModelWf m) (hnoop : m.noop = false) (hg : WfGraph m g) (hnum : NoNum g)
    (ht : topOf g top = some t) (htv : t ∈ g.variables) (hreach : ∀ v ∈ g.variables, Reach g t v)
    (key : Option (List KeyFn)) :
    ∃ T g', reconfigure m g top key = .ok T ∧ interpret isAlpha m T = .ok g' ∧
      g'.getTop = some t ∧ (∀ x, x ∈ g'.variables ↔ x ∈ g.variables) ∧
      (g'.triples.map (deinvert1 m g)).Perm (g.triples.map (deinvert1 m g)) ∧
      (∀ x ∈ g'.triples, ∃ t0 ∈ g.triples, x = t0 ∨ x = m.invert t0) := by
  rw [reconfigure_eq, ht]
  exact relayout_graph isAlpha (top := some t) (prep_relayout m g key) hw hnoop hg hnum rfl htv
    (connected_of_reach hreach)

/-- **reconfigure, tree level** (numbers allowed): the tree has the top, one node per variable and
    writes exactly the non-null triples of `g`, each as it is or inverted once. -/
theorem reconfigure_tree {m : Model} {g : Graph} {top : Option Str} {t : Str}
    (hw : ModelWf m) (hg : WfGraph m g)
    (ht : topOf g top = some t) (htv : t ∈ g.variables) (hreach : ∀ v ∈ g.variables, Reach g t v)
    (key : Option (List KeyFn)) :
    ∃ T, reconfigure m g top key = .ok T ∧ T.metadata = g.metadata ∧ T.node.var = some t ∧
      (∀ x, x ∈ T.node.vars ↔ x ∈ g.variables) ∧ T.node.vars.Nodup ∧
      (T.node.edgeTriples.map (deinvert1 m g)).Perm
        ((g.triples.filter (fun x => !nullB x)).map (deinvert1 m g)) ∧
      ∀ x ∈ T.node.edgeTriples, ∃ t0 ∈ g.triples,
        x = t0 ∨ (x = m.invert t0 ∧ (∃ b, t0.tgt = .str b) ∧ t0.role ≠ CONCEPT_ROLE) := by
  rw [reconfigure_eq, ht]
  exact relayout_tree (top := some t) (prep_relayout m g key) hw hg rfl htv (connected_of_reach hreach)

/-! ## a new top -/

/-- **new top, graph level**: `C03` for every variable of a weakly connected graph. -/
theorem new_top_graph (isAlpha : Char → Bool) {m : Model} {g : Graph} {t : Str}
    (hw : ModelWf m) (hnoop : m.noop = false) (hg : WfGraph m g) (hnum : NoNum g)
    (hpv : PushVars g) (hps : PushSrcOK g) (hreach : ∀ v ∈ g.variables, Reach g t v) :
    ∀ v ∈ g.variables, ∃ T g', configure m g (some v) = .ok T ∧ interpret isAlpha m T = .ok g' ∧
      g'.getTop = some v ∧ (∀ x, x ∈ g'.variables ↔ x ∈ g.variables) ∧
      (g'.triples.map (deinvert1 m g)).Perm (g.triples.map (deinvert1 m g)) ∧
      (∀ x ∈ g'.triples, ∃ t0 ∈ g.triples, x = t0 ∨ x = m.invert t0) :=
  fun v hv => C03 isAlpha (top := some v) hw hnoop hg hnum hpv hps rfl hv (connected_of_reach hreach v hv)

/-- **new top, tree level** (numbers allowed). -/
theorem new_top_tree {m : Model} {g : Graph} {t : Str}
    (hw : ModelWf m) (hg : WfGraph m g) (hpv : PushVars g) (hps : PushSrcOK g)
    (hreach : ∀ v ∈ g.variables, Reach g t v) :
    ∀ v ∈ g.variables, ∃ T, configure m g (some v) = .ok T ∧ T.metadata = g.metadata ∧
      T.node.var = some v ∧ (∀ x, x ∈ T.node.vars ↔ x ∈ g.variables) ∧ T.node.vars.Nodup ∧
      (T.node.edgeTriples.map (deinvert1 m g)).Perm
        ((g.triples.filter (fun x => !nullB x)).map (deinvert1 m g)) ∧
      ∀ x ∈ T.node.edgeTriples, ∃ t0 ∈ g.triples,
        x = t0 ∨ (x = m.invert t0 ∧ (∃ b, t0.tgt = .str b) ∧ t0.role ≠ CONCEPT_ROLE) :=
  fun v hv => C03_tree (top := some v) hw hg hpv hps rfl hv (connected_of_reach hreach v hv)

/-- **new top through `reconfigure`**: every variable, every key, no hypothesis on markers. -/
theorem reconfigure_new_top (isAlpha : Char → Bool) {m : Model} {g : Graph} {t : Str}
    (hw : ModelWf m) (hnoop : m.noop = false) (hg : WfGraph m g) (hnum : NoNum g)
    (hreach : ∀ v ∈ g.variables, Reach g t v) (key : Option (List KeyFn)) :
    ∀ v ∈ g.variables, ∃ T g', reconfigure m g (some v) key = .ok T ∧ interpret isAlpha m T = .ok g' ∧
      g'.getTop = some v ∧ (∀ x, x ∈ g'.variables ↔ x ∈ g.variables) ∧
      (g'.triples.map (deinvert1 m g)).Perm (g.triples.map (deinvert1 m g)) ∧
      (∀ x ∈ g'.triples, ∃ t0 ∈ g.triples, x = t0 ∨ x = m.invert t0) :=
  fun v hv => reconfigure_graph isAlpha (top := some v) hw hnoop hg hnum rfl hv
    (connected_of_reach hreach v hv) key

/-! ## the order handed to `configure` -/

/-- the triples `configure` receives are sorted by the role key, and the sort is stable: every
    already sorted sub-list of `g.triples` keeps its order; `none` keeps the order -/
theorem reconfigure_sorted (m : Model) (g : Graph) (ks : List KeyFn) :
    (prep m g (some ks)).triples.Pairwise (fun a b => tripleLe m ks a b = true) ∧
    (∀ ys : List Triple, ys.Pairwise (fun a b => tripleLe m ks a b = true) → ys.Sublist g.triples →
      ys.Sublist (prep m g (some ks)).triples) ∧
    (prep m g none).triples = g.triples :=
  ⟨sortTriples_pairwise m g.triples ks, fun _ hp hs => sortTriples_sublist m ks hp hs, rfl⟩

/-! ## non-vacuity -/

namespace Examples
open C03Examples

/-- `(b / bark-01 :ARG0 (d / dog :ARG1-of b :poss (o / owner :url "http://x/~u")) :mod-of 7)` -/
def tM : Tree :=
  { node := .mk (some "b".toList) (.atom "/".toList (S "bark-01")
      (.sub ":ARG0".toList (.mk (some "d".toList) (.atom "/".toList (S "dog")
          (.atom ":ARG1-of".toList (S "b")
          (.sub ":poss".toList (.mk (some "o".toList) (.atom "/".toList (S "owner")
              (.atom ":url".toList (S "\"http://x/~u\"") .nil))) .nil))))
      (.atom ":mod-of".toList (S "7") .nil))),
    metadata := [("id".toList, "1".toList)] }

/-- the graph `interpret` returns for `tM`: explicit top, `Push`/`POP` markers three levels deep, a
    re-entrancy, a deinverted edge, an inverted attribute, a `~` inside a quoted string -/
def gM : Graph :=
  { triples := [T "b" ":instance" (S "bark-01"), T "b" ":ARG0" (S "d"), T "d" ":instance" (S "dog"),
                T "b" ":ARG1" (S "d"), T "d" ":poss" (S "o"), T "o" ":instance" (S "owner"),
                T "o" ":url" (S "\"http://x/~u\""), T "b" ":mod-of" (S "7")],
    top := some "b".toList,
    epidata := [(T "b" ":instance" (S "bark-01"), []), (T "b" ":ARG0" (S "d"), [.push "d".toList]),
                (T "d" ":instance" (S "dog"), []), (T "b" ":ARG1" (S "d"), []),
                (T "d" ":poss" (S "o"), [.push "o".toList]), (T "o" ":instance" (S "owner"), []),
                (T "o" ":url" (S "\"http://x/~u\""), [.pop, .pop]), (T "b" ":mod-of" (S "7"), [])],
    metadata := [("id".toList, "1".toList)] }

/-- `gM` really is a decoded graph -/
example : ∃ g, interpret isAsciiAlpha Generated.defaultModel tM = .ok g ∧ g.triples = gM.triples ∧
    g.top = gM.top ∧ g.epidata = gM.epidata ∧ g.metadata = gM.metadata :=
  ⟨_, rfl, by decide, by decide, by decide, by decide⟩

example : WfGraph Generated.defaultModel gM := by decide
example : NoNum gM := by decide
example : gM.variables = ["b".toList, "d".toList, "o".toList] := by decide

theorem gM_conn : ∀ v ∈ gM.variables, Reach gM "b".toList v := by
  have hv : gM.variables = ["b".toList, "d".toList, "o".toList] := by decide
  have a1 : Adj gM "b".toList "d".toList :=
    ⟨T "b" ":ARG0" (S "d"), by decide, by decide, by decide, by decide, Or.inl ⟨rfl, rfl⟩⟩
  have a2 : Adj gM "d".toList "o".toList :=
    ⟨T "d" ":poss" (S "o"), by decide, by decide, by decide, by decide, Or.inl ⟨rfl, rfl⟩⟩
  intro v hvm
  rw [hv] at hvm
  simp only [List.mem_cons, List.mem_nil_iff, or_false] at hvm
  rcases hvm with rfl | rfl | rfl
  · exact Reach.refl
  · exact Reach.step Reach.refl a1
  · exact Reach.step (Reach.step Reach.refl a1) a2

/-- `reconfigure_graph` applies to the decoded graph `gM` (markers and all) for the keys
    `[canonical]`, `[alphanumeric]`, `none` (and any other) -/
example (key : Option (List KeyFn))
    (_ : key = some [.canonical] ∨ key = some [.alphanumeric] ∨ key = none) :
    ∃ T g', reconfigure Generated.defaultModel gM none key = .ok T ∧
      interpret isAsciiAlpha Generated.defaultModel T = .ok g' ∧ g'.getTop = some "b".toList ∧
      (∀ x, x ∈ g'.variables ↔ x ∈ gM.variables) ∧
      (g'.triples.map (deinvert1 Generated.defaultModel gM)).Perm
        (gM.triples.map (deinvert1 Generated.defaultModel gM)) := by
  obtain ⟨T, g', h1, h2, h3, h4, h5, _⟩ :=
    reconfigure_graph isAsciiAlpha (top := none) C13.modelWf_default (by decide) (by decide) (by decide)
      (by decide) (by decide) gM_conn key
  exact ⟨T, g', h1, h2, h3, h4, h5⟩

/-- `reconfigure_tree` applies to `gM` (also under the AMR model) -/
example (key : Option (List KeyFn)) :
    ∃ T, reconfigure Generated.amrModel gM none key = .ok T ∧ T.node.var = some "b".toList ∧
      T.metadata = [("id".toList, "1".toList)] := by
  obtain ⟨T, h1, h2, h3, _⟩ :=
    reconfigure_tree (top := none) (t := "b".toList) C13.modelWf_amr (by decide +kernel) (by decide) (by decide)
      gM_conn key
  exact ⟨T, h1, h3, h2⟩

/-- `reconfigure_new_top` / `new_top_graph` apply to `gM` for each of its three variables -/
example (key : Option (List KeyFn)) (v : Str) (hv : v ∈ gM.variables) :
    ∃ T g', reconfigure Generated.defaultModel gM (some v) key = .ok T ∧
      interpret isAsciiAlpha Generated.defaultModel T = .ok g' ∧ g'.getTop = some v := by
  obtain ⟨T, g', h1, h2, h3, _⟩ :=
    reconfigure_new_top isAsciiAlpha C13.modelWf_default (by decide) (by decide) (by decide) gM_conn key v hv
  exact ⟨T, g', h1, h2, h3⟩

example : PushVars gM ∧ PushSrcOK gM := by decide

example (v : Str) (hv : v ∈ gM.variables) :
    ∃ T g', configure Generated.defaultModel gM (some v) = .ok T ∧
      interpret isAsciiAlpha Generated.defaultModel T = .ok g' ∧ g'.getTop = some v := by
  obtain ⟨T, g', h1, h2, h3, _⟩ :=
    new_top_graph isAsciiAlpha C13.modelWf_default (by decide) (by decide) (by decide) (by decide) (by decide)
      gM_conn v hv
  exact ⟨T, g', h1, h2, h3⟩

/-- `reconfigure_sorted`: `:ARG0` sorts before `:instance` under the alphanumeric key, and a sorted
    pair keeps its order -/
example : tripleLe Generated.defaultModel [.alphanumeric] (T "b" ":ARG0" (S "d")) (T "b" ":instance" (S "bark-01")) = true ∧
    [T "b" ":ARG0" (S "d"), T "b" ":ARG1" (S "d")].Sublist (prep Generated.defaultModel gM (some [.alphanumeric])).triples :=
  ⟨by decide, (reconfigure_sorted _ gM _).2.1 _ (by decide) (by decide)⟩

/-! ### a hand-built graph with an implicit top: the top survives the sort (fix F21) -/

/-- hand-built, no explicit top: `(a / x :z (b / y :a c))` -/
def gI : Graph :=
  { triples := [T "a" ":instance" (S "x"), T "a" ":z" (S "b"), T "b" ":instance" (S "y"), T "b" ":a" (S "c")] }

theorem gI_conn : ∀ v ∈ gI.variables, Reach gI "a".toList v := by
  have hv : gI.variables = ["a".toList, "b".toList] := by decide
  have a1 : Adj gI "a".toList "b".toList :=
    ⟨T "a" ":z" (S "b"), by decide, by decide, by decide, by decide, Or.inl ⟨rfl, rfl⟩⟩
  intro v hvm
  rw [hv] at hvm
  simp only [List.mem_cons, List.mem_nil_iff, or_false] at hvm
  rcases hvm with rfl | rfl
  · exact Reach.refl
  · exact Reach.step Reach.refl a1

/-- under the alphanumeric key `(b :a c)` comes first: the implicit top of the SORTED graph is `b`
    (what `reconfigure` used before fix F21) -/
theorem gI_sorted_first : (prep Generated.defaultModel gI (some [.alphanumeric])).getTop = some "b".toList := by
  have h := sortTriples_head_of_min Generated.defaultModel [.alphanumeric] (ts := gI.triples)
    (x := T "b" ":a" (S "c")) (by decide) (by decide)
  rw [prep_getTop_implicit _ _ rfl, h]
  rfl

/-- **the implicit top is kept**: `gI` has no explicit top and its triples are re-ordered (another
    source comes first), yet `reconfigure gI none [alphanumeric]` has top `a = gI.getTop`. -/
theorem reconfigure_implicit_top_kept :
    gI.top = none ∧ topOf gI none = some "a".toList ∧
    (prep Generated.defaultModel gI (some [.alphanumeric])).getTop = some "b".toList ∧
    ∃ T g', reconfigure Generated.defaultModel gI none (some [.alphanumeric]) = .ok T ∧
      interpret isAsciiAlpha Generated.defaultModel T = .ok g' ∧ g'.getTop = some "a".toList ∧
      (∀ x, x ∈ g'.variables ↔ x ∈ gI.variables) ∧
      (g'.triples.map (deinvert1 Generated.defaultModel gI)).Perm
        (gI.triples.map (deinvert1 Generated.defaultModel gI)) := by
  refine ⟨rfl, by decide, gI_sorted_first, ?_⟩
  obtain ⟨T, g', h1, h2, h3, h4, h5, _⟩ :=
    reconfigure_graph isAsciiAlpha (top := none) (t := "a".toList) C13.modelWf_default (by decide)
      (by decide) (by decide) (by decide) (by decide) gI_conn (some [.alphanumeric])
  exact ⟨T, g', h1, h2, h3, h4, h5⟩

end Examples
end C05b
end Penman

/-
  Triple conjunctions: `parseTriplesLoop` as an iteration of a one-triple
  step; totality, fuel irrelevance, and the round trip for the spacing
  variants of `role(src, tgt) ^ role(…`.
-/
import Penman.Parse
namespace Penman

/-- one round of `_parse_triples` : the triple read and how to go on
    (`none` : stop; `some (strip, rest)` : another triple follows) -/
def tripleStep (c : PCtx) (stripCaret : Bool) (toks : List Tok) :
    Except PyErr (Triple × Option (Bool × List Tok)) := do
  let (rt, ts1) ← expectTy c .SYMBOL toks
  let role := if stripCaret && startsWith ['^'] rt.text then rt.text.drop 1 else rt.text
  let role := if startsWith [':'] role then role else ':' :: role
  let (_, ts2) ← expectTy c .LPAREN ts1
  let (sym, ts3) ← expectTy c .SYMBOL ts2
  let (source, target, ts4) ← parseTriple sym ts3
  let (_, ts5) ← expectTy c .RPAREN ts4
  match ts5 with
  | [] => pure (⟨source, role, target⟩, none)
  | n :: ts6 =>
    if n.ty ≠ .SYMBOL || !startsWith ['^'] n.text then pure (⟨source, role, target⟩, none)
    else if n.text = ['^'] then pure (⟨source, role, target⟩, some (false, ts6))
    else pure (⟨source, role, target⟩, some (true, n :: ts6))

theorem parseTriplesLoop_succ (c : PCtx) (f : Nat) (strip : Bool) (toks : List Tok) (acc : List Triple) :
    parseTriplesLoop c (f+1) strip toks acc =
      match tripleStep c strip toks with
      | .error e => .error e
      | .ok (tr, none) => .ok (tr :: acc).reverse
      | .ok (tr, some (s, ts)) => parseTriplesLoop c f s ts (tr :: acc) := by
  simp only [parseTriplesLoop, tripleStep, bind, Except.bind]
  cases expectTy c .SYMBOL toks with
  | error e => rfl
  | ok x1 =>
    simp only
    cases expectTy c .LPAREN x1.2 with
    | error e => rfl
    | ok x2 =>
      simp only
      cases expectTy c .SYMBOL x2.2 with
      | error e => rfl
      | ok x3 =>
        simp only
        cases parseTriple x3.1 x3.2 with
        | error e => rfl
        | ok x4 =>
          simp only
          cases expectTy c .RPAREN x4.2.2 with
          | error e => rfl
          | ok x5 =>
            simp only
            cases x5.2 with
            | nil => rfl
            | cons n ts6 =>
              simp only
              split
              · rfl
              · split <;> rfl

def isDecode : PyErr → Bool
  | .decode _ _ _ => true
  | _ => false

theorem expectTy_spec (c : PCtx) (ty : TokTy) (toks : List Tok) :
    (∃ t ts, toks = t :: ts ∧ t.ty = ty ∧ expectTy c ty toks = .ok (t, ts)) ∨
    (∃ e, expectTy c ty toks = .error e ∧ isDecode e = true) := by
  cases toks with
  | nil => exact .inr ⟨_, rfl, rfl⟩
  | cons t ts =>
    by_cases h : t.ty = ty
    · exact .inl ⟨t, ts, rfl, h, by simp [expectTy, h]⟩
    · exact .inr ⟨tokErr t, by simp [expectTy, h], rfl⟩

theorem parseTriple_spec (sym : Tok) (ts : List Tok) :
    (∃ s t ts', parseTriple sym ts = .ok (s, t, ts') ∧ ts'.length ≤ ts.length) ∨
    (∃ e, parseTriple sym ts = .error e ∧ isDecode e = true) := by
  unfold parseTriple
  simp only
  repeat' split
  all_goals first
    | (refine .inl ⟨_, _, _, rfl, ?_⟩; (try simp only [List.length_cons]); omega)
    | exact .inr ⟨tokErr _, rfl, rfl⟩

/-- a step either fails with a decode error, or stops, or continues on a
    strictly shorter token list -/
theorem tripleStep_spec (c : PCtx) (strip : Bool) (toks : List Tok) :
    (∃ e, tripleStep c strip toks = .error e ∧ isDecode e = true) ∨
    (∃ tr, tripleStep c strip toks = .ok (tr, none)) ∨
    (∃ tr s ts, tripleStep c strip toks = .ok (tr, some (s, ts)) ∧ ts.length < toks.length) := by
  unfold tripleStep
  rcases expectTy_spec c .SYMBOL toks with ⟨t1, ts1, rfl, _, e1⟩ | ⟨e, he, hd⟩
  rotate_left
  · exact .inl ⟨e, by simp [he, bind, Except.bind], hd⟩
  rcases expectTy_spec c .LPAREN ts1 with ⟨t2, ts2, rfl, _, e2⟩ | ⟨e, he, hd⟩
  rotate_left
  · exact .inl ⟨e, by simp [e1, he, bind, Except.bind], hd⟩
  rcases expectTy_spec c .SYMBOL ts2 with ⟨t3, ts3, rfl, _, e3⟩ | ⟨e, he, hd⟩
  rotate_left
  · exact .inl ⟨e, by simp [e1, e2, he, bind, Except.bind], hd⟩
  rcases parseTriple_spec t3 ts3 with ⟨src, tgt, ts4, e4, l4⟩ | ⟨e, he, hd⟩
  rotate_left
  · exact .inl ⟨e, by simp [e1, e2, e3, he, bind, Except.bind], hd⟩
  rcases expectTy_spec c .RPAREN ts4 with ⟨t5, ts5, rfl, _, e5⟩ | ⟨e, he, hd⟩
  rotate_left
  · exact .inl ⟨e, by simp [e1, e2, e3, e4, he, bind, Except.bind], hd⟩
  simp only [e1, e2, e3, e4, e5, bind, Except.bind]
  cases ts5 with
  | nil => exact .inr (.inl ⟨_, rfl⟩)
  | cons n ts6 =>
    simp only
    split
    · exact .inr (.inl ⟨_, rfl⟩)
    · split
      · exact .inr (.inr ⟨_, _, _, rfl, by simp at l4 ⊢; omega⟩)
      · exact .inr (.inr ⟨_, _, _, rfl, by simp at l4 ⊢; omega⟩)

/-- with fuel above the number of tokens the result does not depend on the fuel … -/
theorem parseTriplesLoop_fuel (c : PCtx) : ∀ (f g : Nat) (strip : Bool) (toks : List Tok) (acc : List Triple),
    toks.length < f → toks.length < g →
    parseTriplesLoop c f strip toks acc = parseTriplesLoop c g strip toks acc
  | 0, _, _, _, _, h, _ => by omega
  | _, 0, _, _, _, _, h => by omega
  | f+1, g+1, strip, toks, acc, hf, hg => by
    rw [parseTriplesLoop_succ, parseTriplesLoop_succ]
    rcases tripleStep_spec c strip toks with ⟨e, he, _⟩ | ⟨tr, he⟩ | ⟨tr, s, ts, he, hl⟩
    · simp [he]
    · simp [he]
    · simp only [he]
      exact parseTriplesLoop_fuel c f g s ts _ (by omega) (by omega)

/-- … and is a result or a decode error -/
theorem parseTriplesLoop_total (c : PCtx) : ∀ (f : Nat) (strip : Bool) (toks : List Tok) (acc : List Triple),
    toks.length < f →
    (∃ r, parseTriplesLoop c f strip toks acc = .ok r) ∨
    (∃ l k n, parseTriplesLoop c f strip toks acc = .error (.decode l k n))
  | 0, _, _, _, h => by omega
  | f+1, strip, toks, acc, hf => by
    rw [parseTriplesLoop_succ]
    rcases tripleStep_spec c strip toks with ⟨e, he, hd⟩ | ⟨tr, he⟩ | ⟨tr, s, ts, he, hl⟩
    · cases e <;> simp [isDecode] at hd
      rename_i l k n
      exact .inr ⟨l, k, n, by simp [he]⟩
    · exact .inl ⟨(tr :: acc).reverse, by simp [he]⟩
    · simp only [he]
      exact parseTriplesLoop_total c f s ts _ (by omega)


/-! ### round trip for `role(src, tgt) ^ role(…` in all spacing variants -/

theorem partition_comma (a b : Str) (ha : ',' ∉ a) : partitionStr [','] (a ++ ',' :: b) = (a, true, b) := by
  induction a with
  | nil => simp [partitionStr, List.isPrefixOf]
  | cons c cs ih =>
    have hc : ',' ≠ c := fun e => ha (by rw [e]; exact List.mem_cons_self)
    have ih := ih (fun e => ha (List.mem_cons_of_mem _ e))
    simp [partitionStr, List.isPrefixOf, hc, ih]

theorem partition_noComma (a : Str) (ha : ',' ∉ a) : partitionStr [','] a = (a, false, []) := by
  induction a with
  | nil => simp [partitionStr]
  | cons c cs ih =>
    have hc : ',' ≠ c := fun e => ha (by rw [e]; exact List.mem_cons_self)
    have ih := ih (fun e => ha (List.mem_cons_of_mem _ e))
    simp [partitionStr, List.isPrefixOf, hc, ih]

/-- the role of a triple gets a leading colon -/
def colonRole (r : Str) : Str := if startsWith [':'] r then r else ':' :: r

/-- the tokens between `(` and `)` of a triple with source `src` and target
    `tgt`, in every spacing the lexer can produce -/
inductive ArgToks (src : Str) : Atom → List Tok → Prop
  /-- `a,b` : one SYMBOL -/
  | glued (t : Tok) (b : Str) : t.ty = .SYMBOL → t.text = src ++ ',' :: b → b ≠ [] → ArgToks src (.str b) [t]
  /-- `a, b` -/
  | commaLeft (t n : Tok) : t.ty = .SYMBOL → t.text = src ++ [','] → isSymOrStr n = true →
      ArgToks src (.str n.text) [t, n]
  /-- `a , b` -/
  | spaced (a cm n : Tok) : a.ty = .SYMBOL → a.text = src → cm.ty = .SYMBOL → cm.text = [','] →
      isSymOrStr n = true → ArgToks src (.str n.text) [a, cm, n]
  /-- `a ,b` -/
  | commaRight (a n : Tok) (b : Str) : a.ty = .SYMBOL → a.text = src → n.ty = .SYMBOL → n.text = ',' :: b →
      b ≠ [] → ArgToks src (.str b) [a, n]
  /-- `a` : no target -/
  | noTarget (a : Tok) : a.ty = .SYMBOL → a.text = src → ArgToks src .none [a]
  /-- `a,` : no target -/
  | commaOnly (t : Tok) : t.ty = .SYMBOL → t.text = src ++ [','] → ArgToks src .none [t]
  /-- `a ,` : no target -/
  | spacedCommaOnly (a cm : Tok) : a.ty = .SYMBOL → a.text = src → cm.ty = .SYMBOL → cm.text = [','] →
      ArgToks src .none [a, cm]

theorem ArgToks.parse {src : Str} {tgt : Atom} {args : List Tok} (h : ArgToks src tgt args) (hs : ',' ∉ src)
    (rp : Tok) (hrp : rp.ty = .RPAREN) (after : List Tok) :
    ∃ sym more, args = sym :: more ∧ sym.ty = .SYMBOL ∧
      parseTriple sym (more ++ rp :: after) = .ok (src, tgt, rp :: after) := by
  have hrp1 : isSymOrStr rp = false := by simp [isSymOrStr, hrp]
  have hrp2 : rp.ty ≠ .SYMBOL := by simp [hrp]
  cases h with
  | glued t b h1 h2 h3 =>
    refine ⟨t, [], rfl, h1, ?_⟩
    have : b.isEmpty = false := by cases b <;> simp_all
    simp [parseTriple, h2, partition_comma src b hs, this]
  | commaLeft t n h1 h2 h3 =>
    refine ⟨t, [n], rfl, h1, ?_⟩
    simp [parseTriple, h2, partition_comma src [] hs, h3]
  | spaced a cm n h1 h2 h3 h4 h5 =>
    refine ⟨a, [cm, n], rfl, h1, ?_⟩
    simp [parseTriple, h2, partition_noComma src hs, h3, h4, h5]
  | commaRight a n b h1 h2 h3 h4 h5 =>
    refine ⟨a, [n], rfl, h1, ?_⟩
    simp [parseTriple, h2, partition_noComma src hs, h3, h4, h5, startsWith, List.isPrefixOf]
  | noTarget a h1 h2 =>
    refine ⟨a, [], rfl, h1, ?_⟩
    simp [parseTriple, h2, partition_noComma src hs, hrp2]
  | commaOnly t h1 h2 =>
    refine ⟨t, [], rfl, h1, ?_⟩
    simp [parseTriple, h2, partition_comma src [] hs, hrp1]
  | spacedCommaOnly a cm h1 h2 h3 h4 =>
    refine ⟨a, [cm], rfl, h1, ?_⟩
    simp [parseTriple, h2, partition_noComma src hs, h3, h4, hrp1]

/-- the role token: `^role` when the caret is glued to it (`strip`), else `role` -/
def HeadTok (strip : Bool) (r : Str) (rt : Tok) : Prop :=
  rt.ty = .SYMBOL ∧ (if strip then rt.text = '^' :: r ∧ r ≠ [] else rt.text = r)

theorem HeadTok.plain (rt : Tok) (h : rt.ty = .SYMBOL) : HeadTok false rt.text rt := ⟨h, by simp⟩
theorem HeadTok.caret (rt : Tok) (r : Str) (h : rt.ty = .SYMBOL) (ht : rt.text = '^' :: r) (hr : r ≠ []) :
    HeadTok true r rt := ⟨h, by simp [ht, hr]⟩

/-- how `_parse_triples` goes on after a `)` -/
def tripleCont : List Tok → Option (Bool × List Tok)
  | [] => none
  | n :: ts6 =>
    if n.ty ≠ .SYMBOL || !startsWith ['^'] n.text then none
    else if n.text = ['^'] then some (false, ts6)
    else some (true, n :: ts6)

theorem tripleStep_one (c : PCtx) (strip : Bool) (r src : Str) (tgt : Atom) (rt lp rp : Tok) (args after : List Tok)
    (hh : HeadTok strip r rt) (hlp : lp.ty = .LPAREN) (hrp : rp.ty = .RPAREN) (ha : ArgToks src tgt args)
    (hs : ',' ∉ src) :
    tripleStep c strip (rt :: lp :: (args ++ rp :: after)) = .ok (⟨src, colonRole r, tgt⟩, tripleCont after) := by
  obtain ⟨sym, more, rfl, hsym, hp⟩ := ha.parse hs rp hrp after
  obtain ⟨hrt, htext⟩ := hh
  have hrole : (if (strip && startsWith ['^'] rt.text) = true then rt.text.drop 1 else rt.text) = r := by
    cases strip with
    | true => simp at htext; simp [htext.1, startsWith, List.isPrefixOf]
    | false => simpa using htext
  simp only [tripleStep, expectTy, hrt, hlp, hsym, if_true, bind, Except.bind, List.cons_append, hp, hrp, hrole]
  cases after with
  | nil => rfl
  | cons n ts6 =>
    simp only [tripleCont, colonRole]
    split
    · rfl
    · split <;> rfl


/-- the tokens `role ( args )` of one triple -/
def OneTripleToks (strip : Bool) (tr : Triple) (ts : List Tok) : Prop :=
  ∃ (r : Str) (rt lp rp : Tok) (args : List Tok),
    HeadTok strip r rt ∧ lp.ty = .LPAREN ∧ rp.ty = .RPAREN ∧ ArgToks tr.src tr.tgt args ∧ ',' ∉ tr.src ∧
    tr.role = colonRole r ∧ ts = rt :: lp :: (args ++ [rp])

/-- a conjunction of triples; the flag says whether the first role token
    has the caret glued to it (`^role`) -/
inductive ConjToks : Bool → List Triple → List Tok → Prop
  | last (strip : Bool) (tr : Triple) (ts : List Tok) : OneTripleToks strip tr ts → ConjToks strip [tr] ts
  /-- `… ) ^ role ( …` -/
  | sep (strip : Bool) (tr : Triple) (ts : List Tok) (caret : Tok) (trs : List Triple) (more : List Tok) :
      OneTripleToks strip tr ts → caret.ty = .SYMBOL → caret.text = ['^'] → ConjToks false trs more →
      ConjToks strip (tr :: trs) (ts ++ caret :: more)
  /-- `… ) ^role ( …` -/
  | glue (strip : Bool) (tr : Triple) (ts : List Tok) (trs : List Triple) (more : List Tok) :
      OneTripleToks strip tr ts → ConjToks true trs more →
      ConjToks strip (tr :: trs) (ts ++ more)

/-- the conjunction ends here: no SYMBOL starting with `^` follows -/
def StopsAt : List Tok → Prop
  | [] => True
  | n :: _ => ¬ (n.ty = .SYMBOL ∧ startsWith ['^'] n.text = true)

theorem tripleCont_stops {rest : List Tok} (h : StopsAt rest) : tripleCont rest = none := by
  cases rest with
  | nil => rfl
  | cons n ts =>
    simp only [StopsAt, not_and] at h
    simp only [tripleCont]
    by_cases h1 : n.ty = .SYMBOL
    · simp [h1, h h1]
    · simp [h1]

theorem ConjToks.head_glued {trs : List Triple} {more : List Tok} (h : ConjToks true trs more) :
    ∃ n ts, more = n :: ts ∧ n.ty = .SYMBOL ∧ startsWith ['^'] n.text = true ∧ n.text ≠ ['^'] := by
  have key : ∀ tr ts, OneTripleToks true tr ts →
      ∃ n ts', ts = n :: ts' ∧ n.ty = .SYMBOL ∧ startsWith ['^'] n.text = true ∧ n.text ≠ ['^'] := by
    rintro tr ts ⟨r, rt, lp, rp, args, ⟨h1, h2⟩, _, _, _, _, _, rfl⟩
    simp only [if_true] at h2
    exact ⟨rt, _, rfl, h1, by simp [h2.1, startsWith, List.isPrefixOf], by simp [h2.1, h2.2]⟩
  cases h with
  | last _ tr ts h1 => exact key _ _ h1
  | sep _ tr ts caret trs more h1 _ _ _ =>
    obtain ⟨n, ts', rfl, h⟩ := key _ _ h1
    exact ⟨n, _, rfl, h⟩
  | glue _ tr ts trs more h1 _ =>
    obtain ⟨n, ts', rfl, h⟩ := key _ _ h1
    exact ⟨n, _, rfl, h⟩

/-- **triples round trip** : the tokens of a conjunction, in any mix of the
    spacing variants, parse to the list of triples -/
theorem parseTriplesLoop_conj (c : PCtx) {strip : Bool} {trs : List Triple} {ts : List Tok}
    (h : ConjToks strip trs ts) :
    ∀ (f : Nat) (rest : List Tok) (acc : List Triple), StopsAt rest → (ts ++ rest).length < f →
      parseTriplesLoop c f strip (ts ++ rest) acc = .ok (acc.reverse ++ trs) := by
  induction h with
  | last strip tr ts h1 =>
    intro f rest acc hst hf
    obtain ⟨r, rt, lp, rp, args, hh, hlp, hrp, ha, hs, hr, rfl⟩ := h1
    cases f with
    | zero => omega
    | succ f =>
      rw [parseTriplesLoop_succ]
      have := tripleStep_one c strip r tr.src tr.tgt rt lp rp args rest hh hlp hrp ha hs
      simp only [List.cons_append, List.append_assoc, List.nil_append]
      rw [this, tripleCont_stops hst, ← hr]
      simp
  | sep strip tr ts caret trs more h1 hc1 hc2 _ ih =>
    intro f rest acc hst hf
    obtain ⟨r, rt, lp, rp, args, hh, hlp, hrp, ha, hs, hr, rfl⟩ := h1
    cases f with
    | zero => omega
    | succ f =>
      rw [parseTriplesLoop_succ]
      have := tripleStep_one c strip r tr.src tr.tgt rt lp rp args (caret :: (more ++ rest)) hh hlp hrp ha hs
      simp only [List.cons_append, List.append_assoc, List.nil_append]
      rw [this, ← hr]
      simp only [tripleCont, hc1, hc2, startsWith, List.isPrefixOf]
      simp only [ne_eq, not_true_eq_false, decide_false, Bool.not_true, Bool.or_self, Bool.false_eq_true,
        if_false, if_true, beq_self_eq_true, Bool.and_self]
      rw [ih f rest _ hst (by simp at hf ⊢; omega)]
      simp
  | glue strip tr ts trs more h1 h2 ih =>
    intro f rest acc hst hf
    obtain ⟨r, rt, lp, rp, args, hh, hlp, hrp, ha, hs, hr, rfl⟩ := h1
    obtain ⟨n, ts', rfl, hn1, hn2, hn3⟩ := h2.head_glued
    cases f with
    | zero => omega
    | succ f =>
      rw [parseTriplesLoop_succ]
      have := tripleStep_one c strip r tr.src tr.tgt rt lp rp args (n :: (ts' ++ rest)) hh hlp hrp ha hs
      simp only [List.cons_append, List.append_assoc, List.nil_append]
      rw [this, ← hr]
      simp only [tripleCont, hn1, hn2, hn3]
      simp only [ne_eq, not_true_eq_false, decide_false, Bool.not_true, Bool.or_self, Bool.false_eq_true,
        if_false]
      have := ih f rest (tr :: acc) hst (by simp at hf ⊢; omega)
      simp only [List.cons_append] at this
      rw [this]
      simp

/-- on the top-level function (its own fuel), whatever follows the conjunction -/
theorem parseTriplesToks_conj {trs : List Triple} {ts : List Tok} (h : ConjToks false trs ts)
    (rest : List Tok) (hst : StopsAt rest) : parseTriplesToks (ts ++ rest) = .ok trs := by
  have := parseTriplesLoop_conj ⟨eofPos (ts ++ rest)⟩ h ((ts ++ rest).length + 1) rest [] hst (Nat.lt_succ_self _)
  simpa [parseTriplesToks] using this

end Penman

/-
  Penman.Proofs.Configure8 — completeness of `configure`: initial state,
  `preconfigure` succeeds, final theorem.
-/
import Penman.Proofs.Configure7
namespace Penman
namespace Cfg

theorem Pre.forward {m : Model} {l1 l2 : List Triple} (h : Pre m l1 l2) :
    ∀ t ∈ l1, ∃ x ∈ l2, PreStep m t x := by
  induction h with
  | nil => intro t ht; simp at ht
  | @cons a b _ _ hs _ ih =>
    intro t ht
    simp only [List.mem_cons] at ht
    rcases ht with rfl | ht
    · exact ⟨b, List.mem_cons_self, hs⟩
    · obtain ⟨x, hx, h⟩ := ih t ht; exact ⟨x, List.mem_cons_of_mem _ hx, h⟩

theorem Pre.backward {m : Model} {l1 l2 : List Triple} (h : Pre m l1 l2) :
    ∀ x ∈ l2, ∃ t ∈ l1, PreStep m t x := by
  induction h with
  | nil => intro t ht; simp at ht
  | @cons a b _ _ hs _ ih =>
    intro x hx
    simp only [List.mem_cons] at hx
    rcases hx with rfl | hx
    · exact ⟨a, List.mem_cons_self, hs⟩
    · obtain ⟨t, ht, h⟩ := ih x hx; exact ⟨t, List.mem_cons_of_mem _ ht, h⟩

theorem keys_st0 (g : Graph) (top : Str) : ∀ v ∈ g.variables, HasKey (st0 g top) v := by
  intro v hv
  unfold HasKey st0
  by_cases e : v = top
  · subst e; simp [get?_set_same]
  · simp only [get?_set_other _ _ _ _ e]
    rw [get?_isSome_iff]
    simp only [AList.keys, List.map_map, List.mem_map, Function.comp]
    exact ⟨v, hv, rfl⟩

/-- the state after the first `configureNode top` satisfies the loop invariants -/
theorem cinv_init {m : Model} {g : Graph} {top : Str} {data : List Datum} (hn : NoInstOf m g)
    (hp : preconfigure m g.epidata g.triples [] = .ok data) :
    CInv m g (stripPops (configureNode m (data.length + 1) top data (st0 g top) false).1) []
      (configureNode m (data.length + 1) top data (st0 g top) false).2.1 ∧
    Avail (configureNode m (data.length + 1) top data (st0 g top) false).2.1 top := by
  have hpre := preconfigure_spec m _ _ _ _ hp
  obtain ⟨g0, o0⟩ := good_st0 g top
  obtain ⟨g1, _⟩ := good_cn m (data.length + 1) top data (st0 g top) false g0 o0
  have hrnc : ∀ x ∈ pending data, RNC m x := by
    intro x hx
    obtain ⟨t, ht, hs⟩ := hpre.backward x hx
    cases hs with
    | same => intro hr; exact (hn _ ht hr).1
    | inv v _ hr => intro _; rw [invert_role]; exact (hn t ht hr).2
  have hends : ∀ x ∈ pending data,
      x.src ∈ g.variables ∨ (x.role ≠ CONCEPT_ROLE ∧ ∃ v ∈ g.variables, x.tgt = .str v) := by
    intro x hx
    obtain ⟨t, ht, hs⟩ := hpre.backward x hx
    cases hs with
    | same => exact Or.inl (src_mem_variables ht)
    | inv v _ hr =>
      right
      exact ⟨by rw [invert_role]; exact (hn t ht hr).1, t.src, src_mem_variables ht, invert_tgt m t⟩
  obtain ⟨mono, c, hc, hE⟩ := cn_avail m g.variables (data.length + 1) top data (st0 g top) false o0
    (keys_st0 g top) hrnc
  have hsub : ∀ x, x ∈ pending (stripPops (configureNode m (data.length + 1) top data (st0 g top) false).1) ++ pending [] →
      x ∈ pending data := by
    intro x hx
    simp only [pending, List.append_nil, pending_stripPops] at hx
    rw [hc, pending_append]; exact List.mem_append_right _ hx
  refine ⟨⟨g1, fun v hv => mono.2.1 _ (keys_st0 g top v hv), fun x hx => hends x (hsub x hx),
    fun x hx => hrnc x (hsub x hx), fun x hx => by simp [pending] at hx, ?_, stripPops_head _,
    fun h => absurd rfl h⟩, mono.1 _ (avail_of_own o0)⟩
  intro t ht hr b hb htb
  obtain ⟨x, hx, hs⟩ := hpre.forward t ht
  have hver : x = t ∨ x = m.invert t := by
    cases hs with
    | same => exact Or.inl rfl
    | inv => exact Or.inr rfl
  rw [hc, pending_append, List.mem_append] at hx
  rcases hx with hx | hx
  · exact Or.inl (version_ends hn ht hr hb htb hver (hE x hx))
  · exact Or.inr ⟨x, by simp [pending, pending_stripPops, hx], hver⟩

/-! ### `preconfigure` stays inside the modelled domain -/

theorem preconfEpis_ok (m : Model) (orig : Triple) : ∀ es tr push epis pops pushed,
    (tr = orig ∨ orig.src ∈ pushed) →
    ((∃ s, orig.tgt = .str s) ∨ orig.role = CONCEPT_ROLE ∨ Epi.push orig.src ∉ es) →
    ∃ r, preconfEpis m orig es tr push epis pops pushed = .ok r := by
  intro es tr push epis pops pushed
  fun_induction preconfEpis m orig es tr push epis pops pushed <;> intro hinv hok
  · exact ⟨_, rfl⟩
  · rename_i ih
    exact ih hinv (by rcases hok with h | h | h <;> simp_all)
  · rename_i ih
    exact ih hinv (by rcases hok with h | h | h <;> simp_all)
  · rename_i ih
    exact ih (Or.inr (by simp)) (by rcases hok with h | h | h <;> simp_all)
  · rename_i rest tr push epis pops pushed hnt hnp hcond
    exfalso
    have htr : tr = orig := by
      rcases hinv with h | h
      · exact h
      · exact absurd h hnp
    subst htr
    rcases hok with ⟨s, h⟩ | h | h
    · exact hnt s h
    · exact hcond (Or.inr h)
    · simp at h
  · rename_i ih
    apply ih
    · rcases hinv with h | h
      · exact Or.inl h
      · exact Or.inr (List.mem_cons_of_mem _ h)
    · rcases hok with h | h | h <;> simp_all
  · rename_i ih
    exact ih hinv (by rcases hok with h | h | h <;> simp_all)
  · rename_i ih
    exact ih hinv (by rcases hok with h | h | h <;> simp_all)

theorem preconfigure_ok (m : Model) (ep : Epidata) : ∀ ts pushed,
    (∀ t ∈ ts, (∃ s, t.tgt = .str s) ∨ t.role = CONCEPT_ROLE ∨ Epi.push t.src ∉ (AList.get? ep t).getD []) →
    ∃ data, preconfigure m ep ts pushed = .ok data := by
  intro ts
  induction ts with
  | nil => intro pushed _; exact ⟨[], rfl⟩
  | cons t ts ih =>
    intro pushed h
    obtain ⟨r, hr⟩ := preconfEpis_ok m t ((AList.get? ep t).getD []) t false [] 0 pushed (Or.inl rfl)
      (h t List.mem_cons_self)
    obtain ⟨tr', push, epis, pops, pushed'⟩ := r
    obtain ⟨more, hm⟩ := ih pushed' (fun t ht => h t (List.mem_cons_of_mem _ ht))
    exact ⟨_, by simp only [preconfigure, hr, bind, Except.bind, hm]; rfl⟩

/-- 4. completeness of the store computation -/
theorem storeOf_complete {m : Model} {g : Graph} {top : Str} (hn : NoInstOf m g) (hpush : PushSrcOK g)
    (hreach : ∀ v ∈ g.variables, Reach g top v) : ∃ st, storeOf m g top = .ok st := by
  obtain ⟨data, hp⟩ := preconfigure_ok m g.epidata g.triples [] (by
    intro t ht
    rcases hpush t ht with h | h | h
    · left; cases htg : t.tgt <;> simp [htg, tgtStr?] at h ⊢
    · exact Or.inr (Or.inl h)
    · exact Or.inr (Or.inr h))
  unfold storeOf
  rw [hp]
  simp only [Except.bind]
  obtain ⟨hc, ht⟩ := cinv_init (top := top) hn hp
  exact loop_complete hn hreach _ _ _ _ (psi_start _ data.length (cn_length_le _ _ _ _ _ _)) hc ht

/-- 4. `configure` succeeds when the top is a variable and every variable is weakly connected to it -/
theorem configure_complete {m : Model} {g : Graph} {top : Option Str} {t : Str} (hn : NoInstOf m g)
    (hpush : PushSrcOK g) (ht : topOf g top = some t) (htv : t ∈ g.variables)
    (hreach : ∀ v ∈ g.variables, Reach g t v) : ∃ T, configure m g top = .ok T := by
  rcases configure_cases m g top with ⟨_, h⟩ | ⟨_, hno, _⟩ | ⟨t', _, ht', _, ⟨e, hs, _⟩ | ⟨st, node, _, _, _, h⟩⟩
  · exact ⟨_, h⟩
  · exact absurd htv (hno t ht)
  · rw [ht] at ht'; simp only [Option.some.injEq] at ht'; subst ht'
    obtain ⟨st, hst⟩ := storeOf_complete (m := m) hn hpush hreach
    rw [hst] at hs; simp at hs
  · exact ⟨_, h⟩

end Cfg
end Penman

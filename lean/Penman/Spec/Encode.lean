/-
  Penman.Spec.Encode — vocabulary of property C03 (graph → tree → graph):
  the well-formedness predicate on graphs and the comparison of triples up to
  one de-inversion.
-/
import Penman.Spec.Configure
import Penman.Spec.Reading
namespace Penman
namespace Cfg
open Penman.Spec.Reading

/-- deinvert a triple once if its role is inverted and its target is a variable of `g`
    (what decoding does to a relation written inverted) -/
def deinvert1 (m : Model) (g : Graph) (t : Triple) : Triple :=
  if m.isRoleInverted t.role = true ∧ g.isVar t.tgt = true then m.invert t else t

/-- a target/variable text that reads back as itself: no `~`, or a quoted string that ends with
    its closing quote (a `~` inside the quotes is content) -/
def TextOK (s : Str) : Prop := '~' ∉ s ∨ (s.head? = some '"' ∧ afterLastQuoteText s = [])

instance (s : Str) : Decidable (TextOK s) := by unfold TextOK; infer_instance

def TgtOK : Atom → Prop
  | .str s => TextOK s
  | _ => True

instance (a : Atom) : Decidable (TgtOK a) := by cases a <;> unfold TgtOK <;> infer_instance

/-- a null node label `(v :instance None)` / `(v :instance "")` -/
def nullB (t : Triple) : Bool := decide (t.role = CONCEPT_ROLE) && t.tgt.isMissing

/-- well-formed graph for the encode/decode round trip -/
structure WfGraph (m : Model) (g : Graph) : Prop where
  /-- there is something to encode -/
  nonempty : g.triples.isEmpty = false
  /-- every variable has a node label … -/
  labelled : ∀ v ∈ g.variables, ∃ t ∈ g.triples, t.src = v ∧ t.role = CONCEPT_ROLE
  /-- a null label `(v :instance None)` (dropped by `configure`, re-inserted by `interpret` for the
      label-less node) occurs once and is then the only label of its variable … -/
  nullNodup : (g.triples.filter nullB).Nodup
  nullAlone : ∀ t ∈ g.triples, nullB t = true → ∀ t' ∈ g.triples, t'.role = CONCEPT_ROLE → t'.src = t.src → t' = t
  /-- … and is written `None`, not `""` -/
  instNotEmpty : ∀ t ∈ g.triples, t.role = CONCEPT_ROLE → t.tgt ≠ .str []
  /-- roles are written with their colon, carry no alignment, and are inversion-canonical -/
  roles : ∀ t ∈ g.triples, t.role.head? = some ':' ∧ '~' ∉ t.role ∧ m.canonInversion t.role = some t.role
  /-- variables carry no `~` -/
  srcs : ∀ t ∈ g.triples, '~' ∉ t.src
  /-- targets read back as themselves -/
  tgts : ∀ t ∈ g.triples, TgtOK t.tgt
  noInstOf : NoInstOf m g
  noAlign : NoAlign g

instance (m : Model) (g : Graph) : Decidable (WfGraph m g) :=
  decidable_of_iff
    (g.triples.isEmpty = false ∧ (∀ v ∈ g.variables, ∃ t ∈ g.triples, t.src = v ∧ t.role = CONCEPT_ROLE) ∧
      (g.triples.filter nullB).Nodup ∧
      (∀ t ∈ g.triples, nullB t = true → ∀ t' ∈ g.triples, t'.role = CONCEPT_ROLE → t'.src = t.src → t' = t) ∧
      (∀ t ∈ g.triples, t.role = CONCEPT_ROLE → t.tgt ≠ .str []) ∧
      (∀ t ∈ g.triples, t.role.head? = some ':' ∧ '~' ∉ t.role ∧ m.canonInversion t.role = some t.role) ∧
      (∀ t ∈ g.triples, '~' ∉ t.src) ∧ (∀ t ∈ g.triples, TgtOK t.tgt) ∧ NoInstOf m g ∧ NoAlign g)
    ⟨fun ⟨a, b, c1, c2, c3, d, e, f, g', h⟩ => ⟨a, b, c1, c2, c3, d, e, f, g', h⟩,
     fun ⟨a, b, c1, c2, c3, d, e, f, g', h⟩ => ⟨a, b, c1, c2, c3, d, e, f, g', h⟩⟩

def notNum : Atom → Bool
  | .num _ => false
  | _ => true

/-- no numeric targets (trees given to `interpret` carry numbers as text) -/
def NoNum (g : Graph) : Prop := ∀ t ∈ g.triples, notNum t.tgt = true

instance (g : Graph) : Decidable (NoNum g) := by unfold NoNum; infer_instance

end Cfg
end Penman

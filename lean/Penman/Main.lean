/-
  Penman.Main — `penman.__main__`: the command as a function
  `(options, input streams) ↦ (stdout, exit status)`.
  `argparse`, file opening and the model-file JSON loading are outside the
  model: the harness hands over the decoded options.
-/
import Penman.Transform
import Penman.Parse
import Penman.Format
namespace Penman

structure Opts where
  check : Bool := false
  indent : Indent := some (-1)
  compact : Bool := false
  triples : Bool := false
  makeVariables : Option Fmt := none
  /-- `--rearrange` : the key functions and `attributes_first` -/
  rearrange : Option (List KeyFn × Bool) := none
  reconfigure : Option (List KeyFn) := none
  canonicalizeRoles : Bool := false
  reifyEdges : Bool := false
  dereifyEdges : Bool := false
  reifyAttributes : Bool := false
  indicateBranches : Bool := false

/-- Unicode tables the model is parametric in -/
structure UTables where
  isSpace : Char → Bool
  isAlpha : Char → Bool
  lower : Char → Str

/-- `_process_in` -/
def processIn (u : UTables) (m : Model) (o : Opts) (t : Tree) : Except PyErr Graph := do
  let t ← if o.canonicalizeRoles then canonicalizeRoles m t else pure t
  let g ← interpret u.isAlpha m t
  let g ← if o.reifyEdges then reifyEdges m g else pure g
  let g ← if o.dereifyEdges then dereifyEdges m g else pure g
  let g := if o.reifyAttributes then reifyAttributes g else g
  let g ← if o.indicateBranches then indicateBranches m g else pure g
  pure g

/-- `_process_out` -/
def processOut (u : UTables) (m : Model) (o : Opts) (g : Graph) : Except PyErr Tree := do
  let t ← match o.reconfigure with
    | some ks => do
      let t ← reconfigure m g none (some ks)
      let _ ← interpret u.isAlpha m t
      pure t
    | none => configure m g none
  let t := match o.rearrange with
    | some (ks, af) => rearrange m (some ks) af t
    | none => t
  match o.makeVariables with
  | some fmt => do
    let n ← t.node.resetVariables u.isAlpha u.lower fmt
    pure { t with node := n }
  | none => pure t

def errMsg : Nat → Str
  | 0 => "invalid role".toList
  | 1 => "unreachable".toList
  | 2 => "graph is empty".toList
  | 3 => "top is not set".toList
  | _ => "top is not a variable in the graph".toList

/-- `_check(g, model)` : the graph with `error-N` metadata, and the status -/
def checkGraph (m : Model) (g : Graph) : Graph × Nat :=
  let errs := m.errors g
  if errs.isEmpty then (g, 0)
  else
    let step (acc : AList Str Str × Nat) (p : Option Triple × List Nat) :=
      let (md, i) := acc
      let ctx : Str := match p.1 with
        | some t => '(' :: t.src ++ [' '] ++ t.role ++ [' '] ++ atomStr t.tgt ++ ") ".toList
        | none => []
      let md := p.2.foldl (fun md e => md.set ("error-".toList ++ natToStr i) (ctx ++ errMsg e)) md
      (md, i + 1)
    let (md, _) := errs.foldl step (g.metadata, 1)
    ({ g with metadata := md }, 1)

/-- one graph of `process` : the printed text (without the final newline) and its status -/
def processTree (u : UTables) (m : Model) (o : Opts) (t : Tree) : Except PyErr (Str × Nat) := do
  let g ← processIn u m o t
  let (g, code) := if o.check then checkGraph m g else (g, 0)
  if o.triples then
    let ind := match o.indent with | none => false | some i => i != 0
    pure (formatTriples g.triples ind, code)
  else do
    let t ← processOut u m o g
    pure (format t o.indent o.compact, code)

/-- `process(f, ...)` over the token stream of one input:
    `(stdout text, exit status or the exception that escaped)` -/
def processLoop (u : UTables) (m : Model) (o : Opts) (c : PCtx) :
    Nat → List Tok → Bool → Str → Nat → Str × Except PyErr Nat
  | 0, _, _, out, _ => (out, .error (.other "fuel"))
  | _+1, [], _, out, code => (out, .ok code)
  | f+1, t :: ts, first, out, code =>
    if t.ty = .COMMENT ∨ t.ty = .LPAREN then
      match parseTree c u.isSpace (t :: ts) with
      | .error e => (out, .error e)
      | .ok (tree, rest) =>
        let out := if first then out else out ++ ['\n']
        match processTree u m o tree with
        | .error e => (out, .error e)
        | .ok (s, code') => processLoop u m o c f rest false (out ++ s ++ ['\n']) (code ||| code')
    else (out, .ok code)

/-- an open text file iterated by lines (universal newlines): each line keeps a `\n` -/
def fileLines (s : Str) : List Str :=
  let ls := splitLines s
  let n := ls.length
  (ls.zipIdx.filterMap fun (l, i) => if i + 1 < n then some (l ++ ['\n']) else (if l.isEmpty then none else some l))

def processInput (cfg : LexCfg) (u : UTables) (m : Model) (o : Opts) (input : Str) : Str × Except PyErr Nat :=
  let toks := lexLines cfg cfg.penmanOrder (fileLines input)
  processLoop u m o ⟨eofPos toks⟩ (toks.length + 1) toks true [] 0

/-- `main()` over stdin (one input) or FILEs; exit status accumulated (fix F3) -/
def mainRun (cfg : LexCfg) (u : UTables) (m : Model) (o : Opts) : List Str → Str → Nat → Str × Except PyErr Nat
  | [], out, code => (out, .ok code)
  | inp :: rest, out, code =>
    match processInput cfg u m o inp with
    | (s, .ok c) => mainRun cfg u m o rest (out ++ s) (code ||| c)
    | (s, .error e) => (out ++ s, .error e)

end Penman

import Penman.Proofs.AlignText4
import Penman.Props.C03al
import Penman.Props.C03Text
/-!
# C03al at the level of TEXT — `decode(encode(g, top))` keeps the surface alignments

`C03Text.C03_text` (text-level C03) assumes `NoAlign g`; `Penman.C03al` (alignments) stops at the tree.
This file closes the square: for a graph WITH `RoleAlignment` / `Alignment` epidata,
`encode m g top indent compact = format (configure m g top) indent compact` followed by
`decode cfg isSpace isAlpha m s = interpret (parse s) m` (Python: `PENMANCodec.encode` / `.decode`)
gives back the graph, from every top, for every indentation and compactness, and every triple
reports the same role alignment and the same alignment as before
(`roleAlnOf` / `tgtAlnOf` = `penman.surface.role_alignments` / `alignments`).

New lemmas (`Penman/Proofs/AlignText1…4.lean`, namespace `Penman.Cfg.Al`), on top of Align1…8,
EncodeDecodeA/B/C and C01:
1. `alignedB_append`: `p s` and `alignmentB cfg a` give `alignedB cfg p (s ++ a)` (`alignedB` tries every
   split point, so no case distinction on quotes is needed); `cells_text_al`, `build_wf_al`,
   `encodedAl_tree_wf`: the written form of the configured tree is `WfTreeText` (AlignText1).
2. `decode_written_al`: `interpret` on the written form of the configured tree, numbers allowed,
   alignment suffixes read back (`edgeWritten_wE_al`, `edgeFacts_wE`, `nulls_perm`; AlignText2/3).
3. `alignments_kept_w`: the alignments of the decoded graph, constants compared by their written
   form; `encode_decode_text_al`: the composition with C01 (`parse_format_num`) (AlignText4).

Clause ↦ theorem
* text round trip with alignments ↦ `C03al_text`: the conclusion of `C03_text` (text `s`, decoded `g'`,
  same top, same variables, same triples as multisets up to one de-inversion with constants compared
  by their written form `writtenTriple`, each decoded triple the written form of an input triple or its
  inversion, same metadata) plus, as in `C03al`:
  - every triple `t0` of `g` occurs in `g'` as `deinvert1 m g (writtenTriple t0)` and that triple reports
    the SAME role alignment and the SAME alignment;
  - every triple of `g'` is of that form: nothing else carries anything.
* generated lexer tables ↦ `C03al_text_generated`.
* no numbers ↦ `C03al_text_noNum`: literally the conclusion of `C03al`, through text.
* the old theorem is contained ↦ `C03al_text_contains_C03_text`: `WfGraph ∧ GraphTextOK` imply
  `WfGraphAl ∧ AlignOK ∧ GraphTextOKal` (`graphTextOKal_of_noAlign`: `GraphTextOK ∧ NoAlign → GraphTextOKal`).
* text half on its own ↦ `C03al_text_parse` (the configured tree is `WfTreeText`; its text parses to
  its written form, for every option).

Hypotheses (all decidable except connectivity): those of `C03al` (`ModelWf`, `noop = false`, `WfGraphAl`,
`AlignOK`, `PushVars`, `PushSrcOK`, top a variable reaching every variable), `FmtCfgWf cfg` (C01), and
`GraphTextOKal cfg isSpace m g` (`Penman/Spec/AlignTextOK.lean`) =
* `base`: `GraphTextOK` of `C03_text` (SYMBOL / ROLE / STRING texts, one node label, `WfMeta`);
* `markers`: every alignment marker prints to an ALIGNMENT text of `cfg` (`alignmentB cfg e.toStr`);
* `agreeW`: triples with the same decoded WRITTEN form carry the same alignments.  `AlignOK.agree`
  compares triples as they are; in text the number `0` and the string `0` are the same constant.

FINDINGS (both are boundaries of the property, not violations of the real code; both replayed)
1. `exNumStr`: `('a', ':q', 0)` (the NUMBER `0`) and `('a', ':q', '0')` (the string) are different triples of
   one graph and may carry different role alignments; `AlignOK` and every hypothesis of `C03al` and of
   `C03_text` except `NoAlign` hold.  They are written `:q~e.1 0` and `:q~e.2 0`, both decode to
   `('a', ':q', '0')`, and `interpret` keeps the markers of the first ("ignoring epigraph data for
   duplicate triple"): `~e.2` comes back as `~e.1`.  Numbers are not preserved by text anyway; hence
   `agreeW`.  Without numbers `agreeW` is `AlignOK.agree`.
2. `exUni`: `MarkerOK` is relative to `isAlpha` (Python: `str.isalpha`, Unicode), the ALIGNMENT token to
   `[a-zA-Z]`.  `RoleAlignment((1,), prefix='é.')` satisfies `from_string(str(mk)) == mk`, so `C03al`
   (tree level) holds with a Unicode `isAlpha`, but the text `(a / x :q~é.1 y)` is rejected:
   `DecodeError` line 1, offset 9 (model: `PyErr.decode 1 9 _`).  Hence `markers`, stated on `cfg`.

Nothing is left unproved: the `UNPROVED (stated): C03al_text` of `Props/C03al.lean` is this file's
`C03al_text` (its hypothesis `hmk` is `GraphTextOKal.markers`; `agreeW` is the additional hypothesis
found necessary; the conclusion is extended by the two membership clauses of `C03al`).
-/
namespace Penman.C03Text
open Penman.Spec Penman.Cfg Penman.Cfg.Al

/-- **C03al, text level.** -/
theorem C03al_text {cfg : LexCfg} (hcfg : FmtCfgWf cfg = true) (isSpace isAlpha : Char → Bool) {m : Model}
    {g : Graph} {top : Option Str} {t : Str} (hw : ModelWf m) (hnoop : m.noop = false) (hg : WfGraphAl m g)
    (hal : AlignOK isAlpha m g) (htx : GraphTextOKal cfg isSpace m g) (hpv : PushVars g) (hps : PushSrcOK g)
    (ht : topOf g top = some t) (htv : t ∈ g.variables) (hreach : ∀ v ∈ g.variables, Reach g t v)
    (i : Indent) (c : Bool) :
    ∃ s g', encode m g top i c = .ok s ∧ decode cfg isSpace isAlpha m s = .ok g' ∧
      g'.getTop = some t ∧ (∀ x, x ∈ g'.variables ↔ x ∈ g.variables) ∧
      (g'.triples.map (deinvert1 m g)).Perm ((g.triples.map writtenTriple).map (deinvert1 m g)) ∧
      (∀ x ∈ g'.triples, ∃ t0 ∈ g.triples, x = writtenTriple t0 ∨ x = m.invert (writtenTriple t0)) ∧
      (∀ t0 ∈ g.triples, deinvert1 m g (writtenTriple t0) ∈ g'.triples ∧
        roleAlnOf g' (deinvert1 m g (writtenTriple t0)) = roleAlnOf g t0 ∧
        tgtAlnOf g' (deinvert1 m g (writtenTriple t0)) = tgtAlnOf g t0) ∧
      (∀ x ∈ g'.triples, ∃ t0 ∈ g.triples, x = deinvert1 m g (writtenTriple t0)) ∧
      g'.metadata = g.metadata :=
  encode_decode_text_al hcfg isSpace isAlpha hw hnoop hg hal htx hpv hps ht htv hreach i c

/-- `C03al_text` at the generated lexer tables -/
theorem C03al_text_generated (isSpace isAlpha : Char → Bool) {m : Model}
    {g : Graph} {top : Option Str} {t : Str} (hw : ModelWf m) (hnoop : m.noop = false) (hg : WfGraphAl m g)
    (hal : AlignOK isAlpha m g) (htx : GraphTextOKal Generated.lexCfg isSpace m g) (hpv : PushVars g)
    (hps : PushSrcOK g) (ht : topOf g top = some t) (htv : t ∈ g.variables)
    (hreach : ∀ v ∈ g.variables, Reach g t v) (i : Indent) (c : Bool) :
    ∃ s g', encode m g top i c = .ok s ∧ decode Generated.lexCfg isSpace isAlpha m s = .ok g' ∧
      g'.getTop = some t ∧ (∀ x, x ∈ g'.variables ↔ x ∈ g.variables) ∧
      (g'.triples.map (deinvert1 m g)).Perm ((g.triples.map writtenTriple).map (deinvert1 m g)) ∧
      (∀ t0 ∈ g.triples, deinvert1 m g (writtenTriple t0) ∈ g'.triples ∧
        roleAlnOf g' (deinvert1 m g (writtenTriple t0)) = roleAlnOf g t0 ∧
        tgtAlnOf g' (deinvert1 m g (writtenTriple t0)) = tgtAlnOf g t0) ∧
      g'.metadata = g.metadata := by
  obtain ⟨s, g', h1, h2, h3, h4, h5, _, h7, _, h9⟩ :=
    C03al_text C01.fmt_cfg_wf isSpace isAlpha hw hnoop hg hal htx hpv hps ht htv hreach i c
  exact ⟨s, g', h1, h2, h3, h4, h5, h7, h9⟩

/-- without numbers: the conclusion of `C03al`, through the text -/
theorem C03al_text_noNum {cfg : LexCfg} (hcfg : FmtCfgWf cfg = true) (isSpace isAlpha : Char → Bool) {m : Model}
    {g : Graph} {top : Option Str} {t : Str} (hw : ModelWf m) (hnoop : m.noop = false) (hg : WfGraphAl m g)
    (hal : AlignOK isAlpha m g) (htx : GraphTextOKal cfg isSpace m g) (hnum : NoNum g) (hpv : PushVars g)
    (hps : PushSrcOK g) (ht : topOf g top = some t) (htv : t ∈ g.variables)
    (hreach : ∀ v ∈ g.variables, Reach g t v) (i : Indent) (c : Bool) :
    ∃ s g', encode m g top i c = .ok s ∧ decode cfg isSpace isAlpha m s = .ok g' ∧
      g'.getTop = some t ∧ (∀ x, x ∈ g'.variables ↔ x ∈ g.variables) ∧
      (g'.triples.map (deinvert1 m g)).Perm (g.triples.map (deinvert1 m g)) ∧
      (∀ x ∈ g'.triples, ∃ t0 ∈ g.triples, x = t0 ∨ x = m.invert t0) ∧
      (∀ t0 ∈ g.triples, deinvert1 m g t0 ∈ g'.triples ∧
        roleAlnOf g' (deinvert1 m g t0) = roleAlnOf g t0 ∧ tgtAlnOf g' (deinvert1 m g t0) = tgtAlnOf g t0) ∧
      (∀ x ∈ g'.triples, ∃ t0 ∈ g.triples, x = deinvert1 m g t0) ∧
      g'.metadata = g.metadata := by
  obtain ⟨s, g', h1, h2, h3, h4, h5, h6, h7, h8, h9⟩ :=
    C03al_text hcfg isSpace isAlpha hw hnoop hg hal htx hpv hps ht htv hreach i c
  have hwt : ∀ t0 ∈ g.triples, writtenTriple t0 = t0 := fun t0 h0 => written_of_notNum (hnum t0 h0)
  rw [writtenTriple_of_noNum hnum] at h5
  refine ⟨s, g', h1, h2, h3, h4, h5, ?_, ?_, ?_, h9⟩
  · intro x hx; obtain ⟨t0, h0, h⟩ := h6 x hx; rw [hwt t0 h0] at h; exact ⟨t0, h0, h⟩
  · intro t0 h0; have := h7 t0 h0; rw [hwt t0 h0] at this; exact this
  · intro x hx; obtain ⟨t0, h0, h⟩ := h8 x hx; rw [hwt t0 h0] at h; exact ⟨t0, h0, h⟩

/-- the hypotheses of `C03_text` imply those of `C03al_text`: the new theorem contains the old one -/
theorem C03al_text_contains_C03_text {cfg : LexCfg} (isSpace isAlpha : Char → Bool) {m : Model} {g : Graph}
    (hg : WfGraph m g) (htx : GraphTextOK cfg isSpace m g) :
    WfGraphAl m g ∧ AlignOK isAlpha m g ∧ GraphTextOKal cfg isSpace m g :=
  ⟨((wfGraph_iff m g).1 hg).1, alignOK_of_noAlign isAlpha m hg.noAlign, graphTextOKal_of_noAlign htx hg.noAlign⟩

/-- **the configured tree of a graph with alignments is grammar-valid, and its text parses back to
    its written form**, under every option -/
theorem C03al_text_parse {cfg : LexCfg} (hcfg : FmtCfgWf cfg = true) (isSpace isAlpha : Char → Bool) {m : Model}
    {g : Graph} {top : Option Str} {t : Str} (hw : ModelWf m) (hg : WfGraphAl m g)
    (hal : AlignOK isAlpha m g) (htx : GraphTextOKal cfg isSpace m g) (hpv : PushVars g) (hps : PushSrcOK g)
    (ht : topOf g top = some t) (htv : t ∈ g.variables) (hreach : ∀ v ∈ g.variables, Reach g t v)
    (i : Indent) (c : Bool) :
    ∃ T, configure m g top = .ok T ∧ WfTreeText cfg (writtenForm T.node) ∧
      encode m g top i c = .ok (format T i c) ∧
      C01.parse cfg isSpace (format T i c) = .ok ⟨writtenForm T.node, T.metadata⟩ :=
  encode_parse_text_al hcfg isSpace isAlpha hw hg hal htx hpv hps ht htv hreach i c

/-! ## non-vacuity -/

namespace AlExamples
open C03Examples (T S)
open C03alExamples (gA gA_conn)
open C03Text.Examples (isSp)

/-- `gA` (`Props/C03al.lean`): the graph of
    `(w / want-01~e.2 :ARG0~e.3 (b / boy~e.1) :ARG1 (g / go~e.5 :ARG0-of~e.7 b :polarity~e.9 -~10,11))`
    satisfies every hypothesis -/
example : GraphTextOKal Generated.lexCfg isSp Generated.defaultModel gA := by decide +kernel
example : WfGraphAl Generated.defaultModel gA ∧ AlignOK isAsciiAlpha Generated.defaultModel gA := by decide
example : PushVars gA ∧ PushSrcOK gA ∧ ¬ NoAlign gA := by decide
example : gA.variables = ["w".toList, "b".toList, "g".toList] := by decide

/-- `C03al_text` applies to `gA` from EVERY top (`w`, `b`, `g`), every indentation, both compactness
    settings, and tells where each alignment ends up -/
example (t : Str) (ht : t ∈ gA.variables) (i : Indent) (c : Bool) :
    ∃ s g', encode Generated.defaultModel gA (some t) i c = .ok s ∧
      decode Generated.lexCfg isSp isAsciiAlpha Generated.defaultModel s = .ok g' ∧ g'.getTop = some t ∧
      roleAlnOf g' (T "w" ":ARG0" (S "b")) = some (.roleAln (some "e.".toList) [3]) ∧
      tgtAlnOf g' (T "b" ":instance" (S "boy")) = some (.aln (some "e.".toList) [1]) ∧
      roleAlnOf g' (T "b" ":ARG0" (S "g")) = some (.roleAln (some "e.".toList) [7]) ∧
      roleAlnOf g' (T "g" ":polarity" (S "-")) = some (.roleAln (some "e.".toList) [9]) ∧
      tgtAlnOf g' (T "g" ":polarity" (S "-")) = some (.aln none [10, 11]) ∧
      tgtAlnOf g' (T "w" ":ARG1" (S "g")) = none := by
  obtain ⟨s, g', h1, h2, h3, _, _, h4, _⟩ := C03al_text_generated isSp isAsciiAlpha (top := some t)
    C13.modelWf_default (by decide) (by decide) (by decide) (by decide +kernel) (by decide) (by decide) rfl ht
    (gA_conn t ht) i c
  refine ⟨s, g', h1, h2, h3, ?_, ?_, ?_, ?_, ?_, ?_⟩
  · exact (h4 (T "w" ":ARG0" (S "b")) (by decide)).2.1
  · exact (h4 (T "b" ":instance" (S "boy")) (by decide)).2.2
  · exact (h4 (T "b" ":ARG0" (S "g")) (by decide)).2.1
  · exact (h4 (T "g" ":polarity" (S "-")) (by decide)).2.1
  · exact (h4 (T "g" ":polarity" (S "-")) (by decide)).2.2
  · exact (h4 (T "w" ":ARG1" (S "g")) (by decide)).2.2

/-- the two tops `b` and `g` (neither is the original top `w`), spelled out -/
example (i : Indent) (c : Bool) :
    (∃ s g', encode Generated.defaultModel gA (some "b".toList) i c = .ok s ∧
      decode Generated.lexCfg isSp isAsciiAlpha Generated.defaultModel s = .ok g' ∧ g'.getTop = some "b".toList) ∧
    (∃ s g', encode Generated.defaultModel gA (some "g".toList) i c = .ok s ∧
      decode Generated.lexCfg isSp isAsciiAlpha Generated.defaultModel s = .ok g' ∧ g'.getTop = some "g".toList) := by
  constructor
  · obtain ⟨s, g', h1, h2, h3, _⟩ := C03al_text_generated isSp isAsciiAlpha (top := some "b".toList)
      C13.modelWf_default (by decide) (by decide) (by decide) (by decide +kernel) (by decide) (by decide) rfl
      (by decide) (gA_conn _ (by decide)) i c
    exact ⟨s, g', h1, h2, h3⟩
  · obtain ⟨s, g', h1, h2, h3, _⟩ := C03al_text_generated isSp isAsciiAlpha (top := some "g".toList)
      C13.modelWf_default (by decide) (by decide) (by decide) (by decide +kernel) (by decide) (by decide) rfl
      (by decide) (gA_conn _ (by decide)) i c
    exact ⟨s, g', h1, h2, h3⟩

/-! ### running the model (kernel-evaluable twin `C02.configure'` of `configure`) -/

def encode' (m : Model) (g : Graph) (top : Option Str) (i : Indent) (c : Bool) : Except PyErr Str :=
  (C02.configure' m g top).map (fun T => format T i c)

theorem encode_eq' (m : Model) (g : Graph) (top : Option Str) (i : Indent) (c : Bool) :
    encode m g top i c = encode' m g top i c := by
  unfold encode encode'; rw [C02.configure_eq]

/-- from the top `b` the real code writes exactly this text (replayed) … -/
example : (encode' Generated.defaultModel gA (some "b".toList) (some (-1)) false).toOption =
    some "(b / boy~e.1\n   :ARG0-of~e.3 (w / want-01~e.2\n                   :ARG1 (g / go~e.5\n                            :ARG0-of~e.7 b\n                            :polarity~e.9 -~10,11)))".toList := by
  decide +kernel
/-- … and from the top `g`, on one line -/
example : (encode' Generated.defaultModel gA (some "g".toList) none false).toOption =
    some "(g / go~e.5 :ARG1-of (w / want-01~e.2 :ARG0~e.3 (b / boy~e.1)) :ARG0-of~e.7 b :polarity~e.9 -~10,11)".toList := by
  decide +kernel

/-- encode from `top`, decode the TEXT, and report the role alignment and the alignment of `x` -/
def roundTripText (g : Graph) (top : String) (i : Indent) (c : Bool) (x : Triple) :
    Option (Option Epi × Option Epi) :=
  match (encode' Generated.defaultModel g (some top.toList) i c).bind
      (decode Generated.lexCfg isSp isAsciiAlpha Generated.defaultModel) with
  | .ok g' => some (roleAlnOf g' x, tgtAlnOf g' x)
  | .error _ => none

example : roundTripText gA "b" (some (-1)) false (T "w" ":ARG0" (S "b")) =
    some (some (.roleAln (some "e.".toList) [3]), none) := by decide +kernel
example : roundTripText gA "g" none true (T "g" ":polarity" (S "-")) =
    some (some (.roleAln (some "e.".toList) [9]), some (.aln none [10, 11])) := by decide +kernel

/-! ### a quoted string containing `~`, with an alignment: allowed -/

/-- `penman.decode('(a / x :name "a~b"~e.4 :q~e.1 "q"~2)')` -/
def gQ : Graph :=
  { triples := [T "a" ":instance" (S "x"), T "a" ":name" (S "\"a~b\""), T "a" ":q" (S "\"q\"")],
    epidata := [(T "a" ":name" (S "\"a~b\""), [.aln (some "e.".toList) [4]]),
                (T "a" ":q" (S "\"q\""), [.roleAln (some "e.".toList) [1], .aln none [2]])] }
example : WfGraphAl Generated.defaultModel gQ ∧ AlignOK isAsciiAlpha Generated.defaultModel gQ ∧
    GraphTextOKal Generated.lexCfg isSp Generated.defaultModel gQ ∧ PushVars gQ ∧ PushSrcOK gQ := by decide +kernel
example : roundTripText gQ "a" (some (-1)) false (T "a" ":name" (S "\"a~b\"")) =
    some (none, some (.aln (some "e.".toList) [4])) := by decide +kernel

/-! ### COUNTEREXAMPLE (boundary): a number and the string spelled like it, different alignments -/

/-- `Graph([('a',':instance','x'), ('a',':q',0), ('a',':q','0')])` with `~e.1` on the role of the
    first `:q` and `~e.2` on the second -/
def exNumStr : Graph :=
  { triples := [T "a" ":instance" (S "x"), T "a" ":q" (.num "0".toList), T "a" ":q" (S "0")],
    epidata := [(T "a" ":q" (.num "0".toList), [.roleAln (some "e.".toList) [1]]),
                (T "a" ":q" (S "0"), [.roleAln (some "e.".toList) [2]])] }

/-- every hypothesis of `C03al_text` holds except `GraphTextOKal.agreeW` … -/
example : WfGraphAl Generated.defaultModel exNumStr ∧ AlignOK isAsciiAlpha Generated.defaultModel exNumStr ∧
    GraphTextOK Generated.lexCfg isSp Generated.defaultModel exNumStr ∧
    (∀ t ∈ exNumStr.triples, ∀ e ∈ episOf exNumStr t, e.mode ≠ 0 → alignmentB Generated.lexCfg e.toStr = true) ∧
    PushVars exNumStr ∧ PushSrcOK exNumStr := by decide +kernel
example : ¬ GraphTextOKal Generated.lexCfg isSp Generated.defaultModel exNumStr := by decide +kernel
/-- … the text is `(a / x :q~e.1 0 :q~e.2 0)` … -/
example : (encode' Generated.defaultModel exNumStr none none false).toOption =
    some "(a / x :q~e.1 0 :q~e.2 0)".toList := by decide +kernel
/-- … and the second triple's role alignment `~e.2` comes back as `~e.1` (real code: the same, with the
    warning "ignoring epigraph data for duplicate triple") -/
example : roleAlnOf exNumStr (T "a" ":q" (S "0")) = some (.roleAln (some "e.".toList) [2]) := by decide
example : roundTripText exNumStr "a" none false (T "a" ":q" (S "0")) =
    some (some (.roleAln (some "e.".toList) [1]), none) := by decide +kernel

/-! ### COUNTEREXAMPLE (boundary): a marker that `from_string` reads back but the lexer does not -/

/-- `str.isalpha` accepts more than `[a-zA-Z]` -/
def isAlphaE (c : Char) : Bool := isAsciiAlpha c || c == 'é'

/-- `Graph([('a',':instance','x'), ('a',':q','y')])` with `RoleAlignment((1,), prefix='é.')` on `:q` -/
def exUni : Graph :=
  { triples := [T "a" ":instance" (S "x"), T "a" ":q" (S "y")],
    epidata := [(T "a" ":q" (S "y"), [.roleAln (some "é.".toList) [1]])] }

/-- every hypothesis of `C03al_text` holds (with `isAlphaE`) except `GraphTextOKal.markers` … -/
example : WfGraphAl Generated.defaultModel exUni ∧ AlignOK isAlphaE Generated.defaultModel exUni ∧
    GraphTextOK Generated.lexCfg isSp Generated.defaultModel exUni ∧ NoNum exUni ∧
    PushVars exUni ∧ PushSrcOK exUni := by decide +kernel
example : ¬ GraphTextOKal Generated.lexCfg isSp Generated.defaultModel exUni := by decide +kernel
/-- … so the tree-level round trip `C03al` keeps the alignment … -/
example : ∃ T' g', configure Generated.defaultModel exUni none = .ok T' ∧
    interpret isAlphaE Generated.defaultModel T' = .ok g' ∧
    roleAlnOf g' (T "a" ":q" (S "y")) = some (.roleAln (some "é.".toList) [1]) := by
  obtain ⟨T', g', h1, h2, _, _, _, _, h4, _⟩ := C03al isAlphaE (g := exUni) (top := none) (t := "a".toList)
    C13.modelWf_default (by decide) (by decide) (by decide +kernel) (by decide) (by decide) (by decide) rfl
    (by decide) (by
      intro v hv
      have : exUni.variables = ["a".toList] := by decide
      rw [this] at hv; simp only [List.mem_singleton] at hv; subst hv; exact Reach.refl)
  exact ⟨T', g', h1, h2, (h4 (T "a" ":q" (S "y")) (by decide)).2.1⟩
/-- … but the text is `(a / x :q~é.1 y)` and decoding it fails at the `~` (real code: `DecodeError`,
    line 1, offset 9, "Expected: SYMBOL, STRING, LPAREN") -/
example : (encode' Generated.defaultModel exUni none none false).toOption =
    some "(a / x :q~é.1 y)".toList := by decide +kernel
example : C06Examples.errOf ((encode' Generated.defaultModel exUni none none false).bind
    (decode Generated.lexCfg isSp isAlphaE Generated.defaultModel)) = some (.decode 1 9 1) := by decide +kernel

/-! ### the new hypotheses exclude something -/

/-- a marker whose printed form is no ALIGNMENT token (`~e.` without index): `markers` fails -/
example : ¬ GraphTextOKal Generated.lexCfg isSp Generated.defaultModel
    { triples := [T "a" ":instance" (S "x")],
      epidata := [(T "a" ":instance" (S "x"), [.aln (some "e.".toList) []])] } := by decide +kernel

end AlExamples

end Penman.C03Text

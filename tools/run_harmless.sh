#!/bin/sh
# false-alarm measurement: apply each behaviour-preserving refactoring of harmless/ to a scratch
# worktree of /repo (PENMAN_REPO) and run every quick check; every line should say "held".
W=${1:-/tmp/seedrun}
V=$(cd "$(dirname "$0")/.." && pwd)
cd $V
OUT=$(mktemp /tmp/check_out.XXXXXX)
[ -d $W ] || git -C /repo worktree add -q --detach $W HEAD
for d in harmless/h*.diff; do
  NAME=$(basename $d .diff)
  git -C $W checkout -q -- .
  git -C $W apply $V/$d || { echo "$NAME: patch does not apply"; continue; }
  for P in $(python3 -c "import json;print(' '.join(c['property_id'] for c in json.load(open('MANIFEST.json'))['checks']))"); do
    PENMAN_REPO=$W ./check $P > $OUT 2>&1
    RC=$?
    if [ $RC -ne 0 ] || grep -q "^VIOLATION" $OUT; then
      echo "$NAME $P: exit=$RC ALARM: $(grep '^VIOLATION' $OUT | head -1)"
    else
      echo "$NAME $P: held"
    fi
  done
  git -C $W checkout -q -- .
done
PENMAN_REPO=/repo /venv/bin/python tools/gen_tables.py >/dev/null
rm -f $OUT
